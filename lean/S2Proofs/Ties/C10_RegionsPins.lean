/-
  S2Proofs.Ties.C10_RegionsPins — literal pins of S2.Generated.RegionFns (written by translator_c07/mkpins.py from the generated
  file of the UNCHANGED tree; hand-owned afterwards).  Every theorem is `rfl` against the regenerated definition: an edit
  of the Go source that changes an operator, an operand, a constant, the order of two tests, a call target or drops a
  statement changes a definition body or a shape string and the theorem no longer builds.
-/
import S2.Generated.RegionFns
import S2.Relate
namespace S2Proofs.Ties.C10_RegionsPins
open S2 S2.Generated
set_option linter.unusedVariables false
set_option linter.unusedSectionVars false
set_option maxRecDepth 4000

variable {α : Type} [DecidableEq α] (G : Relate.Geo α)

theorem shape_Rect_CapBound : RegionFns.Rect_CapBound_shape =
    "if cond0⟨r.IsEmpty()⟩ {return EmptyCap()}; var poleZ, poleAngle float64; if cond1⟨r.Lat.Hi; r.Lat.Lo⟩ {poleZ = -1; poleAngle = val0⟨r.Lat.Hi⟩} else {poleZ = 1; poleAngle = val1⟨r.Lat.Lo⟩}; poleCap := CapFromCenterAngle(val2⟨poleZ⟩, val3⟨poleAngle⟩); if cond2⟨math.Remainder(val4⟨r.Lng.Hi; r.Lng.Lo⟩, 2 * math.Pi); r.Lng.Hi; r.Lng.Lo⟩ {midCap := CapFromPoint(PointFromLatLng(r.Center())).AddPoint(PointFromLatLng(r.Lo())).AddPoint(PointFromLatLng(r.Hi())); if cond3⟨midCap.Height(); poleCap.Height()⟩ {return padCapBound(midCap, rectCapBoundSlack)}}; return padCapBound(poleCap, rectCapBoundSlack)" := rfl
theorem exprs_Rect_CapBound : RegionFns.Rect_CapBound_exprs =
    "cond0: r.IsEmpty() | cond1: r.Lat.Hi+r.Lat.Lo < 0 | val0: math.Pi/2 + r.Lat.Hi | val1: math.Pi/2 - r.Lat.Lo | val2: Point{r3.Vector{X: 0, Y: 0, Z: poleZ}} | val3: s1.Angle(poleAngle) * s1.Radian | val4: r.Lng.Hi - r.Lng.Lo | cond2: math.Remainder(r.Lng.Hi-r.Lng.Lo, 2*math.Pi) >= 0 && r.Lng.Hi-r.Lng.Lo < 2*math.Pi | cond3: midCap.Height() < poleCap.Height()" := rfl
theorem shape_padCapBound : RegionFns.padCapBound_shape =
    "c = c.Expanded(val0⟨slack⟩); c.radius = c.radius.Expanded(val1⟨c.radius.MaxAngleError(); c.radius.MaxPointError()⟩); return c" := rfl
theorem exprs_padCapBound : RegionFns.padCapBound_exprs =
    "val0: s1.Angle(slack * dblEpsilon) | val1: c.radius.MaxAngleError() + c.radius.MaxPointError()" := rfl
theorem shape_Rect_RectBound : RegionFns.Rect_RectBound_shape =
    "return r" := rfl
theorem exprs_Rect_RectBound : RegionFns.Rect_RectBound_exprs =
    "" := rfl
theorem shape_RectFromLatLng : RegionFns.RectFromLatLng_shape =
    "return Rect{Lat: r1.Interval{Lo: p.Lat.Radians(), Hi: p.Lat.Radians()}, Lng: s1.Interval{Lo: p.Lng.Radians(), Hi: p.Lng.Radians()}}" := rfl
theorem exprs_RectFromLatLng : RegionFns.RectFromLatLng_exprs =
    "" := rfl
theorem shape_RectFromCenterSize : RegionFns.RectFromCenterSize_shape =
    "half := LatLng{val0⟨size.Lat⟩, val1⟨size.Lng⟩}; return RectFromLatLng(center).expanded(half)" := rfl
theorem exprs_RectFromCenterSize : RegionFns.RectFromCenterSize_exprs =
    "val0: size.Lat / 2 | val1: size.Lng / 2" := rfl
theorem shape_Rect_PolarClosure : RegionFns.Rect_PolarClosure_shape =
    "if cond0⟨r.Lat.Lo; r.Lat.Hi⟩ {return Rect{r.Lat, s1.FullInterval()}}; return r" := rfl
theorem exprs_Rect_PolarClosure : RegionFns.Rect_PolarClosure_exprs =
    "cond0: r.Lat.Lo == -math.Pi/2 || r.Lat.Hi == math.Pi/2" := rfl
theorem shape_Rect_expanded : RegionFns.Rect_expanded_shape =
    "lat := r.Lat.Expanded(margin.Lat.Radians()); lng := r.Lng.Expanded(margin.Lng.Radians()); if cond0⟨lat.IsEmpty(); lng.IsEmpty()⟩ {return EmptyRect()}; return Rect{Lat: lat.Intersection(validRectLatRange), Lng: lng}" := rfl
theorem exprs_Rect_expanded : RegionFns.Rect_expanded_exprs =
    "cond0: lat.IsEmpty() || lng.IsEmpty()" := rfl
theorem shape_Cap_CapBound : RegionFns.Cap_CapBound_shape =
    "return c" := rfl
theorem exprs_Cap_CapBound : RegionFns.Cap_CapBound_exprs =
    "" := rfl
theorem shape_Cap_RectBound : RegionFns.Cap_RectBound_shape =
    "if cond0⟨c.IsEmpty()⟩ {return EmptyRect()}; capAngle := c.radius.Expanded(val0⟨c.radius⟩).Angle().Radians(); allLongitudes := false; lat := r1.Interval{Lo: val1⟨latitude(c.center); capAngle⟩, Hi: val2⟨latitude(c.center); capAngle⟩}; lng := s1.FullInterval(); if cond1⟨lat.Lo⟩ {lat.Lo = -math.Pi / 2; allLongitudes = true}; if cond2⟨lat.Hi⟩ {lat.Hi = math.Pi / 2; allLongitudes = true}; if cond3⟨allLongitudes⟩ {sinA := c.radius.Sin(); sinC := val3⟨c.center⟩; if[q := val4⟨sinA; sinC⟩] cond4⟨q⟩ {angleA := math.Asin(q); lng.Lo = math.Remainder(val5⟨longitude(c.center); angleA⟩, math.Pi * 2); lng.Hi = math.Remainder(val6⟨longitude(c.center); angleA⟩, math.Pi * 2)}}; margin := s1.Angle(capRectBoundSlack * dblEpsilon); return (Rect{lat, lng}).expanded(LatLng{margin, margin}).PolarClosure()" := rfl
theorem exprs_Cap_RectBound : RegionFns.Cap_RectBound_exprs =
    "cond0: c.IsEmpty() | val0: capRectBoundSlack * dblEpsilon * float64(c.radius) | val1: latitude(c.center).Radians() - capAngle | val2: latitude(c.center).Radians() + capAngle | cond1: lat.Lo <= -math.Pi/2 | cond2: lat.Hi >= math.Pi/2 | cond3: !allLongitudes | val3: math.Sqrt(c.center.X*c.center.X+c.center.Y*c.center.Y) / c.center.Norm() | val4: sinA / sinC * (1 + capRectBoundSlack*dblEpsilon) | cond4: q < 1 | val5: longitude(c.center).Radians() - angleA | val6: longitude(c.center).Radians() + angleA" := rfl
theorem shape_Cell_RectBound : RegionFns.Cell_RectBound_shape =
    "if cond0⟨c.level⟩ {u := val0⟨c.uv.X.Lo; c.uv.X.Hi⟩; v := val1⟨c.uv.Y.Lo; c.uv.Y.Hi⟩; var i, j int; if cond1⟨uAxis(int(c.face))⟩ {if cond2⟨u⟩ {i = 1}} else if cond3⟨u⟩ {i = 1}; if cond4⟨vAxis(int(c.face))⟩ {if cond5⟨v⟩ {j = 1}} else if cond6⟨v⟩ {j = 1}; lat := r1.IntervalFromPoint(c.latitude(i, j)).AddPoint(c.latitude(val2⟨i⟩, val3⟨j⟩)); lng := s1.EmptyInterval().AddPoint(c.longitude(i, val5⟨j⟩)).AddPoint(c.longitude(val4⟨i⟩, j)); return (Rect{lat, lng}).expanded(LatLng{s1.Angle(2 * dblEpsilon), s1.Angle(2 * dblEpsilon)}).PolarClosure()}; var bound Rect; switch c.face {case 0: bound = Rect{r1.Interval{Lo: -math.Pi / 4, Hi: math.Pi / 4}, s1.Interval{Lo: -math.Pi / 4, Hi: math.Pi / 4}} | case 1: bound = Rect{r1.Interval{Lo: -math.Pi / 4, Hi: math.Pi / 4}, s1.Interval{Lo: math.Pi / 4, Hi: 3 * math.Pi / 4}} | case 2: bound = Rect{r1.Interval{Lo: poleMinLat, Hi: math.Pi / 2}, s1.FullInterval()} | case 3: bound = Rect{r1.Interval{Lo: -math.Pi / 4, Hi: math.Pi / 4}, s1.Interval{Lo: 3 * math.Pi / 4, Hi: -3 * math.Pi / 4}} | case 4: bound = Rect{r1.Interval{Lo: -math.Pi / 4, Hi: math.Pi / 4}, s1.Interval{Lo: -3 * math.Pi / 4, Hi: -math.Pi / 4}} | default: bound = Rect{r1.Interval{Lo: -math.Pi / 2, Hi: val6⟨poleMinLat⟩}, s1.FullInterval()}}; return bound.expanded(LatLng{s1.Angle(dblEpsilon), s1.Angle(0)})" := rfl
theorem exprs_Cell_RectBound : RegionFns.Cell_RectBound_exprs =
    "cond0: c.level > 0 | val0: c.uv.X.Lo + c.uv.X.Hi | val1: c.uv.Y.Lo + c.uv.Y.Hi | cond1: uAxis(int(c.face)).Z == 0 | cond2: u < 0 | cond3: u > 0 | cond4: vAxis(int(c.face)).Z == 0 | cond5: v < 0 | cond6: v > 0 | val2: 1 - i | val3: 1 - j | val4: 1 - i | val5: 1 - j | val6: -poleMinLat" := rfl
theorem shape_Cell_CapBound : RegionFns.Cell_CapBound_shape =
    "cap := CapFromPoint(val0⟨faceUVToXYZ(int(c.face), c.uv.Center().X, c.uv.Center().Y)⟩); for[k := 0] cond0⟨k⟩ [k++] {cap = cap.AddPoint(c.Vertex(k))}; return padCapBound(cap, cellCapBoundSlack)" := rfl
theorem exprs_Cell_CapBound : RegionFns.Cell_CapBound_exprs =
    "val0: Point{faceUVToXYZ(int(c.face), c.uv.Center().X, c.uv.Center().Y).Normalize()} | cond0: k < 4" := rfl
theorem shape_Cell_MaxDistance : RegionFns.Cell_MaxDistance_shape =
    "targetUVW := faceXYZtoUVW(int(c.face), target); maxDist := maxChordAngle(c.vertexChordDist2(targetUVW, false, false), c.vertexChordDist2(targetUVW, true, false), c.vertexChordDist2(targetUVW, false, true), c.vertexChordDist2(targetUVW, true, true)); if cond0⟨maxDist⟩ {return maxDist}; return val1⟨c.Distance(val0⟨target⟩)⟩" := rfl
theorem exprs_Cell_MaxDistance : RegionFns.Cell_MaxDistance_exprs =
    "cond0: maxDist <= s1.RightChordAngle | val0: Point{target.Mul(-1)} | val1: s1.StraightChordAngle - c.Distance(Point{target.Mul(-1)})" := rfl
theorem shape_Cell_DistanceToEdge : RegionFns.Cell_DistanceToEdge_shape =
    "minDist := minChordAngle(c.Distance(a), c.Distance(b)); if cond0⟨minDist⟩ {return minDist}; crosser := NewChainEdgeCrosser(a, b, c.Vertex(3)); for[i := 0] cond1⟨i⟩ [i++] {if cond2⟨crosser.ChainCrossingSign(c.Vertex(i))⟩ {return 0}}; for[i := 0] cond3⟨i⟩ [i++] {minDist, _ = UpdateMinDistance(c.Vertex(i), a, b, minDist)}; return minDist" := rfl
theorem exprs_Cell_DistanceToEdge : RegionFns.Cell_DistanceToEdge_exprs =
    "cond0: minDist == 0 | cond1: i < 4 | cond2: crosser.ChainCrossingSign(c.Vertex(i)) != DoNotCross | cond3: i < 4" := rfl
theorem shape_Cell_MaxDistanceToEdge : RegionFns.Cell_MaxDistanceToEdge_shape =
    "maxDist := maxChordAngle(c.MaxDistance(a), c.MaxDistance(b)); if cond0⟨maxDist⟩ {return maxDist}; return val2⟨c.DistanceToEdge(val0⟨a⟩, val1⟨b⟩)⟩" := rfl
theorem exprs_Cell_MaxDistanceToEdge : RegionFns.Cell_MaxDistanceToEdge_exprs =
    "cond0: maxDist <= s1.RightChordAngle | val0: Point{a.Mul(-1)} | val1: Point{b.Mul(-1)} | val2: s1.StraightChordAngle - c.DistanceToEdge(Point{a.Mul(-1)}, Point{b.Mul(-1)})" := rfl
theorem shape_Cell_DistanceToCell : RegionFns.Cell_DistanceToCell_shape =
    "if cond0⟨c.face; target.face; c.uv.Intersects(target.uv)⟩ {return 0}; var va, vb [4]Point; for[i := 0] cond1⟨i⟩ [i++] {va[i] = c.Vertex(i); vb[i] = target.Vertex(i)}; minDist := s1.InfChordAngle(); for[i := 0] cond2⟨i⟩ [i++] {for[j := 0] cond3⟨j⟩ [j++] {minDist, _ = UpdateMinDistance(va[i], vb[j], vb[(val0⟨j⟩) & 3], minDist); minDist, _ = UpdateMinDistance(vb[i], va[j], va[(val1⟨j⟩) & 3], minDist)}}; return minDist" := rfl
theorem exprs_Cell_DistanceToCell : RegionFns.Cell_DistanceToCell_exprs =
    "cond0: c.face == target.face && c.uv.Intersects(target.uv) | cond1: i < 4 | cond2: i < 4 | cond3: j < 4 | val0: j + 1 | val1: j + 1" := rfl
theorem shape_Cell_MaxDistanceToCell : RegionFns.Cell_MaxDistanceToCell_shape =
    "antipodalUV := r2.Rect{X: target.uv.Y, Y: target.uv.X}; if cond0⟨c.face; oppositeFace(int(target.face)); c.uv.Intersects(antipodalUV)⟩ {return s1.StraightChordAngle}; var va, vb [4]Point; for[i := 0] cond1⟨i⟩ [i++] {va[i] = c.Vertex(i); vb[i] = target.Vertex(i)}; maxDist := s1.NegativeChordAngle; for[i := 0] cond2⟨i⟩ [i++] {for[j := 0] cond3⟨j⟩ [j++] {maxDist, _ = UpdateMaxDistance(va[i], vb[j], vb[(val0⟨j⟩) & 3], maxDist); maxDist, _ = UpdateMaxDistance(vb[i], va[j], va[(val1⟨j⟩) & 3], maxDist)}}; return maxDist" := rfl
theorem exprs_Cell_MaxDistanceToCell : RegionFns.Cell_MaxDistanceToCell_exprs =
    "cond0: int(c.face) == oppositeFace(int(target.face)) && c.uv.Intersects(antipodalUV) | cond1: i < 4 | cond2: i < 4 | cond3: j < 4 | val0: j + 1 | val1: j + 1" := rfl
theorem shape_CellUnion_RectBound : RegionFns.CellUnion_RectBound_shape =
    "bound := EmptyRect(); range _, c := *cu {bound = bound.Union(CellFromCellID(c).RectBound())}; return bound" := rfl
theorem exprs_CellUnion_RectBound : RegionFns.CellUnion_RectBound_exprs =
    "" := rfl
theorem shape_CellUnion_CapBound : RegionFns.CellUnion_CapBound_shape =
    "if cond0⟨cu⟩ {return EmptyCap()}; var centroid Point; range _, ci := *cu {area := AvgAreaMetric.Value(val0⟨ci⟩); centroid = val1⟨centroid; ci.Point(); area⟩}; if[zero := (Point{})] cond1⟨centroid; zero⟩ {centroid = PointFromCoords(1, 0, 0)} else {centroid = val2⟨centroid⟩}; c := CapFromPoint(centroid); range _, ci := *cu {c = c.AddCap(CellFromCellID(ci).CapBound())}; return c" := rfl
theorem exprs_CellUnion_CapBound : RegionFns.CellUnion_CapBound_exprs =
    "cond0: len(*cu) == 0 | val0: ci.Level() | val1: Point{centroid.Add(ci.Point().Mul(area))} | cond1: centroid == zero | val2: Point{centroid.Normalize()}" := rfl
theorem shape_Polyline_CapBound : RegionFns.Polyline_CapBound_shape =
    "return p.RectBound().CapBound()" := rfl
theorem exprs_Polyline_CapBound : RegionFns.Polyline_CapBound_exprs =
    "" := rfl
theorem shape_Polyline_RectBound : RegionFns.Polyline_RectBound_shape =
    "rb := NewRectBounder(); range _, v := *p {rb.AddPoint(v)}; return rb.RectBound()" := rfl
theorem exprs_Polyline_RectBound : RegionFns.Polyline_RectBound_exprs =
    "" := rfl
theorem shape_Polyline_Project : RegionFns.Polyline_Project_shape =
    "if cond0⟨len(*p)⟩ {return (*p)[0], 1}; minDist := 10 * s1.Radian; minIndex := -1; for[i := 1] cond1⟨i; len(*p)⟩ [i++] {if[dist := DistanceFromSegment(point, (*p)[val0⟨i⟩], (*p)[i])] cond2⟨dist; minDist⟩ {minDist = dist; minIndex = i}}; closest := Project(point, (*p)[val1⟨minIndex⟩], (*p)[minIndex]); if cond3⟨closest; (*p)[minIndex]⟩ {minIndex++}; return closest, minIndex" := rfl
theorem exprs_Polyline_Project : RegionFns.Polyline_Project_exprs =
    "cond0: len(*p) == 1 | cond1: i < len(*p) | val0: i - 1 | cond2: dist < minDist | val1: minIndex - 1 | cond3: closest == (*p)[minIndex]" := rfl
theorem shape_Polyline_Interpolate : RegionFns.Polyline_Interpolate_shape =
    "if cond0⟨fraction⟩ {return (*p)[0], 1}; target := val0⟨fraction; p.Length()⟩; for[i := 1] cond1⟨i; len(*p)⟩ [i++] {length := (*p)[val1⟨i⟩].Distance((*p)[i]); if cond2⟨target; length⟩ {result := InterpolateAtDistance(target, (*p)[val2⟨i⟩], (*p)[i]); if cond3⟨result; (*p)[i]⟩ {return result, val3⟨i⟩}; return result, i}; target -= length}; return (*p)[val4⟨len(*p)⟩], len(*p)" := rfl
theorem exprs_Polyline_Interpolate : RegionFns.Polyline_Interpolate_exprs =
    "cond0: fraction <= 0 | val0: s1.Angle(fraction) * p.Length() | cond1: i < len(*p) | val1: i - 1 | cond2: target < length | val2: i - 1 | cond3: result == (*p)[i] | val3: i + 1 | val4: len(*p) - 1" := rfl
theorem shape_ShapeIndexRegion_CapBound : RegionFns.ShapeIndexRegion_CapBound_shape =
    "cu := CellUnion(s.CellUnionBound()); return cu.CapBound()" := rfl
theorem exprs_ShapeIndexRegion_CapBound : RegionFns.ShapeIndexRegion_CapBound_exprs =
    "" := rfl
theorem shape_ShapeIndexRegion_RectBound : RegionFns.ShapeIndexRegion_RectBound_shape =
    "cu := CellUnion(s.CellUnionBound()); return cu.RectBound()" := rfl
theorem exprs_ShapeIndexRegion_RectBound : RegionFns.ShapeIndexRegion_RectBound_exprs =
    "" := rfl

theorem pin_Rect_CapBound_cond0 (r_IsEmpty : Bool) :
    RegionFns.Rect_CapBound_cond0 r_IsEmpty = (r_IsEmpty) := rfl
theorem pin_Rect_CapBound_cond1 (r_Lat_Hi : F64) (r_Lat_Lo : F64) :
    RegionFns.Rect_CapBound_cond1 r_Lat_Hi r_Lat_Lo = (F64.lt (F64.add r_Lat_Hi r_Lat_Lo) (⟨0x0000000000000000⟩ : F64)) := rfl
theorem pin_Rect_CapBound_val0 (r_Lat_Hi : F64) :
    RegionFns.Rect_CapBound_val0 r_Lat_Hi = (F64.add (⟨0x3ff921fb54442d18⟩ : F64) r_Lat_Hi) := rfl
theorem pin_Rect_CapBound_val1 (r_Lat_Lo : F64) :
    RegionFns.Rect_CapBound_val1 r_Lat_Lo = (F64.sub (⟨0x3ff921fb54442d18⟩ : F64) r_Lat_Lo) := rfl
theorem pin_Rect_CapBound_val2 (poleZ : F64) :
    RegionFns.Rect_CapBound_val2 poleZ = (V3.mk (⟨0x0000000000000000⟩ : F64) (⟨0x0000000000000000⟩ : F64) poleZ) := rfl
theorem pin_Rect_CapBound_val3 (poleAngle : F64) :
    RegionFns.Rect_CapBound_val3 poleAngle = (F64.mul poleAngle (⟨0x3ff0000000000000⟩ : F64)) := rfl
theorem pin_Rect_CapBound_val4 (r_Lng_Hi : F64) (r_Lng_Lo : F64) :
    RegionFns.Rect_CapBound_val4 r_Lng_Hi r_Lng_Lo = (F64.sub r_Lng_Hi r_Lng_Lo) := rfl
theorem pin_Rect_CapBound_cond2 (math_Remainder_val4_2_math_Pi : F64) (r_Lng_Hi : F64) (r_Lng_Lo : F64) :
    RegionFns.Rect_CapBound_cond2 math_Remainder_val4_2_math_Pi r_Lng_Hi r_Lng_Lo = ((F64.le (⟨0x0000000000000000⟩ : F64) math_Remainder_val4_2_math_Pi) && (F64.lt (F64.sub r_Lng_Hi r_Lng_Lo) (⟨0x401921fb54442d18⟩ : F64))) := rfl
theorem pin_Rect_CapBound_cond3 (midCap_Height : F64) (poleCap_Height : F64) :
    RegionFns.Rect_CapBound_cond3 midCap_Height poleCap_Height = (F64.lt midCap_Height poleCap_Height) := rfl
theorem pin_padCapBound_val0 (slack : F64) :
    RegionFns.padCapBound_val0 slack = (F64.mul slack (⟨0x3cb0000000000000⟩ : F64)) := rfl
theorem pin_padCapBound_val1 (c_radius_MaxAngleError : F64) (c_radius_MaxPointError : F64) :
    RegionFns.padCapBound_val1 c_radius_MaxAngleError c_radius_MaxPointError = (F64.add c_radius_MaxAngleError c_radius_MaxPointError) := rfl
theorem pin_RectFromCenterSize_val0 (size_Lat : F64) :
    RegionFns.RectFromCenterSize_val0 size_Lat = (F64.div size_Lat (⟨0x4000000000000000⟩ : F64)) := rfl
theorem pin_RectFromCenterSize_val1 (size_Lng : F64) :
    RegionFns.RectFromCenterSize_val1 size_Lng = (F64.div size_Lng (⟨0x4000000000000000⟩ : F64)) := rfl
theorem pin_Rect_PolarClosure_cond0 (r_Lat_Lo : F64) (r_Lat_Hi : F64) :
    RegionFns.Rect_PolarClosure_cond0 r_Lat_Lo r_Lat_Hi = ((F64.feq r_Lat_Lo (⟨0xbff921fb54442d18⟩ : F64)) || (F64.feq r_Lat_Hi (⟨0x3ff921fb54442d18⟩ : F64))) := rfl
theorem pin_Rect_expanded_cond0 (lat_IsEmpty : Bool) (lng_IsEmpty : Bool) :
    RegionFns.Rect_expanded_cond0 lat_IsEmpty lng_IsEmpty = (lat_IsEmpty || lng_IsEmpty) := rfl
theorem pin_Cap_RectBound_cond0 (c_IsEmpty : Bool) :
    RegionFns.Cap_RectBound_cond0 c_IsEmpty = (c_IsEmpty) := rfl
theorem pin_Cap_RectBound_val0 (c_radius : F64) :
    RegionFns.Cap_RectBound_val0 c_radius = (F64.mul (⟨0x3cd0000000000000⟩ : F64) c_radius) := rfl
theorem pin_Cap_RectBound_val1 (latitude_c_center : F64) (capAngle : F64) :
    RegionFns.Cap_RectBound_val1 latitude_c_center capAngle = (F64.sub latitude_c_center capAngle) := rfl
theorem pin_Cap_RectBound_val2 (latitude_c_center : F64) (capAngle : F64) :
    RegionFns.Cap_RectBound_val2 latitude_c_center capAngle = (F64.add latitude_c_center capAngle) := rfl
theorem pin_Cap_RectBound_cond1 (lat_Lo : F64) :
    RegionFns.Cap_RectBound_cond1 lat_Lo = (F64.le lat_Lo (⟨0xbff921fb54442d18⟩ : F64)) := rfl
theorem pin_Cap_RectBound_cond2 (lat_Hi : F64) :
    RegionFns.Cap_RectBound_cond2 lat_Hi = (F64.le (⟨0x3ff921fb54442d18⟩ : F64) lat_Hi) := rfl
theorem pin_Cap_RectBound_cond3 (allLongitudes : Bool) :
    RegionFns.Cap_RectBound_cond3 allLongitudes = (!allLongitudes) := rfl
theorem pin_Cap_RectBound_val3 (c_center : V3) :
    RegionFns.Cap_RectBound_val3 c_center = (F64.div (F64.sqrt (F64.add (F64.mul c_center.x c_center.x) (F64.mul c_center.y c_center.y))) (V3.norm c_center)) := rfl
theorem pin_Cap_RectBound_val4 (sinA : F64) (sinC : F64) :
    RegionFns.Cap_RectBound_val4 sinA sinC = (F64.mul (F64.div sinA sinC) (⟨0x3ff0000000000004⟩ : F64)) := rfl
theorem pin_Cap_RectBound_cond4 (q : F64) :
    RegionFns.Cap_RectBound_cond4 q = (F64.lt q (⟨0x3ff0000000000000⟩ : F64)) := rfl
theorem pin_Cap_RectBound_val5 (longitude_c_center : F64) (angleA : F64) :
    RegionFns.Cap_RectBound_val5 longitude_c_center angleA = (F64.sub longitude_c_center angleA) := rfl
theorem pin_Cap_RectBound_val6 (longitude_c_center : F64) (angleA : F64) :
    RegionFns.Cap_RectBound_val6 longitude_c_center angleA = (F64.add longitude_c_center angleA) := rfl
theorem pin_Cell_RectBound_cond0 (c_level : Int) :
    RegionFns.Cell_RectBound_cond0 c_level = (decide (c_level > 0)) := rfl
theorem pin_Cell_RectBound_val0 (c_uv_X_Lo : F64) (c_uv_X_Hi : F64) :
    RegionFns.Cell_RectBound_val0 c_uv_X_Lo c_uv_X_Hi = (F64.add c_uv_X_Lo c_uv_X_Hi) := rfl
theorem pin_Cell_RectBound_val1 (c_uv_Y_Lo : F64) (c_uv_Y_Hi : F64) :
    RegionFns.Cell_RectBound_val1 c_uv_Y_Lo c_uv_Y_Hi = (F64.add c_uv_Y_Lo c_uv_Y_Hi) := rfl
theorem pin_Cell_RectBound_cond1 (uAxis_int_c_face : V3) :
    RegionFns.Cell_RectBound_cond1 uAxis_int_c_face = (F64.feq uAxis_int_c_face.z (⟨0x0000000000000000⟩ : F64)) := rfl
theorem pin_Cell_RectBound_cond2 (u : F64) :
    RegionFns.Cell_RectBound_cond2 u = (F64.lt u (⟨0x0000000000000000⟩ : F64)) := rfl
theorem pin_Cell_RectBound_cond3 (u : F64) :
    RegionFns.Cell_RectBound_cond3 u = (F64.lt (⟨0x0000000000000000⟩ : F64) u) := rfl
theorem pin_Cell_RectBound_cond4 (vAxis_int_c_face : V3) :
    RegionFns.Cell_RectBound_cond4 vAxis_int_c_face = (F64.feq vAxis_int_c_face.z (⟨0x0000000000000000⟩ : F64)) := rfl
theorem pin_Cell_RectBound_cond5 (v : F64) :
    RegionFns.Cell_RectBound_cond5 v = (F64.lt v (⟨0x0000000000000000⟩ : F64)) := rfl
theorem pin_Cell_RectBound_cond6 (v : F64) :
    RegionFns.Cell_RectBound_cond6 v = (F64.lt (⟨0x0000000000000000⟩ : F64) v) := rfl
theorem pin_Cell_RectBound_val2 (i : Int) :
    RegionFns.Cell_RectBound_val2 i = (1 - i) := rfl
theorem pin_Cell_RectBound_val3 (j : Int) :
    RegionFns.Cell_RectBound_val3 j = (1 - j) := rfl
theorem pin_Cell_RectBound_val4 (i : Int) :
    RegionFns.Cell_RectBound_val4 i = (1 - i) := rfl
theorem pin_Cell_RectBound_val5 (j : Int) :
    RegionFns.Cell_RectBound_val5 j = (1 - j) := rfl
theorem pin_Cell_RectBound_val6 (poleMinLat : F64) :
    RegionFns.Cell_RectBound_val6 poleMinLat = (F64.neg poleMinLat) := rfl
theorem pin_Cell_CapBound_val0 (faceUVToXYZ_int_c_face_c_uv_Center_X_c_uv_Center_Y : V3) :
    RegionFns.Cell_CapBound_val0 faceUVToXYZ_int_c_face_c_uv_Center_X_c_uv_Center_Y = (V3.normalize faceUVToXYZ_int_c_face_c_uv_Center_X_c_uv_Center_Y) := rfl
theorem pin_Cell_CapBound_cond0 (k : Int) :
    RegionFns.Cell_CapBound_cond0 k = (decide (k < 4)) := rfl
theorem pin_Cell_MaxDistance_cond0 (maxDist : F64) :
    RegionFns.Cell_MaxDistance_cond0 maxDist = (F64.le maxDist (⟨0x4000000000000000⟩ : F64)) := rfl
theorem pin_Cell_MaxDistance_val0 (target : V3) :
    RegionFns.Cell_MaxDistance_val0 target = (V3.mul target (⟨0xbff0000000000000⟩ : F64)) := rfl
theorem pin_Cell_MaxDistance_val1 (c_Distance_val0 : F64) :
    RegionFns.Cell_MaxDistance_val1 c_Distance_val0 = (F64.sub (⟨0x4010000000000000⟩ : F64) c_Distance_val0) := rfl
theorem pin_Cell_DistanceToEdge_cond0 (minDist : F64) :
    RegionFns.Cell_DistanceToEdge_cond0 minDist = (F64.feq minDist (⟨0x0000000000000000⟩ : F64)) := rfl
theorem pin_Cell_DistanceToEdge_cond1 (i : Int) :
    RegionFns.Cell_DistanceToEdge_cond1 i = (decide (i < 4)) := rfl
theorem pin_Cell_DistanceToEdge_cond2 (crosser_ChainCrossingSign_c_Vertex_i : Int) :
    RegionFns.Cell_DistanceToEdge_cond2 crosser_ChainCrossingSign_c_Vertex_i = (crosser_ChainCrossingSign_c_Vertex_i != 2) := rfl
theorem pin_Cell_DistanceToEdge_cond3 (i : Int) :
    RegionFns.Cell_DistanceToEdge_cond3 i = (decide (i < 4)) := rfl
theorem pin_Cell_MaxDistanceToEdge_cond0 (maxDist : F64) :
    RegionFns.Cell_MaxDistanceToEdge_cond0 maxDist = (F64.le maxDist (⟨0x4000000000000000⟩ : F64)) := rfl
theorem pin_Cell_MaxDistanceToEdge_val0 (a : V3) :
    RegionFns.Cell_MaxDistanceToEdge_val0 a = (V3.mul a (⟨0xbff0000000000000⟩ : F64)) := rfl
theorem pin_Cell_MaxDistanceToEdge_val1 (b : V3) :
    RegionFns.Cell_MaxDistanceToEdge_val1 b = (V3.mul b (⟨0xbff0000000000000⟩ : F64)) := rfl
theorem pin_Cell_MaxDistanceToEdge_val2 (c_DistanceToEdge_val0_val1 : F64) :
    RegionFns.Cell_MaxDistanceToEdge_val2 c_DistanceToEdge_val0_val1 = (F64.sub (⟨0x4010000000000000⟩ : F64) c_DistanceToEdge_val0_val1) := rfl
theorem pin_Cell_DistanceToCell_cond0 (c_face : Int) (target_face : Int) (c_uv_Intersects_target_uv : Bool) :
    RegionFns.Cell_DistanceToCell_cond0 c_face target_face c_uv_Intersects_target_uv = ((c_face == target_face) && c_uv_Intersects_target_uv) := rfl
theorem pin_Cell_DistanceToCell_cond1 (i : Int) :
    RegionFns.Cell_DistanceToCell_cond1 i = (decide (i < 4)) := rfl
theorem pin_Cell_DistanceToCell_cond2 (i : Int) :
    RegionFns.Cell_DistanceToCell_cond2 i = (decide (i < 4)) := rfl
theorem pin_Cell_DistanceToCell_cond3 (j : Int) :
    RegionFns.Cell_DistanceToCell_cond3 j = (decide (j < 4)) := rfl
theorem pin_Cell_DistanceToCell_val0 (j : Int) :
    RegionFns.Cell_DistanceToCell_val0 j = (j + 1) := rfl
theorem pin_Cell_DistanceToCell_val1 (j : Int) :
    RegionFns.Cell_DistanceToCell_val1 j = (j + 1) := rfl
theorem pin_Cell_MaxDistanceToCell_cond0 (c_face : Int) (oppositeFace_int_target_face : Int) (c_uv_Intersects_antipodalUV : Bool) :
    RegionFns.Cell_MaxDistanceToCell_cond0 c_face oppositeFace_int_target_face c_uv_Intersects_antipodalUV = ((c_face == oppositeFace_int_target_face) && c_uv_Intersects_antipodalUV) := rfl
theorem pin_Cell_MaxDistanceToCell_cond1 (i : Int) :
    RegionFns.Cell_MaxDistanceToCell_cond1 i = (decide (i < 4)) := rfl
theorem pin_Cell_MaxDistanceToCell_cond2 (i : Int) :
    RegionFns.Cell_MaxDistanceToCell_cond2 i = (decide (i < 4)) := rfl
theorem pin_Cell_MaxDistanceToCell_cond3 (j : Int) :
    RegionFns.Cell_MaxDistanceToCell_cond3 j = (decide (j < 4)) := rfl
theorem pin_Cell_MaxDistanceToCell_val0 (j : Int) :
    RegionFns.Cell_MaxDistanceToCell_val0 j = (j + 1) := rfl
theorem pin_Cell_MaxDistanceToCell_val1 (j : Int) :
    RegionFns.Cell_MaxDistanceToCell_val1 j = (j + 1) := rfl
theorem pin_CellUnion_CapBound_cond0 (cu : Array UInt64) :
    RegionFns.CellUnion_CapBound_cond0 cu = ((cu.size : Int) == 0) := rfl
theorem pin_CellUnion_CapBound_val0 (ci : UInt64) :
    RegionFns.CellUnion_CapBound_val0 ci = (((CellIDFns.Level ci : Nat) : Int)) := rfl
theorem pin_CellUnion_CapBound_val1 (centroid : V3) (ci_Point : V3) (area : F64) :
    RegionFns.CellUnion_CapBound_val1 centroid ci_Point area = (V3.add centroid (V3.mul ci_Point area)) := rfl
theorem pin_CellUnion_CapBound_cond1 (centroid : V3) (zero : V3) :
    RegionFns.CellUnion_CapBound_cond1 centroid zero = (V3.feq centroid zero) := rfl
theorem pin_CellUnion_CapBound_val2 (centroid : V3) :
    RegionFns.CellUnion_CapBound_val2 centroid = (V3.normalize centroid) := rfl
theorem pin_Polyline_Project_cond0 (len_p : Int) :
    RegionFns.Polyline_Project_cond0 len_p = (len_p == 1) := rfl
theorem pin_Polyline_Project_cond1 (i : Int) (len_p : Int) :
    RegionFns.Polyline_Project_cond1 i len_p = (decide (i < len_p)) := rfl
theorem pin_Polyline_Project_val0 (i : Int) :
    RegionFns.Polyline_Project_val0 i = (i - 1) := rfl
theorem pin_Polyline_Project_cond2 (dist : F64) (minDist : F64) :
    RegionFns.Polyline_Project_cond2 dist minDist = (F64.lt dist minDist) := rfl
theorem pin_Polyline_Project_val1 (minIndex : Int) :
    RegionFns.Polyline_Project_val1 minIndex = (minIndex - 1) := rfl
theorem pin_Polyline_Project_cond3 (closest : V3) (p_minIndex : V3) :
    RegionFns.Polyline_Project_cond3 closest p_minIndex = (V3.feq closest p_minIndex) := rfl
theorem pin_Polyline_Interpolate_cond0 (fraction : F64) :
    RegionFns.Polyline_Interpolate_cond0 fraction = (F64.le fraction (⟨0x0000000000000000⟩ : F64)) := rfl
theorem pin_Polyline_Interpolate_val0 (fraction : F64) (p_Length : F64) :
    RegionFns.Polyline_Interpolate_val0 fraction p_Length = (F64.mul fraction p_Length) := rfl
theorem pin_Polyline_Interpolate_cond1 (i : Int) (len_p : Int) :
    RegionFns.Polyline_Interpolate_cond1 i len_p = (decide (i < len_p)) := rfl
theorem pin_Polyline_Interpolate_val1 (i : Int) :
    RegionFns.Polyline_Interpolate_val1 i = (i - 1) := rfl
theorem pin_Polyline_Interpolate_cond2 (target : F64) (length : F64) :
    RegionFns.Polyline_Interpolate_cond2 target length = (F64.lt target length) := rfl
theorem pin_Polyline_Interpolate_val2 (i : Int) :
    RegionFns.Polyline_Interpolate_val2 i = (i - 1) := rfl
theorem pin_Polyline_Interpolate_cond3 (result : V3) (p_i : V3) :
    RegionFns.Polyline_Interpolate_cond3 result p_i = (V3.feq result p_i) := rfl
theorem pin_Polyline_Interpolate_val3 (i : Int) :
    RegionFns.Polyline_Interpolate_val3 i = (i + 1) := rfl
theorem pin_Polyline_Interpolate_val4 (len_p : Int) :
    RegionFns.Polyline_Interpolate_val4 len_p = (len_p - 1) := rfl

/-- number of extracted conditions / values per function, in generation order -/
theorem counts_RegionFns_C10 :
    [(RegionFns.Rect_CapBound_numConds, RegionFns.Rect_CapBound_numVals), (RegionFns.padCapBound_numConds, RegionFns.padCapBound_numVals), (RegionFns.Rect_RectBound_numConds, RegionFns.Rect_RectBound_numVals), (RegionFns.RectFromLatLng_numConds, RegionFns.RectFromLatLng_numVals), (RegionFns.RectFromCenterSize_numConds, RegionFns.RectFromCenterSize_numVals), (RegionFns.Rect_PolarClosure_numConds, RegionFns.Rect_PolarClosure_numVals), (RegionFns.Rect_expanded_numConds, RegionFns.Rect_expanded_numVals), (RegionFns.Cap_CapBound_numConds, RegionFns.Cap_CapBound_numVals), (RegionFns.Cap_RectBound_numConds, RegionFns.Cap_RectBound_numVals), (RegionFns.Cell_RectBound_numConds, RegionFns.Cell_RectBound_numVals), (RegionFns.Cell_CapBound_numConds, RegionFns.Cell_CapBound_numVals), (RegionFns.Cell_MaxDistance_numConds, RegionFns.Cell_MaxDistance_numVals), (RegionFns.Cell_DistanceToEdge_numConds, RegionFns.Cell_DistanceToEdge_numVals), (RegionFns.Cell_MaxDistanceToEdge_numConds, RegionFns.Cell_MaxDistanceToEdge_numVals), (RegionFns.Cell_DistanceToCell_numConds, RegionFns.Cell_DistanceToCell_numVals), (RegionFns.Cell_MaxDistanceToCell_numConds, RegionFns.Cell_MaxDistanceToCell_numVals), (RegionFns.CellUnion_RectBound_numConds, RegionFns.CellUnion_RectBound_numVals), (RegionFns.CellUnion_CapBound_numConds, RegionFns.CellUnion_CapBound_numVals), (RegionFns.Polyline_CapBound_numConds, RegionFns.Polyline_CapBound_numVals), (RegionFns.Polyline_RectBound_numConds, RegionFns.Polyline_RectBound_numVals), (RegionFns.Polyline_Project_numConds, RegionFns.Polyline_Project_numVals), (RegionFns.Polyline_Interpolate_numConds, RegionFns.Polyline_Interpolate_numVals), (RegionFns.ShapeIndexRegion_CapBound_numConds, RegionFns.ShapeIndexRegion_CapBound_numVals), (RegionFns.ShapeIndexRegion_RectBound_numConds, RegionFns.ShapeIndexRegion_RectBound_numVals)] =
    [(4, 5), (0, 2), (0, 0), (0, 0), (0, 2), (1, 0), (1, 0), (0, 0), (5, 7), (7, 7), (1, 1), (1, 2), (4, 0), (1, 3), (4, 2), (4, 2), (0, 0), (2, 3), (0, 0), (0, 0), (4, 2), (4, 5), (0, 0), (0, 0)] := rfl

end S2Proofs.Ties.C10_RegionsPins
