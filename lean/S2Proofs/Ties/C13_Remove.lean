/-
  S2Proofs.Ties.C13_Remove — regenerated-instance obligations for `ShapeIndex.Remove` and for the rebuild rule of
  `ShapeIndex.applyUpdatesInternal` (work package c13remove).

  `S2.Generated.QueryOptsIR.ShapeIndex_Remove_*` / `ShapeIndex_applyUpdatesInternal_*` are rewritten from
  s2/shapeindex.go on every run by translator_c19 (skeleton: statement structure as a string, every condition and
  value as a Lean definition).  Below they are tied to the hand model `S2.History`:
    * `Index.remove`: `delete(s.shapes, id)`; the shortcut `if id >= s.pendingAdditionsPos { return }` (no status
      store, nothing queued); otherwise `pendingRemovals = append(…)` and the store of `stale`;
    * `applyUpdatesInternal` with the repair of D4: the code's two-phase form (conditional reset of cells /
      pendingAdditionsPos / pendingRemovals under `cond0`, then the common path) equals the model's three cases.
  Dropping the shortcut, comparing with `>` instead of `>=`, not queueing, not storing `stale`, rebuilding only when
  additions are pending (dropping `|| len(s.pendingRemovals) > 0`) all change a statement below.
-/
import S2.History
import S2.Generated.QueryOptsIR
namespace S2Proofs.Ties.C13Remove
open S2 S2.History S2.Generated

/-! ### Remove -/

/-- statement structure of `Remove`: lookup, not-found guard, delete, never-indexed shortcut, the queued
    `removedShape`, append, store of `stale` LAST -/
theorem tie_ShapeIndex_Remove_shape : QueryOptsIR.ShapeIndex_Remove_shape =
    "id := s.idForShape(shape); if cond0 {return}; delete(s.shapes, id); if cond1 {return}; numEdges := shape.NumEdges(); removed := &removedShape{shapeID: id, hasInterior: val0, containsTrackerOrigin: shape.ReferencePoint().Contained, edges: make([]Edge, numEdges)}; for[e := 0] cond2 [e++] {removed.edges[e] = shape.Edge(e)}; s.pendingRemovals = append(s.pendingRemovals, removed); atomic.StoreInt32(&s.status, stale)" := rfl

theorem tie_ShapeIndex_Remove_counts :
    QueryOptsIR.ShapeIndex_Remove_numConds = 3 ∧ QueryOptsIR.ShapeIndex_Remove_numVals = 1 := ⟨rfl, rfl⟩

/-- `cond0` is the not-found guard `s.shapes[id] == nil` itself (the op `remove k` of the model names the k-th
    PRESENT shape, for which the guard is false; an absent `k` is `outOfContract`) -/
theorem tie_Remove_notFound (b : Bool) : QueryOptsIR.ShapeIndex_Remove_cond0 b = b := rfl

/-- the never-indexed shortcut `id >= s.pendingAdditionsPos` is the test of `Index.remove` -/
theorem tie_Remove_shortcut (id pos : Nat) :
    QueryOptsIR.ShapeIndex_Remove_cond1 (id : Int) (pos : Int) = decide (id ≥ pos) := by
  simp only [QueryOptsIR.ShapeIndex_Remove_cond1]
  rw [Bool.eq_iff_iff]; simp only [decide_eq_true_eq]; omega

/-- `Index.remove`, written with the regenerated condition: after the delete, either nothing else happens (status
    and pendingRemovals untouched), or the id is queued and `stale` is stored -/
theorem tie_Index_remove (s : Index) (id : Nat) :
    s.remove id =
      (if QueryOptsIR.ShapeIndex_Remove_cond1 (id : Int) (s.pendingAdditionsPos : Int) then
        { s with shapes := s.shapes.set id Shape.gone, gone := s.gone ++ [id] }
      else
        { s with shapes := s.shapes.set id Shape.gone, gone := s.gone ++ [id],
                 pendingRemovals := s.pendingRemovals ++ [id], status := .stale }) := by
  rw [tie_Remove_shortcut]
  unfold Index.remove
  by_cases h : id ≥ s.pendingAdditionsPos <;> simp [h]

/-- a removal never hands out or frees an id: `nextID` and the length of the id space are unchanged -/
theorem tie_remove_ids_not_reused (s : Index) (id : Nat) (sh : Shape) :
    (s.remove id).nextID = s.nextID ∧ (s.remove id).shapes.length = s.shapes.length ∧
    ((s.remove id).add sh).2 = s.nextID := by
  unfold Index.remove
  by_cases h : id ≥ s.pendingAdditionsPos <;> simp [h, Index.add]

/-! ### applyUpdatesInternal: the rebuild rule -/

theorem tie_applyUpdatesInternal_shape : QueryOptsIR.ShapeIndex_applyUpdatesInternal_shape =
    "if cond0 {s.cellMap = make(map[CellID]*ShapeIndexCell); s.cells = nil; s.pendingAdditionsPos = 0; s.pendingRemovals = s.pendingRemovals[:0]}; t := newTracker(); allEdges := make([][]faceEdge, 6); range _, p := s.pendingRemovals {s.removeShapeInternal(p, allEdges, t)}; for[id := s.pendingAdditionsPos] cond1 [id++] {s.addShapeInternal(id, allEdges, t)}; for[face := 0] cond2 [face++] {s.updateFaceEdges(face, allEdges[face], t)}; s.pendingRemovals = s.pendingRemovals[:0]; s.pendingAdditionsPos = s.nextID" := rfl

/-- `cond0` = `!s.isFirstUpdate() && (s.pendingAdditionsPos < s.nextID || len(s.pendingRemovals) > 0)`, with
    `isFirstUpdate() = (pendingAdditionsPos == 0)`: the test of the model -/
theorem tie_rebuild_cond (s : Index) :
    QueryOptsIR.ShapeIndex_applyUpdatesInternal_cond0 (s.pendingAdditionsPos == 0) (s.pendingAdditionsPos : Int)
        (s.nextID : Int) (s.pendingRemovals.length : Int) =
      (!(s.pendingAdditionsPos == 0) && (decide (s.pendingAdditionsPos < s.nextID) || !s.pendingRemovals.isEmpty)) := by
  simp only [QueryOptsIR.ShapeIndex_applyUpdatesInternal_cond0]
  congr 1
  rw [Bool.eq_iff_iff]
  cases h : s.pendingRemovals <;> simp <;> omega

/-- the loop `for id := s.pendingAdditionsPos; id < s.nextID; id++`: runs up to `nextID`, not `Len()` -/
theorem tie_addLoop_cond (id next : Nat) :
    QueryOptsIR.ShapeIndex_applyUpdatesInternal_cond1 (id : Int) (next : Int) = decide (id < next) := by
  simp only [QueryOptsIR.ShapeIndex_applyUpdatesInternal_cond1]
  rw [Bool.eq_iff_iff]; simp only [decide_eq_true_eq]; omega

/-- the code's two-phase form of `applyUpdatesInternal` (since a4a8224): phase 1 resets the index under `cond0`,
    phase 2 is the common path (the removal loop is the empty stub; additions from `pendingAdditionsPos`;
    `pendingRemovals = pendingRemovals[:0]`; `pendingAdditionsPos = nextID`) -/
def applyTwoPhase (f : Fixes) (s : Index) : Index :=
  let c0 := QueryOptsIR.ShapeIndex_applyUpdatesInternal_cond0 (s.pendingAdditionsPos == 0) (s.pendingAdditionsPos : Int)
              (s.nextID : Int) (s.pendingRemovals.length : Int)
  let s1 : Index := if c0 then { s with cells := [], pendingAdditionsPos := 0, pendingRemovals := [] } else s
  { s1 with cells := s1.cells ++ visible f s (pendingLive s.shapes s1.pendingAdditionsPos),
            pendingAdditionsPos := s.nextID, pendingRemovals := [] }

theorem pendingLive_of_ge (shapes : List Shape) (pos : Nat) (h : shapes.length ≤ pos) : pendingLive shapes pos = [] := by
  simp [pendingLive, List.drop_eq_nil_of_le h, liveFrom]

/-- with the repair of D4 the model's `applyUpdatesInternal` IS the two-phase form, on every index whose id counter
    is consistent (`nextID = len` of the id space) and in which a queued removal implies a non-first update (both
    are invariants, `S2Proofs.HistoryLemmas.IdxOK`) -/
theorem tie_applyUpdatesInternal (f : Fixes) (hf : f.d4 = true) (s : Index) (hn : s.nextID = s.shapes.length)
    (hr : s.pendingAdditionsPos = 0 → s.pendingRemovals = []) :
    applyUpdatesInternal f s = some (applyTwoPhase f s) := by
  unfold applyTwoPhase
  rw [tie_rebuild_cond]
  unfold applyUpdatesInternal
  by_cases h0 : s.pendingAdditionsPos = 0
  · simp [h0, hr h0, hn]
  · have h0' : (s.pendingAdditionsPos == 0) = false := by simpa using h0
    simp only [h0', Bool.false_eq_true, if_false, hf, if_true, Bool.not_false, Bool.true_and]
    by_cases hp : (decide (s.pendingAdditionsPos < s.nextID) || !s.pendingRemovals.isEmpty) = true
    · simp only [hp, if_true]
      have hs : (s.nextID = s.shapes.length) := hn
      cases s with
      | mk shapes nextID pos status cells gone rem =>
        simp only at hs ⊢
        subst hs
        rfl
    · simp only [hp, Bool.false_eq_true, if_false]
      simp only [Bool.or_eq_true, decide_eq_true_eq, Bool.not_eq_true', List.isEmpty_eq_false_iff, not_or,
        Nat.not_lt, ne_eq, Decidable.not_not] at hp
      have hpl := pendingLive_of_ge s.shapes s.pendingAdditionsPos (by omega)
      simp [hpl, visible, hp.2, hn]

/-- non-vacuity: an index with two built shapes and one queued removal satisfies the hypotheses -/
example : let s : Index := ⟨[⟨64, false⟩, Shape.gone], 2, 2, .stale, [0, 1], [1], [1]⟩
    s.nextID = s.shapes.length ∧ (s.pendingAdditionsPos = 0 → s.pendingRemovals = []) ∧
    applyUpdatesInternal Fixes.all s = some ⟨[⟨64, false⟩, Shape.gone], 2, 2, .stale, [0], [1], []⟩ := by decide

end S2Proofs.Ties.C13Remove
