/-
  S2Proofs.Ties.C12_CapBound — regenerated-instance obligations for `Cell.CapBound` (s2/cell.go) and `padCapBound` (s2/rect.go)
  against the hand model `S2.CellM.capBoundRaw / padCapBound / capBound` of S2/CellCap.lean.

  `S2.Generated.RegionFns.*` and `S2.Generated.EdgeNumFns.*` are rewritten from the Go source on every run of ./check; every theorem
  below is `hand model = generated piece` by `rfl`, plus the statement structure (shape string) the hand model transcribes.
  `Cap.AddPoint` / `Cap.Expanded` / `CapFromPoint` are the generic `S2.CapM` methods (tied in Ties/C19_Cap.lean), `ChordAngle.Add`,
  `Expanded`, `MaxPointError` in Ties/C19_Chord.lean, `Cell.Vertex` in Ties/C12_Cell.lean.  The only piece with no Lean counterpart
  is `s1.ChordAngleFromAngle` (math.Sin) inside `Cap.Expanded`: parameter `dc` of the model.
-/
import S2.CellCap
import S2.Generated.RegionFns
import S2.Generated.EdgeNumFns
namespace S2Proofs.Ties.C12_CapBound
open S2 S2.Generated S2.CellM S2.CapF64

/-- the cap axis: `Point{faceUVToXYZ(int(c.face), c.uv.Center().X, c.uv.Center().Y).Normalize()}` -/
theorem tie_capCenter (c : Cell) :
    capCenter c = RegionFns.Cell_CapBound_val0 (STUV.faceUVToXYZ c.face (Ivl.center c.uv.1) (Ivl.center c.uv.2)) := rfl

/-- the loop `for k := 0; k < 4; k++ { cap = cap.AddPoint(c.Vertex(k)) }` runs for k = 0, 1, 2, 3 and stops at 4 -/
theorem tie_loop : RegionFns.Cell_CapBound_cond0 0 = true ∧ RegionFns.Cell_CapBound_cond0 1 = true ∧
    RegionFns.Cell_CapBound_cond0 2 = true ∧ RegionFns.Cell_CapBound_cond0 3 = true ∧ RegionFns.Cell_CapBound_cond0 4 = false := by
  decide

/-- the statement structure the model transcribes -/
theorem tie_shape_Cell_CapBound : RegionFns.Cell_CapBound_shape =
    "cap := CapFromPoint(val0⟨faceUVToXYZ(int(c.face), c.uv.Center().X, c.uv.Center().Y)⟩); for[k := 0] cond0⟨k⟩ [k++] {cap = cap.AddPoint(c.Vertex(k))}; return padCapBound(cap, cellCapBoundSlack)" := rfl

theorem tie_shape_padCapBound : RegionFns.padCapBound_shape =
    "c = c.Expanded(val0⟨slack⟩); c.radius = c.radius.Expanded(val1⟨c.radius.MaxAngleError(); c.radius.MaxPointError()⟩); return c" := rfl

/-- `s1.Angle(slack * dblEpsilon)` with `slack = cellCapBoundSlack = 6` -/
theorem tie_capSlackAngle : capSlackAngle = RegionFns.padCapBound_val0 ⟨0x4018000000000000⟩ := rfl

/-- `ChordAngle.MaxAngleError` -/
theorem tie_maxAngleError : @maxAngleError = @EdgeNumFns.ChordAngle_MaxAngleError := rfl

/-- `c.radius.Expanded(c.radius.MaxAngleError() + c.radius.MaxPointError())` -/
theorem tie_padRadius (r : F64) :
    padRadius r = EdgeNumFns.ChordAngle_Expanded r
      (RegionFns.padCapBound_val1 (EdgeNumFns.ChordAngle_MaxAngleError r) (EdgeNumFns.ChordAngle_MaxPointError r)) := rfl

/-- the two statements of `padCapBound` -/
theorem tie_padCapBound (c : CapF64.Cap) (dc : F64) :
    padCapBound c dc = ⟨(c.expanded dc).center, padRadius (c.expanded dc).radius⟩ := rfl

/-- `6 * 2^-52` and Go's `ChordAngleFromAngle` of it (`(2·sin(3·2^-52))² = 36·2^-104`, value observed on /repo) -/
theorem capSlack_bits : capSlackAngle = ⟨0x3cd8000000000000⟩ ∧ capSlackChord = F64.mul capSlackAngle capSlackAngle := by
  decide +kernel

end S2Proofs.Ties.C12_CapBound
