/-
  S2Proofs.Ties.C05_Regions — regenerated-instance obligations for the Region predicates the coverer calls
  (`ContainsCell`, `IntersectsCell`, `CellUnionBound`) of Rect, Cap, Cell, CellUnion, Polyline, ShapeIndexRegion.

  `S2.Generated.RegionFns.*` (group C05) is rewritten from the Go source on every run of ./check by translator_c07
  (skeleton extraction over the soft-float `S2.F64` / `S2.V3`; libm calls are atoms).

  Hand counterparts exist only for the id-exact regions (the coverer model `S2.Coverer` takes a region as two
  predicates on cell ids): `Cell` (`Coverer.cellRegion`, `CellM.containsCell / intersectsCell`) and `*CellUnion`
  (`Coverer.cellUnionRegion` = `CellUnion.containsCellID / intersectsCellID`, tied IN FULL by translator_c01:
  Ties/C11.lean `tie_ContainsCellID`; here: the wrappers).  The float regions (Rect, Cap, Polyline, the index
  region) have NO hand model — op `pred` / `cov` of Oracle.C05 judge Go's own answers by exact point samples —
  they are pinned in Ties/C05_RegionsPins.lean (shape + every condition / value as a literal).
-/
import S2.Coverer
import S2.CovererRegions
import S2.CellM
import S2.Generated.RegionFns
namespace S2Proofs.Ties.C05_Regions
open S2 S2.Generated

/-- `Cell.ContainsCell(oc) = c.id.Contains(oc.id)`, `Cell.IntersectsCell(oc) = c.id.Intersects(oc.id)`:
    the coverer model's cell region -/
theorem tie_cellRegion (id c : CellID) :
    (Coverer.cellRegion id).containsCell c = RegionFns.Cell_ContainsCell_val0 id c ∧
    (Coverer.cellRegion id).intersectsCell c = RegionFns.Cell_IntersectsCell_val0 id c := ⟨rfl, rfl⟩

/-- the same two methods in the cell model of C12 / C06 -/
theorem tie_cellM (c oc : CellM.Cell) :
    CellM.containsCell c oc = RegionFns.Cell_ContainsCell_val0 c.id oc.id ∧
    CellM.intersectsCell c oc = RegionFns.Cell_IntersectsCell_val0 c.id oc.id := ⟨rfl, rfl⟩

/-- `(*CellUnion).ContainsCell(c) = cu.ContainsCellID(c.id)`, `IntersectsCell(c) = cu.IntersectsCellID(c.id)`: pure
    wrappers (no condition, no value) — the coverer model's `cellUnionRegion` is the pair of the id functions -/
theorem tie_cellUnionRegion (cu : CellUnion.CU) :
    Coverer.cellUnionRegion cu = ⟨CellUnion.containsCellID cu, CellUnion.intersectsCellID cu⟩ ∧
    RegionFns.CellUnion_ContainsCell_shape = "return cu.ContainsCellID(c.id)" ∧
    RegionFns.CellUnion_IntersectsCell_shape = "return cu.IntersectsCellID(c.id)" ∧
    (RegionFns.CellUnion_ContainsCell_numConds, RegionFns.CellUnion_ContainsCell_numVals,
     RegionFns.CellUnion_IntersectsCell_numConds, RegionFns.CellUnion_IntersectsCell_numVals) = (0, 0, 0, 0) :=
  ⟨rfl, rfl, rfl, rfl⟩

/-- `Polyline.ContainsCell` is constantly false (a polyline has no interior); the coverer therefore never takes the
    interior branch for polylines -/
theorem tie_polyline_containsCell :
    RegionFns.Polyline_ContainsCell_shape = "return false" := rfl

/-- `Rect.ContainsCell(c) = r.Contains(c.RectBound())` — a pure composition (the two parts are `LLRect.contains`,
    tied by translator_c19, and `Cell.RectBound`, group C10) -/
theorem tie_rect_containsCell :
    RegionFns.Rect_ContainsCell_shape = "return r.Contains(c.RectBound())" := rfl

/-- `Cap.ContainsCell`: all four vertices inside, then `!c.Complement().intersects(cell, vertices)`;
    `Cap.IntersectsCell`: a vertex inside → true, then `c.intersects(cell, vertices)` -/
theorem tie_cap_cellTests (v c : Bool) :
    RegionFns.Cap_ContainsCell_cond1 v = !v ∧ RegionFns.Cap_ContainsCell_val0 c = !c ∧
    RegionFns.Cap_IntersectsCell_cond1 v = v := ⟨rfl, rfl, rfl⟩

end S2Proofs.Ties.C05_Regions
