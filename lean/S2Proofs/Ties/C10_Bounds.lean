/-
  S2Proofs.Ties.C10_Bounds — regenerated-instance obligations for s2/rect_bounder.go, the bound handling of
  s2/loop.go (`initBound`, `Invert`) and s2/polygon.go, and s2/convex_hull_query.go.

  `S2.Generated.BoundsFns.*` is rewritten from the Go source on every run by translator_c10 (skeleton extraction over
  the bit-exact soft-float `S2.F64` / `S2.V3`).  The hand model `S2.Bounds` keeps the libm-bound numerics of
  `RectBounder.AddPoint` abstract (`EdgeBounder.edge`); what it models concretely — the branch structure of AddPoint /
  initBound / Invert / the polygon union, every float formula of `ExpandForSubregions`, the monotone chain, the
  comparator, the duplicate removal and the 0 / 1 / 2 point cases of `ConvexHull` — is tied here to the regenerated
  conditions and values.  The AddPoint / singlePointLoop / singleEdgeLoop expressions without a model counterpart are
  pinned by their Go source text (`…_exprs`) and by the shape strings.
-/
import S2.Bounds
import S2.Generated.BoundsFns
namespace S2Proofs.Ties.C10Bounds
open S2 S2.Bounds S2.Generated S2.Generated.BoundsFns S2.IvlF64 S2.IvlOps

/-! ### statement structure of every translated function -/
theorem tie_RectBounder_AddPoint_shape : RectBounder_AddPoint_shape =
    "bLL := LatLngFromPoint(b); if cond0⟨r.bound.IsEmpty()⟩ {r.a = b; r.aLL = bLL; r.bound = r.bound.AddPoint(bLL); return}; n := val0⟨r.a; b⟩; nNorm := val1⟨n⟩; if cond1⟨nNorm⟩ {if cond2⟨r.a; b⟩ {r.bound = FullRect()} else {r.bound = r.bound.Union(RectFromLatLng(r.aLL).AddPoint(bLL))}; r.a = b; r.aLL = bLL; return}; lngAB := s1.EmptyInterval().AddPoint(r.aLL.Lng.Radians()).AddPoint(bLL.Lng.Radians()); if cond3⟨lngAB.Length()⟩ {lngAB = s1.FullInterval()}; latAB := r1.IntervalFromPoint(r.aLL.Lat.Radians()).AddPoint(bLL.Lat.Radians()); m := val2⟨n⟩; mA := val3⟨m; r.a⟩; mB := val4⟨m; b⟩; mError := val5⟨nNorm⟩; if cond4⟨mA; mB; mError⟩ {maxLat := val8⟨math.Atan2(val6⟨n⟩, val7⟨n⟩)⟩; sinHalfBudget := val9⟨r.a; b; math.Sin(maxLat)⟩; latBudget := val10⟨math.Asin(sinHalfBudget)⟩; maxDelta := val11⟨latBudget; latAB.Length()⟩; if cond5⟨mA; mError; mB⟩ {latAB.Hi = val12⟨maxLat; latAB.Hi; maxDelta⟩}; if cond6⟨mB; mError; mA⟩ {latAB.Lo = val13⟨maxLat; latAB.Lo; maxDelta⟩}}; r.a = b; r.aLL = bLL; r.bound = r.bound.Union(Rect{latAB, lngAB})" := rfl
theorem tie_RectBounder_RectBound_shape : RectBounder_RectBound_shape =
    "return r.bound.expanded(LatLng{s1.Angle(2 * dblEpsilon), 0}).PolarClosure()" := rfl
theorem tie_RectBounder_maxErrorForTests_shape : RectBounder_maxErrorForTests_shape =
    "return LatLng{10 * dblEpsilon * s1.Radian, 1 * dblEpsilon * s1.Radian}" := rfl
theorem tie_ExpandForSubregions_shape : ExpandForSubregions_shape =
    "if cond0⟨bound.IsEmpty()⟩ {return bound}; lngGap := val0⟨bound.Lng.Length()⟩; minAbsLat := val1⟨bound.Lat.Lo; bound.Lat.Hi⟩; latGapSouth := val2⟨bound.Lat.Lo⟩; latGapNorth := val3⟨bound.Lat.Hi⟩; if cond1⟨minAbsLat⟩ {if cond2⟨minAbsLat; lngGap⟩ {return FullRect()}} else if cond3⟨lngGap⟩ {if cond4⟨latGapSouth; latGapNorth⟩ {return FullRect()}} else {if cond5⟨latGapSouth; latGapNorth; lngGap⟩ {return FullRect()}}; latExpansion := 9 * dblEpsilon; lngExpansion := 0.0; if cond6⟨lngGap⟩ {lngExpansion = math.Pi}; return bound.expanded(LatLng{s1.Angle(latExpansion), s1.Angle(lngExpansion)}).PolarClosure()" := rfl
theorem tie_Loop_initBound_shape : Loop_initBound_shape =
    "if cond0⟨len(l.vertices)⟩ {*l = *EmptyLoop(); return}; if cond1⟨l.isEmptyOrFull()⟩ {if cond2⟨l.IsEmpty()⟩ {l.bound = EmptyRect()} else {l.bound = FullRect()}; l.subregionBound = l.bound; return}; bounder := NewRectBounder(); for[i := 0] cond3⟨i; len(l.vertices)⟩ [i++] {bounder.AddPoint(l.Vertex(i))}; b := bounder.RectBound(); if cond4⟨l.ContainsPoint(val0⟨⟩)⟩ {b = Rect{r1.Interval{Lo: b.Lat.Lo, Hi: math.Pi / 2}, s1.FullInterval()}}; if cond5⟨b.Lng.IsFull(); l.ContainsPoint(val1⟨⟩)⟩ {b.Lat.Lo = -math.Pi / 2}; l.bound = b; l.subregionBound = ExpandForSubregions(l.bound)" := rfl
theorem tie_Loop_Invert_shape : Loop_Invert_shape =
    "l.index.Reset(); if cond0⟨l.isEmptyOrFull()⟩ {if cond1⟨l.IsFull()⟩ {l.vertices[0] = emptyLoopPoint} else {l.vertices[0] = fullLoopPoint}} else {for[i := val0⟨len(l.vertices)⟩] cond2⟨i⟩ [i--] {opp := val1⟨len(l.vertices); i⟩; l.vertices[i], l.vertices[opp] = l.vertices[opp], l.vertices[i]}}; l.originInside = val2⟨l.originInside⟩; if cond3⟨l.bound.Lat.Lo; l.bound.Lat.Hi⟩ {l.bound = FullRect(); l.subregionBound = l.bound} else {l.initBound()}; l.index.Add(l)" := rfl
theorem tie_Polygon_initOneLoop_shape : Polygon_initOneLoop_shape =
    "p.hasHoles = false; p.numVertices = len(p.loops[0].vertices); p.bound = p.loops[0].RectBound(); p.subregionBound = ExpandForSubregions(p.bound); p.loops[0].depth = 0; p.initEdgesAndIndex()" := rfl
theorem tie_Polygon_initLoopProperties_shape : Polygon_initLoopProperties_shape =
    "p.numVertices = 0; p.bound = EmptyRect(); p.hasHoles = false; range _, l := p.loops {if cond0⟨l.IsHole()⟩ {p.hasHoles = true} else {p.bound = p.bound.Union(l.RectBound())}; p.numVertices += l.NumVertices()}; p.subregionBound = ExpandForSubregions(p.bound); p.initEdgesAndIndex()" := rfl
theorem tie_ConvexHull_shape : ConvexHull_shape =
    "c := q.CapBound(); if cond0⟨c.Height()⟩ {return FullLoop()}; x := make(map[Point]bool); r, w := 0, 0; for cond1⟨r; len(q.points)⟩ [r++] {if cond2⟨x[q.points[r]]⟩ {continue}; q.points[w] = q.points[r]; x[q.points[r]] = true; w++}; q.points = q.points[:w]; origin := Point{c.Center().Ortho()}; sort.Slice(q.points, func{return val0⟨RobustSign(origin, q.points[i], q.points[j])⟩}); switch len(q.points) {case 0: return EmptyLoop() | case 1: return singlePointLoop(q.points[0]) | case 2: return singleEdgeLoop(q.points[0], q.points[1])}; lower := q.monotoneChain(); for[left, right := 0, val1⟨len(q.points)⟩] cond3⟨left; right⟩ [left, right = val2⟨left⟩, val3⟨right⟩] {q.points[left], q.points[right] = q.points[right], q.points[left]}; upper := q.monotoneChain(); lower = lower[:val4⟨len(lower)⟩]; upper = upper[:val5⟨len(upper)⟩]; lower = append(lower, upper...); return LoopFromPoints(lower)" := rfl
theorem tie_monotoneChain_shape : monotoneChain_shape =
    "var output []Point; range _, p := q.points {for cond0⟨len(output); RobustSign(output[val0⟨len(output)⟩], output[val1⟨len(output)⟩], p)⟩ {output = output[:val2⟨len(output)⟩]}; output = append(output, p)}; return output" := rfl
theorem tie_singlePointLoop_shape : singlePointLoop_shape =
    "const offset = 1e-15; d0 := p.Ortho(); d1 := val0⟨p; d0⟩; vertices := []Point{p, val1⟨p; d0⟩, val2⟨p; d1⟩}; return LoopFromPoints(vertices)" := rfl
theorem tie_singleEdgeLoop_shape : singleEdgeLoop_shape =
    "if ‹val0⟨a; b⟩ == (r3.Vector{})› {return FullLoop()}; m := Interpolate(0.5, a, b); if cond0⟨m; a; b; m.IsUnit()⟩ {const offset = 1e-15; m = val1⟨a; a.Ortho()⟩}; if cond1⟨RobustSign(a, b, m)⟩ {a, b = b, a}; return LoopFromPoints([]Point{a, b, m})" := rfl
theorem tie_ConvexHullQuery_AddPoint_shape : ConvexHullQuery_AddPoint_shape =
    "q.bound = q.bound.AddPoint(LatLngFromPoint(p)); q.points = append(q.points, p)" := rfl
theorem tie_ConvexHullQuery_CapBound_shape : ConvexHullQuery_CapBound_shape =
    "return q.bound.CapBound()" := rfl

/-! ### source-text pins of the expressions the hand model keeps abstract (libm-bound edge numerics, offsets) -/
theorem pin_RectBounder_AddPoint_exprs : RectBounder_AddPoint_exprs =
    "cond0: r.bound.IsEmpty() | val0: r.a.Sub(b.Vector).Cross(r.a.Add(b.Vector)) | val1: n.Norm() | cond1: nNorm < 1.91346e-15 | cond2: r.a.Dot(b.Vector) < 0 | cond3: lngAB.Length() >= math.Pi-2*dblEpsilon | val2: n.Cross(r3.Vector{X: 0, Y: 0, Z: 1}) | val3: m.Dot(r.a.Vector) | val4: m.Dot(b.Vector) | val5: 6.06638e-16*nNorm + 6.83174e-31 | cond4: mA*mB < 0 || math.Abs(mA) <= mError || math.Abs(mB) <= mError | val6: math.Sqrt(n.X*n.X + n.Y*n.Y) | val7: math.Abs(n.Z) | val8: math.Min( math.Atan2(math.Sqrt(n.X*n.X+n.Y*n.Y), math.Abs(n.Z))+3*dblEpsilon, math.Pi/2) | val9: math.Min(1, 0.5*(r.a.Sub(b.Vector)).Norm()*math.Sin(maxLat)*(1+latBudgetSlack*dblEpsilon)) | val10: 2 * math.Asin(sinHalfBudget) | val11: 0.5*(latBudget-latAB.Length()) + dblEpsilon | cond5: mA <= mError && mB >= -mError | val12: math.Min(maxLat, latAB.Hi+maxDelta) | cond6: mB <= mError && mA >= -mError | val13: math.Max(-maxLat, latAB.Lo-maxDelta)" := rfl
theorem pin_singlePointLoop_exprs : singlePointLoop_exprs =
    "val0: p.Cross(d0) | val1: {p.Add(d0.Mul(offset)).Normalize()} | val2: {p.Add(d1.Mul(offset)).Normalize()}" := rfl
theorem pin_singleEdgeLoop_exprs : singleEdgeLoop_exprs =
    "val0: a.Add(b.Vector) | cond0: m == a || m == b || !m.IsUnit() | val1: Point{a.Add(a.Ortho().Mul(offset)).Normalize()} | cond1: RobustSign(a, b, m) != CounterClockwise" := rfl

/-! ### RectBounder -/

/-- `AddPoint`: the first-vertex branch is taken iff `r.bound.IsEmpty()` -/
theorem tie_RB_addPoint {P α : Type} [LE α] [LT α] [DecidableLE α] [DecidableLT α] [Max α] [Min α] [IvlOps α]
    (E : EdgeBounder P α) (st : RB P α) (b : P) :
    RB.addPoint E st b =
      if RectBounder_AddPoint_cond0 st.bound.isEmpty then ⟨b, st.bound.addPoint (E.ll b)⟩
      else match E.edge st.a b with
        | none => ⟨b, LLRect.full⟩
        | some r => ⟨b, st.bound.union r⟩ := rfl

/-- the antipodal test of the nearly-parallel branch (`none` of the abstract `edge`) is `a·b < 0` after `|n| < 1.91346e-15` -/
theorem tie_AddPoint_degenerate (a b : V3) :
    RectBounder_AddPoint_cond1 (RectBounder_AddPoint_val1 (RectBounder_AddPoint_val0 a b)) =
      F64.lt (V3.norm (V3.cross (V3.sub a b) (V3.add a b))) ⟨0x3ce13c236bd99808⟩ ∧
    RectBounder_AddPoint_cond2 a b = F64.lt (V3.dot a b) (F64.zero false) := ⟨rfl, rfl⟩

theorem tie_dblEpsilon : SubF64.cTwoEps = F64.mul F64.two ⟨dblEpsilon_bits⟩ := by decide

/-! ### ExpandForSubregions (every float formula; no libm) -/

theorem tie_lngGap (b : LLRect F64) : SubF64.lngGap b = ExpandForSubregions_val0 b.lng.length := rfl

theorem tie_nearlyAntipodal (b : LLRect F64) :
    SubF64.nearlyAntipodal b =
      let lngGap := ExpandForSubregions_val0 b.lng.length
      let minAbsLat := ExpandForSubregions_val1 b.lat.lo b.lat.hi
      let latGapSouth := ExpandForSubregions_val2 b.lat.lo
      let latGapNorth := ExpandForSubregions_val3 b.lat.hi
      if ExpandForSubregions_cond1 minAbsLat then ExpandForSubregions_cond2 minAbsLat lngGap
      else if ExpandForSubregions_cond3 lngGap then ExpandForSubregions_cond4 latGapSouth latGapNorth
      else ExpandForSubregions_cond5 latGapSouth latGapNorth lngGap := rfl

theorem tie_lngGapNonpos (b : LLRect F64) :
    SubF64.subOpsF64.lngGapNonpos b = ExpandForSubregions_cond6 (ExpandForSubregions_val0 b.lng.length) := rfl

theorem tie_latExpansion : SubF64.subOpsF64.latExpansion = F64.mul (F64.ofNat 9) ⟨dblEpsilon_bits⟩ := by decide

theorem tie_expandForSubregions {α : Type} [LE α] [LT α] [DecidableLE α] [DecidableLT α] [Max α] [Min α] [IvlOps α]
    (O : SubOps α) (b : LLRect α) :
    expandForSubregions O b =
      if ExpandForSubregions_cond0 b.isEmpty then b
      else if O.nearlyAntipodal b then LLRect.full
      else (b.expanded ⟨O.latExpansion, if O.lngGapNonpos b then pi else zero⟩).polarClosure := rfl

/-! ### Loop.initBound / Invert / Polygon -/

theorem tie_poleAdjust {α : Type} [LE α] [LT α] [DecidableLE α] [DecidableLT α] [Max α] [Min α] [IvlOps α]
    (b : LLRect α) (cN cS : Bool) :
    poleAdjust b cN cS =
      let b := if Loop_initBound_cond4 cN then (⟨⟨b.lat.lo, halfPi⟩, S1.full⟩ : LLRect α) else b
      if Loop_initBound_cond5 b.lng.isFull cS then ⟨⟨negHalfPi, b.lat.hi⟩, b.lng⟩ else b := rfl

/-- the poles handed to `ContainsPoint` -/
theorem tie_poles : Loop_initBound_val0 = ⟨F64.zero false, F64.zero false, F64.one⟩ ∧
    Loop_initBound_val1 = ⟨F64.zero false, F64.zero false, F64.neg F64.one⟩ := ⟨rfl, rfl⟩

theorem tie_loopBound {P α : Type} [LE α] [LT α] [DecidableLE α] [DecidableLT α] [Max α] [Min α] [IvlOps α] [Inhabited P]
    (E : EdgeBounder P α) (k : LoopKind) (vs : List P) (cN cS : Bool) :
    loopBound E k vs cN cS =
      if Loop_initBound_cond1 (k != .normal) then (if Loop_initBound_cond2 (k == .empty) then LLRect.empty else LLRect.full)
      else poleAdjust (chainBound E (closeChain vs)) cN cS := by
  cases k <;> rfl

/-- `for i := 0; i <= len(l.vertices); i++ { bounder.AddPoint(l.Vertex(i)) }`: the loop runs for exactly the
    `len + 1` indices of the closed chain (vertex 0 is fed twice) -/
theorem tie_closeChain {P : Type} (v : P) (vs : List P) :
    (closeChain (v :: vs)).length = (v :: vs).length + 1 ∧
    ∀ i : Nat, Loop_initBound_cond3 (i : Int) ((v :: vs).length : Int) = decide (i < (closeChain (v :: vs)).length) := by
  have hl : (closeChain (v :: vs)).length = (v :: vs).length + 1 := by simp [closeChain]
  refine ⟨hl, fun i => ?_⟩
  rw [hl]
  exact decide_eq_decide.mpr (by omega)

theorem tie_invertBound {P : Type} [Inhabited P] (E : EdgeBounder P F64) (k : LoopKind) (vs : List P) (bound : LLRect F64)
    (cN cS : Bool) :
    invertBound E k vs bound cN cS =
      if Loop_Invert_cond3 bound.lat.lo bound.lat.hi then LLRect.full
      else loopBound E k.invert vs.reverse cN cS := by
  simp only [invertBound, Loop_Invert_cond3, Bool.and_eq_true]
  rfl

/-- the vertex reversal of `Invert`: `i` from `len/2 - 1` down to 0 swaps `i` and `len-1-i` -/
theorem tie_Invert_reverse (n i : Int) :
    Loop_Invert_val0 n = Int.tdiv n 2 - 1 ∧ Loop_Invert_cond2 i = decide (0 ≤ i) ∧ Loop_Invert_val1 n i = n - 1 - i ∧
    (∀ b, Loop_Invert_val2 b = !b) := ⟨rfl, rfl, rfl, fun _ => rfl⟩

theorem tie_polygonBound {α : Type} [LE α] [LT α] [DecidableLE α] [DecidableLT α] [Max α] [Min α] [IvlOps α]
    (l1 l2 : Bool × LLRect α) (rest : List (Bool × LLRect α)) :
    polygonBound (l1 :: l2 :: rest) =
      (l1 :: l2 :: rest).foldl (fun acc l => if Polygon_initLoopProperties_cond0 l.1 then acc else acc.union l.2) LLRect.empty := rfl

/-- the one-vertex loops of `Invert`: full becomes empty, empty becomes full -/
theorem tie_LoopKind_invert (k : LoopKind) :
    k.invert = if Loop_Invert_cond0 (k != .normal) then (if Loop_Invert_cond1 (k == .full) then .empty else .full) else .normal := by
  cases k <;> rfl
/-- `if len(l.vertices) == 0 { *l = *EmptyLoop() }` -/
theorem tie_initBound_noVertices (n : Nat) : Loop_initBound_cond0 (n : Int) = (n == 0) := by
  cases n with
  | zero => rfl
  | succ k => simp [Loop_initBound_cond0]; omega

/-! ### ConvexHullQuery -/

section hull
variable {P : Type} (sgn : P → P → P → Int)

/-- `for len(output) >= 2 && RobustSign(output[len-2], output[len-1], p) != CounterClockwise { output = output[:len-1] }` -/
theorem tie_chainPop_step (a b p : P) (rest : List P) :
    chainPop sgn (b :: a :: rest) p =
      if monotoneChain_cond0 ((b :: a :: rest).length : Int) (sgn a b p) then chainPop sgn (a :: rest) p
      else b :: a :: rest := by
  have h : decide (((b :: a :: rest).length : Int) ≥ 2) = true := by simp; omega
  simp only [chainPop, monotoneChain_cond0, h, Bool.true_and]

theorem tie_chainPop_short (st : List P) (p : P) (s : Int) (h : st.length < 2) :
    monotoneChain_cond0 (st.length : Int) s = false ∧ chainPop sgn st p = st := by
  match st, h with
  | [], _ => exact ⟨rfl, rfl⟩
  | [_], _ => exact ⟨rfl, rfl⟩

/-- the indices of the orientation test and of the pop -/
theorem tie_chain_indices (n : Int) :
    monotoneChain_val0 n = n - 2 ∧ monotoneChain_val1 n = n - 1 ∧ monotoneChain_val2 n = n - 1 := ⟨rfl, rfl, rfl⟩

theorem tie_lessAround (origin a b : P) : lessAround sgn origin a b = ConvexHull_val0 (sgn origin a b) := rfl

theorem tie_dedupBy (eq : P → P → Bool) (pts : List P) :
    dedupBy eq pts = (pts.foldl (fun acc p => if ConvexHull_cond2 (acc.any (eq p)) then acc else p :: acc) []).reverse := rfl

/-- `lower = lower[:len(lower)-1]; upper = upper[:len(upper)-1]` are the model's `dropLast` -/
theorem tie_dropLast (l : List P) : l.dropLast = l.take (ConvexHull_val4 (l.length : Int)).toNat ∧
    l.dropLast = l.take (ConvexHull_val5 (l.length : Int)).toNat := by
  have : ((l.length : Int) - 1).toNat = l.length - 1 := by omega
  simp [ConvexHull_val4, ConvexHull_val5, this, List.dropLast_eq_take]

/-- the in-place reversal between the two chains: `for left, right := 0, len-1; left < right; left, right = left+1, right-1` -/
theorem tie_reverse_indices (n l r : Int) :
    ConvexHull_val1 n = n - 1 ∧ ConvexHull_cond3 l r = decide (l < r) ∧ ConvexHull_val2 l = l + 1 ∧ ConvexHull_val3 r = r - 1 ∧
    (∀ m, ConvexHull_cond1 l m = decide (l < m)) := ⟨rfl, rfl, rfl, rfl, fun _ => rfl⟩

/-- `if c.Height() >= 1-10*dblEpsilon { return FullLoop() }` is the model's `capNotConvex` -/
theorem tie_convexHull (eq : P → P → Bool) (h : F64) (origin : P) (pts : List P) :
    convexHull sgn eq (ConvexHull_cond0 h) origin pts =
      if F64.le ⟨0x3fefffffffffffec⟩ h then .full
      else convexHullSorted sgn (sortAround sgn origin (dedupBy eq pts)) := rfl

end hull

end S2Proofs.Ties.C10Bounds
