/-
  S2Proofs.Ties.C05_RegionsPins — literal pins of S2.Generated.RegionFns (written by translator_c07/mkpins.py from the generated
  file of the UNCHANGED tree; hand-owned afterwards).  Every theorem is `rfl` against the regenerated definition: an edit
  of the Go source that changes an operator, an operand, a constant, the order of two tests, a call target or drops a
  statement changes a definition body or a shape string and the theorem no longer builds.
-/
import S2.Generated.RegionFns
import S2.Relate
namespace S2Proofs.Ties.C05_RegionsPins
open S2 S2.Generated
set_option linter.unusedVariables false
set_option linter.unusedSectionVars false
set_option maxRecDepth 4000

variable {α : Type} [DecidableEq α] (G : Relate.Geo α)

theorem shape_Rect_ContainsCell : RegionFns.Rect_ContainsCell_shape =
    "return r.Contains(c.RectBound())" := rfl
theorem exprs_Rect_ContainsCell : RegionFns.Rect_ContainsCell_exprs =
    "" := rfl
theorem shape_Rect_IntersectsCell : RegionFns.Rect_IntersectsCell_shape =
    "if cond0⟨r.IsEmpty()⟩ {return false}; if cond1⟨r.ContainsPoint(Point{c.id.rawPoint()})⟩ {return true}; if cond2⟨c.ContainsPoint(PointFromLatLng(r.Center()))⟩ {return true}; if cond3⟨r.Intersects(c.RectBound())⟩ {return false}; vertices := [4]Point{}; latlngs := [4]LatLng{}; range i := vertices {vertices[i] = c.Vertex(i); latlngs[i] = LatLngFromPoint(vertices[i]); if cond4⟨r.ContainsLatLng(latlngs[i])⟩ {return true}; if cond5⟨c.ContainsPoint(PointFromLatLng(r.Vertex(i)))⟩ {return true}}; range i := vertices {edgeLng := s1.IntervalFromPointPair(latlngs[i].Lng.Radians(), latlngs[(val0⟨i⟩) & 3].Lng.Radians()); if cond6⟨r.Lng.Intersects(edgeLng)⟩ {continue}; a := vertices[i]; b := vertices[(val1⟨i⟩) & 3]; if cond7⟨edgeLng.Contains(r.Lng.Lo); intersectsLngEdge(a, b, r.Lat, s1.Angle(r.Lng.Lo))⟩ {return true}; if cond8⟨edgeLng.Contains(r.Lng.Hi); intersectsLngEdge(a, b, r.Lat, s1.Angle(r.Lng.Hi))⟩ {return true}; if cond9⟨intersectsLatEdge(a, b, s1.Angle(r.Lat.Lo), r.Lng)⟩ {return true}; if cond10⟨intersectsLatEdge(a, b, s1.Angle(r.Lat.Hi), r.Lng)⟩ {return true}}; return false" := rfl
theorem exprs_Rect_IntersectsCell : RegionFns.Rect_IntersectsCell_exprs =
    "cond0: r.IsEmpty() | cond1: r.ContainsPoint(Point{c.id.rawPoint()}) | cond2: c.ContainsPoint(PointFromLatLng(r.Center())) | cond3: !r.Intersects(c.RectBound()) | cond4: r.ContainsLatLng(latlngs[i]) | cond5: c.ContainsPoint(PointFromLatLng(r.Vertex(i))) | val0: i + 1 | cond6: !r.Lng.Intersects(edgeLng) | val1: i + 1 | cond7: edgeLng.Contains(r.Lng.Lo) && intersectsLngEdge(a, b, r.Lat, s1.Angle(r.Lng.Lo)) | cond8: edgeLng.Contains(r.Lng.Hi) && intersectsLngEdge(a, b, r.Lat, s1.Angle(r.Lng.Hi)) | cond9: intersectsLatEdge(a, b, s1.Angle(r.Lat.Lo), r.Lng) | cond10: intersectsLatEdge(a, b, s1.Angle(r.Lat.Hi), r.Lng)" := rfl
theorem shape_intersectsLatEdge : RegionFns.intersectsLatEdge_shape =
    "z := val0⟨a.PointCross(b)⟩; if cond0⟨z⟩ {z = val1⟨z⟩}; y := val2⟨z.PointCross(PointFromCoords(0, 0, 1))⟩; x := val3⟨y; z⟩; sinLat := math.Sin(float64(lat)); if cond1⟨sinLat; x⟩ {return false}; cosTheta := val4⟨sinLat; x⟩; sinTheta := val5⟨cosTheta⟩; theta := math.Atan2(sinTheta, cosTheta); abTheta := s1.IntervalFromPointPair(math.Atan2(val6⟨a; y⟩, val7⟨a; x⟩), math.Atan2(val8⟨b; y⟩, val9⟨b; x⟩)); if cond2⟨abTheta.Contains(theta)⟩ {isect := val10⟨x; cosTheta; y; sinTheta⟩; if cond3⟨lng.Contains(math.Atan2(isect.Y, isect.X))⟩ {return true}}; if cond4⟨abTheta.Contains(val11⟨theta⟩)⟩ {isect := val12⟨x; cosTheta; y; sinTheta⟩; if cond5⟨lng.Contains(math.Atan2(isect.Y, isect.X))⟩ {return true}}; return false" := rfl
theorem exprs_intersectsLatEdge : RegionFns.intersectsLatEdge_exprs =
    "val0: Point{a.PointCross(b).Normalize()} | cond0: z.Z < 0 | val1: Point{z.Mul(-1)} | val2: Point{z.PointCross(PointFromCoords(0, 0, 1)).Normalize()} | val3: y.Cross(z.Vector) | cond1: math.Abs(sinLat) >= x.Z | val4: sinLat / x.Z | val5: math.Sqrt(1 - cosTheta*cosTheta) | val6: a.Dot(y.Vector) | val7: a.Dot(x) | val8: b.Dot(y.Vector) | val9: b.Dot(x) | cond2: abTheta.Contains(theta) | val10: x.Mul(cosTheta).Add(y.Mul(sinTheta)) | cond3: lng.Contains(math.Atan2(isect.Y, isect.X)) | val11: -theta | cond4: abTheta.Contains(-theta) | val12: x.Mul(cosTheta).Sub(y.Mul(sinTheta)) | cond5: lng.Contains(math.Atan2(isect.Y, isect.X))" := rfl
theorem shape_intersectsLngEdge : RegionFns.intersectsLngEdge_shape =
    "return val0⟨CrossingSign(a, b, PointFromLatLng(LatLng{s1.Angle(lat.Lo), lng}), PointFromLatLng(LatLng{s1.Angle(lat.Hi), lng}))⟩" := rfl
theorem exprs_intersectsLngEdge : RegionFns.intersectsLngEdge_exprs =
    "val0: CrossingSign(a, b, PointFromLatLng(LatLng{s1.Angle(lat.Lo), lng}), PointFromLatLng(LatLng{s1.Angle(lat.Hi), lng})) == Cross" := rfl
theorem shape_Rect_ContainsPoint : RegionFns.Rect_ContainsPoint_shape =
    "return r.ContainsLatLng(LatLngFromPoint(p))" := rfl
theorem exprs_Rect_ContainsPoint : RegionFns.Rect_ContainsPoint_exprs =
    "" := rfl
theorem shape_Rect_ContainsLatLng : RegionFns.Rect_ContainsLatLng_shape =
    "if cond0⟨ll.IsValid()⟩ {return false}; return val0⟨r.Lat.Contains(ll.Lat.Radians()); r.Lng.Contains(ll.Lng.Radians())⟩" := rfl
theorem exprs_Rect_ContainsLatLng : RegionFns.Rect_ContainsLatLng_exprs =
    "cond0: !ll.IsValid() | val0: r.Lat.Contains(ll.Lat.Radians()) && r.Lng.Contains(ll.Lng.Radians())" := rfl
theorem shape_Rect_CellUnionBound : RegionFns.Rect_CellUnionBound_shape =
    "return r.CapBound().CellUnionBound()" := rfl
theorem exprs_Rect_CellUnionBound : RegionFns.Rect_CellUnionBound_exprs =
    "" := rfl
theorem shape_Cap_ContainsCell : RegionFns.Cap_ContainsCell_shape =
    "var vertices [4]Point; for[k := 0] cond0⟨k⟩ [k++] {vertices[k] = cell.Vertex(k); if cond1⟨c.ContainsPoint(vertices[k])⟩ {return false}}; return val0⟨c.Complement().intersects(cell, vertices)⟩" := rfl
theorem exprs_Cap_ContainsCell : RegionFns.Cap_ContainsCell_exprs =
    "cond0: k < 4 | cond1: !c.ContainsPoint(vertices[k]) | val0: !c.Complement().intersects(cell, vertices)" := rfl
theorem shape_Cap_IntersectsCell : RegionFns.Cap_IntersectsCell_shape =
    "var vertices [4]Point; for[k := 0] cond0⟨k⟩ [k++] {vertices[k] = cell.Vertex(k); if cond1⟨c.ContainsPoint(vertices[k])⟩ {return true}}; return c.intersects(cell, vertices)" := rfl
theorem exprs_Cap_IntersectsCell : RegionFns.Cap_IntersectsCell_exprs =
    "cond0: k < 4 | cond1: c.ContainsPoint(vertices[k])" := rfl
theorem shape_Cap_intersects : RegionFns.Cap_intersects_shape =
    "if cond0⟨c.radius⟩ {return false}; if cond1⟨c.IsEmpty()⟩ {return false}; if cond2⟨cell.ContainsPoint(c.center)⟩ {return true}; sin2Angle := c.radius.Sin2(); for[k := 0] cond3⟨k⟩ [k++] {edge := cell.Edge(k).Vector; dot := val0⟨c.center; edge⟩; if cond4⟨dot⟩ {continue}; if cond5⟨dot; sin2Angle; edge⟩ {return false}; dir := val1⟨edge; c.center⟩; if cond6⟨dir; vertices[k]; vertices[(val2⟨k⟩) & 3]⟩ {return true}}; return false" := rfl
theorem exprs_Cap_intersects : RegionFns.Cap_intersects_exprs =
    "cond0: c.radius >= s1.RightChordAngle | cond1: c.IsEmpty() | cond2: cell.ContainsPoint(c.center) | cond3: k < 4 | val0: c.center.Dot(edge) | cond4: dot > 0 | cond5: dot*(dot+capEdgeDotError) > sin2Angle*edge.Norm2() | val1: edge.Cross(c.center.Vector) | val2: k + 1 | cond6: dir.Dot(vertices[k].Vector) < 0 && dir.Dot(vertices[(k+1)&3].Vector) > 0" := rfl
theorem shape_Cap_CellUnionBound : RegionFns.Cap_CellUnionBound_shape =
    "level := val0⟨MinWidthMetric.MaxLevel(c.Radius().Radians())⟩; if cond0⟨level⟩ {cellIDs := make([]CellID, 6); for[face := 0] cond1⟨face⟩ [face++] {cellIDs[face] = val1⟨face⟩}; return cellIDs}; return cellIDFromPoint(c.center).VertexNeighbors(level)" := rfl
theorem exprs_Cap_CellUnionBound : RegionFns.Cap_CellUnionBound_exprs =
    "val0: MinWidthMetric.MaxLevel(c.Radius().Radians()) - 1 | cond0: level < 0 | cond1: face < 6 | val1: CellIDFromFace(face)" := rfl
theorem shape_Cell_ContainsCell : RegionFns.Cell_ContainsCell_shape =
    "return val0⟨c.id; oc.id⟩" := rfl
theorem exprs_Cell_ContainsCell : RegionFns.Cell_ContainsCell_exprs =
    "val0: c.id.Contains(oc.id)" := rfl
theorem shape_Cell_IntersectsCell : RegionFns.Cell_IntersectsCell_shape =
    "return val0⟨c.id; oc.id⟩" := rfl
theorem exprs_Cell_IntersectsCell : RegionFns.Cell_IntersectsCell_exprs =
    "val0: c.id.Intersects(oc.id)" := rfl
theorem shape_CellUnion_ContainsCell : RegionFns.CellUnion_ContainsCell_shape =
    "return cu.ContainsCellID(c.id)" := rfl
theorem exprs_CellUnion_ContainsCell : RegionFns.CellUnion_ContainsCell_exprs =
    "" := rfl
theorem shape_CellUnion_IntersectsCell : RegionFns.CellUnion_IntersectsCell_shape =
    "return cu.IntersectsCellID(c.id)" := rfl
theorem exprs_CellUnion_IntersectsCell : RegionFns.CellUnion_IntersectsCell_exprs =
    "" := rfl
theorem shape_CellUnion_CellUnionBound : RegionFns.CellUnion_CellUnionBound_shape =
    "return cu.CapBound().CellUnionBound()" := rfl
theorem exprs_CellUnion_CellUnionBound : RegionFns.CellUnion_CellUnionBound_exprs =
    "" := rfl
theorem shape_CellUnion_ExpandAtLevel : RegionFns.CellUnion_ExpandAtLevel_shape =
    "var output CellUnion; levelLsb := val0⟨level⟩; for[i := val1⟨cu⟩] cond0⟨i⟩ [i--] {id := (*cu)[i]; if cond1⟨id; levelLsb⟩ {id = val2⟨id; level⟩; for cond2⟨i; id; cu⟩ {i--}}; output = append(output, id); output = append(output, id.AllNeighbors(level)...)}; sortCellIDs(output); *cu = output; cu.Normalize()" := rfl
theorem exprs_CellUnion_ExpandAtLevel : RegionFns.CellUnion_ExpandAtLevel_exprs =
    "val0: lsbForLevel(level) | val1: len(*cu) - 1 | cond0: i >= 0 | cond1: id.lsb() < levelLsb | val2: id.Parent(level) | cond2: i > 0 && id.Contains((*cu)[i-1])" := rfl
theorem shape_Polyline_ContainsCell : RegionFns.Polyline_ContainsCell_shape =
    "return false" := rfl
theorem exprs_Polyline_ContainsCell : RegionFns.Polyline_ContainsCell_exprs =
    "" := rfl
theorem shape_Polyline_IntersectsCell : RegionFns.Polyline_IntersectsCell_shape =
    "if cond0⟨len(*p)⟩ {return false}; range _, v := *p {if cond1⟨cell.ContainsPoint(v)⟩ {return true}}; cellVertices := []Point{cell.Vertex(0), cell.Vertex(1), cell.Vertex(2), cell.Vertex(3)}; for[j := 0] cond2⟨j⟩ [j++] {crosser := NewChainEdgeCrosser(cellVertices[j], cellVertices[(val0⟨j⟩) & 3], (*p)[0]); for[i := 1] cond3⟨i; len(*p)⟩ [i++] {if cond4⟨crosser.ChainCrossingSign((*p)[i])⟩ {return true}}}; return false" := rfl
theorem exprs_Polyline_IntersectsCell : RegionFns.Polyline_IntersectsCell_exprs =
    "cond0: len(*p) == 0 | cond1: cell.ContainsPoint(v) | cond2: j < 4 | val0: j + 1 | cond3: i < len(*p) | cond4: crosser.ChainCrossingSign((*p)[i]) != DoNotCross" := rfl
theorem shape_Polyline_CellUnionBound : RegionFns.Polyline_CellUnionBound_shape =
    "return p.CapBound().CellUnionBound()" := rfl
theorem exprs_Polyline_CellUnionBound : RegionFns.Polyline_CellUnionBound_exprs =
    "" := rfl
theorem shape_ShapeIndexRegion_CellUnionBound : RegionFns.ShapeIndexRegion_CellUnionBound_shape =
    "var cellIDs []CellID; s.iter.End(); if cond0⟨s.iter.Prev()⟩ {return cellIDs}; lastIndexID := s.iter.CellID(); s.iter.Begin(); if cond1⟨s.iter.CellID(); lastIndexID⟩ {level, ok := s.iter.CellID().CommonAncestorLevel(lastIndexID); if cond2⟨ok⟩ {level = -1}; level++; lastID := val0⟨lastIndexID; level⟩; for[id := val1⟨s.iter.CellID(); level⟩] cond3⟨id; lastID⟩ [id = val2⟨id⟩] {if cond4⟨id; s.iter.CellID()⟩ {continue}; first := s.iter.CellID(); s.iter.seek(val3⟨id⟩); s.iter.Prev(); cellIDs = s.coverRange(first, s.iter.CellID(), cellIDs); s.iter.Next()}}; return s.coverRange(s.iter.CellID(), lastIndexID, cellIDs)" := rfl
theorem exprs_ShapeIndexRegion_CellUnionBound : RegionFns.ShapeIndexRegion_CellUnionBound_exprs =
    "cond0: !s.iter.Prev() | cond1: s.iter.CellID() != lastIndexID | cond2: !ok | val0: lastIndexID.Parent(level) | val1: s.iter.CellID().Parent(level) | cond3: id != lastID | val2: id.Next() | cond4: id.RangeMax() < s.iter.CellID() | val3: id.RangeMax().Next()" := rfl
theorem shape_ShapeIndexRegion_coverRange : RegionFns.ShapeIndexRegion_coverRange_shape =
    "if cond0⟨first; last⟩ {return append(cellIDs, first)}; level, ok := first.CommonAncestorLevel(last); if cond1⟨ok⟩ {return append(cellIDs, CellID(0))}; return append(cellIDs, val0⟨first; level⟩)" := rfl
theorem exprs_ShapeIndexRegion_coverRange : RegionFns.ShapeIndexRegion_coverRange_exprs =
    "cond0: first == last | cond1: !ok | val0: first.Parent(level)" := rfl

theorem pin_Rect_IntersectsCell_cond0 (r_IsEmpty : Bool) :
    RegionFns.Rect_IntersectsCell_cond0 r_IsEmpty = (r_IsEmpty) := rfl
theorem pin_Rect_IntersectsCell_cond1 (r_ContainsPoint_Point_c_id_rawPoint : Bool) :
    RegionFns.Rect_IntersectsCell_cond1 r_ContainsPoint_Point_c_id_rawPoint = (r_ContainsPoint_Point_c_id_rawPoint) := rfl
theorem pin_Rect_IntersectsCell_cond2 (c_ContainsPoint_PointFromLatLng_r_Center : Bool) :
    RegionFns.Rect_IntersectsCell_cond2 c_ContainsPoint_PointFromLatLng_r_Center = (c_ContainsPoint_PointFromLatLng_r_Center) := rfl
theorem pin_Rect_IntersectsCell_cond3 (r_Intersects_c_RectBound : Bool) :
    RegionFns.Rect_IntersectsCell_cond3 r_Intersects_c_RectBound = (!r_Intersects_c_RectBound) := rfl
theorem pin_Rect_IntersectsCell_cond4 (r_ContainsLatLng_latlngs_i : Bool) :
    RegionFns.Rect_IntersectsCell_cond4 r_ContainsLatLng_latlngs_i = (r_ContainsLatLng_latlngs_i) := rfl
theorem pin_Rect_IntersectsCell_cond5 (c_ContainsPoint_PointFromLatLng_r_Vertex_i : Bool) :
    RegionFns.Rect_IntersectsCell_cond5 c_ContainsPoint_PointFromLatLng_r_Vertex_i = (c_ContainsPoint_PointFromLatLng_r_Vertex_i) := rfl
theorem pin_Rect_IntersectsCell_val0 (i : Int) :
    RegionFns.Rect_IntersectsCell_val0 i = (i + 1) := rfl
theorem pin_Rect_IntersectsCell_cond6 (r_Lng_Intersects_edgeLng : Bool) :
    RegionFns.Rect_IntersectsCell_cond6 r_Lng_Intersects_edgeLng = (!r_Lng_Intersects_edgeLng) := rfl
theorem pin_Rect_IntersectsCell_val1 (i : Int) :
    RegionFns.Rect_IntersectsCell_val1 i = (i + 1) := rfl
theorem pin_Rect_IntersectsCell_cond7 (edgeLng_Contains_r_Lng_Lo : Bool) (intersectsLngEdge_a_b_r_Lat_s1_Angle_r_Lng_Lo : Bool) :
    RegionFns.Rect_IntersectsCell_cond7 edgeLng_Contains_r_Lng_Lo intersectsLngEdge_a_b_r_Lat_s1_Angle_r_Lng_Lo = (edgeLng_Contains_r_Lng_Lo && intersectsLngEdge_a_b_r_Lat_s1_Angle_r_Lng_Lo) := rfl
theorem pin_Rect_IntersectsCell_cond8 (edgeLng_Contains_r_Lng_Hi : Bool) (intersectsLngEdge_a_b_r_Lat_s1_Angle_r_Lng_Hi : Bool) :
    RegionFns.Rect_IntersectsCell_cond8 edgeLng_Contains_r_Lng_Hi intersectsLngEdge_a_b_r_Lat_s1_Angle_r_Lng_Hi = (edgeLng_Contains_r_Lng_Hi && intersectsLngEdge_a_b_r_Lat_s1_Angle_r_Lng_Hi) := rfl
theorem pin_Rect_IntersectsCell_cond9 (intersectsLatEdge_a_b_s1_Angle_r_Lat_Lo_r_Lng : Bool) :
    RegionFns.Rect_IntersectsCell_cond9 intersectsLatEdge_a_b_s1_Angle_r_Lat_Lo_r_Lng = (intersectsLatEdge_a_b_s1_Angle_r_Lat_Lo_r_Lng) := rfl
theorem pin_Rect_IntersectsCell_cond10 (intersectsLatEdge_a_b_s1_Angle_r_Lat_Hi_r_Lng : Bool) :
    RegionFns.Rect_IntersectsCell_cond10 intersectsLatEdge_a_b_s1_Angle_r_Lat_Hi_r_Lng = (intersectsLatEdge_a_b_s1_Angle_r_Lat_Hi_r_Lng) := rfl
theorem pin_intersectsLatEdge_val0 (a_PointCross_b : V3) :
    RegionFns.intersectsLatEdge_val0 a_PointCross_b = (V3.normalize a_PointCross_b) := rfl
theorem pin_intersectsLatEdge_cond0 (z : V3) :
    RegionFns.intersectsLatEdge_cond0 z = (F64.lt z.z (⟨0x0000000000000000⟩ : F64)) := rfl
theorem pin_intersectsLatEdge_val1 (z : V3) :
    RegionFns.intersectsLatEdge_val1 z = (V3.mul z (⟨0xbff0000000000000⟩ : F64)) := rfl
theorem pin_intersectsLatEdge_val2 (z_PointCross_PointFromCoords_0_0_1 : V3) :
    RegionFns.intersectsLatEdge_val2 z_PointCross_PointFromCoords_0_0_1 = (V3.normalize z_PointCross_PointFromCoords_0_0_1) := rfl
theorem pin_intersectsLatEdge_val3 (y : V3) (z : V3) :
    RegionFns.intersectsLatEdge_val3 y z = (V3.cross y z) := rfl
theorem pin_intersectsLatEdge_cond1 (sinLat : F64) (x : V3) :
    RegionFns.intersectsLatEdge_cond1 sinLat x = (F64.le x.z (F64.abs sinLat)) := rfl
theorem pin_intersectsLatEdge_val4 (sinLat : F64) (x : V3) :
    RegionFns.intersectsLatEdge_val4 sinLat x = (F64.div sinLat x.z) := rfl
theorem pin_intersectsLatEdge_val5 (cosTheta : F64) :
    RegionFns.intersectsLatEdge_val5 cosTheta = (F64.sqrt (F64.sub (⟨0x3ff0000000000000⟩ : F64) (F64.mul cosTheta cosTheta))) := rfl
theorem pin_intersectsLatEdge_val6 (a : V3) (y : V3) :
    RegionFns.intersectsLatEdge_val6 a y = (V3.dot a y) := rfl
theorem pin_intersectsLatEdge_val7 (a : V3) (x : V3) :
    RegionFns.intersectsLatEdge_val7 a x = (V3.dot a x) := rfl
theorem pin_intersectsLatEdge_val8 (b : V3) (y : V3) :
    RegionFns.intersectsLatEdge_val8 b y = (V3.dot b y) := rfl
theorem pin_intersectsLatEdge_val9 (b : V3) (x : V3) :
    RegionFns.intersectsLatEdge_val9 b x = (V3.dot b x) := rfl
theorem pin_intersectsLatEdge_cond2 (abTheta_Contains_theta : Bool) :
    RegionFns.intersectsLatEdge_cond2 abTheta_Contains_theta = (abTheta_Contains_theta) := rfl
theorem pin_intersectsLatEdge_val10 (x : V3) (cosTheta : F64) (y : V3) (sinTheta : F64) :
    RegionFns.intersectsLatEdge_val10 x cosTheta y sinTheta = (V3.add (V3.mul x cosTheta) (V3.mul y sinTheta)) := rfl
theorem pin_intersectsLatEdge_cond3 (lng_Contains_math_Atan2_isect_Y_isect_X : Bool) :
    RegionFns.intersectsLatEdge_cond3 lng_Contains_math_Atan2_isect_Y_isect_X = (lng_Contains_math_Atan2_isect_Y_isect_X) := rfl
theorem pin_intersectsLatEdge_val11 (theta : F64) :
    RegionFns.intersectsLatEdge_val11 theta = (F64.neg theta) := rfl
theorem pin_intersectsLatEdge_cond4 (abTheta_Contains_val11 : Bool) :
    RegionFns.intersectsLatEdge_cond4 abTheta_Contains_val11 = (abTheta_Contains_val11) := rfl
theorem pin_intersectsLatEdge_val12 (x : V3) (cosTheta : F64) (y : V3) (sinTheta : F64) :
    RegionFns.intersectsLatEdge_val12 x cosTheta y sinTheta = (V3.sub (V3.mul x cosTheta) (V3.mul y sinTheta)) := rfl
theorem pin_intersectsLatEdge_cond5 (lng_Contains_math_Atan2_isect_Y_isect_X : Bool) :
    RegionFns.intersectsLatEdge_cond5 lng_Contains_math_Atan2_isect_Y_isect_X = (lng_Contains_math_Atan2_isect_Y_isect_X) := rfl
theorem pin_intersectsLngEdge_val0 (CrossingSign_a_b_PointFromLatLng_LatLng_s1_Angle_lat_Lo_lng_PointFromLatLng_LatLng_s1_Angle_lat_Hi_lng : Int) :
    RegionFns.intersectsLngEdge_val0 CrossingSign_a_b_PointFromLatLng_LatLng_s1_Angle_lat_Lo_lng_PointFromLatLng_LatLng_s1_Angle_lat_Hi_lng = (CrossingSign_a_b_PointFromLatLng_LatLng_s1_Angle_lat_Lo_lng_PointFromLatLng_LatLng_s1_Angle_lat_Hi_lng == 0) := rfl
theorem pin_Rect_ContainsLatLng_cond0 (ll_IsValid : Bool) :
    RegionFns.Rect_ContainsLatLng_cond0 ll_IsValid = (!ll_IsValid) := rfl
theorem pin_Rect_ContainsLatLng_val0 (r_Lat_Contains_ll_Lat_Radians : Bool) (r_Lng_Contains_ll_Lng_Radians : Bool) :
    RegionFns.Rect_ContainsLatLng_val0 r_Lat_Contains_ll_Lat_Radians r_Lng_Contains_ll_Lng_Radians = (r_Lat_Contains_ll_Lat_Radians && r_Lng_Contains_ll_Lng_Radians) := rfl
theorem pin_Cap_ContainsCell_cond0 (k : Int) :
    RegionFns.Cap_ContainsCell_cond0 k = (decide (k < 4)) := rfl
theorem pin_Cap_ContainsCell_cond1 (c_ContainsPoint_vertices_k : Bool) :
    RegionFns.Cap_ContainsCell_cond1 c_ContainsPoint_vertices_k = (!c_ContainsPoint_vertices_k) := rfl
theorem pin_Cap_ContainsCell_val0 (c_Complement_intersects_cell_vertices : Bool) :
    RegionFns.Cap_ContainsCell_val0 c_Complement_intersects_cell_vertices = (!c_Complement_intersects_cell_vertices) := rfl
theorem pin_Cap_IntersectsCell_cond0 (k : Int) :
    RegionFns.Cap_IntersectsCell_cond0 k = (decide (k < 4)) := rfl
theorem pin_Cap_IntersectsCell_cond1 (c_ContainsPoint_vertices_k : Bool) :
    RegionFns.Cap_IntersectsCell_cond1 c_ContainsPoint_vertices_k = (c_ContainsPoint_vertices_k) := rfl
theorem pin_Cap_intersects_cond0 (c_radius : F64) :
    RegionFns.Cap_intersects_cond0 c_radius = (F64.le (⟨0x4000000000000000⟩ : F64) c_radius) := rfl
theorem pin_Cap_intersects_cond1 (c_IsEmpty : Bool) :
    RegionFns.Cap_intersects_cond1 c_IsEmpty = (c_IsEmpty) := rfl
theorem pin_Cap_intersects_cond2 (cell_ContainsPoint_c_center : Bool) :
    RegionFns.Cap_intersects_cond2 cell_ContainsPoint_c_center = (cell_ContainsPoint_c_center) := rfl
theorem pin_Cap_intersects_cond3 (k : Int) :
    RegionFns.Cap_intersects_cond3 k = (decide (k < 4)) := rfl
theorem pin_Cap_intersects_val0 (c_center : V3) (edge : V3) :
    RegionFns.Cap_intersects_val0 c_center edge = (V3.dot c_center edge) := rfl
theorem pin_Cap_intersects_cond4 (dot : F64) :
    RegionFns.Cap_intersects_cond4 dot = (F64.lt (⟨0x0000000000000000⟩ : F64) dot) := rfl
theorem pin_Cap_intersects_cond5 (dot : F64) (sin2Angle : F64) (edge : V3) :
    RegionFns.Cap_intersects_cond5 dot sin2Angle edge = (F64.lt (F64.mul sin2Angle (V3.norm2 edge)) (F64.mul dot (F64.add dot (⟨0x3cf0000000000000⟩ : F64)))) := rfl
theorem pin_Cap_intersects_val1 (edge : V3) (c_center : V3) :
    RegionFns.Cap_intersects_val1 edge c_center = (V3.cross edge c_center) := rfl
theorem pin_Cap_intersects_val2 (k : Int) :
    RegionFns.Cap_intersects_val2 k = (k + 1) := rfl
theorem pin_Cap_intersects_cond6 (dir : V3) (vertices_k : V3) (vertices_val2_3 : V3) :
    RegionFns.Cap_intersects_cond6 dir vertices_k vertices_val2_3 = ((F64.lt (V3.dot dir vertices_k) (⟨0x0000000000000000⟩ : F64)) && (F64.lt (⟨0x0000000000000000⟩ : F64) (V3.dot dir vertices_val2_3))) := rfl
theorem pin_Cap_CellUnionBound_val0 (MinWidthMetric_MaxLevel_c_Radius_Radians : Int) :
    RegionFns.Cap_CellUnionBound_val0 MinWidthMetric_MaxLevel_c_Radius_Radians = (MinWidthMetric_MaxLevel_c_Radius_Radians - 1) := rfl
theorem pin_Cap_CellUnionBound_cond0 (level : Int) :
    RegionFns.Cap_CellUnionBound_cond0 level = (decide (level < 0)) := rfl
theorem pin_Cap_CellUnionBound_cond1 (face : Int) :
    RegionFns.Cap_CellUnionBound_cond1 face = (decide (face < 6)) := rfl
theorem pin_Cap_CellUnionBound_val1 (face : Int) :
    RegionFns.Cap_CellUnionBound_val1 face = (CellIDFns.CellIDFromFace ((face).toNat)) := rfl
theorem pin_Cell_ContainsCell_val0 (c_id : UInt64) (oc_id : UInt64) :
    RegionFns.Cell_ContainsCell_val0 c_id oc_id = (CellIDFns.Contains c_id oc_id) := rfl
theorem pin_Cell_IntersectsCell_val0 (c_id : UInt64) (oc_id : UInt64) :
    RegionFns.Cell_IntersectsCell_val0 c_id oc_id = (CellIDFns.Intersects c_id oc_id) := rfl
theorem pin_CellUnion_ExpandAtLevel_val0 (level : Int) :
    RegionFns.CellUnion_ExpandAtLevel_val0 level = (CellIDFns.lsbForLevel ((level).toNat)) := rfl
theorem pin_CellUnion_ExpandAtLevel_val1 (cu : Array UInt64) :
    RegionFns.CellUnion_ExpandAtLevel_val1 cu = ((cu.size : Int) - 1) := rfl
theorem pin_CellUnion_ExpandAtLevel_cond0 (i : Int) :
    RegionFns.CellUnion_ExpandAtLevel_cond0 i = (decide (i ≥ 0)) := rfl
theorem pin_CellUnion_ExpandAtLevel_cond1 (id : UInt64) (levelLsb : UInt64) :
    RegionFns.CellUnion_ExpandAtLevel_cond1 id levelLsb = (decide ((CellIDFns.lsb id) < levelLsb)) := rfl
theorem pin_CellUnion_ExpandAtLevel_val2 (id : UInt64) (level : Int) :
    RegionFns.CellUnion_ExpandAtLevel_val2 id level = (CellIDFns.Parent id ((level).toNat)) := rfl
theorem pin_CellUnion_ExpandAtLevel_cond2 (i : Int) (id : UInt64) (cu : Array UInt64) :
    RegionFns.CellUnion_ExpandAtLevel_cond2 i id cu = ((decide (i > 0)) && (CellIDFns.Contains id (cu[(i - 1).toNat]!))) := rfl
theorem pin_Polyline_IntersectsCell_cond0 (len_p : Int) :
    RegionFns.Polyline_IntersectsCell_cond0 len_p = (len_p == 0) := rfl
theorem pin_Polyline_IntersectsCell_cond1 (cell_ContainsPoint_v : Bool) :
    RegionFns.Polyline_IntersectsCell_cond1 cell_ContainsPoint_v = (cell_ContainsPoint_v) := rfl
theorem pin_Polyline_IntersectsCell_cond2 (j : Int) :
    RegionFns.Polyline_IntersectsCell_cond2 j = (decide (j < 4)) := rfl
theorem pin_Polyline_IntersectsCell_val0 (j : Int) :
    RegionFns.Polyline_IntersectsCell_val0 j = (j + 1) := rfl
theorem pin_Polyline_IntersectsCell_cond3 (i : Int) (len_p : Int) :
    RegionFns.Polyline_IntersectsCell_cond3 i len_p = (decide (i < len_p)) := rfl
theorem pin_Polyline_IntersectsCell_cond4 (crosser_ChainCrossingSign_p_i : Int) :
    RegionFns.Polyline_IntersectsCell_cond4 crosser_ChainCrossingSign_p_i = (crosser_ChainCrossingSign_p_i != 2) := rfl
theorem pin_ShapeIndexRegion_CellUnionBound_cond0 (s_iter_Prev : Bool) :
    RegionFns.ShapeIndexRegion_CellUnionBound_cond0 s_iter_Prev = (!s_iter_Prev) := rfl
theorem pin_ShapeIndexRegion_CellUnionBound_cond1 (s_iter_CellID : UInt64) (lastIndexID : UInt64) :
    RegionFns.ShapeIndexRegion_CellUnionBound_cond1 s_iter_CellID lastIndexID = (s_iter_CellID != lastIndexID) := rfl
theorem pin_ShapeIndexRegion_CellUnionBound_cond2 (ok : Bool) :
    RegionFns.ShapeIndexRegion_CellUnionBound_cond2 ok = (!ok) := rfl
theorem pin_ShapeIndexRegion_CellUnionBound_val0 (lastIndexID : UInt64) (level : Int) :
    RegionFns.ShapeIndexRegion_CellUnionBound_val0 lastIndexID level = (CellIDFns.Parent lastIndexID ((level).toNat)) := rfl
theorem pin_ShapeIndexRegion_CellUnionBound_val1 (s_iter_CellID : UInt64) (level : Int) :
    RegionFns.ShapeIndexRegion_CellUnionBound_val1 s_iter_CellID level = (CellIDFns.Parent s_iter_CellID ((level).toNat)) := rfl
theorem pin_ShapeIndexRegion_CellUnionBound_cond3 (id : UInt64) (lastID : UInt64) :
    RegionFns.ShapeIndexRegion_CellUnionBound_cond3 id lastID = (id != lastID) := rfl
theorem pin_ShapeIndexRegion_CellUnionBound_val2 (id : UInt64) :
    RegionFns.ShapeIndexRegion_CellUnionBound_val2 id = (CellIDFns.Next id) := rfl
theorem pin_ShapeIndexRegion_CellUnionBound_cond4 (id : UInt64) (s_iter_CellID : UInt64) :
    RegionFns.ShapeIndexRegion_CellUnionBound_cond4 id s_iter_CellID = (decide ((CellIDFns.RangeMax id) < s_iter_CellID)) := rfl
theorem pin_ShapeIndexRegion_CellUnionBound_val3 (id : UInt64) :
    RegionFns.ShapeIndexRegion_CellUnionBound_val3 id = (CellIDFns.Next (CellIDFns.RangeMax id)) := rfl
theorem pin_ShapeIndexRegion_coverRange_cond0 (first : UInt64) (last : UInt64) :
    RegionFns.ShapeIndexRegion_coverRange_cond0 first last = (first == last) := rfl
theorem pin_ShapeIndexRegion_coverRange_cond1 (ok : Bool) :
    RegionFns.ShapeIndexRegion_coverRange_cond1 ok = (!ok) := rfl
theorem pin_ShapeIndexRegion_coverRange_val0 (first : UInt64) (level : Int) :
    RegionFns.ShapeIndexRegion_coverRange_val0 first level = (CellIDFns.Parent first ((level).toNat)) := rfl

/-- number of extracted conditions / values per function, in generation order -/
theorem counts_RegionFns_C05 :
    [(RegionFns.Rect_ContainsCell_numConds, RegionFns.Rect_ContainsCell_numVals), (RegionFns.Rect_IntersectsCell_numConds, RegionFns.Rect_IntersectsCell_numVals), (RegionFns.intersectsLatEdge_numConds, RegionFns.intersectsLatEdge_numVals), (RegionFns.intersectsLngEdge_numConds, RegionFns.intersectsLngEdge_numVals), (RegionFns.Rect_ContainsPoint_numConds, RegionFns.Rect_ContainsPoint_numVals), (RegionFns.Rect_ContainsLatLng_numConds, RegionFns.Rect_ContainsLatLng_numVals), (RegionFns.Rect_CellUnionBound_numConds, RegionFns.Rect_CellUnionBound_numVals), (RegionFns.Cap_ContainsCell_numConds, RegionFns.Cap_ContainsCell_numVals), (RegionFns.Cap_IntersectsCell_numConds, RegionFns.Cap_IntersectsCell_numVals), (RegionFns.Cap_intersects_numConds, RegionFns.Cap_intersects_numVals), (RegionFns.Cap_CellUnionBound_numConds, RegionFns.Cap_CellUnionBound_numVals), (RegionFns.Cell_ContainsCell_numConds, RegionFns.Cell_ContainsCell_numVals), (RegionFns.Cell_IntersectsCell_numConds, RegionFns.Cell_IntersectsCell_numVals), (RegionFns.CellUnion_ContainsCell_numConds, RegionFns.CellUnion_ContainsCell_numVals), (RegionFns.CellUnion_IntersectsCell_numConds, RegionFns.CellUnion_IntersectsCell_numVals), (RegionFns.CellUnion_CellUnionBound_numConds, RegionFns.CellUnion_CellUnionBound_numVals), (RegionFns.CellUnion_ExpandAtLevel_numConds, RegionFns.CellUnion_ExpandAtLevel_numVals), (RegionFns.Polyline_ContainsCell_numConds, RegionFns.Polyline_ContainsCell_numVals), (RegionFns.Polyline_IntersectsCell_numConds, RegionFns.Polyline_IntersectsCell_numVals), (RegionFns.Polyline_CellUnionBound_numConds, RegionFns.Polyline_CellUnionBound_numVals), (RegionFns.ShapeIndexRegion_CellUnionBound_numConds, RegionFns.ShapeIndexRegion_CellUnionBound_numVals), (RegionFns.ShapeIndexRegion_coverRange_numConds, RegionFns.ShapeIndexRegion_coverRange_numVals)] =
    [(0, 0), (11, 2), (6, 13), (0, 1), (0, 0), (1, 1), (0, 0), (2, 1), (2, 0), (7, 3), (2, 2), (0, 1), (0, 1), (0, 0), (0, 0), (0, 0), (3, 3), (0, 0), (5, 1), (0, 0), (5, 4), (2, 1)] := rfl

end S2Proofs.Ties.C05_RegionsPins
