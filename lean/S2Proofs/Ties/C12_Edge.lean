/-
  S2Proofs.Ties.C12Edge — regenerated-instance obligations for the edge / cell targets of s2/cell.go:
  `Cell.MaxDistance`, `Cell.DistanceToEdge`, `Cell.MaxDistanceToEdge`, `Cell.DistanceToCell`, `Cell.MaxDistanceToCell`
  (+ the helpers `oppositeFace`, `minChordAngle`, `maxChordAngle`).

  `S2.Generated.CellDistFns.*` is rewritten from the Go source on every run by translator_c19 (`genCell`, skeleton
  extraction: every `if` / `for` condition and every arithmetic value is a definition `F_cond<k>` / `F_val<k>`, what
  remains is the string `F_shape`).  The hand model is `S2.CellEdgeM` (and `S2.CellM.maxDistance`).

  What is tied BY CONTENT (the model is rewritten through the regenerated definitions):
    * every `if` condition: `minDist == 0`, `ChainCrossingSign(..) != DoNotCross` (through the Go ordinals of the
      `Crossing` enumeration regenerated in `CrossFns`), `maxDist <= s1.RightChordAngle` (twice), the face / uv tests
      of `DistanceToCell` and `MaxDistanceToCell` (with the regenerated `oppositeFace`), `y < min` / `y > max`;
    * every `for` condition `i < 4` / `j < 4`: the index lists the model iterates over ARE the lists of indices for
      which the regenerated loop condition holds (`loopIndices`, counting up from the `i := 0` of the shape);
    * the two values `s1.StraightChordAngle - …`;
    * the constants `s1.InfChordAngle()`, `s1.NegativeChordAngle`, `s1.StraightChordAngle`, `s1.RightChordAngle`
      against the regenerated constants of `EdgeNumFns` / `DistTargetFns`.
  What is tied BY TEXT ONLY (the translator keeps calls and index expressions as text; `F_shape` for the statements,
  `F_exprs` for the source text of the extracted conditions / values, i.e. the arguments of the calls that are atoms):
  which functions are called with which arguments inside the loops (`UpdateMinDistance(c.Vertex(i), a, b, minDist)`, `vb[(j+1)&3]`, …), the
  initialisations `i := 0`, the post statements `i++`, `return 0`, the transposed rectangle `antipodalUV`.
  All proofs are `rfl` / `decide` / `simp` on closed terms.
-/
import S2.CellEdgeM
import S2.Generated.CellDistFns
import S2.Generated.CrossFns
import S2.Generated.EdgeNumFns
import S2.Generated.DistTargetFns
namespace S2Proofs.Ties.C12Edge
open S2 S2.CellM S2.CellEdgeM S2.Generated

/-! ### loops -/

/-- the values of `i` for which the body of `for i := i0; cond i; i++ { … }` runs (no `break`; `fuel` bounds the trip count) -/
def loopIndices (cond : Int → Bool) : Nat → Int → List Int
  | 0, _ => []
  | fuel + 1, i => if cond i then i :: loopIndices cond fuel (i + 1) else []

/-- a loop whose condition is the regenerated `i < 4` runs for 0, 1, 2, 3 — with any fuel ≥ 4 -/
theorem loop_DistanceToEdge_cond1 (n : Nat) : loopIndices CellDistFns.DistanceToEdge_cond1 (n + 4) 0 = [0, 1, 2, 3] := by
  cases n <;> simp [loopIndices, CellDistFns.DistanceToEdge_cond1]
theorem loop_DistanceToEdge_cond3 (n : Nat) : loopIndices CellDistFns.DistanceToEdge_cond3 (n + 4) 0 = [0, 1, 2, 3] := by
  cases n <;> simp [loopIndices, CellDistFns.DistanceToEdge_cond3]
theorem loop_DistanceToCell_cond1 (n : Nat) : loopIndices CellDistFns.DistanceToCell_cond1 (n + 4) 0 = [0, 1, 2, 3] := by
  cases n <;> simp [loopIndices, CellDistFns.DistanceToCell_cond1]
theorem loop_DistanceToCell_cond2 (n : Nat) : loopIndices CellDistFns.DistanceToCell_cond2 (n + 4) 0 = [0, 1, 2, 3] := by
  cases n <;> simp [loopIndices, CellDistFns.DistanceToCell_cond2]
theorem loop_DistanceToCell_cond3 (n : Nat) : loopIndices CellDistFns.DistanceToCell_cond3 (n + 4) 0 = [0, 1, 2, 3] := by
  cases n <;> simp [loopIndices, CellDistFns.DistanceToCell_cond3]
theorem loop_MaxDistanceToCell_cond1 (n : Nat) : loopIndices CellDistFns.MaxDistanceToCell_cond1 (n + 4) 0 = [0, 1, 2, 3] := by
  cases n <;> simp [loopIndices, CellDistFns.MaxDistanceToCell_cond1]
theorem loop_MaxDistanceToCell_cond2 (n : Nat) : loopIndices CellDistFns.MaxDistanceToCell_cond2 (n + 4) 0 = [0, 1, 2, 3] := by
  cases n <;> simp [loopIndices, CellDistFns.MaxDistanceToCell_cond2]
theorem loop_MaxDistanceToCell_cond3 (n : Nat) : loopIndices CellDistFns.MaxDistanceToCell_cond3 (n + 4) 0 = [0, 1, 2, 3] := by
  cases n <;> simp [loopIndices, CellDistFns.MaxDistanceToCell_cond3]

/-- `c.Vertex(i)` for the indices of a loop -/
def vertexAt (c : Cell) (i : Int) : V3 := vertex c i.toNat

/-- the vertex list of the model = `c.Vertex(i)` over the indices of the first loop of `DistanceToEdge` … -/
theorem tie_vertices_crossLoop (c : Cell) (n : Nat) :
    vertices c = (loopIndices CellDistFns.DistanceToEdge_cond1 (n + 4) 0).map (vertexAt c) := by
  rw [loop_DistanceToEdge_cond1]; rfl
/-- … and of the second loop -/
theorem tie_vertices_updateLoop (c : Cell) (n : Nat) :
    vertices c = (loopIndices CellDistFns.DistanceToEdge_cond3 (n + 4) 0).map (vertexAt c) := by
  rw [loop_DistanceToEdge_cond3]; rfl
/-- the arrays `va` / `vb` of `DistanceToCell` / `MaxDistanceToCell` (`va[i] = c.Vertex(i)` in the first loop) -/
theorem tie_vertices_fillLoop (c : Cell) (n : Nat) :
    vertices c = (loopIndices CellDistFns.DistanceToCell_cond1 (n + 4) 0).map (vertexAt c) ∧
    vertices c = (loopIndices CellDistFns.MaxDistanceToCell_cond1 (n + 4) 0).map (vertexAt c) := by
  rw [loop_DistanceToCell_cond1, loop_MaxDistanceToCell_cond1]; exact ⟨rfl, rfl⟩

/-! ### the `Crossing` enumeration -/

/-- the Go ordinal of a model crossing sign (model: +1 Cross, 0 MaybeCross, −1 DoNotCross; Go: `Cross = iota`, `MaybeCross`,
    `DoNotCross`), through the regenerated constants of `CrossFns` -/
def goCrossing (s : Int) : Int :=
  if s == CrossFns.Crossing_DoNotCross then CrossFns.Crossing_DoNotCross_go
  else if s == CrossFns.Crossing_MaybeCross then CrossFns.Crossing_MaybeCross_go
  else CrossFns.Crossing_Cross_go

/-- `crosser.ChainCrossingSign(c.Vertex(i)) != DoNotCross`: the regenerated condition (the constant `DoNotCross` folded to
    its ordinal by go/types) on the Go ordinal of the model's sign is the model's test `sign != -1` -/
theorem tie_DistanceToEdge_cond2 (s : Int) : CellDistFns.DistanceToEdge_cond2 (goCrossing s) = (s != -1) := by
  unfold CellDistFns.DistanceToEdge_cond2 goCrossing CrossFns.Crossing_DoNotCross CrossFns.Crossing_DoNotCross_go
    CrossFns.Crossing_MaybeCross CrossFns.Crossing_MaybeCross_go CrossFns.Crossing_Cross_go
  by_cases h1 : s = -1
  · subst h1; decide
  · by_cases h2 : s = 0
    · subst h2; decide
    · simp [h1, h2]

/-- the constant the condition compares with is the regenerated ordinal of `DoNotCross` -/
theorem tie_DistanceToEdge_cond2_const (x : Int) :
    CellDistFns.DistanceToEdge_cond2 x = (x != CrossFns.Crossing_DoNotCross_go) := rfl

/-- one trip of the first loop: `if crosser.ChainCrossingSign(c.Vertex(i)) != DoNotCross { return 0 }` — the crosser state
    is threaded, the later calls are not made after the first hit -/
theorem tie_anyCrossing_cons (e : Crosser.St) (v : V3) (rest : List V3) :
    anyCrossing e (v :: rest) =
      let r := Crosser.chainCrossingSign e v
      if CellDistFns.DistanceToEdge_cond2 (goCrossing r.2) then true else anyCrossing r.1 rest := by
  simp only [anyCrossing, tie_DistanceToEdge_cond2]

theorem tie_anyCrossing_nil (e : Crosser.St) : anyCrossing e [] = false := rfl

/-! ### helpers: `minChordAngle`, `maxChordAngle`, `oppositeFace` -/

/-- `min := x; for _, y := range others { if y < min { min = y } }; return min` -/
theorem tie_minChord (x : F64) (others : List F64) :
    minChord x others = others.foldl (fun m y => if CellDistFns.minChordAngle_cond0 y m then y else m) x := rfl

/-- `max := x; for _, y := range others { if y > max { max = y } }; return max` -/
theorem tie_maxChord (x : F64) (others : List F64) :
    maxChord x others = others.foldl (fun m y => if CellDistFns.maxChordAngle_cond0 y m then y else m) x := rfl

/-- `oppositeFace(int(target.face))` = `(face + 3) % 6` (Go's truncating `%` on a non-negative int) is the model's `(face + 3) % 6` on `Nat` -/
theorem tie_oppositeFace (f : Nat) : CellDistFns.oppositeFace_val0 (f : Int) = (((f + 3) % 6 : Nat) : Int) := by
  unfold CellDistFns.oppositeFace_val0
  have h : ((f : Int) + 3) = ((f + 3 : Nat) : Int) := by simp
  rw [h, Int.tmod_eq_emod_of_nonneg (by omega)]
  simp

/-! ### the constants -/

/-- `s1.InfChordAngle()`, `s1.NegativeChordAngle`, `s1.StraightChordAngle`, `s1.RightChordAngle` -/
theorem tie_constants :
    F64.inf false = EdgeNumFns.InfChordAngle ∧
    negativeChord.bits = DistTargetFns.ChordAngle_NegativeChordAngle_bits ∧
    F64.four.bits = DistTargetFns.ChordAngle_StraightChordAngle_bits ∧
    F64.two.bits = DistTargetFns.ChordAngle_RightChordAngle_bits := ⟨rfl, rfl, rfl, rfl⟩

/-! ### `Cell.MaxDistance` -/

theorem tie_maxDistance (c : Cell) (target : V3) :
    maxDistance c target =
      let targetUVW := faceXYZtoUVW c.face target
      let maxDist := maxChord (vertexChordDist2 c targetUVW false false)
        [vertexChordDist2 c targetUVW true false, vertexChordDist2 c targetUVW false true, vertexChordDist2 c targetUVW true true]
      if CellDistFns.MaxDistance_cond0 maxDist then maxDist
      else CellDistFns.MaxDistance_val0 (distance c (target.mul negOne)) := rfl

/-! ### `Cell.DistanceToEdge` -/

theorem tie_distanceToEdge (c : Cell) (a b : V3) (n m : Nat) :
    distanceToEdge c a b =
      let minDist := minChord (distance c a) [distance c b]
      if CellDistFns.DistanceToEdge_cond0 minDist then minDist
      else if anyCrossing (Crosser.initChain a b (vertex c 3))
          ((loopIndices CellDistFns.DistanceToEdge_cond1 (n + 4) 0).map (vertexAt c)) then fzero
      else ((loopIndices CellDistFns.DistanceToEdge_cond3 (m + 4) 0).map (vertexAt c)).foldl
          (fun minDist v => (EdgeNum.updateMinDistancePub v a b minDist).1) minDist := by
  rw [← tie_vertices_crossLoop, ← tie_vertices_updateLoop]; rfl

/-! ### `Cell.MaxDistanceToEdge` -/

theorem tie_maxDistanceToEdge (c : Cell) (a b : V3) :
    maxDistanceToEdge c a b =
      let maxDist := maxChord (maxDistance c a) [maxDistance c b]
      if CellDistFns.MaxDistanceToEdge_cond0 maxDist then maxDist
      else CellDistFns.MaxDistanceToEdge_val0 (distanceToEdge c (a.mul negOne) (b.mul negOne)) := rfl

/-! ### `Cell.DistanceToCell`, `Cell.MaxDistanceToCell` -/

/-- the body of the double loop, in the order of the Go text:
    `f(va[i], vb[j], vb[(j+1)&3])` then `f(vb[i], va[j], va[(j+1)&3])` -/
def pairBody (va vb : List V3) (i j : Int) : List (V3 × V3 × V3) :=
  [ (va[i.toNat]!, vb[j.toNat]!, vb[(j.toNat + 1) &&& 3]!), (vb[i.toNat]!, va[j.toNat]!, va[(j.toNat + 1) &&& 3]!) ]

/-- the 32 calls of the model are the body over the index lists of the regenerated loop conditions (outer `i`, inner `j`) -/
theorem tie_pairCalls_min (va vb : List V3) (n m : Nat) :
    pairCalls va vb =
      (loopIndices CellDistFns.DistanceToCell_cond2 (n + 4) 0).flatMap fun i =>
        (loopIndices CellDistFns.DistanceToCell_cond3 (m + 4) 0).flatMap fun j => pairBody va vb i j := by
  rw [loop_DistanceToCell_cond2, loop_DistanceToCell_cond3]; rfl

theorem tie_pairCalls_max (va vb : List V3) (n m : Nat) :
    pairCalls va vb =
      (loopIndices CellDistFns.MaxDistanceToCell_cond2 (n + 4) 0).flatMap fun i =>
        (loopIndices CellDistFns.MaxDistanceToCell_cond3 (m + 4) 0).flatMap fun j => pairBody va vb i j := by
  rw [loop_MaxDistanceToCell_cond2, loop_MaxDistanceToCell_cond3]; rfl

/-- `c.face` is a `uint8` / `int` in Go and a `Nat` in the model: `==` on the casts is `==` on the naturals -/
theorem intBeq_natCast (a b : Nat) : ((a : Int) == (b : Int)) = (a == b) := by
  by_cases h : a = b
  · subst h; simp
  · have h' : (a : Int) ≠ (b : Int) := by omega
    rw [beq_eq_false_iff_ne.mpr h', beq_eq_false_iff_ne.mpr h]

theorem tie_distanceToCell (c target : Cell) :
    distanceToCell c target =
      if CellDistFns.DistanceToCell_cond0 (c.face : Int) (target.face : Int) (Rect2.intersects c.uv target.uv) then fzero
      else (pairCalls (vertices c) (vertices target)).foldl
        (fun minDist t => (EdgeNum.updateMinDistancePub t.1 t.2.1 t.2.2 minDist).1) EdgeNumFns.InfChordAngle := by
  unfold distanceToCell CellDistFns.DistanceToCell_cond0
  rw [intBeq_natCast]
  rfl

theorem tie_maxDistanceToCell (c target : Cell) :
    maxDistanceToCell c target =
      let antipodalUV : Rect2 := (target.uv.2, target.uv.1)
      if CellDistFns.MaxDistanceToCell_cond0 (c.face : Int) (CellDistFns.oppositeFace_val0 (target.face : Int))
          (Rect2.intersects c.uv antipodalUV) then (⟨DistTargetFns.ChordAngle_StraightChordAngle_bits⟩ : F64)
      else (pairCalls (vertices c) (vertices target)).foldl
        (fun maxDist t => (EdgeNum.updateMaxDistance t.1 t.2.1 t.2.2 maxDist).1) ⟨DistTargetFns.ChordAngle_NegativeChordAngle_bits⟩ := by
  unfold maxDistanceToCell CellDistFns.MaxDistanceToCell_cond0
  rw [tie_oppositeFace, intBeq_natCast]
  rfl

/-! ### statement structure of every translated function -/
theorem tie_MaxDistance_shape : CellDistFns.MaxDistance_shape =
    "targetUVW := faceXYZtoUVW(int(c.face), target); maxDist := maxChordAngle(c.vertexChordDist2(targetUVW, false, false), c.vertexChordDist2(targetUVW, true, false), c.vertexChordDist2(targetUVW, false, true), c.vertexChordDist2(targetUVW, true, true)); if cond0 {return maxDist}; return val0" := rfl
theorem tie_DistanceToEdge_shape : CellDistFns.DistanceToEdge_shape =
    "minDist := minChordAngle(c.Distance(a), c.Distance(b)); if cond0 {return minDist}; crosser := NewChainEdgeCrosser(a, b, c.Vertex(3)); for[i := 0] cond1 [i++] {if cond2 {return 0}}; for[i := 0] cond3 [i++] {minDist, _ = UpdateMinDistance(c.Vertex(i), a, b, minDist)}; return minDist" := rfl
theorem tie_MaxDistanceToEdge_shape : CellDistFns.MaxDistanceToEdge_shape =
    "maxDist := maxChordAngle(c.MaxDistance(a), c.MaxDistance(b)); if cond0 {return maxDist}; return val0" := rfl
theorem tie_DistanceToCell_shape : CellDistFns.DistanceToCell_shape =
    "if cond0 {return 0}; var va, vb [4]Point; for[i := 0] cond1 [i++] {va[i] = c.Vertex(i); vb[i] = target.Vertex(i)}; minDist := s1.InfChordAngle(); for[i := 0] cond2 [i++] {for[j := 0] cond3 [j++] {minDist, _ = UpdateMinDistance(va[i], vb[j], vb[(j+1)&3], minDist); minDist, _ = UpdateMinDistance(vb[i], va[j], va[(j+1)&3], minDist)}}; return minDist" := rfl
theorem tie_MaxDistanceToCell_shape : CellDistFns.MaxDistanceToCell_shape =
    "antipodalUV := r2.Rect{X: target.uv.Y, Y: target.uv.X}; if cond0 {return s1.StraightChordAngle}; var va, vb [4]Point; for[i := 0] cond1 [i++] {va[i] = c.Vertex(i); vb[i] = target.Vertex(i)}; maxDist := s1.NegativeChordAngle; for[i := 0] cond2 [i++] {for[j := 0] cond3 [j++] {maxDist, _ = UpdateMaxDistance(va[i], vb[j], vb[(j+1)&3], maxDist); maxDist, _ = UpdateMaxDistance(vb[i], va[j], va[(j+1)&3], maxDist)}}; return maxDist" := rfl
theorem tie_oppositeFace_shape : CellDistFns.oppositeFace_shape = "return val0" := rfl
theorem tie_minChordAngle_shape : CellDistFns.minChordAngle_shape =
    "min := x; range _, y := others {if cond0 {min = y}}; return min" := rfl
theorem tie_maxChordAngle_shape : CellDistFns.maxChordAngle_shape =
    "max := x; range _, y := others {if cond0 {max = y}}; return max" := rfl

/-! ### source text of the extracted conditions / values: pins the ATOMS (the arguments of the untranslated calls, which the
    `cond<k>` / `val<k>` definitions only see as parameters: `c.DistanceToEdge(Point{a.Mul(-1)}, Point{b.Mul(-1)})`,
    `c.uv.Intersects(antipodalUV)`, `crosser.ChainCrossingSign(c.Vertex(i))`, …) -/
theorem tie_MaxDistance_exprs : CellDistFns.MaxDistance_exprs =
    "cond0: maxDist <= s1.RightChordAngle | val0: s1.StraightChordAngle - c.Distance(Point{target.Mul(-1)})" := rfl
theorem tie_DistanceToEdge_exprs : CellDistFns.DistanceToEdge_exprs =
    "cond0: minDist == 0 | cond1: i < 4 | cond2: crosser.ChainCrossingSign(c.Vertex(i)) != DoNotCross | cond3: i < 4" := rfl
theorem tie_MaxDistanceToEdge_exprs : CellDistFns.MaxDistanceToEdge_exprs =
    "cond0: maxDist <= s1.RightChordAngle | val0: s1.StraightChordAngle - c.DistanceToEdge(Point{a.Mul(-1)}, Point{b.Mul(-1)})" := rfl
theorem tie_DistanceToCell_exprs : CellDistFns.DistanceToCell_exprs =
    "cond0: c.face == target.face && c.uv.Intersects(target.uv) | cond1: i < 4 | cond2: i < 4 | cond3: j < 4" := rfl
theorem tie_MaxDistanceToCell_exprs : CellDistFns.MaxDistanceToCell_exprs =
    "cond0: int(c.face) == oppositeFace(int(target.face)) && c.uv.Intersects(antipodalUV) | cond1: i < 4 | cond2: i < 4 | cond3: j < 4" := rfl
theorem tie_oppositeFace_exprs : CellDistFns.oppositeFace_exprs = "val0: (face + 3) % 6" := rfl
theorem tie_minChordAngle_exprs : CellDistFns.minChordAngle_exprs = "cond0: y < min" := rfl
theorem tie_maxChordAngle_exprs : CellDistFns.maxChordAngle_exprs = "cond0: y > max" := rfl

/-- the number of extracted conditions / values of each function (a new `if` or a new arithmetic expression changes them) -/
theorem tie_counts :
    [CellDistFns.MaxDistance_numConds, CellDistFns.MaxDistance_numVals,
     CellDistFns.DistanceToEdge_numConds, CellDistFns.DistanceToEdge_numVals,
     CellDistFns.MaxDistanceToEdge_numConds, CellDistFns.MaxDistanceToEdge_numVals,
     CellDistFns.DistanceToCell_numConds, CellDistFns.DistanceToCell_numVals,
     CellDistFns.MaxDistanceToCell_numConds, CellDistFns.MaxDistanceToCell_numVals,
     CellDistFns.oppositeFace_numConds, CellDistFns.oppositeFace_numVals,
     CellDistFns.minChordAngle_numConds, CellDistFns.minChordAngle_numVals,
     CellDistFns.maxChordAngle_numConds, CellDistFns.maxChordAngle_numVals] =
    [1, 1, 4, 0, 1, 1, 4, 0, 4, 0, 0, 1, 1, 0, 1, 0] := rfl

end S2Proofs.Ties.C12Edge
