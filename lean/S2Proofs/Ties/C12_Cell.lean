/-
  S2Proofs.Ties.C12_Cell — regenerated-instance obligations for the parts of s2/cell.go (and the float helpers of
  s2/cellid.go) that `Ties/C12.lean` (translator_c19: the distance functions) does not cover.

  `S2.Generated.CellFns.*` is rewritten from the Go source on every run by translator_c09.  Value-mode functions:
  hand model function = regenerated body (callees = hand model functions).  Skeleton functions (field-by-field struct
  construction, the loop of `Children`): the hand model's step is stated with the regenerated conditions / values and
  the statement structure is pinned by the `shape_*` theorems.
-/
import S2.CellM
import S2.Generated.CellFns
namespace S2Proofs.Ties.C12_Cell
open S2 S2.STUV S2.CellM S2.Generated

theorem tie_EdgeRaw (c : Cell) (k : Nat) : edgeRaw c k = CellFns.Cell_EdgeRaw c k := rfl
theorem tie_Edge (c : Cell) (k : Nat) : edge c k = CellFns.Cell_Edge c k := rfl
theorem tie_Vertex (c : Cell) (k : Nat) : vertex c k = CellFns.Cell_Vertex c k := rfl
theorem tie_Center (c : Cell) : center c = CellFns.Cell_Center c := rfl
theorem tie_IntersectsCell (c oc : Cell) : intersectsCell c oc = CellFns.Cell_IntersectsCell c oc := rfl
theorem tie_ContainsCell (c oc : Cell) : containsCell c oc = CellFns.Cell_ContainsCell c oc := rfl
theorem tie_CellFromPoint (p : V3) : cellFromPoint p = CellFns.CellFromPoint p := rfl
theorem tie_Distance (c : Cell) (t : V3) : distance c t = CellFns.Cell_Distance c t := rfl
theorem tie_BoundaryDistance (c : Cell) (t : V3) : boundaryDistance c t = CellFns.Cell_BoundaryDistance c t := rfl
theorem tie_MaxDistance (c : Cell) (t : V3) : maxDistance c t = CellFns.Cell_MaxDistance c t := rfl
theorem tie_centerUV (ci : UInt64) : centerUV ci = CellFns.CellID_centerUV ci := by
  simp only [centerUV, CellFns.CellID_centerUV]
theorem tie_rawPoint (ci : UInt64) : rawPoint ci = CellFns.CellID_rawPoint ci := by
  simp only [rawPoint, CellFns.CellID_rawPoint]; rfl

/-! ### skeletons -/
theorem shape_CellFromCellID : CellFns.CellFromCellID_shape =
    "c := Cell{}; c.id = id; f, i, j, o := c.id.faceIJOrientation(); c.face = int8(f); c.level = int8(c.id.Level()); c.orientation = int8(o); c.uv = ijLevelToBoundUV(i, j, int(c.level)); return c" := rfl

/-- one iteration of the loop of `Children`: `level: c.level + 1`, the tests `i == 1`, `j == 1` -/
theorem tie_childCell (c : Cell) (uvMid : F64 × F64) (pos : Nat) (cid : CellID) :
    childCell c uvMid pos cid =
      (let ij := (Hilbert.posToIJ[c.orientation]!)[pos]!
       let i := ij >>> 1
       let j := ij &&& 1
       { face := c.face, level := (CellFns.Cell_Children_val0 c.level).toNat,
         orientation := c.orientation ^^^ Hilbert.posToOrientation[pos]!, id := cid,
         uv := (if CellFns.Cell_Children_cond2 i then (uvMid.1, c.uv.1.2) else (c.uv.1.1, uvMid.1),
                if CellFns.Cell_Children_cond3 j then (uvMid.2, c.uv.2.2) else (c.uv.2.1, uvMid.2)) }) := by
  have hl : ((c.level : Int) + 1).toNat = c.level + 1 := by omega
  have hb : ∀ n : Nat, (((n : Int) == 1) = (n == 1)) := by
    intro n
    by_cases h : n = 1
    · subst h; rfl
    · have h' : ¬ ((n : Int) = 1) := by omega
      rw [beq_eq_false_iff_ne.mpr h, beq_eq_false_iff_ne.mpr h']
  simp only [childCell, CellFns.Cell_Children_val0, CellFns.Cell_Children_cond2, CellFns.Cell_Children_cond3, hl, hb]
theorem tie_children_guard (c : Cell) :
    children c = if CellFns.Cell_Children_cond0 (CellID.isLeaf c.id) then none else
      (let uvMid := centerUV c.id
       let c0 := CellID.childBegin c.id
       let c1 := CellID.next c0
       let c2 := CellID.next c1
       let c3 := CellID.next c2
       some [childCell c uvMid 0 c0, childCell c uvMid 1 c1, childCell c uvMid 2 c2, childCell c uvMid 3 c3]) := rfl
/-- the loop runs for `pos = 0, 1, 2, 3` -/
theorem tie_children_count : (List.range 5).map (fun (p : Nat) => CellFns.Cell_Children_cond1 p) = [true, true, true, true, false] := by decide
theorem shape_Children : CellFns.Cell_Children_shape =
    "var children [4]Cell; if cond0 {return children, false}; uvMid := c.id.centerUV(); cid := c.id.ChildBegin(); for[pos := 0] cond1 [pos++] {children[pos] = Cell{face: c.face, level: val0, orientation: c.orientation ^ int8(posToOrientation[pos]), id: cid}; ij := posToIJ[c.orientation][pos]; i := ij >> 1; j := ij & 1; if cond2 {children[pos].uv.X.Hi = c.uv.X.Hi; children[pos].uv.X.Lo = uvMid.X} else {children[pos].uv.X.Lo = c.uv.X.Lo; children[pos].uv.X.Hi = uvMid.X}; if cond3 {children[pos].uv.Y.Hi = c.uv.Y.Hi; children[pos].uv.Y.Lo = uvMid.Y} else {children[pos].uv.Y.Lo = c.uv.Y.Lo; children[pos].uv.Y.Hi = uvMid.Y}; cid = cid.Next()}; return children, true" := rfl

/-- `ContainsPoint`: `if …; !ok { return false }`, then the expanded bound test -/
theorem tie_containsPoint (c : Cell) (p : V3) :
    containsPoint c p =
      match faceXYZToUV c.face p with
      | none => !(CellFns.Cell_ContainsPoint_cond0 false)
      | some (u, v) => if CellFns.Cell_ContainsPoint_cond0 true then false
                       else Rect2.containsPoint (Rect2.expandedByMargin c.uv containsMargin) u v := by
  unfold containsPoint CellFns.Cell_ContainsPoint_cond0
  split <;> simp_all
theorem shape_ContainsPoint : CellFns.Cell_ContainsPoint_shape =
    "var uv r2.Point; var ok bool; if[uv.X, uv.Y, ok = faceXYZToUV(int(c.face), p)] cond0 {return false}; return c.uv.ExpandedByMargin(2 * dblEpsilon).ContainsPoint(uv)" := rfl

/-- `ijLevelToBoundUV`: the upper bounds are `xLo + cellSize`, `yLo + cellSize` -/
theorem tie_ijLevelToBoundUV (i j level : Nat) :
    ijLevelToBoundUV i j level =
      (let cellSize := Hilbert.sizeIJ level
       let xLo := i - i % cellSize
       let yLo := j - j % cellSize
       ((stToUV (ijToSTMin (xLo : Nat)), stToUV (ijToSTMin (CellFns.ijLevelToBoundUV_val0 xLo cellSize))),
        (stToUV (ijToSTMin (yLo : Nat)), stToUV (ijToSTMin (CellFns.ijLevelToBoundUV_val1 yLo cellSize))))) := rfl
theorem shape_ijLevelToBoundUV : CellFns.ijLevelToBoundUV_shape =
    "cellSize := sizeIJ(level); xLo := i & -cellSize; yLo := j & -cellSize; return r2.Rect{X: r1.Interval{Lo: stToUV(ijToSTMin(xLo)), Hi: stToUV(ijToSTMin(val0))}, Y: r1.Interval{Lo: stToUV(ijToSTMin(yLo)), Hi: stToUV(ijToSTMin(val1))}}" := rfl
theorem shape_VertexRaw : CellFns.Cell_VertexRaw_shape =
    "return Point{faceUVToXYZ(int(c.face), c.uv.Vertices()[k].X, c.uv.Vertices()[k].Y)}" := rfl

/-! ### the source text of the arguments of the regenerated conditions / values -/
theorem atoms_Cell_Children : CellFns.Cell_Children_atoms =
    "cond0(c.id.IsLeaf()); cond1(pos); val0(c.level); cond2(i); cond3(j)" := rfl
theorem atoms_Cell_ContainsPoint : CellFns.Cell_ContainsPoint_atoms =
    "cond0(ok)" := rfl
theorem atoms_ijLevelToBoundUV : CellFns.ijLevelToBoundUV_atoms =
    "val0(xLo, cellSize); val1(yLo, cellSize)" := rfl

end S2Proofs.Ties.C12_Cell
