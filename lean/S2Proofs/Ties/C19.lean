/-
  S2Proofs.Ties.C19 — regenerated-instance obligations for r1/interval.go, s1/interval.go, r2/rect.go and the
  lat-lng part of s2/rect.go (+ LatLng.IsValid, Angle.Radians).

  `S2.Generated.IntervalFns.*` is rewritten from the Go source on every run by translator_c19, expression by
  expression, generically over the number carrier of the hand model (class `S2.IvlOps` + the core order classes).
  Every theorem below says `hand model function = regenerated function` FOR EVERY CARRIER (in particular for the
  bit-exact soft-float instance `S2.IvlF64` used by the oracle, and for the abstract linear orders of the C19
  proofs).  Almost all of them are closed by `rfl`: the hand model follows the Go text branch by branch, so an edit
  of a comparison operator, of the order of two tests, of an operand or of a constant in the Go source changes
  the regenerated term and the `rfl` fails.  Three are not syntactic:
   * `IntervalFromEndpoints` builds the interval and then patches a field (`i.Lo = math.Pi`), the hand model
     computes the two fields separately — a four-case split;
   * s1 `Expanded` and everything above it go through that equation first.
  The last section ties the float64 constants of the `S2.IvlF64` instance to the values go/constant computes
  (`math.Pi` … and the package variable `s1.dblEpsilon`).
-/
import S2.Interval
import S2.Generated.IntervalFns
namespace S2Proofs.Ties.C19
open S2 S2.IvlOps S2.Generated
set_option linter.unusedSectionVars false

section
variable {α : Type} [LE α] [LT α] [DecidableLE α] [DecidableLT α] [Max α] [Min α] [IvlOps α]

/-! ### r1/interval.go -/
theorem tie_R1_EmptyInterval : (R1.empty : R1 α) = IntervalFns.R1_EmptyInterval := rfl
theorem tie_R1_IntervalFromPoint (p : α) : R1.fromPoint p = IntervalFns.R1_IntervalFromPoint p := rfl
theorem tie_R1_IsEmpty (i : R1 α) : R1.isEmpty i = IntervalFns.R1_IsEmpty i := rfl
theorem tie_R1_Equal (i : R1 α) (o : R1 α) : R1.equal i o = IntervalFns.R1_Equal i o := rfl
theorem tie_R1_Center (i : R1 α) : R1.center i = IntervalFns.R1_Center i := rfl
theorem tie_R1_Length (i : R1 α) : R1.length i = IntervalFns.R1_Length i := rfl
theorem tie_R1_Contains (i : R1 α) (p : α) : R1.contains i p = IntervalFns.R1_Contains i p := rfl
theorem tie_R1_ContainsInterval (i : R1 α) (o : R1 α) : R1.containsInterval i o = IntervalFns.R1_ContainsInterval i o := rfl
theorem tie_R1_InteriorContains (i : R1 α) (p : α) : R1.interiorContains i p = IntervalFns.R1_InteriorContains i p := rfl
theorem tie_R1_InteriorContainsInterval (i : R1 α) (o : R1 α) : R1.interiorContainsInterval i o = IntervalFns.R1_InteriorContainsInterval i o := rfl
theorem tie_R1_Intersects (i : R1 α) (o : R1 α) : R1.intersects i o = IntervalFns.R1_Intersects i o := rfl
theorem tie_R1_InteriorIntersects (i : R1 α) (o : R1 α) : R1.interiorIntersects i o = IntervalFns.R1_InteriorIntersects i o := rfl
theorem tie_R1_Intersection (i : R1 α) (o : R1 α) : R1.intersection i o = IntervalFns.R1_Intersection i o := rfl
theorem tie_R1_AddPoint (i : R1 α) (p : α) : R1.addPoint i p = IntervalFns.R1_AddPoint i p := rfl
theorem tie_R1_ClampPoint (i : R1 α) (p : α) : R1.clampPoint i p = IntervalFns.R1_ClampPoint i p := rfl
theorem tie_R1_Expanded (i : R1 α) (m : α) : R1.expanded i m = IntervalFns.R1_Expanded i m := rfl
theorem tie_R1_Union (i : R1 α) (o : R1 α) : R1.union i o = IntervalFns.R1_Union i o := rfl

/-! ### s1/interval.go -/
theorem tie_S1_IntervalFromEndpoints (lo : α) (hi : α) : S1.fromEndpoints lo hi = IntervalFns.S1_IntervalFromEndpoints lo hi := by
  unfold S1.fromEndpoints IntervalFns.S1_IntervalFromEndpoints
  cases feq lo negPi && !feq hi pi <;> cases feq hi negPi && !feq lo pi <;> rfl
theorem tie_S1_positiveDistance (a : α) (b : α) : S1.positiveDistance a b = IntervalFns.S1_positiveDistance a b := rfl
theorem tie_S1_IntervalFromPointPair (a : α) (b : α) : S1.fromPointPair a b = IntervalFns.S1_IntervalFromPointPair a b := rfl
theorem tie_S1_EmptyInterval : (S1.empty : S1 α) = IntervalFns.S1_EmptyInterval := rfl
theorem tie_S1_FullInterval : (S1.full : S1 α) = IntervalFns.S1_FullInterval := rfl
theorem tie_S1_IsValid (i : S1 α) : S1.isValid i = IntervalFns.S1_IsValid i := rfl
theorem tie_S1_IsFull (i : S1 α) : S1.isFull i = IntervalFns.S1_IsFull i := rfl
theorem tie_S1_IsEmpty (i : S1 α) : S1.isEmpty i = IntervalFns.S1_IsEmpty i := rfl
theorem tie_S1_IsInverted (i : S1 α) : S1.isInverted i = IntervalFns.S1_IsInverted i := rfl
theorem tie_S1_Invert (i : S1 α) : S1.invert i = IntervalFns.S1_Invert i := rfl
theorem tie_S1_Center (i : S1 α) : S1.center i = IntervalFns.S1_Center i := rfl
theorem tie_S1_Length (i : S1 α) : S1.length i = IntervalFns.S1_Length i := rfl
theorem tie_S1_fastContains (i : S1 α) (p : α) : S1.fastContains i p = IntervalFns.S1_fastContains i p := rfl
theorem tie_S1_Contains (i : S1 α) (p : α) : S1.contains i p = IntervalFns.S1_Contains i p := rfl
theorem tie_S1_ContainsInterval (i : S1 α) (o : S1 α) : S1.containsInterval i o = IntervalFns.S1_ContainsInterval i o := rfl
theorem tie_S1_InteriorContains (i : S1 α) (p : α) : S1.interiorContains i p = IntervalFns.S1_InteriorContains i p := rfl
theorem tie_S1_InteriorContainsInterval (i : S1 α) (o : S1 α) : S1.interiorContainsInterval i o = IntervalFns.S1_InteriorContainsInterval i o := rfl
theorem tie_S1_Intersects (i : S1 α) (o : S1 α) : S1.intersects i o = IntervalFns.S1_Intersects i o := rfl
theorem tie_S1_InteriorIntersects (i : S1 α) (o : S1 α) : S1.interiorIntersects i o = IntervalFns.S1_InteriorIntersects i o := rfl
theorem tie_S1_Union (i : S1 α) (o : S1 α) : S1.union i o = IntervalFns.S1_Union i o := rfl
theorem tie_S1_Intersection (i : S1 α) (o : S1 α) : S1.intersection i o = IntervalFns.S1_Intersection i o := rfl
theorem tie_S1_AddPoint (i : S1 α) (p : α) : S1.addPoint i p = IntervalFns.S1_AddPoint i p := rfl
theorem tie_S1_Expanded (i : S1 α) (m : α) : S1.expanded i m = IntervalFns.S1_Expanded i m := by
  unfold S1.expanded S1.expandedTail S1.expandedRaw IntervalFns.S1_Expanded
  simp only [tie_S1_IntervalFromEndpoints]
  rfl
theorem tie_S1_Complement (i : S1 α) : S1.complement i = IntervalFns.S1_Complement i := rfl
theorem tie_S1_ComplementCenter (i : S1 α) : S1.complementCenter i = IntervalFns.S1_ComplementCenter i := rfl
theorem tie_S1_Project (i : S1 α) (p : α) : S1.project i p = IntervalFns.S1_Project i p := rfl

/-- s1/angle.go `func (a Angle) Radians() float64 { return float64(a) }`: the model identifies Angle and float64 -/
theorem tie_Angle_Radians (a : α) : a = IntervalFns.Angle_Radians a := rfl

/-! ### r2/rect.go -/
theorem tie_R2_RectFromCenterSize (c : R2Point α) (s : R2Point α) : R2Rect.fromCenterSize c s = IntervalFns.R2_RectFromCenterSize c s := rfl
theorem tie_R2_EmptyRect : (R2Rect.empty : R2Rect α) = IntervalFns.R2_EmptyRect := rfl
theorem tie_R2Rect_IsValid (r : R2Rect α) : R2Rect.isValid r = IntervalFns.R2Rect_IsValid r := rfl
theorem tie_R2Rect_IsEmpty (r : R2Rect α) : R2Rect.isEmpty r = IntervalFns.R2Rect_IsEmpty r := rfl
theorem tie_R2Rect_Center (r : R2Rect α) : R2Rect.center r = IntervalFns.R2Rect_Center r := rfl
theorem tie_R2Rect_Size (r : R2Rect α) : R2Rect.size r = IntervalFns.R2Rect_Size r := rfl
theorem tie_R2Rect_ContainsPoint (r : R2Rect α) (pt : R2Point α) : R2Rect.containsPoint r pt = IntervalFns.R2Rect_ContainsPoint r pt := rfl
theorem tie_R2Rect_InteriorContainsPoint (r : R2Rect α) (pt : R2Point α) : R2Rect.interiorContainsPoint r pt = IntervalFns.R2Rect_InteriorContainsPoint r pt := rfl
theorem tie_R2Rect_Contains (r : R2Rect α) (o : R2Rect α) : R2Rect.contains r o = IntervalFns.R2Rect_Contains r o := rfl
theorem tie_R2Rect_InteriorContains (r : R2Rect α) (o : R2Rect α) : R2Rect.interiorContains r o = IntervalFns.R2Rect_InteriorContains r o := rfl
theorem tie_R2Rect_Intersects (r : R2Rect α) (o : R2Rect α) : R2Rect.intersects r o = IntervalFns.R2Rect_Intersects r o := rfl
theorem tie_R2Rect_InteriorIntersects (r : R2Rect α) (o : R2Rect α) : R2Rect.interiorIntersects r o = IntervalFns.R2Rect_InteriorIntersects r o := rfl
theorem tie_R2Rect_AddPoint (r : R2Rect α) (pt : R2Point α) : R2Rect.addPoint r pt = IntervalFns.R2Rect_AddPoint r pt := rfl
theorem tie_R2Rect_AddRect (r : R2Rect α) (o : R2Rect α) : R2Rect.addRect r o = IntervalFns.R2Rect_AddRect r o := rfl
theorem tie_R2Rect_ClampPoint (r : R2Rect α) (pt : R2Point α) : R2Rect.clampPoint r pt = IntervalFns.R2Rect_ClampPoint r pt := rfl
theorem tie_R2Rect_Expanded (r : R2Rect α) (pt : R2Point α) : R2Rect.expanded r pt = IntervalFns.R2Rect_Expanded r pt := rfl
theorem tie_R2Rect_Union (r : R2Rect α) (o : R2Rect α) : R2Rect.union r o = IntervalFns.R2Rect_Union r o := rfl
theorem tie_R2Rect_Intersection (r : R2Rect α) (o : R2Rect α) : R2Rect.intersection r o = IntervalFns.R2Rect_Intersection r o := rfl

/-! ### s2/latlng.go, s2/rect.go -/
theorem tie_LatLng_IsValid (ll : LatLng α) : LatLng.isValid ll = IntervalFns.LatLng_IsValid ll := rfl
theorem tie_validRectLatRange : (LLRect.validLat : R1 α) = IntervalFns.S2_validRectLatRange := rfl
theorem tie_validRectLngRange : (S1.full : S1 α) = IntervalFns.S2_validRectLngRange := rfl
theorem tie_S2_EmptyRect : (LLRect.empty : LLRect α) = IntervalFns.S2_EmptyRect := rfl
theorem tie_S2_FullRect : (LLRect.full : LLRect α) = IntervalFns.S2_FullRect := rfl
theorem tie_S2_RectFromLatLng (ll : LatLng α) : LLRect.fromLatLng ll = IntervalFns.S2_RectFromLatLng ll := rfl
theorem tie_LLRect_IsValid (r : LLRect α) : LLRect.isValid r = IntervalFns.LLRect_IsValid r := rfl
theorem tie_LLRect_IsEmpty (r : LLRect α) : LLRect.isEmpty r = IntervalFns.LLRect_IsEmpty r := rfl
theorem tie_LLRect_IsFull (r : LLRect α) : LLRect.isFull r = IntervalFns.LLRect_IsFull r := rfl
theorem tie_LLRect_IsPoint (r : LLRect α) : LLRect.isPoint r = IntervalFns.LLRect_IsPoint r := rfl
theorem tie_LLRect_Center (r : LLRect α) : LLRect.center r = IntervalFns.LLRect_Center r := rfl
theorem tie_LLRect_Size (r : LLRect α) : LLRect.size r = IntervalFns.LLRect_Size r := rfl
theorem tie_LLRect_AddPoint (r : LLRect α) (ll : LatLng α) : LLRect.addPoint r ll = IntervalFns.LLRect_AddPoint r ll := rfl
theorem tie_LLRect_expanded (r : LLRect α) (ll : LatLng α) : LLRect.expanded r ll = IntervalFns.LLRect_expanded r ll := by
  unfold LLRect.expanded IntervalFns.LLRect_expanded
  simp only [tie_S1_Expanded]
  rfl
theorem tie_S2_RectFromCenterSize (c : LatLng α) (s : LatLng α) : LLRect.fromCenterSize c s = IntervalFns.S2_RectFromCenterSize c s := by
  unfold LLRect.fromCenterSize IntervalFns.S2_RectFromCenterSize
  simp only [tie_LLRect_expanded]
  rfl
theorem tie_LLRect_PolarClosure (r : LLRect α) : LLRect.polarClosure r = IntervalFns.LLRect_PolarClosure r := rfl
theorem tie_LLRect_Union (r : LLRect α) (o : LLRect α) : LLRect.union r o = IntervalFns.LLRect_Union r o := rfl
theorem tie_LLRect_Intersection (r : LLRect α) (o : LLRect α) : LLRect.intersection r o = IntervalFns.LLRect_Intersection r o := rfl
theorem tie_LLRect_Intersects (r : LLRect α) (o : LLRect α) : LLRect.intersects r o = IntervalFns.LLRect_Intersects r o := rfl
theorem tie_LLRect_Contains (r : LLRect α) (o : LLRect α) : LLRect.contains r o = IntervalFns.LLRect_Contains r o := rfl
theorem tie_LLRect_ContainsLatLng (r : LLRect α) (ll : LatLng α) : LLRect.containsLatLng r ll = IntervalFns.LLRect_ContainsLatLng r ll := rfl

end

/-! ### the float64 constants of the bit-exact instance `S2.IvlF64`

  The class constants are recognised by the translator BY VALUE (a float constant expression of the Go source that
  is not one of them stops the translation); here the values the instance gives them are tied to what go/constant
  computes from `math.Pi` (one rounding to float64, as the compiler does) and to the initial value of the package
  variable `s1.dblEpsilon` read from s1/interval.go. -/
section
open S2.IvlF64

theorem tie_const_zero : (zero : F64).bits = IntervalFns.bits_zero := by decide +kernel
theorem tie_const_one : (one : F64).bits = IntervalFns.bits_one := by decide +kernel
theorem tie_const_negOne : (negOne : F64).bits = IntervalFns.bits_negOne := by decide +kernel
theorem tie_const_pi : (pi : F64).bits = IntervalFns.bits_pi := by decide +kernel
theorem tie_const_negPi : (negPi : F64).bits = IntervalFns.bits_negPi := by decide +kernel
theorem tie_const_twoPi : (twoPi : F64).bits = IntervalFns.bits_twoPi := by decide +kernel
theorem tie_const_halfPi : (halfPi : F64).bits = IntervalFns.bits_halfPi := by decide +kernel
theorem tie_const_negHalfPi : (negHalfPi : F64).bits = IntervalFns.bits_negHalfPi := by decide +kernel
/-- `2*dblEpsilon` is computed at run time from the package variable: one float64 multiplication -/
theorem tie_const_twoEps :
    (twoEps : F64) = F64.mul ⟨IntervalFns.bits_two⟩ ⟨IntervalFns.bits_s1_dblEpsilon⟩ := by decide +kernel
/-- `0.5 * x` -/
theorem tie_op_half (x : F64) : half x = F64.mul ⟨IntervalFns.bits_half⟩ x := rfl
/-- `2 * x` -/
theorem tie_op_dbl (x : F64) : dbl x = F64.mul ⟨IntervalFns.bits_two⟩ x := rfl
/-- `math.Remainder(x, 2*math.Pi)` -/
theorem tie_op_rem2pi (x : F64) : rem2pi x = F64.remainder x ⟨IntervalFns.bits_twoPi⟩ := rfl

end

end S2Proofs.Ties.C19
