/- C06 uses the PaddedCell model too: the regenerated-instance obligations are those of `Ties/C12_PaddedCell.lean`
   (importing them here puts them into the import closure of C06's tie modules). -/
import S2Proofs.Ties.C12_PaddedCell
