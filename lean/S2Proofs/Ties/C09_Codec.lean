/-
  S2Proofs.Ties.C09_Codec — regenerated-instance obligations for the codec functions.

  `S2.Generated.CodecFns.*` is rewritten from the Go source on every run by translator_c09 (rules: header of
  translator_c09/main.go).  Each theorem says: the hand model function (S2/Codec/*.lean, the one the property theorems
  and the oracle use) equals the definition regenerated from the body of the Go function, where calls of other Go
  functions are calls of their hand model functions (tied by their own theorems here).
-/
import S2.Codec
import S2.Generated.CodecFns
import S2.Generated.StuvFns
namespace S2Proofs.Ties.C09_Codec
open S2 S2.Codec S2.Generated

/-! ### s2/encode.go -/
theorem tie_writeUvarint (x : UInt64) : putUvarint x.toNat = CodecFns.encoder_writeUvarint x := rfl
theorem tie_writeBool (b : Bool) : writeBool b = CodecFns.encoder_writeBool b := rfl
theorem tie_writeInt8 (x : Nat) : writeInt8 x = CodecFns.encoder_writeInt8 x := rfl
theorem tie_writeUint8 (x : UInt8) : writeUint8 x = CodecFns.encoder_writeUint8 x := rfl
theorem tie_writeUint32 (x : UInt32) : writeUint32 x = CodecFns.encoder_writeUint32 x := rfl
theorem tie_writeUint64 (x : UInt64) : writeUint64 x = CodecFns.encoder_writeUint64 x := rfl
theorem tie_writeFloat64 (x : F64) : writeFloat64Bits x.bits = CodecFns.encoder_writeFloat64 x := rfl

/-! ### zig-zag, interleave -/
theorem tie_zigzagEncode (x : UInt32) : zigzagEncode x = CodecFns.zigzagEncode x := rfl

/-! ### signed writers, zig-zag decode, interleave (Go: machine words; hand model: Nat arithmetic) -/
theorem leBytes_mod (k x : Nat) : leBytes k (x % 256 ^ k) = leBytes k x := by
  induction k generalizing x with
  | zero => rfl
  | succ k ih =>
    simp only [leBytes]
    have h1 : x % 256 ^ (k + 1) % 256 = x % 256 := by
      rw [Nat.pow_succ, Nat.mul_comm]; exact Nat.mod_mul_right_mod x 256 (256 ^ k)
    have h2 : x % 256 ^ (k + 1) / 256 = (x / 256) % 256 ^ k := by
      rw [Nat.pow_succ, Nat.mul_comm]; exact Nat.mod_mul_right_div_self x 256 (256 ^ k)
    rw [h1, h2, ih]

theorem tie_writeInt32 (n : Nat) : writeInt32OfNat n = CodecFns.encoder_writeInt32 (UInt32.ofNat n) := by
  unfold writeInt32OfNat CodecFns.encoder_writeInt32
  rw [UInt32.toNat_ofNat']

theorem tie_writeInt64 (n : Nat) : writeInt64OfNat n = CodecFns.encoder_writeInt64 n := by
  unfold writeInt64OfNat CodecFns.encoder_writeInt64
  exact leBytes_mod 8 n

theorem tie_zigzagDecode (x : UInt32) : zigzagDecode x = CodecFns.zigzagDecode x := by
  unfold zigzagDecode CodecFns.zigzagDecode
  have h : x &&& 1 = 0 ∨ x &&& 1 = 1 := by
    have : (x &&& 1).toNat = x.toNat % 2 := by rw [UInt32.toNat_and]; exact Nat.and_one_is_mod _
    rcases Nat.mod_two_eq_zero_or_one x.toNat with h | h
    · left; apply UInt32.toNat_inj.mp; rw [this, h]; rfl
    · right; apply UInt32.toNat_inj.mp; rw [this, h]; rfl
  rcases h with h | h <;> rw [h] <;> rfl

theorem tie_interleaveUint32 (x y : UInt32) : interleaveUint32 x y = CodecFns.interleaveUint32 x y := by
  unfold interleaveUint32 interleaveNat CodecFns.interleaveUint32 CodecFns.ilLut64
  simp only [UInt64.ofNat_or, UInt64.ofNat_shiftLeft _ _ (by decide : 16 < 64), UInt64.ofNat_shiftLeft _ _ (by decide : 32 < 64),
    UInt64.ofNat_shiftLeft _ _ (by decide : 48 < 64), UInt64.ofNat_shiftLeft _ _ (by decide : 1 < 64),
    UInt64.ofNat_shiftLeft _ _ (by decide : 17 < 64), UInt64.ofNat_shiftLeft _ _ (by decide : 33 < 64),
    UInt64.ofNat_shiftLeft _ _ (by decide : 49 < 64), UInt32.toNat_and, UInt32.toNat_shiftRight]
  rfl

theorem tie_deinterleaveUint32 (code : UInt64) : deinterleaveUint32 code = CodecFns.deinterleaveUint32 code := by
  unfold deinterleaveUint32 deinterleaveNat deinterleaveHalf CodecFns.deinterleaveUint32 CodecFns.deLut32
  simp only [UInt32.ofNat_or, UInt32.ofNat_shiftLeft _ _ (by decide : 4 < 32), UInt32.ofNat_shiftLeft _ _ (by decide : 8 < 32),
    UInt32.ofNat_shiftLeft _ _ (by decide : 12 < 32), UInt32.ofNat_shiftLeft _ _ (by decide : 16 < 32),
    UInt32.ofNat_shiftLeft _ _ (by decide : 20 < 32), UInt32.ofNat_shiftLeft _ _ (by decide : 24 < 32),
    UInt32.ofNat_shiftLeft _ _ (by decide : 28 < 32), UInt64.toNat_and, UInt64.toNat_shiftRight]
  rfl

/-! ### (pi,qi), snap detection (generated into StuvFns with the other float functions) -/
theorem tie_piQiToST (pi level : Nat) : piQiToST pi level = StuvFns.piQiToST pi level := by
  unfold piQiToST StuvFns.piQiToST
  rw [Nat.one_shiftLeft]; rfl

theorem tie_facePiQitoXYZ (face pi qi level : Nat) :
    facePiQiToXYZ face pi qi level = StuvFns.facePiQitoXYZ face pi qi level := rfl

/-- the Go test `math.Float64bits(p.X) == math.Float64bits(c.X) && …` is equality of the bit-pattern vectors -/
theorem bitsEq (p c : V3) :
    ((p.x.bits == c.x.bits && p.y.bits == c.y.bits) && p.z.bits == c.z.bits) = decide (p = c) := by
  rcases p with ⟨⟨a⟩, ⟨b⟩, ⟨d⟩⟩
  rcases c with ⟨⟨a'⟩, ⟨b'⟩, ⟨d'⟩⟩
  simp only [V3.mk.injEq, F64.mk.injEq, Bool.and_assoc, Bool.decide_and]
  by_cases h1 : a = a' <;> by_cases h2 : b = b' <;> by_cases h3 : d = d' <;> simp [h1, h2, h3]

/-- `xyzToFaceSiTi`: Go returns `(face, si, ti, level)`, the hand model the record with the point itself -/
theorem tie_xyzToFaceSiTi (p : V3) :
    xyzToFaceSiTi p = (let r := StuvFns.xyzToFaceSiTi p; ⟨p, r.1, r.2.1, r.2.2.1, r.2.2.2⟩) := by
  unfold xyzToFaceSiTi StuvFns.xyzToFaceSiTi siTiLevel
  simp only [bitsEq]
  split
  · rfl
  · split
    · rename_i h; simp only [decide_eq_true h]; rfl
    · rename_i h; simp only [decide_eq_false h]; rfl

/-! ### type encoders -/
theorem tie_Point_encode (p : V3) : encodePoint' p = CodecFns.Point_encode p := rfl
theorem tie_Cap_encode (c : CapM) : encodeCap c = CodecFns.Cap_encode c := rfl
theorem tie_Rect_encode (r : RectM) : encodeRect r = CodecFns.Rect_encode r := rfl
theorem tie_CellID_encode (ci : UInt64) : encodeCellID ci = CodecFns.CellID_encode ci := rfl
theorem tie_CellUnion_encode (cu : List UInt64) : encodeCellUnion cu = CodecFns.CellUnion_encode cu := rfl
theorem tie_Polyline_encode (p : List V3) : encodePolyline p = CodecFns.Polyline_encode p := rfl
theorem tie_Loop_encode (l : LoopM) : encodeLoop l = CodecFns.Loop_encode l := rfl

/-! ### Cell, compressed loops, polygons -/
theorem tie_Cell_encode (id : UInt64) : encodeCell id = CodecFns.Cell_encode id := rfl
theorem tie_compressedProps (l : LoopM) : compressedProps l = CodecFns.Loop_compressedEncodingProperties l := by
  unfold compressedProps CodecFns.Loop_compressedEncodingProperties
  cases l.originInside <;> by_cases h : l.vertices.length ≥ 64 <;> simp [h]
theorem tie_Loop_encodeCompressed (l : LoopM) (snapLevel : Nat) (vs : List XFST) :
    encodeLoopCompressed l snapLevel vs = CodecFns.Loop_encodeCompressed l snapLevel vs := rfl
theorem tie_Polygon_encodeLossless (p : PolygonM) : encodePolygonLossless p = CodecFns.Polygon_encodeLossless p := rfl

theorem encodeLoopsCompressed_eq (snapLevel : Nat) (ls : List LoopM) (vs : List XFST) :
    encodeLoopsCompressed snapLevel ls vs =
      CodecFns.rangeOptS ls vs (fun l vertices =>
        (encodeLoopCompressed l snapLevel (vertices.take l.vertices.length), vertices.drop l.vertices.length)) := by
  induction ls generalizing vs with
  | nil => rfl
  | cons l ls ih => simp only [encodeLoopsCompressed, CodecFns.rangeOptS, ih]; rfl

theorem tie_Polygon_encodeCompressed (p : PolygonM) (snapLevel : Nat) (vs : List XFST) :
    encodePolygonCompressed p snapLevel vs = CodecFns.Polygon_encodeCompressed p snapLevel vs := by
  unfold encodePolygonCompressed CodecFns.Polygon_encodeCompressed
  rw [encodeLoopsCompressed_eq]
  rfl

theorem tie_encodeFaceRun (fr : Nat × Nat) : encodeFaceRun fr = CodecFns.encodeFaceRun fr := rfl
theorem tie_encodeFaces (frs : List (Nat × Nat)) : encodeFaces frs = CodecFns.encodeFaces frs := rfl

theorem tie_encodePointCompressed (cp cq : List UInt32) (pi qi level : Nat) :
    CodecFns.encodePointCompressed pi qi level (derivativeEncodingOrder, cp) (derivativeEncodingOrder, cq) =
      (let r := encodePoint cp cq pi qi; (r.1, (derivativeEncodingOrder, r.2.1), (derivativeEncodingOrder, r.2.2))) := rfl

/-! ### the first point: `for i := 0; i < bytesRequired; i++ { e.writeUint8(uint8(interleaved)); interleaved >>= 8 }` -/
theorem forWrite_leBytes (k i : Nat) (x : UInt64) :
    (CodecFns.forWriteAux (fun (_ : Nat) (x : UInt64) => (writeUint8 x.toUInt8, x >>> 8)) k i x).1 = leBytes k x.toNat := by
  induction k generalizing i x with
  | zero => rfl
  | succ k ih =>
    have ih' := ih (i + 1) (x >>> 8)
    simp only [writeUint8] at ih'
    simp only [CodecFns.forWriteAux, leBytes, writeUint8, ih']
    have h1 : x.toUInt8 = UInt8.ofNat (x.toNat % 256) := by
      apply UInt8.toNat_inj.mp
      simp [UInt8.toNat_ofNat']
    have h2 : (x >>> 8).toNat = x.toNat / 256 := by
      rw [UInt64.toNat_shiftRight]; simp [Nat.shiftRight_eq_div_pow]
    rw [h1, h2]; rfl

theorem tie_encodeFirstPoint (cp cq : List UInt32) (pi qi level : Nat) :
    CodecFns.encodeFirstPointFixedLength pi qi level (derivativeEncodingOrder, cp) (derivativeEncodingOrder, cq) =
      (let r := encodeFirstPoint level cp cq pi qi; (r.1, (derivativeEncodingOrder, r.2.1), (derivativeEncodingOrder, r.2.2))) := by
  unfold CodecFns.encodeFirstPointFixedLength encodeFirstPoint
  simp only [CodecFns.forWrite]
  rw [forWrite_leBytes]
  rfl

/-! ### N-th derivative coder (skeleton: loop step, conditions, statement structure) -/
theorem tie_encLoop_step (m0 : UInt32) (ms : List UInt32) (k : UInt32) :
    encLoop (m0 :: ms) k = (let r := encLoop ms (CodecFns.coder_encode_val0 k m0); (k :: r.1, r.2)) := rfl
theorem tie_coderEncode (n : Nat) (mem : List UInt32) (k : UInt32) :
    coderEncode n mem k =
      (let r := encLoop mem k; if CodecFns.coder_encode_cond1 mem.length n then (r.1 ++ [r.2], r.2) else r) := by
  simp [coderEncode, CodecFns.coder_encode_cond1]
theorem tie_coderDecode (n : Nat) (mem : List UInt32) (k : UInt32) :
    coderDecode n mem k = decLoop (if CodecFns.coder_decode_cond0 mem.length n then mem ++ [0] else mem) k := by
  simp [coderDecode, CodecFns.coder_decode_cond0]
/-- the loop of `decode` runs `i = c.m-1, …, 0`: `val0 m = m - 1`, continue while `i ≥ 0` -/
theorem tie_decode_bounds (m : Nat) (i : Int) :
    CodecFns.coder_decode_val0 m = (m : Int) - 1 ∧ CodecFns.coder_decode_cond1 i = decide (0 ≤ i) := ⟨rfl, rfl⟩
theorem tie_encode_loop_bound (i m : Nat) : CodecFns.coder_encode_cond0 i m = decide (i < m) := by
  simp [CodecFns.coder_encode_cond0]
theorem shape_coder_encode : CodecFns.coder_encode_shape =
    "for[i := 0] cond0 [i++] {delta := val0; c.memory[i] = k; k = delta}; if cond1 {c.memory[c.m] = k; c.m++}; return k" := rfl
theorem shape_coder_decode : CodecFns.coder_decode_shape =
    "if cond0 {c.m++}; for[i := val0] cond1 [i--] {c.memory[i] += k; k = c.memory[i]}; return k" := rfl
theorem shape_newCoder : CodecFns.newNthDerivativeCoder_shape =
    "c := &nthDerivativeCoder{n: n}; if cond0 {panic(\"unsupported n. Must be within [0,10].\")}; return c" := rfl
theorem tie_newCoder_ok : CodecFns.newNthDerivativeCoder_cond0 derivativeEncodingOrder = false := by decide

/-! ### face runs -/
theorem tie_appendFace_cons (g c : Nat) (rs : List (Nat × Nat)) (face : Nat) :
    appendFaceR ((g, c) :: rs) face =
      if CodecFns.appendFace_cond0 ((g, c) :: rs).length g face then (face, 1) :: (g, c) :: rs else (g, c + 1) :: rs := by
  simp only [appendFaceR, CodecFns.appendFace_cond0, List.length_cons]
  by_cases h : g = face
  · subst h; simp; omega
  · have h' : ¬ ((g : Int) = (face : Int)) := by omega
    simp [h, h']
theorem tie_appendFace_nil (x face : Int) : CodecFns.appendFace_cond0 0 x face = true := by
  simp [CodecFns.appendFace_cond0]
theorem shape_appendFace : CodecFns.appendFace_shape =
    "if cond0 {return append(faces, faceRun{face, 1})}; faces[len(faces)-1].count++; return faces" := rfl

theorem tie_facesNext (f c : Nat) (rs : List (Nat × Nat)) (shown : Nat) :
    facesNext ((f, c) :: rs, shown) =
      if CodecFns.facesIterator_next_cond1 c (shown + 1) then some (f, (rs, 0)) else some (f, ((f, c) :: rs, shown + 1)) := by
  simp only [facesNext, CodecFns.facesIterator_next_cond1]
  by_cases h : c ≤ shown + 1
  · simp [h]; omega
  · simp [h]; omega
theorem tie_facesNext_nil (shown : Nat) :
    facesNext ([], shown) = none ∧ CodecFns.facesIterator_next_cond0 (([] : List (Nat × Nat)).length) = true := ⟨rfl, rfl⟩
theorem shape_facesNext : CodecFns.facesIterator_next_shape =
    "if cond0 {return false}; fi.curFace = fi.faces[0].face; fi.numCurrentFaceShown++; if cond1 {fi.faces = fi.faces[1:]; fi.numCurrentFaceShown = 0}; return true" := rfl

/-! ### encodePointsCompressed -/
theorem tie_offCenter_step (level i : Nat) (v : XFST) (vs : List XFST) :
    offCenterAux level i (v :: vs) =
      if CodecFns.encodePointsCompressed_cond1 v.level level then (i, v.xyz) :: offCenterAux level (i + 1) vs
      else offCenterAux level (i + 1) vs := rfl
theorem tie_pointsLoop_step (level i : Nat) (cp cq : List UInt32) (pi qi : Nat) (rest : List (Nat × Nat)) :
    encodePointsLoop level (CodecFns.encodePointsCompressed_cond0 i) cp cq ((pi, qi) :: rest) =
      (let r := if CodecFns.encodePointsCompressed_cond0 i then encodeFirstPoint level cp cq pi qi else encodePoint cp cq pi qi
       r.1 ++ encodePointsLoop level false r.2.1 r.2.2 rest) := rfl
theorem tie_pointsLoop_first (i : Nat) : CodecFns.encodePointsCompressed_cond0 i = (i == 0) := by
  cases i <;> simp [CodecFns.encodePointsCompressed_cond0] <;> omega

/-! ### Polygon.encode: format choice -/
/-- `numUnsnapped := p.numVertices - numSnapped`, `compressedSize := 4*p.numVertices + (pointSize+2)*numUnsnapped`,
    `losslessSize := pointSize * p.numVertices`, `compressedSize < losslessSize` (Go `int`; the hand model works in `Nat`,
    which agrees because `numSnapped ≤ numVertices`: it counts a subset of the vertices) -/
theorem tie_useCompressed (nv ns : Nat) (h : ns ≤ nv) :
    useCompressed nv ns =
      CodecFns.Polygon_encode_cond2 (CodecFns.Polygon_encode_val1 nv (CodecFns.Polygon_encode_val0 nv ns)) (CodecFns.Polygon_encode_val2 nv) := by
  simp only [useCompressed, CodecFns.Polygon_encode_cond2, CodecFns.Polygon_encode_val1, CodecFns.Polygon_encode_val0,
    CodecFns.Polygon_encode_val2]
  by_cases h1 : 4 * nv + (24 + 2) * (nv - ns) < 24 * nv
  · have : (4 * (nv : Int) + 26 * ((nv : Int) - (ns : Int)) < 24 * (nv : Int)) := by omega
    simp [h1, this]
  · have : ¬ (4 * (nv : Int) + 26 * ((nv : Int) - (ns : Int)) < 24 * (nv : Int)) := by omega
    simp [h1, this]
/-- the `for level, h := range histogram[1:]` loop: `if h > numSnapped { snapLevel, numSnapped = level, h }` -/
theorem tie_pickSnapLevel_step (vs : List XFST) (k : Nat) (best : Nat × Nat) :
    pickSnapLevel vs (k + 1) best =
      pickSnapLevel vs k (if CodecFns.Polygon_encode_cond1 (countLevel vs (30 - k)) best.2 then (30 - k, countLevel vs (30 - k)) else best) := by
  simp only [pickSnapLevel, CodecFns.Polygon_encode_cond1]
  by_cases h : countLevel vs (30 - k) > best.2
  · simp [h]
  · simp [h]
theorem tie_encodePolygon (p : PolygonM) :
    encodePolygon p =
      if CodecFns.Polygon_encode_cond0 p.numVertices then encodePolygonCompressed p 30 []
      else
        let vs := polygonXFST p
        let sl := snapLevelOf vs
        if useCompressed p.numVertices sl.2 then encodePolygonCompressed p sl.1 vs else encodePolygonLossless p := by
  simp only [encodePolygon, CodecFns.Polygon_encode_cond0]
  by_cases h : p.numVertices = 0
  · simp [h]
  · simp [h]
theorem shape_Polygon_encode : CodecFns.Polygon_encode_shape =
    "if cond0 {p.encodeCompressed(e, MaxLevel, nil); return}; vs := make([]xyzFaceSiTi, 0, p.numVertices); range _, l := p.loops {vs = append(vs, l.xyzFaceSiTiVertices()...)}; histogram := make([]int, MaxLevel + 2); range _, v := vs {histogram[v.level+1]++}; var snapLevel, numSnapped int; range level, h := histogram[1:] {if cond1 {snapLevel, numSnapped = level, h}}; numUnsnapped := val0; const pointSize = 3 * 8; compressedSize := val1; losslessSize := val2; if cond2 {p.encodeCompressed(e, snapLevel, vs)} else {p.encodeLossless(e)}" := rfl
theorem shape_encodePointsCompressed : CodecFns.encodePointsCompressed_shape =
    "var faces []faceRun; range _, v := vertices {faces = appendFace(faces, v.face)}; encodeFaces(e, faces); type piQi struct { pi, qi uint32 }; verticesPiQi := make([]piQi, len(vertices)); range i, v := vertices {verticesPiQi[i] = piQi{siTitoPiQi(v.si, level), siTitoPiQi(v.ti, level)}}; piCoder, qiCoder := newNthDerivativeCoder(derivativeEncodingOrder), newNthDerivativeCoder(derivativeEncodingOrder); range i, v := verticesPiQi {f := encodePointCompressed; if cond0 {f = encodeFirstPointFixedLength}; f(e, v.pi, v.qi, level, piCoder, qiCoder)}; var offCenter []int; range i, v := vertices {if cond1 {offCenter = append(offCenter, i)}}; e.writeUvarint(uint64(len(offCenter))); range _, idx := offCenter {e.writeUvarint(uint64(idx)); e.writeFloat64(vertices[idx].xyz.X); e.writeFloat64(vertices[idx].xyz.Y); e.writeFloat64(vertices[idx].xyz.Z)}" := rfl
theorem shape_xyzFaceSiTiVertices : CodecFns.xyzFaceSiTiVertices_shape =
    "ret := make([]xyzFaceSiTi, len(l.vertices)); range i, v := l.vertices {ret[i].xyz = v; ret[i].face, ret[i].si, ret[i].ti, ret[i].level = xyzToFaceSiTi(v)}; return ret" := rfl

/-! ### the source text of the arguments of the regenerated conditions / values -/
theorem atoms_newNthDerivativeCoder : CodecFns.newNthDerivativeCoder_atoms =
    "cond0(n)" := rfl
theorem atoms_coder_encode : CodecFns.coder_encode_atoms =
    "cond0(i, c.m); val0(k, c.memory[i]); cond1(c.m, c.n)" := rfl
theorem atoms_coder_decode : CodecFns.coder_decode_atoms =
    "cond0(c.m, c.n); val0(c.m); cond1(i)" := rfl
theorem atoms_appendFace : CodecFns.appendFace_atoms =
    "cond0(len(faces), faces[len(faces)-1].face, face)" := rfl
theorem atoms_facesIterator_next : CodecFns.facesIterator_next_atoms =
    "cond0(len(fi.faces)); cond1(fi.faces[0].count, fi.numCurrentFaceShown)" := rfl
theorem atoms_encodePointsCompressed : CodecFns.encodePointsCompressed_atoms =
    "cond0(i); cond1(v.level, level)" := rfl
theorem atoms_Polygon_encode : CodecFns.Polygon_encode_atoms =
    "cond0(p.numVertices); cond1(h, numSnapped); val0(p.numVertices, numSnapped); val1(p.numVertices, numUnsnapped); val2(p.numVertices); cond2(compressedSize, losslessSize)" := rfl

/-! ### statement skeletons of the encoder functions (error checks, order of writes) -/
theorem shape_encoder_writeUvarint : CodecFns.encoder_writeUvarint_shape = "errcheck;buf[10];putuvarint;write" := rfl
theorem shape_encoder_writeBool : CodecFns.encoder_writeBool_shape = "errcheck;let;let;write" := rfl
theorem shape_encoder_writeInt8 : CodecFns.encoder_writeInt8_shape = "errcheck;write" := rfl
theorem shape_encoder_writeInt16 : CodecFns.encoder_writeInt16_shape = "errcheck;write" := rfl
theorem shape_encoder_writeInt32 : CodecFns.encoder_writeInt32_shape = "errcheck;write" := rfl
theorem shape_encoder_writeInt64 : CodecFns.encoder_writeInt64_shape = "errcheck;write" := rfl
theorem shape_encoder_writeUint8 : CodecFns.encoder_writeUint8_shape = "errcheck;write" := rfl
theorem shape_encoder_writeUint32 : CodecFns.encoder_writeUint32_shape = "errcheck;write" := rfl
theorem shape_encoder_writeUint64 : CodecFns.encoder_writeUint64_shape = "errcheck;write" := rfl
theorem shape_encoder_writeFloat64 : CodecFns.encoder_writeFloat64_shape = "errcheck;write" := rfl
theorem shape_Point_encode : CodecFns.Point_encode_shape = "write;write;write;write" := rfl
theorem shape_Cap_encode : CodecFns.Cap_encode_shape = "write;write;write;write" := rfl
theorem shape_Rect_encode : CodecFns.Rect_encode_shape = "write;write;write;write;write" := rfl
theorem shape_CellID_encode : CodecFns.CellID_encode_shape = "write" := rfl
theorem shape_CellUnion_encode : CodecFns.CellUnion_encode_shape = "guard;write;write;range{write}" := rfl
theorem shape_Polyline_encode : CodecFns.Polyline_encode_shape = "write;write;range{write;write;write}" := rfl
theorem shape_Loop_encode : CodecFns.Loop_encode_shape = "write;write;range{write;write;write};write;write;write" := rfl
theorem shape_Cell_encode : CodecFns.Cell_encode_shape = "write" := rfl
theorem shape_Loop_encodeCompressed : CodecFns.Loop_encodeCompressed_shape = "guard;write;write;let;write;write;if{write}" := rfl
theorem shape_Polygon_encodeLossless : CodecFns.Polygon_encodeLossless_shape = "write;write;write;write;errcheck;guard;range{write};write" := rfl
theorem shape_Polygon_encodeCompressed : CodecFns.Polygon_encodeCompressed_shape = "write;write;write;errcheck;guard;range{write;let}" := rfl
theorem shape_encodeFaceRun : CodecFns.encodeFaceRun_shape = "let;write" := rfl
theorem shape_encodeFaces : CodecFns.encodeFaces_shape = "range{write}" := rfl
theorem shape_encodePointCompressed : CodecFns.encodePointCompressed_shape = "let;let;let;write" := rfl
theorem shape_encodeFirstPointFixedLength : CodecFns.encodeFirstPointFixedLength_shape = "let;let;let;for{write;let}" := rfl

end S2Proofs.Ties.C09_Codec
