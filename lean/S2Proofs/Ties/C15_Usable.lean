/-
  S2Proofs.Ties.C15_Usable — the theorems of S2Proofs/Properties/C15_Usable.lean restated on the
  REGENERATED programs only: the decoders `S2.Generated.DecodeFns.*_Decode` (translator_c15b, equal to
  the hand model by S2Proofs/Ties/C09_Decode.lean) and the accessors `S2.Generated.Polygon.*`
  (translator_c06, equal to the hand model by S2Proofs/Ties/C06_Polygon.lean).  Whatever changes in
  `Polygon.Edge / Chain / ChainPosition` or in a decoder of /repo must keep these true (or the ties they
  rest on stop building).
-/
import S2Proofs.Ties.C06_Polygon
import S2Proofs.Ties.C09_Decode
import S2Proofs.Properties.C15_Usable
namespace S2Proofs.Ties.C15U
open S2 S2.Codec S2.Shapes S2Proofs.C15 S2Proofs.Ties.C06

/-- regenerated `Polygon.Decode` then regenerated `Polygon` accessors: safe to query -/
theorem Polygon_Decode_generated_usable {bs : Bytes} {p : PolygonD} {rest : Bytes}
    (h : Generated.DecodeFns.Polygon_Decode bs = some (p, rest)) :
    Usable (Polygon.accGenerated (polygonState p)) (Generated.Polygon.NumEdges (polygonState p))
      (Generated.Polygon.NumChains (polygonState p)) := by
  rw [← S2Proofs.Ties.C09Decode.tie_Polygon_Decode] at h
  rw [Polygon_accGenerated_eq]
  exact (decodePolygon_usable h).1

/-- regenerated accessors on the state `initEdgesAndIndex` builds from ANY loop list -/
theorem Polygon_init_generated_usable (loops : List LoopS) :
    Usable (Polygon.accGenerated (PolygonS.init loops)) (Generated.Polygon.NumEdges (PolygonS.init loops))
      (Generated.Polygon.NumChains (PolygonS.init loops)) := by
  rw [Polygon_accGenerated_eq]
  exact init_usable loops

/-- regenerated `Loop.Decode`, `Polyline.Decode`, `CellUnion.Decode`, `Cell.Decode`: the decoded-value
    predicates -/
theorem Loop_Decode_generated_ok {bs : Bytes} {l : LoopM} {rest : Bytes}
    (h : Generated.DecodeFns.Loop_Decode bs = some (l, rest)) : DecodedLoop l := by
  rw [← S2Proofs.Ties.C09Decode.tie_Loop_Decode] at h
  exact (decodeLoop_ok h).1

theorem Polygon_Decode_generated_ok {bs : Bytes} {p : PolygonD} {rest : Bytes}
    (h : Generated.DecodeFns.Polygon_Decode bs = some (p, rest)) : DecodedPolygon p := by
  rw [← S2Proofs.Ties.C09Decode.tie_Polygon_Decode] at h
  exact decodePolygon_ok h

theorem Polyline_Decode_generated_ok {bs : Bytes} {p : List V3} {rest : Bytes}
    (h : Generated.DecodeFns.Polyline_Decode bs = some (p, rest)) : p.length ≤ maxEncodedVertices := by
  rw [← S2Proofs.Ties.C09Decode.tie_Polyline_Decode] at h
  exact (decodePolyline_ok h).1

theorem CellUnion_Decode_generated_ok {bs : Bytes} {cu : List UInt64} {rest : Bytes}
    (h : Generated.DecodeFns.CellUnion_Decode bs = some (cu, rest)) : cu.length ≤ maxCells := by
  rw [← S2Proofs.Ties.C09Decode.tie_CellUnion_Decode] at h
  exact (decodeCellUnion_ok h).1

theorem Cell_Decode_generated_ok {bs : Bytes} {id : UInt64} {rest : Bytes}
    (h : Generated.DecodeFns.Cell_Decode bs = some (id, rest)) : S2.CellID.isValid id = true := by
  rw [← S2Proofs.Ties.C09Decode.tie_Cell_Decode] at h
  exact decodeCell_ok h

end S2Proofs.Ties.C15U
