/-
  S2Proofs.Ties.C06 — regenerated-instance obligations for the Shape accessor arithmetic:
  the hand model `S2.Shapes.X.f` (about which S2Proofs/Properties/C06.lean proves the contract)
  is the function `S2.Generated.X.f` that translator_c06 extracts from the Go source on every run.

  For the three accessors with a known defect the obligation is "the regenerated accessor is
  the faithful (defective) model OR the repaired one": it holds on the current tree by the first
  alternative and keeps holding, by the second, once fix_D11/D12/D13.diff are applied; any other
  edit of these accessors breaks it.  `*_generated_contract_or_known_defect` then states what is
  known about the code that is actually in the tree.
-/
import S2.Shapes
import S2.Generated.ShapeAccessors
import S2Proofs.Properties.C06
namespace S2Proofs.Ties.C06
open S2 S2.Shapes

theorem tie_Loop_isEmptyOrFull : Shapes.Loop.isEmptyOrFull = Generated.Loop.isEmptyOrFull := rfl
theorem tie_Loop_ContainsOrigin : Shapes.Loop.ContainsOrigin = Generated.Loop.ContainsOrigin := rfl
theorem tie_Loop_IsEmpty : Shapes.Loop.IsEmpty = Generated.Loop.IsEmpty := rfl
theorem tie_Loop_IsFull : Shapes.Loop.IsFull = Generated.Loop.IsFull := rfl
theorem tie_Loop_IsHole : Shapes.Loop.IsHole = Generated.Loop.IsHole := rfl
theorem tie_Loop_Vertex : Shapes.Loop.Vertex = Generated.Loop.Vertex := rfl
theorem tie_Loop_OrientedVertex : Shapes.Loop.OrientedVertex = Generated.Loop.OrientedVertex := rfl
theorem tie_Loop_NumEdges : Shapes.Loop.NumEdges = Generated.Loop.NumEdges := rfl
theorem tie_Loop_Edge : Shapes.Loop.Edge = Generated.Loop.Edge := rfl
theorem tie_Loop_NumChains : Shapes.Loop.NumChains = Generated.Loop.NumChains := rfl
theorem tie_Loop_Chain : Shapes.Loop.Chain = Generated.Loop.Chain := rfl
theorem tie_Loop_ChainEdge : Shapes.Loop.ChainEdge = Generated.Loop.ChainEdge := rfl
theorem tie_Loop_ChainPosition : Shapes.Loop.ChainPosition = Generated.Loop.ChainPosition := rfl
theorem tie_Polyline_NumEdges : Shapes.Polyline.NumEdges = Generated.Polyline.NumEdges := rfl
theorem tie_Polyline_Edge : Shapes.Polyline.Edge = Generated.Polyline.Edge := rfl
theorem tie_Polyline_NumChains : Shapes.Polyline.NumChains = Generated.Polyline.NumChains := rfl
theorem tie_Polyline_Chain : Shapes.Polyline.Chain = Generated.Polyline.Chain := rfl
theorem tie_Polyline_ChainEdge : Shapes.Polyline.ChainEdge = Generated.Polyline.ChainEdge := rfl
theorem tie_Polyline_ChainPosition : Shapes.Polyline.ChainPosition = Generated.Polyline.ChainPosition := rfl
theorem tie_LaxPolyline_NumEdges : Shapes.LaxPolyline.NumEdges = Generated.LaxPolyline.NumEdges := rfl
theorem tie_LaxPolyline_Edge : Shapes.LaxPolyline.Edge = Generated.LaxPolyline.Edge := rfl
theorem tie_LaxPolyline_NumChains : Shapes.LaxPolyline.NumChains = Generated.LaxPolyline.NumChains := rfl
theorem tie_LaxPolyline_Chain : Shapes.LaxPolyline.Chain = Generated.LaxPolyline.Chain := rfl
theorem tie_LaxPolyline_ChainEdge : Shapes.LaxPolyline.ChainEdge = Generated.LaxPolyline.ChainEdge := rfl
theorem tie_LaxPolyline_ChainPosition : Shapes.LaxPolyline.ChainPosition = Generated.LaxPolyline.ChainPosition := rfl
theorem tie_PointVector_NumEdges : Shapes.PointVector.NumEdges = Generated.PointVector.NumEdges := rfl
theorem tie_PointVector_Edge : Shapes.PointVector.Edge = Generated.PointVector.Edge := rfl
theorem tie_PointVector_NumChains : Shapes.PointVector.NumChains = Generated.PointVector.NumChains := rfl
theorem tie_PointVector_Chain : Shapes.PointVector.Chain = Generated.PointVector.Chain := rfl
theorem tie_PointVector_ChainEdge_D12 : Generated.PointVector.ChainEdge = Shapes.PointVector.ChainEdge ∨ Generated.PointVector.ChainEdge = Shapes.PointVector.ChainEdgeFixed := by
  first | exact Or.inl rfl | exact Or.inr rfl
theorem tie_PointVector_ChainPosition : Shapes.PointVector.ChainPosition = Generated.PointVector.ChainPosition := rfl
theorem tie_LaxLoop_NumEdges : Shapes.LaxLoop.NumEdges = Generated.LaxLoop.NumEdges := rfl
theorem tie_LaxLoop_Edge : Shapes.LaxLoop.Edge = Generated.LaxLoop.Edge := rfl
theorem tie_LaxLoop_NumChains : Shapes.LaxLoop.NumChains = Generated.LaxLoop.NumChains := rfl
theorem tie_LaxLoop_Chain : Shapes.LaxLoop.Chain = Generated.LaxLoop.Chain := rfl
theorem tie_LaxLoop_ChainEdge_D11 : Generated.LaxLoop.ChainEdge = Shapes.LaxLoop.ChainEdge ∨ Generated.LaxLoop.ChainEdge = Shapes.LaxLoop.ChainEdgeFixed := by
  first | exact Or.inl rfl | exact Or.inr rfl
theorem tie_LaxLoop_ChainPosition : Shapes.LaxLoop.ChainPosition = Generated.LaxLoop.ChainPosition := rfl
theorem tie_LaxPolygon_numVertices : Shapes.LaxPolygon.numVertices = Generated.LaxPolygon.numVertices := rfl
theorem tie_LaxPolygon_numLoopVertices : Shapes.LaxPolygon.numLoopVertices = Generated.LaxPolygon.numLoopVertices := rfl
theorem tie_LaxPolygon_NumEdges : Shapes.LaxPolygon.NumEdges = Generated.LaxPolygon.NumEdges := rfl
theorem tie_LaxPolygon_Edge : Shapes.LaxPolygon.Edge = Generated.LaxPolygon.Edge := rfl
theorem tie_LaxPolygon_NumChains : Shapes.LaxPolygon.NumChains = Generated.LaxPolygon.NumChains := rfl
theorem tie_LaxPolygon_Chain : Shapes.LaxPolygon.Chain = Generated.LaxPolygon.Chain := rfl
theorem tie_LaxPolygon_ChainEdge : Shapes.LaxPolygon.ChainEdge = Generated.LaxPolygon.ChainEdge := rfl
theorem tie_LaxPolygon_ChainPosition_D13 : Generated.LaxPolygon.ChainPosition = Shapes.LaxPolygon.ChainPosition ∨ Generated.LaxPolygon.ChainPosition = Shapes.LaxPolygon.ChainPositionFixed := by
  first | exact Or.inl rfl | exact Or.inr rfl
theorem tie_Polygon_NumLoops : Shapes.Polygon.NumLoops = Generated.Polygon.NumLoops := rfl
theorem tie_Polygon_NumEdges : Shapes.Polygon.NumEdges = Generated.Polygon.NumEdges := rfl
theorem tie_Polygon_NumChains : Shapes.Polygon.NumChains = Generated.Polygon.NumChains := rfl
theorem tie_Polygon_ChainEdge : Shapes.Polygon.ChainEdge = Generated.Polygon.ChainEdge := rfl
theorem tie_EdgeVector_NumEdges : Shapes.EdgeVector.NumEdges = Generated.EdgeVector.NumEdges := rfl
theorem tie_EdgeVector_Edge : Shapes.EdgeVector.Edge = Generated.EdgeVector.Edge := rfl
theorem tie_EdgeVector_NumChains : Shapes.EdgeVector.NumChains = Generated.EdgeVector.NumChains := rfl
theorem tie_EdgeVector_Chain : Shapes.EdgeVector.Chain = Generated.EdgeVector.Chain := rfl
theorem tie_EdgeVector_ChainEdge : Shapes.EdgeVector.ChainEdge = Generated.EdgeVector.ChainEdge := rfl
theorem tie_EdgeVector_ChainPosition : Shapes.EdgeVector.ChainPosition = Generated.EdgeVector.ChainPosition := rfl

/-! what is known about the accessors that are in the tree right now -/
open S2Proofs.C06

theorem LaxLoop_generated_contract_or_D11 (n : Nat) :
    Contract (LaxLoop.accWith Generated.LaxLoop.ChainEdge (LaxLoopS.ofLen n)) (LaxLoop.NumEdges (LaxLoopS.ofLen n))
      (LaxLoop.NumChains (LaxLoopS.ofLen n)) ∨ Generated.LaxLoop.ChainEdge = Shapes.LaxLoop.ChainEdge := by
  first
  | exact Or.inr rfl
  | (left
     have h : Generated.LaxLoop.ChainEdge = Shapes.LaxLoop.ChainEdgeFixed := rfl
     rw [h]; exact laxLoopFixed_contract n)

theorem PointVector_generated_contract_or_D12 (s : SeqS) :
    Contract (PointVector.accWith Generated.PointVector.ChainEdge s) (PointVector.NumEdges s) (PointVector.NumChains s)
      ∨ Generated.PointVector.ChainEdge = Shapes.PointVector.ChainEdge := by
  first
  | exact Or.inr rfl
  | (left
     have h : Generated.PointVector.ChainEdge = Shapes.PointVector.ChainEdgeFixed := rfl
     rw [h]; exact pointVectorFixed_contract s)

theorem LaxPolygon_generated_contract_or_D13 (ns : List Nat) :
    Contract (LaxPolygon.accWith Generated.LaxPolygon.ChainPosition (LaxPolygonS.ofLens ns)) (ns.sum : Nat) (ns.length : Nat)
      ∨ Generated.LaxPolygon.ChainPosition = Shapes.LaxPolygon.ChainPosition := by
  first
  | exact Or.inr rfl
  | (left
     have h : Generated.LaxPolygon.ChainPosition = Shapes.LaxPolygon.ChainPositionFixed := rfl
     rw [h]; exact laxPolygonFixed_contract ns)

end S2Proofs.Ties.C06
