/-
  S2Proofs.Ties.C11_Index — regenerated-instance obligations for s2/cell_index.go and s2/s2intersect/s2intersect.go.

  `S2.Generated.CellUnionLoops.{RangeIter_*, ContentsIter_*, CellIndex_*, Intersect_*}` are rewritten from the Go source
  on every run by translator_c10 (skeleton extraction, see Ties/C11_Loops.lean).  The theorems say that the hand
  models `S2.CellIndex` / `S2.Intersect` (about which Properties/C11 and C11_Index prove their theorems) branch on
  exactly the regenerated conditions and compute exactly the regenerated values; `…_shape` pins the statement
  structure the model was written against.  Go `int` / `int32` are `Int` (labels and tree indices use -1 markers).
-/
import S2.CellIndex
import S2.Intersect
import S2.Generated.CellUnionLoops
namespace S2Proofs.Ties.C11Index
open S2 S2.CellIndex S2.Generated S2.Generated.CellUnionLoops

/-! ### range iterator -/

theorem tie_doneContents : CellIndex.doneContents = cellIndexDoneContents := rfl

theorem tie_newCellIndexNode_shape : newCellIndexNode_shape =
    "return cellIndexNode{cellID: 0, label: cellIndexDoneContents, parent: -1}" := rfl
theorem tie_newCellIndexNode : (default : TreeNode) = { cellID := 0, label := cellIndexDoneContents, parent := -1 } := rfl

theorem tie_StartID_shape : RangeIter_StartID_shape = "return c.rangeNodes[c.pos].startID" := rfl
theorem tie_LimitID_shape : RangeIter_LimitID_shape = "return c.rangeNodes[val0⟨c.pos⟩].startID" := rfl
theorem tie_limitID (c : RangeIter) : c.limitID = c.rn[(RangeIter_LimitID_val0 c.pos).toNat]!.startID := rfl

theorem tie_IsEmpty_shape : RangeIter_IsEmpty_shape = "return val0⟨c.rangeNodes[c.pos].contents⟩" := rfl
theorem tie_isEmpty (c : RangeIter) : c.isEmpty = RangeIter_IsEmpty_val0 c.contents := rfl

theorem tie_Done_shape : RangeIter_Done_shape = "return val0⟨c.pos; len(c.rangeNodes)⟩" := rfl
theorem tie_done (c : RangeIter) : c.done = RangeIter_Done_val0 c.pos (c.rn.size : Int) := rfl

theorem tie_Begin_shape : RangeIter_Begin_shape =
    "c.pos = 0; for cond0⟨c.nonEmpty; c.IsEmpty(); c.Done()⟩ {c.pos++}" := rfl
theorem tie_Next_shape : RangeIter_Next_shape =
    "c.pos++; for cond0⟨c.nonEmpty; c.IsEmpty(); c.Done()⟩ {c.pos++}" := rfl

/-- the skip loop shared by Begin / Next / Seek: `for c.nonEmpty && c.IsEmpty() && !c.Done() { c.pos++ }` -/
theorem tie_skipEmpty_step (fuel : Nat) (c : RangeIter) :
    RangeIter.skipEmpty.go (fuel + 1) c =
      if RangeIter_Begin_cond0 c.nonEmpty c.isEmpty c.done then RangeIter.skipEmpty.go fuel { c with pos := c.pos + 1 } else c := rfl
theorem tie_skipEmpty_same_cond :
    RangeIter_Next_cond0 = RangeIter_Begin_cond0 ∧ RangeIter_Seek_cond1 = RangeIter_Begin_cond0 := ⟨rfl, rfl⟩

theorem tie_Prev_shape : RangeIter_Prev_shape = "if cond0⟨c.nonEmpty⟩ {return c.nonEmptyPrev()}; return c.prev()" := rfl
theorem tie_prev (c : RangeIter) :
    c.prev = if RangeIter_Prev_cond0 c.nonEmpty then c.nonEmptyPrev else c.prev' := rfl

theorem tie_prev'_shape : RangeIter_prev_shape = "if cond0⟨c.pos⟩ {return false}; c.pos--; return true" := rfl
theorem tie_prev' (c : RangeIter) :
    c.prev' = if RangeIter_prev_cond0 c.pos then (c, false) else ({ c with pos := c.pos - 1 }, true) := rfl

theorem tie_nonEmptyPrev_shape : RangeIter_nonEmptyPrev_shape =
    "for cond0⟨c.prev()⟩ {if cond1⟨c.IsEmpty()⟩ {return true}}; if cond2⟨c.IsEmpty(); c.Done()⟩ {c.Next()}; return false" := rfl
theorem tie_nonEmptyPrev_step (fuel : Nat) (c : RangeIter) :
    RangeIter.nonEmptyPrev.go (fuel + 1) c =
      let (c', moved) := c.prev'
      if RangeIter_nonEmptyPrev_cond0 moved then
        if RangeIter_nonEmptyPrev_cond1 c'.isEmpty then (c', true) else RangeIter.nonEmptyPrev.go fuel c'
      else if RangeIter_nonEmptyPrev_cond2 c'.isEmpty c'.done then (c'.next, false) else (c', false) := rfl

theorem tie_Advance_shape : RangeIter_Advance_shape =
    "if cond0⟨n; len(c.rangeNodes); c.pos⟩ {return false}; c.pos += n; return true" := rfl
theorem tie_advance (c : RangeIter) (n : Int) :
    c.advance n = if RangeIter_Advance_cond0 n (c.rn.size : Int) c.pos then (c, false) else ({ c with pos := c.pos + n }, true) := by
  simp only [RangeIter.advance, RangeIter_Advance_cond0, decide_eq_true_eq]

theorem tie_Finish_shape : RangeIter_Finish_shape = "c.pos = val0⟨len(c.rangeNodes)⟩" := rfl
theorem tie_finish (c : RangeIter) : c.finish = { c with pos := RangeIter_Finish_val0 (c.rn.size : Int) } := rfl

theorem tie_Seek_shape : RangeIter_Seek_shape =
    "c.pos = val1⟨sort.Search(len(c.rangeNodes), func{return val0⟨c.rangeNodes[i].startID; target⟩})⟩; if cond0⟨c.pos⟩ {c.pos = 0}; for cond1⟨c.nonEmpty; c.IsEmpty(); c.Done()⟩ {c.pos++}" := rfl
/-- the predicate handed to `sort.Search` -/
theorem tie_seek_search_step (rn : Array RangeNode) (target : CellID) (fuel i j : Nat) :
    RangeIter.searchGT.go rn target (fuel + 1) i j =
      if i < j then
        let h := (i + j) / 2
        if !(RangeIter_Seek_val0 rn[h]!.startID target) then RangeIter.searchGT.go rn target fuel (h + 1) j
        else RangeIter.searchGT.go rn target fuel i h
      else i := by
  simp only [RangeIter.searchGT.go, RangeIter_Seek_val0, decide_eq_true_eq]
  rfl
theorem tie_seek (c : RangeIter) (target : CellID) :
    c.seek target =
      let p := RangeIter_Seek_val1 (RangeIter.searchGT c.rn target : Int)
      let p := if RangeIter_Seek_cond0 p then 0 else p
      RangeIter.skipEmpty { c with pos := p } := by
  unfold RangeIter_Seek_val1 RangeIter_Seek_cond0
  simp only [RangeIter.seek, decide_eq_true_eq]

/-! ### contents iterator -/

theorem tie_ContentsIter_New_shape : ContentsIter_New_shape =
    "it := &CellIndexContentsIterator{cellTree: index.cellTree, prevStartID: 0, nodeCutoff: -1, nextNodeCutoff: -1, node: cellIndexNode{label: cellIndexDoneContents}}; return it" := rfl
theorem tie_ContentsIter_Clear_shape : ContentsIter_Clear_shape =
    "c.prevStartID = 0; c.nodeCutoff = -1; c.nextNodeCutoff = -1; c.node.label = cellIndexDoneContents" := rfl
theorem tie_ContentsIter_Next_shape : ContentsIter_Next_shape =
    "if cond0⟨c.node.parent; c.nodeCutoff⟩ {c.nodeCutoff = c.nextNodeCutoff; c.node.label = cellIndexDoneContents} else {c.node = c.cellTree[c.node.parent]}" := rfl
theorem tie_contents_next (c : ContentsIter) :
    c.next = if ContentsIter_Next_cond0 c.node.parent c.nodeCutoff
      then { c with nodeCutoff := c.nextNodeCutoff, node := { c.node with label := cellIndexDoneContents } }
      else { c with node := c.tree[c.node.parent.toNat]! } := by
  simp only [ContentsIter.next, ContentsIter_Next_cond0, decide_eq_true_eq]; rfl
theorem tie_ContentsIter_Done_shape : ContentsIter_Done_shape = "return val0⟨c.node.label⟩" := rfl
theorem tie_contents_done (c : ContentsIter) : c.done = ContentsIter_Done_val0 c.node.label := rfl
theorem tie_ContentsIter_StartUnion_shape : ContentsIter_StartUnion_shape =
    "if cond0⟨r.StartID(); c.prevStartID⟩ {c.nodeCutoff = -1}; c.prevStartID = r.StartID(); contents := r.rangeNodes[r.pos].contents; if cond1⟨contents; c.nodeCutoff⟩ {c.node.label = cellIndexDoneContents} else {c.node = c.cellTree[contents]}; c.nextNodeCutoff = contents" := rfl
theorem tie_contents_startUnion (c : ContentsIter) (r : RangeIter) :
    c.startUnion r =
      let c := if ContentsIter_StartUnion_cond0 r.startID c.prevStartID then { c with nodeCutoff := -1 } else c
      let c := { c with prevStartID := r.startID }
      let contents := r.contents
      let c := if ContentsIter_StartUnion_cond1 contents c.nodeCutoff
               then { c with node := { c.node with label := cellIndexDoneContents } }
               else { c with node := c.tree[contents.toNat]! }
      { c with nextNodeCutoff := contents } := by
  simp only [ContentsIter.startUnion, ContentsIter_StartUnion_cond0, ContentsIter_StartUnion_cond1, decide_eq_true_eq]; rfl

/-! ### Add, Build -/

theorem tie_Add_shape : CellIndex_Add_shape =
    "if cond0⟨label⟩ {panic(\"labels must be non-negative\")}; c.cellTree = append(c.cellTree, cellIndexNode{cellID: id, label: label, parent: -1})" := rfl
theorem tie_AddCellUnion_shape : CellIndex_AddCellUnion_shape =
    "if cond0⟨label⟩ {panic(\"labels must be non-negative\")}; range _, cell := cu {c.Add(cell, label)}" := rfl
/-- the contract "labels ≥ 0" of the model is the panic test of `Add` -/
theorem tie_Add_contract (label : Int) : CellIndex_Add_cond0 label = decide (label < 0) ∧
    CellIndex_AddCellUnion_cond0 label = decide (label < 0) := ⟨rfl, rfl⟩

theorem tie_Build_shape : CellIndex_Build_shape =
    "type delta struct { startID CellID cellID CellID label int32 }; deltas := make([]delta, 0, val0⟨len(c.cellTree)⟩); range _, node := c.cellTree {deltas = append(deltas, delta{startID: val1⟨node.cellID⟩, cellID: node.cellID, label: node.label}); deltas = append(deltas, delta{startID: val2⟨node.cellID⟩, cellID: SentinelCellID, label: -1})}; deltas = append(deltas, delta{startID: val3⟨⟩, cellID: CellID(0), label: -1}); deltas = append(deltas, delta{startID: val4⟨⟩, cellID: CellID(0), label: -1}); sort.Slice(deltas, func{if[si, sj := deltas[i].startID, deltas[j].startID] cond0⟨si; sj⟩ {return val5⟨si; sj⟩}; if[si, sj := deltas[i].cellID, deltas[j].cellID] cond1⟨si; sj⟩ {return val6⟨si; sj⟩}; return val7⟨deltas[i].label; deltas[j].label⟩}); c.cellTree = nil; c.rangeNodes = nil; contents := int32(-1); for[i := 0] cond2⟨i; len(deltas)⟩ {startID := deltas[i].startID; for cond3⟨i; len(deltas); deltas[i].startID; startID⟩ [i++] {if cond4⟨deltas[i].label⟩ {c.cellTree = append(c.cellTree, cellIndexNode{cellID: deltas[i].cellID, label: deltas[i].label, parent: contents}); contents = val8⟨len(c.cellTree)⟩} else if cond5⟨deltas[i].cellID⟩ {contents = c.cellTree[contents].parent}}; c.rangeNodes = append(c.rangeNodes, rangeNode{startID, contents})}" := rfl

/-- the capacity hint only -/
theorem tie_Build_cap (n : Int) : CellIndex_Build_val0 n = 2 * n + 2 := rfl

/-- the two deltas per indexed cell and the two special ones -/
theorem tie_deltasOf (cells : List (CellID × Int)) :
    deltasOf cells =
      cells.flatMap (fun (c, l) =>
        [ { startID := CellIndex_Build_val1 c, cellID := c, label := l },
          { startID := CellIndex_Build_val2 c, cellID := CellIDFns.SentinelCellID, label := -1 } ])
      ++ [ { startID := CellIndex_Build_val3, cellID := 0, label := -1 },
           { startID := CellIndex_Build_val4, cellID := 0, label := -1 } ] := rfl

/-- the `less` closure of `sort.Slice` -/
theorem tie_deltaLess (a b : Delta) :
    deltaLess a b =
      if CellIndex_Build_cond0 a.startID b.startID then CellIndex_Build_val5 a.startID b.startID
      else if CellIndex_Build_cond1 a.cellID b.cellID then CellIndex_Build_val6 a.cellID b.cellID
      else CellIndex_Build_val7 a.label b.label := rfl

/-- the body of the inner loop -/
theorem tie_applyDelta (tree : Array TreeNode) (contents : Int) (d : Delta) :
    applyDelta tree contents d =
      if CellIndex_Build_cond4 d.label then
        (tree.push { cellID := d.cellID, label := d.label, parent := contents },
          CellIndex_Build_val8 ((tree.push { cellID := d.cellID, label := d.label, parent := contents }).size : Int))
      else if CellIndex_Build_cond5 d.cellID then (tree, tree[contents.toNat]!.parent)
      else (tree, contents) := by
  simp only [applyDelta, CellIndex_Build_cond4, CellIndex_Build_cond5, CellIndex_Build_val8, decide_eq_true_eq,
    Array.size_push, Int.natCast_add, Int.cast_ofNat_Int, Int.add_sub_cancel]
  rfl

/-- the nested loops: a group ends where `i < len(deltas) && deltas[i].startID == startID` fails -/
theorem tie_buildLoop_step (d d' : Delta) (rest : List Delta) (tree : Array TreeNode) (ranges : Array RangeNode) (contents : Int) :
    buildLoop (d :: d' :: rest) tree ranges contents =
      let (tree', contents') := applyDelta tree contents d
      if CellIndex_Build_cond3 0 1 d'.startID d.startID then buildLoop (d' :: rest) tree' ranges contents'
      else buildLoop (d' :: rest) tree' (ranges.push { startID := d.startID, contents := contents' }) contents' := by
  simp [buildLoop, CellIndex_Build_cond3]
theorem tie_buildLoop_last (d : Delta) (tree : Array TreeNode) (ranges : Array RangeNode) (contents : Int) :
    CellIndex_Build_cond3 1 1 d.startID d.startID = false ∧ CellIndex_Build_cond2 1 1 = false ∧
    buildLoop [d] tree ranges contents =
      { tree := (applyDelta tree contents d).1,
        ranges := ranges.push { startID := d.startID, contents := (applyDelta tree contents d).2 } } := by
  refine ⟨by simp [CellIndex_Build_cond3], by simp [CellIndex_Build_cond2], ?_⟩
  simp only [buildLoop]

/-! ### s2intersect -/
open S2.Intersect

theorem tie_cellUnionToIntervalLimits_shape : Intersect_cellUnionToIntervalLimits_shape =
    "if cond0⟨cu⟩ {return nil}; var lims []*limit; pushLeaf := func{lims = append(lims, &limit{leaf: cID, indices: []int{idx}, typ: t})}; var lastend s2.CellID; range _, cID := cu {switch[startLeaf := val0⟨cID⟩] {case cond1⟨lastend⟩: pushLeaf(startLeaf, start) | case cond2⟨lastend; startLeaf⟩: pushLeaf(lastend, end); pushLeaf(startLeaf, start)}; lastend = val1⟨cID⟩}; pushLeaf(lastend, end); return lims" := rfl

theorem tie_cellUnionToIntervalLimits (cu : CellUnion.CU) (idx : Nat) :
    cellUnionToIntervalLimits cu idx =
      if Intersect_cellUnionToIntervalLimits_cond0 cu.toArray then [] else
      let st := cu.foldl (fun (st : List Limit × CellID) cID =>
          let (lims, lastend) := st
          let startLeaf := Intersect_cellUnionToIntervalLimits_val0 cID
          let lims :=
            if Intersect_cellUnionToIntervalLimits_cond1 lastend then ({ leaf := startLeaf, typ := false, indices := [idx] } : Limit) :: lims
            else if Intersect_cellUnionToIntervalLimits_cond2 lastend startLeaf then
              { leaf := startLeaf, typ := false, indices := [idx] } ::
              { leaf := lastend, typ := true, indices := [idx] } :: lims
            else lims
          (lims, Intersect_cellUnionToIntervalLimits_val1 cID)) (([] : List Limit), (0 : CellID))
      (({ leaf := st.2, typ := true, indices := [idx] } : Limit) :: st.1).reverse := by
  cases cu with
  | nil => rfl
  | cons c rest => rfl

theorem tie_collapseLimits_shape : Intersect_collapseLimits_shape =
    "if cond0⟨len(lims)⟩ {return nil}; sort.Slice(lims, func{lI, lJ := lims[i], lims[j]; if cond1⟨lI.leaf; lJ.leaf⟩ {return val0⟨lI.leaf; lJ.leaf⟩}; return val1⟨lI.typ⟩}); out := []*limit{lims[0]}; last := out[0]; range _, l := lims[1:] {if cond2⟨l.leaf; last.leaf; l.typ; last.typ⟩ {last.indices = append(last.indices, l.indices...); continue}; sort.Ints(last.indices); last = l; out = append(out, l)}; return out" := rfl

/-- Go's strict `less`: by leaf, then start before end; the model's (non-strict) key order `limitLE a b` is `!(less b a)` -/
theorem tie_limitLE (a b : Limit) :
    limitLE a b = !(if Intersect_collapseLimits_cond1 b.leaf a.leaf then Intersect_collapseLimits_val0 b.leaf a.leaf
                    else Intersect_collapseLimits_val1 b.typ && !Intersect_collapseLimits_val1 a.typ) := by
  simp only [limitLE, Intersect_collapseLimits_cond1, Intersect_collapseLimits_val0, Intersect_collapseLimits_val1]
  by_cases h : b.leaf = a.leaf
  · cases a.typ <;> cases b.typ <;> simp [h]
  · have h' : a.leaf ≠ b.leaf := fun e => h e.symm
    have hne : a.leaf.toNat ≠ b.leaf.toNat := fun e => h' (UInt64.toNat_inj.mp e)
    simp only [bne_iff_ne, ne_eq, h, not_false_eq_true, if_true, beq_eq_false_iff_ne.mpr h', Bool.false_and, Bool.or_false]
    rw [Bool.eq_iff_iff]
    simp [UInt64.lt_iff_toNat_lt]
    omega

theorem tie_collapseSorted_step (last l : Limit) (rest : List Limit) :
    collapseSorted.go last (l :: rest) =
      if Intersect_collapseLimits_cond2 l.leaf last.leaf l.typ last.typ then
        collapseSorted.go { last with indices := last.indices ++ l.indices } rest
      else { last with indices := sortNats last.indices } :: collapseSorted.go l rest := rfl

theorem tie_intervalOverlaps_shape : Intersect_intervalOverlaps_shape =
    "open := make(map[int]struct{}); openIndices := func{is := make([]int, 0, len(open)); range i := open {is = append(is, i)}; sort.Ints(is); return is}; var lastStart s2.CellID; var overlaps []overlap; range _, l := lims {if cond0⟨len(open)⟩ {endLeaf := l.leaf; if cond1⟨l.typ⟩ {endLeaf = val0⟨endLeaf⟩}; overlaps = append(overlaps, overlap{indices: openIndices(), start: lastStart, end: endLeaf})}; switch l.typ {case start: range _, i := l.indices {open[i] = struct{}{}} | case end: range _, i := l.indices {delete(open, i)}}; if cond2⟨len(open)⟩ {lastStart = l.leaf; if cond3⟨l.typ⟩ {lastStart = val1⟨lastStart⟩}}}; return overlaps" := rfl

theorem tie_intervalOverlaps (lims : List Limit) :
    intervalOverlaps lims =
      (lims.foldl (fun (st : List Nat × CellID × List Overlap) l =>
        let (opn, lastStart, overlaps) := st
        let overlaps :=
          if Intersect_intervalOverlaps_cond0 (opn.length : Int) then
            let endLeaf := if Intersect_intervalOverlaps_cond1 l.typ then Intersect_intervalOverlaps_val0 l.leaf else l.leaf
            { indices := opn, start := lastStart, «end» := endLeaf } :: overlaps
          else overlaps
        let opn :=
          if !l.typ then l.indices.foldl (fun o i => setInsert i o) opn
          else opn.filter (fun i => !l.indices.contains i)
        let lastStart :=
          if Intersect_intervalOverlaps_cond2 (opn.length : Int) then
            (if Intersect_intervalOverlaps_cond3 l.typ then Intersect_intervalOverlaps_val1 l.leaf else l.leaf)
          else lastStart
        (opn, lastStart, overlaps)) (([] : List Nat), (0 : CellID), ([] : List Overlap))).2.2.reverse := by
  have h1 : ∀ n : Nat, ((1 : Int) < (n : Int)) ↔ 1 < n := by intro n; omega
  simp [intervalOverlaps, h1, Intersect_intervalOverlaps_cond0, Intersect_intervalOverlaps_cond1, Intersect_intervalOverlaps_cond2,
    Intersect_intervalOverlaps_cond3, Intersect_intervalOverlaps_val0, Intersect_intervalOverlaps_val1]
  rfl

theorem tie_cellUnionsToOverlaps_shape : Intersect_cellUnionsToOverlaps_shape =
    "var lims []*limit; range i, cu := cus {cu.Normalize(); lims = append(lims, cellUnionToIntervalLimits(cu, i)...)}; if cond0⟨len(lims)⟩ {return nil}; lims = collapseLimits(lims); return intervalOverlaps(lims)" := rfl
theorem tie_overlapsToIntersections_shape : Intersect_overlapsToIntersections_shape =
    "set := make(map[string]*Intersection); range _, o := overlaps {k := indexKey(o.indices); i, ok := set[k]; if cond0⟨ok⟩ {i = &Intersection{Indices: o.indices}; set[k] = i}; i.Intersection = append(i.Intersection, s2.CellUnionFromRange(o.start, val0⟨o.end⟩)...)}; result := make([]Intersection, 0, len(set)); range _, i := set {i.Intersection.Normalize(); result = append(result, *i)}; return result" := rfl
theorem tie_addOverlap_new (o : Overlap) :
    addOverlap o [] = [{ indices := o.indices, cells := CellUnion.fromRange o.start (Intersect_overlapsToIntersections_val0 o.«end») }] := rfl
theorem tie_addOverlap_found (o : Overlap) (i : Intersection) (rest : List Intersection) :
    addOverlap o (i :: rest) =
      if i.indices == o.indices then
        { i with cells := i.cells ++ CellUnion.fromRange o.start (Intersect_overlapsToIntersections_val0 o.«end») } :: rest
      else i :: addOverlap o rest := rfl
theorem tie_Find_shape : Intersect_Find_shape = "return overlapsToIntersections(cellUnionsToOverlaps(cus))" := rfl
theorem tie_find (cus : List CellUnion.CU) : find cus = overlapsToIntersections (cellUnionsToOverlaps cus) := rfl

/-- the three remaining guards: empty limit list (twice) and the map lookup of `overlapsToIntersections` -/
theorem tie_collapseLimits_empty (lims : List Limit) :
    Intersect_collapseLimits_cond0 (lims.length : Int) = lims.isEmpty := by
  cases lims with
  | nil => rfl
  | cons a t => simp [Intersect_collapseLimits_cond0]; omega
theorem tie_cellUnionsToOverlaps_guard (lims : List Limit) :
    Intersect_cellUnionsToOverlaps_cond0 (lims.length : Int) = lims.isEmpty := by
  cases lims with
  | nil => rfl
  | cons a t => simp [Intersect_cellUnionsToOverlaps_cond0]; omega
theorem tie_overlapsToIntersections_lookup (ok : Bool) : Intersect_overlapsToIntersections_cond0 ok = !ok := rfl

end S2Proofs.Ties.C11Index
