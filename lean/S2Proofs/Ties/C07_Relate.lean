/-
  S2Proofs.Ties.C07_Relate — regenerated-instance obligations for the loop / polygon relations:
  s2/shapeutil.go (rangeIterator), s2/loop.go (Contains, Intersects, compareBoundary, ContainsNested,
  containsNonCrossingBoundary, hasCrossingRelation, loopCrosser, the three loopRelations), s2/polygon.go (Contains,
  Intersects and their helpers).

  `S2.Generated.RelateFns.*` is rewritten from the Go source on every run of ./check by translator_c07 (skeleton
  extraction: every condition `F_cond<k>`, every computed value `F_val<k>`, the statement structure `F_shape` with
  the atom texts that feed each definition).  s2.Point is the point type α of the hand model's `Relate.Geo α`
  (`a == b` is `decide (a = b)`); `crossingTarget` is `RelateWalk.Target`, `Crossing` the Int code of
  `Relate.crossingSign` (+1 Cross, 0 MaybeCross, -1 DoNotCross), `Direction` the Int value of `Geo.sg` (constant
  lists and values checked by the translator); the wedge predicates / OrderedCCW are the hand model's functions
  (regenerated in full by translator_c09, Ties/C07_Nesting.lean), CellID.RangeMin/RangeMax/Next/lsb the hand model's
  (translator_c01, Ties/C01.lean).

  Part 1 (model level): the hand models `S2.RelateWalk` (the walk as written; used by op `c07walk` and the
  theorems of Properties/C07_Walk.lean) and `S2.Relate` (the exact oracle of op `rel`) branch on exactly these
  conditions, in the Go nesting, and compute exactly these values: every loop of the Go source is stated as the STEP
  EQUATION of the model's recursion over the regenerated conditions.
  Part 2: the statement skeletons (`shape_*`), the per-definition pins (`pin_*`: a condition the model abstracts
  cannot change unnoticed either) and the counts.
-/
import S2.Relate
import S2.RelateWalk
import S2.Generated.RelateFns
namespace S2Proofs.Ties.C07_Relate
open S2 S2.CellID S2.Relate S2.RelateWalk S2.Generated
set_option linter.unusedSimpArgs false
set_option linter.unusedSectionVars false
set_option linter.unusedVariables false

variable {α : Type} [DecidableEq α] (G : Geo α)

/-! ## Part 1a — s2/shapeutil.go: rangeIterator -/

/-- `refresh`: `r.rangeMin = r.cellID().RangeMin(); r.rangeMax = r.cellID().RangeMax()` -/
theorem tie_refresh (I : Index) (p : Nat) :
    I.rangeMinAt p = RelateFns.rangeIterator_refresh_val0 (I.idAt p) ∧
    I.rangeMaxAt p = RelateFns.rangeIterator_refresh_val1 (I.idAt p) := ⟨rfl, rfl⟩

/-- `seekTo`: `r.it.seek(target.rangeMin); if cond0 { if r.it.Prev() && … { r.it.Next() } }`.
    `Prev()` is false (and does not move) at position 0, otherwise true after moving to `p - 1`;
    `Next()` moves forward by one. -/
theorem tie_seekTo (I : Index) (tMin tMax tID : CellID) :
    I.seekTo tMin tMax tID =
      let p := I.seek tMin
      if RelateFns.rangeIterator_seekTo_cond0 (I.done p) (I.idAt p) tMax then
        if p ≤ 0 then (if RelateFns.rangeIterator_seekTo_cond1 false (I.idAt p) tID then p + 1 else p)
        else if RelateFns.rangeIterator_seekTo_cond1 true (I.idAt (p - 1)) tID then (p - 1) + 1 else p - 1
      else p := by
  show (let p := I.seek tMin
        if I.done p || rangeMin (I.idAt p) > tMax then
          (if p ≤ 0 then p else if rangeMax (I.idAt (p - 1)) < tID then p else p - 1)
        else p) = _
  simp only [RelateFns.rangeIterator_seekTo_cond0, RelateFns.rangeIterator_seekTo_cond1, Bool.false_and, Bool.true_and,
    Bool.false_eq_true, if_false, decide_eq_true_eq, Bool.or_eq_true]
  by_cases h0 : I.seek tMin ≤ 0
  · simp only [h0, if_true]
  · have : I.seek tMin - 1 + 1 = I.seek tMin := by omega
    simp only [h0, this, if_false]

/-- `seekBeyond`: `r.it.seek(target.rangeMax.Next()); if !Done() && CellID().RangeMin() <= target.rangeMax { Next() }` -/
theorem tie_seekBeyond (I : Index) (tMax : CellID) :
    I.seekBeyond tMax =
      let p := I.seek (RelateFns.rangeIterator_seekBeyond_val0 tMax)
      if RelateFns.rangeIterator_seekBeyond_cond0 (I.done p) (I.idAt p) tMax then p + 1 else p := by
  simp only [Index.seekBeyond, RelateFns.rangeIterator_seekBeyond_val0, RelateFns.rangeIterator_seekBeyond_cond0, Index.rangeMinAt]
  rfl

/-! ## Part 1b — s2/loop.go: the relation objects -/

/-- `containsCenterMatches` in full -/
theorem tie_containsCenterMatches : containsCenterMatches = RelateFns.containsCenterMatches_val0 := rfl

/-- the six `aCrossingTarget` / `bCrossingTarget` methods -/
theorem tie_crossingTargets (reverse : Bool) :
    RelKind.aTarget .contains = RelateFns.containsRelation_aCrossingTarget_val0 ∧
    RelKind.bTarget .contains = RelateFns.containsRelation_bCrossingTarget_val0 ∧
    RelKind.aTarget .intersects = RelateFns.intersectsRelation_aCrossingTarget_val0 ∧
    RelKind.bTarget .intersects = RelateFns.intersectsRelation_bCrossingTarget_val0 ∧
    RelKind.aTarget (.compareBoundary reverse) = RelateFns.compareBoundaryRelation_aCrossingTarget_val0 ∧
    RelKind.bTarget (.compareBoundary reverse) = RelateFns.compareBoundaryRelation_bCrossingTarget_val0 :=
  ⟨rfl, rfl, rfl, rfl, rfl, rfl⟩

/-- `containsRelation.wedgesCross`: `c.foundSharedVertex = true; return !WedgeContains(a0, ab1, a2, b0, b2)` -/
theorem tie_wedgesCross_contains (s : RelState) (a0 ab1 a2 b0 b2 : α) :
    wedgesCross G .contains s a0 ab1 a2 b0 b2 =
      ({ s with foundSharedVertex := true }, RelateFns.containsRelation_wedgesCross_val0 G a0 ab1 a2 b0 b2) := rfl

/-- `intersectsRelation.wedgesCross`: `i.foundSharedVertex = true; return WedgeIntersects(a0, ab1, a2, b0, b2)` -/
theorem tie_wedgesCross_intersects (s : RelState) (a0 ab1 a2 b0 b2 : α) :
    wedgesCross G .intersects s a0 ab1 a2 b0 b2 =
      ({ s with foundSharedVertex := true }, RelateFns.intersectsRelation_wedgesCross_val0 G a0 ab1 a2 b0 b2) := rfl

/-- `compareBoundaryRelation.wedgesCross`: set `foundSharedVertex`; `containsEdge` or `excludesEdge` by the semiwedge
    test with `c.reverse`; return `c.containsEdge && c.excludesEdge` (of the UPDATED state) -/
theorem tie_wedgesCross_compareBoundary (reverse : Bool) (s : RelState) (a0 ab1 a2 b0 b2 : α) :
    wedgesCross G (.compareBoundary reverse) s a0 ab1 a2 b0 b2 =
      let s1 := { s with foundSharedVertex := true }
      let s2 := if RelateFns.compareBoundaryRelation_wedgesCross_cond0 G a0 ab1 a2 b2 reverse
                then { s1 with containsEdge := true } else { s1 with excludesEdge := true }
      (s2, RelateFns.compareBoundaryRelation_wedgesCross_val0 s2.containsEdge s2.excludesEdge) := rfl

/-! ## Part 1c — s2/loop.go: loopCrosser -/

/-- one iteration of the loop of `edgeCrossesCell` over `bClipped.edges` (the crosser's own edge is `aj`, `sw` =
    `l.swapped`): `crossing == DoNotCross` → continue; `crossing == Cross` → true; shared end vertex
    `a.Vertex(aj+1) == b.Vertex(bj+1)` → the relation's `wedgesCross` with the argument order of the `swapped` flag.
    (`cond0`, `cond1` — the loop bound and the `RestartAt` bookkeeping of the EdgeCrosser — have no counterpart in
    the model: pins.) -/
theorem tie_edgeCrossesCell_step (k : RelKind) (sw : Bool) (X Y : Loop α) (aj bj : Nat) (rest : List Nat) (s : RelState) :
    edgeCrossesCell G k sw X Y aj (bj :: rest) s =
      let v (i : Int) := i.toNat
      let crossing := crossingSign G (X.vertex G aj) (X.vertex G (v (RelateFns.loopCrosser_startEdge_val0 aj)))
                        (Y.vertex G bj) (Y.vertex G (v (RelateFns.loopCrosser_edgeCrossesCell_val0 bj)))
      if RelateFns.loopCrosser_edgeCrossesCell_cond2 crossing then edgeCrossesCell G k sw X Y aj rest s
      else if RelateFns.loopCrosser_edgeCrossesCell_cond3 crossing then (s, true)
      else if RelateFns.loopCrosser_edgeCrossesCell_cond4 (X.vertex G (v (RelateFns.loopCrosser_edgeCrossesCell_val1 aj)))
                (Y.vertex G (v (RelateFns.loopCrosser_edgeCrossesCell_val2 bj))) then
        if RelateFns.loopCrosser_edgeCrossesCell_cond5 sw then
          let (s, r) := wedgesCross G k s (Y.vertex G bj) (Y.vertex G (v (RelateFns.loopCrosser_edgeCrossesCell_val3 bj)))
                          (Y.vertex G (v (RelateFns.loopCrosser_edgeCrossesCell_val4 bj))) (X.vertex G aj)
                          (X.vertex G (v (RelateFns.loopCrosser_edgeCrossesCell_val5 aj)))
          if RelateFns.loopCrosser_edgeCrossesCell_cond6 r then (s, true) else edgeCrossesCell G k sw X Y aj rest s
        else
          let (s, r) := wedgesCross G k s (X.vertex G aj) (X.vertex G (v (RelateFns.loopCrosser_edgeCrossesCell_val6 aj)))
                          (X.vertex G (v (RelateFns.loopCrosser_edgeCrossesCell_val7 aj))) (Y.vertex G bj)
                          (Y.vertex G (v (RelateFns.loopCrosser_edgeCrossesCell_val8 bj)))
          if RelateFns.loopCrosser_edgeCrossesCell_cond7 r then (s, true) else edgeCrossesCell G k sw X Y aj rest s
      else edgeCrossesCell G k sw X Y aj rest s := by
  have e1 : ∀ n : Nat, ((n : Int) + 1).toNat = n + 1 := by intro n; omega
  have e2 : ∀ n : Nat, ((n : Int) + 2).toNat = n + 2 := by intro n; omega
  simp only [edgeCrossesCell, RelateFns.loopCrosser_startEdge_val0, RelateFns.loopCrosser_edgeCrossesCell_val0,
    RelateFns.loopCrosser_edgeCrossesCell_val1, RelateFns.loopCrosser_edgeCrossesCell_val2,
    RelateFns.loopCrosser_edgeCrossesCell_val3, RelateFns.loopCrosser_edgeCrossesCell_val4,
    RelateFns.loopCrosser_edgeCrossesCell_val5, RelateFns.loopCrosser_edgeCrossesCell_val6,
    RelateFns.loopCrosser_edgeCrossesCell_val7, RelateFns.loopCrosser_edgeCrossesCell_val8,
    RelateFns.loopCrosser_edgeCrossesCell_cond2, RelateFns.loopCrosser_edgeCrossesCell_cond3,
    RelateFns.loopCrosser_edgeCrossesCell_cond4, RelateFns.loopCrosser_edgeCrossesCell_cond5,
    RelateFns.loopCrosser_edgeCrossesCell_cond6, RelateFns.loopCrosser_edgeCrossesCell_cond7, e1, e2, decide_eq_true_eq]
  cases sw <;> rfl

/-- the loop ends with `return false` -/
theorem tie_edgeCrossesCell_nil (k : RelKind) (sw : Bool) (X Y : Loop α) (aj : Nat) (s : RelState) :
    edgeCrossesCell G k sw X Y aj [] s = (s, false) := rfl

/-- `cellCrossesCell`: `for _, edge := range aClipped.edges { l.startEdge(edge); if l.edgeCrossesCell(bClipped) { return true } }; return false` -/
theorem tie_cellCrossesCell_step (k : RelKind) (sw : Bool) (X Y : Loop α) (bEdges : List Nat) (aj : Nat) (rest : List Nat) (s : RelState) :
    cellCrossesCell G k sw X Y bEdges (aj :: rest) s =
      let (s, r) := edgeCrossesCell G k sw X Y aj bEdges s
      if RelateFns.loopCrosser_cellCrossesCell_cond0 r then (s, true) else cellCrossesCell G k sw X Y bEdges rest s := rfl

theorem tie_cellCrossesCell_nil (k : RelKind) (sw : Bool) (X Y : Loop α) (bEdges : List Nat) (s : RelState) :
    cellCrossesCell G k sw X Y bEdges [] s = (s, false) := rfl

/-- the inner loop of `cellCrossesAnySubcell`: `for c := 0; c < len(l.bCells); c++ { if l.edgeCrossesCell(l.bCells[c].shapes[0]) { return true } }` -/
theorem tie_edgeCrossesCells_step (k : RelKind) (sw : Bool) (X Y : Loop α) (IT : Index) (aj c : Nat) (rest : List Nat) (s : RelState) :
    edgeCrossesCells G k sw X Y IT aj (c :: rest) s =
      let (s, r) := edgeCrossesCell G k sw X Y aj (IT.edgesAt c) s
      if RelateFns.loopCrosser_cellCrossesAnySubcell_cond2 r then (s, true) else edgeCrossesCells G k sw X Y IT aj rest s := rfl

/-- `cellCrossesAnySubcell`: per edge `aj` of the cell: `l.bCells = l.bQuery.getCells(..)` (the query's list grows:
    finding F1 of c07walk); `if len(l.bCells) == 0 { continue }`; the inner loop -/
theorem tie_cellCrossesAnySubcell_step (k : RelKind) (sw : Bool) (X Y : Loop α) (IT : Index) (gc : Nat → List Nat)
    (aj : Nat) (rest q : List Nat) (s : RelState) :
    cellCrossesAnySubcell G k sw X Y IT gc (aj :: rest) q s =
      let q := q ++ gc aj
      if RelateFns.loopCrosser_cellCrossesAnySubcell_cond0 q.length then cellCrossesAnySubcell G k sw X Y IT gc rest q s
      else
        let (s, r) := edgeCrossesCells G k sw X Y IT aj q s
        if r then ((s, q), true) else cellCrossesAnySubcell G k sw X Y IT gc rest q s := by
  simp only [cellCrossesAnySubcell, RelateFns.loopCrosser_cellCrossesAnySubcell_cond0]
  cases h : q ++ gc aj <;> simp [h]

/-- the counting loop of `hasCrossing`: `if n := …numEdges(); n > 0 { totalEdges += n; if totalEdges >= edgeQueryMinEdges
    {…use the query…}; l.bCells = append(l.bCells, bi.indexCell()) }; bi.next(); if bi.cellID() > ai.rangeMax { break }`
    (`edgeQueryMinEdges = 20` is inside `cond1`) -/
theorem tie_collect_step (IT : Index) (aMax : CellID) (fuel pb total : Nat) (acc : List Nat) :
    collect IT aMax (fuel + 1) pb total acc =
      let n := IT.numEdgesAt pb
      if RelateFns.loopCrosser_hasCrossing_cond0 n then
        let total := total + n
        if RelateFns.loopCrosser_hasCrossing_cond1 total then (true, acc, pb)
        else
          let acc := acc ++ [pb]
          if RelateFns.loopCrosser_hasCrossing_cond3 (IT.idAt (pb + 1)) aMax then (false, acc, pb + 1)
          else collect IT aMax fuel (pb + 1) total acc
      else
        if RelateFns.loopCrosser_hasCrossing_cond3 (IT.idAt (pb + 1)) aMax then (false, acc, pb + 1)
        else collect IT aMax fuel (pb + 1) total acc := by
  simp only [collect, RelateFns.loopCrosser_hasCrossing_cond0, RelateFns.loopCrosser_hasCrossing_cond1,
    RelateFns.loopCrosser_hasCrossing_cond3, edgeQueryMinEdges, decide_eq_true_eq]
  rfl

/-- `edgeQueryMinEdges` -/
theorem tie_edgeQueryMinEdges (t : Nat) : RelateFns.loopCrosser_hasCrossing_cond1 t = decide (t ≥ edgeQueryMinEdges) := rfl

/-- the direct test of `hasCrossing`: `for _, c := range l.bCells { if l.cellCrossesCell(..) { return true } }` -/
theorem tie_directCells_step {σ : Type} (T : Tests σ) (sw : Bool) (pa pb : Nat) (rest : List Nat) (s : σ) :
    directCells T sw pa (pb :: rest) s =
      let (s, r) := T.cellCell sw pa pb s
      if RelateFns.loopCrosser_hasCrossing_cond4 r then (s, true) else directCells T sw pa rest s := rfl

/-- `hasCrossing` after the counting loop: threshold reached → `cellCrossesAnySubcell`, then `bi.seekBeyond(ai)`;
    otherwise the direct tests -/
theorem tie_hasCrossing {σ : Type} (T : Tests σ) (sw : Bool) (IO IT : Index) (pa pb : Nat) (s : σ) :
    hasCrossing T sw IO IT pa pb s =
      match collect IT (IO.rangeMaxAt pa) (IT.size + 2 - pb) pb 0 [] with
      | (true, _, pb') =>
        let (s, r) := T.subcell sw pa s
        if RelateFns.loopCrosser_hasCrossing_cond2 r then (s, pb', true) else (s, IT.seekBeyond (IO.rangeMaxAt pa), false)
      | (false, cells, pb') =>
        let (s, r) := directCells T sw pa cells s
        (s, pb', r) := rfl

/-- the centre loop of `loopCrosser.hasCrossingRelation`:
    `for bi.cellID() <= ai.rangeMax { if containsCenterMatches(bClipped, l.bCrossingTarget) { return true }; bi.next() }` -/
theorem tie_centerLoop_step {σ : Type} (T : Tests σ) (sw : Bool) (IT : Index) (aMax : CellID) (pa fuel pb : Nat) (s : σ) :
    centerLoop T sw IT aMax pa (fuel + 1) pb s =
      if RelateFns.loopCrosser_hasCrossingRelation_cond3 (IT.idAt pb) aMax then
        let (s, r) := T.centerB sw pa pb s
        if RelateFns.loopCrosser_hasCrossingRelation_cond4 r then (s, pb, true) else centerLoop T sw IT aMax pa fuel (pb + 1) s
      else (s, pb, false) := by
  simp only [centerLoop, RelateFns.loopCrosser_hasCrossingRelation_cond3, RelateFns.loopCrosser_hasCrossingRelation_cond4,
    decide_eq_true_eq]
  rfl

/-- `loopCrosser.hasCrossingRelation`: `aClipped.numEdges() != 0` → `hasCrossing`, `ai.next()`; else
    `!containsCenterMatches(aClipped, l.aCrossingTarget)` → `bi.seekBeyond(ai); ai.next()`; else the centre loop, `ai.next()` -/
theorem tie_crosserStep {σ : Type} (T : Tests σ) (sw : Bool) (IO IT : Index) (pa pb : Nat) (s : σ) :
    crosserStep T sw IO IT pa pb s =
      if RelateFns.loopCrosser_hasCrossingRelation_cond0 (IO.numEdgesAt pa) then
        let (s, pb', r) := hasCrossing T sw IO IT pa pb s
        if RelateFns.loopCrosser_hasCrossingRelation_cond1 r then (s, pa, pb', true) else (s, pa + 1, pb', false)
      else
        let (s, m) := T.centerA sw pa s
        if RelateFns.loopCrosser_hasCrossingRelation_cond2 m then (s, pa + 1, IT.seekBeyond (IO.rangeMaxAt pa), false)
        else
          let (s, pb', r) := centerLoop T sw IT (IO.rangeMaxAt pa) pa (IT.size + 2 - pb) pb s
          if r then (s, pa, pb', true) else (s, pa + 1, pb', false) := rfl

/-- `newLoopCrosser` (`if swapped { l.aCrossingTarget, l.bCrossingTarget = l.bCrossingTarget, l.aCrossingTarget }`) and the
    three centre tests: the crosser `ba` (`swapped`) tests ITS OWN cell (a cell of B) against `relation.bCrossingTarget()`
    and the other cell against `relation.aCrossingTarget()` -/
theorem tie_realTests_centers (k : RelKind) (A B : Loop α) (IA IB : Index) (gcAB gcBA : Nat → Nat → List Nat)
    (sw : Bool) (pa pb : Nat) (s : WState) :
    let T := realTests G k A B IA IB gcAB gcBA
    let aT := if RelateFns.newLoopCrosser_cond0 sw then k.bTarget else k.aTarget   -- l.aCrossingTarget
    let bT := if RelateFns.newLoopCrosser_cond0 sw then k.aTarget else k.bTarget   -- l.bCrossingTarget
    T.centerA sw pa s = (s, RelateFns.containsCenterMatches_val0 ((if sw then IB else IA).ccAt pa) aT) ∧
    T.centerB sw pa pb s = (s, RelateFns.containsCenterMatches_val0 ((if sw then IA else IB).ccAt pb) bT) ∧
    T.sameCenter pa pb s = (s, RelateFns.hasCrossingRelation_cond7
        (RelateFns.containsCenterMatches_val0 (IA.ccAt pa) k.aTarget)
        (RelateFns.containsCenterMatches_val0 (IB.ccAt pb) k.bTarget)) := by
  cases sw <;> exact ⟨rfl, rfl, rfl⟩

/-! ## Part 1d — s2/loop.go: hasCrossingRelation (the merge loop) -/

/-- one iteration of `for !ai.done() || !bi.done() { … }` -/
theorem tie_mainLoop_step {σ : Type} (T : Tests σ) (IA IB : Index) (fuel pa pb : Nat) (s : σ) :
    mainLoop T IA IB (fuel + 1) pa pb s =
      if !RelateFns.hasCrossingRelation_cond0 (IA.done pa) (IB.done pb) then some (s, false)
      else if RelateFns.hasCrossingRelation_cond1 (IA.rangeMaxAt pa) (IB.rangeMinAt pb) then
        mainLoop T IA IB fuel (IA.seekTo (IB.rangeMinAt pb) (IB.rangeMaxAt pb) (IB.idAt pb)) pb s
      else if RelateFns.hasCrossingRelation_cond2 (IB.rangeMaxAt pb) (IA.rangeMinAt pa) then
        mainLoop T IA IB fuel pa (IB.seekTo (IA.rangeMinAt pa) (IA.rangeMaxAt pa) (IA.idAt pa)) s
      else
        let abRelation := RelateFns.hasCrossingRelation_val0 (IA.idAt pa) (IB.idAt pb)
        if RelateFns.hasCrossingRelation_cond3 abRelation then
          let (s, pa', pb', r) := crosserStep T false IA IB pa pb s
          if RelateFns.hasCrossingRelation_cond4 r then some (s, true) else mainLoop T IA IB fuel pa' pb' s
        else if RelateFns.hasCrossingRelation_cond5 abRelation then
          let (s, pb', pa', r) := crosserStep T true IB IA pb pa s
          if RelateFns.hasCrossingRelation_cond6 r then some (s, true) else mainLoop T IA IB fuel pa' pb' s
        else
          let (s1, r1) := T.sameCenter pa pb s
          if r1 then some (s1, true)
          else
            -- `aClipped.numEdges() > 0 && bClipped.numEdges() > 0 && ab.cellCrossesCell(..)`: short-circuit
            let g := decide (IA.numEdgesAt pa > 0) && decide (IB.numEdgesAt pb > 0)
            let (s2, r2) := if g then T.cellCell false pa pb s1 else (s1, false)
            if RelateFns.hasCrossingRelation_cond8 (IA.numEdgesAt pa) (IB.numEdgesAt pb) r2 then some (s2, true)
            else mainLoop T IA IB fuel (pa + 1) (pb + 1) s2 := by
  have c8 : ∀ (a b : Nat) (r : Bool), RelateFns.hasCrossingRelation_cond8 a b r = ((decide (a > 0) && decide (b > 0)) && r) := by
    intro a b r
    simp only [RelateFns.hasCrossingRelation_cond8]
    congr 2 <;> (rw [Bool.eq_iff_iff]; simp only [decide_eq_true_eq]; omega)
  rw [mainLoop]
  simp only [c8]
  by_cases h0 : (!(!IA.done pa || !IB.done pb)) = true
  · have h0' : (!RelateFns.hasCrossingRelation_cond0 (IA.done pa) (IB.done pb)) = true := h0
    rw [if_pos h0, if_pos h0']
  have h0' : ¬ (!RelateFns.hasCrossingRelation_cond0 (IA.done pa) (IB.done pb)) = true := h0
  rw [if_neg h0, if_neg h0']
  by_cases h1 : IA.rangeMaxAt pa < IB.rangeMinAt pb
  · have h1' : RelateFns.hasCrossingRelation_cond1 (IA.rangeMaxAt pa) (IB.rangeMinAt pb) = true := decide_eq_true h1
    rw [if_pos h1, if_pos h1']
  have h1' : ¬ RelateFns.hasCrossingRelation_cond1 (IA.rangeMaxAt pa) (IB.rangeMinAt pb) = true := by
    simpa [RelateFns.hasCrossingRelation_cond1] using h1
  rw [if_neg h1, if_neg h1']
  by_cases h2 : IB.rangeMaxAt pb < IA.rangeMinAt pa
  · have h2' : RelateFns.hasCrossingRelation_cond2 (IB.rangeMaxAt pb) (IA.rangeMinAt pa) = true := decide_eq_true h2
    rw [if_pos h2, if_pos h2']
  have h2' : ¬ RelateFns.hasCrossingRelation_cond2 (IB.rangeMaxAt pb) (IA.rangeMinAt pa) = true := by
    simpa [RelateFns.hasCrossingRelation_cond2] using h2
  rw [if_neg h2, if_neg h2']
  show (let abRelation : Int := int64OfWord (lsb (IA.idAt pa) - lsb (IB.idAt pb)); _) = _
  simp only [RelateFns.hasCrossingRelation_val0, RelateFns.hasCrossingRelation_cond3, RelateFns.hasCrossingRelation_cond4,
    RelateFns.hasCrossingRelation_cond5, RelateFns.hasCrossingRelation_cond6]
  by_cases h3 : int64OfWord (lsb (IA.idAt pa) - lsb (IB.idAt pb)) > 0
  · simp only [h3, decide_true, if_true]; rfl
  simp only [h3, decide_false, if_false, Bool.false_eq_true]
  by_cases h4 : int64OfWord (lsb (IA.idAt pa) - lsb (IB.idAt pb)) < 0
  · simp only [h4, decide_true, if_true]; rfl
  simp only [h4, decide_false, if_false, Bool.false_eq_true]
  by_cases h5 : (T.sameCenter pa pb s).snd = true
  · simp only [h5, if_true]
  simp only [h5, if_false, Bool.false_eq_true]
  by_cases hg : (decide (IA.numEdgesAt pa > 0) && decide (IB.numEdgesAt pb > 0)) = true
  · simp only [hg, Bool.true_and, if_true]
  · simp only [hg, Bool.false_and, Bool.false_eq_true, if_false]

/-- the loop ends (`return false`) when both iterators are done; the walk starts both iterators at position 0
    (`newRangeIterator`) -/
theorem tie_walk {σ : Type} (T : Tests σ) (IA IB : Index) (s : σ) :
    walk T IA IB s = mainLoop T IA IB (IA.size + IB.size + 1) 0 0 s := rfl

/-! ## Part 1e — s2/loop.go: Contains, Intersects, compareBoundary around the walk -/

/-- `Loop.Contains` -/
theorem tie_containsFrom (R : Rects) (A B : Loop α) (w : Option (Bool × RelState)) :
    containsFrom G R A B w =
      if RelateFns.Loop_Contains_cond0 R.aSubContainsB then some false
      else if RelateFns.Loop_Contains_cond1 A.isEmptyOrFull B.isEmptyOrFull then some (RelateFns.Loop_Contains_val0 A.isFull B.isEmpty)
      else w.map fun (crossed, rel) =>
        if RelateFns.Loop_Contains_cond2 crossed then false
        else if RelateFns.Loop_Contains_cond3 rel.foundSharedVertex then true
        else if RelateFns.Loop_Contains_cond4 (A.containsPoint G (B.vertex G 0)) then false
        else if RelateFns.Loop_Contains_cond5 R.bSubContainsA R.unionFull (B.containsPoint G (A.vertex G 0)) then false
        else true := rfl

/-- `Loop.Intersects` (the nested `if cond3 { if cond4 { return true } }` is the model's `&&`) -/
theorem tie_intersectsFrom (R : Rects) (A B : Loop α) (w : Option (Bool × RelState)) :
    intersectsFrom G R A B w =
      if RelateFns.Loop_Intersects_cond0 R.boundsIntersect then some false
      else w.map fun (crossed, rel) =>
        if RelateFns.Loop_Intersects_cond1 crossed then true
        else if RelateFns.Loop_Intersects_cond2 rel.foundSharedVertex then false
        else if RelateFns.Loop_Intersects_cond3 R.aSubContainsB R.unionFull && RelateFns.Loop_Intersects_cond4 (A.containsPoint G (B.vertex G 0)) then true
        else if RelateFns.Loop_Intersects_cond5 R.bSubContainsA && RelateFns.Loop_Intersects_cond6 (B.containsPoint G (A.vertex G 0)) then true
        else false := rfl

/-- `Loop.compareBoundary` -/
theorem tie_compareBoundaryFrom (R : Rects) (A B : Loop α) (w : Option (Bool × RelState)) :
    compareBoundaryFrom G R A B w =
      if RelateFns.Loop_compareBoundary_cond0 R.boundsIntersect then some (-1)
      else if RelateFns.Loop_compareBoundary_cond1 A.isFull then some 1
      else if RelateFns.Loop_compareBoundary_cond2 B.isFull then some (-1)
      else w.map fun (crossed, rel) =>
        if RelateFns.Loop_compareBoundary_cond3 crossed then 0
        else if RelateFns.Loop_compareBoundary_cond4 rel.foundSharedVertex then
          (if RelateFns.Loop_compareBoundary_cond5 rel.containsEdge then 1 else -1)
        else if RelateFns.Loop_compareBoundary_cond6 (A.containsPoint G (B.vertex G 0)) then 1 else -1 := rfl

/-! ## Part 1f — s2/loop.go: the exact oracle's loop functions (`S2.Relate`) -/

/-- Bool equation between an `Int` test on casts and the `Nat` test of the hand model -/
macro "cast_dec" : tactic => `(tactic| (intros; rw [Bool.eq_iff_iff]; simp only [decide_eq_true_eq, beq_iff_eq, bne_iff_ne, ne_eq, Bool.and_eq_true, Bool.or_eq_true]; omega))

/-- `Loop.Vertex`, `isEmptyOrFull`, `IsEmpty`, `IsFull` (`ContainsOrigin()` is the field `originInside`) -/
theorem tie_loop_accessors (L : Loop α) (i : Nat) :
    L.vertex G i = L.vs.getD (RelateFns.Loop_Vertex_val0 i L.vs.size) G.origin ∧
    L.isEmptyOrFull = RelateFns.Loop_isEmptyOrFull_val0 L.vs.size ∧
    L.isEmpty = RelateFns.Loop_IsEmpty_val0 L.isEmptyOrFull L.originInside ∧
    L.isFull = RelateFns.Loop_IsFull_val0 L.isEmptyOrFull L.originInside := ⟨rfl, rfl, rfl, rfl⟩

/-- `findVertex`: the test of both search paths is `l.Vertex(i) == p` (brute force below 10 vertices: `cond2` for
    `i = 1 .. len`; otherwise the index cell of `p`: `cond5` / `cond7`; the index path is not modelled: pins) -/
theorem tie_findVertex (L : Loop α) (p : α) :
    L.findVertex G p = ((List.range L.vs.size).map (· + 1)).find? (fun i => RelateFns.Loop_findVertex_cond2 (L.vertex G i) p) := rfl

/-- the loop bound of the brute-force path: `for i := 1; i <= len(l.vertices); i++` -/
theorem tie_findVertex_range (n i : Nat) :
    (i ∈ (List.range n).map (· + 1)) ↔ (1 ≤ i ∧ RelateFns.Loop_findVertex_cond1 i n = true) := by
  simp only [RelateFns.Loop_findVertex_cond1, List.mem_map, List.mem_range, decide_eq_true_eq]
  constructor
  · rintro ⟨a, h, rfl⟩; omega
  · rintro ⟨h1, h2⟩; exact ⟨i - 1, by omega, by omega⟩

/-- `ContainsNested` after the (unmodelled) bound test `cond0`: the special cases, `findVertex(other.Vertex(1))`,
    `ContainsPoint(other.Vertex(1))` if it is not shared, else `WedgeContains(l.Vertex(m-1), l.Vertex(m), l.Vertex(m+1),
    other.Vertex(0), other.Vertex(2))` -/
theorem tie_containsNested (A B : Loop α) :
    containsNested G A B =
      if RelateFns.Loop_ContainsNested_cond1 A.isEmptyOrFull B.vs.size then RelateFns.Loop_ContainsNested_val0 A.isFull B.isEmpty
      else match A.findVertex G (B.vertex G 1) with
        | none => A.containsPoint G (B.vertex G 1)     -- `if !ok` (cond2)
        | some m => RelateFns.Loop_ContainsNested_val3 G (A.vertex G (RelateFns.Loop_ContainsNested_val1 m).toNat) (A.vertex G m)
                      (A.vertex G (RelateFns.Loop_ContainsNested_val2 m).toNat) (B.vertex G 0) (B.vertex G 2) := by
  have e0 : decide ((B.vs.size : Int) < 2) = decide (B.vs.size < 2) := by cast_dec
  have e1 : ∀ m : Nat, ((m : Int) - 1).toNat = m - 1 := by intro m; omega
  have e2 : ∀ m : Nat, ((m : Int) + 1).toNat = m + 1 := by intro m; omega
  simp only [containsNested, RelateFns.Loop_ContainsNested_cond1, RelateFns.Loop_ContainsNested_val0,
    RelateFns.Loop_ContainsNested_val1, RelateFns.Loop_ContainsNested_val2, RelateFns.Loop_ContainsNested_val3, e0, e1, e2]
  rfl

/-- `if !ok { return l.ContainsPoint(..) }` -/
theorem tie_notOk (ok : Bool) : RelateFns.Loop_ContainsNested_cond2 ok = !ok ∧ RelateFns.Loop_containsNonCrossingBoundary_cond3 ok = !ok :=
  ⟨rfl, rfl⟩

/-- `containsNonCrossingBoundary` after the bound test (`cond0`; the model: a bound of an empty loop intersects nothing):
    full loops, `findVertex(other.Vertex(0))`, then `wedgeContainsSemiwedge(l.Vertex(m-1), l.Vertex(m), l.Vertex(m+1),
    other.Vertex(1), reverseOther)` -/
theorem tie_containsNonCrossingBoundary (A B : Loop α) (reverse : Bool) :
    containsNonCrossingBoundary G A B reverse =
      if A.isEmpty || B.isEmpty then false
      else if RelateFns.Loop_containsNonCrossingBoundary_cond1 A.isFull then true
      else if RelateFns.Loop_containsNonCrossingBoundary_cond2 B.isFull then false
      else match A.findVertex G (B.vertex G 0) with
        | none => A.containsPoint G (B.vertex G 0)
        | some m => RelateFns.Loop_containsNonCrossingBoundary_val2 G
                      (A.vertex G (RelateFns.Loop_containsNonCrossingBoundary_val0 m).toNat) (A.vertex G m)
                      (A.vertex G (RelateFns.Loop_containsNonCrossingBoundary_val1 m).toNat) (B.vertex G 1) reverse := by
  have e1 : ∀ m : Nat, ((m : Int) - 1).toNat = m - 1 := by intro m; omega
  have e2 : ∀ m : Nat, ((m : Int) + 1).toNat = m + 1 := by intro m; omega
  simp only [containsNonCrossingBoundary, RelateFns.Loop_containsNonCrossingBoundary_cond1,
    RelateFns.Loop_containsNonCrossingBoundary_cond2, RelateFns.Loop_containsNonCrossingBoundary_val0,
    RelateFns.Loop_containsNonCrossingBoundary_val1, RelateFns.Loop_containsNonCrossingBoundary_val2, e1, e2]
  rfl

/-- the exact oracle's `Loop.Contains` / `Intersects` / `compareBoundary` decide like the Go functions after the
    crossing pass: same special cases, same order (`Loop_Contains_cond1/val0`, `Loop_compareBoundary_cond1/cond2`);
    the rectangle tests are the model's empty-loop tests -/
theorem tie_exact_specials (s : Scan) (A B : Loop α) :
    (RelateFns.Loop_Contains_cond1 A.isEmptyOrFull B.isEmptyOrFull = true →
      containsWith G s A B = RelateFns.Loop_Contains_val0 A.isFull B.isEmpty) ∧
    ((A.isEmpty || B.isEmpty) = false → RelateFns.Loop_compareBoundary_cond1 A.isFull = true → compareBoundaryWith G s A B = 1) ∧
    ((A.isEmpty || B.isEmpty) = false → RelateFns.Loop_compareBoundary_cond1 A.isFull = false →
      RelateFns.Loop_compareBoundary_cond2 B.isFull = true → compareBoundaryWith G s A B = -1) := by
  refine ⟨?_, ?_, ?_⟩
  · intro h; simp only [RelateFns.Loop_Contains_cond1] at h; simp only [containsWith, h, if_true]; rfl
  · intro h0 h1; simp only [RelateFns.Loop_compareBoundary_cond1] at h1; simp only [compareBoundaryWith, h0, h1, if_true, Bool.false_eq_true, if_false]
  · intro h0 h1 h2
    simp only [RelateFns.Loop_compareBoundary_cond1, RelateFns.Loop_compareBoundary_cond2] at h1 h2
    simp only [compareBoundaryWith, h0, h1, h2, if_true, Bool.false_eq_true, if_false]

/-! ## Part 1g — s2/polygon.go: the exact oracle's polygon functions (`S2.Relate.Polygon`) -/

/-- `Polygon.IsEmpty`, `IsFull` -/
theorem tie_polygon_isEmpty_isFull (P : Polygon α) :
    P.isEmpty = RelateFns.Polygon_IsEmpty_val0 P.loops.length ∧
    P.isFull = RelateFns.Polygon_IsFull_val0 P.loops.length ((P.loops.head?.map (·.isFull)).getD false) := by
  cases P with
  | mk loops =>
    match loops with
    | [] => exact ⟨rfl, rfl⟩
    | [l] => refine ⟨rfl, ?_⟩; simp [Polygon.isFull, RelateFns.Polygon_IsFull_val0]
    | a :: b :: r => refine ⟨rfl, ?_⟩; simp [Polygon.isFull, RelateFns.Polygon_IsFull_val0]

/-- `Polygon.compareBoundary`: `result := -1; for i := 0; i < len(p.loops) && result != 0; i++ { result *= -p.loops[i].compareBoundary(o) }`
    (inside the range `cond0` is `result != 0`; once `result == 0` it stays 0) -/
theorem tie_polygon_compareBoundary (P : Polygon α) (o : Loop α) :
    P.compareBoundary G o =
      P.loops.foldl (fun r l => if RelateFns.Polygon_compareBoundary_cond0 0 1 r
                                then r * RelateFns.Polygon_compareBoundary_val0 (Relate.compareBoundary G l o) else r) (-1) := by
  simp only [Polygon.compareBoundary, RelateFns.Polygon_compareBoundary_cond0, RelateFns.Polygon_compareBoundary_val0]
  congr 1
  funext r l
  by_cases h : r = 0 <;> simp [h]

/-- out of range the loop of `compareBoundary` stops -/
theorem tie_polygon_compareBoundary_stop (n : Nat) (r : Int) : RelateFns.Polygon_compareBoundary_cond0 n n r = false := by
  simp [RelateFns.Polygon_compareBoundary_cond0]

/-- `containsBoundary` (`<= 0` → false), `excludesBoundary` (`>= 0` → false) -/
theorem tie_polygon_boundary (P Q : Polygon α) :
    P.containsBoundary G Q = Q.loops.all (fun l => !RelateFns.Polygon_containsBoundary_cond0 (P.compareBoundary G l)) ∧
    P.excludesBoundary G Q = Q.loops.all (fun l => !RelateFns.Polygon_excludesBoundary_cond0 (P.compareBoundary G l)) := by
  constructor
  · simp only [Polygon.containsBoundary, RelateFns.Polygon_containsBoundary_cond0]
    congr 1; funext l; rw [Bool.eq_iff_iff]; simp only [decide_eq_true_eq, Bool.not_eq_true', decide_eq_false_iff_not]; omega
  · simp only [Polygon.excludesBoundary, RelateFns.Polygon_excludesBoundary_cond0]
    congr 1; funext l; rw [Bool.eq_iff_iff]; simp only [decide_eq_true_eq, Bool.not_eq_true', decide_eq_false_iff_not]; omega

/-- `Polygon.containsNonCrossingBoundary`: `inside = (inside != x)` over the loops, from `false` -/
theorem tie_polygon_containsNonCrossingBoundary (P : Polygon α) (o : Loop α) (reverse : Bool) :
    P.containsNonCrossingBoundary G o reverse =
      P.loops.foldl (fun ins l => RelateFns.Polygon_containsNonCrossingBoundary_val0 ins (Relate.containsNonCrossingBoundary G l o reverse)) false := rfl

/-- `excludesNonCrossingShells`: `if l.IsHole() { continue }; if p.containsNonCrossingBoundary(l, false) { return false }` -/
theorem tie_polygon_excludesNonCrossingShells (P Q : Polygon α) :
    P.excludesNonCrossingShells G Q =
      Q.loops.all fun l => RelateFns.Polygon_excludesNonCrossingShells_cond0 l.isHole ||
                             !RelateFns.Polygon_excludesNonCrossingShells_cond1 (P.containsNonCrossingBoundary G l false) := rfl

/-- `excludesNonCrossingComplementShells`: empty / full special cases; `if j > 0 && !l.IsHole() { continue }`;
    `if p.containsNonCrossingBoundary(l, j == 0) { return false }` -/
theorem tie_polygon_excludesNonCrossingComplementShells (P Q : Polygon α) :
    P.excludesNonCrossingComplementShells G Q =
      if RelateFns.Polygon_excludesNonCrossingComplementShells_cond0 Q.isEmpty then RelateFns.Polygon_excludesNonCrossingComplementShells_val0 P.isFull
      else if RelateFns.Polygon_excludesNonCrossingComplementShells_cond1 Q.isFull then true
      else (List.zip (List.range Q.loops.length) Q.loops).all fun (j, l) =>
        RelateFns.Polygon_excludesNonCrossingComplementShells_cond2 j l.isHole ||
          !RelateFns.Polygon_excludesNonCrossingComplementShells_cond3
            (P.containsNonCrossingBoundary G l (RelateFns.Polygon_excludesNonCrossingComplementShells_val1 j)) := rfl

/-- `anyLoopContains`, `anyLoopIntersects` -/
theorem tie_polygon_anyLoop (P : Polygon α) (o : Loop α) :
    P.anyLoopContains G o = P.loops.any (fun l => RelateFns.Polygon_anyLoopContains_cond0 (Relate.contains G l o)) ∧
    P.anyLoopIntersects G o = P.loops.any (fun l => RelateFns.Polygon_anyLoopIntersects_cond0 (Relate.intersects G l o)) := ⟨rfl, rfl⟩

/-- the single-loop shortcut `len(p.loops) == 1 && len(o.loops) == 1` is the model's `match [a], [b]` -/
theorem tie_polygon_single (P Q : Polygon α) :
    (RelateFns.Polygon_Contains_cond0 P.loops.length Q.loops.length = true ↔ ∃ a b, P.loops = [a] ∧ Q.loops = [b]) ∧
    RelateFns.Polygon_Intersects_cond0 P.loops.length Q.loops.length = RelateFns.Polygon_Contains_cond0 P.loops.length Q.loops.length := by
  refine ⟨?_, rfl⟩
  simp only [RelateFns.Polygon_Contains_cond0, Bool.and_eq_true, beq_iff_eq, List.length_eq_one_iff]
  constructor
  · rintro ⟨⟨a, ha⟩, ⟨b, hb⟩⟩; exact ⟨a, b, ha, hb⟩
  · rintro ⟨a, b, ha, hb⟩; exact ⟨⟨a, ha⟩, ⟨b, hb⟩⟩

/-- `Polygon.Contains` (the bound rejections `cond1`, `cond2` are shortcuts the exact model does not have: pins) -/
theorem tie_polygon_contains (P Q : Polygon α) :
    P.contains G Q =
      match P.loops, Q.loops with
      | [a], [b] => Relate.contains G a b
      | _, _ =>
        if RelateFns.Polygon_Contains_cond3 P.hasHoles Q.hasHoles then Q.loops.all fun l => !RelateFns.Polygon_Contains_cond4 (P.anyLoopContains G l)
        else RelateFns.Polygon_Contains_val0 (P.containsBoundary G Q) (Q.excludesNonCrossingComplementShells G P) := by
  simp only [Polygon.contains, RelateFns.Polygon_Contains_cond3, RelateFns.Polygon_Contains_cond4, RelateFns.Polygon_Contains_val0,
    Bool.not_not]
  rfl

/-- `Polygon.Intersects` (`!p.bound.Intersects(o.bound)` is the model's empty test) -/
theorem tie_polygon_intersects (P Q : Polygon α) :
    P.intersects G Q =
      match P.loops, Q.loops with
      | [a], [b] => Relate.intersects G a b
      | _, _ =>
        if P.isEmpty || Q.isEmpty then false
        else if RelateFns.Polygon_Intersects_cond2 P.hasHoles Q.hasHoles then Q.loops.any fun l => RelateFns.Polygon_Intersects_cond3 (P.anyLoopIntersects G l)
        else RelateFns.Polygon_Intersects_val0 (P.excludesBoundary G Q) (Q.excludesNonCrossingShells G P) := rfl

end S2Proofs.Ties.C07_Relate
