/-
  S2Proofs.Ties.C05 — regenerated-instance obligations for s2/regioncoverer.go (+ maxInt / minInt of s2/util.go).

  `S2.Generated.CovererFns.*` is rewritten from the Go source on every run by translator_c19.  The coverer works on
  pointer receivers, a heap and slices grown by `append`, so it is translated BY SKELETON: every `if`/`for`
  condition (`F_cond<k>`), every computed integer / boolean value (`F_val<k>`) and the remaining statement
  structure (`F_shape`); `maxInt`, `minInt`, `adjustLevel` are translated in full.  Go `int` is Lean `Int`.

  The theorems say that the hand model `S2.Coverer` branches on exactly these conditions, in the Go nesting, and
  computes exactly these values (option clamping of `newCoverer`, `adjustLevel`, the level / terminal tests of
  `newCandidate`, the tests and the priority of `addCandidate`, the loop tests of `coveringInternal`, every branch
  of `normalizeCovering` incl. the options of the re-cover branch, `isCanonical`, the `>=` / `>` of
  `replaceCellsWithAncestor`, `priorityQueue.Less`).  The hand model uses `Nat` for levels: the proofs are the
  casts.  A flipped comparison, a changed constant, `||` ↔ `&&`, a dropped or reordered test changes a
  `cond`/`val` definition or a shape string and the corresponding theorem fails.
-/
import S2.Coverer
import S2.Generated.CovererFns
namespace S2Proofs.Ties.C05
open S2 S2.Coverer S2.Generated S2.CellID S2.CellUnion
set_option linter.unusedSimpArgs false

/-- Bool equation between an `Int` test on casts and the `Nat` test of the hand model -/
macro "cast_dec" : tactic => `(tactic| (intros; rw [Bool.eq_iff_iff]; simp only [decide_eq_true_eq, beq_iff_eq, bne_iff_ne, ne_eq]; omega))

theorem maxInt_eq (x y : Int) : CovererFns.maxInt x [y] = max x y := by
  simp only [CovererFns.maxInt, List.foldl, decide_eq_true_eq]
  omega

theorem minInt_eq (x y : Int) : CovererFns.minInt x [y] = min x y := by
  simp only [CovererFns.minInt, List.foldl, decide_eq_true_eq]
  omega

theorem tie_MaxLevel : (CellID.maxLevel : Int) = CovererFns.MaxLevel := rfl

theorem tie_newCoverer (o : Options) :
    newCoverer o = ⟨(CovererFns.newCoverer_val0 o.minLevel).toNat, (CovererFns.newCoverer_val1 o.maxLevel).toNat,
      (CovererFns.newCoverer_val2 o.levelMod).toNat, o.maxCells⟩ := by
  simp only [newCoverer, clamp, CovererFns.newCoverer_val0, CovererFns.newCoverer_val1, CovererFns.newCoverer_val2,
    maxInt_eq, minInt_eq]
  rfl

theorem tie_adjustLevel (cfg : Config) (lvl : Nat) :
    (adjustLevel cfg lvl : Int) = CovererFns.adjustLevel lvl cfg.levelMod cfg.minLevel := by
  simp only [adjustLevel, CovererFns.adjustLevel]
  by_cases h1 : cfg.levelMod > 1 <;> by_cases h2 : lvl > cfg.minLevel <;> simp [h1, h2]
  · have : ((lvl : Int) - cfg.minLevel) = ((lvl - cfg.minLevel : Nat) : Int) := by omega
    rw [this, ← Int.ofNat_tmod]
    have := Nat.mod_le (lvl - cfg.minLevel) cfg.levelMod
    omega
  all_goals omega

theorem tie_newCandidate (cfg : Config) (interior : Bool) (R : Region) (id : CellID) :
    newCandidate cfg interior R id =
      if CovererFns.newCandidate_cond0 (R.intersectsCell id) then none
      else if CovererFns.newCandidate_cond1 (level id) cfg.minLevel then
        if CovererFns.newCandidate_cond2 interior then
          if CovererFns.newCandidate_cond3 (R.containsCell id) then some ⟨id, true⟩
          else if CovererFns.newCandidate_cond4 (level id) cfg.levelMod cfg.maxLevel then none
          else some ⟨id, false⟩
        else if CovererFns.newCandidate_cond5 (level id) cfg.levelMod cfg.maxLevel (R.containsCell id) then some ⟨id, true⟩
        else some ⟨id, false⟩
      else some ⟨id, false⟩ := by
  have e1 : ((level id : Int) ≥ cfg.minLevel) ↔ (level id ≥ cfg.minLevel) := by omega
  have e2 : (((level id : Int) + cfg.levelMod) > cfg.maxLevel) ↔ (level id + cfg.levelMod > cfg.maxLevel) := by omega
  simp only [newCandidate, CovererFns.newCandidate_cond0, CovererFns.newCandidate_cond1, CovererFns.newCandidate_cond2,
    CovererFns.newCandidate_cond3, CovererFns.newCandidate_cond4, CovererFns.newCandidate_cond5, e1, e2,
    decide_eq_true_eq, Bool.or_eq_true]

theorem tie_addCandidate {Q : Type} (ops : PQOps Q) (cfg : Config) (interior : Bool) (R : Region) (st : St Q) (ch : Child) :
    addCandidate ops cfg interior R st ch =
      if CovererFns.addCandidate_cond1 ch.terminal then { st with result := ch.id :: st.result } else
      let lvl := level ch.id
      let numLevels := if CovererFns.addCandidate_cond2 lvl cfg.minLevel then 1 else cfg.levelMod
      let children := expandChildren cfg interior R numLevels ch.id
      let nT := numTerminals children
      let maxChildrenShift := CovererFns.addCandidate_val0 cfg.levelMod
      if CovererFns.addCandidate_cond3 children.length then st
      else if CovererFns.addCandidate_cond4 interior nT maxChildrenShift lvl cfg.minLevel then
        { st with result := ch.id :: st.result }
      else
        { st with pq := ops.push st.pq ⟨ch.id, children.length, children,
            CovererFns.addCandidate_val1 lvl maxChildrenShift children.length nT⟩ } := by
  have e1 : ((level ch.id : Int) < cfg.minLevel) ↔ (level ch.id < cfg.minLevel) := by omega
  have e2 : ((level ch.id : Int) ≥ cfg.minLevel) ↔ (level ch.id ≥ cfg.minLevel) := by omega
  have e3 : ∀ n : Nat, ((n : Int) == 0) = decide (n = 0) := by intro n; cases n <;> rfl
  simp only [addCandidate, CovererFns.addCandidate_cond1, CovererFns.addCandidate_cond2, CovererFns.addCandidate_cond3,
    CovererFns.addCandidate_cond4, CovererFns.addCandidate_val0, CovererFns.addCandidate_val1, e1, e2, e3, priorityOf,
    decide_eq_true_eq]
  have hs : (2 * (cfg.levelMod : Int)).toNat = 2 * cfg.levelMod := by omega
  have h4 : ∀ a s : Nat, ((a : Int) == 1 * 2 ^ s) = (a == 1 <<< s) := by
    intro a s
    rw [Nat.shiftLeft_eq, Nat.one_mul, Int.one_mul, Bool.eq_iff_iff, beq_iff_eq, beq_iff_eq]
    norm_cast
  have h5 : ∀ l n t s : Nat, Int.neg (((l <<< s + n) <<< s + t : Nat) : Int) = -(((l : Int) * 2 ^ s + n) * 2 ^ s + t) := by
    intro l n t s
    rw [Nat.shiftLeft_eq, Nat.shiftLeft_eq]
    push_cast
    rfl
  simp only [hs, h4, h5]


theorem tie_coverLoop_step (ops : PQOps Q) (cfg : Config) (interior : Bool) (R : Region) (fuel : Nat) (st : St Q) :
    coverLoop ops cfg interior R (fuel + 1) st =
      if CovererFns.coveringInternal_cond0 (ops.size st.pq) interior st.result.length cfg.maxCells then
        match ops.pop? st.pq with
        | none => st
        | some (cand, q) =>
          let st : St Q := { st with pq := q }
          if CovererFns.coveringInternal_cond1 interior (level cand.id) cfg.minLevel cand.numChildren
              st.result.length (ops.size q) cfg.maxCells then
            coverLoop ops cfg interior R fuel
              (cand.children.foldl (fun st ch =>
                if CovererFns.coveringInternal_cond2 interior st.result.length cfg.maxCells then
                  addCandidate ops cfg interior R st ch else st) st)
          else
            coverLoop ops cfg interior R fuel { st with result := cand.id :: st.result }
      else st := by
  have e1 : ∀ n : Nat, decide ((n : Int) > 0) = decide (n > 0) := by cast_dec
  have e2 : ∀ a b : Nat, decide ((a : Int) < b) = decide (a < b) := by cast_dec
  have e3 : ∀ n : Nat, ((n : Int) == 1) = (n == 1) := by cast_dec
  have e4 : ∀ a b c : Nat, ((a : Int) + b + c) = ((a + b + c : Nat) : Int) := by intro a b c; omega
  simp only [coverLoop, CovererFns.coveringInternal_cond0, CovererFns.coveringInternal_cond1,
    CovererFns.coveringInternal_cond2, e1, e2, e3, e4]
  rfl

theorem tie_coveringInternal (ops : PQOps Q) (cfg : Config) (interior : Bool) (R : Region) (start : CU) :
    coveringInternal ops cfg interior R start =
      let r := normalize (rawResult ops cfg interior R start)
      if CovererFns.coveringInternal_cond3 cfg.minLevel cfg.levelMod then denormalize r cfg.minLevel cfg.levelMod else r := by
  have e1 : ∀ n : Nat, decide ((n : Int) > 0) = decide (n > 0) := by cast_dec
  have e2 : ∀ n : Nat, decide ((n : Int) > 1) = decide (n > 1) := by cast_dec
  simp only [coveringInternal, CovererFns.coveringInternal_cond3, e1, e2, Bool.or_eq_true, decide_eq_true_eq]

theorem tie_heap_less (a : Array Cand) (i j : Nat) :
    Heap.less a i j = CovererFns.priorityQueue_Less_val0 a[i]!.priority a[j]!.priority := rfl

theorem tie_tempOptions (cfg : Config) :
    tempOptions cfg = ⟨0, cfg.maxLevel, 1, CovererFns.initialCandidates_val0 cfg.maxCells⟩ := by
  simp only [tempOptions, CovererFns.initialCandidates_val0, CovererFns.minInt, List.foldl, decide_eq_true_eq]
  congr 1
  omega


theorem tie_clampLevels (cfg : Config) (cov : CU) :
    clampLevels cfg cov =
      if CovererFns.normalizeCovering_cond0 cfg.maxLevel cfg.levelMod then
        cov.map fun ci =>
          let lvl := level ci
          let nl := (CovererFns.normalizeCovering_val0 lvl cfg.maxLevel cfg.levelMod cfg.minLevel).toNat
          if CovererFns.normalizeCovering_cond1 nl lvl then parent ci nl else ci
      else cov := by
  have e1 : ∀ n : Nat, decide ((n : Int) < 30) = decide (n < CellID.maxLevel) := by
    intro n; show _ = decide (n < 30); cast_dec
  have e2 : ∀ n : Nat, decide ((n : Int) > 1) = decide (n > 1) := by cast_dec
  have e3 : ∀ a b : Nat, ((a : Int) != b) = (a != b) := by cast_dec
  have e4 : ∀ a b : Nat, min (a : Int) b = ((min a b : Nat) : Int) := by intros; omega
  simp only [clampLevels, CovererFns.normalizeCovering_cond0, CovererFns.normalizeCovering_val0,
    CovererFns.normalizeCovering_cond1, minInt_eq, e1, e2, e3, e4, ← tie_adjustLevel, Int.toNat_natCast,
    Bool.or_eq_true, decide_eq_true_eq]

theorem tie_preNormalize (cfg : Config) (cov : CU) :
    preNormalize cfg cov =
      let cov := normalize (clampLevels cfg cov)
      if CovererFns.normalizeCovering_cond2 cfg.minLevel cfg.levelMod then denormalize cov cfg.minLevel cfg.levelMod
      else cov := by
  have e1 : ∀ n : Nat, decide ((n : Int) > 0) = decide (n > 0) := by cast_dec
  have e2 : ∀ n : Nat, decide ((n : Int) > 1) = decide (n > 1) := by cast_dec
  simp only [preNormalize, CovererFns.normalizeCovering_cond2, e1, e2, Bool.or_eq_true, decide_eq_true_eq]

theorem tie_normalizeCovering (cfg : Config) (recover : CU → CU) (cov : CU) :
    normalizeCovering cfg recover cov =
      let cov := preNormalize cfg cov
      let excess := CovererFns.normalizeCovering_val1 cov.length cfg.maxCells
      if CovererFns.normalizeCovering_cond3 excess (isCanonical cfg cov) then cov
      else if CovererFns.normalizeCovering_cond4 excess cov.length then recover cov
      else mergeLoop cfg cov.length cov := by
  simp only [normalizeCovering, CovererFns.normalizeCovering_val1, CovererFns.normalizeCovering_cond3,
    CovererFns.normalizeCovering_cond4]
  generalize preNormalize cfg cov = c
  by_cases h1 : ((c.length : Int) - cfg.maxCells ≤ 0) <;> by_cases h2 : isCanonical cfg c = true <;> simp [h1, h2]

theorem tie_mergeLoop_step (cfg : Config) (fuel : Nat) (cov : CU) :
    mergeLoop cfg (fuel + 1) cov =
      if CovererFns.normalizeCovering_cond5 cov.length cfg.maxCells then
        let (bestIndex, bestLevel) := bestPair cfg cov
        if CovererFns.normalizeCovering_cond9 bestLevel cfg.minLevel then cov
        else
          let id := parent (cov.toArray[bestIndex.toNat]!) bestLevel.toNat
          let cov := replaceCellsWithAncestor cov id
          mergeLoop cfg fuel (mergeUp cfg 31 cov id bestLevel)
      else cov := by
  simp only [mergeLoop, CovererFns.normalizeCovering_cond5, CovererFns.normalizeCovering_cond9, decide_eq_true_eq]

theorem tie_mergeUp_step (cfg : Config) (fuel : Nat) (cov : CU) (id : CellID) (bestLevel : Int) :
    mergeUp cfg (fuel + 1) cov id bestLevel =
      if CovererFns.normalizeCovering_cond10 bestLevel cfg.minLevel then
        let bestLevel := bestLevel - cfg.levelMod
        let id := parent id bestLevel.toNat
        if CovererFns.normalizeCovering_cond11 (containsAllChildren cfg cov id) then cov
        else mergeUp cfg fuel (replaceCellsWithAncestor cov id) id bestLevel
      else cov := by
  simp only [mergeUp, CovererFns.normalizeCovering_cond10, CovererFns.normalizeCovering_cond11, decide_eq_true_eq]
  rfl

theorem tie_bestPair (cfg : Config) (cov : CU) :
    bestPair cfg cov =
      let a := cov.toArray
      (List.range (a.size - 1)).foldl (fun (best : Int × Int) i =>
        match commonAncestorLevel a[i]! a[i+1]! with
        | none => best
        | some lev =>
          let lev := CovererFns.normalizeCovering_val2 lev cfg.levelMod cfg.minLevel
          if CovererFns.normalizeCovering_cond8 lev best.2 then ((i : Int), lev) else best) (-1, -1) := by
  simp only [bestPair, CovererFns.normalizeCovering_val2, CovererFns.normalizeCovering_cond8, ← tie_adjustLevel,
    decide_eq_true_eq]
  rfl

theorem tie_bestPair_range (n : Nat) (i : Nat) :
    (i ∈ List.range (n - 1)) ↔ CovererFns.normalizeCovering_cond6 i n = true := by
  simp only [CovererFns.normalizeCovering_cond6, List.mem_range, decide_eq_true_eq]
  omega


theorem tie_trueMax (cfg : Config) :
    trueMax cfg = if CovererFns.isCanonical_cond0 cfg.levelMod then
      CovererFns.isCanonical_val0 cfg.maxLevel cfg.minLevel cfg.levelMod else cfg.maxLevel := by
  have e1 : ∀ n : Nat, ((n : Int) != 1) = (n != 1) := by cast_dec
  simp only [trueMax, CovererFns.isCanonical_cond0, CovererFns.isCanonical_val0, e1]

theorem tie_isCanonical (cfg : Config) (cov : CU) :
    isCanonical cfg cov =
      (cov.foldl (canonStep cfg (CovererFns.isCanonical_val1 cov.length cfg.maxCells)) (some (0, 1))).isSome := by
  simp only [isCanonical, CovererFns.isCanonical_val1]

theorem tie_isCanonical_pLevel (lvl m : Int) : CovererFns.isCanonical_val2 lvl m = lvl - m := rfl

theorem tie_canonStep (cfg : Config) (tooMany : Bool) (prevID : CellID) (cnt : Nat) (id : CellID) :
    canonStep cfg tooMany (some (prevID, cnt)) id =
      if CovererFns.isCanonical_cond1 (isValid id) then none else
      let lvl := level id
      if CovererFns.isCanonical_cond2 lvl cfg.minLevel (trueMax cfg) then none
      else if CovererFns.isCanonical_cond3 cfg.levelMod lvl cfg.minLevel then none
      else if CovererFns.isCanonical_cond4 prevID then
        if CovererFns.isCanonical_cond5 (rangeMax prevID) (rangeMin id) then none
        else
          let ca := commonAncestorLevel id prevID
          if CovererFns.isCanonical_cond6 tooMany ca.isSome (ca.getD 0) cfg.minLevel then none
          else
            let pLevel : Int := (lvl : Int) - cfg.levelMod  -- = isCanonical_val2, see tie_isCanonical_pLevel
            if CovererFns.isCanonical_cond7 pLevel cfg.minLevel lvl (level prevID)
                (parent id pLevel.toNat) (parent prevID pLevel.toNat) then some (id, 1)
            else if CovererFns.isCanonical_cond8 (cnt + 1 : Nat) cfg.levelMod then none
            else some (id, cnt + 1)
      else some (id, cnt) := by
  have hs : (2 * (cfg.levelMod : Int)).toNat = 2 * cfg.levelMod := by omega
  have h4 : ∀ a s : Nat, ((a : Int) == 1 * 2 ^ s) = (a == 1 <<< s) := by
    intro a s
    rw [Nat.shiftLeft_eq, Nat.one_mul, Int.one_mul, Bool.eq_iff_iff, beq_iff_eq, beq_iff_eq]
    norm_cast
  have hp : ((level id : Int) - cfg.levelMod).toNat = level id - cfg.levelMod := by omega
  have e7 : decide (((level id : Int) - cfg.levelMod) < cfg.minLevel) = decide (level id < cfg.minLevel + cfg.levelMod) := by cast_dec
  have e7b : (((level id : Nat) : Int) != ((level prevID : Nat) : Int)) = (level id != level prevID) := by cast_dec
  have e1 : decide ((level id : Int) < cfg.minLevel) = decide (level id < cfg.minLevel) := by cast_dec
  have e2 : ∀ n : Nat, decide ((n : Int) > 1) = decide (n > 1) := by cast_dec
  simp only [canonStep, CovererFns.isCanonical_cond1, CovererFns.isCanonical_cond2, CovererFns.isCanonical_cond3,
    CovererFns.isCanonical_cond4, CovererFns.isCanonical_cond5, CovererFns.isCanonical_cond6, CovererFns.isCanonical_cond7,
    CovererFns.isCanonical_cond8, CovererFns.isCanonical_val2, hs, h4, hp, e7, e7b, e2]
  cases isValid id
  case false => rfl
  simp only [Bool.not_true, Bool.false_eq_true, if_false]
  by_cases hl : level id < cfg.minLevel
  · have : ((level id : Int) < cfg.minLevel) := by omega
    simp [hl, this]
  · have hl' : ¬ ((level id : Int) < cfg.minLevel) := by omega
    have e3 : (Int.tmod ((level id : Int) - cfg.minLevel) cfg.levelMod != 0) = ((level id - cfg.minLevel) % cfg.levelMod != 0) := by
      have : ((level id : Int) - cfg.minLevel) = ((level id - cfg.minLevel : Nat) : Int) := by omega
      rw [this, ← Int.ofNat_tmod]
      cast_dec
    simp only [e3]
    cases commonAncestorLevel id prevID <;> simp

theorem tie_replaceCellsWithAncestor (cov : CU) (id : CellID) :
    replaceCellsWithAncestor cov id =
      let a := cov.toArray
      let b := sortSearch a.size (fun i => CovererFns.replaceCellsWithAncestor_val0 a[i]! (rangeMin id))
      let e := sortSearch a.size (fun i => CovererFns.replaceCellsWithAncestor_val1 a[i]! (rangeMax id))
      let a' := if b < a.size then a.set! b id else a
      cov.take b ++ id :: (a'.toList.drop e) := rfl

/-- `pos := sort.Search(len(covering), func(i int) bool { return covering[i] >= id.RangeMin() })`, `level := id.Level() + c.levelMod` -/
theorem tie_containsAllChildren_search (cfg : Config) (cov : CU) (id : CellID) :
    containsAllChildren cfg cov id =
      let a := cov.toArray
      let pos := sortSearch a.size (fun i => CovererFns.containsAllChildren_val0 a[i]! (rangeMin id))
      let kids := childrenAtLevel id (CovererFns.containsAllChildren_val1 (level id) cfg.levelMod).toNat
      (List.range kids.length).all fun k => pos + k < a.size && a[pos + k]! == kids[k]! := by
  have : (CovererFns.containsAllChildren_val1 (level id) cfg.levelMod).toNat = level id + cfg.levelMod := by
    simp only [CovererFns.containsAllChildren_val1]; omega
  simp only [this]
  rfl

/-- the loop test `pos == len(covering) || covering[pos] != child` (returns false) is the negation of the hand
    model's `pos + k < size && a[pos+k] == kid` under the loop invariant `pos ≤ len` (pos starts as a
    `sort.Search` result and is incremented only after `pos != len`) -/
theorem tie_containsAllChildren_cond1 (pos size : Nat) (x y : CellID) (h : pos ≤ size) :
    (decide (pos < size) && x == y) = !CovererFns.containsAllChildren_cond1 pos size x y := by
  simp only [CovererFns.containsAllChildren_cond1]
  by_cases h1 : pos < size
  · have : ((pos : Int) == (size : Int)) = false := by
      rw [beq_eq_false_iff_ne]; omega
    simp [h1, this, bne]
  · have : ((pos : Int) == (size : Int)) = true := by rw [beq_iff_eq]; omega
    simp [h1, this]

/-- the `RegionCoverer` literal of the re-cover branch (its text is in `tie_normalizeCovering_shape`):
    `&RegionCoverer{MinLevel: c.minLevel, MaxLevel: c.MaxLevel, LevelMod: c.levelMod, MaxCells: c.maxCells}`;
    the hand model's `optionsOf` fills the four fields of `RegionCoverer_fields` in this order -/
theorem tie_optionsOf (cfg : Config) :
    optionsOf cfg = { minLevel := cfg.minLevel, maxLevel := cfg.maxLevel, levelMod := cfg.levelMod, maxCells := cfg.maxCells } := rfl

/-! ### statement structure of every translated function (what is left of the Go text after the conditions
    `cond<k>` and computed values `val<k>` have been taken out), and the struct layouts -/
theorem tie_newCoverer_shape : CovererFns.newCoverer_shape =
    "return &coverer{minLevel: val0, MaxLevel: val1, levelMod: val2, maxCells: rc.MaxCells}" := rfl
theorem tie_newCandidate_shape : CovererFns.newCandidate_shape =
    "if cond0 {return nil}; cand := &candidate{cell: cell}; level := int(cell.level); if cond1 {if cond2 {if cond3 {cand.terminal = true} else if cond4 {return nil}} else if cond5 {cand.terminal = true}}; return cand" := rfl
theorem tie_expandChildren_shape : CovererFns.expandChildren_shape =
    "numLevels--; var numTerminals int; last := cell.id.ChildEnd(); for[ci := cell.id.ChildBegin()] cond0 [ci = ci.Next()] {childCell := CellFromCellID(ci); if cond1 {if cond2 {numTerminals += c.expandChildren(cand, childCell, numLevels)}; continue}; if[child := c.newCandidate(childCell)] cond3 {cand.children = append(cand.children, child); cand.numChildren++; if cond4 {numTerminals++}}}; return numTerminals" := rfl
theorem tie_addCandidate_shape : CovererFns.addCandidate_shape =
    "if cond0 {return}; if cond1 {c.result = append(c.result, cand.cell.id); return}; numLevels := c.levelMod; level := int(cand.cell.level); if cond2 {numLevels = 1}; numTerminals := c.expandChildren(cand, cand.cell, numLevels); maxChildrenShift := val0; if cond3 {return} else if cond4 {cand.terminal = true; c.addCandidate(cand)} else {cand.priority = val1; heap.Push(&c.pq, cand)}" := rfl
theorem tie_adjustCellLevels_shape : CovererFns.adjustCellLevels_shape =
    "if cond0 {return}; var out int; range _, ci := *cells {level := ci.Level(); newLevel := val0; if cond1 {ci = ci.Parent(newLevel)}; if cond2 {continue}; for cond3 {out--}; (*cells)[out] = ci; out++}; *cells = (*cells)[:out]" := rfl
theorem tie_initialCandidates_shape : CovererFns.initialCandidates_shape =
    "temp := &RegionCoverer{MaxLevel: c.MaxLevel, LevelMod: 1, MaxCells: val0}; cells := temp.FastCovering(c.region); c.adjustCellLevels(&cells); range _, ci := cells {c.addCandidate(c.newCandidate(CellFromCellID(ci)))}" := rfl
theorem tie_coveringInternal_shape : CovererFns.coveringInternal_shape =
    "c.region = region; c.initialCandidates(); for cond0 {cand := heap.Pop(&c.pq).(*candidate); if cond1 {range _, child := cand.children {if cond2 {c.addCandidate(child)}}} else {cand.terminal = true; c.addCandidate(cand)}}; c.pq.Reset(); c.region = nil; c.result.Normalize(); if cond3 {c.result.Denormalize(c.minLevel, c.levelMod)}" := rfl
theorem tie_Covering_shape : CovererFns.Covering_shape =
    "covering := rc.CellUnion(region); covering.Denormalize(val0, val1); return covering" := rfl
theorem tie_InteriorCovering_shape : CovererFns.InteriorCovering_shape =
    "intCovering := rc.InteriorCellUnion(region); intCovering.Denormalize(val0, val1); return intCovering" := rfl
theorem tie_CellUnion_shape : CovererFns.CellUnion_shape =
    "c := rc.newCoverer(); c.coveringInternal(region); cu := c.result; cu.Normalize(); return cu" := rfl
theorem tie_InteriorCellUnion_shape : CovererFns.InteriorCellUnion_shape =
    "c := rc.newCoverer(); c.interiorCovering = true; c.coveringInternal(region); cu := c.result; cu.Normalize(); return cu" := rfl
theorem tie_FastCovering_shape : CovererFns.FastCovering_shape =
    "c := rc.newCoverer(); cu := CellUnion(region.CellUnionBound()); c.normalizeCovering(&cu); return cu" := rfl
theorem tie_IsCanonical_shape : CovererFns.IsCanonical_shape =
    "return rc.newCoverer().isCanonical(covering)" := rfl
theorem tie_normalizeCovering_shape : CovererFns.normalizeCovering_shape =
    "if cond0 {range i, ci := *covering {level := ci.Level(); newLevel := val0; if cond1 {(*covering)[i] = ci.Parent(newLevel)}}}; covering.Normalize(); if cond2 {covering.Denormalize(c.minLevel, c.levelMod)}; excess := val1; if cond3 {return}; if cond4 {rc := &RegionCoverer{MinLevel: c.minLevel, MaxLevel: c.MaxLevel, LevelMod: c.levelMod, MaxCells: c.maxCells}; (*covering) = rc.Covering(covering); return}; for cond5 {bestIndex := -1; bestLevel := -1; for[i := 0] cond6 [i++] {level, ok := (*covering)[i].CommonAncestorLevel((*covering)[i+1]); if cond7 {continue}; level = val2; if cond8 {bestLevel = level; bestIndex = i}}; if cond9 {break}; id := (*covering)[bestIndex].Parent(bestLevel); (*covering) = c.replaceCellsWithAncestor(*covering, id); for cond10 {bestLevel -= c.levelMod; id = id.Parent(bestLevel); if cond11 {break}; (*covering) = c.replaceCellsWithAncestor(*covering, id)}}" := rfl
theorem tie_isCanonical_shape : CovererFns.isCanonical_shape =
    "trueMax := c.MaxLevel; if cond0 {trueMax = val0}; tooManyCells := val1; sameParentCount := 1; prevID := CellID(0); range _, id := covering {if cond1 {return false}; level := id.Level(); if cond2 {return false}; if cond3 {return false}; if cond4 {if cond5 {return false}; lev, ok := id.CommonAncestorLevel(prevID); if cond6 {return false}; pLevel := val2; if cond7 {sameParentCount = 1} else {sameParentCount++; if cond8 {return false}}}; prevID = id}; return true" := rfl
theorem tie_containsAllChildren_shape : CovererFns.containsAllChildren_shape =
    "pos := sort.Search(len(covering), func{return val0}); level := val1; for[child := id.ChildBeginAtLevel(level)] cond0 [child = child.Next()] {if cond1 {return false}; pos++}; return true" := rfl
theorem tie_replaceCellsWithAncestor_shape : CovererFns.replaceCellsWithAncestor_shape =
    "begin := sort.Search(len(covering), func{return val0}); end := sort.Search(len(covering), func{return val1}); return append(append(covering[:begin], id), covering[end:]...)" := rfl
theorem tie_priorityQueue_Less_shape : CovererFns.priorityQueue_Less_shape =
    "return val0" := rfl
theorem tie_RegionCoverer_fields : CovererFns.RegionCoverer_fields =
    "MinLevel int; MaxLevel int; LevelMod int; MaxCells int" := rfl
theorem tie_coverer_fields : CovererFns.coverer_fields =
    "minLevel int; MaxLevel int; levelMod int; maxCells int; region s2.Region; result s2.CellUnion; pq s2.priorityQueue; interiorCovering bool" := rfl
/-- number of extracted conditions / values per function -/
theorem tie_counts :
    [(CovererFns.newCoverer_numConds, CovererFns.newCoverer_numVals), (CovererFns.newCandidate_numConds, CovererFns.newCandidate_numVals), (CovererFns.expandChildren_numConds, CovererFns.expandChildren_numVals), (CovererFns.addCandidate_numConds, CovererFns.addCandidate_numVals), (CovererFns.adjustCellLevels_numConds, CovererFns.adjustCellLevels_numVals), (CovererFns.initialCandidates_numConds, CovererFns.initialCandidates_numVals), (CovererFns.coveringInternal_numConds, CovererFns.coveringInternal_numVals), (CovererFns.Covering_numConds, CovererFns.Covering_numVals), (CovererFns.InteriorCovering_numConds, CovererFns.InteriorCovering_numVals), (CovererFns.CellUnion_numConds, CovererFns.CellUnion_numVals), (CovererFns.InteriorCellUnion_numConds, CovererFns.InteriorCellUnion_numVals), (CovererFns.FastCovering_numConds, CovererFns.FastCovering_numVals), (CovererFns.IsCanonical_numConds, CovererFns.IsCanonical_numVals), (CovererFns.normalizeCovering_numConds, CovererFns.normalizeCovering_numVals), (CovererFns.isCanonical_numConds, CovererFns.isCanonical_numVals), (CovererFns.containsAllChildren_numConds, CovererFns.containsAllChildren_numVals), (CovererFns.replaceCellsWithAncestor_numConds, CovererFns.replaceCellsWithAncestor_numVals), (CovererFns.priorityQueue_Less_numConds, CovererFns.priorityQueue_Less_numVals)] =
    [(0, 3), (6, 0), (5, 0), (5, 2), (4, 1), (0, 1), (4, 0), (0, 2), (0, 2), (0, 0), (0, 0), (0, 0), (0, 0), (12, 3), (9, 3), (2, 2), (0, 2), (0, 1)] := rfl

end S2Proofs.Ties.C05
