/-
  S2Proofs.Ties.C08_Query — regenerated-instance obligations for s2/edge_query.go, s2/min_distance_targets.go,
  s2/max_distance_targets.go (+ the s1.ChordAngle arithmetic they call).

  `S2.Generated.QueryFns.*` and `S2.Generated.DistTargetFns.*` are rewritten from the Go source on every run by
  translator_c08.  The query works on a mutable object (slices, a map, a priority queue, an iterator), so it is
  translated BY SKELETON: every `if`/`for` condition (`F_cond<k>`), every computed value (`F_val<k>`) and the remaining
  statement structure (`F_shape`); `EdgeQueryResult.Less`, `ChordAngle.Add`, `ChordAngle.Sub` are translated in full.
  The Go `distance` interface is the `DistI D` of the hand model: `x.less(y)` is `I.less x y`, `x.sub(y)` is
  `I.sub x y`, `T.zero()` / `T.infinity()` are `I.zero` / `I.infinity`.

  The theorems say that the hand model `S2.EdgeQueryM` (which the C08 theorems and the oracle op `c08eq` / `c08cover`
  use) branches on exactly these conditions, in the Go nesting, and computes exactly these values; and that the
  oracle's float instances `Oracle.C08.fMin` / `fMax` are the regenerated `minDistance` / `maxDistance` methods.
  A flipped comparison, a changed constant, `||` ↔ `&&`, a dropped or reordered test, a changed call target changes a
  `cond`/`val` definition or a shape string and the corresponding theorem fails.
-/
import S2.EdgeQueryM
import Oracle.C08
import S2.Generated.QueryFns
import S2.Generated.DistTargetFns
namespace S2Proofs.Ties.C08_Query
open S2 S2.EdgeQueryM S2.Locate S2.CellID S2.Generated
set_option linter.unusedSimpArgs false
set_option linter.unusedSectionVars false

variable {D : Type} [DecidableEq D]

/-- Bool equation between an `Int` test on casts and the `Nat` test of the hand model -/
macro "cast_dec" : tactic => `(tactic| (intros; rw [Bool.eq_iff_iff]; simp only [decide_eq_true_eq, beq_iff_eq, bne_iff_ne, ne_eq, Bool.and_eq_true, Bool.or_eq_true]; omega))

/-! ### (a) results: `Less`, `sortAndUniqueResults`, the tail of `findEdges`, `findEdge` -/

/-- `EdgeQueryResult.Less` (full translation) -/
theorem tie_Less (I : DistI D) (a b : Result D) : Result.less I a b = QueryFns.Less I a b := by
  simp only [Result.less, QueryFns.Less, bne_iff_ne, ne_eq, ite_not]

/-- … and its skeleton: the three tests and three results of `Less`, in order -/
theorem tie_Less_skeleton (I : DistI D) (a b : Result D) :
    Result.less I a b =
      if QueryFns.EdgeQueryResult_Less_cond0 a.dist b.dist then QueryFns.EdgeQueryResult_Less_val0 I a.dist b.dist
      else if QueryFns.EdgeQueryResult_Less_cond1 a.shape b.shape then QueryFns.EdgeQueryResult_Less_val1 a.shape b.shape
      else QueryFns.EdgeQueryResult_Less_val2 a.edge b.edge := by
  rw [tie_Less]; rfl

/-- the de-duplication loop: `if results[j] == results[i] { continue }; j++; results[j] = results[i]` -/
theorem tie_uniqLoop (last x : Result D) (xs : List (Result D)) :
    uniqLoop last (x :: xs) =
      if QueryFns.sortAndUniqueResults_cond2 last x then uniqLoop last xs else x :: uniqLoop x xs := by
  simp only [uniqLoop, QueryFns.sortAndUniqueResults_cond2, beq_iff_eq]

/-- `sortAndUniqueResults`: the `len(results) <= 1` shortcut, then sort by `Less`, then the loop -/
theorem tie_sortAndUniqueResults (I : DistI D) (rs : List (Result D)) :
    sortAndUniqueResults I rs =
      if QueryFns.sortAndUniqueResults_cond0 rs.length then rs else uniqAdj (sortBy (QueryFns.Less I) rs) := by
  have : Result.less I = QueryFns.Less I := by funext a b; exact tie_Less I a b
  have e : decide ((rs.length : Int) ≤ 1) = decide (rs.length ≤ 1) := by cast_dec
  simp only [sortAndUniqueResults, QueryFns.sortAndUniqueResults_cond0, this, e, decide_eq_true_eq]

/-- the tail of `findEdges`: `if len(e.results) > opts.maxResults { e.results = e.results[:opts.maxResults] }` -/
theorem tie_postProcess (I : DistI D) (k : Nat) (rs : List (Result D)) :
    postProcess I k rs =
      let rs := sortAndUniqueResults I rs
      if QueryFns.findEdges_cond0 rs.length k then rs.take k else rs := by
  have e : ∀ a b : Nat, decide ((a : Int) > b) = decide (a > b) := by cast_dec
  simp only [postProcess, QueryFns.findEdges_cond0, e, decide_eq_true_eq]

/-- `findEdge`: `MaxResults(1)`; `if len(e.results) > 0 { return e.results[0] }; return newEdgeQueryResult(target)`
    with `newEdgeQueryResult = {target.distance().infinity(), -1, -1}` -/
theorem tie_findEdge (I : DistI D) (o : Opts D) (w : World D) :
    findEdge I o w = (findEdges I { o with maxResults := 1 } w).map fun rs =>
      if QueryFns.findEdge_cond0 rs.length then rs.getD 0 ⟨QueryFns.newEdgeQueryResult_val0 I, -1, -1⟩
      else ⟨QueryFns.newEdgeQueryResult_val0 I, -1, -1⟩ := by
  simp only [findEdge]
  congr 1
  funext rs
  cases rs with
  | nil => rfl
  | cons r rest =>
    have : QueryFns.findEdge_cond0 ((r :: rest).length : Nat) = true := by
      simp only [QueryFns.findEdge_cond0, List.length_cons, decide_eq_true_eq]; omega
    simp only [this, if_true, List.getD_cons_zero]

/-- `IsEmpty` (`shapeID < 0`), which `isDistanceLess` negates -/
theorem tie_IsEmpty (r : Result D) : decide (r.shape ≥ 0) = !QueryFns.EdgeQueryResult_IsEmpty_val0 r.shape := by
  simp only [QueryFns.EdgeQueryResult_IsEmpty_val0]
  by_cases h : r.shape ≥ 0 <;> simp [h] <;> omega

/-! ### (c) the search: `addResult`, `maybeAddResult`, `processOrEnqueue`, `findEdgesOptimized`, `initQueue`,
    `findEdgesInternal` -/

theorem nat_eq_one (n : Nat) : ((n : Int) == 1) = (n == 1) := by cast_dec

/-- `addResult`: append, then `if e.opts.maxResults == 1 { e.distanceLimit = r.distance.sub(maxError) }` -/
theorem tie_addResult (I : DistI D) (o : Opts D) (s : St D) (r : Result D) :
    addResult I o s r =
      let s := { s with results := s.results ++ [r] }
      if QueryFns.addResult_cond0 o.maxResults then { s with limit := QueryFns.addResult_val0 I r.dist o.maxError } else s := by
  simp only [addResult, QueryFns.addResult_cond0, QueryFns.addResult_val0, nat_eq_one]

/-- `maybeAddResult` as repaired (D9): `if e.avoidDuplicates { if tested { return }; insert }`, then
    `if dist, ok := updateDistanceToEdge(edge, e.distanceLimit); ok { e.addResult({dist, shapeID, edgeID}) }`.
    `cond1` / `cond2` are the `ok` results of the map lookup and of `updateDistanceToEdge`. -/
theorem tie_maybeAddResult (I : DistI D) (o : Opts D) (w : World D) (avoid : Bool) (s : St D) (e : EdgeKey)
    (h : o.invertedFilter = false) :
    maybeAddResult I o w avoid s e =
      let upd (s : St D) : St D :=
        match w.updEdge e s.limit with
        | some d => if QueryFns.maybeAddResult_cond2 true then addResult I o s ⟨d, e.shape, e.edge⟩ else s
        | none => if QueryFns.maybeAddResult_cond2 false then s else s
      if QueryFns.maybeAddResult_cond0 avoid then
        if QueryFns.maybeAddResult_cond1 (s.tested.contains e) then s
        else upd { s with tested := e :: s.tested }
      else upd s := by
  simp only [maybeAddResult, h, QueryFns.maybeAddResult_cond0, QueryFns.maybeAddResult_cond1, QueryFns.maybeAddResult_cond2]
  cases avoid <;> cases s.tested.contains e <;> simp <;> (cases w.updEdge e s.limit <;> rfl)

/-- the unrepaired filter (defect D9, `invertedFilter = true`) is NOT what the regenerated code does: it differs
    from the tie above exactly in the negated lookup and the missing insert (kept in the model for the
    seeded-defect matrix; the tie is to the repaired branch) -/
theorem tie_maybeAddResult_D9_differs :
    ∃ (o : Opts Int) (w : World Int) (s : St Int) (e : EdgeKey),
      (maybeAddResult (minDist 4) { o with invertedFilter := true } w true s e).tested ≠
      (maybeAddResult (minDist 4) { o with invertedFilter := false } w true s e).tested := by
  refine ⟨⟨5, 4, 0, false, false, false, false⟩, ⟨fun _ _ => some 1, [], [], true, false, none, fun _ => []⟩,
    ⟨4, [], [], []⟩, ⟨0, 0⟩, ?_⟩
  decide

/-- `processOrEnqueue`: `indexCell != nil` is the constructor `.index`; `numEdges == 0`, `numEdges < minEdgesToEnqueue`
    (= 10, the constant is inside `cond2`); `!ok` of `updateDistanceToCell`; the conservative adjustment -/
theorem tie_processOrEnqueue (I : DistI D) (o : Opts D) (w : World D) (avoid cons : Bool) (s : St D) (c : Cell D) :
    processOrEnqueue I o w avoid cons s c =
      let enqueue (s : St D) : St D :=
        match c.cd s.limit with
        | none => s
        | some x =>
          let d := if QueryFns.processOrEnqueue_cond4 cons then QueryFns.processOrEnqueue_val1 I x o.maxError else x
          { s with queue := s.queue ++ [(d, c)] }
      match c with
      | .index _ edges =>
        if QueryFns.processOrEnqueue_cond1 edges.length then s
        else if QueryFns.processOrEnqueue_cond2 edges.length then processEdges I o w avoid s edges
        else enqueue s
      | .node _ _ => enqueue s := by
  have e1 : ∀ n : Nat, ((n : Int) == 0) = (n == 0) := by cast_dec
  have e2 : ∀ n : Nat, decide ((n : Int) < 10) = decide (n < 10) := by cast_dec
  cases c <;>
    simp only [processOrEnqueue, QueryFns.processOrEnqueue_cond1, QueryFns.processOrEnqueue_cond2,
      QueryFns.processOrEnqueue_cond4, QueryFns.processOrEnqueue_val1, e1, e2, decide_eq_true_eq] <;> try rfl

/-- `e.queue.size() > 0` is `popMin ≠ none` -/
theorem tie_queue_nonempty (I : DistI D) (q : List (D × Cell D)) :
    (popMin I q).isSome = QueryFns.findEdgesOptimized_cond0 q.length := by
  cases q with
  | nil => rfl
  | cons x xs =>
    have : QueryFns.findEdgesOptimized_cond0 ((x :: xs).length : Nat) = true := by
      simp only [QueryFns.findEdgesOptimized_cond0, List.length_cons, decide_eq_true_eq]; omega
    rw [this]
    simp only [popMin]
    cases popMin I xs with
    | none => rfl
    | some m => obtain ⟨m, rest⟩ := m; simp only; split <;> rfl

/-- one iteration of the main loop of `findEdgesOptimized`: pop; `if !entry.distance.less(e.distanceLimit) { reset; break }`;
    `if entry.indexCell != nil { processEdges; continue }`; otherwise the children -/
theorem tie_searchLoop_step (I : DistI D) (o : Opts D) (w : World D) (avoid cons : Bool) (fuel : Nat) (s : St D) :
    searchLoop I o w avoid cons (fuel + 1) s =
      match popMin I s.queue with
      | none => some s
      | some ((d, c), rest) =>
        let s := { s with queue := rest }
        if QueryFns.findEdgesOptimized_cond1 I d s.limit then some { s with queue := [] }
        else match c with
          | .index _ edges => searchLoop I o w avoid cons fuel (processEdges I o w avoid s edges)
          | .node _ kids => searchLoop I o w avoid cons fuel (kids.foldl (processOrEnqueue I o w avoid cons) s) := by
  simp only [searchLoop, QueryFns.findEdgesOptimized_cond1]
  rfl

/-- `initQueue`: empty target; the `maxResults == 1 && LocatePoint(cb.Center())` shortcut with its early return when
    the limit dropped to zero; then the roots -/
theorem tie_initQueue (I : DistI D) (o : Opts D) (w : World D) (avoid cons : Bool) (s : St D) :
    initQueue I o w avoid cons s =
      if QueryFns.initQueue_cond1 w.emptyTarget then s else
      let hit := QueryFns.initQueue_cond2 o.maxResults w.located.isSome
      let s := if hit then processEdges I o w avoid s (w.located.getD []) else s
      if hit && QueryFns.initQueue_cond3 I s.limit then s
      else (w.roots s.limit).foldl (processOrEnqueue I o w avoid cons) s := by
  simp only [initQueue, QueryFns.initQueue_cond1, QueryFns.initQueue_cond2, QueryFns.initQueue_cond3, nat_eq_one]
  cases w.emptyTarget <;> cases h1 : (o.maxResults == 1) <;> cases h2 : w.located <;> simp [h1]

/-- `initQueue`: `e.distanceLimit == infinity` selects the precomputed covering (the model's `roots` is a function
    of the limit), the zero distance of the synthetic queue entry -/
theorem tie_initQueue_consts (I : DistI D) (l : D) :
    QueryFns.initQueue_cond5 I l = (l == I.infinity) ∧ QueryFns.initQueue_val0 I = I.zero ∧
    QueryFns.processOrEnqueue_val0 I = I.zero := ⟨rfl, rfl, rfl⟩

/-- `findEdgesInternal`.  `ne` / `mo` are `e.indexNumEdges` / `minOptimizedEdges` (the model's `w.small` is the
    outcome of `e.indexNumEdges < minOptimizedEdges`; the counting itself is modelled in S2.History, tied by
    Ties/C13). -/
theorem tie_findEdgesInternal (I : DistI D) (o : Opts D) (w : World D) (ne mo : Int) (hs : w.small = decide (ne < mo)) :
    findEdgesInternal I o w =
      let s : St D := { limit := o.distanceLimit, results := [], tested := [], queue := [] }
      if QueryFns.findEdgesInternal_cond0 I s.limit then some s else
      let s := if QueryFns.findEdgesInternal_cond1 o.includeInteriors then
          w.interiors.foldl (fun s sh => addResult I o s ⟨QueryFns.findEdgesInternal_val1 I, sh, -1⟩) s
        else s
      if QueryFns.findEdgesInternal_cond1 o.includeInteriors && QueryFns.findEdgesInternal_cond2 I s.limit then some s else
      let targetUses := QueryFns.findEdgesInternal_val2 I o.maxError o.targetUsesMaxError
      let conservative := QueryFns.findEdgesInternal_val3 I targetUses s.limit o.maxError
      if QueryFns.findEdgesInternal_cond4 o.useBruteForce ne mo then some (findEdgesBruteForce I o w s)
      else findEdgesOptimized I o w (QueryFns.findEdgesInternal_val5 targetUses o.maxResults) conservative s := by
  have e : decide ((o.maxResults : Int) > 1) = decide (o.maxResults > 1) := by cast_dec
  simp only [findEdgesInternal, QueryFns.findEdgesInternal_cond0, QueryFns.findEdgesInternal_cond1,
    QueryFns.findEdgesInternal_cond2, QueryFns.findEdgesInternal_cond4, QueryFns.findEdgesInternal_val1,
    QueryFns.findEdgesInternal_val2, QueryFns.findEdgesInternal_val3, QueryFns.findEdgesInternal_val5, hs, e]
  try rfl

/-- the early-termination test of the `visitContainingShapes` callback: `len(shapeIDs) < opts.maxResults`
    (the model's `World.interiors` is the list already cut by it) -/
theorem tie_interiors_cut (n k : Nat) : QueryFns.findEdgesInternal_val0 n k = decide (n < k) := by
  simp only [QueryFns.findEdgesInternal_val0]; cast_dec

/-- `findEdgesBruteForce` / `processEdges`: the two loops have no arithmetic: conditions `shape == nil`,
    `edgeID < int32(shape.NumEdges())`, `j < clipped.numEdges()` -/
theorem tie_loops_conds (i n : Int) (b : Bool) :
    QueryFns.findEdgesBruteForce_cond0 b = b ∧ QueryFns.findEdgesBruteForce_cond1 i n = decide (i < n) ∧
    QueryFns.processEdges_cond0 i n = decide (i < n) := ⟨rfl, rfl, rfl⟩

/-! ### (b) `initCovering` / `addInitialRange` -/

/-- `addInitialRange` -/
theorem tie_addInitialRange (cells : List CellID) (first last : Nat) :
    addInitialRange cells first last =
      if QueryFns.addInitialRange_cond0 (idAt cells first) (idAt cells last) then (idAt cells first, true)
      else (parent (idAt cells first) ((commonAncestorLevel (idAt cells first) (idAt cells last)).getD 0), false) := rfl

/-- one iteration of `for id := …; id != lastID; id = id.Next()` of `initCovering`, repaired code (no stray break) -/
theorem tie_coverLoop_step (cells : List CellID) (lastID : CellID) (fuel : Nat) (id : CellID) (next : Nat)
    (acc : List (CellID × Bool)) :
    coverLoop false cells lastID (fuel + 1) id next acc =
      if !QueryFns.initCovering_cond2 id lastID then some (next, acc)
      else if QueryFns.initCovering_cond3 id (idAt cells next) then
        coverLoop false cells lastID fuel (QueryFns.initCovering_val0 id) next acc
      else
        let cellFirst := next
        let next' := seek cells (QueryFns.initCovering_val1 id)
        let cellLast := (Locate.prev next').2
        coverLoop false cells lastID fuel (QueryFns.initCovering_val0 id) next' (acc ++ [addInitialRange cells cellFirst cellLast]) := by
  simp only [coverLoop, QueryFns.initCovering_cond2, QueryFns.initCovering_cond3, QueryFns.initCovering_val0,
    QueryFns.initCovering_val1, bne, Bool.not_not, beq_iff_eq, decide_eq_true_eq, Bool.false_eq_true, if_false]

/-- `initCovering`: `next.CellID() != last.CellID()`; `level, ok := CommonAncestorLevel; if !ok { level = 0 } else { level++ }` -/
theorem tie_initCovering (cells : List CellID) :
    initCovering cells =
      let next := 0
      let last := (Locate.prev cells.length).2
      if QueryFns.initCovering_cond0 (idAt cells next) (idAt cells last) then
        let cal := commonAncestorLevel (idAt cells next) (idAt cells last)
        let level := if QueryFns.initCovering_cond1 cal.isSome then 0 else cal.getD 0 + 1
        let lastID := parent (idAt cells last) level
        match coverLoop false cells lastID 8 (parent (idAt cells next) level) next [] with
        | none => none
        | some (next', acc) => some (acc ++ [addInitialRange cells next' last])
      else some [addInitialRange cells next last] := by
  simp only [initCovering, initCoveringGen, QueryFns.initCovering_cond0, QueryFns.initCovering_cond1]
  cases commonAncestorLevel (idAt cells 0) (idAt cells (Locate.prev cells.length).2) <;> rfl

/-! ### the distance types: `minDistance` / `maxDistance` and the chord-angle arithmetic behind `sub` -/

open Oracle.C08 in
/-- `s1.ChordAngle.Sub`, translated in full = the oracle's `caSub` -/
theorem tie_ChordAngle_Sub (c o : F64) : caSub c o = DistTargetFns.ChordAngle_Sub c o := rfl
open Oracle.C08 in
/-- `s1.ChordAngle.Add`, translated in full = the oracle's `caAdd` (`c+other >= maxLength2` is `F64.le 4 (c+o)`) -/
theorem tie_ChordAngle_Add (c o : F64) : caAdd c o = DistTargetFns.ChordAngle_Add c o := rfl

open Oracle.C08 in
/-- `minDistance`: `less` is `<` on chord angles; `sub` keeps infinite / negative values and otherwise is
    `ChordAngle.Sub`; `zero() = minDistance(0)`, `infinity() = minDistance(InfChordAngle())` (shapes below) -/
theorem tie_minDistance (a b : F64) :
    fMin.less a b = DistTargetFns.minDistance_less_val0 a b ∧
    fMin.sub a b = (if DistTargetFns.minDistance_sub_cond0 (isPosInf a) a then a else DistTargetFns.minDistance_sub_val0 a b) ∧
    fMin.zero = ⟨0⟩ ∧ fMin.infinity = F64.inf false := ⟨rfl, rfl, rfl, rfl⟩

open Oracle.C08 in
/-- `maxDistance`: `less` is `>`; `sub` is `ChordAngle.Add`; `zero() = StraightChordAngle`, `infinity() = NegativeChordAngle` -/
theorem tie_maxDistance (a b : F64) :
    fMax.less a b = DistTargetFns.maxDistance_less_val0 a b ∧
    fMax.sub a b = (if DistTargetFns.maxDistance_sub_cond0 (isPosInf a) a then a else DistTargetFns.maxDistance_sub_val0 a b) ∧
    fMax.zero = ⟨DistTargetFns.ChordAngle_StraightChordAngle_bits⟩ ∧
    fMax.infinity = ⟨DistTargetFns.ChordAngle_NegativeChordAngle_bits⟩ := ⟨rfl, rfl, rfl, rfl⟩

/-- the integer abstractions `minDist` / `maxDist` of the theorems have the same branch structure:
    identity on infinite (`> top`) / negative values, identity for a zero error, clamping at 0 resp. `top` -/
theorem tie_minDist_shape (top a e : Int) :
    (minDist top).sub a e = (if a > top ∨ a < 0 then a else if e == 0 then a else if a ≤ e then 0 else a - e) ∧
    (maxDist top).sub a e = (if a > top ∨ a < 0 then a else if e == 0 then a else if a + e ≥ top then top else a + e) ∧
    (minDist top).less a e = decide (a < e) ∧ (maxDist top).less a e = decide (a > e) := ⟨rfl, rfl, rfl, rfl⟩

/-- `maxBruteForceIndexSize` of the eight targets (the thresholds the generator `c08` straddles) and
    `setMaxError` (only the ShapeIndex targets use MaxError) are constants in the shapes below; the per-target
    `updateDistanceTo*` conditions are the `ok` of the geometry call (`cond0 = id`) or `r.shapeID < 0` -/
theorem tie_target_conds (b : Bool) (n : Int) :
    DistTargetFns.MinDistanceToPointTarget_updateDistanceToEdge_cond0 b = b ∧
    DistTargetFns.MinDistanceToEdgeTarget_updateDistanceToEdge_cond0 b = b ∧
    DistTargetFns.MaxDistanceToPointTarget_updateDistanceToEdge_cond0 b = b ∧
    DistTargetFns.MaxDistanceToEdgeTarget_updateDistanceToEdge_cond0 b = b ∧
    DistTargetFns.MinDistanceToShapeIndexTarget_updateDistanceToEdge_cond0 n = decide (n < 0) ∧
    DistTargetFns.MinDistanceToShapeIndexTarget_updateDistanceToCell_cond0 n = decide (n < 0) ∧
    DistTargetFns.MaxDistanceToShapeIndexTarget_updateDistanceToEdge_cond0 n = decide (n < 0) ∧
    DistTargetFns.MaxDistanceToShapeIndexTarget_updateDistanceToCell_cond0 n = decide (n < 0) :=
  ⟨rfl, rfl, rfl, rfl, rfl, rfl, rfl, rfl⟩

/-! ### statement structure of every translated function of s2/edge_query.go (what is left of the Go text after
    the conditions `cond<k>(…)` and values `val<k>(…)` have been taken out; the parenthesised lists are the Go
    expressions that feed the parameters of the definition, in parameter order), struct layouts, and one `pin_…`
    per extracted condition / value: its body as a literal, so that also the conditions no theorem above mentions
    (loop bounds, `== nil` tests, the `initQueue` clean-up loop) cannot change unnoticed -/
theorem tie_EdgeQueryResult_fields : QueryFns.EdgeQueryResult_fields =
    "distance s2.distance; shapeID int32; edgeID int32" := rfl
theorem tie_EdgeQuery_fields : QueryFns.EdgeQuery_fields =
    "index *s2.ShapeIndex; opts *s2.queryOptions; target s2.distanceTarget; useConservativeCellDistance bool; indexNumEdges int; indexNumEdgesLimit int; distanceLimit s2.distance; results []s2.EdgeQueryResult; avoidDuplicates bool; testedEdges map[s2.ShapeEdgeID]uint32; indexCovering []s2.CellID; indexCells []*s2.ShapeIndexCell; queue *s2.queryQueue; iter *s2.ShapeIndexIterator; maxDistanceCovering []s2.CellID; initialCells []s2.CellID" := rfl
theorem tie_queryQueueEntry_fields : QueryFns.queryQueueEntry_fields =
    "distance s2.distance; id s2.CellID; indexCell *s2.ShapeIndexCell" := rfl
theorem tie_EdgeQueryResult_IsInterior_shape : QueryFns.EdgeQueryResult_IsInterior_shape =
    "return val0(e.shapeID, e.edgeID)" := rfl
theorem tie_EdgeQueryResult_IsEmpty_shape : QueryFns.EdgeQueryResult_IsEmpty_shape =
    "return val0(e.shapeID)" := rfl
theorem tie_EdgeQueryResult_Less_shape : QueryFns.EdgeQueryResult_Less_shape =
    "if cond0(e.distance, other.distance) {return val0(e.distance, other.distance)}; if cond1(e.shapeID, other.shapeID) {return val1(e.shapeID, other.shapeID)}; return val2(e.edgeID, other.edgeID)" := rfl
theorem tie_newEdgeQueryResult_shape : QueryFns.newEdgeQueryResult_shape =
    "return EdgeQueryResult{distance: val0(), shapeID: -1, edgeID: -1}" := rfl
theorem tie_sortAndUniqueResults_shape : QueryFns.sortAndUniqueResults_shape =
    "if cond0(len(results)) {return results}; sort.Slice(results, func{return results[i].Less(results[j])}); j := 0; for[i := 1] cond1(i, len(results)) [i++] {if cond2(results[j], results[i]) {continue}; j++; results[j] = results[i]}; return results[:j+1]" := rfl
theorem tie_findEdges_shape : QueryFns.findEdges_shape =
    "userOpts := e.opts; e.findEdgesInternal(target, opts); e.results = sortAndUniqueResults(e.results); if cond0(len(e.results), opts.maxResults) {e.results = e.results[:opts.maxResults]}; e.opts = userOpts; return e.results" := rfl
theorem tie_findEdge_shape : QueryFns.findEdge_shape =
    "single := *opts; single.MaxResults(1); e.findEdges(target, &single); if cond0(len(e.results)) {return e.results[0]}; return newEdgeQueryResult(target)" := rfl
theorem tie_findEdgesInternal_shape : QueryFns.findEdgesInternal_shape =
    "e.target = target; e.opts = opts; e.testedEdges = make(map[ShapeEdgeID]uint32); e.distanceLimit = target.distance().fromChordAngle(opts.distanceLimit); e.results = make([]EdgeQueryResult, 0); if cond0(e.distanceLimit) {return}; if cond1(opts.includeInteriors) {shapeIDs := map[int32]struct{}{}; e.target.visitContainingShapes(e.index, func{shapeIDs[e.index.idForShape(containingShape)] = struct{}{}; return val0(len(shapeIDs), opts.maxResults)}); range shapeID := shapeIDs {e.addResult(EdgeQueryResult{val1(), shapeID, -1})}; if cond2(e.distanceLimit) {return}}; targetTakesMaxError := e.target.setMaxError(opts.maxError); targetUsesMaxError := val2(opts.maxError, targetTakesMaxError); e.useConservativeCellDistance = val3(targetUsesMaxError, e.distanceLimit, opts.maxError); minOptimizedEdges := val4(e.target.maxBruteForceIndexSize()); if cond3(minOptimizedEdges, e.indexNumEdgesLimit, e.indexNumEdges) {e.indexNumEdges = e.index.NumEdgesUpTo(minOptimizedEdges); e.indexNumEdgesLimit = minOptimizedEdges}; if cond4(opts.useBruteForce, e.indexNumEdges, minOptimizedEdges) {e.avoidDuplicates = false; e.findEdgesBruteForce()} else {e.avoidDuplicates = val5(targetUsesMaxError, opts.maxResults); e.findEdgesOptimized()}" := rfl
theorem tie_addResult_shape : QueryFns.addResult_shape =
    "e.results = append(e.results, r); if cond0(e.opts.maxResults) {e.distanceLimit = val0(r.distance, e.opts.maxError)}" := rfl
theorem tie_maybeAddResult_shape : QueryFns.maybeAddResult_shape =
    "if cond0(e.avoidDuplicates) {key := ShapeEdgeID{shapeID, edgeID}; if[_, ok := e.testedEdges[key]] cond1(ok) {return}; e.testedEdges[key] = 1}; edge := shape.Edge(int(edgeID)); dist := e.distanceLimit; if[dist, ok := e.target.updateDistanceToEdge(edge, dist)] cond2(ok) {e.addResult(EdgeQueryResult{dist, shapeID, edgeID})}" := rfl
theorem tie_findEdgesBruteForce_shape : QueryFns.findEdgesBruteForce_shape =
    "range shapeID, shape := e.index.shapes {if cond0(shape == nil) {continue}; for[edgeID := int32(0)] cond1(edgeID, shape.NumEdges()) [edgeID++] {e.maybeAddResult(shape, shapeID, edgeID)}}" := rfl
theorem tie_findEdgesOptimized_shape : QueryFns.findEdgesOptimized_shape =
    "e.initQueue(); for cond0(e.queue.size()) {entry := e.queue.pop(); if cond1(entry.distance, e.distanceLimit) {e.queue.reset(); break}; if cond2(entry.indexCell == nil) {e.processEdges(entry); continue}; id := entry.id; ch := id.Children(); e.iter.seek(val0(ch[1])); if cond3(e.iter.Done(), e.iter.CellID(), ch[1]) {e.processOrEnqueueCell(ch[1])}; if cond4(e.iter.Prev(), e.iter.CellID(), id) {e.processOrEnqueueCell(ch[0])}; e.iter.seek(val1(ch[3])); if cond5(e.iter.Done(), e.iter.CellID(), id) {e.processOrEnqueueCell(ch[3])}; if cond6(e.iter.Prev(), e.iter.CellID(), ch[2]) {e.processOrEnqueueCell(ch[2])}}" := rfl
theorem tie_processOrEnqueueCell_shape : QueryFns.processOrEnqueueCell_shape =
    "if cond0(e.iter.CellID(), id) {e.processOrEnqueue(id, e.iter.IndexCell())} else {e.processOrEnqueue(id, nil)}" := rfl
theorem tie_initQueue_shape : QueryFns.initQueue_shape =
    "if cond0(len(e.indexCovering)) {e.iter = e.index.Iterator()}; cb := e.target.capBound(); if cond1(cb.IsEmpty()) {return}; if cond2(e.opts.maxResults, e.iter.LocatePoint(cb.Center())) {e.processEdges(&queryQueueEntry{distance: val0(), id: e.iter.CellID(), indexCell: e.iter.IndexCell()}); if cond3(e.distanceLimit) {return}}; if cond4(len(e.indexCovering)) {e.initCovering()}; if cond5(e.distanceLimit) {range i := e.indexCovering {e.processOrEnqueue(e.indexCovering[i], e.indexCells[i])}} else {coverer := &RegionCoverer{MaxCells: 4, LevelMod: 1, MaxLevel: MaxLevel}; radius := val1(cb.Radius(), e.distanceLimit.chordAngleBound().Angle()); searchCB := CapFromCenterAngle(cb.Center(), radius); maxDistCover := coverer.FastCovering(searchCB); e.initialCells = CellUnionFromIntersection(e.indexCovering, maxDistCover); i, j := 0, 0; for cond6(i, len(e.initialCells)) {idI := e.initialCells[i]; for cond7(e.indexCovering[j], idI) {j++}; idJ := e.indexCovering[j]; if cond8(idI, idJ) {e.processOrEnqueue(idJ, e.indexCells[j]); i++; j++} else {r := e.iter.LocateCellID(idI); if cond9(r) {e.processOrEnqueue(e.iter.CellID(), e.iter.IndexCell()); lastID := val2(e.iter.CellID()); for cond10(i, len(e.initialCells), e.initialCells[i], lastID) {i++}} else {if cond11(r) {e.processOrEnqueue(idI, nil)}; i++}}}}" := rfl
theorem tie_initCovering_shape : QueryFns.initCovering_shape =
    "e.indexCovering = make([]CellID, 0, 6); next := NewShapeIndexIterator(e.index, IteratorBegin); last := NewShapeIndexIterator(e.index, IteratorEnd); last.Prev(); if cond0(next.CellID(), last.CellID()) {level, ok := next.CellID().CommonAncestorLevel(last.CellID()); if cond1(ok) {level = 0} else {level++}; lastID := last.CellID().Parent(level); for[id := next.CellID().Parent(level)] cond2(id, lastID) [id = val0(id)] {if cond3(id, next.CellID()) {continue}; cellFirst := next.clone(); next.seek(val1(id)); cellLast := next.clone(); cellLast.Prev(); e.addInitialRange(cellFirst, cellLast)}}; e.addInitialRange(next, last)" := rfl
theorem tie_addInitialRange_shape : QueryFns.addInitialRange_shape =
    "if cond0(first.CellID(), last.CellID()) {e.indexCovering = append(e.indexCovering, first.CellID()); e.indexCells = append(e.indexCells, first.IndexCell())} else {level, _ := first.CellID().CommonAncestorLevel(last.CellID()); e.indexCovering = append(e.indexCovering, first.CellID().Parent(level)); e.indexCells = append(e.indexCells, nil)}" := rfl
theorem tie_processEdges_shape : QueryFns.processEdges_shape =
    "range _, clipped := entry.indexCell.shapes {shape := e.index.Shape(clipped.shapeID); for[j := 0] cond0(j, clipped.numEdges()) [j++] {e.maybeAddResult(shape, clipped.shapeID, int32(clipped.edges[j]))}}" := rfl
theorem tie_processOrEnqueue_shape : QueryFns.processOrEnqueue_shape =
    "if cond0(indexCell == nil) {const minEdgesToEnqueue = 10; numEdges := indexCell.numEdges(); if cond1(numEdges) {return}; if cond2(numEdges) {e.processEdges(&queryQueueEntry{distance: val0(), id: id, indexCell: indexCell}); return}}; cell := CellFromCellID(id); dist := e.distanceLimit; var ok bool; if[dist, ok = e.target.updateDistanceToCell(cell, dist)] cond3(ok) {return}; if cond4(e.useConservativeCellDistance) {dist = val1(dist, e.opts.maxError)}; e.queue.push(&queryQueueEntry{distance: dist, id: id, indexCell: indexCell})" := rfl
section pins_QueryFns
open S2.Generated.QueryFns
theorem pin_EdgeQueryResult_IsInterior_val0 (e_shapeID : Int) (e_edgeID : Int) :
    QueryFns.EdgeQueryResult_IsInterior_val0 e_shapeID e_edgeID = ((decide (e_shapeID ≥ 0)) && (decide (e_edgeID < 0))) := rfl
theorem pin_EdgeQueryResult_IsEmpty_val0 (e_shapeID : Int) :
    QueryFns.EdgeQueryResult_IsEmpty_val0 e_shapeID = (decide (e_shapeID < 0)) := rfl
theorem pin_EdgeQueryResult_Less_cond0 {D : Type} [DecidableEq D] (e_distance : D) (other_distance : D) :
    QueryFns.EdgeQueryResult_Less_cond0 e_distance other_distance = (e_distance != other_distance) := rfl
theorem pin_EdgeQueryResult_Less_val0 {D : Type} [DecidableEq D] (I : DistI D) (e_distance : D) (other_distance : D) :
    QueryFns.EdgeQueryResult_Less_val0 I e_distance other_distance = (I.less e_distance other_distance) := rfl
theorem pin_EdgeQueryResult_Less_cond1 (e_shapeID : Int) (other_shapeID : Int) :
    QueryFns.EdgeQueryResult_Less_cond1 e_shapeID other_shapeID = (e_shapeID != other_shapeID) := rfl
theorem pin_EdgeQueryResult_Less_val1 (e_shapeID : Int) (other_shapeID : Int) :
    QueryFns.EdgeQueryResult_Less_val1 e_shapeID other_shapeID = (decide (e_shapeID < other_shapeID)) := rfl
theorem pin_EdgeQueryResult_Less_val2 (e_edgeID : Int) (other_edgeID : Int) :
    QueryFns.EdgeQueryResult_Less_val2 e_edgeID other_edgeID = (decide (e_edgeID < other_edgeID)) := rfl
theorem pin_newEdgeQueryResult_val0 {D : Type} [DecidableEq D] (I : DistI D) :
    QueryFns.newEdgeQueryResult_val0 I = (I.infinity) := rfl
theorem pin_sortAndUniqueResults_cond0 (len_results : Int) :
    QueryFns.sortAndUniqueResults_cond0 len_results = (decide (len_results ≤ 1)) := rfl
theorem pin_sortAndUniqueResults_cond1 (i : Int) (len_results : Int) :
    QueryFns.sortAndUniqueResults_cond1 i len_results = (decide (i < len_results)) := rfl
theorem pin_sortAndUniqueResults_cond2 {D : Type} [DecidableEq D] (results_j : (Result D)) (results_i : (Result D)) :
    QueryFns.sortAndUniqueResults_cond2 results_j results_i = (results_j == results_i) := rfl
theorem pin_findEdges_cond0 (len_e_results : Int) (opts_maxResults : Int) :
    QueryFns.findEdges_cond0 len_e_results opts_maxResults = (decide (len_e_results > opts_maxResults)) := rfl
theorem pin_findEdge_cond0 (len_e_results : Int) :
    QueryFns.findEdge_cond0 len_e_results = (decide (len_e_results > 0)) := rfl
theorem pin_findEdgesInternal_cond0 {D : Type} [DecidableEq D] (I : DistI D) (e_distanceLimit : D) :
    QueryFns.findEdgesInternal_cond0 I e_distanceLimit = (e_distanceLimit == I.zero) := rfl
theorem pin_findEdgesInternal_cond1 (opts_includeInteriors : Bool) :
    QueryFns.findEdgesInternal_cond1 opts_includeInteriors = (opts_includeInteriors) := rfl
theorem pin_findEdgesInternal_val0 (len_shapeIDs : Int) (opts_maxResults : Int) :
    QueryFns.findEdgesInternal_val0 len_shapeIDs opts_maxResults = (decide (len_shapeIDs < opts_maxResults)) := rfl
theorem pin_findEdgesInternal_val1 {D : Type} [DecidableEq D] (I : DistI D) :
    QueryFns.findEdgesInternal_val1 I = (I.zero) := rfl
theorem pin_findEdgesInternal_cond2 {D : Type} [DecidableEq D] (I : DistI D) (e_distanceLimit : D) :
    QueryFns.findEdgesInternal_cond2 I e_distanceLimit = (e_distanceLimit == I.zero) := rfl
theorem pin_findEdgesInternal_val2 {D : Type} [DecidableEq D] (I : DistI D) (opts_maxError : D) (e_target_setMaxError_opts_maxError : Bool) :
    QueryFns.findEdgesInternal_val2 I opts_maxError e_target_setMaxError_opts_maxError = ((opts_maxError != I.zero) && e_target_setMaxError_opts_maxError) := rfl
theorem pin_findEdgesInternal_val3 {D : Type} [DecidableEq D] (I : DistI D) (targetUsesMaxError : Bool) (e_distanceLimit : D) (opts_maxError : D) :
    QueryFns.findEdgesInternal_val3 I targetUsesMaxError e_distanceLimit opts_maxError = (targetUsesMaxError && ((e_distanceLimit == I.infinity) || (I.less I.zero (I.sub e_distanceLimit opts_maxError)))) := rfl
theorem pin_findEdgesInternal_val4 (e_target_maxBruteForceIndexSize : Int) :
    QueryFns.findEdgesInternal_val4 e_target_maxBruteForceIndexSize = (e_target_maxBruteForceIndexSize + 1) := rfl
theorem pin_findEdgesInternal_cond3 (minOptimizedEdges : Int) (e_indexNumEdgesLimit : Int) (e_indexNumEdges : Int) :
    QueryFns.findEdgesInternal_cond3 minOptimizedEdges e_indexNumEdgesLimit e_indexNumEdges = ((decide (minOptimizedEdges > e_indexNumEdgesLimit)) && (decide (e_indexNumEdges ≥ e_indexNumEdgesLimit))) := rfl
theorem pin_findEdgesInternal_cond4 (opts_useBruteForce : Bool) (e_indexNumEdges : Int) (minOptimizedEdges : Int) :
    QueryFns.findEdgesInternal_cond4 opts_useBruteForce e_indexNumEdges minOptimizedEdges = (opts_useBruteForce || (decide (e_indexNumEdges < minOptimizedEdges))) := rfl
theorem pin_findEdgesInternal_val5 (targetUsesMaxError : Bool) (opts_maxResults : Int) :
    QueryFns.findEdgesInternal_val5 targetUsesMaxError opts_maxResults = (targetUsesMaxError && (decide (opts_maxResults > 1))) := rfl
theorem pin_addResult_cond0 (e_opts_maxResults : Int) :
    QueryFns.addResult_cond0 e_opts_maxResults = (e_opts_maxResults == 1) := rfl
theorem pin_addResult_val0 {D : Type} [DecidableEq D] (I : DistI D) (r_distance : D) (e_opts_maxError : D) :
    QueryFns.addResult_val0 I r_distance e_opts_maxError = (I.sub r_distance e_opts_maxError) := rfl
theorem pin_maybeAddResult_cond0 (e_avoidDuplicates : Bool) :
    QueryFns.maybeAddResult_cond0 e_avoidDuplicates = (e_avoidDuplicates) := rfl
theorem pin_maybeAddResult_cond1 (ok : Bool) :
    QueryFns.maybeAddResult_cond1 ok = (ok) := rfl
theorem pin_maybeAddResult_cond2 (ok : Bool) :
    QueryFns.maybeAddResult_cond2 ok = (ok) := rfl
theorem pin_findEdgesBruteForce_cond0 (shape_nil : Bool) :
    QueryFns.findEdgesBruteForce_cond0 shape_nil = (shape_nil) := rfl
theorem pin_findEdgesBruteForce_cond1 (edgeID : Int) (shape_NumEdges : Int) :
    QueryFns.findEdgesBruteForce_cond1 edgeID shape_NumEdges = (decide (edgeID < shape_NumEdges)) := rfl
theorem pin_findEdgesOptimized_cond0 (e_queue_size : Int) :
    QueryFns.findEdgesOptimized_cond0 e_queue_size = (decide (e_queue_size > 0)) := rfl
theorem pin_findEdgesOptimized_cond1 {D : Type} [DecidableEq D] (I : DistI D) (entry_distance : D) (e_distanceLimit : D) :
    QueryFns.findEdgesOptimized_cond1 I entry_distance e_distanceLimit = (!(I.less entry_distance e_distanceLimit)) := rfl
theorem pin_findEdgesOptimized_cond2 (entry_indexCell_nil : Bool) :
    QueryFns.findEdgesOptimized_cond2 entry_indexCell_nil = (!entry_indexCell_nil) := rfl
theorem pin_findEdgesOptimized_val0 (ch_1 : UInt64) :
    QueryFns.findEdgesOptimized_val0 ch_1 = (CellID.rangeMin ch_1) := rfl
theorem pin_findEdgesOptimized_cond3 (e_iter_Done : Bool) (e_iter_CellID : UInt64) (ch_1 : UInt64) :
    QueryFns.findEdgesOptimized_cond3 e_iter_Done e_iter_CellID ch_1 = ((!e_iter_Done) && (decide (e_iter_CellID ≤ (CellID.rangeMax ch_1)))) := rfl
theorem pin_findEdgesOptimized_cond4 (e_iter_Prev : Bool) (e_iter_CellID : UInt64) (id : UInt64) :
    QueryFns.findEdgesOptimized_cond4 e_iter_Prev e_iter_CellID id = (e_iter_Prev && (decide (e_iter_CellID ≥ (CellID.rangeMin id)))) := rfl
theorem pin_findEdgesOptimized_val1 (ch_3 : UInt64) :
    QueryFns.findEdgesOptimized_val1 ch_3 = (CellID.rangeMin ch_3) := rfl
theorem pin_findEdgesOptimized_cond5 (e_iter_Done : Bool) (e_iter_CellID : UInt64) (id : UInt64) :
    QueryFns.findEdgesOptimized_cond5 e_iter_Done e_iter_CellID id = ((!e_iter_Done) && (decide (e_iter_CellID ≤ (CellID.rangeMax id)))) := rfl
theorem pin_findEdgesOptimized_cond6 (e_iter_Prev : Bool) (e_iter_CellID : UInt64) (ch_2 : UInt64) :
    QueryFns.findEdgesOptimized_cond6 e_iter_Prev e_iter_CellID ch_2 = (e_iter_Prev && (decide (e_iter_CellID ≥ (CellID.rangeMin ch_2)))) := rfl
theorem pin_processOrEnqueueCell_cond0 (e_iter_CellID : UInt64) (id : UInt64) :
    QueryFns.processOrEnqueueCell_cond0 e_iter_CellID id = (e_iter_CellID == id) := rfl
theorem pin_initQueue_cond0 (len_e_indexCovering : Int) :
    QueryFns.initQueue_cond0 len_e_indexCovering = (len_e_indexCovering == 0) := rfl
theorem pin_initQueue_cond1 (cb_IsEmpty : Bool) :
    QueryFns.initQueue_cond1 cb_IsEmpty = (cb_IsEmpty) := rfl
theorem pin_initQueue_cond2 (e_opts_maxResults : Int) (e_iter_LocatePoint_cb_Center : Bool) :
    QueryFns.initQueue_cond2 e_opts_maxResults e_iter_LocatePoint_cb_Center = ((e_opts_maxResults == 1) && e_iter_LocatePoint_cb_Center) := rfl
theorem pin_initQueue_val0 {D : Type} [DecidableEq D] (I : DistI D) :
    QueryFns.initQueue_val0 I = (I.zero) := rfl
theorem pin_initQueue_cond3 {D : Type} [DecidableEq D] (I : DistI D) (e_distanceLimit : D) :
    QueryFns.initQueue_cond3 I e_distanceLimit = (e_distanceLimit == I.zero) := rfl
theorem pin_initQueue_cond4 (len_e_indexCovering : Int) :
    QueryFns.initQueue_cond4 len_e_indexCovering = (len_e_indexCovering == 0) := rfl
theorem pin_initQueue_cond5 {D : Type} [DecidableEq D] (I : DistI D) (e_distanceLimit : D) :
    QueryFns.initQueue_cond5 I e_distanceLimit = (e_distanceLimit == I.infinity) := rfl
theorem pin_initQueue_val1 (cb_Radius : F64) (e_distanceLimit_chordAngleBound_Angle : F64) :
    QueryFns.initQueue_val1 cb_Radius e_distanceLimit_chordAngleBound_Angle = (F64.add cb_Radius e_distanceLimit_chordAngleBound_Angle) := rfl
theorem pin_initQueue_cond6 (i : Int) (len_e_initialCells : Int) :
    QueryFns.initQueue_cond6 i len_e_initialCells = (decide (i < len_e_initialCells)) := rfl
theorem pin_initQueue_cond7 (e_indexCovering_j : UInt64) (idI : UInt64) :
    QueryFns.initQueue_cond7 e_indexCovering_j idI = (decide ((CellID.rangeMax e_indexCovering_j) < idI)) := rfl
theorem pin_initQueue_cond8 (idI : UInt64) (idJ : UInt64) :
    QueryFns.initQueue_cond8 idI idJ = (idI == idJ) := rfl
theorem pin_initQueue_cond9 (r : Locate.Relation) :
    QueryFns.initQueue_cond9 r = (r == Locate.Relation.indexed) := rfl
theorem pin_initQueue_val2 (e_iter_CellID : UInt64) :
    QueryFns.initQueue_val2 e_iter_CellID = (CellID.rangeMax e_iter_CellID) := rfl
theorem pin_initQueue_cond10 (i : Int) (len_e_initialCells : Int) (e_initialCells_i : UInt64) (lastID : UInt64) :
    QueryFns.initQueue_cond10 i len_e_initialCells e_initialCells_i lastID = ((decide (i < len_e_initialCells)) && (decide (e_initialCells_i ≤ lastID))) := rfl
theorem pin_initQueue_cond11 (r : Locate.Relation) :
    QueryFns.initQueue_cond11 r = (r == Locate.Relation.subdivided) := rfl
theorem pin_initCovering_cond0 (next_CellID : UInt64) (last_CellID : UInt64) :
    QueryFns.initCovering_cond0 next_CellID last_CellID = (next_CellID != last_CellID) := rfl
theorem pin_initCovering_cond1 (ok : Bool) :
    QueryFns.initCovering_cond1 ok = (!ok) := rfl
theorem pin_initCovering_cond2 (id : UInt64) (lastID : UInt64) :
    QueryFns.initCovering_cond2 id lastID = (id != lastID) := rfl
theorem pin_initCovering_val0 (id : UInt64) :
    QueryFns.initCovering_val0 id = (CellID.next id) := rfl
theorem pin_initCovering_cond3 (id : UInt64) (next_CellID : UInt64) :
    QueryFns.initCovering_cond3 id next_CellID = (decide ((CellID.rangeMax id) < next_CellID)) := rfl
theorem pin_initCovering_val1 (id : UInt64) :
    QueryFns.initCovering_val1 id = (CellID.next (CellID.rangeMax id)) := rfl
theorem pin_addInitialRange_cond0 (first_CellID : UInt64) (last_CellID : UInt64) :
    QueryFns.addInitialRange_cond0 first_CellID last_CellID = (first_CellID == last_CellID) := rfl
theorem pin_processEdges_cond0 (j : Int) (clipped_numEdges : Int) :
    QueryFns.processEdges_cond0 j clipped_numEdges = (decide (j < clipped_numEdges)) := rfl
theorem pin_processOrEnqueue_cond0 (indexCell_nil : Bool) :
    QueryFns.processOrEnqueue_cond0 indexCell_nil = (!indexCell_nil) := rfl
theorem pin_processOrEnqueue_cond1 (numEdges : Int) :
    QueryFns.processOrEnqueue_cond1 numEdges = (numEdges == 0) := rfl
theorem pin_processOrEnqueue_cond2 (numEdges : Int) :
    QueryFns.processOrEnqueue_cond2 numEdges = (decide (numEdges < 10)) := rfl
theorem pin_processOrEnqueue_val0 {D : Type} [DecidableEq D] (I : DistI D) :
    QueryFns.processOrEnqueue_val0 I = (I.zero) := rfl
theorem pin_processOrEnqueue_cond3 (ok : Bool) :
    QueryFns.processOrEnqueue_cond3 ok = (!ok) := rfl
theorem pin_processOrEnqueue_cond4 (e_useConservativeCellDistance : Bool) :
    QueryFns.processOrEnqueue_cond4 e_useConservativeCellDistance = (e_useConservativeCellDistance) := rfl
theorem pin_processOrEnqueue_val1 {D : Type} [DecidableEq D] (I : DistI D) (dist : D) (e_opts_maxError : D) :
    QueryFns.processOrEnqueue_val1 I dist e_opts_maxError = (I.sub dist e_opts_maxError) := rfl
end pins_QueryFns
/-- number of extracted conditions / values per function, in generation order -/
theorem tie_counts_QueryFns :
    [(QueryFns.EdgeQueryResult_IsInterior_numConds, QueryFns.EdgeQueryResult_IsInterior_numVals), (QueryFns.EdgeQueryResult_IsEmpty_numConds, QueryFns.EdgeQueryResult_IsEmpty_numVals), (QueryFns.EdgeQueryResult_Less_numConds, QueryFns.EdgeQueryResult_Less_numVals), (QueryFns.newEdgeQueryResult_numConds, QueryFns.newEdgeQueryResult_numVals), (QueryFns.sortAndUniqueResults_numConds, QueryFns.sortAndUniqueResults_numVals), (QueryFns.findEdges_numConds, QueryFns.findEdges_numVals), (QueryFns.findEdge_numConds, QueryFns.findEdge_numVals), (QueryFns.findEdgesInternal_numConds, QueryFns.findEdgesInternal_numVals), (QueryFns.addResult_numConds, QueryFns.addResult_numVals), (QueryFns.maybeAddResult_numConds, QueryFns.maybeAddResult_numVals), (QueryFns.findEdgesBruteForce_numConds, QueryFns.findEdgesBruteForce_numVals), (QueryFns.findEdgesOptimized_numConds, QueryFns.findEdgesOptimized_numVals), (QueryFns.processOrEnqueueCell_numConds, QueryFns.processOrEnqueueCell_numVals), (QueryFns.initQueue_numConds, QueryFns.initQueue_numVals), (QueryFns.initCovering_numConds, QueryFns.initCovering_numVals), (QueryFns.addInitialRange_numConds, QueryFns.addInitialRange_numVals), (QueryFns.processEdges_numConds, QueryFns.processEdges_numVals), (QueryFns.processOrEnqueue_numConds, QueryFns.processOrEnqueue_numVals)] =
    [(0, 1), (0, 1), (2, 3), (0, 1), (3, 0), (1, 0), (1, 0), (5, 6), (1, 1), (3, 0), (2, 0), (7, 2), (1, 0), (12, 3), (4, 2), (1, 0), (1, 0), (5, 2)] := rfl

/-! ### … of s1/chordangle.go (special values, predicates), s2/min_distance_targets.go, s2/max_distance_targets.go -/
theorem tie_InfChordAngle_shape : DistTargetFns.InfChordAngle_shape =
    "return ChordAngle(math.Inf(1))" := rfl
theorem tie_ChordAngle_IsInfinity_shape : DistTargetFns.ChordAngle_IsInfinity_shape =
    "return math.IsInf(float64(c), 1)" := rfl
theorem tie_ChordAngle_isSpecial_shape : DistTargetFns.ChordAngle_isSpecial_shape =
    "return val0(c, c.IsInfinity())" := rfl
theorem tie_ChordAngle_Expanded_shape : DistTargetFns.ChordAngle_Expanded_shape =
    "if cond0(c.isSpecial()) {return c}; return val0(c, e)" := rfl
theorem tie_ChordAngle_MaxAngleError_shape : DistTargetFns.ChordAngle_MaxAngleError_shape =
    "return val0(dblEpsilon, c)" := rfl
theorem tie_minDistance_chordAngle_shape : DistTargetFns.minDistance_chordAngle_shape =
    "return s1.ChordAngle(m)" := rfl
theorem tie_minDistance_zero_shape : DistTargetFns.minDistance_zero_shape =
    "return minDistance(0)" := rfl
theorem tie_minDistance_negative_shape : DistTargetFns.minDistance_negative_shape =
    "return minDistance(s1.NegativeChordAngle)" := rfl
theorem tie_minDistance_infinity_shape : DistTargetFns.minDistance_infinity_shape =
    "return minDistance(s1.InfChordAngle())" := rfl
theorem tie_minDistance_less_shape : DistTargetFns.minDistance_less_shape =
    "return val0(m, other.chordAngle())" := rfl
theorem tie_minDistance_sub_shape : DistTargetFns.minDistance_sub_shape =
    "if cond0(m.chordAngle().IsInfinity(), m) {return m}; return val0(m, other.chordAngle())" := rfl
theorem tie_minDistance_chordAngleBound_shape : DistTargetFns.minDistance_chordAngleBound_shape =
    "return m.chordAngle().Expanded(m.chordAngle().MaxAngleError())" := rfl
theorem tie_minDistance_updateDistance_shape : DistTargetFns.minDistance_updateDistance_shape =
    "if cond0(dist.less(m)) {m = minDistance(dist.chordAngle()); return m, true}; return m, false" := rfl
theorem tie_minDistance_fromChordAngle_shape : DistTargetFns.minDistance_fromChordAngle_shape =
    "return minDistance(o)" := rfl
theorem tie_maxDistance_chordAngle_shape : DistTargetFns.maxDistance_chordAngle_shape =
    "return s1.ChordAngle(m)" := rfl
theorem tie_maxDistance_zero_shape : DistTargetFns.maxDistance_zero_shape =
    "return maxDistance(s1.StraightChordAngle)" := rfl
theorem tie_maxDistance_negative_shape : DistTargetFns.maxDistance_negative_shape =
    "return maxDistance(s1.InfChordAngle())" := rfl
theorem tie_maxDistance_infinity_shape : DistTargetFns.maxDistance_infinity_shape =
    "return maxDistance(s1.NegativeChordAngle)" := rfl
theorem tie_maxDistance_less_shape : DistTargetFns.maxDistance_less_shape =
    "return val0(m, other.chordAngle())" := rfl
theorem tie_maxDistance_sub_shape : DistTargetFns.maxDistance_sub_shape =
    "if cond0(m.chordAngle().IsInfinity(), m) {return m}; return val0(m, other.chordAngle())" := rfl
theorem tie_maxDistance_chordAngleBound_shape : DistTargetFns.maxDistance_chordAngleBound_shape =
    "return val0(m)" := rfl
theorem tie_maxDistance_updateDistance_shape : DistTargetFns.maxDistance_updateDistance_shape =
    "if cond0(dist.less(m)) {m = maxDistance(dist.chordAngle()); return m, true}; return m, false" := rfl
theorem tie_maxDistance_fromChordAngle_shape : DistTargetFns.maxDistance_fromChordAngle_shape =
    "return maxDistance(o)" := rfl
theorem tie_MinDistanceToPointTarget_capBound_shape : DistTargetFns.MinDistanceToPointTarget_capBound_shape =
    "return CapFromCenterChordAngle(m.point, s1.ChordAngle(0))" := rfl
theorem tie_MinDistanceToPointTarget_updateDistanceToPoint_shape : DistTargetFns.MinDistanceToPointTarget_updateDistanceToPoint_shape =
    "var ok bool; dist, ok = dist.updateDistance(minDistance(ChordAngleBetweenPoints(p, m.point))); return dist, ok" := rfl
theorem tie_MinDistanceToPointTarget_updateDistanceToEdge_shape : DistTargetFns.MinDistanceToPointTarget_updateDistanceToEdge_shape =
    "if[d, ok := UpdateMinDistance(m.point, edge.V0, edge.V1, dist.chordAngle())] cond0(ok) {dist, _ = dist.updateDistance(minDistance(d)); return dist, true}; return dist, false" := rfl
theorem tie_MinDistanceToPointTarget_updateDistanceToCell_shape : DistTargetFns.MinDistanceToPointTarget_updateDistanceToCell_shape =
    "var ok bool; dist, ok = dist.updateDistance(minDistance(cell.Distance(m.point))); return dist, ok" := rfl
theorem tie_MinDistanceToPointTarget_visitContainingShapes_shape : DistTargetFns.MinDistanceToPointTarget_visitContainingShapes_shape =
    "q := NewContainsPointQuery(index, VertexModelSemiOpen); return q.visitContainingShapes(m.point, func{return v(shape, m.point)})" := rfl
theorem tie_MinDistanceToPointTarget_setMaxError_shape : DistTargetFns.MinDistanceToPointTarget_setMaxError_shape =
    "return false" := rfl
theorem tie_MinDistanceToPointTarget_maxBruteForceIndexSize_shape : DistTargetFns.MinDistanceToPointTarget_maxBruteForceIndexSize_shape =
    "return 30" := rfl
theorem tie_MinDistanceToPointTarget_distance_shape : DistTargetFns.MinDistanceToPointTarget_distance_shape =
    "return m.dist" := rfl
theorem tie_MinDistanceToEdgeTarget_capBound_shape : DistTargetFns.MinDistanceToEdgeTarget_capBound_shape =
    "d2 := float64(ChordAngleBetweenPoints(m.e.V0, m.e.V1)); r2 := val0(d2, math.Sqrt(1 - 0.25*d2)); return CapFromCenterChordAngle(Point{m.e.V0.Add(m.e.V1.Vector).Normalize()}, s1.ChordAngleFromSquaredLength(r2))" := rfl
theorem tie_MinDistanceToEdgeTarget_updateDistanceToPoint_shape : DistTargetFns.MinDistanceToEdgeTarget_updateDistanceToPoint_shape =
    "if[d, ok := UpdateMinDistance(p, m.e.V0, m.e.V1, dist.chordAngle())] cond0(ok) {dist, _ = dist.updateDistance(minDistance(d)); return dist, true}; return dist, false" := rfl
theorem tie_MinDistanceToEdgeTarget_updateDistanceToEdge_shape : DistTargetFns.MinDistanceToEdgeTarget_updateDistanceToEdge_shape =
    "if[d, ok := updateEdgePairMinDistance(m.e.V0, m.e.V1, edge.V0, edge.V1, dist.chordAngle())] cond0(ok) {dist, _ = dist.updateDistance(minDistance(d)); return dist, true}; return dist, false" := rfl
theorem tie_MinDistanceToEdgeTarget_updateDistanceToCell_shape : DistTargetFns.MinDistanceToEdgeTarget_updateDistanceToCell_shape =
    "return dist.updateDistance(minDistance(cell.DistanceToEdge(m.e.V0, m.e.V1)))" := rfl
theorem tie_MinDistanceToEdgeTarget_visitContainingShapes_shape : DistTargetFns.MinDistanceToEdgeTarget_visitContainingShapes_shape =
    "target := NewMinDistanceToPointTarget(Point{m.e.V0.Add(m.e.V1.Vector).Normalize()}); return target.visitContainingShapes(index, v)" := rfl
theorem tie_MinDistanceToEdgeTarget_setMaxError_shape : DistTargetFns.MinDistanceToEdgeTarget_setMaxError_shape =
    "return false" := rfl
theorem tie_MinDistanceToEdgeTarget_maxBruteForceIndexSize_shape : DistTargetFns.MinDistanceToEdgeTarget_maxBruteForceIndexSize_shape =
    "return 30" := rfl
theorem tie_MinDistanceToEdgeTarget_distance_shape : DistTargetFns.MinDistanceToEdgeTarget_distance_shape =
    "return m.dist" := rfl
theorem tie_MinDistanceToCellTarget_capBound_shape : DistTargetFns.MinDistanceToCellTarget_capBound_shape =
    "return m.cell.CapBound()" := rfl
theorem tie_MinDistanceToCellTarget_updateDistanceToPoint_shape : DistTargetFns.MinDistanceToCellTarget_updateDistanceToPoint_shape =
    "return dist.updateDistance(minDistance(m.cell.Distance(p)))" := rfl
theorem tie_MinDistanceToCellTarget_updateDistanceToEdge_shape : DistTargetFns.MinDistanceToCellTarget_updateDistanceToEdge_shape =
    "return dist.updateDistance(minDistance(m.cell.DistanceToEdge(edge.V0, edge.V1)))" := rfl
theorem tie_MinDistanceToCellTarget_updateDistanceToCell_shape : DistTargetFns.MinDistanceToCellTarget_updateDistanceToCell_shape =
    "return dist.updateDistance(minDistance(m.cell.DistanceToCell(cell)))" := rfl
theorem tie_MinDistanceToCellTarget_visitContainingShapes_shape : DistTargetFns.MinDistanceToCellTarget_visitContainingShapes_shape =
    "target := NewMinDistanceToPointTarget(m.cell.Center()); return target.visitContainingShapes(index, v)" := rfl
theorem tie_MinDistanceToCellTarget_setMaxError_shape : DistTargetFns.MinDistanceToCellTarget_setMaxError_shape =
    "return false" := rfl
theorem tie_MinDistanceToCellTarget_maxBruteForceIndexSize_shape : DistTargetFns.MinDistanceToCellTarget_maxBruteForceIndexSize_shape =
    "return 30" := rfl
theorem tie_MinDistanceToCellTarget_distance_shape : DistTargetFns.MinDistanceToCellTarget_distance_shape =
    "return m.dist" := rfl
theorem tie_MinDistanceToShapeIndexTarget_capBound_shape : DistTargetFns.MinDistanceToShapeIndexTarget_capBound_shape =
    "return m.index.Region().CapBound()" := rfl
theorem tie_MinDistanceToShapeIndexTarget_updateDistanceToPoint_shape : DistTargetFns.MinDistanceToShapeIndexTarget_updateDistanceToPoint_shape =
    "m.query.opts.distanceLimit = dist.chordAngle(); target := NewMinDistanceToPointTarget(p); r := m.query.findEdge(target, m.query.opts); if cond0(r.shapeID) {return dist, false}; return r.distance, true" := rfl
theorem tie_MinDistanceToShapeIndexTarget_updateDistanceToEdge_shape : DistTargetFns.MinDistanceToShapeIndexTarget_updateDistanceToEdge_shape =
    "m.query.opts.distanceLimit = dist.chordAngle(); target := NewMinDistanceToEdgeTarget(edge); r := m.query.findEdge(target, m.query.opts); if cond0(r.shapeID) {return dist, false}; return r.distance, true" := rfl
theorem tie_MinDistanceToShapeIndexTarget_updateDistanceToCell_shape : DistTargetFns.MinDistanceToShapeIndexTarget_updateDistanceToCell_shape =
    "m.query.opts.distanceLimit = dist.chordAngle(); target := NewMinDistanceToCellTarget(cell); r := m.query.findEdge(target, m.query.opts); if cond0(r.shapeID) {return dist, false}; return r.distance, true" := rfl
theorem tie_MinDistanceToShapeIndexTarget_visitContainingShapes_shape : DistTargetFns.MinDistanceToShapeIndexTarget_visitContainingShapes_shape =
    "range _, shape := m.index.shapes {numChains := shape.NumChains(); testedPoint := false; for[c := 0] cond0(c, numChains) [c++] {chain := shape.Chain(c); if cond1(chain.Length) {continue}; testedPoint = true; target := NewMinDistanceToPointTarget(shape.ChainEdge(c, 0).V0); if cond2(target.visitContainingShapes(index, v)) {return false}}; if cond3(testedPoint) {ref := shape.ReferencePoint(); if cond4(ref.Contained) {continue}; target := NewMinDistanceToPointTarget(ref.Point); if cond5(target.visitContainingShapes(index, v)) {return false}}}; return true" := rfl
theorem tie_MinDistanceToShapeIndexTarget_setMaxError_shape : DistTargetFns.MinDistanceToShapeIndexTarget_setMaxError_shape =
    "m.query.opts.maxError = maxErr; return true" := rfl
theorem tie_MinDistanceToShapeIndexTarget_maxBruteForceIndexSize_shape : DistTargetFns.MinDistanceToShapeIndexTarget_maxBruteForceIndexSize_shape =
    "return 25" := rfl
theorem tie_MinDistanceToShapeIndexTarget_distance_shape : DistTargetFns.MinDistanceToShapeIndexTarget_distance_shape =
    "return m.dist" := rfl
theorem tie_MaxDistanceToPointTarget_capBound_shape : DistTargetFns.MaxDistanceToPointTarget_capBound_shape =
    "return CapFromCenterChordAngle(Point{m.point.Mul(-1)}, s1.ChordAngle(0))" := rfl
theorem tie_MaxDistanceToPointTarget_updateDistanceToPoint_shape : DistTargetFns.MaxDistanceToPointTarget_updateDistanceToPoint_shape =
    "return dist.updateDistance(maxDistance(ChordAngleBetweenPoints(p, m.point)))" := rfl
theorem tie_MaxDistanceToPointTarget_updateDistanceToEdge_shape : DistTargetFns.MaxDistanceToPointTarget_updateDistanceToEdge_shape =
    "if[d, ok := UpdateMaxDistance(m.point, edge.V0, edge.V1, dist.chordAngle())] cond0(ok) {dist, _ = dist.updateDistance(maxDistance(d)); return dist, true}; return dist, false" := rfl
theorem tie_MaxDistanceToPointTarget_updateDistanceToCell_shape : DistTargetFns.MaxDistanceToPointTarget_updateDistanceToCell_shape =
    "return dist.updateDistance(maxDistance(cell.MaxDistance(m.point)))" := rfl
theorem tie_MaxDistanceToPointTarget_visitContainingShapes_shape : DistTargetFns.MaxDistanceToPointTarget_visitContainingShapes_shape =
    "q := NewContainsPointQuery(index, VertexModelSemiOpen); return q.visitContainingShapes(Point{m.point.Mul(-1)}, func{return v(shape, m.point)})" := rfl
theorem tie_MaxDistanceToPointTarget_setMaxError_shape : DistTargetFns.MaxDistanceToPointTarget_setMaxError_shape =
    "return false" := rfl
theorem tie_MaxDistanceToPointTarget_maxBruteForceIndexSize_shape : DistTargetFns.MaxDistanceToPointTarget_maxBruteForceIndexSize_shape =
    "return 30" := rfl
theorem tie_MaxDistanceToPointTarget_distance_shape : DistTargetFns.MaxDistanceToPointTarget_distance_shape =
    "return m.dist" := rfl
theorem tie_MaxDistanceToEdgeTarget_capBound_shape : DistTargetFns.MaxDistanceToEdgeTarget_capBound_shape =
    "d2 := float64(ChordAngleBetweenPoints(m.e.V0, m.e.V1)); r2 := val0(d2, math.Sqrt(1 - 0.25*d2)); return CapFromCenterChordAngle(Point{m.e.V0.Add(m.e.V1.Vector).Mul(-1).Normalize()}, s1.ChordAngleFromSquaredLength(r2))" := rfl
theorem tie_MaxDistanceToEdgeTarget_updateDistanceToPoint_shape : DistTargetFns.MaxDistanceToEdgeTarget_updateDistanceToPoint_shape =
    "if[d, ok := UpdateMaxDistance(p, m.e.V0, m.e.V1, dist.chordAngle())] cond0(ok) {dist, _ = dist.updateDistance(maxDistance(d)); return dist, true}; return dist, false" := rfl
theorem tie_MaxDistanceToEdgeTarget_updateDistanceToEdge_shape : DistTargetFns.MaxDistanceToEdgeTarget_updateDistanceToEdge_shape =
    "if[d, ok := updateEdgePairMaxDistance(m.e.V0, m.e.V1, edge.V0, edge.V1, dist.chordAngle())] cond0(ok) {dist, _ = dist.updateDistance(maxDistance(d)); return dist, true}; return dist, false" := rfl
theorem tie_MaxDistanceToEdgeTarget_updateDistanceToCell_shape : DistTargetFns.MaxDistanceToEdgeTarget_updateDistanceToCell_shape =
    "return dist.updateDistance(maxDistance(cell.MaxDistanceToEdge(m.e.V0, m.e.V1)))" := rfl
theorem tie_MaxDistanceToEdgeTarget_visitContainingShapes_shape : DistTargetFns.MaxDistanceToEdgeTarget_visitContainingShapes_shape =
    "target := NewMaxDistanceToPointTarget(Point{m.e.V0.Add(m.e.V1.Vector).Normalize()}); return target.visitContainingShapes(index, v)" := rfl
theorem tie_MaxDistanceToEdgeTarget_setMaxError_shape : DistTargetFns.MaxDistanceToEdgeTarget_setMaxError_shape =
    "return false" := rfl
theorem tie_MaxDistanceToEdgeTarget_maxBruteForceIndexSize_shape : DistTargetFns.MaxDistanceToEdgeTarget_maxBruteForceIndexSize_shape =
    "return 30" := rfl
theorem tie_MaxDistanceToEdgeTarget_distance_shape : DistTargetFns.MaxDistanceToEdgeTarget_distance_shape =
    "return m.dist" := rfl
theorem tie_MaxDistanceToCellTarget_capBound_shape : DistTargetFns.MaxDistanceToCellTarget_capBound_shape =
    "c := m.cell.CapBound(); return CapFromCenterAngle(Point{c.Center().Mul(-1)}, c.Radius())" := rfl
theorem tie_MaxDistanceToCellTarget_updateDistanceToPoint_shape : DistTargetFns.MaxDistanceToCellTarget_updateDistanceToPoint_shape =
    "return dist.updateDistance(maxDistance(m.cell.MaxDistance(p)))" := rfl
theorem tie_MaxDistanceToCellTarget_updateDistanceToEdge_shape : DistTargetFns.MaxDistanceToCellTarget_updateDistanceToEdge_shape =
    "return dist.updateDistance(maxDistance(m.cell.MaxDistanceToEdge(edge.V0, edge.V1)))" := rfl
theorem tie_MaxDistanceToCellTarget_updateDistanceToCell_shape : DistTargetFns.MaxDistanceToCellTarget_updateDistanceToCell_shape =
    "return dist.updateDistance(maxDistance(m.cell.MaxDistanceToCell(cell)))" := rfl
theorem tie_MaxDistanceToCellTarget_visitContainingShapes_shape : DistTargetFns.MaxDistanceToCellTarget_visitContainingShapes_shape =
    "target := NewMaxDistanceToPointTarget(m.cell.Center()); return target.visitContainingShapes(index, v)" := rfl
theorem tie_MaxDistanceToCellTarget_setMaxError_shape : DistTargetFns.MaxDistanceToCellTarget_setMaxError_shape =
    "return false" := rfl
theorem tie_MaxDistanceToCellTarget_maxBruteForceIndexSize_shape : DistTargetFns.MaxDistanceToCellTarget_maxBruteForceIndexSize_shape =
    "return 30" := rfl
theorem tie_MaxDistanceToCellTarget_distance_shape : DistTargetFns.MaxDistanceToCellTarget_distance_shape =
    "return m.dist" := rfl
theorem tie_MaxDistanceToShapeIndexTarget_capBound_shape : DistTargetFns.MaxDistanceToShapeIndexTarget_capBound_shape =
    "c := m.index.Region().CapBound(); return CapFromCenterAngle(Point{c.Center().Mul(-1)}, c.Radius())" := rfl
theorem tie_MaxDistanceToShapeIndexTarget_updateDistanceToPoint_shape : DistTargetFns.MaxDistanceToShapeIndexTarget_updateDistanceToPoint_shape =
    "m.query.opts.distanceLimit = dist.chordAngle(); target := NewMaxDistanceToPointTarget(p); r := m.query.findEdge(target, m.query.opts); if cond0(r.shapeID) {return dist, false}; return r.distance, true" := rfl
theorem tie_MaxDistanceToShapeIndexTarget_updateDistanceToEdge_shape : DistTargetFns.MaxDistanceToShapeIndexTarget_updateDistanceToEdge_shape =
    "m.query.opts.distanceLimit = dist.chordAngle(); target := NewMaxDistanceToEdgeTarget(edge); r := m.query.findEdge(target, m.query.opts); if cond0(r.shapeID) {return dist, false}; return r.distance, true" := rfl
theorem tie_MaxDistanceToShapeIndexTarget_updateDistanceToCell_shape : DistTargetFns.MaxDistanceToShapeIndexTarget_updateDistanceToCell_shape =
    "m.query.opts.distanceLimit = dist.chordAngle(); target := NewMaxDistanceToCellTarget(cell); r := m.query.findEdge(target, m.query.opts); if cond0(r.shapeID) {return dist, false}; return r.distance, true" := rfl
theorem tie_MaxDistanceToShapeIndexTarget_visitContainingShapes_shape : DistTargetFns.MaxDistanceToShapeIndexTarget_visitContainingShapes_shape =
    "range _, shape := m.index.shapes {numChains := shape.NumChains(); testedPoint := false; for[c := 0] cond0(c, numChains) [c++] {chain := shape.Chain(c); if cond1(chain.Length) {continue}; testedPoint = true; target := NewMaxDistanceToPointTarget(shape.ChainEdge(c, 0).V0); if cond2(target.visitContainingShapes(index, v)) {return false}}; if cond3(testedPoint) {ref := shape.ReferencePoint(); if cond4(ref.Contained) {continue}; target := NewMaxDistanceToPointTarget(ref.Point); if cond5(target.visitContainingShapes(index, v)) {return false}}}; return true" := rfl
theorem tie_MaxDistanceToShapeIndexTarget_setMaxError_shape : DistTargetFns.MaxDistanceToShapeIndexTarget_setMaxError_shape =
    "m.query.opts.maxError = maxErr; return true" := rfl
theorem tie_MaxDistanceToShapeIndexTarget_maxBruteForceIndexSize_shape : DistTargetFns.MaxDistanceToShapeIndexTarget_maxBruteForceIndexSize_shape =
    "return 30" := rfl
theorem tie_MaxDistanceToShapeIndexTarget_distance_shape : DistTargetFns.MaxDistanceToShapeIndexTarget_distance_shape =
    "return m.dist" := rfl
section pins_DistTargetFns
open S2.Generated.DistTargetFns
theorem pin_ChordAngle_isSpecial_val0 (c : F64) (c_IsInfinity : Bool) :
    DistTargetFns.ChordAngle_isSpecial_val0 c c_IsInfinity = ((F64.lt c (⟨0x0000000000000000⟩ : F64)) || c_IsInfinity) := rfl
theorem pin_ChordAngle_Expanded_cond0 (c_isSpecial : Bool) :
    DistTargetFns.ChordAngle_Expanded_cond0 c_isSpecial = (c_isSpecial) := rfl
theorem pin_ChordAngle_Expanded_val0 (c : F64) (e : F64) :
    DistTargetFns.ChordAngle_Expanded_val0 c e = (F64.fmax (⟨0x0000000000000000⟩ : F64) (F64.fmin (⟨0x4010000000000000⟩ : F64) (F64.add c e))) := rfl
theorem pin_ChordAngle_MaxAngleError_val0 (dblEpsilon : F64) (c : F64) :
    DistTargetFns.ChordAngle_MaxAngleError_val0 dblEpsilon c = (F64.mul dblEpsilon c) := rfl
theorem pin_minDistance_less_val0 (m : F64) (other_chordAngle : F64) :
    DistTargetFns.minDistance_less_val0 m other_chordAngle = (F64.lt m other_chordAngle) := rfl
theorem pin_minDistance_sub_cond0 (m_chordAngle_IsInfinity : Bool) (m : F64) :
    DistTargetFns.minDistance_sub_cond0 m_chordAngle_IsInfinity m = (m_chordAngle_IsInfinity || (F64.lt m (⟨0x0000000000000000⟩ : F64))) := rfl
theorem pin_minDistance_sub_val0 (m : F64) (other_chordAngle : F64) :
    DistTargetFns.minDistance_sub_val0 m other_chordAngle = (ChordAngle_Sub m other_chordAngle) := rfl
theorem pin_minDistance_updateDistance_cond0 (dist_less_m : Bool) :
    DistTargetFns.minDistance_updateDistance_cond0 dist_less_m = (dist_less_m) := rfl
theorem pin_maxDistance_less_val0 (m : F64) (other_chordAngle : F64) :
    DistTargetFns.maxDistance_less_val0 m other_chordAngle = (F64.lt other_chordAngle m) := rfl
theorem pin_maxDistance_sub_cond0 (m_chordAngle_IsInfinity : Bool) (m : F64) :
    DistTargetFns.maxDistance_sub_cond0 m_chordAngle_IsInfinity m = (m_chordAngle_IsInfinity || (F64.lt m (⟨0x0000000000000000⟩ : F64))) := rfl
theorem pin_maxDistance_sub_val0 (m : F64) (other_chordAngle : F64) :
    DistTargetFns.maxDistance_sub_val0 m other_chordAngle = (ChordAngle_Add m other_chordAngle) := rfl
theorem pin_maxDistance_chordAngleBound_val0 (m : F64) :
    DistTargetFns.maxDistance_chordAngleBound_val0 m = (F64.sub (⟨0x4010000000000000⟩ : F64) m) := rfl
theorem pin_maxDistance_updateDistance_cond0 (dist_less_m : Bool) :
    DistTargetFns.maxDistance_updateDistance_cond0 dist_less_m = (dist_less_m) := rfl
theorem pin_MinDistanceToPointTarget_updateDistanceToEdge_cond0 (ok : Bool) :
    DistTargetFns.MinDistanceToPointTarget_updateDistanceToEdge_cond0 ok = (ok) := rfl
theorem pin_MinDistanceToEdgeTarget_capBound_val0 (d2 : F64) (math_Sqrt_1_0_25_d2 : F64) :
    DistTargetFns.MinDistanceToEdgeTarget_capBound_val0 d2 math_Sqrt_1_0_25_d2 = (F64.div (F64.mul (⟨0x3fe0000000000000⟩ : F64) d2) (F64.add (⟨0x3ff0000000000000⟩ : F64) math_Sqrt_1_0_25_d2)) := rfl
theorem pin_MinDistanceToEdgeTarget_updateDistanceToPoint_cond0 (ok : Bool) :
    DistTargetFns.MinDistanceToEdgeTarget_updateDistanceToPoint_cond0 ok = (ok) := rfl
theorem pin_MinDistanceToEdgeTarget_updateDistanceToEdge_cond0 (ok : Bool) :
    DistTargetFns.MinDistanceToEdgeTarget_updateDistanceToEdge_cond0 ok = (ok) := rfl
theorem pin_MinDistanceToShapeIndexTarget_updateDistanceToPoint_cond0 (r_shapeID : Int) :
    DistTargetFns.MinDistanceToShapeIndexTarget_updateDistanceToPoint_cond0 r_shapeID = (decide (r_shapeID < 0)) := rfl
theorem pin_MinDistanceToShapeIndexTarget_updateDistanceToEdge_cond0 (r_shapeID : Int) :
    DistTargetFns.MinDistanceToShapeIndexTarget_updateDistanceToEdge_cond0 r_shapeID = (decide (r_shapeID < 0)) := rfl
theorem pin_MinDistanceToShapeIndexTarget_updateDistanceToCell_cond0 (r_shapeID : Int) :
    DistTargetFns.MinDistanceToShapeIndexTarget_updateDistanceToCell_cond0 r_shapeID = (decide (r_shapeID < 0)) := rfl
theorem pin_MinDistanceToShapeIndexTarget_visitContainingShapes_cond0 (c : Int) (numChains : Int) :
    DistTargetFns.MinDistanceToShapeIndexTarget_visitContainingShapes_cond0 c numChains = (decide (c < numChains)) := rfl
theorem pin_MinDistanceToShapeIndexTarget_visitContainingShapes_cond1 (chain_Length : Int) :
    DistTargetFns.MinDistanceToShapeIndexTarget_visitContainingShapes_cond1 chain_Length = (chain_Length == 0) := rfl
theorem pin_MinDistanceToShapeIndexTarget_visitContainingShapes_cond2 (target_visitContainingShapes_index_v : Bool) :
    DistTargetFns.MinDistanceToShapeIndexTarget_visitContainingShapes_cond2 target_visitContainingShapes_index_v = (!target_visitContainingShapes_index_v) := rfl
theorem pin_MinDistanceToShapeIndexTarget_visitContainingShapes_cond3 (testedPoint : Bool) :
    DistTargetFns.MinDistanceToShapeIndexTarget_visitContainingShapes_cond3 testedPoint = (!testedPoint) := rfl
theorem pin_MinDistanceToShapeIndexTarget_visitContainingShapes_cond4 (ref_Contained : Bool) :
    DistTargetFns.MinDistanceToShapeIndexTarget_visitContainingShapes_cond4 ref_Contained = (!ref_Contained) := rfl
theorem pin_MinDistanceToShapeIndexTarget_visitContainingShapes_cond5 (target_visitContainingShapes_index_v : Bool) :
    DistTargetFns.MinDistanceToShapeIndexTarget_visitContainingShapes_cond5 target_visitContainingShapes_index_v = (!target_visitContainingShapes_index_v) := rfl
theorem pin_MaxDistanceToPointTarget_updateDistanceToEdge_cond0 (ok : Bool) :
    DistTargetFns.MaxDistanceToPointTarget_updateDistanceToEdge_cond0 ok = (ok) := rfl
theorem pin_MaxDistanceToEdgeTarget_capBound_val0 (d2 : F64) (math_Sqrt_1_0_25_d2 : F64) :
    DistTargetFns.MaxDistanceToEdgeTarget_capBound_val0 d2 math_Sqrt_1_0_25_d2 = (F64.div (F64.mul (⟨0x3fe0000000000000⟩ : F64) d2) (F64.add (⟨0x3ff0000000000000⟩ : F64) math_Sqrt_1_0_25_d2)) := rfl
theorem pin_MaxDistanceToEdgeTarget_updateDistanceToPoint_cond0 (ok : Bool) :
    DistTargetFns.MaxDistanceToEdgeTarget_updateDistanceToPoint_cond0 ok = (ok) := rfl
theorem pin_MaxDistanceToEdgeTarget_updateDistanceToEdge_cond0 (ok : Bool) :
    DistTargetFns.MaxDistanceToEdgeTarget_updateDistanceToEdge_cond0 ok = (ok) := rfl
theorem pin_MaxDistanceToShapeIndexTarget_updateDistanceToPoint_cond0 (r_shapeID : Int) :
    DistTargetFns.MaxDistanceToShapeIndexTarget_updateDistanceToPoint_cond0 r_shapeID = (decide (r_shapeID < 0)) := rfl
theorem pin_MaxDistanceToShapeIndexTarget_updateDistanceToEdge_cond0 (r_shapeID : Int) :
    DistTargetFns.MaxDistanceToShapeIndexTarget_updateDistanceToEdge_cond0 r_shapeID = (decide (r_shapeID < 0)) := rfl
theorem pin_MaxDistanceToShapeIndexTarget_updateDistanceToCell_cond0 (r_shapeID : Int) :
    DistTargetFns.MaxDistanceToShapeIndexTarget_updateDistanceToCell_cond0 r_shapeID = (decide (r_shapeID < 0)) := rfl
theorem pin_MaxDistanceToShapeIndexTarget_visitContainingShapes_cond0 (c : Int) (numChains : Int) :
    DistTargetFns.MaxDistanceToShapeIndexTarget_visitContainingShapes_cond0 c numChains = (decide (c < numChains)) := rfl
theorem pin_MaxDistanceToShapeIndexTarget_visitContainingShapes_cond1 (chain_Length : Int) :
    DistTargetFns.MaxDistanceToShapeIndexTarget_visitContainingShapes_cond1 chain_Length = (chain_Length == 0) := rfl
theorem pin_MaxDistanceToShapeIndexTarget_visitContainingShapes_cond2 (target_visitContainingShapes_index_v : Bool) :
    DistTargetFns.MaxDistanceToShapeIndexTarget_visitContainingShapes_cond2 target_visitContainingShapes_index_v = (!target_visitContainingShapes_index_v) := rfl
theorem pin_MaxDistanceToShapeIndexTarget_visitContainingShapes_cond3 (testedPoint : Bool) :
    DistTargetFns.MaxDistanceToShapeIndexTarget_visitContainingShapes_cond3 testedPoint = (!testedPoint) := rfl
theorem pin_MaxDistanceToShapeIndexTarget_visitContainingShapes_cond4 (ref_Contained : Bool) :
    DistTargetFns.MaxDistanceToShapeIndexTarget_visitContainingShapes_cond4 ref_Contained = (!ref_Contained) := rfl
theorem pin_MaxDistanceToShapeIndexTarget_visitContainingShapes_cond5 (target_visitContainingShapes_index_v : Bool) :
    DistTargetFns.MaxDistanceToShapeIndexTarget_visitContainingShapes_cond5 target_visitContainingShapes_index_v = (!target_visitContainingShapes_index_v) := rfl
end pins_DistTargetFns
/-- number of extracted conditions / values per function, in generation order -/
theorem tie_counts_DistTargetFns :
    [(DistTargetFns.InfChordAngle_numConds, DistTargetFns.InfChordAngle_numVals), (DistTargetFns.ChordAngle_IsInfinity_numConds, DistTargetFns.ChordAngle_IsInfinity_numVals), (DistTargetFns.ChordAngle_isSpecial_numConds, DistTargetFns.ChordAngle_isSpecial_numVals), (DistTargetFns.ChordAngle_Expanded_numConds, DistTargetFns.ChordAngle_Expanded_numVals), (DistTargetFns.ChordAngle_MaxAngleError_numConds, DistTargetFns.ChordAngle_MaxAngleError_numVals), (DistTargetFns.minDistance_chordAngle_numConds, DistTargetFns.minDistance_chordAngle_numVals), (DistTargetFns.minDistance_zero_numConds, DistTargetFns.minDistance_zero_numVals), (DistTargetFns.minDistance_negative_numConds, DistTargetFns.minDistance_negative_numVals), (DistTargetFns.minDistance_infinity_numConds, DistTargetFns.minDistance_infinity_numVals), (DistTargetFns.minDistance_less_numConds, DistTargetFns.minDistance_less_numVals), (DistTargetFns.minDistance_sub_numConds, DistTargetFns.minDistance_sub_numVals), (DistTargetFns.minDistance_chordAngleBound_numConds, DistTargetFns.minDistance_chordAngleBound_numVals), (DistTargetFns.minDistance_updateDistance_numConds, DistTargetFns.minDistance_updateDistance_numVals), (DistTargetFns.minDistance_fromChordAngle_numConds, DistTargetFns.minDistance_fromChordAngle_numVals), (DistTargetFns.maxDistance_chordAngle_numConds, DistTargetFns.maxDistance_chordAngle_numVals), (DistTargetFns.maxDistance_zero_numConds, DistTargetFns.maxDistance_zero_numVals), (DistTargetFns.maxDistance_negative_numConds, DistTargetFns.maxDistance_negative_numVals), (DistTargetFns.maxDistance_infinity_numConds, DistTargetFns.maxDistance_infinity_numVals), (DistTargetFns.maxDistance_less_numConds, DistTargetFns.maxDistance_less_numVals), (DistTargetFns.maxDistance_sub_numConds, DistTargetFns.maxDistance_sub_numVals), (DistTargetFns.maxDistance_chordAngleBound_numConds, DistTargetFns.maxDistance_chordAngleBound_numVals), (DistTargetFns.maxDistance_updateDistance_numConds, DistTargetFns.maxDistance_updateDistance_numVals), (DistTargetFns.maxDistance_fromChordAngle_numConds, DistTargetFns.maxDistance_fromChordAngle_numVals), (DistTargetFns.MinDistanceToPointTarget_capBound_numConds, DistTargetFns.MinDistanceToPointTarget_capBound_numVals), (DistTargetFns.MinDistanceToPointTarget_updateDistanceToPoint_numConds, DistTargetFns.MinDistanceToPointTarget_updateDistanceToPoint_numVals), (DistTargetFns.MinDistanceToPointTarget_updateDistanceToEdge_numConds, DistTargetFns.MinDistanceToPointTarget_updateDistanceToEdge_numVals), (DistTargetFns.MinDistanceToPointTarget_updateDistanceToCell_numConds, DistTargetFns.MinDistanceToPointTarget_updateDistanceToCell_numVals), (DistTargetFns.MinDistanceToPointTarget_visitContainingShapes_numConds, DistTargetFns.MinDistanceToPointTarget_visitContainingShapes_numVals), (DistTargetFns.MinDistanceToPointTarget_setMaxError_numConds, DistTargetFns.MinDistanceToPointTarget_setMaxError_numVals), (DistTargetFns.MinDistanceToPointTarget_maxBruteForceIndexSize_numConds, DistTargetFns.MinDistanceToPointTarget_maxBruteForceIndexSize_numVals), (DistTargetFns.MinDistanceToPointTarget_distance_numConds, DistTargetFns.MinDistanceToPointTarget_distance_numVals), (DistTargetFns.MinDistanceToEdgeTarget_capBound_numConds, DistTargetFns.MinDistanceToEdgeTarget_capBound_numVals), (DistTargetFns.MinDistanceToEdgeTarget_updateDistanceToPoint_numConds, DistTargetFns.MinDistanceToEdgeTarget_updateDistanceToPoint_numVals), (DistTargetFns.MinDistanceToEdgeTarget_updateDistanceToEdge_numConds, DistTargetFns.MinDistanceToEdgeTarget_updateDistanceToEdge_numVals), (DistTargetFns.MinDistanceToEdgeTarget_updateDistanceToCell_numConds, DistTargetFns.MinDistanceToEdgeTarget_updateDistanceToCell_numVals), (DistTargetFns.MinDistanceToEdgeTarget_visitContainingShapes_numConds, DistTargetFns.MinDistanceToEdgeTarget_visitContainingShapes_numVals), (DistTargetFns.MinDistanceToEdgeTarget_setMaxError_numConds, DistTargetFns.MinDistanceToEdgeTarget_setMaxError_numVals), (DistTargetFns.MinDistanceToEdgeTarget_maxBruteForceIndexSize_numConds, DistTargetFns.MinDistanceToEdgeTarget_maxBruteForceIndexSize_numVals), (DistTargetFns.MinDistanceToEdgeTarget_distance_numConds, DistTargetFns.MinDistanceToEdgeTarget_distance_numVals), (DistTargetFns.MinDistanceToCellTarget_capBound_numConds, DistTargetFns.MinDistanceToCellTarget_capBound_numVals), (DistTargetFns.MinDistanceToCellTarget_updateDistanceToPoint_numConds, DistTargetFns.MinDistanceToCellTarget_updateDistanceToPoint_numVals), (DistTargetFns.MinDistanceToCellTarget_updateDistanceToEdge_numConds, DistTargetFns.MinDistanceToCellTarget_updateDistanceToEdge_numVals), (DistTargetFns.MinDistanceToCellTarget_updateDistanceToCell_numConds, DistTargetFns.MinDistanceToCellTarget_updateDistanceToCell_numVals), (DistTargetFns.MinDistanceToCellTarget_visitContainingShapes_numConds, DistTargetFns.MinDistanceToCellTarget_visitContainingShapes_numVals), (DistTargetFns.MinDistanceToCellTarget_setMaxError_numConds, DistTargetFns.MinDistanceToCellTarget_setMaxError_numVals), (DistTargetFns.MinDistanceToCellTarget_maxBruteForceIndexSize_numConds, DistTargetFns.MinDistanceToCellTarget_maxBruteForceIndexSize_numVals), (DistTargetFns.MinDistanceToCellTarget_distance_numConds, DistTargetFns.MinDistanceToCellTarget_distance_numVals), (DistTargetFns.MinDistanceToShapeIndexTarget_capBound_numConds, DistTargetFns.MinDistanceToShapeIndexTarget_capBound_numVals), (DistTargetFns.MinDistanceToShapeIndexTarget_updateDistanceToPoint_numConds, DistTargetFns.MinDistanceToShapeIndexTarget_updateDistanceToPoint_numVals), (DistTargetFns.MinDistanceToShapeIndexTarget_updateDistanceToEdge_numConds, DistTargetFns.MinDistanceToShapeIndexTarget_updateDistanceToEdge_numVals), (DistTargetFns.MinDistanceToShapeIndexTarget_updateDistanceToCell_numConds, DistTargetFns.MinDistanceToShapeIndexTarget_updateDistanceToCell_numVals), (DistTargetFns.MinDistanceToShapeIndexTarget_visitContainingShapes_numConds, DistTargetFns.MinDistanceToShapeIndexTarget_visitContainingShapes_numVals), (DistTargetFns.MinDistanceToShapeIndexTarget_setMaxError_numConds, DistTargetFns.MinDistanceToShapeIndexTarget_setMaxError_numVals), (DistTargetFns.MinDistanceToShapeIndexTarget_maxBruteForceIndexSize_numConds, DistTargetFns.MinDistanceToShapeIndexTarget_maxBruteForceIndexSize_numVals), (DistTargetFns.MinDistanceToShapeIndexTarget_distance_numConds, DistTargetFns.MinDistanceToShapeIndexTarget_distance_numVals), (DistTargetFns.MaxDistanceToPointTarget_capBound_numConds, DistTargetFns.MaxDistanceToPointTarget_capBound_numVals), (DistTargetFns.MaxDistanceToPointTarget_updateDistanceToPoint_numConds, DistTargetFns.MaxDistanceToPointTarget_updateDistanceToPoint_numVals), (DistTargetFns.MaxDistanceToPointTarget_updateDistanceToEdge_numConds, DistTargetFns.MaxDistanceToPointTarget_updateDistanceToEdge_numVals), (DistTargetFns.MaxDistanceToPointTarget_updateDistanceToCell_numConds, DistTargetFns.MaxDistanceToPointTarget_updateDistanceToCell_numVals), (DistTargetFns.MaxDistanceToPointTarget_visitContainingShapes_numConds, DistTargetFns.MaxDistanceToPointTarget_visitContainingShapes_numVals), (DistTargetFns.MaxDistanceToPointTarget_setMaxError_numConds, DistTargetFns.MaxDistanceToPointTarget_setMaxError_numVals), (DistTargetFns.MaxDistanceToPointTarget_maxBruteForceIndexSize_numConds, DistTargetFns.MaxDistanceToPointTarget_maxBruteForceIndexSize_numVals), (DistTargetFns.MaxDistanceToPointTarget_distance_numConds, DistTargetFns.MaxDistanceToPointTarget_distance_numVals), (DistTargetFns.MaxDistanceToEdgeTarget_capBound_numConds, DistTargetFns.MaxDistanceToEdgeTarget_capBound_numVals), (DistTargetFns.MaxDistanceToEdgeTarget_updateDistanceToPoint_numConds, DistTargetFns.MaxDistanceToEdgeTarget_updateDistanceToPoint_numVals), (DistTargetFns.MaxDistanceToEdgeTarget_updateDistanceToEdge_numConds, DistTargetFns.MaxDistanceToEdgeTarget_updateDistanceToEdge_numVals), (DistTargetFns.MaxDistanceToEdgeTarget_updateDistanceToCell_numConds, DistTargetFns.MaxDistanceToEdgeTarget_updateDistanceToCell_numVals), (DistTargetFns.MaxDistanceToEdgeTarget_visitContainingShapes_numConds, DistTargetFns.MaxDistanceToEdgeTarget_visitContainingShapes_numVals), (DistTargetFns.MaxDistanceToEdgeTarget_setMaxError_numConds, DistTargetFns.MaxDistanceToEdgeTarget_setMaxError_numVals), (DistTargetFns.MaxDistanceToEdgeTarget_maxBruteForceIndexSize_numConds, DistTargetFns.MaxDistanceToEdgeTarget_maxBruteForceIndexSize_numVals), (DistTargetFns.MaxDistanceToEdgeTarget_distance_numConds, DistTargetFns.MaxDistanceToEdgeTarget_distance_numVals), (DistTargetFns.MaxDistanceToCellTarget_capBound_numConds, DistTargetFns.MaxDistanceToCellTarget_capBound_numVals), (DistTargetFns.MaxDistanceToCellTarget_updateDistanceToPoint_numConds, DistTargetFns.MaxDistanceToCellTarget_updateDistanceToPoint_numVals), (DistTargetFns.MaxDistanceToCellTarget_updateDistanceToEdge_numConds, DistTargetFns.MaxDistanceToCellTarget_updateDistanceToEdge_numVals), (DistTargetFns.MaxDistanceToCellTarget_updateDistanceToCell_numConds, DistTargetFns.MaxDistanceToCellTarget_updateDistanceToCell_numVals), (DistTargetFns.MaxDistanceToCellTarget_visitContainingShapes_numConds, DistTargetFns.MaxDistanceToCellTarget_visitContainingShapes_numVals), (DistTargetFns.MaxDistanceToCellTarget_setMaxError_numConds, DistTargetFns.MaxDistanceToCellTarget_setMaxError_numVals), (DistTargetFns.MaxDistanceToCellTarget_maxBruteForceIndexSize_numConds, DistTargetFns.MaxDistanceToCellTarget_maxBruteForceIndexSize_numVals), (DistTargetFns.MaxDistanceToCellTarget_distance_numConds, DistTargetFns.MaxDistanceToCellTarget_distance_numVals), (DistTargetFns.MaxDistanceToShapeIndexTarget_capBound_numConds, DistTargetFns.MaxDistanceToShapeIndexTarget_capBound_numVals), (DistTargetFns.MaxDistanceToShapeIndexTarget_updateDistanceToPoint_numConds, DistTargetFns.MaxDistanceToShapeIndexTarget_updateDistanceToPoint_numVals), (DistTargetFns.MaxDistanceToShapeIndexTarget_updateDistanceToEdge_numConds, DistTargetFns.MaxDistanceToShapeIndexTarget_updateDistanceToEdge_numVals), (DistTargetFns.MaxDistanceToShapeIndexTarget_updateDistanceToCell_numConds, DistTargetFns.MaxDistanceToShapeIndexTarget_updateDistanceToCell_numVals), (DistTargetFns.MaxDistanceToShapeIndexTarget_visitContainingShapes_numConds, DistTargetFns.MaxDistanceToShapeIndexTarget_visitContainingShapes_numVals), (DistTargetFns.MaxDistanceToShapeIndexTarget_setMaxError_numConds, DistTargetFns.MaxDistanceToShapeIndexTarget_setMaxError_numVals), (DistTargetFns.MaxDistanceToShapeIndexTarget_maxBruteForceIndexSize_numConds, DistTargetFns.MaxDistanceToShapeIndexTarget_maxBruteForceIndexSize_numVals), (DistTargetFns.MaxDistanceToShapeIndexTarget_distance_numConds, DistTargetFns.MaxDistanceToShapeIndexTarget_distance_numVals)] =
    [(0, 0), (0, 0), (0, 1), (1, 1), (0, 1), (0, 0), (0, 0), (0, 0), (0, 0), (0, 1), (1, 1), (0, 0), (1, 0), (0, 0), (0, 0), (0, 0), (0, 0), (0, 0), (0, 1), (1, 1), (0, 1), (1, 0), (0, 0), (0, 0), (0, 0), (1, 0), (0, 0), (0, 0), (0, 0), (0, 0), (0, 0), (0, 1), (1, 0), (1, 0), (0, 0), (0, 0), (0, 0), (0, 0), (0, 0), (0, 0), (0, 0), (0, 0), (0, 0), (0, 0), (0, 0), (0, 0), (0, 0), (0, 0), (1, 0), (1, 0), (1, 0), (6, 0), (0, 0), (0, 0), (0, 0), (0, 0), (0, 0), (1, 0), (0, 0), (0, 0), (0, 0), (0, 0), (0, 0), (0, 1), (1, 0), (1, 0), (0, 0), (0, 0), (0, 0), (0, 0), (0, 0), (0, 0), (0, 0), (0, 0), (0, 0), (0, 0), (0, 0), (0, 0), (0, 0), (0, 0), (1, 0), (1, 0), (1, 0), (6, 0), (0, 0), (0, 0), (0, 0)] := rfl

end S2Proofs.Ties.C08_Query
