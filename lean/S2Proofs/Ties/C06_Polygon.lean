/-
  S2Proofs.Ties.C06_Polygon — regenerated-instance obligations for `Polygon.Edge / Chain /
  ChainPosition` (package c06deep).  translator_c06 now extracts these three accessors from
  s2/polygon.go with the two-variable loop primitives `forInc2` / `rangeBreak2`
  (S2/ShapesLoops.lean); the hand model (S2/Shapes.lean: `linSearch`, `cumSearch`, `sumLens` by
  structural recursion over the slices) — about which `polygon_contract` is proved — is EQUAL to the
  regenerated function, for every state and argument (no well-formedness hypothesis: the fuel
  `len(p.loops) + 1` of the regenerated loops always suffices, because `p.Loop(i)` panics at
  `i = len(p.loops)`).  The equalities are proved (induction over the slice suffix), not `rfl`.
-/
import S2.Shapes
import S2.Generated.ShapeAccessors
import S2Proofs.Properties.C06_Polygon
import S2Proofs.C06.PolygonLoops
namespace S2Proofs.Ties.C06
open S2 S2.Shapes S2Proofs.C06

theorem tie_Loop_NumVertices (s : LoopS) : Generated.Loop.NumVertices s = (s.n : Int) := rfl

theorem tie_Polygon_ChainPosition : Shapes.Polygon.ChainPosition = Generated.Polygon.ChainPosition := by
  funext s e
  unfold Generated.Polygon.ChainPosition Shapes.Polygon.ChainPosition
  rw [← search_eq s e _ _ _ _ (fun _ _ => rfl) (fun _ _ => rfl) (fun _ _ => rfl) (fun _ _ => rfl)]
  by_cases h : s.cumLen > 0
  · simp [h, bind_pair_eta]
  · simp [h, bind_pair_eta]

theorem tie_Polygon_Edge : Shapes.Polygon.Edge = Generated.Polygon.Edge := by
  funext s e
  have hov : Generated.Loop.OrientedVertex = Shapes.Loop.OrientedVertex := rfl
  unfold Generated.Polygon.Edge Shapes.Polygon.Edge
  rw [← search_eq s e _ _ _ _ (fun _ _ => rfl) (fun _ _ => rfl) (fun _ _ => rfl) (fun _ _ => rfl)]
  by_cases h : s.cumLen > 0
  · simp [h, bind_pair_eta, hov]
  · simp [h, bind_pair_eta, hov]

theorem tie_Polygon_Chain : Shapes.Polygon.Chain = Generated.Polygon.Chain := by
  funext s chainID
  unfold Generated.Polygon.Chain Shapes.Polygon.Chain
  cases hc : s.cumulativeEdges with
  | some c => simp [PolygonS.cumAt, hc]
  | none =>
    have hsum := forInc2_sumLens s chainID (fun j e => do pure (decide (j < chainID)))
      (fun j e => do let t203 ← s.loopAt j; pure (e + (t203.n : Int))) (fun _ _ => rfl) (fun _ _ => rfl) s.loops [] 0 rfl
    simp only [List.length_nil] at hsum
    have e0 : ((0 : Nat) : Int) = 0 := rfl
    rw [e0] at hsum
    simp only [ne_eq, not_true_eq_false, if_false]
    rw [← hsum]
    have hf : s.fuel = s.loops.length + 1 := rfl
    rw [hf]
    generalize forInc2 (fun j e => do pure (decide (j < chainID))) (fun j e => do let t203 ← s.loopAt j; pure (e + (t203.n : Int))) (s.loops.length + 1) 0 0 = X
    cases X with
    | none => rfl
    | some p => rfl

/-- the accessor record made of the REGENERATED Polygon accessors only -/
def Polygon.accGenerated (s : PolygonS) : ShapeAcc (Int × Int) :=
  ⟨some (Generated.Polygon.NumEdges s), some (Generated.Polygon.NumChains s), Generated.Polygon.Edge s,
   Generated.Polygon.Chain s, Generated.Polygon.ChainEdge s, Generated.Polygon.ChainPosition s⟩

theorem Polygon_accGenerated_eq : Polygon.accGenerated = Shapes.Polygon.acc := by
  funext s
  have h1 : Shapes.Polygon.ChainEdge = Generated.Polygon.ChainEdge := rfl
  unfold Polygon.accGenerated Shapes.Polygon.acc
  rw [tie_Polygon_Edge, tie_Polygon_Chain, tie_Polygon_ChainPosition, h1]
  rfl

/-- what is known about the Polygon accessors that are in the tree right now: the Shape contract,
    for every valid loop list (all six accessors regenerated from s2/polygon.go). -/
theorem Polygon_generated_contract (loops : List LoopS) (hv : S2Proofs.C06.PolyValid loops) :
    Contract (Polygon.accGenerated (PolygonS.fromLoops loops)) (Generated.Polygon.NumEdges (PolygonS.fromLoops loops))
      (Generated.Polygon.NumChains (PolygonS.fromLoops loops)) := by
  rw [Polygon_accGenerated_eq]
  exact S2Proofs.C06.polygon_contract loops hv

end S2Proofs.Ties.C06
