/-
  S2Proofs.Ties.C05_Cap — regenerated-instance obligations for the cap-versus-cell predicates of s2/cap.go
  (`Cap.ContainsCell`, `Cap.IntersectsCell`, `Cap.intersects`).

  `S2.Generated.RegionFns.Cap_*` is rewritten from the Go source on every run of ./check (translator_c07, skeleton
  extraction over the bit-exact soft-float).  The theorems say that the hand model `S2.CapCell` (the one the
  soundness theorems of `Properties/C05_Cap.lean` are about and the oracle op `pred cap` executes) evaluates exactly
  the regenerated conditions / values, in the Go statement order recorded by the shape strings (pinned in
  `Ties/C05_RegionsPins.lean`; repeated here for the three functions so that this file alone breaks when cap.go changes).
  Atoms of the skeleton that are calls into other files are tied elsewhere: `c.ContainsPoint`, `c.Complement`, `c.IsEmpty`
  (Ties/C19_Cap.lean), `c.radius.Sin2()` (Ties/C19_Chord.lean), `cell.Vertex/Edge/ContainsPoint` (Ties/C12_Cell.lean).
-/
import S2.CapCell
import S2.Generated.RegionFns
namespace S2Proofs.Ties.C05_Cap
open S2 S2.CapCell S2.CellM S2.CapF64 S2.Generated S2.Generated.RegionFns

/-! ### statement structure -/
theorem tie_intersects_shape : Cap_intersects_shape =
    "if cond0⟨c.radius⟩ {return false}; if cond1⟨c.IsEmpty()⟩ {return false}; if cond2⟨cell.ContainsPoint(c.center)⟩ {return true}; sin2Angle := c.radius.Sin2(); for[k := 0] cond3⟨k⟩ [k++] {edge := cell.Edge(k).Vector; dot := val0⟨c.center; edge⟩; if cond4⟨dot⟩ {continue}; if cond5⟨dot; sin2Angle; edge⟩ {return false}; dir := val1⟨edge; c.center⟩; if cond6⟨dir; vertices[k]; vertices[(val2⟨k⟩) & 3]⟩ {return true}}; return false" := rfl
theorem tie_IntersectsCell_shape : Cap_IntersectsCell_shape =
    "var vertices [4]Point; for[k := 0] cond0⟨k⟩ [k++] {vertices[k] = cell.Vertex(k); if cond1⟨c.ContainsPoint(vertices[k])⟩ {return true}}; return c.intersects(cell, vertices)" := rfl
theorem tie_ContainsCell_shape : Cap_ContainsCell_shape =
    "var vertices [4]Point; for[k := 0] cond0⟨k⟩ [k++] {vertices[k] = cell.Vertex(k); if cond1⟨c.ContainsPoint(vertices[k])⟩ {return false}}; return val0⟨c.Complement().intersects(cell, vertices)⟩" := rfl
theorem tie_intersects_exprs : Cap_intersects_exprs =
    "cond0: c.radius >= s1.RightChordAngle | cond1: c.IsEmpty() | cond2: cell.ContainsPoint(c.center) | cond3: k < 4 | val0: c.center.Dot(edge) | cond4: dot > 0 | cond5: dot*(dot+capEdgeDotError) > sin2Angle*edge.Norm2() | val1: edge.Cross(c.center.Vector) | val2: k + 1 | cond6: dir.Dot(vertices[k].Vector) < 0 && dir.Dot(vertices[(k+1)&3].Vector) > 0" := rfl
theorem tie_counts :
    (Cap_intersects_numConds, Cap_intersects_numVals, Cap_IntersectsCell_numConds, Cap_IntersectsCell_numVals,
     Cap_ContainsCell_numConds, Cap_ContainsCell_numVals) = (7, 3, 2, 0, 2, 1) := rfl

/-- the rejection test after repair D59: the allowance enters as the literal the compiler materialises for
    `16 * dblEpsilon` (2^-48), the model's `capEdgeDotError` -/
theorem tie_cond5 (dot sin2Angle : F64) (edge : V3) :
    Cap_intersects_cond5 dot sin2Angle edge = F64.gt (dot * (dot + capEdgeDotError)) (sin2Angle * edge.norm2) := rfl
/-- `capEdgeDotError = float64(16) * float64(dblEpsilon)` (both factors and the product are exact) -/
theorem tie_capEdgeDotError :
    capEdgeDotError = F64.mul ⟨0x4030000000000000⟩ ⟨0x3cb0000000000000⟩ := by decide +kernel

/-! ### `Cap.intersects`: one loop iteration = the regenerated tests in the Go order -/

/-- `(k+1)&3` of the Go code for `k = 0..3` is `(k+1) % 4` of the model -/
theorem tie_next_vertex : ∀ k : Nat, k < 4 → ((Cap_intersects_val2 (k : Int)).toNat &&& 3) = (k + 1) % 4 := by decide

theorem tie_edgeStep (c : Cap) (sin2Angle : F64) (cell : Cell) (k : Nat) :
    edgeStep c sin2Angle cell k =
      (let edge := CellM.edge cell k
       let dot := Cap_intersects_val0 c.center edge
       if Cap_intersects_cond4 dot then none
       else if Cap_intersects_cond5 dot sin2Angle edge then some false
       else if Cap_intersects_cond6 (Cap_intersects_val1 edge c.center) (CellM.vertex cell k) (CellM.vertex cell ((k + 1) % 4))
         then some true else none) := rfl

/-- the loop runs `k = 0, 1, 2, 3` (`cond3 = k < 4`) and returns `false` after it -/
theorem tie_edgeLoop (c : Cap) (s : F64) (cell : Cell) :
    edgeLoop c s cell 0 4 =
      (match edgeStep c s cell 0 with
       | some b => b
       | none => match edgeStep c s cell 1 with
         | some b => b
         | none => match edgeStep c s cell 2 with
           | some b => b
           | none => match edgeStep c s cell 3 with
             | some b => b
             | none => false) ∧
    Cap_intersects_cond3 0 = true ∧ Cap_intersects_cond3 3 = true ∧ Cap_intersects_cond3 4 = false := ⟨rfl, rfl, rfl, rfl⟩

theorem tie_intersects (c : Cap) (cell : Cell) :
    intersects c cell =
      (if Cap_intersects_cond0 c.radius then false
       else if Cap_intersects_cond1 c.isEmpty then false
       else if Cap_intersects_cond2 (CellM.containsPoint cell c.center) then true
       else edgeLoop c (Chord.sin2 c.radius) cell 0 4) := rfl

/-! ### `Cap.IntersectsCell`, `Cap.ContainsCell` -/

theorem tie_intersectsCell (c : Cap) (cell : Cell) :
    intersectsCell c cell =
      (if Cap_IntersectsCell_cond1 (c.containsPoint (CellM.vertex cell 0)) then true
       else if Cap_IntersectsCell_cond1 (c.containsPoint (CellM.vertex cell 1)) then true
       else if Cap_IntersectsCell_cond1 (c.containsPoint (CellM.vertex cell 2)) then true
       else if Cap_IntersectsCell_cond1 (c.containsPoint (CellM.vertex cell 3)) then true
       else intersects c cell) := rfl

theorem tie_containsCell (c : Cap) (cell : Cell) :
    containsCell c cell =
      (if Cap_ContainsCell_cond1 (c.containsPoint (CellM.vertex cell 0)) then false
       else if Cap_ContainsCell_cond1 (c.containsPoint (CellM.vertex cell 1)) then false
       else if Cap_ContainsCell_cond1 (c.containsPoint (CellM.vertex cell 2)) then false
       else if Cap_ContainsCell_cond1 (c.containsPoint (CellM.vertex cell 3)) then false
       else Cap_ContainsCell_val0 (intersects c.complement cell)) := rfl

/-- the coverer's region of a cap is the pair of the two methods on `CellFromCellID(id)` -/
theorem tie_capRegion (c : Cap) (id : CellID) :
    (capRegion c).containsCell id = containsCell c (cellFromCellID id) ∧
    (capRegion c).intersectsCell id = intersectsCell c (cellFromCellID id) := ⟨rfl, rfl⟩

end S2Proofs.Ties.C05_Cap
