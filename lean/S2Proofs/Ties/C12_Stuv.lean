/-
  S2Proofs.Ties.C12_Stuv — regenerated-instance obligations for the parts of s2/stuv.go that the cell model
  (`S2.CellM`) adds to `S2.STUV`: `faceXYZToUV`, `faceXYZtoUVW`, `uNorm`, `vNorm`.  The functions shared with the
  cell-id model are tied in Ties/C01_Stuv.lean (same generated file `S2.Generated.StuvFns`, translator_c09).
-/
import S2.CellM
import S2.Generated.StuvFns
import S2Proofs.Ties.C01_Stuv
namespace S2Proofs.Ties.C12_Stuv
open S2 S2.STUV S2.CellM S2.Generated

theorem tie_faceXYZtoUVW (f : Nat) (p : V3) : faceXYZtoUVW f p = StuvFns.faceXYZtoUVW f p := rfl
theorem tie_uNorm (f : Nat) (u : F64) : uNorm f u = StuvFns.uNorm f u := rfl
theorem tie_vNorm (f : Nat) (v : F64) : vNorm f v = StuvFns.vNorm f v := rfl

private theorem hz : (⟨0x0000000000000000⟩ : F64) = fzero := rfl

/-- Go returns `(u, v, ok)`; the hand model returns `none` for `ok = false`. -/
theorem tie_faceXYZToUV (f : Nat) (p : V3) :
    faceXYZToUV f p = (let r := StuvFns.faceXYZToUV f p; if r.2.2 then some (r.1, r.2.1) else none) := by
  unfold faceXYZToUV StuvFns.faceXYZToUV
  rw [hz]
  match f with
  | 0 | 1 | 2 | 3 | 4 => simp only []; split <;> simp [*]
  | n+5 => simp only []; split <;> simp [*]

/-! the float functions used by `CellFromCellID` / `ContainsPoint` / the distance functions (restated for this property) -/
theorem tie_stToUV (s : F64) : stToUV s = StuvFns.stToUV s := C01_Stuv.tie_stToUV s
theorem tie_ijToSTMin (i : Int) : ijToSTMin i = StuvFns.ijToSTMin i := C01_Stuv.tie_ijToSTMin i
theorem tie_validFaceXYZToUV (f : Nat) (r : V3) : validFaceXYZToUV f r = StuvFns.validFaceXYZToUV f r := C01_Stuv.tie_validFaceXYZToUV f r
theorem tie_faceUVToXYZ (f : Nat) (u v : F64) : faceUVToXYZ f u v = StuvFns.faceUVToXYZ f u v := C01_Stuv.tie_faceUVToXYZ f u v
theorem tie_Dot (v o : V3) : v.dot o = StuvFns.Vector_Dot v o := C01_Stuv.tie_Dot v o
theorem tie_Cross (v o : V3) : v.cross o = StuvFns.Vector_Cross v o := C01_Stuv.tie_Cross v o
theorem tie_Normalize (v : V3) : v.normalize = StuvFns.Vector_Normalize v := C01_Stuv.tie_Normalize v

end S2Proofs.Ties.C12_Stuv
