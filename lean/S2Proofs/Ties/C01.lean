/-
  S2Proofs.Ties.C01 — regenerated-instance obligations for s2/cellid.go.

  `S2.Generated.CellIDFns.*` is rewritten from the Go source on every run by translator_c01
  (expression by expression; go/types evaluates the constants).  Each theorem below says that the
  hand-written model `S2.CellID.*` / `S2.Hilbert.*`, about which S2Proofs/Properties/C01 (and C11, C12 …)
  prove their theorems, IS the regenerated function.  A flipped operator, a changed constant or table
  entry, an off-by-one in the Go source makes the corresponding theorem fail to build.

  Where the hand model has a different shape the tie is a short proof instead of `rfl`:
   * variable shift counts: the generated code uses `shl64/shr64` (Go semantics: 0 for counts ≥ 64),
     the hand model shifts directly after noting that the count `2*(30-level)+1 ≤ 61`;
   * `Level`: Go calls `findLSBSetNonZero64`, which returns 0 for the word 0 — the hand model's
     `trailingZeros 0` is 64.  So `level 0 = 0` in the model but `CellID(0).Level() = 30` in Go:
     the ties of Level and of everything that calls it carry the hypothesis `ci ≠ 0`
     (0 is not a valid cell id; see `level_zero_disagrees`).
-/
import S2.CellID
import S2.Hilbert
import S2.Generated.CellIDFns
namespace S2Proofs.Ties.C01
open S2 S2.Generated

/-! ### constants -/
theorem tie_MaxLevel : CellID.maxLevel = CellIDFns.MaxLevel := rfl
theorem tie_PosBits : CellID.posBits = CellIDFns.PosBits := rfl
theorem tie_NumFaces : CellID.numFaces = CellIDFns.NumFaces := rfl
theorem tie_MaxSize : CellID.maxSize = CellIDFns.MaxSize := rfl
theorem tie_wrapOffset : CellID.wrapOffset = CellIDFns.wrapOffset := rfl
theorem tie_sentinel : CellID.sentinel = CellIDFns.SentinelCellID := rfl
/-- `FaceBits + PosBits = 64`: the face field is exactly the top `FaceBits` bits (used by `pos`/`face`). -/
theorem tie_FaceBits : CellIDFns.FaceBits + CellID.posBits = 64 := rfl
theorem tie_lookupBits : Hilbert.lookupBits = CellIDFns.lookupBits := rfl
theorem tie_swapMask : Hilbert.swapMask = CellIDFns.swapMask := rfl
theorem tie_invertMask : Hilbert.invertMask = CellIDFns.invertMask := rfl

/-! ### tables -/
theorem tie_posToIJ : Hilbert.posToIJ = CellIDFns.posToIJ := rfl
theorem tie_ijToPos : Hilbert.ijToPos = CellIDFns.ijToPos := rfl
theorem tie_posToOrientation : Hilbert.posToOrientation = CellIDFns.posToOrientation := rfl

/-! ### scalar bit methods -/
theorem tie_lsbForLevel : CellID.lsbForLevel = CellIDFns.lsbForLevel := rfl
theorem tie_lsb : CellID.lsb = CellIDFns.lsb := rfl
theorem tie_Face : CellID.face = CellIDFns.Face := rfl
theorem tie_Pos : CellID.pos = CellIDFns.Pos := rfl
theorem tie_IsValid : CellID.isValid = CellIDFns.IsValid := rfl
theorem tie_IsLeaf : CellID.isLeaf = CellIDFns.IsLeaf := rfl
theorem tie_Parent : CellID.parent = CellIDFns.Parent := rfl
theorem tie_immediateParent : CellID.immediateParent = CellIDFns.immediateParent := rfl
theorem tie_isFace : CellID.isFace = CellIDFns.isFace := rfl
theorem tie_Children : CellID.children = CellIDFns.Children := rfl
theorem tie_sizeIJ : Hilbert.sizeIJ = CellIDFns.sizeIJ := rfl
theorem tie_RangeMin : CellID.rangeMin = CellIDFns.RangeMin := rfl
theorem tie_RangeMax : CellID.rangeMax = CellIDFns.RangeMax := rfl
theorem tie_Contains : CellID.contains = CellIDFns.Contains := rfl
theorem tie_Intersects : CellID.intersects = CellIDFns.Intersects := rfl
theorem tie_ChildBegin : CellID.childBegin = CellIDFns.ChildBegin := rfl
theorem tie_ChildBeginAtLevel : CellID.childBeginAtLevel = CellIDFns.ChildBeginAtLevel := rfl
theorem tie_ChildEnd : CellID.childEnd = CellIDFns.ChildEnd := rfl
theorem tie_ChildEndAtLevel : CellID.childEndAtLevel = CellIDFns.ChildEndAtLevel := rfl
theorem tie_Next : CellID.next = CellIDFns.Next := rfl
theorem tie_Prev : CellID.prev = CellIDFns.Prev := rfl
theorem tie_NextWrap : CellID.nextWrap = CellIDFns.NextWrap := rfl
theorem tie_PrevWrap : CellID.prevWrap = CellIDFns.PrevWrap := rfl
theorem tie_CellIDFromFace : CellID.fromFace = CellIDFns.CellIDFromFace := rfl
theorem tie_CellIDFromFacePosLevel : CellID.fromFacePosLevel = CellIDFns.CellIDFromFacePosLevel := rfl

/-! ### bit scans, Level -/
theorem findLSB_of_ne_zero (x : UInt64) (h : x ≠ 0) :
    CellIDFns.findLSBSetNonZero64 x = CellID.trailingZeros x := by
  simp [CellIDFns.findLSBSetNonZero64, h]

/-- the model and the code disagree on the level of the (invalid) id 0 -/
theorem level_zero_disagrees : CellID.level 0 = 0 ∧ CellIDFns.Level 0 = 30 := by decide

/-- `MaxLevel - findLSBSetNonZero64(x)>>1` — `>>` binds tighter than `-`. -/
theorem tie_Level (ci : UInt64) (h : ci ≠ 0) : CellID.level ci = CellIDFns.Level ci := by
  simp [CellID.level, CellIDFns.Level, findLSB_of_ne_zero ci h, CellID.maxLevel]

theorem tie_findMSBSetNonZero64 : CellID.msbPos = CellIDFns.findMSBSetNonZero64 := by
  funext x
  unfold CellIDFns.findMSBSetNonZero64 CellIDFns.leadingZeros64 CellID.msbPos
  by_cases h : x = 0
  · subst h; simp
  · have hn : x.toNat ≠ 0 := fun h0 => h (UInt64.toNat_inj.mp (by simpa using h0))
    have : x.toNat.log2 < 64 := (Nat.log2_lt hn).2 (UInt64.toNat_lt x)
    simp [h]; omega

theorem tie_ChildPosition : CellID.childPosition = CellIDFns.ChildPosition := by
  funext ci level
  have h : 2 * (30 - level) + 1 < 64 := by omega
  simp [CellID.childPosition, CellIDFns.ChildPosition, CellIDFns.shr64, CellID.maxLevel, h, UInt64.toNat_and]

/-! ### CommonAncestorLevel: Go returns `(level, ok)`, the model an `Option` -/
def calBits (a b : UInt64) : UInt64 :=
  let bits := a ^^^ b
  let bits := if bits < CellID.lsb a then CellID.lsb a else bits
  if bits < CellID.lsb b then CellID.lsb b else bits

theorem hand_cal (a b : UInt64) : CellID.commonAncestorLevel a b =
    (if CellID.msbPos (calBits a b) > 60 then none else some ((60 - CellID.msbPos (calBits a b)) >>> 1)) := rfl

theorem gen_cal (a b : UInt64) : CellIDFns.CommonAncestorLevel a b =
    (if CellID.msbPos (calBits a b) > 60 then (0, false) else ((60 - CellID.msbPos (calBits a b)) >>> 1, true)) := by
  simp only [CellIDFns.CommonAncestorLevel, ← tie_findMSBSetNonZero64]; rfl

theorem tie_CommonAncestorLevel (a b : UInt64) :
    CellID.commonAncestorLevel a b =
      (if (CellIDFns.CommonAncestorLevel a b).2 then some (CellIDFns.CommonAncestorLevel a b).1 else none) := by
  rw [hand_cal, gen_cal]
  by_cases h : CellID.msbPos (calBits a b) > 60 <;> simp [h]

/-! ### Advance / AdvanceWrap / distanceFromBegin (int64 = Int, conversions two's complement) -/
theorem shift_ok (ci : UInt64) : 2 * (30 - CellID.level ci) + 1 < 64 := by omega

theorem tie_distanceFromBegin (ci : UInt64) (h : ci ≠ 0) :
    CellID.distanceFromBegin ci = CellIDFns.distanceFromBegin ci := by
  simp only [CellID.distanceFromBegin, CellIDFns.distanceFromBegin, ← tie_Level ci h, CellIDFns.shr64,
    CellID.maxLevel, shift_ok, if_true]

theorem tie_AdvanceWrap (ci : UInt64) (steps : Int) (h : ci ≠ 0) :
    CellID.advanceWrap ci steps = CellIDFns.AdvanceWrap ci steps := by
  simp only [CellID.advanceWrap, CellIDFns.AdvanceWrap, ← tie_Level ci h, CellIDFns.shr64, CellIDFns.shl64,
    CellID.maxLevel, shift_ok, if_true, CellID.tmod, CellID.wrapOffset]
  rfl

theorem tie_Advance (ci : UInt64) (steps : Int) (h : ci ≠ 0) :
    CellID.advance ci steps = CellIDFns.Advance ci steps := by
  simp only [CellID.advance, CellIDFns.Advance, ← tie_Level ci h, ← tie_lsb, CellIDFns.shr64, CellIDFns.shl64,
    CellID.maxLevel, shift_ok, if_true, CellID.wrapOffset]
  rfl

/-! ### MaxTile: the two loops are fuel-recursive on both sides (same fuel `MaxLevel + 2 = 32`) -/
theorem shrink_eq (limit : UInt64) : ∀ fuel ci,
    CellID.maxTile.shrink limit fuel ci = CellIDFns.MaxTile_loop1 limit fuel ci := by
  intro fuel
  induction fuel with
  | zero => intro ci; rfl
  | succ n ih =>
    intro ci
    simp only [CellID.maxTile.shrink, CellIDFns.MaxTile_loop1, ih]
    rfl

theorem ite_not_bool {α : Type} (b : Bool) (x y : α) :
    (if (!b) = true then x else y) = if b = true then y else x := by cases b <;> rfl

theorem grow_eq (start limit : UInt64) : ∀ fuel ci,
    CellID.maxTile.grow limit fuel ci start = CellIDFns.MaxTile_loop2 start limit fuel ci := by
  intro fuel
  induction fuel with
  | zero => intro ci; rfl
  | succ n ih =>
    intro ci
    simp only [CellID.maxTile.grow, CellIDFns.MaxTile_loop2, ih, ite_not_bool]
    rfl

theorem tie_MaxTile : CellID.maxTile = CellIDFns.MaxTile := by
  funext ci limit
  simp only [CellID.maxTile, CellIDFns.MaxTile, shrink_eq, grow_eq]
  rfl

/-! ### lookup tables: `initLookupCell` is state-passing over (lookupPos, lookupIJ) on both sides.  The hand model
    performs the leaf write when its fuel reaches 0, the generated one stops; they agree whenever
    `fuel + level ≥ lookupBits + 1`, which is how `init` calls it. -/
theorem initLookupCell_eq : ∀ (fuel level i j oo pos o : Nat) (t : Hilbert.Tables),
    level ≤ 4 → 5 ≤ fuel + level →
    Hilbert.initLookupCell fuel level i j oo pos o t = CellIDFns.initLookupCell fuel level i j oo pos o t := by
  intro fuel
  induction fuel with
  | zero => intro level _ _ _ _ _ _ h1 h2; omega
  | succ n ih =>
    intro level i j oo pos o t h1 h2
    obtain ⟨lp, lij⟩ := t
    by_cases hl : level = 4
    · subst hl
      simp [Hilbert.initLookupCell, CellIDFns.initLookupCell, Hilbert.lookupBits]
    · have h3 : level + 1 ≤ 4 := by omega
      have h4 : 5 ≤ n + (level + 1) := by omega
      have hb : (level == 4) = false := by simp [hl]
      simp only [Hilbert.initLookupCell, CellIDFns.initLookupCell, Hilbert.lookupBits, hb, ih _ _ _ _ _ _ _ h3 h4]
      rfl

theorem init5 (oo pos o : Nat) (t : Hilbert.Tables) :
    Hilbert.initLookupCell 5 0 0 0 oo pos o t = CellIDFns.initLookupCell 5 0 0 0 oo pos o t :=
  initLookupCell_eq 5 0 0 0 oo pos o t (by omega) (by omega)

theorem tie_tables : Hilbert.tables = CellIDFns.tables := by
  simp only [Hilbert.tables, CellIDFns.tables, CellIDFns.lookupBits, CellIDFns.lookupPos_size, CellIDFns.lookupIJ_size,
    Hilbert.swapMask, Hilbert.invertMask, Nat.reduceAdd, Nat.reduceOr, init5]
theorem tie_lookupPos : Hilbert.lookupPos = CellIDFns.lookupPos := by
  simp only [Hilbert.lookupPos, CellIDFns.lookupPos, tie_tables]
theorem tie_lookupIJ : Hilbert.lookupIJ = CellIDFns.lookupIJ := by
  simp only [Hilbert.lookupIJ, CellIDFns.lookupIJ, tie_tables]

/-! ### String: control skeleton (the byte-level formatting is left to the behavioural correspondence).
    Go: `if !ci.IsValid() {…}`; `for level := 1; level <= ci.Level(); level++ { … ci.ChildPosition(level) }`.
    The hand model `CellID.toStr` prints `childPosition ci (k+1)` for `k ∈ range (level ci)`: the same levels. -/
theorem tie_String_invalid (ci : UInt64) : CellIDFns.String_cond0 ci = !CellID.isValid ci := rfl

theorem tie_String_levels (ci : UInt64) (h : ci ≠ 0) (l : Nat) :
    l ∈ (List.range (CellID.level ci)).map (· + 1) ↔
      (CellIDFns.String_init1 ≤ l ∧ CellIDFns.String_cond1 l ci = true) := by
  simp only [CellIDFns.String_init1, CellIDFns.String_cond1, ← tie_Level ci h, List.mem_map, List.mem_range,
    decide_eq_true_eq]
  constructor
  · rintro ⟨k, hk, rfl⟩; omega
  · intro ⟨h1, h2⟩; exact ⟨l - 1, by omega, by omega⟩

theorem tie_String_conds : CellIDFns.String_numConds = 2 := rfl

end S2Proofs.Ties.C01
