/-
  S2Proofs.Ties.C16_EdgeNum — regenerated-instance obligations for r3/vector.go and s2/edge_crossings.go.

  `S2.Generated.EdgeNumFns.*` is rewritten from the Go source on every run of ./check by translator_c16: every
  function is translated statement by statement and expression by expression over the bit-exact soft-float
  `S2.F64` (rules: header of translator_c16/main.go).  The theorems below say that the hand model
  (`S2.V3` of S2/STUV.lean, `S2.EdgeNum` of S2/EdgeNum.lean) IS the generated function: same operators, same
  operands, same order, same constants (the constants folded by go/types are compared bit for bit with the
  constants the hand model computes from the decimal literals), same tests in the same order.

  Functions that are called but not translated (s2.Sign, s2.OrderedCCW, s2.CrossingSign, r3.PreciseVector, libm) are the fields of the parameter `E : Ext`; `handExt` instantiates them with the hand
  model's versions, so that what is tied for them is the CALL STRUCTURE (which function, which arguments, in which
  order).  The libm fields are universally quantified.
-/
import S2.EdgeNum
import S2.Generated.EdgeNumFns
namespace S2Proofs.Ties.C16_EdgeNum
open S2 S2.EdgeNum S2.Generated S2.Generated.EdgeNumFns

/-- Go's `Crossing` enumeration: `Cross = iota`, `MaybeCross`, `DoNotCross` -/
def crossingCode : Contain.Crossing → Int
  | .cross => 0
  | .maybe => 1
  | .doNot => 2

/-- the externals of the generated file, instantiated with the hand model (libm left abstract) -/
def handExt (sin cos asin : F64 → F64) (atan2 : F64 → F64 → F64) : Ext where
  PV := EdgeNum.PV
  Sign := Pred.sign
  OrderedCCW := Pred.orderedCCW
  CrossingSign := fun a b c d => crossingCode (Contain.crossingSign Contain.floatGeo a b c d)
  PreciseVectorFromVector := PV.ofV3
  PV_Cross := PV.cross
  PV_Vector := fun v => v.toVector 0
  PV_IsZero := PV.isZero
  sin := sin
  cos := cos
  asin := asin
  atan2 := atan2

section
variable (sin cos asin : F64 → F64) (atan2 : F64 → F64 → F64)
local notation "E" => handExt sin cos asin atan2

/-! ### r3/vector.go -/
theorem tie_Vector_Add : @V3.add = @Vector_Add := rfl
theorem tie_Vector_Sub : @V3.sub = @Vector_Sub := rfl
theorem tie_Vector_Mul : @V3.mul = @Vector_Mul := rfl
theorem tie_Vector_Dot : @V3.dot = @Vector_Dot := rfl
theorem tie_Vector_Cross : @V3.cross = @Vector_Cross := rfl
theorem tie_Vector_Norm2 : @V3.norm2 = @Vector_Norm2 := rfl
theorem tie_Vector_Norm : @V3.norm = @Vector_Norm := rfl
theorem tie_Vector_Normalize : @V3.normalize = @Vector_Normalize := rfl
theorem tie_Vector_Cmp : @V3.cmp = @Vector_Cmp := rfl
theorem tie_Vector_Abs : @V3.abs = @Vector_Abs := rfl
/-- the axis as `Nat` (hand model) and as `Int` (Go's `Axis`) -/
theorem axis_cast (c1 c2 c3 : Bool) :
    (((if c1 then (if c2 then 0 else 2) else if c3 then 1 else 2 : Nat)) : Int) =
      (if c1 then (if c2 then 0 else 2) else if c3 then 1 else 2) := by
  cases c1 <;> cases c2 <;> cases c3 <;> rfl
/-- `LargestComponent` (`XAxis`, `YAxis`, `ZAxis` = 0, 1, 2) -/
theorem tie_Vector_LargestComponent (v : V3) : (V3.largestComponent v : Int) = Vector_LargestComponent v := by
  simp only [V3.largestComponent, Vector_LargestComponent, tie_Vector_Abs]
  exact axis_cast _ _ _
/-- `switch axis { case 0: A; case 1: B; case 2: C }` (no default: D stays) against the hand model's `match` -/
theorem axis_sel {α : Type} (c1 c2 c3 : Bool) (A B C D : α) :
    (match (if c1 then (if c2 then 0 else 2) else if c3 then 1 else 2 : Nat) with
      | 0 => A | 1 => B | _ => C) =
    (if (((if c1 then (if c2 then 0 else 2) else if c3 then 1 else 2 : Nat)) : Int) == 0 then A
     else if (((if c1 then (if c2 then 0 else 2) else if c3 then 1 else 2 : Nat)) : Int) == 1 then B
     else if (((if c1 then (if c2 then 0 else 2) else if c3 then 1 else 2 : Nat)) : Int) == 2 then C else D) := by
  cases c1 <;> cases c2 <;> cases c3 <;> rfl
/-- `Ortho`: `ov := Vector{}; switch v.LargestComponent() { case XAxis: ov.Z = 1; case YAxis: ov.X = 1; case ZAxis: ov.Y = 1 }` -/
theorem tie_Vector_Ortho : @V3.ortho = @Vector_Ortho := by
  funext v
  simp only [V3.ortho, Vector_Ortho, (tie_Vector_LargestComponent v).symm, V3.largestComponent, tie_Vector_Cross,
    tie_Vector_Normalize]
  exact congrArg (fun ov => Vector_Normalize (Vector_Cross v ov)) (axis_sel _ _ _ _ _ _ zero_V3)
/-- Go's `==` on vectors / points -/
theorem tie_structEq : @V3.feq = @structEq_Vector := rfl
theorem tie_zero3 : zero3 = zero_V3 := rfl

/-! ### constants of s2/edge_crossings.go (folded by go/types, ONE rounding) against the hand model's -/
theorem tie_const_dblError : dblErrorF = projection_k5 := by decide +kernel
theorem tie_const_intersectionError : intersectionErrorF = intersectionStableSorted_k2 := by decide +kernel
theorem tie_const_minNormal : minNormalF = intersectionStableSorted_k1 := rfl
/-- the package constants themselves: `dblEpsilon`, `dblError`, `sqrt3`, `intersectionError`, `minNormalFloat64`, and
    `intersectionMergeRadius = 2 * intersectionError` -/
theorem tie_pkgconst_dblEpsilon : dblEpsilonF = const_s2_dblEpsilon := by decide +kernel
theorem tie_pkgconst_dblError : dblErrorF = const_s2_dblError := by decide +kernel
theorem tie_pkgconst_sqrt3 : Pred.qSqrt3.toF64 = const_s2_sqrt3 := by decide +kernel
theorem tie_pkgconst_intersectionError : intersectionErrorF = const_s2_intersectionError := by decide +kernel
theorem tie_pkgconst_minNormal : minNormalF = const_s2_minNormalFloat64 := rfl
theorem tie_pkgconst_intersectionMergeRadius : f2 * intersectionErrorF = const_s2_intersectionMergeRadius := by decide +kernel
/-- `roundingEpsilon(x.X)` for a float64: `epsilonForDigits(53)` = `1.0 / float64(uint64(1)<<53)` -/
theorem tie_roundingEpsilon : tErr = roundingEpsilon_float64 := by decide +kernel

/-! ### s2/edge_crossings.go -/
theorem tie_robustNormalWithLength : @EdgeNum.robustNormalWithLength = @EdgeNumFns.robustNormalWithLength := rfl

theorem tie_projection : @EdgeNum.projection = @EdgeNumFns.projection := by
  funext x aNorm aNormLen a0 a1
  simp only [EdgeNum.projection, projC2, tie_const_dblError, tie_roundingEpsilon]
  rfl

/-- `if x != y { swap }` against the hand model's `if x == y then keep else swap` -/
theorem ite_bne {α β : Type} [BEq α] (x y : α) (p q : β) :
    (if (x != y) = true then p else q) = (if (x == y) = true then q else p) := by
  cases h : (x == y) <;> simp [bne, h]

/-- `compareEdges`: the Go code swaps when `Cmp != -1`; the hand model keeps when `Cmp == -1` -/
theorem tie_compareEdges : @EdgeNum.compareEdges = @EdgeNumFns.compareEdges := by
  funext a0 a1 b0 b1
  simp only [EdgeNum.compareEdges, EdgeNumFns.compareEdges, sortEdge, vlt, tie_Vector_Cmp, tie_structEq, ite_bne]
  rfl

/-- `(Point, bool)` results against the hand model's `Option` (`var pt Point` = the zero vector) -/
def optPair (o : Option V3) : V3 × Bool :=
  match o with
  | some p => (p, true)
  | none => (zero_V3, false)

theorem optPair_ite (c : Prop) [Decidable c] (a b : Option V3) :
    optPair (if c then a else b) = if c then optPair a else optPair b := by
  split <;> rfl

theorem tie_intersectionStableSorted (a0 a1 b0 b1 : V3) :
    optPair (EdgeNum.intersectionStableSorted a0 a1 b0 b1) = EdgeNumFns.intersectionStableSorted a0 a1 b0 b1 := by
  simp only [EdgeNum.intersectionStableSorted, EdgeNumFns.intersectionStableSorted, stableParts, tie_const_intersectionError, tie_roundingEpsilon,
    tie_projection.symm, optPair_ite]
  rfl

/-- `canonicalEdges` (repair D50): the two endpoint swaps are `sortEdge` (the Go code swaps when `Cmp != -1`, the hand
    model keeps when `Cmp == -1`), the length comparison with the `compareEdges` tie-break is `stableArgs` on the sorted edges -/
theorem tie_canonicalEdges : @EdgeNum.canonArgs = @EdgeNumFns.canonicalEdges := by
  funext a0 a1 b0 b1
  simp only [EdgeNum.canonArgs, stableArgs, EdgeNumFns.canonicalEdges, sortEdge, vlt, tie_compareEdges, tie_Vector_Cmp,
    tie_Vector_Sub, tie_Vector_Norm2, ite_bne]
  rfl

theorem tie_intersectionStable (a0 a1 b0 b1 : V3) :
    optPair (EdgeNum.intersectionStable a0 a1 b0 b1) = EdgeNumFns.intersectionStable a0 a1 b0 b1 := by
  simp only [EdgeNum.intersectionStable, intersectionStableG, EdgeNumFns.intersectionStable, tie_canonicalEdges,
    (tie_intersectionStableSorted _ _ _ _).symm]

/-- the scale argument of `PV.toVector` is not used (the vector is rescaled by its own largest component) -/
theorem toVector_e (v : PV) (e : Int) : v.toVector e = v.toVector 0 := rfl

/-- `intersectionExact`: the same PreciseVector calls, and the collinear rule = `pickMin` over the four
    candidates in the order a0, a1, b0, b1 with the sentinel (10,10,10) -/
theorem tie_intersectionExact : @EdgeNum.intersectionExact = @EdgeNumFns.intersectionExact E := by
  funext a0 a1 b0 b1
  simp only [EdgeNum.intersectionExact, EdgeNumFns.intersectionExact, handExt, pickMin, List.foldl, pickStep, vlt,
    toVector_e _ (-4296), toVector_e _ (-2148), tie_Vector_Cmp, tie_structEq, tie_zero3]
  rfl

/-- `Intersection` (repair D50): ONE call of `canonicalEdges`, then both kernels, the vertex sum of the hemisphere correction
    on that same tuple, the exit canonicalisation of zeros -/
theorem tie_Intersection (a0 a1 b0 b1 : V3) :
    EdgeNum.intersection a0 a1 b0 b1 = EdgeNumFns.Intersection E a0 a1 b0 b1 := by
  simp only [EdgeNum.intersection, intersectionG, EdgeNumFns.Intersection, tie_canonicalEdges,
    (tie_intersectionStableSorted _ _ _ _).symm, (tie_intersectionExact sin cos asin atan2).symm]
  cases h : EdgeNum.intersectionStableSorted (canonicalEdges a0 a1 b0 b1).1 (canonicalEdges a0 a1 b0 b1).2.1
      (canonicalEdges a0 a1 b0 b1).2.2.1 (canonicalEdges a0 a1 b0 b1).2.2.2 <;>
    simp only [optPair] <;> rfl

/-! ### the externals whose source is in the repo (r3/precisevector.go): their hand models
    (`EdgeNum.PV.*`) are tied by the bit-exact correspondence check; here only: the source text is
    the one the hand model was written against -/
theorem tie_src_PreciseVectorFromVector : PreciseVectorFromVector_src =
    "func PreciseVectorFromVector(v Vector) PreciseVector { return NewPreciseVector(v.X, v.Y, v.Z) }" := rfl
theorem tie_src_NewPreciseVector : NewPreciseVector_src =
    "func NewPreciseVector(x, y, z float64) PreciseVector { return PreciseVector{ X: precFloat(x), Y: precFloat(y), Z: precFloat(z), } }" := rfl
theorem tie_src_PreciseVector_Cross : PreciseVector_Cross_src =
    "func (v PreciseVector) Cross(ov PreciseVector) PreciseVector { return PreciseVector{ X: precSub(precMul(v.Y, ov.Z), precMul(v.Z, ov.Y)), Y: precSub(precMul(v.Z, ov.X), precMul(v.X, ov.Z)), Z: precSub(precMul(v.X, ov.Y), precMul(v.Y, ov.X)), } }" := rfl
theorem tie_src_PreciseVector_Vector : PreciseVector_Vector_src =
    "func (v PreciseVector) Vector() Vector { exp, nonZero := 0, false for _, c := range []*big.Float{v.X, v.Y, v.Z} { if c.Sign() != 0 && !c.IsInf() { if e := c.MantExp(nil); !nonZero || e > exp { exp, nonZero = e, true } } } x, _ := new(big.Float).SetMantExp(v.X, -exp).Float64() y, _ := new(big.Float).SetMantExp(v.Y, -exp).Float64() z, _ := new(big.Float).SetMantExp(v.Z, -exp).Float64() return Vector{x, y, z}.Normalize() }" := rfl
theorem tie_src_PreciseVector_IsZero : PreciseVector_IsZero_src =
    "func (v PreciseVector) IsZero() bool { return v.X.Sign() == 0 && v.Y.Sign() == 0 && v.Z.Sign() == 0 }" := rfl

end
end S2Proofs.Ties.C16_EdgeNum
