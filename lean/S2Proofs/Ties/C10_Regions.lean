/-
  S2Proofs.Ties.C10_Regions — regenerated-instance obligations for the bounds (`CapBound`, `RectBound`) of Rect, Cap,
  Cell, CellUnion, Polyline, ShapeIndexRegion, the rectangle constructors, and the cell distances.

  `S2.Generated.RegionFns.*` (group C10) is rewritten from the Go source on every run of ./check by translator_c07.
  Hand counterparts: `S2.LLRect.polarClosure / expanded` (S2/Interval.lean, at the bit-exact instance `S2.IvlF64`;
  the generic definitions are tied in full by translator_c19, Ties/C19.lean), `S2.Bounds.SubF64.rectBoundF64`,
  `S2.CellM.maxDistance`.  `Cell.RectBound / CapBound`, `Cap.RectBound`, `Rect.CapBound`, `CellUnion.CapBound / RectBound`,
  `DistanceToEdge / DistanceToCell / MaxDistanceToEdge / MaxDistanceToCell`, `Polyline.Project / Interpolate` call libm
  (asin, atan2, sin, cos) and have NO hand model (Oracle.C10 / C12 judge Go's bounds by exact containment of sample
  points): pinned in Ties/C10_RegionsPins.lean.
-/
import S2.Interval
import S2.Bounds
import S2.CellM
import S2.Generated.RegionFns
namespace S2Proofs.Ties.C10_Regions
open S2 S2.Generated S2.IvlF64

/-- `Rect.PolarClosure`: `if r.Lat.Lo == -π/2 || r.Lat.Hi == π/2 { return Rect{r.Lat, s1.FullInterval()} }; return r` -/
theorem tie_polarClosure_F64 (r : LLRect F64) :
    r.polarClosure = if RegionFns.Rect_PolarClosure_cond0 r.lat.lo r.lat.hi then ⟨r.lat, S1.full⟩ else r := rfl

/-- the unexported `Rect.expanded` -/
theorem tie_expanded_F64 (r : LLRect F64) (m : LatLng F64) :
    r.expanded m =
      let lat := r.lat.expanded m.lat
      let lng := r.lng.expanded m.lng
      if RegionFns.Rect_expanded_cond0 lat.isEmpty lng.isEmpty then LLRect.empty
      else ⟨lat.intersection LLRect.validLat, lng⟩ := rfl

/-- `RectBounder.RectBound()` applied to a bound uses exactly these two -/
theorem tie_rectBoundF64 (b : LLRect F64) :
    Bounds.SubF64.rectBoundF64 b =
      let e := b.expanded ⟨Bounds.SubF64.cTwoEps, Bounds.SubF64.fZero⟩
      if RegionFns.Rect_PolarClosure_cond0 e.lat.lo e.lat.hi then ⟨e.lat, S1.full⟩ else e := rfl

/-- `Cell.MaxDistance`: the vertex maximum if it is at most a right angle, else `Straight − Distance(−target)` -/
theorem tie_cell_maxDistance (c : CellM.Cell) (t : V3) :
    CellM.maxDistance c t =
      let m := CellM.maxVertexDist c t
      if RegionFns.Cell_MaxDistance_cond0 m then m
      else RegionFns.Cell_MaxDistance_val1 (CellM.distance c (RegionFns.Cell_MaxDistance_val0 t)) := rfl

/-- `RectFromCenterSize`: `half := LatLng{size.Lat / 2, size.Lng / 2}` (the hand model multiplies by 0.5: the same
    correctly rounded value, see S2/Interval.lean) then `RectFromLatLng(center).expanded(half)` -/
theorem tie_fromCenterSize_shape :
    RegionFns.RectFromCenterSize_shape = "half := LatLng{val0⟨size.Lat⟩, val1⟨size.Lng⟩}; return RectFromLatLng(center).expanded(half)" ∧
    (∀ x, RegionFns.RectFromCenterSize_val0 x = F64.div x F64.two) ∧ (∀ x, RegionFns.RectFromCenterSize_val1 x = F64.div x F64.two) :=
  ⟨rfl, fun _ => rfl, fun _ => rfl⟩

end S2Proofs.Ties.C10_Regions
