/-
  S2Proofs.Ties.C18_Measures — regenerated-instance obligations for the measure code of s2/loop.go and s2/polygon.go.

  `S2.Generated.MeasureFns.*` is rewritten from the Go source on every run by translator_c10 (skeleton extraction over the
  bit-exact soft-float).  The hand model `S2.Measures` is generic over environments whose libm members (`TurnAngle`,
  `SignedArea`, `TrueCentroid`, `Angle`) are parameters; the theorems instantiate the NON-libm members with the
  regenerated expressions (`genTurnEnv`, `genSurfEnv`) and show that the model's recursion steps — index arithmetic
  (`i±dir`, `(i+n-dir) % n`, `firstIdx+n-1`), the compensated summation, the clamp, the origin-switching branch tree, the
  area normalisation and decision, the signed polygon sums — are the Go statements.  The concrete soft-float
  environments of the model (`f64TurnEnv`, `f64AreaEnv`, `f64PolygonArea/Centroid`) are shown equal to the regenerated ones.
-/
import S2.Measures
import S2.Generated.MeasureFns
namespace S2Proofs.Ties.C18Measures
open S2 S2.Measures S2.Generated S2.Generated.MeasureFns

/-! ### statement structure of every translated function -/
theorem tie_CanonicalFirstVertex_shape : CanonicalFirstVertex_shape =
    "firstIdx = 0; n := len(l.vertices); for[i := 1] cond0⟨i; n⟩ [i++] {if cond1⟨l.Vertex(i).Cmp(l.Vertex(firstIdx).Vector)⟩ {firstIdx = i}}; if cond2⟨l.Vertex(val1⟨firstIdx⟩).Cmp(l.Vertex(val0⟨firstIdx; n⟩).Vector)⟩ {return firstIdx, 1}; firstIdx += n; return firstIdx, -1" := rfl
theorem tie_TurningAngle_shape : TurningAngle_shape =
    "if cond0⟨l.isEmptyOrFull()⟩ {if cond1⟨l.ContainsOrigin()⟩ {return -2 * math.Pi}; return 2 * math.Pi}; if cond2⟨len(l.vertices)⟩ {return 0}; n := len(l.vertices); i, dir := l.CanonicalFirstVertex(); sum := TurnAngle(l.Vertex(val0⟨i; n; dir⟩), l.Vertex(i), l.Vertex(val1⟨i; dir; n⟩)); compensation := s1.Angle(0); for cond3⟨n⟩ {i += dir; angle := TurnAngle(l.Vertex(val2⟨i; dir⟩), l.Vertex(i), l.Vertex(val3⟨i; dir⟩)); oldSum := sum; angle += compensation; sum += angle; compensation = val4⟨oldSum; sum; angle⟩; n--}; const maxCurvature = 2 * math.Pi - 4 * dblEpsilon; return val5⟨dir; sum; compensation⟩" := rfl
theorem tie_turningAngleMaxError_shape : turningAngleMaxError_shape =
    "maxErrorPerVertex := 11.25 * dblEpsilon; return val0⟨maxErrorPerVertex; len(l.vertices)⟩" := rfl
theorem tie_IsNormalized_shape : IsNormalized_shape =
    "if cond0⟨l.bound.Lng.Length()⟩ {return true}; return val0⟨l.TurningAngle(); l.turningAngleMaxError()⟩" := rfl
theorem tie_surfaceIntegralFloat64_shape : surfaceIntegralFloat64_shape =
    "const maxLength = math.Pi - 1e-5; var sum float64; origin := l.Vertex(0); for[i := 1] cond0⟨i; len(l.vertices)⟩ [i++] {if cond1⟨l.Vertex(val0⟨i⟩).Angle(origin.Vector)⟩ {oldOrigin := origin; if cond2⟨origin; l.Vertex(0)⟩ {origin = val1⟨l.Vertex(0).PointCross(l.Vertex(i))⟩} else if cond3⟨l.Vertex(i).Angle(l.Vertex(0).Vector)⟩ {origin = l.Vertex(0)} else {origin = val2⟨l.Vertex(0); oldOrigin⟩; sum += f(l.Vertex(0), oldOrigin, origin)}; sum += f(oldOrigin, l.Vertex(i), origin)}; sum += f(origin, l.Vertex(i), l.Vertex(val3⟨i⟩))}; if cond4⟨origin; l.Vertex(0)⟩ {sum += f(origin, l.Vertex(val4⟨len(l.vertices)⟩), l.Vertex(0))}; return sum" := rfl
theorem tie_surfaceIntegralPoint_shape : surfaceIntegralPoint_shape =
    "const maxLength = math.Pi - 1e-5; var sum r3.Vector; origin := l.Vertex(0); for[i := 1] cond0⟨i; len(l.vertices)⟩ [i++] {if cond1⟨l.Vertex(val0⟨i⟩).Angle(origin.Vector)⟩ {oldOrigin := origin; if cond2⟨origin; l.Vertex(0)⟩ {origin = val1⟨l.Vertex(0).PointCross(l.Vertex(i))⟩} else if cond3⟨l.Vertex(i).Angle(l.Vertex(0).Vector)⟩ {origin = l.Vertex(0)} else {origin = val2⟨l.Vertex(0); oldOrigin⟩; sum = val3⟨sum; f(l.Vertex(0), oldOrigin, origin)⟩}; sum = val4⟨sum; f(oldOrigin, l.Vertex(i), origin)⟩}; sum = val6⟨sum; f(origin, l.Vertex(i), l.Vertex(val5⟨i⟩))⟩}; if cond4⟨origin; l.Vertex(0)⟩ {sum = val8⟨sum; f(origin, l.Vertex(val7⟨len(l.vertices)⟩), l.Vertex(0))⟩}; return Point{sum}" := rfl
theorem tie_Loop_Area_shape : Loop_Area_shape =
    "if cond0⟨l.isEmptyOrFull()⟩ {if cond1⟨l.ContainsOrigin()⟩ {return 4 * math.Pi}; return 0}; area := l.surfaceIntegralFloat64(SignedArea); maxError := l.turningAngleMaxError(); if cond2⟨area⟩ {area += 4 * math.Pi}; if cond3⟨area⟩ {area = 4 * math.Pi}; if cond4⟨area⟩ {area = 0}; if cond5⟨area; maxError; l.IsNormalized()⟩ {return 4 * math.Pi} else if cond6⟨area; maxError; l.IsNormalized()⟩ {return 0}; return area" := rfl
theorem tie_Loop_Centroid_shape : Loop_Centroid_shape =
    "return l.surfaceIntegralPoint(TrueCentroid)" := rfl
theorem tie_Polygon_Area_shape : Polygon_Area_shape =
    "var area float64; range _, loop := p.loops {area += val0⟨loop.Sign(); loop.Area()⟩}; return area" := rfl
theorem tie_Polygon_Centroid_shape : Polygon_Centroid_shape =
    "u := Point{}.Vector; range _, loop := p.loops {v := loop.Centroid().Vector; if cond0⟨loop.Sign()⟩ {u = val0⟨u; v⟩} else {u = val1⟨u; v⟩}}; return Point{u}" := rfl

/-! ### CanonicalFirstVertex -/

/-- `a.Cmp(b.Vector) == -1` -/
theorem tie_v3lt (a b : V3) : v3lt a b = CanonicalFirstVertex_cond1 (V3.cmp a b) ∧
    v3lt a b = CanonicalFirstVertex_cond2 (V3.cmp a b) := ⟨rfl, rfl⟩

/-- `for i := 1; i < n; i++`: the loop test; the model runs the body `n - 1` times from `i = 1` -/
theorem tie_argmin_bounds (n : Nat) (i : Nat) :
    CanonicalFirstVertex_cond0 ((i : Int) + 1) (n : Int) = decide (i < n - 1) := by
  simp only [CanonicalFirstVertex_cond0]
  exact decide_eq_decide.mpr (by omega)

theorem tie_argminFrom_step {P A : Type} [Inhabited P] (E : TurnEnv P A) (vs : List P) (k : Nat) (i f : Int) :
    argminFrom E vs (k + 1) i f = argminFrom E vs k (i + 1) (if E.lt (vertex vs i) (vertex vs f) then i else f) := rfl

/-- `if l.Vertex(firstIdx+1).Cmp(l.Vertex(firstIdx+n-1).Vector) == -1 { return firstIdx, 1 }; firstIdx += n; return firstIdx, -1` -/
theorem tie_canonicalFirstVertex {P A : Type} [Inhabited P] (E : TurnEnv P A) (vs : List P) :
    canonicalFirstVertex E vs =
      let n : Int := vs.length
      let f := argminFrom E vs (vs.length - 1) 1 0
      if E.lt (vertex vs (CanonicalFirstVertex_val1 f)) (vertex vs (CanonicalFirstVertex_val0 f n)) then (f, 1) else (f + n, -1) := rfl

/-! ### TurningAngle -/

/-- the soft-float turn environment assembled from the REGENERATED non-libm pieces -/
def genTurnEnv {P : Type} (lt : P → P → Bool) (ta : P → P → P → F64) (southern : P → Bool) : TurnEnv P F64 :=
  { lt := lt, turnAngle := ta, add := F64.add, sub := F64.sub, zero := F64.zero false,
    mulDir := fun dir x => F64.mul (F64.ofInt dir) x,
    clamp := fun x => F64.fmax ⟨0xc01921fb54442d17⟩ (F64.fmin ⟨0x401921fb54442d17⟩ x),
    special := fun v => if TurningAngle_cond1 (southern v) then ⟨0xc01921fb54442d18⟩ else ⟨0x401921fb54442d18⟩ }

theorem tie_f64TurnEnv {P : Type} (lt : P → P → Bool) (ta : P → P → P → F64) (southern : P → Bool) :
    f64TurnEnv lt ta southern = genTurnEnv lt ta southern := rfl

/-- `math.Max(-maxCurvature, math.Min(maxCurvature, float64(dir)*float64(sum+compensation)))` -/
theorem tie_clamp {P : Type} (lt : P → P → Bool) (ta : P → P → P → F64) (southern : P → Bool) (dir : Int) (sum comp : F64) :
    (f64TurnEnv lt ta southern).clamp ((f64TurnEnv lt ta southern).mulDir dir ((f64TurnEnv lt ta southern).add sum comp)) =
      TurningAngle_val5 dir sum comp := rfl

/-- `maxCurvature = 2*math.Pi - 4*dblEpsilon` as one correctly rounded constant: the predecessor of 2π -/
theorem tie_maxCurvature : maxCurvature.bits + 1 = f64TwoPi.bits := rfl

/-- `oldSum := sum; angle += compensation; sum += angle; compensation = (oldSum - sum) + angle` -/
theorem tie_kahanStep {P : Type} (lt : P → P → Bool) (ta : P → P → P → F64) (southern : P → Bool) (sum comp angle : F64) :
    kahanStep (f64TurnEnv lt ta southern) (sum, comp) angle =
      let oldSum := sum
      let angle := F64.add angle comp
      let sum := F64.add sum angle
      (sum, TurningAngle_val4 oldSum sum angle) := rfl

/-- `i += dir; angle := TurnAngle(l.Vertex(i-dir), l.Vertex(i), l.Vertex(i+dir))` -/
theorem tie_turnLoop_step {P A : Type} [Inhabited P] (E : TurnEnv P A) (vs : List P) (dir : Int) (k : Nat) (i : Int) (st : A × A) :
    turnLoop E vs dir (k + 1) i st =
      let i := i + dir
      turnLoop E vs dir k i
        (kahanStep E st (E.turnAngle (vertex vs (TurningAngle_val2 i dir)) (vertex vs i) (vertex vs (TurningAngle_val3 i dir)))) := rfl

/-- `for n-1 > 0 { …; n-- }` runs `len - 1` times -/
theorem tie_turnLoop_count (n : Nat) (k : Nat) :
    TurningAngle_cond3 ((n : Int) - (k : Int)) = decide (k < n - 1) := by
  simp only [TurningAngle_cond3]
  exact decide_eq_decide.mpr (by omega)

/-- `sum := TurnAngle(l.Vertex((i+n-dir)%n), l.Vertex(i), l.Vertex((i+dir)%n))` and the final `sum + compensation` -/
theorem tie_turnTotal {P A : Type} [Inhabited P] (E : TurnEnv P A) (vs : List P) :
    turnTotal E vs =
      let n : Int := vs.length
      let cf := canonicalFirstVertex E vs
      let i := cf.1
      let dir := cf.2
      let sum := E.turnAngle (vertex vs (TurningAngle_val0 i n dir)) (vertex vs i) (vertex vs (TurningAngle_val1 i dir n))
      let st := turnLoop E vs dir (vs.length - 1) i (sum, E.zero)
      E.add st.1 st.2 := rfl

/-- the special cases: one-vertex loops, fewer than three vertices -/
theorem tie_turningAngle {P A : Type} [Inhabited P] (E : TurnEnv P A) (v w : P) (vs : List P) :
    turningAngle E [v] = E.special v ∧
    turningAngle E (v :: w :: vs) =
      if TurningAngle_cond2 ((v :: w :: vs).length : Int) then E.zero
      else E.clamp (E.mulDir (canonicalFirstVertex E (v :: w :: vs)).2 (turnTotal E (v :: w :: vs))) := by
  refine ⟨rfl, ?_⟩
  have : (((v :: w :: vs).length : Int) < 3) ↔ ((v :: w :: vs).length < 3) := by omega
  simp only [turningAngle, TurningAngle_cond2, decide_eq_true_eq, this]

/-- `maxErrorPerVertex := 11.25 * dblEpsilon; return maxErrorPerVertex * float64(len(l.vertices))` -/
theorem tie_turningAngleMaxError (n : Nat) :
    Measures.turningAngleMaxError n = turningAngleMaxError_val0 maxErrorPerVertex (n : Int) := rfl
theorem tie_maxErrorPerVertex : maxErrorPerVertex = F64.mul ⟨0x4026800000000000⟩ ⟨dblEpsilon_bits⟩ := by decide

/-- the one-vertex (empty / full) loops are recognised by `l.isEmptyOrFull()` alone -/
theorem tie_special_guards (b : Bool) : TurningAngle_cond0 b = b ∧ Loop_Area_cond0 b = b := ⟨rfl, rfl⟩

/-! ### IsNormalized, Area -/

theorem tie_isNormalized (lngLen turning maxErr : F64) :
    isNormalized f64AreaEnv lngLen turning maxErr =
      if IsNormalized_cond0 lngLen then true else IsNormalized_val0 turning maxErr := rfl

/-- `if area < 0 { area += 4π }; if area > 4π { area = 4π }; if area < 0 { area = 0 }` -/
theorem tie_areaClamp (raw : F64) :
    areaClamp f64AreaEnv raw =
      let area := if Loop_Area_cond2 raw then F64.add raw f64FourPi else raw
      let area := if Loop_Area_cond3 area then f64FourPi else area
      if Loop_Area_cond4 area then F64.zero false else area := rfl

theorem tie_areaDecide (area maxErr : F64) (isNorm : Bool) :
    areaDecide f64AreaEnv area maxErr isNorm =
      if Loop_Area_cond5 area maxErr isNorm then f64FourPi
      else if Loop_Area_cond6 area maxErr isNorm then F64.zero false
      else area := rfl

theorem tie_loopArea (n : Nat) (containsOrigin : Bool) (raw maxErr : F64) (isNorm : Bool) :
    loopArea f64AreaEnv n containsOrigin raw maxErr isNorm =
      if n == 1 then (if Loop_Area_cond1 containsOrigin then f64FourPi else F64.zero false)
      else areaFinish f64AreaEnv raw maxErr isNorm := rfl

/-! ### surface integral (one generic model for the two Go mirrors) -/

/-- the environment assembled from the regenerated pieces of `surfaceIntegralFloat64`:
    `ang` = `Vector.Angle` (libm), `pc` = `PointCross`, `f` the triangle function -/
def genSurfEnvF (f : V3 → V3 → V3 → F64) (ang : V3 → V3 → F64) (pc : V3 → V3 → V3) : SurfEnv V3 F64 :=
  { f := f, add := F64.add, zero := F64.zero false,
    eqP := fun a b => surfaceIntegralFloat64_cond2 a b,
    angleGt := fun a b => surfaceIntegralFloat64_cond1 (ang a b),
    angleLt := fun a b => surfaceIntegralFloat64_cond3 (ang a b),
    crossNormalize := fun a b => surfaceIntegralFloat64_val1 (pc a b),
    cross := fun a b => surfaceIntegralFloat64_val2 a b }

/-- … and of `surfaceIntegralPoint` -/
def genSurfEnvP (f : V3 → V3 → V3 → V3) (ang : V3 → V3 → F64) (pc : V3 → V3 → V3) : SurfEnv V3 V3 :=
  { f := f, add := fun s x => surfaceIntegralPoint_val4 s x, zero := ⟨F64.zero false, F64.zero false, F64.zero false⟩,
    eqP := fun a b => surfaceIntegralPoint_cond2 a b,
    angleGt := fun a b => surfaceIntegralPoint_cond1 (ang a b),
    angleLt := fun a b => surfaceIntegralPoint_cond3 (ang a b),
    crossNormalize := fun a b => surfaceIntegralPoint_val1 (pc a b),
    cross := fun a b => surfaceIntegralPoint_val2 a b }

/-- the two Go functions are mirrors: same tests, same origin updates, same index arithmetic -/
theorem tie_surface_mirror :
    surfaceIntegralPoint_cond0 = surfaceIntegralFloat64_cond0 ∧ surfaceIntegralPoint_cond1 = surfaceIntegralFloat64_cond1 ∧
    surfaceIntegralPoint_cond2 = surfaceIntegralFloat64_cond2 ∧ surfaceIntegralPoint_cond3 = surfaceIntegralFloat64_cond3 ∧
    surfaceIntegralPoint_cond4 = surfaceIntegralFloat64_cond4 ∧ surfaceIntegralPoint_val0 = surfaceIntegralFloat64_val0 ∧
    surfaceIntegralPoint_val1 = surfaceIntegralFloat64_val1 ∧ surfaceIntegralPoint_val2 = surfaceIntegralFloat64_val2 ∧
    surfaceIntegralPoint_val5 = surfaceIntegralFloat64_val3 ∧ surfaceIntegralPoint_val7 = surfaceIntegralFloat64_val4 ∧
    surfaceIntegralPoint_val3 = surfaceIntegralPoint_val4 ∧ surfaceIntegralPoint_val6 = surfaceIntegralPoint_val4 ∧
    surfaceIntegralPoint_val8 = surfaceIntegralPoint_val4 := ⟨rfl, rfl, rfl, rfl, rfl, rfl, rfl, rfl, rfl, rfl, rfl, rfl, rfl⟩

/-- the branch tree of the loop body over the regenerated tests (float flavour) -/
theorem tie_surfStep (f : V3 → V3 → V3 → F64) (ang : V3 → V3 → F64) (pc : V3 → V3 → V3) (v0 vi vi1 : V3) (sum : F64) (origin : V3) :
    surfStep (genSurfEnvF f ang pc) v0 vi vi1 (sum, origin) =
      if surfaceIntegralFloat64_cond1 (ang vi1 origin) then
        let oldOrigin := origin
        if surfaceIntegralFloat64_cond2 origin v0 then
          let origin := surfaceIntegralFloat64_val1 (pc v0 vi)
          let sum := F64.add sum (f oldOrigin vi origin)
          (F64.add sum (f origin vi vi1), origin)
        else if surfaceIntegralFloat64_cond3 (ang vi v0) then
          let origin := v0
          let sum := F64.add sum (f oldOrigin vi origin)
          (F64.add sum (f origin vi vi1), origin)
        else
          let origin := surfaceIntegralFloat64_val2 v0 oldOrigin
          let sum := F64.add sum (f v0 oldOrigin origin)
          let sum := F64.add sum (f oldOrigin vi origin)
          (F64.add sum (f origin vi vi1), origin)
      else (F64.add sum (f origin vi vi1), origin) := rfl

/-- `for i := 1; i+1 < len(l.vertices); i++` with `l.Vertex(i)`, `l.Vertex(i+1)` -/
theorem tie_surfLoop_step {P S : Type} [Inhabited P] (E : SurfEnv P S) (vs : List P) (v0 : P) (k : Nat) (i : Int) (st : S × P) :
    surfLoop E vs v0 (k + 1) i st =
      surfLoop E vs v0 k (i + 1) (surfStep E v0 (vertex vs i) (vertex vs (surfaceIntegralFloat64_val0 i)) st) := rfl
theorem tie_surfLoop_count (n i : Nat) :
    surfaceIntegralFloat64_cond0 ((i : Int) + 1) (n : Int) = decide (i < n - 2) := by
  simp only [surfaceIntegralFloat64_cond0]
  exact decide_eq_decide.mpr (by omega)

/-- the closing triangle `if origin != l.Vertex(0) { sum += f(origin, l.Vertex(len-1), l.Vertex(0)) }` -/
theorem tie_surfaceIntegral (f : V3 → V3 → V3 → F64) (ang : V3 → V3 → F64) (pc : V3 → V3 → V3) (vs : List V3) :
    surfaceIntegral (genSurfEnvF f ang pc) vs =
      let v0 := vertex vs 0
      let st := surfLoop (genSurfEnvF f ang pc) vs v0 (vs.length - 2) 1 (F64.zero false, v0)
      if surfaceIntegralFloat64_cond4 st.2 v0
      then F64.add st.1 (f st.2 (vertex vs (surfaceIntegralFloat64_val4 (vs.length : Int))) v0) else st.1 := rfl

/-! ### polygons -/

theorem tie_polygonArea (ls : List (PLoop F64 V3)) :
    f64PolygonArea ls = ls.foldl (fun area l => F64.add area (Polygon_Area_val0 l.sign l.area)) (F64.zero false) := rfl

theorem tie_polygonCentroid (ls : List (PLoop F64 V3)) :
    f64PolygonCentroid ls =
      ls.foldl (fun u l => if Polygon_Centroid_cond0 l.sign then Polygon_Centroid_val0 u l.centroid
        else Polygon_Centroid_val1 u l.centroid) ⟨F64.zero false, F64.zero false, F64.zero false⟩ := by
  simp only [f64PolygonCentroid, polygonCentroid, Polygon_Centroid_cond0, Polygon_Centroid_val0, Polygon_Centroid_val1,
    decide_eq_true_eq]

end S2Proofs.Ties.C18Measures
