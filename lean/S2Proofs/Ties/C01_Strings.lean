/-
  S2Proofs.Ties.C01_Strings — regenerated-instance obligations for the token / string functions of s2/cellid.go:
  `CellID.ToToken`, `CellID.String`, `CellIDFromString`.

  `S2.Generated.CellIDStrFns.*` is rewritten from the Go source on every run by translator_c01 (str.go): control flow,
  constants ("X", "Invalid: ", "012345", "0123", '/', '0', 16, the bounds 2, 3, 5, MaxLevel), loop bounds and indices come
  from the Go AST.  Referred to BY NAME (not translated; their meaning is the small Lean helper in the generated file's
  prelude): `fmt.Sprintf("%016x", ·)` = `fmtHex16`, `strings.TrimRight` = `trimRight`, `strconv.FormatInt` = `formatInt`,
  `bytes.Buffer` (`WriteByte`, `String`) = a `List UInt8` / `bufString`, string indexing `s[i]` = `strAt`,
  indexing of a `[4]CellID` by a variable = `idx4`.

  Strings: Go strings are byte strings, the models use Lean `String` (characters).  The two views coincide on ASCII
  strings.  `tie_ToToken` and `tie_String` are unconditional function equalities (every string involved is ASCII by
  construction).  `tie_CellIDFromString` is stated for strings whose characters are all below 256 (this contains the
  ASCII strings, where model and Go agree by the above; on any non-ASCII string Go sees bytes ≥ 128, which it rejects,
  and so does the hand model `fromStr` — that case is covered by the behavioural correspondence only).
-/
import S2.CellID
import S2.Generated.CellIDStrFns
import S2Proofs.Ties.C01
namespace S2Proofs.Ties.C01
open S2 S2.Generated

theorem zeroStr_toList : ("0" : String).toList = ['0'] := by decide

theorem contains_zero (c : Char) : ("0" : String).toList.contains c = (c == '0') := by
  rw [zeroStr_toList]
  by_cases h : c = '0' <;> simp [h]

theorem tie_trimRight_zero (l : List Char) :
    CellIDStrFns.trimRight (String.ofList l) "0" = String.ofList (CellID.dropTrailingZeros l) := by
  simp only [CellIDStrFns.trimRight, CellID.dropTrailingZeros, String.toList_ofList, contains_zero]

theorem tie_ToToken : CellID.toToken = CellIDStrFns.ToToken := by
  funext ci
  simp only [CellID.toToken, CellIDStrFns.ToToken, CellIDStrFns.fmtHex16, tie_trimRight_zero,
    String.toList_ofList]
  cases h : CellID.dropTrailingZeros (CellID.hex16 ci) <;> simp


/-! ### String -/

theorem strAt_0123 : ∀ p, p < 4 →
    Char.ofNat (CellIDStrFns.strAt "0123" p).toNat = Char.ofNat (48 + p) := by decide

theorem strAt_012345 : ∀ f, f < 6 →
    Char.ofNat (CellIDStrFns.strAt "012345" f).toNat = Char.ofNat (48 + f) := by decide

theorem ChildPosition_lt (ci : UInt64) (l : Nat) : CellIDFns.ChildPosition ci l < 4 := by
  unfold CellIDFns.ChildPosition
  have : (CellIDFns.shr64 ci (2 * (30 - l) + 1)).toNat &&& 3 ≤ 3 := Nat.and_le_right
  omega

theorem Level_le (ci : UInt64) : CellIDFns.Level ci ≤ 30 := by
  unfold CellIDFns.Level; omega

/-- the loop of `String`: started at `level` with buffer `b` it appends the digit of every level `level, …, Level()` -/
theorem String_loop (ci : UInt64) : ∀ (fuel : Nat) (b : List UInt8) (level : Nat),
    level ≤ CellIDFns.Level ci + 1 → CellIDFns.Level ci + 1 ≤ fuel + level →
    (CellIDStrFns.CellID_String_loop1 ci fuel (b, level)).1 =
      b ++ (List.range (CellIDFns.Level ci + 1 - level)).map
        (fun k => CellIDStrFns.strAt "0123" (CellIDFns.ChildPosition ci (level + k))) := by
  intro fuel
  induction fuel with
  | zero =>
    intro b level h1 h2
    have : CellIDFns.Level ci + 1 - level = 0 := by omega
    simp [CellIDStrFns.CellID_String_loop1, this]
  | succ n ih =>
    intro b level h1 h2
    by_cases hl : level ≤ CellIDFns.Level ci
    · have e : CellIDFns.Level ci + 1 - level = (CellIDFns.Level ci + 1 - (level + 1)) + 1 := by omega
      simp only [CellIDStrFns.CellID_String_loop1, hl, if_true]
      rw [ih _ _ (by omega) (by omega), e, List.range_succ_eq_map]
      simp [List.map_map, Function.comp_def, Nat.add_assoc, Nat.add_comm 1]
    · have : CellIDFns.Level ci + 1 - level = 0 := by omega
      simp [CellIDStrFns.CellID_String_loop1, hl, this]

theorem isValid_zero : CellID.isValid 0 = false := by decide

/-- `CellID.String()`: the hand model is the regenerated function, for EVERY id (valid ids: face digit, '/', one
    child-position digit per level 1 … Level(); invalid ids, including 0: "Invalid: " and the signed hex of the word). -/
theorem tie_String : CellID.toStr = CellIDStrFns.CellID_String := by
  funext ci
  unfold CellID.toStr CellIDStrFns.CellID_String
  rw [← tie_IsValid]
  cases hv : CellID.isValid ci with
  | false => simp [CellIDStrFns.formatInt]
  | true =>
    have hne : ci ≠ 0 := by intro h; rw [h, isValid_zero] at hv; cases hv
    have hf : CellIDFns.Face ci < 6 := by
      rw [← tie_Face]
      simp only [CellID.isValid, CellID.numFaces, Bool.and_eq_true] at hv
      exact of_decide_eq_true hv.1
    have hL := Level_le ci
    simp only [Bool.not_true, Bool.false_eq_true, if_false]
    rw [String_loop ci _ _ 1 (by omega) (by simp [CellIDFns.MaxLevel]; omega)]
    simp only [CellIDStrFns.bufString, List.nil_append, List.cons_append, List.map_cons, List.map_map,
      Nat.add_sub_cancel]
    rw [strAt_012345 _ hf, tie_Level ci hne, tie_Face, tie_ChildPosition]
    congr 3
    refine List.map_congr_left ?_
    intro k _
    simp only [Function.comp_def]
    rw [strAt_0123 _ (ChildPosition_lt ci _), Nat.add_comm 1 k]

/-- non-vacuity / sanity: a level-3 cell, a face cell, a leaf and two invalid words through the regenerated function -/
example : CellIDStrFns.CellID_String 0x3B40000000000000 = "1/312" := by decide
example : CellIDStrFns.CellID_String 0x1000000000000000 = "0/" := by decide
example : CellIDStrFns.CellID_String 0 = "Invalid: 0" := by decide


/-! ### CellIDFromString -/

theorem sub48 (n : Nat) : (UInt8.ofNat n - 48).toNat = (n + 256 - 48) % 256 := by
  rw [UInt8.toNat_sub, UInt8.toNat_ofNat']
  simp
  omega

theorem strAt_get (s : String) (i : Nat) (h : i < s.toList.length) :
    CellIDStrFns.strAt s i = UInt8.ofNat (s.toList[i]).toNat := by
  simp [CellIDStrFns.strAt, h]

theorem idx4_child (id : UInt64) (k : Nat) (h : k ≤ 3) :
    CellIDStrFns.idx4 (CellIDFns.Children id) k = CellID.child id k := by
  rw [← tie_Children]
  match k, h with
  | 0, _ => rfl
  | 1, _ => rfl
  | 2, _ => rfl
  | 3, _ => rfl

/-- one step of the hand model's fold over the child-position characters -/
def fsStep (acc : Option CellID) (c : Char) : Option CellID :=
  match acc with
  | none => none
  | some id =>
    let cp := (c.toNat + 256 - 48) % 256
    if c.toNat ≥ 256 || cp > 3 then none else some (CellID.child id cp)

theorem fsStep_none (l : List Char) : l.foldl fsStep none = none := by
  induction l with
  | nil => rfl
  | cons c tl ih => simpa [List.foldl_cons, fsStep] using ih

/-- the loop of `CellIDFromString` from index `i` on = the hand model's fold over the remaining characters -/
theorem FromString_loop (s : String) (hs : ∀ c ∈ s.toList, c.toNat < 256) :
    ∀ (fuel : Nat) (id : UInt64) (i : Nat), i ≤ s.toList.length → s.toList.length ≤ fuel + i →
    CellIDStrFns.CellIDFromString_loop1 s fuel (id, (i : Int)) =
      match (s.toList.drop i).foldl fsStep (some id) with
      | none => .error 0
      | some id' => .ok (id', (s.toList.length : Int)) := by
  intro fuel
  induction fuel with
  | zero =>
    intro id i h1 h2
    have : i = s.toList.length := by omega
    subst this
    simp [CellIDStrFns.CellIDFromString_loop1]
  | succ n ih =>
    intro id i h1 h2
    by_cases hi : i < s.toList.length
    · have hc := hs _ (List.getElem_mem hi)
      have hlt : (i : Int) < Int.ofNat s.toList.length := by simpa using hi
      rw [List.drop_eq_getElem_cons hi, List.foldl_cons]
      simp only [CellIDStrFns.CellIDFromString_loop1, hlt, if_true, Int.toNat_natCast, strAt_get s i hi]
      by_cases h3 : (s.toList[i].toNat + 256 - 48) % 256 > 3
      · have hgt : UInt8.ofNat s.toList[i].toNat - 48 > 3 := by
          rw [gt_iff_lt, UInt8.lt_iff_toNat_lt, sub48]; exact h3
        have h3' : 3 < (s.toList[i].toNat + 208) % 256 := by omega
        simp [hgt, fsStep, h3', fsStep_none]
      · have hgt : ¬ (UInt8.ofNat s.toList[i].toNat - 48 > 3) := by
          rw [gt_iff_lt, UInt8.lt_iff_toNat_lt, sub48]; exact h3
        have h256 : ¬ (s.toList[i].toNat ≥ 256) := by omega
        have e : ((i : Int) + 1) = ((i + 1 : Nat) : Int) := by simp
        simp only [hgt, if_false, sub48, e]
        rw [ih _ (i + 1) (by omega) (by omega), idx4_child _ _ (by omega)]
        have h3' : ¬ 3 < (s.toList[i].toNat + 208) % 256 := by omega
        simp [fsStep, h3', h256]
    · have : i = s.toList.length := by omega
      subst this
      simp [CellIDStrFns.CellIDFromString_loop1]


theorem hand_fromStr_cons (s : String) (f sl : Char) (rest : List Char) (h : s.toList = f :: sl :: rest) :
    CellID.fromStr s =
      if rest.length > 30 then 0 else
      if f.toNat ≥ 256 || (f.toNat + 256 - 48) % 256 > 5 || sl != '/' then 0 else
        (rest.foldl fsStep (some (CellID.fromFace ((f.toNat + 256 - 48) % 256)))).getD 0 := by
  unfold CellID.fromStr
  simp only [h, List.length_cons, CellID.maxLevel]
  have : ¬ (rest.length + 1 + 1 < 2) := by omega
  simp only [this, if_false]
  rfl

theorem char_ne_slash (c : Char) (h : c.toNat < 256) : (UInt8.ofNat c.toNat != 47) = (c != '/') := by
  have h1 : (UInt8.ofNat c.toNat = 47) ↔ c = '/' := by
    constructor
    · intro e
      have := congrArg UInt8.toNat e
      rw [UInt8.toNat_ofNat'] at this
      have h47 : c.toNat = 47 := by simpa [Nat.mod_eq_of_lt h] using this
      exact Char.ext (UInt32.toNat_inj.mp (h47.trans (by decide)))
    · rintro rfl; rfl
  rw [Bool.eq_iff_iff]; simp [bne_iff_ne, h1]


theorem tie_CellIDFromString (s : String) (hs : ∀ c ∈ s.toList, c.toNat < 256) :
    CellID.fromStr s = CellIDStrFns.CellIDFromString s := by
  match h : s.toList with
  | [] => simp [CellID.fromStr, CellIDStrFns.CellIDFromString, h]
  | [a] => simp [CellID.fromStr, CellIDStrFns.CellIDFromString, h]
  | f :: sl :: rest =>
    have hf : f.toNat < 256 := hs f (by simp [h])
    have hsl : sl.toNat < 256 := hs sl (by simp [h])
    have hlen : s.toList.length = rest.length + 2 := by simp [h]
    rw [hand_fromStr_cons s f sl rest h]
    unfold CellIDStrFns.CellIDFromString
    have h0 : CellIDStrFns.strAt s 0 = UInt8.ofNat f.toNat := by
      rw [strAt_get s 0 (by omega)]; simp [h]
    have h1 : CellIDStrFns.strAt s 1 = UInt8.ofNat sl.toNat := by
      rw [strAt_get s 1 (by omega)]; simp [h]
    have hloop := FromString_loop s hs s.toList.length
    simp only [h0, h1, sub48, char_ne_slash sl hsl, ← tie_CellIDFromFace, Int.toNat_natCast,
      Int.ofNat_eq_natCast]
    rw [show ((2 : Int)) = ((2 : Nat) : Int) from rfl, hloop _ 2 (by omega) (by omega)]
    have hd : s.toList.drop 2 = rest := by simp [h]
    have hd256 : decide (f.toNat ≥ 256) = false := by simp; omega
    have e1 : ((rest.length + 2 : Nat) : Int) - ((2 : Nat) : Int) = (rest.length : Int) := by omega
    rw [hd, hlen]
    simp only [e1, hd256, Bool.false_or]
    generalize (f.toNat + 256 - 48) % 256 = fv
    generalize List.foldl fsStep (some (CellID.fromFace fv)) rest = r
    by_cases hr : rest.length > 30
    · have : (rest.length : Int) > 30 := by omega
      simp [hr, this]
    · have h2 : ¬ ((rest.length : Int) > 30) := by omega
      have h3 : ¬ ((rest.length : Int) < 0) := by omega
      have h4 : ¬ ((fv : Int) < 0) := by omega
      simp only [hr, h2, h3, h4, if_false, decide_false, Bool.false_or, Bool.or_false]
      by_cases h5 : fv > 5
      · have : (fv : Int) > 5 := by omega
        simp [h5, this]
      · have h6 : ¬ ((fv : Int) > 5) := by omega
        simp only [h5, h6, decide_false, Bool.false_or]
        by_cases h7 : sl = '/'
        · cases r <;> simp [h7]
        · simp [h7]


/-- the ASCII instance (where Lean's `String` and Go's byte string coincide) -/
theorem tie_CellIDFromString_ascii (s : String) (hs : ∀ c ∈ s.toList, c.toNat < 128) :
    CellID.fromStr s = CellIDStrFns.CellIDFromString s :=
  tie_CellIDFromString s (fun c hc => Nat.lt_trans (hs c hc) (by decide))

/-- non-vacuity: "1/312" is ASCII; the regenerated function parses it, rejects a bad digit / face / separator / short input -/
example : ∀ c ∈ ("1/312" : String).toList, c.toNat < 128 := by decide
example : CellIDStrFns.CellIDFromString "1/312" = 0x3B40000000000000 := by decide
example : CellIDStrFns.CellIDFromString "1/342" = 0 ∧ CellIDStrFns.CellIDFromString "6/" = 0 ∧
    CellIDStrFns.CellIDFromString "1-0" = 0 ∧ CellIDStrFns.CellIDFromString "1" = 0 ∧
    CellIDStrFns.CellIDFromString "" = 0 := by decide
example : CellIDStrFns.ToToken 0x3B40000000000000 = "3b4" ∧ CellIDStrFns.ToToken 0 = "X" := by decide

end S2Proofs.Ties.C01
