/-
  S2Proofs.Ties.C03_Cross — regenerated-instance obligations for s2/edge_crosser.go, s2/edge_crossings.go and the
  parts of s2/point.go / r3/vector.go they use.

  `S2.Generated.CrossFns.*` is rewritten from the Go source on every run by translator_c02 (rules: header of
  translator_c02/main.go; methods on *EdgeCrosser are state passing, the deferred closure of `crossingSign` runs after
  the operands of every return).  Every theorem says `hand model = regenerated function` for the definitions of
  `S2.Crossing` / `S2.Crosser` that the property theorems and the oracle use.
-/
import S2.Crossing
import S2.Crosser
import S2.Generated.CrossFns
import S2Proofs.Ties.C02_Pred
import S2Proofs.Ties.C17_EdgeNum
namespace S2Proofs.Ties.C03_Cross
open S2 S2.Generated S2.Exact S2Proofs.Ties.C02_Pred
set_option linter.unusedSimpArgs false

/-! ### r3/vector.go -/
theorem tie_Vector_Abs : V3.abs = CrossFns.Vector_Abs := rfl
theorem tie_Vector_Normalize : V3.normalize = CrossFns.Vector_Normalize := rfl
theorem tie_Vector_LargestComponent : V3.largestComponent = CrossFns.Vector_LargestComponent := rfl

theorem largestComponent_cases (v : V3) :
    CrossFns.Vector_LargestComponent v = 0 ∨ CrossFns.Vector_LargestComponent v = 1 ∨ CrossFns.Vector_LargestComponent v = 2 := by
  unfold CrossFns.Vector_LargestComponent
  dsimp only
  split <;> split <;> simp

theorem tie_Vector_Ortho : V3.ortho = CrossFns.Vector_Ortho := by
  funext v
  unfold V3.ortho CrossFns.Vector_Ortho
  rw [tie_Vector_LargestComponent]
  rcases largestComponent_cases v with h | h | h <;> rw [h] <;> rfl

/-! ### s2/point.go -/
theorem k_Ortho_0 : (Pred.Q.mk 12 1000).toF64 = CrossFns.Ortho_k0 := f64_eq_of_bits (by decide +kernel)
theorem k_Ortho_1 : (Pred.Q.mk 53 10000).toF64 = CrossFns.Ortho_k1 := f64_eq_of_bits (by decide +kernel)
theorem k_Ortho_2 : (Pred.Q.mk 457 100000).toF64 = CrossFns.Ortho_k2 := f64_eq_of_bits (by decide +kernel)

theorem tie_Ortho : Crossing.s2Ortho = CrossFns.Ortho := by
  funext a
  unfold Crossing.s2Ortho CrossFns.Ortho
  rw [tie_Vector_LargestComponent, k_Ortho_0, k_Ortho_1, k_Ortho_2]
  rcases largestComponent_cases a with h | h | h <;> rw [h] <;> rfl

theorem tie_referenceDir : Crossing.referenceDir = CrossFns.Point_referenceDir := by
  funext a
  unfold Crossing.referenceDir CrossFns.Point_referenceDir
  rw [tie_Ortho]

/-- `PointCross` (repaired, D60).  translator_c02 does not translate it any more (the exact fallback needs the big.Float →
    float64 conversion with signed zeros); the regenerated text is `EdgeNumFns.Point_PointCross` of translator_c16, over the
    externals `handExt` (hand models of r3/precisevector.go, source-pinned in Ties/C16_EdgeNum).  libm is not used. -/
theorem tie_PointCross (sin cos asin : F64 → F64) (atan2 : F64 → F64 → F64) :
    Crossing.pointCross = EdgeNumFns.Point_PointCross (C16_EdgeNum.handExt sin cos asin atan2) := by
  funext p op
  exact congrFun (congrFun (C17_EdgeNum.tie_PointCross sin cos asin atan2) p) op

/-! ### s2/edge_crosser.go -/
/-- the hand model's state, field by field in the order of the Go struct -/
def toGen (s : Crosser.St) : CrossFns.EdgeCrosser := ⟨s.a, s.b, s.aXb, s.aTangent, s.bTangent, s.c, s.acb⟩

/-- `minTangentNorm2 = 0x1p-80` (finding D48 repair): below this squared length of `(a+b) × (b-a)` no tangents -/
theorem k_minTangentNorm2 : Crossing.minTangentNorm2 = CrossFns.NewEdgeCrosser_k0 := f64_eq_of_bits (by decide +kernel)

/-- `NewEdgeCrosser(a, b)`: struct literal `{a, b, aXb}` (tangents, c, acb zero), then
    `if norm := (a+b) × (b-a); norm.Norm2() >= minTangentNorm2 { norm = norm.Normalize(); e.aTangent = …; e.bTangent = … }` -/
theorem tie_NewEdgeCrosser (a b : V3) : toGen (Crosser.init a b) = CrossFns.NewEdgeCrosser a b := by
  unfold Crosser.init Crossing.tangents CrossFns.NewEdgeCrosser
  rw [k_minTangentNorm2]
  dsimp only [toGen]
  split
  · rename_i h
    exact Eq.trans rfl (if_pos h).symm
  · rename_i h
    exact Eq.trans rfl (if_neg h).symm

/-- the tangents used by the stateless `Crossing.crossingSign` are the fields computed by `NewEdgeCrosser` -/
theorem tie_tangents (a b : V3) :
    Crossing.tangents a b = ((CrossFns.NewEdgeCrosser a b).aTangent, (CrossFns.NewEdgeCrosser a b).bTangent) := by
  rw [← tie_NewEdgeCrosser]
  rfl

theorem tie_RestartAt (e : Crosser.St) (c : V3) :
    toGen (Crosser.restartAt e c) = CrossFns.EdgeCrosser_RestartAt (toGen e) c := by
  unfold Crosser.restartAt
  rw [tie_triageSign]
  rfl

theorem tie_NewChainEdgeCrosser (a b c : V3) : toGen (Crosser.initChain a b c) = CrossFns.NewChainEdgeCrosser a b c := by
  unfold Crosser.initChain CrossFns.NewChainEdgeCrosser
  rw [tie_RestartAt, tie_NewEdgeCrosser]

theorem k_dblEpsilon : Crossing.dblEpsilon = CrossFns.EdgeCrosser_crossingSign_k3 := f64_eq_of_bits (by decide +kernel)
/-- `maxError := (1.5 + 1/math.Sqrt(3)) * dblEpsilon`, evaluated in float64 at run time -/
theorem k_maxError : Crossing.maxError =
    F64.mul (F64.add CrossFns.EdgeCrosser_crossingSign_k0
      (F64.div CrossFns.EdgeCrosser_crossingSign_k1 (F64.sqrt CrossFns.EdgeCrosser_crossingSign_k2))) CrossFns.EdgeCrosser_crossingSign_k3 := by
  unfold Crossing.maxError
  rw [k_dblEpsilon]
  rfl


/-- the slow path `(*EdgeCrosser).crossingSign(d, bda)`: result, and the state after the deferred closure
    (`e.c = d`, `e.acb = -bda` with `bda` as it is when the function returns) -/
theorem tie_crossingSign (e : Crosser.St) (d : V3) (bda : Int) :
    (toGen { e with c := d, acb := -(Crossing.slowSign e.a e.b e.aTangent e.bTangent e.c e.acb d bda).2 },
      (Crossing.slowSign e.a e.b e.aTangent e.bTangent e.c e.acb d bda).1) =
    CrossFns.EdgeCrosser_crossingSign (toGen e) d bda := by
  unfold Crossing.slowSign Crossing.tangentReject CrossFns.EdgeCrosser_crossingSign
  rw [k_maxError, tie_expensiveSign, tie_RobustSign, tie_Vector_eq]
  cases e with | mk a b aXb aT bT c acb =>
  dsimp only [toGen]
  by_cases h1 : (acb == 0) = true <;> by_cases h2 : (bda == 0) = true <;> simp only [h1, h2, ↓reduceIte, if_true, if_false, ← tie_Vector_Dot] <;> (repeat' split) <;> first | rfl | simp_all


/-- a state and a result, as the regenerated state-passing methods return them -/
def toGenR {α : Type} (r : Crosser.St × α) : CrossFns.EdgeCrosser × α := (toGen r.1, r.2)

theorem tie_ChainCrossingSign (e : Crosser.St) (d : V3) :
    toGenR (Crosser.chainCrossingSign e d) = CrossFns.EdgeCrosser_ChainCrossingSign (toGen e) d := by
  unfold Crosser.chainCrossingSign Crossing.chainSign CrossFns.EdgeCrosser_ChainCrossingSign toGenR
  rw [tie_triageSign]
  dsimp only [CrossFns.Crossing_DoNotCross]
  rw [← tie_crossingSign]
  split <;> split <;> first | rfl | (rename_i h1 h2; exact absurd h1 h2) | (rename_i h1 h2; exact absurd h2 h1)

theorem tie_CrossingSign_method (e : Crosser.St) (c d : V3) :
    toGenR (Crosser.crossingSign e c d) = CrossFns.EdgeCrosser_CrossingSign (toGen e) c d := by
  unfold Crosser.crossingSign CrossFns.EdgeCrosser_CrossingSign
  rw [tie_ChainCrossingSign, tie_Vector_eq]
  show _ = CrossFns.EdgeCrosser_ChainCrossingSign
    (if (!PredFns.Vector_eq c e.c) = true then CrossFns.EdgeCrosser_RestartAt (toGen e) c else toGen e) d
  rw [← tie_RestartAt]
  split <;> rfl

/-- `CrossingSign(a, b, c, d)` of edge_crossings.go: a fresh chain crosser and one call -/
theorem tie_CrossingSign : Crossing.crossingSign = CrossFns.CrossingSign := by
  funext a b c d
  show (Crosser.chainCrossingSign (Crosser.initChain a b c) d).2 = _
  unfold CrossFns.CrossingSign
  dsimp only
  rw [← tie_NewChainEdgeCrosser, ← tie_ChainCrossingSign]
  rfl

theorem tie_VertexCrossing : Crossing.vertexCrossing = CrossFns.VertexCrossing := by
  funext a b c d
  unfold Crossing.vertexCrossing Crossing.vertexCrossingWith CrossFns.VertexCrossing
  rw [tie_OrderedCCW, tie_referenceDir, tie_Vector_eq]

theorem tie_EdgeOrVertexCrossing : Crossing.edgeOrVertexCrossing = CrossFns.EdgeOrVertexCrossing := by
  funext a b c d
  unfold Crossing.edgeOrVertexCrossing CrossFns.EdgeOrVertexCrossing
  rw [tie_CrossingSign, tie_VertexCrossing]
  generalize CrossFns.CrossingSign a b c d = s
  generalize CrossFns.VertexCrossing a b c d = v
  by_cases h1 : s = -1 <;> by_cases h2 : s = 1 <;> by_cases h3 : s = 0 <;>
    simp [h1, h2, h3, CrossFns.Crossing_DoNotCross, CrossFns.Crossing_Cross, CrossFns.Crossing_MaybeCross]

theorem tie_AngleContainsVertex : Crossing.angleContainsVertex = CrossFns.AngleContainsVertex := by
  funext a b c
  unfold Crossing.angleContainsVertex CrossFns.AngleContainsVertex
  rw [tie_OrderedCCW, tie_referenceDir]

theorem tie_EdgeOrVertexChainCrossing (e : Crosser.St) (d : V3) :
    toGenR (Crosser.edgeOrVertexChainCrossing e d) = CrossFns.EdgeCrosser_EdgeOrVertexChainCrossing (toGen e) d := by
  unfold Crosser.edgeOrVertexChainCrossing CrossFns.EdgeCrosser_EdgeOrVertexChainCrossing
  rw [tie_VertexCrossing]
  dsimp only
  rw [← tie_ChainCrossingSign]
  have ha : (Crosser.chainCrossingSign e d).1.a = e.a := rfl
  have hb : (Crosser.chainCrossingSign e d).1.b = e.b := rfl
  generalize Crosser.chainCrossingSign e d = r at ha hb ⊢
  obtain ⟨e', s⟩ := r
  dsimp only [toGenR, toGen] at ha hb ⊢
  rw [ha, hb]
  generalize CrossFns.VertexCrossing e.a e.b e.c d = v
  by_cases h1 : s = -1 <;> by_cases h2 : s = 1 <;> by_cases h3 : s = 0 <;>
    simp [h1, h2, h3, CrossFns.Crossing_DoNotCross, CrossFns.Crossing_Cross, CrossFns.Crossing_MaybeCross]

theorem tie_EdgeOrVertexCrossing_method (e : Crosser.St) (c d : V3) :
    toGenR (Crosser.edgeOrVertexCrossing e c d) = CrossFns.EdgeCrosser_EdgeOrVertexCrossing (toGen e) c d := by
  unfold Crosser.edgeOrVertexCrossing CrossFns.EdgeCrosser_EdgeOrVertexCrossing
  rw [tie_EdgeOrVertexChainCrossing, tie_Vector_eq]
  show _ = CrossFns.EdgeCrosser_EdgeOrVertexChainCrossing
    (if (!PredFns.Vector_eq c e.c) = true then CrossFns.EdgeCrosser_RestartAt (toGen e) c else toGen e) d
  rw [← tie_RestartAt]
  split <;> rfl

/-- the Go ordinals of the Crossing enum are distinct and are what the oracle's decoder expects:
    Cross = 0, MaybeCross = 1, DoNotCross = 2 (model encoding +1 / 0 / -1) -/
theorem tie_Crossing_enum :
    (CrossFns.Crossing_Cross, CrossFns.Crossing_MaybeCross, CrossFns.Crossing_DoNotCross) = (1, 0, -1) ∧
    (CrossFns.Crossing_Cross_go, CrossFns.Crossing_MaybeCross_go, CrossFns.Crossing_DoNotCross_go) = (0, 1, 2) := by
  decide

/-- FMA audit.  The Go spec lets a compiler fuse `x*y ± z` into one rounding unless the product is explicitly converted
    (`float64(x*y)`); the model rounds every operation separately (what gc does on amd64).  The translator counts, per
    function, the products that are direct operands of `+` / `-` without such a conversion: none in these functions -/
theorem tie_fmaSites_zero :
    [CrossFns.Vector_Abs_fmaSites, CrossFns.Vector_Normalize_fmaSites, CrossFns.Vector_LargestComponent_fmaSites, CrossFns.Vector_Ortho_fmaSites, CrossFns.Ortho_fmaSites, CrossFns.Point_referenceDir_fmaSites, CrossFns.NewEdgeCrosser_fmaSites, CrossFns.EdgeCrosser_RestartAt_fmaSites, CrossFns.EdgeCrosser_crossingSign_fmaSites, CrossFns.EdgeCrosser_ChainCrossingSign_fmaSites, CrossFns.EdgeCrosser_CrossingSign_fmaSites, CrossFns.NewChainEdgeCrosser_fmaSites, CrossFns.CrossingSign_fmaSites, CrossFns.VertexCrossing_fmaSites, CrossFns.EdgeCrosser_EdgeOrVertexChainCrossing_fmaSites, CrossFns.EdgeCrosser_EdgeOrVertexCrossing_fmaSites, CrossFns.EdgeOrVertexCrossing_fmaSites, CrossFns.AngleContainsVertex_fmaSites] = List.replicate 18 0 := by decide

end S2Proofs.Ties.C03_Cross
