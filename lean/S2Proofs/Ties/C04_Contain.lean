/-
  S2Proofs.Ties.C04_Contain — regenerated-instance obligations for the containment / crossing queries:
  s2/contains_point_query.go, s2/crossing_edge_query.go, the containment functions of s2/loop.go, s2/polygon.go,
  s2/shapeutil.go, and VertexCrossing / EdgeOrVertexCrossing / AngleContainsVertex / OrderedCCW.

  `S2.Generated.ContainFns.*` is rewritten from the Go source on every run by translator_c08 (skeleton extraction:
  every condition `F_cond<k>`, every computed value `F_val<k>`, the statement structure `F_shape`).  s2.Point is the
  point type of the hand model's geometry `Geo P` (`a == b` is `G.eq a b`), `Crossing` / `VertexModel` are the hand
  model's inductive types (constant lists checked by the translator).

  The theorems say that the hand model `S2.Contain` (which the C04 / C06_Index theorems and the oracle ops c04contain,
  c04cpq, c04cross use) branches on exactly these conditions, in the Go nesting, and computes exactly these values.
  A flipped comparison, `||` ↔ `&&`, a changed vertex model constant, a dropped / reordered test or a changed
  threshold changes a `cond`/`val` definition or a shape string and the corresponding theorem fails.
-/
import S2.Contain
import S2.History
import S2.Generated.ContainFns
namespace S2Proofs.Ties.C04_Contain
open S2 S2.Contain S2.Generated
set_option linter.unusedSimpArgs false
set_option linter.unusedSectionVars false

variable {P : Type} (G : Geo P)

/-- Bool equation between an `Int` test on casts and the `Nat` test of the hand model -/
macro "cast_dec" : tactic => `(tactic| (intros; rw [Bool.eq_iff_iff]; simp only [decide_eq_true_eq, beq_iff_eq, bne_iff_ne, ne_eq, Bool.and_eq_true, Bool.or_eq_true]; omega))

/-! ### ContainsPointQuery -/

/-- one iteration of the crossing loop of `shapeContains` (2-dimensional shapes):
    `sign := crosser.CrossingSign(edge.V0, edge.V1); if sign == DoNotCross { continue };
     if sign == MaybeCross { if q.model != SemiOpen && (edge.V0 == p || edge.V1 == p) { return q.model == Closed };
       if VertexCrossing(..) { sign = Cross } else { sign = DoNotCross } }; inside = inside != (sign == Cross)` -/
theorem tie_shapeContainsGo_step (vm : VertexModel) (center p : P) (inside : Bool) (e : P × P) (es : List (P × P)) :
    shapeContainsGo G vm center p inside (e :: es) =
      let sign := crossingSign G center p e.1 e.2
      if ContainFns.shapeContains_cond4 sign then shapeContainsGo G vm center p inside es
      else if ContainFns.shapeContains_cond5 sign then
        if ContainFns.shapeContains_cond6 G vm e.1 p e.2 then ContainFns.shapeContains_val0 vm
        else
          let sign' : Crossing := if ContainFns.shapeContains_cond7 (vertexCrossing G center p e.1 e.2) then .cross else .doNot
          shapeContainsGo G vm center p (ContainFns.shapeContains_val1 inside sign') es
      else shapeContainsGo G vm center p (ContainFns.shapeContains_val1 inside sign) es := by
  simp only [shapeContainsGo, ContainFns.shapeContains_cond4, ContainFns.shapeContains_cond5, ContainFns.shapeContains_cond6,
    ContainFns.shapeContains_cond7, ContainFns.shapeContains_val0, ContainFns.shapeContains_val1]
  have hdc : (Crossing.doNot == Crossing.cross) = false := rfl
  cases crossingSign G center p e.1 e.2 <;> simp
  · cases vertexCrossing G center p e.1 e.2 <;> simp [hdc]

/-- the loop ends with `return inside` -/
theorem tie_shapeContainsGo_nil (vm : VertexModel) (center p : P) (inside : Bool) :
    shapeContainsGo G vm center p inside [] = inside := rfl

/-- `shapeContains`: `numEdges <= 0`; `shape.Dimension() != 2`; `q.model != VertexModelClosed`; the vertex scan -/
theorem tie_shapeContainsM (vm : VertexModel) (dim : Nat) (center : P) (cc : Bool) (edges : List (P × P)) (p : P) :
    shapeContainsM G vm dim center cc edges p =
      if ContainFns.shapeContains_cond0 edges.length then cc
      else if ContainFns.shapeContains_cond1 dim then
        if ContainFns.shapeContains_cond2 vm then false
        else edges.any fun e => ContainFns.shapeContains_cond3 G e.1 p e.2
      else shapeContainsGo G vm center p cc edges := by
  have e1 : decide ((edges.length : Int) ≤ 0) = edges.isEmpty := by
    cases edges with
    | nil => rfl
    | cons a l => simp only [List.length_cons, List.isEmpty_cons, decide_eq_false_iff_not]; omega
  have e2 : ((dim : Int) != 2) = (dim != 2) := by cast_dec
  simp only [shapeContainsM, ContainFns.shapeContains_cond0, ContainFns.shapeContains_cond1, ContainFns.shapeContains_cond2,
    ContainFns.shapeContains_cond3, e1, e2]
  rfl

/-- `Contains`: `if !LocatePoint(p) { return false }`; `for clipped { if shapeContains(..) { return true } }; return false` -/
theorem tie_queryContains (vm : VertexModel) (cell : Option (P × List (ClippedM P))) (p : P) :
    queryContains G vm cell p =
      if ContainFns.Contains_cond0 cell.isSome then false
      else match cell with
        | none => false
        | some (center, cs) => cs.any fun c => ContainFns.Contains_cond1 (shapeContainsM G vm c.dim center c.containsCenter c.edges p) := by
  cases cell <;> rfl

/-- `visitContainingShapes` / `ContainingShapes`: the visitor of `ContainingShapes` always returns true, so the
    loop keeps exactly the shapes for which `shapeContains` holds (`cond1 = shapeContains && !f(..)`) -/
theorem tie_queryContainingShapes (vm : VertexModel) (cell : Option (P × List (ClippedM P))) (p : P) :
    queryContainingShapes G vm cell p =
      if ContainFns.visitContainingShapes_cond0 cell.isSome then []
      else match cell with
        | none => []
        | some (center, cs) =>
          (cs.filter fun c => shapeContainsM G vm c.dim center c.containsCenter c.edges p).map (·.shapeID) := by
  cases cell <;> rfl

/-- the loop of `visitContainingShapes` stops iff a containing shape's visitor returns false; the visitor of
    `ContainingShapes` returns true, so it never stops early -/
theorem tie_visit_stops (a b : Bool) :
    ContainFns.visitContainingShapes_cond1 a b = (a && !b) ∧ ContainFns.visitContainingShapes_cond1 a true = false := by
  cases a <;> exact ⟨rfl, rfl⟩

/-! ### CrossingEdgeQuery -/

/-- the filter of `Crossings` and of `CrossingsEdgeMap` (the same expression twice in the Go source) -/
theorem tie_crossingKept (ct : ContainFns.CrossingType) (s : Crossing) :
    crossingKept (ct == .all) s = ContainFns.Crossings_cond2 ct s ∧
    crossingKept (ct == .all) s = ContainFns.CrossingsEdgeMap_cond2 ct s := by
  cases ct <;> cases s <;> exact ⟨rfl, rfl⟩

/-- `Crossings`: keep `edges[in]` iff the filter holds, in order -/
theorem tie_crossingsFrom (a b : P) (edge : Nat → P × P) (ct : ContainFns.CrossingType) (cands : List Nat) :
    crossingsFrom G a b edge (ct == .all) cands =
      cands.filter fun i => ContainFns.Crossings_cond2 ct (crossingSign G a b (edge i).1 (edge i).2) := by
  simp only [crossingsFrom, (tie_crossingKept ct _).1]

/-- `candidates`: brute force up to `maxBruteForceEdges = 27` edges (the constant is inside `cond0`); no cells → nil;
    more than one cell → `uniqueInts` -/
theorem tie_candidates (numEdges : Nat) (cellLists : List (List Nat)) :
    candidates numEdges cellLists =
      if ContainFns.candidates_cond0 numEdges then List.range numEdges
      else if ContainFns.candidates_cond2 cellLists.length then []
      else if ContainFns.candidates_cond5 cellLists.length then uniqueInts cellLists.flatten
      else cellLists.flatten := by
  have e0 : decide ((numEdges : Int) ≤ 27) = decide (numEdges ≤ 27) := by cast_dec
  simp only [candidates, ContainFns.candidates_cond0, ContainFns.candidates_cond2, ContainFns.candidates_cond5, e0]
  by_cases h : numEdges ≤ 27
  · simp only [h, decide_true, if_true]
  · simp only [h, decide_false, Bool.false_eq_true, if_false]
    match cellLists with
    | [] => rfl
    | [l] => simp
    | a :: b :: r =>
      have h1 : ((((a :: b :: r).length : Nat) : Int) == 0) = false := by
        simp only [List.length_cons, beq_eq_false_iff_ne]; omega
      have h2 : decide ((((a :: b :: r).length : Nat) : Int) > 1) = true := by
        simp only [List.length_cons, decide_eq_true_eq]; omega
      simp only [h1, h2, Bool.false_eq_true, if_false, if_true]

/-- the loop tests of `candidates` that skip missing cells / shapes are `== nil` tests -/
theorem tie_candidates_nil (b : Bool) : ContainFns.candidates_cond3 b = b ∧ ContainFns.candidates_cond4 b = b := ⟨rfl, rfl⟩

/-- `uniqueInts`: skip if seen (`m[i]`), else mark and append; then sort — the hand model inserts into a sorted
    duplicate-free list -/
theorem tie_uniqueInts_seen (b : Bool) : ContainFns.uniqueInts_cond0 b = b := rfl

/-- `computeCellsIntersected` (abstracted in the hand model as the given cell lists): the index tests -/
theorem tie_computeCellsIntersected (dn : Bool) (id pid : CellID) :
    ContainFns.computeCellsIntersected_cond0 dn id pid = (dn || decide (id > CellID.rangeMax pid)) ∧
    ContainFns.computeCellsIntersected_cond1 id pid = (id == pid) ∧
    ContainFns.computeCellsIntersected_val0 pid = CellID.rangeMin pid := ⟨rfl, rfl, rfl⟩

/-! ### loops and polygons -/

/-- `inside = inside != crossing`, accumulated from an initial value, is the initial value XOR the parity -/
theorem foldl_xor_init (l : List Bool) (init : Bool) :
    l.foldl (fun acc b => acc != b) init = (init != xorAll l) := by
  unfold xorAll
  induction l generalizing init with
  | nil => cases init <;> rfl
  | cons x xs ih =>
    rw [List.foldl_cons, List.foldl_cons, ih (init != x), ih (false != x)]
    cases init <;> cases x <;> cases List.foldl (fun acc b => acc != b) false xs <;> rfl

/-- `bruteForceContainsPoint`: `inside := l.originInside; for i := 1; i <= len; i++ { inside = inside != crossing }` -/
theorem tie_bruteContains (origin : P) (L : LoopM P) (p : P) :
    bruteContains G origin L p =
      ((loopEdges L.vertices.toList).map fun e => edgeOrVertexCrossing G origin p e.1 e.2).foldl
        ContainFns.Loop_bruteForceContainsPoint_val0 L.originInside := by
  simp only [bruteContains, crossParity]
  exact (foldl_xor_init _ _).symm

/-- `iteratorContainsPoint` of Loop and Polygon: the same accumulation from `aClipped.containsCenter` -/
theorem tie_iteratorContains (center : P) (cc : Bool) (edges : List (P × P)) (p : P) :
    iteratorContains G center cc edges p =
      (edges.map fun e => edgeOrVertexCrossing G center p e.1 e.2).foldl ContainFns.Loop_iteratorContainsPoint_val0 cc ∧
    iteratorContains G center cc edges p =
      (edges.map fun e => edgeOrVertexCrossing G center p e.1 e.2).foldl ContainFns.Polygon_iteratorContainsPoint_val0 cc := by
  simp only [iteratorContains, crossParity]
  exact ⟨(foldl_xor_init _ _).symm, (foldl_xor_init _ _).symm⟩

/-- `Polygon.ContainsPoint`, brute-force branch: `inside := false; for l { inside = inside != l.bruteForceContainsPoint(p) }` -/
theorem tie_polygonContains (origin : P) (pg : PolygonM P) (p : P) :
    polygonContains G origin pg p =
      (pg.map fun l => bruteContains G origin l.loop p).foldl ContainFns.Polygon_ContainsPoint_val0 false := rfl

/-- `Polygon.ReferencePoint`: `containsOrigin := false; for l { containsOrigin = containsOrigin != l.ContainsOrigin() }` -/
theorem tie_polygonOriginInside (pg : PolygonM P) :
    polygonOriginInside pg = (pg.map fun l => l.loop.originInside).foldl ContainFns.Polygon_ReferencePoint_val0 false := rfl

/-- `containsBruteForce` (shapeutil.go): dimension test, `refPoint.Point == point`, then the accumulation from
    `refPoint.Contained` -/
theorem tie_containsBruteForce (S : ShapeM P) (p : P) :
    containsBruteForce G S p =
      if ContainFns.containsBruteForce_cond0 S.dim then false
      else if ContainFns.containsBruteForce_cond1 G S.refPoint p then S.refContained
      else (S.edges.toList.map fun e => edgeOrVertexCrossing G S.refPoint p e.1 e.2).foldl
        ContainFns.containsBruteForce_val0 S.refContained := by
  have e2 : ((S.dim : Int) != 2) = (S.dim != 2) := by cast_dec
  rw [show ContainFns.containsBruteForce_val0 = (fun a b : Bool => a != b) from rfl, foldl_xor_init]
  simp only [containsBruteForce, ContainFns.containsBruteForce_cond0, ContainFns.containsBruteForce_cond1, e2, crossParity]
  rfl

/-- `initOriginAndBound`: `len(l.vertices) < 3`, `!l.isEmptyOrFull()`, `l.vertices[0].Z < 0`, the `v1Inside` expression,
    `if v1Inside != l.ContainsPoint(l.vertices[1]) { l.originInside = true }` -/
theorem tie_initOriginInside (origin : P) (vs : Array P) :
    initOriginInside G origin vs =
      if ContainFns.Loop_initOriginAndBound_cond0 vs.size then
        if ContainFns.Loop_initOriginAndBound_cond1 (vs.size == 1) then false
        else (match vs[0]? with | some v => G.southern v | none => false)
      else
        match vs.toList with
        | v0 :: v1 :: v2 :: _ =>
          ContainFns.Loop_initOriginAndBound_cond2
            (ContainFns.Loop_initOriginAndBound_val1 G v0 v1 v2 (angleContainsVertex G v0 v1 v2))
            (bruteContains G origin ⟨vs, false⟩ v1)
        | _ => false := by
  have e : decide ((vs.size : Int) < 3) = decide (vs.size < 3) := by cast_dec
  simp only [initOriginInside, ContainFns.Loop_initOriginAndBound_cond0, ContainFns.Loop_initOriginAndBound_cond1,
    ContainFns.Loop_initOriginAndBound_cond2, ContainFns.Loop_initOriginAndBound_val1, e, decide_eq_true_eq]
  split
  · cases h : (vs.size == 1) <;> simp [h] <;> rfl
  · rfl

/-- `l.vertices[0].Z < 0` in the soft-float is the hand model's `southernV3` -/
theorem tie_southern (p : V3) : southernV3 p = ContainFns.Loop_initOriginAndBound_val0 p.z := rfl

/-- `Loop.Invert`: `l.originInside = !l.originInside`; the reversal swaps `i` and `len-1-i` for `i = len/2-1 … 0` -/
theorem tie_invert (L : LoopM P) (n i : Int) :
    (invert L).originInside = ContainFns.Loop_Invert_val2 L.originInside ∧
    ContainFns.Loop_Invert_val0 n = Int.tdiv n 2 - 1 ∧ ContainFns.Loop_Invert_val1 n i = n - 1 - i ∧
    ContainFns.Loop_Invert_cond2 i = decide (i ≥ 0) := ⟨rfl, rfl, rfl, rfl⟩

/-- `isEmptyOrFull` is `len(l.vertices) == 1` (shape below); `Loop.ContainsPoint` / `Polygon.ContainsPoint` path
    selection: bound shortcut (not modelled), brute force up to 32 vertices (`<=` for loops, `<` for polygons) -/
theorem tie_path_selection (fresh inb nilIdx : Bool) (ns nv : Int) :
    ContainFns.Loop_ContainsPoint_cond0 fresh inb = (!fresh && !inb) ∧
    ContainFns.Loop_ContainsPoint_cond1 ns nv = (ns == 0 || decide (nv ≤ 32)) ∧
    ContainFns.Polygon_ContainsPoint_cond0 fresh inb = (!fresh && !inb) ∧
    ContainFns.Polygon_ContainsPoint_cond1 nv nilIdx = (decide (nv < 32) || nilIdx) := ⟨rfl, rfl, rfl, rfl⟩

/-- the brute-force threshold `maxBruteForceVertices = 32` of both `ContainsPoint`s is the constant of the call-history
    model S2.History (C13), with `<=` for loops and `<` for polygons as there (`loopContains`, `polyContains`) -/
theorem tie_maxBruteForceVertices (ns nv : Int) (nilIdx : Bool) :
    ContainFns.Loop_ContainsPoint_cond1 ns nv = (ns == 0 || decide (nv ≤ (History.maxBruteForceVertices : Int))) ∧
    ContainFns.Polygon_ContainsPoint_cond1 nv nilIdx = (decide (nv < (History.maxBruteForceVertices : Int)) || nilIdx) := ⟨rfl, rfl⟩

/-! ### edge_crossings.go / point.go: VertexCrossing, EdgeOrVertexCrossing, AngleContainsVertex, OrderedCCW -/

/-- `OrderedCCW`: three orientation tests (`!= Clockwise`, `!= Clockwise`, `== CounterClockwise`), `sum >= 2` -/
theorem tie_orderedCCW (a b c o : P) :
    orderedCCW G a b c o =
      ContainFns.OrderedCCW_val0
        ((if ContainFns.OrderedCCW_cond0 (G.rs b o a) then 1 else 0) + (if ContainFns.OrderedCCW_cond1 (G.rs c o b) then 1 else 0)
          + (if ContainFns.OrderedCCW_cond2 (G.rs a o c) then 1 else 0)) := by
  simp only [orderedCCW, ContainFns.OrderedCCW_val0, ContainFns.OrderedCCW_cond0, ContainFns.OrderedCCW_cond1,
    ContainFns.OrderedCCW_cond2]
  rcases Bool.eq_false_or_eq_true (G.rs b o a != -1) with h1 | h1 <;>
    rcases Bool.eq_false_or_eq_true (G.rs c o b != -1) with h2 | h2 <;>
    rcases Bool.eq_false_or_eq_true (G.rs a o c == 1) with h3 | h3 <;> simp only [h1, h2, h3] <;> rfl

/-- `VertexCrossing`: degenerate edges first, then the `switch` in source order a==c, b==d, a==d, b==c -/
theorem tie_vertexCrossing (a b c d : P) :
    vertexCrossing G a b c d =
      if ContainFns.VertexCrossing_cond0 G a b c d then false
      else if ContainFns.VertexCrossing_val0 G a c then ContainFns.VertexCrossing_val1 G b d (orderedCCW G (G.refDir a) d b a)
      else if ContainFns.VertexCrossing_val2 G b d then orderedCCW G (G.refDir b) c a b
      else if ContainFns.VertexCrossing_val3 G a d then ContainFns.VertexCrossing_val4 G b c (orderedCCW G (G.refDir a) c b a)
      else if ContainFns.VertexCrossing_val5 G b c then orderedCCW G (G.refDir b) d a b
      else false := rfl

/-- `AngleContainsVertex` -/
theorem tie_angleContainsVertex (a b c : P) :
    angleContainsVertex G a b c = ContainFns.AngleContainsVertex_val0 (orderedCCW G (G.refDir b) c a b) := rfl

/-! ### statement structure of every translated function (`cond<k>(…)` / `val<k>(…)`: the extracted definitions
    with the Go expressions that feed their parameters), struct layouts, and one `pin_…` per extracted condition /
    value (its body as a literal) -/
theorem tie_clippedShape_fields : ContainFns.clippedShape_fields =
    "shapeID int32; containsCenter bool; edges []int" := rfl
theorem tie_ShapeIndexCell_fields : ContainFns.ShapeIndexCell_fields =
    "shapes []*s2.clippedShape" := rfl
theorem tie_Contains_shape : ContainFns.Contains_shape =
    "if cond0(q.iter.LocatePoint(p)) {return false}; cell := q.iter.IndexCell(); range _, clipped := cell.shapes {if cond1(q.shapeContains(clipped, q.iter.Center(), p)) {return true}}; return false" := rfl
theorem tie_shapeContains_shape : ContainFns.shapeContains_shape =
    "inside := clipped.containsCenter; numEdges := clipped.numEdges(); if cond0(numEdges) {return inside}; shape := q.index.Shape(clipped.shapeID); if cond1(shape.Dimension()) {if cond2(q.model) {return false}; range _, edgeID := clipped.edges {edge := shape.Edge(edgeID); if cond3(edge.V0, p, edge.V1) {return true}}; return false}; crosser := NewEdgeCrosser(center, p); range _, edgeID := clipped.edges {edge := shape.Edge(edgeID); sign := crosser.CrossingSign(edge.V0, edge.V1); if cond4(sign) {continue}; if cond5(sign) {if cond6(q.model, edge.V0, p, edge.V1) {return val0(q.model)}; if cond7(VertexCrossing(crosser.a, crosser.b, edge.V0, edge.V1)) {sign = Cross} else {sign = DoNotCross}}; inside = val1(inside, sign)}; return inside" := rfl
theorem tie_ShapeContains_shape : ContainFns.ShapeContains_shape =
    "if cond0(q.iter.LocatePoint(p)) {return false}; clipped := q.iter.IndexCell().findByShapeID(q.index.idForShape(shape)); if cond1(clipped == nil) {return false}; return q.shapeContains(clipped, q.iter.Center(), p)" := rfl
theorem tie_visitContainingShapes_shape : ContainFns.visitContainingShapes_shape =
    "if cond0(q.iter.LocatePoint(p)) {return true}; cell := q.iter.IndexCell(); range _, clipped := cell.shapes {if cond1(q.shapeContains(clipped, q.iter.Center(), p), f(q.index.Shape(clipped.shapeID))) {return false}}; return true" := rfl
theorem tie_ContainingShapes_shape : ContainFns.ContainingShapes_shape =
    "var shapes []Shape; q.visitContainingShapes(p, func{shapes = append(shapes, shape); return true}); return shapes" := rfl
theorem tie_Crossings_shape : ContainFns.Crossings_shape =
    "edges := c.candidates(a, b, shape); if cond0(len(edges)) {return nil}; crosser := NewEdgeCrosser(a, b); out := 0; n := len(edges); for[in := 0] cond1(in, n) [in++] {b := shape.Edge(edges[in]); sign := crosser.CrossingSign(b.V0, b.V1); if cond2(crossType, sign) {edges[out] = edges[in]; out++}}; if cond3(out, n) {edges = edges[0:out]}; return edges" := rfl
theorem tie_CrossingsEdgeMap_shape : ContainFns.CrossingsEdgeMap_shape =
    "edgeMap := c.candidatesEdgeMap(a, b); if cond0(len(edgeMap)) {return nil}; crosser := NewEdgeCrosser(a, b); range shape, edges := edgeMap {out := 0; n := len(edges); for[in := 0] cond1(in, n) [in++] {edge := shape.Edge(edges[in]); sign := crosser.CrossingSign(edge.V0, edge.V1); if cond2(crossType, sign) {edgeMap[shape][out] = edges[in]; out++}}; if cond3(out) {delete(edgeMap, shape)} else {if cond4(out, n) {edgeMap[shape] = edgeMap[shape][0:out]}}}; return edgeMap" := rfl
theorem tie_candidates_shape : ContainFns.candidates_shape =
    "var edges []int; const maxBruteForceEdges = 27; maxEdges := shape.NumEdges(); if cond0(maxEdges) {edges = make([]int, maxEdges); for[i := 0] cond1(i, maxEdges) [i++] {edges[i] = i}; return edges}; c.getCellsForEdge(a, b); if cond2(len(c.cells)) {return nil}; var shapeID int32; range k, v := c.index.shapes {if ‹v == shape› {shapeID = k}}; range _, cell := c.cells {if cond3(cell == nil) {continue}; clipped := cell.findByShapeID(shapeID); if cond4(clipped == nil) {continue}; edges = append(edges, clipped.edges...)}; if cond5(len(c.cells)) {edges = uniqueInts(edges)}; return edges" := rfl
theorem tie_uniqueInts_shape : ContainFns.uniqueInts_shape =
    "var edges []int; m := make(map[int]bool); range _, i := in {if cond0(m[i]) {continue}; m[i] = true; edges = append(edges, i)}; sort.Ints(edges); return edges" := rfl
theorem tie_candidatesEdgeMap_shape : ContainFns.candidatesEdgeMap_shape =
    "edgeMap := make(EdgeMap); if cond0(len(c.index.shapes)) {var shape Shape; range _, s := c.index.shapes {shape = s}; edgeMap[shape] = c.candidates(a, b, shape); return edgeMap}; c.getCellsForEdge(a, b); if cond1(len(c.cells)) {return edgeMap}; range _, cell := c.cells {range _, clipped := cell.shapes {s := c.index.Shape(clipped.shapeID); for[j := 0] cond2(j, clipped.numEdges()) [j++] {edgeMap[s] = append(edgeMap[s], clipped.edges[j])}}}; if cond3(len(c.cells)) {range s, edges := edgeMap {edgeMap[s] = uniqueInts(edges)}}; return edgeMap" := rfl
theorem tie_getCells_shape : ContainFns.getCells_shape =
    "aUV, bUV, ok := ClipToFace(a, b, root.id.Face()); if cond0(ok) {c.a = aUV; c.b = bUV; edgeBound := r2.RectFromPoints(c.a, c.b); if cond1(root.Bound().Intersects(edgeBound)) {c.computeCellsIntersected(root, edgeBound)}}; if cond2(len(c.cells)) {return nil}; return c.cells" := rfl
theorem tie_getCellsForEdge_shape : ContainFns.getCellsForEdge_shape =
    "c.cells = nil; segments := FaceSegments(a, b); range _, segment := segments {c.a = segment.a; c.b = segment.b; edgeBound := r2.RectFromPoints(c.a, c.b); pcell := PaddedCellFromCellID(CellIDFromFace(segment.face), 0); edgeRoot := pcell.ShrinkToFit(edgeBound); relation := c.iter.LocateCellID(edgeRoot); switch relation {case Indexed: c.cells = append(c.cells, c.iter.IndexCell()) | case Subdivided: if cond0(edgeRoot.isFace()) {pcell = PaddedCellFromCellID(edgeRoot, 0)}; c.computeCellsIntersected(pcell, edgeBound) | case Disjoint: }}" := rfl
theorem tie_computeCellsIntersected_shape : ContainFns.computeCellsIntersected_shape =
    "c.iter.seek(val0(pcell.id)); if cond0(c.iter.Done(), c.iter.CellID(), pcell.id) {return}; if cond1(c.iter.CellID(), pcell.id) {c.cells = append(c.cells, c.iter.IndexCell()); return}; center := pcell.Middle().Lo(); if cond2(edgeBound.X.Hi, center.X) {c.clipVAxis(edgeBound, center.Y, 0, pcell); return} else if cond3(edgeBound.X.Lo, center.X) {c.clipVAxis(edgeBound, center.Y, 1, pcell); return}; childBounds := c.splitUBound(edgeBound, center.X); if cond4(edgeBound.Y.Hi, center.Y) {c.computeCellsIntersected(PaddedCellFromParentIJ(pcell, 0, 0), childBounds[0]); c.computeCellsIntersected(PaddedCellFromParentIJ(pcell, 1, 0), childBounds[1])} else if cond5(edgeBound.Y.Lo, center.Y) {c.computeCellsIntersected(PaddedCellFromParentIJ(pcell, 0, 1), childBounds[0]); c.computeCellsIntersected(PaddedCellFromParentIJ(pcell, 1, 1), childBounds[1])} else {c.clipVAxis(childBounds[0], center.Y, 0, pcell); c.clipVAxis(childBounds[1], center.Y, 1, pcell)}" := rfl
theorem tie_clipVAxis_shape : ContainFns.clipVAxis_shape =
    "if cond0(edgeBound.Y.Hi, center) {c.computeCellsIntersected(PaddedCellFromParentIJ(pcell, i, 0), edgeBound)} else if cond1(edgeBound.Y.Lo, center) {c.computeCellsIntersected(PaddedCellFromParentIJ(pcell, i, 1), edgeBound)} else {childBounds := c.splitVBound(edgeBound, center); c.computeCellsIntersected(PaddedCellFromParentIJ(pcell, i, 0), childBounds[0]); c.computeCellsIntersected(PaddedCellFromParentIJ(pcell, i, 1), childBounds[1])}" := rfl
theorem tie_splitUBound_shape : ContainFns.splitUBound_shape =
    "v := edgeBound.Y.ClampPoint(interpolateFloat64(u, c.a.X, c.b.X, c.a.Y, c.b.Y)); var diag int; if cond0(c.a.X, c.b.X, c.a.Y, c.b.Y) {diag = 1}; return splitBound(edgeBound, 0, diag, u, v)" := rfl
theorem tie_splitVBound_shape : ContainFns.splitVBound_shape =
    "u := edgeBound.X.ClampPoint(interpolateFloat64(v, c.a.Y, c.b.Y, c.a.X, c.b.X)); var diag int; if cond0(c.a.X, c.b.X, c.a.Y, c.b.Y) {diag = 1}; return splitBound(edgeBound, diag, 0, u, v)" := rfl
theorem tie_splitBound_shape : ContainFns.splitBound_shape =
    "var childBounds = [2]r2.Rect{ edgeBound, edgeBound, }; if cond0(uEnd) {childBounds[0].X.Lo = u; childBounds[1].X.Hi = u} else {childBounds[0].X.Hi = u; childBounds[1].X.Lo = u}; if cond1(vEnd) {childBounds[0].Y.Lo = v; childBounds[1].Y.Hi = v} else {childBounds[0].Y.Hi = v; childBounds[1].Y.Lo = v}; return childBounds" := rfl
theorem tie_Loop_initOriginAndBound_shape : ContainFns.Loop_initOriginAndBound_shape =
    "if cond0(len(l.vertices)) {if cond1(l.isEmptyOrFull()) {l.originInside = false; return}; l.originInside = val0(l.vertices[0].Z)} else {v1Inside := val1(l.vertices[0], l.vertices[1], l.vertices[2], AngleContainsVertex(l.vertices[0], l.vertices[1], l.vertices[2])); l.originInside = false; if cond2(v1Inside, l.ContainsPoint(l.vertices[1])) {l.originInside = true}}; l.initBound(); l.index = NewShapeIndex(); l.index.Add(l)" := rfl
theorem tie_Loop_ReferencePoint_shape : ContainFns.Loop_ReferencePoint_shape =
    "return OriginReferencePoint(l.originInside)" := rfl
theorem tie_Loop_bruteForceContainsPoint_shape : ContainFns.Loop_bruteForceContainsPoint_shape =
    "if cond0(len(l.vertices)) {return l.originInside}; origin := OriginPoint(); inside := l.originInside; crosser := NewChainEdgeCrosser(origin, p, l.Vertex(0)); for[i := 1] cond1(i, len(l.vertices)) [i++] {inside = val0(inside, crosser.EdgeOrVertexChainCrossing(l.Vertex(i)))}; return inside" := rfl
theorem tie_Loop_ContainsPoint_shape : ContainFns.Loop_ContainsPoint_shape =
    "if cond0(l.index.IsFresh(), l.bound.ContainsPoint(p)) {return false}; const maxBruteForceVertices = 32; if cond1(len(l.index.shapes), len(l.vertices)) {return l.bruteForceContainsPoint(p)}; it := l.index.Iterator(); if cond2(it.LocatePoint(p)) {return false}; return l.iteratorContainsPoint(it, p)" := rfl
theorem tie_Loop_iteratorContainsPoint_shape : ContainFns.Loop_iteratorContainsPoint_shape =
    "aClipped := it.IndexCell().findByShapeID(0); inside := aClipped.containsCenter; if cond0(len(aClipped.edges)) {center := it.Center(); crosser := NewEdgeCrosser(center, p); aiPrev := -2; range _, ai := aClipped.edges {if cond1(ai, aiPrev) {crosser.RestartAt(l.Vertex(ai))}; aiPrev = ai; inside = val0(inside, crosser.EdgeOrVertexChainCrossing(l.Vertex(ai + 1)))}}; return inside" := rfl
theorem tie_Loop_Invert_shape : ContainFns.Loop_Invert_shape =
    "l.index.Reset(); if cond0(l.isEmptyOrFull()) {if cond1(l.IsFull()) {l.vertices[0] = emptyLoopPoint} else {l.vertices[0] = fullLoopPoint}} else {for[i := val0(len(l.vertices))] cond2(i) [i--] {opp := val1(len(l.vertices), i); l.vertices[i], l.vertices[opp] = l.vertices[opp], l.vertices[i]}}; l.originInside = val2(l.originInside); if cond3(l.bound.Lat.Lo, l.bound.Lat.Hi) {l.bound = FullRect(); l.subregionBound = l.bound} else {l.initBound()}; l.index.Add(l)" := rfl
theorem tie_Loop_isEmptyOrFull_shape : ContainFns.Loop_isEmptyOrFull_shape =
    "return val0(len(l.vertices))" := rfl
theorem tie_Loop_NumEdges_shape : ContainFns.Loop_NumEdges_shape =
    "if cond0(l.isEmptyOrFull()) {return 0}; return len(l.vertices)" := rfl
theorem tie_Polygon_ContainsPoint_shape : ContainFns.Polygon_ContainsPoint_shape =
    "if cond0(p.index.IsFresh(), p.bound.ContainsPoint(point)) {return false}; const maxBruteForceVertices = 32; if cond1(p.numVertices, p.index == nil) {inside := false; range _, l := p.loops {inside = val0(inside, l.bruteForceContainsPoint(point))}; return inside}; return NewContainsPointQuery(p.index, VertexModelSemiOpen).Contains(point)" := rfl
theorem tie_Polygon_iteratorContainsPoint_shape : ContainFns.Polygon_iteratorContainsPoint_shape =
    "aClipped := it.IndexCell().findByShapeID(0); inside := aClipped.containsCenter; if cond0(len(aClipped.edges)) {return inside}; crosser := NewEdgeCrosser(it.Center(), point); shape := p.index.Shape(0); range _, e := aClipped.edges {edge := shape.Edge(e); inside = val0(inside, crosser.EdgeOrVertexCrossing(edge.V0, edge.V1))}; return inside" := rfl
theorem tie_Polygon_ReferencePoint_shape : ContainFns.Polygon_ReferencePoint_shape =
    "containsOrigin := false; range _, l := p.loops {containsOrigin = val0(containsOrigin, l.ContainsOrigin())}; return OriginReferencePoint(containsOrigin)" := rfl
theorem tie_Polygon_Invert_shape : ContainFns.Polygon_Invert_shape =
    "if cond0(p.IsEmpty()) {*p = *FullPolygon(); p.initLoopProperties(); return}; if cond1(p.IsFull()) {*p = Polygon{}; p.initLoopProperties(); return}; best := 0; const none = 10.0; bestAngle := none; for[i := 1] cond2(i, p.NumLoops()) [i++] {if cond3(p.Loop(i).depth) {continue}; if cond4(bestAngle) {bestAngle = p.Loop(best).TurningAngle()}; angle := p.Loop(i).TurningAngle(); if cond5(angle, bestAngle, compareLoops(p.Loop(i), p.Loop(best))) {best = i; bestAngle = angle}}; p.Loop(best).Invert(); newLoops := make([]*Loop, 0, p.NumLoops()); lastBest := p.LastDescendant(best); newLoops = append(newLoops, p.Loop(best)); range i, l := p.Loops() {if cond6(i, best, lastBest) {l.depth++; newLoops = append(newLoops, l)}}; range i, l := p.Loops() {if cond7(i, best, lastBest) {l.depth--; newLoops = append(newLoops, l)}}; p.loops = newLoops; p.initLoopProperties()" := rfl
theorem tie_containsBruteForce_shape : ContainFns.containsBruteForce_shape =
    "if cond0(shape.Dimension()) {return false}; refPoint := shape.ReferencePoint(); if cond1(refPoint.Point, point) {return refPoint.Contained}; crosser := NewEdgeCrosser(refPoint.Point, point); inside := refPoint.Contained; for[e := 0] cond2(e, shape.NumEdges()) [e++] {edge := shape.Edge(e); inside = val0(inside, crosser.EdgeOrVertexCrossing(edge.V0, edge.V1))}; return inside" := rfl
theorem tie_VertexCrossing_shape : ContainFns.VertexCrossing_shape =
    "if cond0(a, b, c, d) {return false}; switch {case val0(a, c): return val1(b, d, OrderedCCW(a.referenceDir(), d, b, a)) | case val2(b, d): return OrderedCCW(b.referenceDir(), c, a, b) | case val3(a, d): return val4(b, c, OrderedCCW(a.referenceDir(), c, b, a)) | case val5(b, c): return OrderedCCW(b.referenceDir(), d, a, b)}; return false" := rfl
theorem tie_EdgeOrVertexCrossing_shape : ContainFns.EdgeOrVertexCrossing_shape =
    "switch CrossingSign(a, b, c, d) {case DoNotCross: return false | case Cross: return true | case MaybeCross: }; return VertexCrossing(a, b, c, d)" := rfl
theorem tie_AngleContainsVertex_shape : ContainFns.AngleContainsVertex_shape =
    "return val0(OrderedCCW(b.referenceDir(), c, a, b))" := rfl
theorem tie_OrderedCCW_shape : ContainFns.OrderedCCW_shape =
    "sum := 0; if cond0(RobustSign(b, o, a)) {sum++}; if cond1(RobustSign(c, o, b)) {sum++}; if cond2(RobustSign(a, o, c)) {sum++}; return val0(sum)" := rfl
theorem tie_clippedShape_numEdges_shape : ContainFns.clippedShape_numEdges_shape =
    "return len(c.edges)" := rfl
theorem tie_clippedShape_containsEdge_shape : ContainFns.clippedShape_containsEdge_shape =
    "range _, e := c.edges {if cond0(e, id) {return true}}; return false" := rfl
theorem tie_ShapeIndexCell_numEdges_shape : ContainFns.ShapeIndexCell_numEdges_shape =
    "var e int; range _, cs := s.shapes {e += cs.numEdges()}; return e" := rfl
theorem tie_ShapeIndexCell_findByShapeID_shape : ContainFns.ShapeIndexCell_findByShapeID_shape =
    "range _, clipped := s.shapes {if cond0(clipped.shapeID, shapeID) {return clipped}}; return nil" := rfl
section pins_ContainFns
open S2.Generated.ContainFns
theorem pin_Contains_cond0 (q_iter_LocatePoint_p : Bool) :
    ContainFns.Contains_cond0 q_iter_LocatePoint_p = (!q_iter_LocatePoint_p) := rfl
theorem pin_Contains_cond1 (q_shapeContains_clipped_q_iter_Center_p : Bool) :
    ContainFns.Contains_cond1 q_shapeContains_clipped_q_iter_Center_p = (q_shapeContains_clipped_q_iter_Center_p) := rfl
theorem pin_shapeContains_cond0 (numEdges : Int) :
    ContainFns.shapeContains_cond0 numEdges = (decide (numEdges ≤ 0)) := rfl
theorem pin_shapeContains_cond1 (shape_Dimension : Int) :
    ContainFns.shapeContains_cond1 shape_Dimension = (shape_Dimension != 2) := rfl
theorem pin_shapeContains_cond2 (q_model : Contain.VertexModel) :
    ContainFns.shapeContains_cond2 q_model = (q_model != Contain.VertexModel.closed) := rfl
theorem pin_shapeContains_cond3 {P : Type} (G : Contain.Geo P) (edge_V0 : P) (p : P) (edge_V1 : P) :
    ContainFns.shapeContains_cond3 G edge_V0 p edge_V1 = ((G.eq edge_V0 p) || (G.eq edge_V1 p)) := rfl
theorem pin_shapeContains_cond4 (sign : Contain.Crossing) :
    ContainFns.shapeContains_cond4 sign = (sign == Contain.Crossing.doNot) := rfl
theorem pin_shapeContains_cond5 (sign : Contain.Crossing) :
    ContainFns.shapeContains_cond5 sign = (sign == Contain.Crossing.maybe) := rfl
theorem pin_shapeContains_cond6 {P : Type} (G : Contain.Geo P) (q_model : Contain.VertexModel) (edge_V0 : P) (p : P) (edge_V1 : P) :
    ContainFns.shapeContains_cond6 G q_model edge_V0 p edge_V1 = ((q_model != Contain.VertexModel.semiOpen) && ((G.eq edge_V0 p) || (G.eq edge_V1 p))) := rfl
theorem pin_shapeContains_val0 (q_model : Contain.VertexModel) :
    ContainFns.shapeContains_val0 q_model = (q_model == Contain.VertexModel.closed) := rfl
theorem pin_shapeContains_cond7 (VertexCrossing_crosser_a_crosser_b_edge_V0_edge_V1 : Bool) :
    ContainFns.shapeContains_cond7 VertexCrossing_crosser_a_crosser_b_edge_V0_edge_V1 = (VertexCrossing_crosser_a_crosser_b_edge_V0_edge_V1) := rfl
theorem pin_shapeContains_val1 (inside : Bool) (sign : Contain.Crossing) :
    ContainFns.shapeContains_val1 inside sign = (inside != (sign == Contain.Crossing.cross)) := rfl
theorem pin_ShapeContains_cond0 (q_iter_LocatePoint_p : Bool) :
    ContainFns.ShapeContains_cond0 q_iter_LocatePoint_p = (!q_iter_LocatePoint_p) := rfl
theorem pin_ShapeContains_cond1 (clipped_nil : Bool) :
    ContainFns.ShapeContains_cond1 clipped_nil = (clipped_nil) := rfl
theorem pin_visitContainingShapes_cond0 (q_iter_LocatePoint_p : Bool) :
    ContainFns.visitContainingShapes_cond0 q_iter_LocatePoint_p = (!q_iter_LocatePoint_p) := rfl
theorem pin_visitContainingShapes_cond1 (q_shapeContains_clipped_q_iter_Center_p : Bool) (f_q_index_Shape_clipped_shapeID : Bool) :
    ContainFns.visitContainingShapes_cond1 q_shapeContains_clipped_q_iter_Center_p f_q_index_Shape_clipped_shapeID = (q_shapeContains_clipped_q_iter_Center_p && (!f_q_index_Shape_clipped_shapeID)) := rfl
theorem pin_Crossings_cond0 (len_edges : Int) :
    ContainFns.Crossings_cond0 len_edges = (len_edges == 0) := rfl
theorem pin_Crossings_cond1 (in' : Int) (n : Int) :
    ContainFns.Crossings_cond1 in' n = (decide (in' < n)) := rfl
theorem pin_Crossings_cond2 (crossType : CrossingType) (sign : Contain.Crossing) :
    ContainFns.Crossings_cond2 crossType sign = (((crossType == CrossingType.all) && ((sign == Contain.Crossing.maybe) || (sign == Contain.Crossing.cross))) || ((crossType != CrossingType.all) && (sign == Contain.Crossing.cross))) := rfl
theorem pin_Crossings_cond3 (out : Int) (n : Int) :
    ContainFns.Crossings_cond3 out n = (decide (out < n)) := rfl
theorem pin_CrossingsEdgeMap_cond0 (len_edgeMap : Int) :
    ContainFns.CrossingsEdgeMap_cond0 len_edgeMap = (len_edgeMap == 0) := rfl
theorem pin_CrossingsEdgeMap_cond1 (in' : Int) (n : Int) :
    ContainFns.CrossingsEdgeMap_cond1 in' n = (decide (in' < n)) := rfl
theorem pin_CrossingsEdgeMap_cond2 (crossType : CrossingType) (sign : Contain.Crossing) :
    ContainFns.CrossingsEdgeMap_cond2 crossType sign = (((crossType == CrossingType.all) && ((sign == Contain.Crossing.maybe) || (sign == Contain.Crossing.cross))) || ((crossType != CrossingType.all) && (sign == Contain.Crossing.cross))) := rfl
theorem pin_CrossingsEdgeMap_cond3 (out : Int) :
    ContainFns.CrossingsEdgeMap_cond3 out = (out == 0) := rfl
theorem pin_CrossingsEdgeMap_cond4 (out : Int) (n : Int) :
    ContainFns.CrossingsEdgeMap_cond4 out n = (decide (out < n)) := rfl
theorem pin_candidates_cond0 (maxEdges : Int) :
    ContainFns.candidates_cond0 maxEdges = (decide (maxEdges ≤ 27)) := rfl
theorem pin_candidates_cond1 (i : Int) (maxEdges : Int) :
    ContainFns.candidates_cond1 i maxEdges = (decide (i < maxEdges)) := rfl
theorem pin_candidates_cond2 (len_c_cells : Int) :
    ContainFns.candidates_cond2 len_c_cells = (len_c_cells == 0) := rfl
theorem pin_candidates_cond3 (cell_nil : Bool) :
    ContainFns.candidates_cond3 cell_nil = (cell_nil) := rfl
theorem pin_candidates_cond4 (clipped_nil : Bool) :
    ContainFns.candidates_cond4 clipped_nil = (clipped_nil) := rfl
theorem pin_candidates_cond5 (len_c_cells : Int) :
    ContainFns.candidates_cond5 len_c_cells = (decide (len_c_cells > 1)) := rfl
theorem pin_uniqueInts_cond0 (m_i : Bool) :
    ContainFns.uniqueInts_cond0 m_i = (m_i) := rfl
theorem pin_candidatesEdgeMap_cond0 (len_c_index_shapes : Int) :
    ContainFns.candidatesEdgeMap_cond0 len_c_index_shapes = (len_c_index_shapes == 1) := rfl
theorem pin_candidatesEdgeMap_cond1 (len_c_cells : Int) :
    ContainFns.candidatesEdgeMap_cond1 len_c_cells = (len_c_cells == 0) := rfl
theorem pin_candidatesEdgeMap_cond2 (j : Int) (clipped_numEdges : Int) :
    ContainFns.candidatesEdgeMap_cond2 j clipped_numEdges = (decide (j < clipped_numEdges)) := rfl
theorem pin_candidatesEdgeMap_cond3 (len_c_cells : Int) :
    ContainFns.candidatesEdgeMap_cond3 len_c_cells = (decide (len_c_cells > 1)) := rfl
theorem pin_getCells_cond0 (ok : Bool) :
    ContainFns.getCells_cond0 ok = (ok) := rfl
theorem pin_getCells_cond1 (root_Bound_Intersects_edgeBound : Bool) :
    ContainFns.getCells_cond1 root_Bound_Intersects_edgeBound = (root_Bound_Intersects_edgeBound) := rfl
theorem pin_getCells_cond2 (len_c_cells : Int) :
    ContainFns.getCells_cond2 len_c_cells = (len_c_cells == 0) := rfl
theorem pin_getCellsForEdge_cond0 (edgeRoot_isFace : Bool) :
    ContainFns.getCellsForEdge_cond0 edgeRoot_isFace = (!edgeRoot_isFace) := rfl
theorem pin_computeCellsIntersected_val0 (pcell_id : UInt64) :
    ContainFns.computeCellsIntersected_val0 pcell_id = (CellID.rangeMin pcell_id) := rfl
theorem pin_computeCellsIntersected_cond0 (c_iter_Done : Bool) (c_iter_CellID : UInt64) (pcell_id : UInt64) :
    ContainFns.computeCellsIntersected_cond0 c_iter_Done c_iter_CellID pcell_id = (c_iter_Done || (decide (c_iter_CellID > (CellID.rangeMax pcell_id)))) := rfl
theorem pin_computeCellsIntersected_cond1 (c_iter_CellID : UInt64) (pcell_id : UInt64) :
    ContainFns.computeCellsIntersected_cond1 c_iter_CellID pcell_id = (c_iter_CellID == pcell_id) := rfl
theorem pin_computeCellsIntersected_cond2 (edgeBound_X_Hi : F64) (center_X : F64) :
    ContainFns.computeCellsIntersected_cond2 edgeBound_X_Hi center_X = (F64.lt edgeBound_X_Hi center_X) := rfl
theorem pin_computeCellsIntersected_cond3 (edgeBound_X_Lo : F64) (center_X : F64) :
    ContainFns.computeCellsIntersected_cond3 edgeBound_X_Lo center_X = (F64.le center_X edgeBound_X_Lo) := rfl
theorem pin_computeCellsIntersected_cond4 (edgeBound_Y_Hi : F64) (center_Y : F64) :
    ContainFns.computeCellsIntersected_cond4 edgeBound_Y_Hi center_Y = (F64.lt edgeBound_Y_Hi center_Y) := rfl
theorem pin_computeCellsIntersected_cond5 (edgeBound_Y_Lo : F64) (center_Y : F64) :
    ContainFns.computeCellsIntersected_cond5 edgeBound_Y_Lo center_Y = (F64.le center_Y edgeBound_Y_Lo) := rfl
theorem pin_clipVAxis_cond0 (edgeBound_Y_Hi : F64) (center : F64) :
    ContainFns.clipVAxis_cond0 edgeBound_Y_Hi center = (F64.lt edgeBound_Y_Hi center) := rfl
theorem pin_clipVAxis_cond1 (edgeBound_Y_Lo : F64) (center : F64) :
    ContainFns.clipVAxis_cond1 edgeBound_Y_Lo center = (F64.le center edgeBound_Y_Lo) := rfl
theorem pin_splitUBound_cond0 (c_a_X : F64) (c_b_X : F64) (c_a_Y : F64) (c_b_Y : F64) :
    ContainFns.splitUBound_cond0 c_a_X c_b_X c_a_Y c_b_Y = ((F64.lt c_b_X c_a_X) != (F64.lt c_b_Y c_a_Y)) := rfl
theorem pin_splitVBound_cond0 (c_a_X : F64) (c_b_X : F64) (c_a_Y : F64) (c_b_Y : F64) :
    ContainFns.splitVBound_cond0 c_a_X c_b_X c_a_Y c_b_Y = ((F64.lt c_b_X c_a_X) != (F64.lt c_b_Y c_a_Y)) := rfl
theorem pin_splitBound_cond0 (uEnd : Int) :
    ContainFns.splitBound_cond0 uEnd = (uEnd == 1) := rfl
theorem pin_splitBound_cond1 (vEnd : Int) :
    ContainFns.splitBound_cond1 vEnd = (vEnd == 1) := rfl
theorem pin_Loop_initOriginAndBound_cond0 (len_l_vertices : Int) :
    ContainFns.Loop_initOriginAndBound_cond0 len_l_vertices = (decide (len_l_vertices < 3)) := rfl
theorem pin_Loop_initOriginAndBound_cond1 (l_isEmptyOrFull : Bool) :
    ContainFns.Loop_initOriginAndBound_cond1 l_isEmptyOrFull = (!l_isEmptyOrFull) := rfl
theorem pin_Loop_initOriginAndBound_val0 (l_vertices_0_Z : F64) :
    ContainFns.Loop_initOriginAndBound_val0 l_vertices_0_Z = (F64.lt l_vertices_0_Z (⟨0x0000000000000000⟩ : F64)) := rfl
theorem pin_Loop_initOriginAndBound_val1 {P : Type} (G : Contain.Geo P) (l_vertices_0 : P) (l_vertices_1 : P) (l_vertices_2 : P) (AngleContainsVertex_l_vertices_0_l_vertices_1_l_vertices_2 : Bool) :
    ContainFns.Loop_initOriginAndBound_val1 G l_vertices_0 l_vertices_1 l_vertices_2 AngleContainsVertex_l_vertices_0_l_vertices_1_l_vertices_2 = (((!(G.eq l_vertices_0 l_vertices_1)) && (!(G.eq l_vertices_2 l_vertices_1))) && AngleContainsVertex_l_vertices_0_l_vertices_1_l_vertices_2) := rfl
theorem pin_Loop_initOriginAndBound_cond2 (v1Inside : Bool) (l_ContainsPoint_l_vertices_1 : Bool) :
    ContainFns.Loop_initOriginAndBound_cond2 v1Inside l_ContainsPoint_l_vertices_1 = (v1Inside != l_ContainsPoint_l_vertices_1) := rfl
theorem pin_Loop_bruteForceContainsPoint_cond0 (len_l_vertices : Int) :
    ContainFns.Loop_bruteForceContainsPoint_cond0 len_l_vertices = (len_l_vertices == 0) := rfl
theorem pin_Loop_bruteForceContainsPoint_cond1 (i : Int) (len_l_vertices : Int) :
    ContainFns.Loop_bruteForceContainsPoint_cond1 i len_l_vertices = (decide (i ≤ len_l_vertices)) := rfl
theorem pin_Loop_bruteForceContainsPoint_val0 (inside : Bool) (crosser_EdgeOrVertexChainCrossing_l_Vertex_i : Bool) :
    ContainFns.Loop_bruteForceContainsPoint_val0 inside crosser_EdgeOrVertexChainCrossing_l_Vertex_i = (inside != crosser_EdgeOrVertexChainCrossing_l_Vertex_i) := rfl
theorem pin_Loop_ContainsPoint_cond0 (l_index_IsFresh : Bool) (l_bound_ContainsPoint_p : Bool) :
    ContainFns.Loop_ContainsPoint_cond0 l_index_IsFresh l_bound_ContainsPoint_p = ((!l_index_IsFresh) && (!l_bound_ContainsPoint_p)) := rfl
theorem pin_Loop_ContainsPoint_cond1 (len_l_index_shapes : Int) (len_l_vertices : Int) :
    ContainFns.Loop_ContainsPoint_cond1 len_l_index_shapes len_l_vertices = ((len_l_index_shapes == 0) || (decide (len_l_vertices ≤ 32))) := rfl
theorem pin_Loop_ContainsPoint_cond2 (it_LocatePoint_p : Bool) :
    ContainFns.Loop_ContainsPoint_cond2 it_LocatePoint_p = (!it_LocatePoint_p) := rfl
theorem pin_Loop_iteratorContainsPoint_cond0 (len_aClipped_edges : Int) :
    ContainFns.Loop_iteratorContainsPoint_cond0 len_aClipped_edges = (decide (len_aClipped_edges > 0)) := rfl
theorem pin_Loop_iteratorContainsPoint_cond1 (ai : Int) (aiPrev : Int) :
    ContainFns.Loop_iteratorContainsPoint_cond1 ai aiPrev = (ai != (aiPrev + 1)) := rfl
theorem pin_Loop_iteratorContainsPoint_val0 (inside : Bool) (crosser_EdgeOrVertexChainCrossing_l_Vertex_ai_1 : Bool) :
    ContainFns.Loop_iteratorContainsPoint_val0 inside crosser_EdgeOrVertexChainCrossing_l_Vertex_ai_1 = (inside != crosser_EdgeOrVertexChainCrossing_l_Vertex_ai_1) := rfl
theorem pin_Loop_Invert_cond0 (l_isEmptyOrFull : Bool) :
    ContainFns.Loop_Invert_cond0 l_isEmptyOrFull = (l_isEmptyOrFull) := rfl
theorem pin_Loop_Invert_cond1 (l_IsFull : Bool) :
    ContainFns.Loop_Invert_cond1 l_IsFull = (l_IsFull) := rfl
theorem pin_Loop_Invert_val0 (len_l_vertices : Int) :
    ContainFns.Loop_Invert_val0 len_l_vertices = ((Int.tdiv len_l_vertices 2) - 1) := rfl
theorem pin_Loop_Invert_cond2 (i : Int) :
    ContainFns.Loop_Invert_cond2 i = (decide (i ≥ 0)) := rfl
theorem pin_Loop_Invert_val1 (len_l_vertices : Int) (i : Int) :
    ContainFns.Loop_Invert_val1 len_l_vertices i = ((len_l_vertices - 1) - i) := rfl
theorem pin_Loop_Invert_val2 (l_originInside : Bool) :
    ContainFns.Loop_Invert_val2 l_originInside = (!l_originInside) := rfl
theorem pin_Loop_Invert_cond3 (l_bound_Lat_Lo : F64) (l_bound_Lat_Hi : F64) :
    ContainFns.Loop_Invert_cond3 l_bound_Lat_Lo l_bound_Lat_Hi = ((F64.lt (⟨0xbff921fb54442d18⟩ : F64) l_bound_Lat_Lo) && (F64.lt l_bound_Lat_Hi (⟨0x3ff921fb54442d18⟩ : F64))) := rfl
theorem pin_Loop_isEmptyOrFull_val0 (len_l_vertices : Int) :
    ContainFns.Loop_isEmptyOrFull_val0 len_l_vertices = (len_l_vertices == 1) := rfl
theorem pin_Loop_NumEdges_cond0 (l_isEmptyOrFull : Bool) :
    ContainFns.Loop_NumEdges_cond0 l_isEmptyOrFull = (l_isEmptyOrFull) := rfl
theorem pin_Polygon_ContainsPoint_cond0 (p_index_IsFresh : Bool) (p_bound_ContainsPoint_point : Bool) :
    ContainFns.Polygon_ContainsPoint_cond0 p_index_IsFresh p_bound_ContainsPoint_point = ((!p_index_IsFresh) && (!p_bound_ContainsPoint_point)) := rfl
theorem pin_Polygon_ContainsPoint_cond1 (p_numVertices : Int) (p_index_nil : Bool) :
    ContainFns.Polygon_ContainsPoint_cond1 p_numVertices p_index_nil = ((decide (p_numVertices < 32)) || p_index_nil) := rfl
theorem pin_Polygon_ContainsPoint_val0 (inside : Bool) (l_bruteForceContainsPoint_point : Bool) :
    ContainFns.Polygon_ContainsPoint_val0 inside l_bruteForceContainsPoint_point = (inside != l_bruteForceContainsPoint_point) := rfl
theorem pin_Polygon_iteratorContainsPoint_cond0 (len_aClipped_edges : Int) :
    ContainFns.Polygon_iteratorContainsPoint_cond0 len_aClipped_edges = (len_aClipped_edges == 0) := rfl
theorem pin_Polygon_iteratorContainsPoint_val0 (inside : Bool) (crosser_EdgeOrVertexCrossing_edge_V0_edge_V1 : Bool) :
    ContainFns.Polygon_iteratorContainsPoint_val0 inside crosser_EdgeOrVertexCrossing_edge_V0_edge_V1 = (inside != crosser_EdgeOrVertexCrossing_edge_V0_edge_V1) := rfl
theorem pin_Polygon_ReferencePoint_val0 (containsOrigin : Bool) (l_ContainsOrigin : Bool) :
    ContainFns.Polygon_ReferencePoint_val0 containsOrigin l_ContainsOrigin = (containsOrigin != l_ContainsOrigin) := rfl
theorem pin_Polygon_Invert_cond0 (p_IsEmpty : Bool) :
    ContainFns.Polygon_Invert_cond0 p_IsEmpty = (p_IsEmpty) := rfl
theorem pin_Polygon_Invert_cond1 (p_IsFull : Bool) :
    ContainFns.Polygon_Invert_cond1 p_IsFull = (p_IsFull) := rfl
theorem pin_Polygon_Invert_cond2 (i : Int) (p_NumLoops : Int) :
    ContainFns.Polygon_Invert_cond2 i p_NumLoops = (decide (i < p_NumLoops)) := rfl
theorem pin_Polygon_Invert_cond3 (p_Loop_i_depth : Int) :
    ContainFns.Polygon_Invert_cond3 p_Loop_i_depth = (p_Loop_i_depth != 0) := rfl
theorem pin_Polygon_Invert_cond4 (bestAngle : F64) :
    ContainFns.Polygon_Invert_cond4 bestAngle = (F64.feq bestAngle (⟨0x4024000000000000⟩ : F64)) := rfl
theorem pin_Polygon_Invert_cond5 (angle : F64) (bestAngle : F64) (compareLoops_p_Loop_i_p_Loop_best : Int) :
    ContainFns.Polygon_Invert_cond5 angle bestAngle compareLoops_p_Loop_i_p_Loop_best = ((F64.lt angle bestAngle) || ((F64.feq angle bestAngle) && (decide (compareLoops_p_Loop_i_p_Loop_best < 0)))) := rfl
theorem pin_Polygon_Invert_cond6 (i : Int) (best : Int) (lastBest : Int) :
    ContainFns.Polygon_Invert_cond6 i best lastBest = ((decide (i < best)) || (decide (i > lastBest))) := rfl
theorem pin_Polygon_Invert_cond7 (i : Int) (best : Int) (lastBest : Int) :
    ContainFns.Polygon_Invert_cond7 i best lastBest = ((decide (i > best)) && (decide (i ≤ lastBest))) := rfl
theorem pin_containsBruteForce_cond0 (shape_Dimension : Int) :
    ContainFns.containsBruteForce_cond0 shape_Dimension = (shape_Dimension != 2) := rfl
theorem pin_containsBruteForce_cond1 {P : Type} (G : Contain.Geo P) (refPoint_Point : P) (point : P) :
    ContainFns.containsBruteForce_cond1 G refPoint_Point point = (G.eq refPoint_Point point) := rfl
theorem pin_containsBruteForce_cond2 (e : Int) (shape_NumEdges : Int) :
    ContainFns.containsBruteForce_cond2 e shape_NumEdges = (decide (e < shape_NumEdges)) := rfl
theorem pin_containsBruteForce_val0 (inside : Bool) (crosser_EdgeOrVertexCrossing_edge_V0_edge_V1 : Bool) :
    ContainFns.containsBruteForce_val0 inside crosser_EdgeOrVertexCrossing_edge_V0_edge_V1 = (inside != crosser_EdgeOrVertexCrossing_edge_V0_edge_V1) := rfl
theorem pin_VertexCrossing_cond0 {P : Type} (G : Contain.Geo P) (a : P) (b : P) (c : P) (d : P) :
    ContainFns.VertexCrossing_cond0 G a b c d = ((G.eq a b) || (G.eq c d)) := rfl
theorem pin_VertexCrossing_val0 {P : Type} (G : Contain.Geo P) (a : P) (c : P) :
    ContainFns.VertexCrossing_val0 G a c = (G.eq a c) := rfl
theorem pin_VertexCrossing_val1 {P : Type} (G : Contain.Geo P) (b : P) (d : P) (OrderedCCW_a_referenceDir_d_b_a : Bool) :
    ContainFns.VertexCrossing_val1 G b d OrderedCCW_a_referenceDir_d_b_a = ((G.eq b d) || OrderedCCW_a_referenceDir_d_b_a) := rfl
theorem pin_VertexCrossing_val2 {P : Type} (G : Contain.Geo P) (b : P) (d : P) :
    ContainFns.VertexCrossing_val2 G b d = (G.eq b d) := rfl
theorem pin_VertexCrossing_val3 {P : Type} (G : Contain.Geo P) (a : P) (d : P) :
    ContainFns.VertexCrossing_val3 G a d = (G.eq a d) := rfl
theorem pin_VertexCrossing_val4 {P : Type} (G : Contain.Geo P) (b : P) (c : P) (OrderedCCW_a_referenceDir_c_b_a : Bool) :
    ContainFns.VertexCrossing_val4 G b c OrderedCCW_a_referenceDir_c_b_a = ((G.eq b c) || OrderedCCW_a_referenceDir_c_b_a) := rfl
theorem pin_VertexCrossing_val5 {P : Type} (G : Contain.Geo P) (b : P) (c : P) :
    ContainFns.VertexCrossing_val5 G b c = (G.eq b c) := rfl
theorem pin_AngleContainsVertex_val0 (OrderedCCW_b_referenceDir_c_a_b : Bool) :
    ContainFns.AngleContainsVertex_val0 OrderedCCW_b_referenceDir_c_a_b = (!OrderedCCW_b_referenceDir_c_a_b) := rfl
theorem pin_OrderedCCW_cond0 (RobustSign_b_o_a : Int) :
    ContainFns.OrderedCCW_cond0 RobustSign_b_o_a = (RobustSign_b_o_a != (-1)) := rfl
theorem pin_OrderedCCW_cond1 (RobustSign_c_o_b : Int) :
    ContainFns.OrderedCCW_cond1 RobustSign_c_o_b = (RobustSign_c_o_b != (-1)) := rfl
theorem pin_OrderedCCW_cond2 (RobustSign_a_o_c : Int) :
    ContainFns.OrderedCCW_cond2 RobustSign_a_o_c = (RobustSign_a_o_c == 1) := rfl
theorem pin_OrderedCCW_val0 (sum : Int) :
    ContainFns.OrderedCCW_val0 sum = (decide (sum ≥ 2)) := rfl
theorem pin_clippedShape_containsEdge_cond0 (e : Int) (id : Int) :
    ContainFns.clippedShape_containsEdge_cond0 e id = (e == id) := rfl
theorem pin_ShapeIndexCell_findByShapeID_cond0 (clipped_shapeID : Int) (shapeID : Int) :
    ContainFns.ShapeIndexCell_findByShapeID_cond0 clipped_shapeID shapeID = (clipped_shapeID == shapeID) := rfl
end pins_ContainFns
/-- number of extracted conditions / values per function, in generation order -/
theorem tie_counts_ContainFns :
    [(ContainFns.Contains_numConds, ContainFns.Contains_numVals), (ContainFns.shapeContains_numConds, ContainFns.shapeContains_numVals), (ContainFns.ShapeContains_numConds, ContainFns.ShapeContains_numVals), (ContainFns.visitContainingShapes_numConds, ContainFns.visitContainingShapes_numVals), (ContainFns.ContainingShapes_numConds, ContainFns.ContainingShapes_numVals), (ContainFns.Crossings_numConds, ContainFns.Crossings_numVals), (ContainFns.CrossingsEdgeMap_numConds, ContainFns.CrossingsEdgeMap_numVals), (ContainFns.candidates_numConds, ContainFns.candidates_numVals), (ContainFns.uniqueInts_numConds, ContainFns.uniqueInts_numVals), (ContainFns.candidatesEdgeMap_numConds, ContainFns.candidatesEdgeMap_numVals), (ContainFns.getCells_numConds, ContainFns.getCells_numVals), (ContainFns.getCellsForEdge_numConds, ContainFns.getCellsForEdge_numVals), (ContainFns.computeCellsIntersected_numConds, ContainFns.computeCellsIntersected_numVals), (ContainFns.clipVAxis_numConds, ContainFns.clipVAxis_numVals), (ContainFns.splitUBound_numConds, ContainFns.splitUBound_numVals), (ContainFns.splitVBound_numConds, ContainFns.splitVBound_numVals), (ContainFns.splitBound_numConds, ContainFns.splitBound_numVals), (ContainFns.Loop_initOriginAndBound_numConds, ContainFns.Loop_initOriginAndBound_numVals), (ContainFns.Loop_ReferencePoint_numConds, ContainFns.Loop_ReferencePoint_numVals), (ContainFns.Loop_bruteForceContainsPoint_numConds, ContainFns.Loop_bruteForceContainsPoint_numVals), (ContainFns.Loop_ContainsPoint_numConds, ContainFns.Loop_ContainsPoint_numVals), (ContainFns.Loop_iteratorContainsPoint_numConds, ContainFns.Loop_iteratorContainsPoint_numVals), (ContainFns.Loop_Invert_numConds, ContainFns.Loop_Invert_numVals), (ContainFns.Loop_isEmptyOrFull_numConds, ContainFns.Loop_isEmptyOrFull_numVals), (ContainFns.Loop_NumEdges_numConds, ContainFns.Loop_NumEdges_numVals), (ContainFns.Polygon_ContainsPoint_numConds, ContainFns.Polygon_ContainsPoint_numVals), (ContainFns.Polygon_iteratorContainsPoint_numConds, ContainFns.Polygon_iteratorContainsPoint_numVals), (ContainFns.Polygon_ReferencePoint_numConds, ContainFns.Polygon_ReferencePoint_numVals), (ContainFns.Polygon_Invert_numConds, ContainFns.Polygon_Invert_numVals), (ContainFns.containsBruteForce_numConds, ContainFns.containsBruteForce_numVals), (ContainFns.VertexCrossing_numConds, ContainFns.VertexCrossing_numVals), (ContainFns.EdgeOrVertexCrossing_numConds, ContainFns.EdgeOrVertexCrossing_numVals), (ContainFns.AngleContainsVertex_numConds, ContainFns.AngleContainsVertex_numVals), (ContainFns.OrderedCCW_numConds, ContainFns.OrderedCCW_numVals), (ContainFns.clippedShape_numEdges_numConds, ContainFns.clippedShape_numEdges_numVals), (ContainFns.clippedShape_containsEdge_numConds, ContainFns.clippedShape_containsEdge_numVals), (ContainFns.ShapeIndexCell_numEdges_numConds, ContainFns.ShapeIndexCell_numEdges_numVals), (ContainFns.ShapeIndexCell_findByShapeID_numConds, ContainFns.ShapeIndexCell_findByShapeID_numVals)] =
    [(2, 0), (8, 2), (2, 0), (2, 0), (0, 0), (4, 0), (5, 0), (6, 0), (1, 0), (4, 0), (3, 0), (1, 0), (6, 1), (2, 0), (1, 0), (1, 0), (2, 0), (3, 2), (0, 0), (2, 1), (3, 0), (2, 1), (4, 3), (0, 1), (1, 0), (2, 1), (1, 1), (0, 1), (8, 0), (3, 1), (1, 6), (0, 0), (0, 1), (3, 1), (0, 0), (1, 0), (0, 0), (1, 0)] := rfl

end S2Proofs.Ties.C04_Contain
