/-
  S2Proofs.Ties.C12 — regenerated-instance obligations for the distance functions of s2/cell.go.

  `S2.Generated.CellDistFns.*` is rewritten from the Go source on every run by translator_c19 (skeleton extraction
  over the bit-exact soft-float `S2.F64`: every float expression is translated operator by operator in the order of
  the Go AST — no re-association —, `a > b` as `F64.lt b a`, constants as float64 bit patterns).
  The theorems say that the hand model `S2.CellM` computes the same float expressions and branches on the same
  tests in the same order: `edgeDistance`, `vertexChordDist2`, `uEdgeIsClosest`, `vEdgeIsClosest`, the four sign
  tests / the edge arguments / the branch order of `distanceInternal`, and the expansion constant of
  `Cell.ContainsPoint`, and the margin constant `edgeIsClosestMargin = 32 * dblError` of the two tangential tests
  (repair D58).  All proofs are `rfl` / `decide`.
-/
import S2.CellM
import S2.Generated.CellDistFns
namespace S2Proofs.Ties.C12
open S2 S2.CellM S2.Generated

/-- `pq2 := (ij*ij)/(1+uv*uv)`, `oq2 := along*along + (w*w)/(1+uv*uv)`, `qr := 1 - math.Sqrt(oq2)`,
    `s1.ChordAngleFromSquaredLength(pq2 + qr*qr)` -/
theorem tie_edgeDistance (ij uv along w : F64) :
    edgeDistance ij uv along w =
      let pq2 := CellDistFns.edgeDistance_val0 ij uv
      let oq2 := CellDistFns.edgeDistance_val1 along w uv
      let qr := CellDistFns.edgeDistance_val2 (F64.sqrt oq2)
      chordAngleFromSquaredLength (CellDistFns.edgeDistance_val3 pq2 qr) := rfl

theorem tie_vertexChordDist2 (c : Cell) (p : V3) (xHi yHi : Bool) :
    vertexChordDist2 c p xHi yHi =
      let x := if CellDistFns.vertexChordDist2_cond0 xHi then c.uv.1.2 else c.uv.1.1
      let y := if CellDistFns.vertexChordDist2_cond1 yHi then c.uv.2.2 else c.uv.2.1
      chordAngleBetweenPoints p (pointFromCoords x y F64.one) := rfl

theorem tie_uEdgeIsClosest (c : Cell) (p : V3) (vHi : Bool) :
    uEdgeIsClosest c p vHi =
      let u0 := c.uv.1.1
      let u1 := c.uv.1.2
      let v := if CellDistFns.uEdgeIsClosest_cond0 vHi then c.uv.2.2 else c.uv.2.1
      let dir0 : V3 := ⟨CellDistFns.uEdgeIsClosest_val0 v, CellDistFns.uEdgeIsClosest_val1 u0 v, CellDistFns.uEdgeIsClosest_val2 u0⟩
      let dir1 : V3 := ⟨CellDistFns.uEdgeIsClosest_val3 v, CellDistFns.uEdgeIsClosest_val4 u1 v, CellDistFns.uEdgeIsClosest_val5 u1⟩
      CellDistFns.uEdgeIsClosest_val6 (p.dot dir0) (p.dot dir1) := rfl

theorem tie_vEdgeIsClosest (c : Cell) (p : V3) (uHi : Bool) :
    vEdgeIsClosest c p uHi =
      let v0 := c.uv.2.1
      let v1 := c.uv.2.2
      let u := if CellDistFns.vEdgeIsClosest_cond0 uHi then c.uv.1.2 else c.uv.1.1
      let dir0 : V3 := ⟨CellDistFns.vEdgeIsClosest_val0 u v0, CellDistFns.vEdgeIsClosest_val1 u, CellDistFns.vEdgeIsClosest_val2 v0⟩
      let dir1 : V3 := ⟨CellDistFns.vEdgeIsClosest_val3 u v1, CellDistFns.vEdgeIsClosest_val4 u, CellDistFns.vEdgeIsClosest_val5 v1⟩
      CellDistFns.vEdgeIsClosest_val6 (p.dot dir0) (p.dot dir1) := rfl

/-- `dir00 := target.X - target.Z*c.uv.X.Lo` … `dir11 := target.Y - target.Z*c.uv.Y.Hi` -/
theorem tie_dirs (c : Cell) (t : V3) :
    dirs c t = ⟨CellDistFns.distanceInternal_val0 t.x t.z c.uv.1.1, CellDistFns.distanceInternal_val1 t.x t.z c.uv.1.2,
      CellDistFns.distanceInternal_val2 t.y t.z c.uv.2.1, CellDistFns.distanceInternal_val3 t.y t.z c.uv.2.2⟩ := rfl

/-- the `inside` flag: it starts `true` and is cleared in exactly the four sign-test branches
    (`tie_distanceInternal_shape`) -/
theorem tie_inside (d : Dirs) :
    d.inside = (!CellDistFns.distanceInternal_cond0 d.dir00 && !CellDistFns.distanceInternal_cond2 d.dir01 &&
      !CellDistFns.distanceInternal_cond4 d.dir10 && !CellDistFns.distanceInternal_cond6 d.dir11) := rfl

/-- the branch structure of `distanceInternal`: sign test, then the closest-edge test, in the order left, right,
    bottom, top; then `inside` / `toInterior`; the edge arguments `-dirIJ`, `c.uv.*` , `target.*`, `uv*target.* + target.Z` -/
theorem tie_distanceInternal (c : Cell) (targetXYZ : V3) (toInterior : Bool) :
    distanceInternal c targetXYZ toInterior =
      let t := faceXYZtoUVW c.face targetXYZ
      let d := dirs c t
      if CellDistFns.distanceInternal_cond0 d.dir00 && CellDistFns.distanceInternal_cond1 (vEdgeIsClosest c t false) then
        edgeDistance (CellDistFns.distanceInternal_val4 d.dir00) c.uv.1.1 t.y (CellDistFns.distanceInternal_val5 c.uv.1.1 t.x t.z)
      else if CellDistFns.distanceInternal_cond2 d.dir01 && CellDistFns.distanceInternal_cond3 (vEdgeIsClosest c t true) then
        edgeDistance d.dir01 c.uv.1.2 t.y (CellDistFns.distanceInternal_val6 c.uv.1.2 t.x t.z)
      else if CellDistFns.distanceInternal_cond4 d.dir10 && CellDistFns.distanceInternal_cond5 (uEdgeIsClosest c t false) then
        edgeDistance (CellDistFns.distanceInternal_val7 d.dir10) c.uv.2.1 t.x (CellDistFns.distanceInternal_val8 c.uv.2.1 t.y t.z)
      else if CellDistFns.distanceInternal_cond6 d.dir11 && CellDistFns.distanceInternal_cond7 (uEdgeIsClosest c t true) then
        edgeDistance d.dir11 c.uv.2.2 t.x (CellDistFns.distanceInternal_val9 c.uv.2.2 t.y t.z)
      else if CellDistFns.distanceInternal_cond8 d.inside then
        if CellDistFns.distanceInternal_cond9 toInterior then fzero
        else minChord (edgeDistance (CellDistFns.distanceInternal_val10 d.dir00) c.uv.1.1 t.y (CellDistFns.distanceInternal_val11 c.uv.1.1 t.x t.z))
          [edgeDistance d.dir01 c.uv.1.2 t.y (CellDistFns.distanceInternal_val12 c.uv.1.2 t.x t.z),
           edgeDistance (CellDistFns.distanceInternal_val13 d.dir10) c.uv.2.1 t.x (CellDistFns.distanceInternal_val14 c.uv.2.1 t.y t.z),
           edgeDistance d.dir11 c.uv.2.2 t.x (CellDistFns.distanceInternal_val15 c.uv.2.2 t.y t.z)]
      else minChord (vertexChordDist2 c t false false)
          [vertexChordDist2 c t true false, vertexChordDist2 c t false true, vertexChordDist2 c t true true] := rfl

/-- `c.uv.ExpandedByMargin(dblEpsilon)`: the package constant `dblEpsilon` -/
theorem tie_dblEpsilon : CellM.dblEpsilon.bits = CellDistFns.dblEpsilon_bits := rfl

/-- `Cell.ContainsPoint`: `faceXYZToUV` fails → false, else the bound expanded by `dblEpsilon` contains (u, v) -/
theorem tie_containsPoint (c : Cell) (p : V3) :
    containsPoint c p =
      match faceXYZToUV c.face p with
      | none => false
      | some (u, v) => Rect2.containsPoint (Rect2.expandedByMargin c.uv ⟨CellDistFns.ContainsPoint_margin_bits⟩) u v := rfl

/-- the margin of the model (`2 * dblEpsilon`, a run-time-free constant expression) is the constant the compiler folds -/
theorem tie_containsMargin : CellM.containsMargin.bits = CellDistFns.ContainsPoint_margin_bits := by decide

/-- the margin of the tangential tests (repair D58): the model constant is the float64 of `const edgeIsClosestMargin`
    (s2/cell.go) as the Go type checker evaluates it -/
theorem tie_edgeIsClosestMargin : CellM.edgeIsClosestMargin.bits = CellDistFns.edgeIsClosestMargin_bits := by decide

/-- `edgeIsClosestMargin = 32 * dblError`: the untyped constant product rounds to the same float64 as the run-time product
    `32 · float64(dblError)` (a power-of-two factor); `dblError` is the decimal literal of s2/predicates.go, NOT 2^-53 -/
theorem tie_edgeIsClosestMargin_product :
    CellM.edgeIsClosestMargin = F64.mul ⟨0x4040000000000000⟩ ⟨CellDistFns.dblError_bits⟩ := by decide +kernel

/-- `-edgeIsClosestMargin` (the bound of the second test) is the sign-flipped bit pattern -/
theorem tie_edgeIsClosestMargin_neg : (-CellM.edgeIsClosestMargin : F64) = ⟨0xbceffffffffffffc⟩ := by decide

theorem tie_distance (c : Cell) (t : V3) : distance c t = distanceInternal c t true ∧ boundaryDistance c t = distanceInternal c t false :=
  ⟨rfl, rfl⟩

/-! ### statement structure of every translated function -/
theorem tie_edgeDistance_shape : CellDistFns.edgeDistance_shape =
    "pq2 := val0; oq2 := val1; qr := val2; return s1.ChordAngleFromSquaredLength(val3)" := rfl
theorem tie_vertexChordDist2_shape : CellDistFns.vertexChordDist2_shape =
    "x := c.uv.X.Lo; y := c.uv.Y.Lo; if cond0 {x = c.uv.X.Hi}; if cond1 {y = c.uv.Y.Hi}; return ChordAngleBetweenPoints(p, PointFromCoords(x, y, 1))" := rfl
theorem tie_uEdgeIsClosest_shape : CellDistFns.uEdgeIsClosest_shape =
    "u0 := c.uv.X.Lo; u1 := c.uv.X.Hi; v := c.uv.Y.Lo; if cond0 {v = c.uv.Y.Hi}; dir0 := r3.Vector{X: val0, Y: val1, Z: val2}; dir1 := r3.Vector{X: val3, Y: val4, Z: val5}; return val6" := rfl
theorem tie_vEdgeIsClosest_shape : CellDistFns.vEdgeIsClosest_shape =
    "v0 := c.uv.Y.Lo; v1 := c.uv.Y.Hi; u := c.uv.X.Lo; if cond0 {u = c.uv.X.Hi}; dir0 := r3.Vector{X: val0, Y: val1, Z: val2}; dir1 := r3.Vector{X: val3, Y: val4, Z: val5}; return val6" := rfl
theorem tie_distanceInternal_shape : CellDistFns.distanceInternal_shape =
    "target := faceXYZtoUVW(int(c.face), targetXYZ); dir00 := val0; dir01 := val1; dir10 := val2; dir11 := val3; inside := true; if cond0 {inside = false; if cond1 {return edgeDistance(val4, c.uv.X.Lo, target.Y, val5)}}; if cond2 {inside = false; if cond3 {return edgeDistance(dir01, c.uv.X.Hi, target.Y, val6)}}; if cond4 {inside = false; if cond5 {return edgeDistance(val7, c.uv.Y.Lo, target.X, val8)}}; if cond6 {inside = false; if cond7 {return edgeDistance(dir11, c.uv.Y.Hi, target.X, val9)}}; if cond8 {if cond9 {return s1.ChordAngle(0)}; return minChordAngle(edgeDistance(val10, c.uv.X.Lo, target.Y, val11), edgeDistance(dir01, c.uv.X.Hi, target.Y, val12), edgeDistance(val13, c.uv.Y.Lo, target.X, val14), edgeDistance(dir11, c.uv.Y.Hi, target.X, val15))}; return minChordAngle(c.vertexChordDist2(target, false, false), c.vertexChordDist2(target, true, false), c.vertexChordDist2(target, false, true), c.vertexChordDist2(target, true, true))" := rfl
theorem tie_ContainsPoint_shape : CellDistFns.ContainsPoint_shape =
    "var uv r2.Point; var ok bool; if[uv.X, uv.Y, ok = faceXYZToUV(int(c.face), p)] cond0 {return false}; return c.uv.ExpandedByMargin(2 * dblEpsilon).ContainsPoint(uv)" := rfl
theorem tie_Distance_shape : CellDistFns.Distance_shape =
    "return c.distanceInternal(target, true)" := rfl
theorem tie_BoundaryDistance_shape : CellDistFns.BoundaryDistance_shape =
    "return c.distanceInternal(target, false)" := rfl

end S2Proofs.Ties.C12
