/-
  S2Proofs.Ties.C07_RelatePins — literal pins of S2.Generated.RelateFns (written by translator_c07/mkpins.py from the generated
  file of the UNCHANGED tree; hand-owned afterwards).  Every theorem is `rfl` against the regenerated definition: an edit
  of the Go source that changes an operator, an operand, a constant, the order of two tests, a call target or drops a
  statement changes a definition body or a shape string and the theorem no longer builds.
-/
import S2.Generated.RelateFns
import S2.Relate
import S2.RelateWalk
namespace S2Proofs.Ties.C07_RelatePins
open S2 S2.Generated
set_option linter.unusedVariables false
set_option linter.unusedSectionVars false
set_option maxRecDepth 4000

variable {α : Type} [DecidableEq α] (G : Relate.Geo α)

theorem fields_rangeIterator : RelateFns.rangeIterator_fields =
    "it *s2.ShapeIndexIterator; rangeMin s2.CellID; rangeMax s2.CellID" := rfl
theorem fields_loopCrosser : RelateFns.loopCrosser_fields =
    "a *s2.Loop; b *s2.Loop; relation s2.loopRelation; swapped bool; aCrossingTarget s2.crossingTarget; bCrossingTarget s2.crossingTarget; crosser *s2.EdgeCrosser; aj int; bjPrev int; bQuery *s2.CrossingEdgeQuery; bCells []*s2.ShapeIndexCell" := rfl
theorem fields_containsRelation : RelateFns.containsRelation_fields =
    "foundSharedVertex bool" := rfl
theorem fields_intersectsRelation : RelateFns.intersectsRelation_fields =
    "foundSharedVertex bool" := rfl
theorem fields_compareBoundaryRelation : RelateFns.compareBoundaryRelation_fields =
    "reverse bool; foundSharedVertex bool; containsEdge bool; excludesEdge bool" := rfl
theorem shape_newRangeIterator : RelateFns.newRangeIterator_shape =
    "r := &rangeIterator{it: index.Iterator()}; r.refresh(); return r" := rfl
theorem exprs_newRangeIterator : RelateFns.newRangeIterator_exprs =
    "" := rfl
theorem shape_rangeIterator_cellID : RelateFns.rangeIterator_cellID_shape =
    "return r.it.CellID()" := rfl
theorem exprs_rangeIterator_cellID : RelateFns.rangeIterator_cellID_exprs =
    "" := rfl
theorem shape_rangeIterator_indexCell : RelateFns.rangeIterator_indexCell_shape =
    "return r.it.IndexCell()" := rfl
theorem exprs_rangeIterator_indexCell : RelateFns.rangeIterator_indexCell_exprs =
    "" := rfl
theorem shape_rangeIterator_next : RelateFns.rangeIterator_next_shape =
    "r.it.Next(); r.refresh()" := rfl
theorem exprs_rangeIterator_next : RelateFns.rangeIterator_next_exprs =
    "" := rfl
theorem shape_rangeIterator_done : RelateFns.rangeIterator_done_shape =
    "return r.it.Done()" := rfl
theorem exprs_rangeIterator_done : RelateFns.rangeIterator_done_exprs =
    "" := rfl
theorem shape_rangeIterator_seekTo : RelateFns.rangeIterator_seekTo_shape =
    "r.it.seek(target.rangeMin); if cond0⟨r.it.Done(); r.it.CellID(); target.rangeMax⟩ {if cond1⟨r.it.Prev(); r.it.CellID(); target.cellID()⟩ {r.it.Next()}}; r.refresh()" := rfl
theorem exprs_rangeIterator_seekTo : RelateFns.rangeIterator_seekTo_exprs =
    "cond0: r.it.Done() || r.it.CellID().RangeMin() > target.rangeMax | cond1: r.it.Prev() && r.it.CellID().RangeMax() < target.cellID()" := rfl
theorem shape_rangeIterator_seekBeyond : RelateFns.rangeIterator_seekBeyond_shape =
    "r.it.seek(val0⟨target.rangeMax⟩); if cond0⟨r.it.Done(); r.it.CellID(); target.rangeMax⟩ {r.it.Next()}; r.refresh()" := rfl
theorem exprs_rangeIterator_seekBeyond : RelateFns.rangeIterator_seekBeyond_exprs =
    "val0: target.rangeMax.Next() | cond0: !r.it.Done() && r.it.CellID().RangeMin() <= target.rangeMax" := rfl
theorem shape_rangeIterator_refresh : RelateFns.rangeIterator_refresh_shape =
    "r.rangeMin = val0⟨r.cellID()⟩; r.rangeMax = val1⟨r.cellID()⟩" := rfl
theorem exprs_rangeIterator_refresh : RelateFns.rangeIterator_refresh_exprs =
    "val0: r.cellID().RangeMin() | val1: r.cellID().RangeMax()" := rfl
theorem shape_Loop_Contains : RelateFns.Loop_Contains_shape =
    "if cond0⟨l.subregionBound.Contains(o.bound)⟩ {return false}; if cond1⟨l.isEmptyOrFull(); o.isEmptyOrFull()⟩ {return val0⟨l.IsFull(); o.IsEmpty()⟩}; relation := &containsRelation{}; if cond2⟨hasCrossingRelation(l, o, relation)⟩ {return false}; if cond3⟨relation.foundSharedVertex⟩ {return true}; if cond4⟨l.ContainsPoint(o.Vertex(0))⟩ {return false}; if cond5⟨o.subregionBound.Contains(l.bound); o.bound.Union(l.bound).IsFull(); o.ContainsPoint(l.Vertex(0))⟩ {return false}; return true" := rfl
theorem exprs_Loop_Contains : RelateFns.Loop_Contains_exprs =
    "cond0: !l.subregionBound.Contains(o.bound) | cond1: l.isEmptyOrFull() || o.isEmptyOrFull() | val0: l.IsFull() || o.IsEmpty() | cond2: hasCrossingRelation(l, o, relation) | cond3: relation.foundSharedVertex | cond4: !l.ContainsPoint(o.Vertex(0)) | cond5: (o.subregionBound.Contains(l.bound) || o.bound.Union(l.bound).IsFull()) && o.ContainsPoint(l.Vertex(0))" := rfl
theorem shape_Loop_Intersects : RelateFns.Loop_Intersects_shape =
    "if cond0⟨l.bound.Intersects(o.bound)⟩ {return false}; relation := &intersectsRelation{}; if cond1⟨hasCrossingRelation(l, o, relation)⟩ {return true}; if cond2⟨relation.foundSharedVertex⟩ {return false}; if cond3⟨l.subregionBound.Contains(o.bound); l.bound.Union(o.bound).IsFull()⟩ {if cond4⟨l.ContainsPoint(o.Vertex(0))⟩ {return true}}; if cond5⟨o.subregionBound.Contains(l.bound)⟩ {if cond6⟨o.ContainsPoint(l.Vertex(0))⟩ {return true}}; return false" := rfl
theorem exprs_Loop_Intersects : RelateFns.Loop_Intersects_exprs =
    "cond0: !l.bound.Intersects(o.bound) | cond1: hasCrossingRelation(l, o, relation) | cond2: relation.foundSharedVertex | cond3: l.subregionBound.Contains(o.bound) || l.bound.Union(o.bound).IsFull() | cond4: l.ContainsPoint(o.Vertex(0)) | cond5: o.subregionBound.Contains(l.bound) | cond6: o.ContainsPoint(l.Vertex(0))" := rfl
theorem shape_Loop_compareBoundary : RelateFns.Loop_compareBoundary_shape =
    "if cond0⟨l.bound.Intersects(o.bound)⟩ {return -1}; if cond1⟨l.IsFull()⟩ {return 1}; if cond2⟨o.IsFull()⟩ {return -1}; relation := newCompareBoundaryRelation(o.IsHole()); if cond3⟨hasCrossingRelation(l, o, relation)⟩ {return 0}; if cond4⟨relation.foundSharedVertex⟩ {if cond5⟨relation.containsEdge⟩ {return 1}; return -1}; if cond6⟨l.ContainsPoint(o.Vertex(0))⟩ {return 1}; return -1" := rfl
theorem exprs_Loop_compareBoundary : RelateFns.Loop_compareBoundary_exprs =
    "cond0: !l.bound.Intersects(o.bound) | cond1: l.IsFull() | cond2: o.IsFull() | cond3: hasCrossingRelation(l, o, relation) | cond4: relation.foundSharedVertex | cond5: relation.containsEdge | cond6: l.ContainsPoint(o.Vertex(0))" := rfl
theorem shape_Loop_ContainsNested : RelateFns.Loop_ContainsNested_shape =
    "if cond0⟨l.subregionBound.Contains(other.bound)⟩ {return false}; if cond1⟨l.isEmptyOrFull(); other.NumVertices()⟩ {return val0⟨l.IsFull(); other.IsEmpty()⟩}; m, ok := l.findVertex(other.Vertex(1)); if cond2⟨ok⟩ {return l.ContainsPoint(other.Vertex(1))}; return val3⟨l.Vertex(val1⟨m⟩); l.Vertex(m); l.Vertex(val2⟨m⟩); other.Vertex(0); other.Vertex(2)⟩" := rfl
theorem exprs_Loop_ContainsNested : RelateFns.Loop_ContainsNested_exprs =
    "cond0: !l.subregionBound.Contains(other.bound) | cond1: l.isEmptyOrFull() || other.NumVertices() < 2 | val0: l.IsFull() || other.IsEmpty() | cond2: !ok | val1: m - 1 | val2: m + 1 | val3: WedgeContains(l.Vertex(m-1), l.Vertex(m), l.Vertex(m+1), other.Vertex(0), other.Vertex(2))" := rfl
theorem shape_Loop_containsNonCrossingBoundary : RelateFns.Loop_containsNonCrossingBoundary_shape =
    "if cond0⟨l.bound.Intersects(other.bound)⟩ {return false}; if cond1⟨l.IsFull()⟩ {return true}; if cond2⟨other.IsFull()⟩ {return false}; m, ok := l.findVertex(other.Vertex(0)); if cond3⟨ok⟩ {return l.ContainsPoint(other.Vertex(0))}; return val2⟨l.Vertex(val0⟨m⟩); l.Vertex(m); l.Vertex(val1⟨m⟩); other.Vertex(1); reverseOther⟩" := rfl
theorem exprs_Loop_containsNonCrossingBoundary : RelateFns.Loop_containsNonCrossingBoundary_exprs =
    "cond0: !l.bound.Intersects(other.bound) | cond1: l.IsFull() | cond2: other.IsFull() | cond3: !ok | val0: m - 1 | val1: m + 1 | val2: wedgeContainsSemiwedge(l.Vertex(m-1), l.Vertex(m), l.Vertex(m+1), other.Vertex(1), reverseOther)" := rfl
theorem shape_Loop_findVertex : RelateFns.Loop_findVertex_shape =
    "const notFound = 0; if cond0⟨len(l.vertices)⟩ {for[i := 1] cond1⟨i; len(l.vertices)⟩ [i++] {if cond2⟨l.Vertex(i); p⟩ {return i, true}}; return notFound, false}; it := l.index.Iterator(); if cond3⟨it.LocatePoint(p)⟩ {return notFound, false}; aClipped := it.IndexCell().findByShapeID(0); for[i := val0⟨aClipped.numEdges()⟩] cond4⟨i⟩ [i--] {ai := aClipped.edges[i]; if cond5⟨l.Vertex(ai); p⟩ {if cond6⟨ai⟩ {return len(l.vertices), true}; return ai, true}; if cond7⟨l.Vertex(val1⟨ai⟩); p⟩ {return val2⟨ai⟩, true}}; return notFound, false" := rfl
theorem exprs_Loop_findVertex : RelateFns.Loop_findVertex_exprs =
    "cond0: len(l.vertices) < 10 | cond1: i <= len(l.vertices) | cond2: l.Vertex(i) == p | cond3: !it.LocatePoint(p) | val0: aClipped.numEdges() - 1 | cond4: i >= 0 | cond5: l.Vertex(ai) == p | cond6: ai == 0 | val1: ai + 1 | cond7: l.Vertex(ai+1) == p | val2: ai + 1" := rfl
theorem shape_Loop_Vertex : RelateFns.Loop_Vertex_shape =
    "return l.vertices[val0⟨i; len(l.vertices)⟩]" := rfl
theorem exprs_Loop_Vertex : RelateFns.Loop_Vertex_exprs =
    "val0: i % len(l.vertices)" := rfl
theorem shape_Loop_IsEmpty : RelateFns.Loop_IsEmpty_shape =
    "return val0⟨l.isEmptyOrFull(); l.ContainsOrigin()⟩" := rfl
theorem exprs_Loop_IsEmpty : RelateFns.Loop_IsEmpty_exprs =
    "val0: l.isEmptyOrFull() && !l.ContainsOrigin()" := rfl
theorem shape_Loop_IsFull : RelateFns.Loop_IsFull_shape =
    "return val0⟨l.isEmptyOrFull(); l.ContainsOrigin()⟩" := rfl
theorem exprs_Loop_IsFull : RelateFns.Loop_IsFull_exprs =
    "val0: l.isEmptyOrFull() && l.ContainsOrigin()" := rfl
theorem shape_Loop_isEmptyOrFull : RelateFns.Loop_isEmptyOrFull_shape =
    "return val0⟨len(l.vertices)⟩" := rfl
theorem exprs_Loop_isEmptyOrFull : RelateFns.Loop_isEmptyOrFull_exprs =
    "val0: len(l.vertices) == 1" := rfl
theorem shape_newLoopCrosser : RelateFns.newLoopCrosser_shape =
    "l := &loopCrosser{a: a, b: b, relation: relation, swapped: swapped, aCrossingTarget: relation.aCrossingTarget(), bCrossingTarget: relation.bCrossingTarget(), bQuery: NewCrossingEdgeQuery(b.index)}; if cond0⟨swapped⟩ {l.aCrossingTarget, l.bCrossingTarget = l.bCrossingTarget, l.aCrossingTarget}; return l" := rfl
theorem exprs_newLoopCrosser : RelateFns.newLoopCrosser_exprs =
    "cond0: swapped" := rfl
theorem shape_loopCrosser_startEdge : RelateFns.loopCrosser_startEdge_shape =
    "l.crosser = NewEdgeCrosser(l.a.Vertex(aj), l.a.Vertex(val0⟨aj⟩)); l.aj = aj; l.bjPrev = -2" := rfl
theorem exprs_loopCrosser_startEdge : RelateFns.loopCrosser_startEdge_exprs =
    "val0: aj + 1" := rfl
theorem shape_loopCrosser_edgeCrossesCell : RelateFns.loopCrosser_edgeCrossesCell_shape =
    "bNumEdges := bClipped.numEdges(); for[j := 0] cond0⟨j; bNumEdges⟩ [j++] {bj := bClipped.edges[j]; if cond1⟨bj; l.bjPrev⟩ {l.crosser.RestartAt(l.b.Vertex(bj))}; l.bjPrev = bj; if[crossing := l.crosser.ChainCrossingSign(l.b.Vertex(val0⟨bj⟩))] cond2⟨crossing⟩ {continue} else if cond3⟨crossing⟩ {return true}; if cond4⟨l.a.Vertex(val1⟨l.aj⟩); l.b.Vertex(val2⟨bj⟩)⟩ {if cond5⟨l.swapped⟩ {if cond6⟨l.relation.wedgesCross(l.b.Vertex(bj), l.b.Vertex(val3⟨bj⟩), l.b.Vertex(val4⟨bj⟩), l.a.Vertex(l.aj), l.a.Vertex(val5⟨l.aj⟩))⟩ {return true}} else {if cond7⟨l.relation.wedgesCross(l.a.Vertex(l.aj), l.a.Vertex(val6⟨l.aj⟩), l.a.Vertex(val7⟨l.aj⟩), l.b.Vertex(bj), l.b.Vertex(val8⟨bj⟩))⟩ {return true}}}}; return false" := rfl
theorem exprs_loopCrosser_edgeCrossesCell : RelateFns.loopCrosser_edgeCrossesCell_exprs =
    "cond0: j < bNumEdges | cond1: bj != l.bjPrev+1 | val0: bj + 1 | cond2: crossing == DoNotCross | cond3: crossing == Cross | val1: l.aj + 1 | val2: bj + 1 | cond4: l.a.Vertex(l.aj+1) == l.b.Vertex(bj+1) | cond5: l.swapped | val3: bj + 1 | val4: bj + 2 | val5: l.aj + 2 | cond6: l.relation.wedgesCross(l.b.Vertex(bj), l.b.Vertex(bj+1), l.b.Vertex(bj+2), l.a.Vertex(l.aj), l.a.Vertex(l.aj+2)) | val6: l.aj + 1 | val7: l.aj + 2 | val8: bj + 2 | cond7: l.relation.wedgesCross(l.a.Vertex(l.aj), l.a.Vertex(l.aj+1), l.a.Vertex(l.aj+2), l.b.Vertex(bj), l.b.Vertex(bj+2))" := rfl
theorem shape_loopCrosser_cellCrossesCell : RelateFns.loopCrosser_cellCrossesCell_shape =
    "range _, edge := aClipped.edges {l.startEdge(edge); if cond0⟨l.edgeCrossesCell(bClipped)⟩ {return true}}; return false" := rfl
theorem exprs_loopCrosser_cellCrossesCell : RelateFns.loopCrosser_cellCrossesCell_exprs =
    "cond0: l.edgeCrossesCell(bClipped)" := rfl
theorem shape_loopCrosser_cellCrossesAnySubcell : RelateFns.loopCrosser_cellCrossesAnySubcell_shape =
    "bRoot := PaddedCellFromCellID(bID, 0); range _, aj := aClipped.edges {l.bCells = l.bQuery.getCells(l.a.Vertex(aj), l.a.Vertex(val0⟨aj⟩), bRoot); if cond0⟨len(l.bCells)⟩ {continue}; l.startEdge(aj); for[c := 0] cond1⟨c; len(l.bCells)⟩ [c++] {if cond2⟨l.edgeCrossesCell(l.bCells[c].shapes[0])⟩ {return true}}}; return false" := rfl
theorem exprs_loopCrosser_cellCrossesAnySubcell : RelateFns.loopCrosser_cellCrossesAnySubcell_exprs =
    "val0: aj + 1 | cond0: len(l.bCells) == 0 | cond1: c < len(l.bCells) | cond2: l.edgeCrossesCell(l.bCells[c].shapes[0])" := rfl
theorem shape_loopCrosser_hasCrossing : RelateFns.loopCrosser_hasCrossing_shape =
    "const edgeQueryMinEdges = 20; var totalEdges int; l.bCells = nil; for {if[n := bi.it.IndexCell().shapes[0].numEdges()] cond0⟨n⟩ {totalEdges += n; if cond1⟨totalEdges⟩ {if cond2⟨l.cellCrossesAnySubcell(ai.it.IndexCell().shapes[0], ai.cellID())⟩ {return true}; bi.seekBeyond(ai); return false}; l.bCells = append(l.bCells, bi.indexCell())}; bi.next(); if cond3⟨bi.cellID(); ai.rangeMax⟩ {break}}; range _, c := l.bCells {if cond4⟨l.cellCrossesCell(ai.it.IndexCell().shapes[0], c.shapes[0])⟩ {return true}}; return false" := rfl
theorem exprs_loopCrosser_hasCrossing : RelateFns.loopCrosser_hasCrossing_exprs =
    "cond0: n > 0 | cond1: totalEdges >= edgeQueryMinEdges | cond2: l.cellCrossesAnySubcell(ai.it.IndexCell().shapes[0], ai.cellID()) | cond3: bi.cellID() > ai.rangeMax | cond4: l.cellCrossesCell(ai.it.IndexCell().shapes[0], c.shapes[0])" := rfl
theorem shape_containsCenterMatches : RelateFns.containsCenterMatches_shape =
    "return val0⟨a.containsCenter; target⟩" := rfl
theorem exprs_containsCenterMatches : RelateFns.containsCenterMatches_exprs =
    "val0: (!a.containsCenter && target == crossingTargetDontCross) || (a.containsCenter && target == crossingTargetCross)" := rfl
theorem shape_loopCrosser_hasCrossingRelation : RelateFns.loopCrosser_hasCrossingRelation_shape =
    "aClipped := ai.it.IndexCell().shapes[0]; if cond0⟨aClipped.numEdges()⟩ {if cond1⟨l.hasCrossing(ai, bi)⟩ {return true}; ai.next(); return false}; if cond2⟨containsCenterMatches(aClipped, l.aCrossingTarget)⟩ {bi.seekBeyond(ai); ai.next(); return false}; for cond3⟨bi.cellID(); ai.rangeMax⟩ {bClipped := bi.it.IndexCell().shapes[0]; if cond4⟨containsCenterMatches(bClipped, l.bCrossingTarget)⟩ {return true}; bi.next()}; ai.next(); return false" := rfl
theorem exprs_loopCrosser_hasCrossingRelation : RelateFns.loopCrosser_hasCrossingRelation_exprs =
    "cond0: aClipped.numEdges() != 0 | cond1: l.hasCrossing(ai, bi) | cond2: !containsCenterMatches(aClipped, l.aCrossingTarget) | cond3: bi.cellID() <= ai.rangeMax | cond4: containsCenterMatches(bClipped, l.bCrossingTarget)" := rfl
theorem shape_hasCrossingRelation : RelateFns.hasCrossingRelation_shape =
    "ai := newRangeIterator(a.index); bi := newRangeIterator(b.index); ab := newLoopCrosser(a, b, relation, false); ba := newLoopCrosser(b, a, relation, true); for cond0⟨ai.done(); bi.done()⟩ {if cond1⟨ai.rangeMax; bi.rangeMin⟩ {ai.seekTo(bi)} else if cond2⟨bi.rangeMax; ai.rangeMin⟩ {bi.seekTo(ai)} else {abRelation := val0⟨ai.it.CellID(); bi.it.CellID()⟩; if cond3⟨abRelation⟩ {if cond4⟨ab.hasCrossingRelation(ai, bi)⟩ {return true}} else if cond5⟨abRelation⟩ {if cond6⟨ba.hasCrossingRelation(bi, ai)⟩ {return true}} else {aClipped := ai.it.IndexCell().shapes[0]; bClipped := bi.it.IndexCell().shapes[0]; if cond7⟨containsCenterMatches(aClipped, ab.aCrossingTarget); containsCenterMatches(bClipped, ab.bCrossingTarget)⟩ {return true}; if cond8⟨aClipped.numEdges(); bClipped.numEdges(); ab.cellCrossesCell(aClipped, bClipped)⟩ {return true}; ai.next(); bi.next()}}}; return false" := rfl
theorem exprs_hasCrossingRelation : RelateFns.hasCrossingRelation_exprs =
    "cond0: !ai.done() || !bi.done() | cond1: ai.rangeMax < bi.rangeMin | cond2: bi.rangeMax < ai.rangeMin | val0: int64(ai.it.CellID().lsb() - bi.it.CellID().lsb()) | cond3: abRelation > 0 | cond4: ab.hasCrossingRelation(ai, bi) | cond5: abRelation < 0 | cond6: ba.hasCrossingRelation(bi, ai) | cond7: containsCenterMatches(aClipped, ab.aCrossingTarget) && containsCenterMatches(bClipped, ab.bCrossingTarget) | cond8: aClipped.numEdges() > 0 && bClipped.numEdges() > 0 && ab.cellCrossesCell(aClipped, bClipped)" := rfl
theorem shape_containsRelation_aCrossingTarget : RelateFns.containsRelation_aCrossingTarget_shape =
    "return val0⟨⟩" := rfl
theorem exprs_containsRelation_aCrossingTarget : RelateFns.containsRelation_aCrossingTarget_exprs =
    "val0: crossingTargetDontCross" := rfl
theorem shape_containsRelation_bCrossingTarget : RelateFns.containsRelation_bCrossingTarget_shape =
    "return val0⟨⟩" := rfl
theorem exprs_containsRelation_bCrossingTarget : RelateFns.containsRelation_bCrossingTarget_exprs =
    "val0: crossingTargetCross" := rfl
theorem shape_containsRelation_wedgesCross : RelateFns.containsRelation_wedgesCross_shape =
    "c.foundSharedVertex = true; return val0⟨a0; ab1; a2; b0; b2⟩" := rfl
theorem exprs_containsRelation_wedgesCross : RelateFns.containsRelation_wedgesCross_exprs =
    "val0: !WedgeContains(a0, ab1, a2, b0, b2)" := rfl
theorem shape_intersectsRelation_aCrossingTarget : RelateFns.intersectsRelation_aCrossingTarget_shape =
    "return val0⟨⟩" := rfl
theorem exprs_intersectsRelation_aCrossingTarget : RelateFns.intersectsRelation_aCrossingTarget_exprs =
    "val0: crossingTargetCross" := rfl
theorem shape_intersectsRelation_bCrossingTarget : RelateFns.intersectsRelation_bCrossingTarget_shape =
    "return val0⟨⟩" := rfl
theorem exprs_intersectsRelation_bCrossingTarget : RelateFns.intersectsRelation_bCrossingTarget_exprs =
    "val0: crossingTargetCross" := rfl
theorem shape_intersectsRelation_wedgesCross : RelateFns.intersectsRelation_wedgesCross_shape =
    "i.foundSharedVertex = true; return val0⟨a0; ab1; a2; b0; b2⟩" := rfl
theorem exprs_intersectsRelation_wedgesCross : RelateFns.intersectsRelation_wedgesCross_exprs =
    "val0: WedgeIntersects(a0, ab1, a2, b0, b2)" := rfl
theorem shape_newCompareBoundaryRelation : RelateFns.newCompareBoundaryRelation_shape =
    "return &compareBoundaryRelation{reverse: reverse}" := rfl
theorem exprs_newCompareBoundaryRelation : RelateFns.newCompareBoundaryRelation_exprs =
    "" := rfl
theorem shape_compareBoundaryRelation_aCrossingTarget : RelateFns.compareBoundaryRelation_aCrossingTarget_shape =
    "return val0⟨⟩" := rfl
theorem exprs_compareBoundaryRelation_aCrossingTarget : RelateFns.compareBoundaryRelation_aCrossingTarget_exprs =
    "val0: crossingTargetDontCare" := rfl
theorem shape_compareBoundaryRelation_bCrossingTarget : RelateFns.compareBoundaryRelation_bCrossingTarget_shape =
    "return val0⟨⟩" := rfl
theorem exprs_compareBoundaryRelation_bCrossingTarget : RelateFns.compareBoundaryRelation_bCrossingTarget_exprs =
    "val0: crossingTargetDontCare" := rfl
theorem shape_compareBoundaryRelation_wedgesCross : RelateFns.compareBoundaryRelation_wedgesCross_shape =
    "c.foundSharedVertex = true; if cond0⟨a0; ab1; a2; b2; c.reverse⟩ {c.containsEdge = true} else {c.excludesEdge = true}; return val0⟨c.containsEdge; c.excludesEdge⟩" := rfl
theorem exprs_compareBoundaryRelation_wedgesCross : RelateFns.compareBoundaryRelation_wedgesCross_exprs =
    "cond0: wedgeContainsSemiwedge(a0, ab1, a2, b2, c.reverse) | val0: c.containsEdge && c.excludesEdge" := rfl
theorem shape_Loop_ContainsCell : RelateFns.Loop_ContainsCell_shape =
    "it := l.index.Iterator(); relation := it.LocateCellID(target.ID()); if cond0⟨relation⟩ {return false}; if cond1⟨l.boundaryApproxIntersects(it, target)⟩ {return false}; return l.iteratorContainsPoint(it, target.Center())" := rfl
theorem exprs_Loop_ContainsCell : RelateFns.Loop_ContainsCell_exprs =
    "cond0: relation != Indexed | cond1: l.boundaryApproxIntersects(it, target)" := rfl
theorem shape_Loop_IntersectsCell : RelateFns.Loop_IntersectsCell_shape =
    "it := l.index.Iterator(); relation := it.LocateCellID(target.ID()); if cond0⟨relation⟩ {return false}; if cond1⟨relation⟩ {return true}; if cond2⟨it.CellID(); target.id⟩ {return true}; if cond3⟨l.boundaryApproxIntersects(it, target)⟩ {return true}; return l.iteratorContainsPoint(it, target.Center())" := rfl
theorem exprs_Loop_IntersectsCell : RelateFns.Loop_IntersectsCell_exprs =
    "cond0: relation == Disjoint | cond1: relation == Subdivided | cond2: it.CellID() == target.id | cond3: l.boundaryApproxIntersects(it, target)" := rfl
theorem shape_Loop_boundaryApproxIntersects : RelateFns.Loop_boundaryApproxIntersects_shape =
    "aClipped := it.IndexCell().findByShapeID(0); if cond0⟨len(aClipped.edges)⟩ {return false}; if cond1⟨it.CellID(); target.ID()⟩ {return true}; maxError := (faceClipErrorUVCoord + intersectsRectErrorUVDist); bound := target.BoundUV().ExpandedByMargin(maxError); range _, ai := aClipped.edges {v0, v1, ok := ClipToPaddedFace(l.Vertex(ai), l.Vertex(val0⟨ai⟩), target.Face(), maxError); if cond2⟨ok; edgeIntersectsRect(v0, v1, bound)⟩ {return true}}; return false" := rfl
theorem exprs_Loop_boundaryApproxIntersects : RelateFns.Loop_boundaryApproxIntersects_exprs =
    "cond0: len(aClipped.edges) == 0 | cond1: it.CellID() == target.ID() | val0: ai + 1 | cond2: ok && edgeIntersectsRect(v0, v1, bound)" := rfl
theorem shape_referencePointForShape : RelateFns.referencePointForShape_shape =
    "if cond0⟨shape.NumEdges()⟩ {return OriginReferencePoint(val0⟨shape.NumChains()⟩)}; edge := shape.Edge(0); if[ref, ok := referencePointAtVertex(shape, edge.V0)] cond1⟨ok⟩ {return ref}; n := shape.NumEdges(); var edges = make([]Edge, n); var revEdges = make([]Edge, n); for[i := 0] cond2⟨i; n⟩ [i++] {edge := shape.Edge(i); edges[i] = edge; revEdges[i] = Edge{V0: edge.V1, V1: edge.V0}}; sortEdges(edges); sortEdges(revEdges); for[i := 0] cond3⟨i; n⟩ [i++] {if cond4⟨edges[i].Cmp(revEdges[i])⟩ {if[ref, ok := referencePointAtVertex(shape, edges[i].V0)] cond5⟨ok⟩ {return ref}}; if cond6⟨revEdges[i].Cmp(edges[i])⟩ {if[ref, ok := referencePointAtVertex(shape, revEdges[i].V0)] cond7⟨ok⟩ {return ref}}}; for[i := 0] cond8⟨i; shape.NumChains()⟩ [i++] {if cond9⟨shape.Chain(i).Length⟩ {return OriginReferencePoint(true)}}; return OriginReferencePoint(false)" := rfl
theorem exprs_referencePointForShape : RelateFns.referencePointForShape_exprs =
    "cond0: shape.NumEdges() == 0 | val0: shape.NumChains() > 0 | cond1: ok | cond2: i < n | cond3: i < n | cond4: edges[i].Cmp(revEdges[i]) == -1 | cond5: ok | cond6: revEdges[i].Cmp(edges[i]) == -1 | cond7: ok | cond8: i < shape.NumChains() | cond9: shape.Chain(i).Length == 0" := rfl
theorem shape_referencePointAtVertex : RelateFns.referencePointAtVertex_shape =
    "var ref ReferencePoint; containsQuery := NewContainsVertexQuery(vTest); n := shape.NumEdges(); for[e := 0] cond0⟨e; n⟩ [e++] {edge := shape.Edge(e); if cond1⟨edge.V0; vTest⟩ {containsQuery.AddEdge(edge.V1, 1)}; if cond2⟨edge.V1; vTest⟩ {containsQuery.AddEdge(edge.V0, -1)}}; containsSign := containsQuery.ContainsVertex(); if cond3⟨containsSign⟩ {return ref, false}; ref.Point = vTest; ref.Contained = val0⟨containsSign⟩; return ref, true" := rfl
theorem exprs_referencePointAtVertex : RelateFns.referencePointAtVertex_exprs =
    "cond0: e < n | cond1: edge.V0 == vTest | cond2: edge.V1 == vTest | cond3: containsSign == 0 | val0: containsSign > 0" := rfl
theorem shape_Polygon_Contains : RelateFns.Polygon_Contains_shape =
    "if cond0⟨len(p.loops); len(o.loops)⟩ {return p.loops[0].Contains(o.loops[0])}; if cond1⟨p.subregionBound.Contains(o.bound)⟩ {if cond2⟨p.bound.Lng.Union(o.bound.Lng).IsFull()⟩ {return false}}; if cond3⟨p.hasHoles; o.hasHoles⟩ {range _, l := o.loops {if cond4⟨p.anyLoopContains(l)⟩ {return false}}; return true}; return val0⟨p.containsBoundary(o); o.excludesNonCrossingComplementShells(p)⟩" := rfl
theorem exprs_Polygon_Contains : RelateFns.Polygon_Contains_exprs =
    "cond0: len(p.loops) == 1 && len(o.loops) == 1 | cond1: !p.subregionBound.Contains(o.bound) | cond2: !p.bound.Lng.Union(o.bound.Lng).IsFull() | cond3: !p.hasHoles && !o.hasHoles | cond4: !p.anyLoopContains(l) | val0: p.containsBoundary(o) && o.excludesNonCrossingComplementShells(p)" := rfl
theorem shape_Polygon_Intersects : RelateFns.Polygon_Intersects_shape =
    "if cond0⟨len(p.loops); len(o.loops)⟩ {return p.loops[0].Intersects(o.loops[0])}; if cond1⟨p.bound.Intersects(o.bound)⟩ {return false}; if cond2⟨p.hasHoles; o.hasHoles⟩ {range _, l := o.loops {if cond3⟨p.anyLoopIntersects(l)⟩ {return true}}; return false}; return val0⟨p.excludesBoundary(o); o.excludesNonCrossingShells(p)⟩" := rfl
theorem exprs_Polygon_Intersects : RelateFns.Polygon_Intersects_exprs =
    "cond0: len(p.loops) == 1 && len(o.loops) == 1 | cond1: !p.bound.Intersects(o.bound) | cond2: !p.hasHoles && !o.hasHoles | cond3: p.anyLoopIntersects(l) | val0: !p.excludesBoundary(o) || !o.excludesNonCrossingShells(p)" := rfl
theorem shape_Polygon_compareBoundary : RelateFns.Polygon_compareBoundary_shape =
    "result := -1; for[i := 0] cond0⟨i; len(p.loops); result⟩ [i++] {result *= val0⟨p.loops[i].compareBoundary(o)⟩}; return result" := rfl
theorem exprs_Polygon_compareBoundary : RelateFns.Polygon_compareBoundary_exprs =
    "cond0: i < len(p.loops) && result != 0 | val0: -p.loops[i].compareBoundary(o)" := rfl
theorem shape_Polygon_containsBoundary : RelateFns.Polygon_containsBoundary_shape =
    "range _, l := o.loops {if cond0⟨p.compareBoundary(l)⟩ {return false}}; return true" := rfl
theorem exprs_Polygon_containsBoundary : RelateFns.Polygon_containsBoundary_exprs =
    "cond0: p.compareBoundary(l) <= 0" := rfl
theorem shape_Polygon_excludesBoundary : RelateFns.Polygon_excludesBoundary_shape =
    "range _, l := o.loops {if cond0⟨p.compareBoundary(l)⟩ {return false}}; return true" := rfl
theorem exprs_Polygon_excludesBoundary : RelateFns.Polygon_excludesBoundary_exprs =
    "cond0: p.compareBoundary(l) >= 0" := rfl
theorem shape_Polygon_containsNonCrossingBoundary : RelateFns.Polygon_containsNonCrossingBoundary_shape =
    "var inside bool; range _, l := p.loops {x := l.containsNonCrossingBoundary(o, reverse); inside = (val0⟨inside; x⟩)}; return inside" := rfl
theorem exprs_Polygon_containsNonCrossingBoundary : RelateFns.Polygon_containsNonCrossingBoundary_exprs =
    "val0: inside != x" := rfl
theorem shape_Polygon_excludesNonCrossingShells : RelateFns.Polygon_excludesNonCrossingShells_shape =
    "range _, l := o.loops {if cond0⟨l.IsHole()⟩ {continue}; if cond1⟨p.containsNonCrossingBoundary(l, false)⟩ {return false}}; return true" := rfl
theorem exprs_Polygon_excludesNonCrossingShells : RelateFns.Polygon_excludesNonCrossingShells_exprs =
    "cond0: l.IsHole() | cond1: p.containsNonCrossingBoundary(l, false)" := rfl
theorem shape_Polygon_excludesNonCrossingComplementShells : RelateFns.Polygon_excludesNonCrossingComplementShells_shape =
    "if cond0⟨o.IsEmpty()⟩ {return val0⟨p.IsFull()⟩}; if cond1⟨o.IsFull()⟩ {return true}; range j, l := o.loops {if cond2⟨j; l.IsHole()⟩ {continue}; if cond3⟨p.containsNonCrossingBoundary(l, val1⟨j⟩)⟩ {return false}}; return true" := rfl
theorem exprs_Polygon_excludesNonCrossingComplementShells : RelateFns.Polygon_excludesNonCrossingComplementShells_exprs =
    "cond0: o.IsEmpty() | val0: !p.IsFull() | cond1: o.IsFull() | cond2: j > 0 && !l.IsHole() | val1: j == 0 | cond3: p.containsNonCrossingBoundary(l, j == 0)" := rfl
theorem shape_Polygon_anyLoopContains : RelateFns.Polygon_anyLoopContains_shape =
    "range _, l := p.loops {if cond0⟨l.Contains(o)⟩ {return true}}; return false" := rfl
theorem exprs_Polygon_anyLoopContains : RelateFns.Polygon_anyLoopContains_exprs =
    "cond0: l.Contains(o)" := rfl
theorem shape_Polygon_anyLoopIntersects : RelateFns.Polygon_anyLoopIntersects_shape =
    "range _, l := p.loops {if cond0⟨l.Intersects(o)⟩ {return true}}; return false" := rfl
theorem exprs_Polygon_anyLoopIntersects : RelateFns.Polygon_anyLoopIntersects_exprs =
    "cond0: l.Intersects(o)" := rfl
theorem shape_Polygon_IsEmpty : RelateFns.Polygon_IsEmpty_shape =
    "return val0⟨len(p.loops)⟩" := rfl
theorem exprs_Polygon_IsEmpty : RelateFns.Polygon_IsEmpty_exprs =
    "val0: len(p.loops) == 0" := rfl
theorem shape_Polygon_IsFull : RelateFns.Polygon_IsFull_shape =
    "return val0⟨len(p.loops); p.loops[0].IsFull()⟩" := rfl
theorem exprs_Polygon_IsFull : RelateFns.Polygon_IsFull_exprs =
    "val0: len(p.loops) == 1 && p.loops[0].IsFull()" := rfl
theorem shape_Polygon_ContainsCell : RelateFns.Polygon_ContainsCell_shape =
    "it := p.index.Iterator(); relation := it.LocateCellID(cell.ID()); if cond0⟨relation⟩ {return false}; if cond1⟨p.boundaryApproxIntersects(it, cell)⟩ {return false}; return p.iteratorContainsPoint(it, cell.Center())" := rfl
theorem exprs_Polygon_ContainsCell : RelateFns.Polygon_ContainsCell_exprs =
    "cond0: relation != Indexed | cond1: p.boundaryApproxIntersects(it, cell)" := rfl
theorem shape_Polygon_IntersectsCell : RelateFns.Polygon_IntersectsCell_shape =
    "it := p.index.Iterator(); relation := it.LocateCellID(cell.ID()); if cond0⟨relation⟩ {return false}; if cond1⟨relation⟩ {return true}; if cond2⟨it.CellID(); cell.id⟩ {return true}; if cond3⟨p.boundaryApproxIntersects(it, cell)⟩ {return true}; return p.iteratorContainsPoint(it, cell.Center())" := rfl
theorem exprs_Polygon_IntersectsCell : RelateFns.Polygon_IntersectsCell_exprs =
    "cond0: relation == Disjoint | cond1: relation == Subdivided | cond2: it.CellID() == cell.id | cond3: p.boundaryApproxIntersects(it, cell)" := rfl
theorem shape_Polygon_boundaryApproxIntersects : RelateFns.Polygon_boundaryApproxIntersects_shape =
    "aClipped := it.IndexCell().findByShapeID(0); if cond0⟨len(aClipped.edges)⟩ {return false}; if cond1⟨it.CellID(); cell.ID()⟩ {return true}; maxError := (faceClipErrorUVCoord + intersectsRectErrorUVDist); bound := cell.BoundUV().ExpandedByMargin(maxError); range _, e := aClipped.edges {edge := p.index.Shape(0).Edge(e); v0, v1, ok := ClipToPaddedFace(edge.V0, edge.V1, cell.Face(), maxError); if cond2⟨ok; edgeIntersectsRect(v0, v1, bound)⟩ {return true}}; return false" := rfl
theorem exprs_Polygon_boundaryApproxIntersects : RelateFns.Polygon_boundaryApproxIntersects_exprs =
    "cond0: len(aClipped.edges) == 0 | cond1: it.CellID() == cell.ID() | cond2: ok && edgeIntersectsRect(v0, v1, bound)" := rfl
theorem shape_PolygonFromOrientedLoops : RelateFns.PolygonFromOrientedLoops_shape =
    "containedOrigin := make(map[*Loop]bool); range _, l := loops {containedOrigin[l] = l.ContainsOrigin()}; range _, l := loops {angle := l.TurningAngle(); if cond0⟨angle; l.turningAngleMaxError()⟩ {if cond1⟨angle⟩ {l.Invert()}} else {if cond2⟨l.ContainsOrigin()⟩ {l.Invert()}}}; p := PolygonFromLoops(loops); if cond3⟨p.NumLoops()⟩ {originLoop := p.Loop(0); polygonContainsOrigin := false; range _, l := p.Loops() {if cond4⟨l.ContainsOrigin()⟩ {polygonContainsOrigin = val0⟨polygonContainsOrigin⟩; originLoop = l}}; if cond5⟨containedOrigin[originLoop]; polygonContainsOrigin⟩ {p.Invert()}}; return p" := rfl
theorem exprs_PolygonFromOrientedLoops : RelateFns.PolygonFromOrientedLoops_exprs =
    "cond0: math.Abs(angle) > l.turningAngleMaxError() | cond1: angle < 0 | cond2: l.ContainsOrigin() | cond3: p.NumLoops() > 0 | cond4: l.ContainsOrigin() | val0: !polygonContainsOrigin | cond5: containedOrigin[originLoop] != polygonContainsOrigin" := rfl
theorem shape_Polygon_Invert : RelateFns.Polygon_Invert_shape =
    "if cond0⟨p.IsEmpty()⟩ {*p = *FullPolygon(); p.initLoopProperties(); return}; if cond1⟨p.IsFull()⟩ {*p = Polygon{}; p.initLoopProperties(); return}; best := 0; const none = 10.0; bestAngle := none; for[i := 1] cond2⟨i; p.NumLoops()⟩ [i++] {if cond3⟨p.Loop(i).depth⟩ {continue}; if cond4⟨bestAngle⟩ {bestAngle = p.Loop(best).TurningAngle()}; angle := p.Loop(i).TurningAngle(); if cond5⟨angle; bestAngle; compareLoops(p.Loop(i), p.Loop(best))⟩ {best = i; bestAngle = angle}}; p.Loop(best).Invert(); newLoops := make([]*Loop, 0, p.NumLoops()); lastBest := p.LastDescendant(best); newLoops = append(newLoops, p.Loop(best)); range i, l := p.Loops() {if cond6⟨i; best; lastBest⟩ {l.depth++; newLoops = append(newLoops, l)}}; range i, l := p.Loops() {if cond7⟨i; best; lastBest⟩ {l.depth--; newLoops = append(newLoops, l)}}; p.loops = newLoops; p.initLoopProperties()" := rfl
theorem exprs_Polygon_Invert : RelateFns.Polygon_Invert_exprs =
    "cond0: p.IsEmpty() | cond1: p.IsFull() | cond2: i < p.NumLoops() | cond3: p.Loop(i).depth != 0 | cond4: bestAngle == none | cond5: angle < bestAngle || (angle == bestAngle && compareLoops(p.Loop(i), p.Loop(best)) < 0) | cond6: i < best || i > lastBest | cond7: i > best && i <= lastBest" := rfl

theorem pin_rangeIterator_seekTo_cond0 (r_it_Done : Bool) (r_it_CellID : UInt64) (target_rangeMax : UInt64) :
    RelateFns.rangeIterator_seekTo_cond0 r_it_Done r_it_CellID target_rangeMax = (r_it_Done || (decide ((CellID.rangeMin r_it_CellID) > target_rangeMax))) := rfl
theorem pin_rangeIterator_seekTo_cond1 (r_it_Prev : Bool) (r_it_CellID : UInt64) (target_cellID : UInt64) :
    RelateFns.rangeIterator_seekTo_cond1 r_it_Prev r_it_CellID target_cellID = (r_it_Prev && (decide ((CellID.rangeMax r_it_CellID) < target_cellID))) := rfl
theorem pin_rangeIterator_seekBeyond_val0 (target_rangeMax : UInt64) :
    RelateFns.rangeIterator_seekBeyond_val0 target_rangeMax = (CellID.next target_rangeMax) := rfl
theorem pin_rangeIterator_seekBeyond_cond0 (r_it_Done : Bool) (r_it_CellID : UInt64) (target_rangeMax : UInt64) :
    RelateFns.rangeIterator_seekBeyond_cond0 r_it_Done r_it_CellID target_rangeMax = ((!r_it_Done) && (decide ((CellID.rangeMin r_it_CellID) ≤ target_rangeMax))) := rfl
theorem pin_rangeIterator_refresh_val0 (r_cellID : UInt64) :
    RelateFns.rangeIterator_refresh_val0 r_cellID = (CellID.rangeMin r_cellID) := rfl
theorem pin_rangeIterator_refresh_val1 (r_cellID : UInt64) :
    RelateFns.rangeIterator_refresh_val1 r_cellID = (CellID.rangeMax r_cellID) := rfl
theorem pin_Loop_Contains_cond0 (l_subregionBound_Contains_o_bound : Bool) :
    RelateFns.Loop_Contains_cond0 l_subregionBound_Contains_o_bound = (!l_subregionBound_Contains_o_bound) := rfl
theorem pin_Loop_Contains_cond1 (l_isEmptyOrFull : Bool) (o_isEmptyOrFull : Bool) :
    RelateFns.Loop_Contains_cond1 l_isEmptyOrFull o_isEmptyOrFull = (l_isEmptyOrFull || o_isEmptyOrFull) := rfl
theorem pin_Loop_Contains_val0 (l_IsFull : Bool) (o_IsEmpty : Bool) :
    RelateFns.Loop_Contains_val0 l_IsFull o_IsEmpty = (l_IsFull || o_IsEmpty) := rfl
theorem pin_Loop_Contains_cond2 (hasCrossingRelation_l_o_relation : Bool) :
    RelateFns.Loop_Contains_cond2 hasCrossingRelation_l_o_relation = (hasCrossingRelation_l_o_relation) := rfl
theorem pin_Loop_Contains_cond3 (relation_foundSharedVertex : Bool) :
    RelateFns.Loop_Contains_cond3 relation_foundSharedVertex = (relation_foundSharedVertex) := rfl
theorem pin_Loop_Contains_cond4 (l_ContainsPoint_o_Vertex_0 : Bool) :
    RelateFns.Loop_Contains_cond4 l_ContainsPoint_o_Vertex_0 = (!l_ContainsPoint_o_Vertex_0) := rfl
theorem pin_Loop_Contains_cond5 (o_subregionBound_Contains_l_bound : Bool) (o_bound_Union_l_bound_IsFull : Bool) (o_ContainsPoint_l_Vertex_0 : Bool) :
    RelateFns.Loop_Contains_cond5 o_subregionBound_Contains_l_bound o_bound_Union_l_bound_IsFull o_ContainsPoint_l_Vertex_0 = ((o_subregionBound_Contains_l_bound || o_bound_Union_l_bound_IsFull) && o_ContainsPoint_l_Vertex_0) := rfl
theorem pin_Loop_Intersects_cond0 (l_bound_Intersects_o_bound : Bool) :
    RelateFns.Loop_Intersects_cond0 l_bound_Intersects_o_bound = (!l_bound_Intersects_o_bound) := rfl
theorem pin_Loop_Intersects_cond1 (hasCrossingRelation_l_o_relation : Bool) :
    RelateFns.Loop_Intersects_cond1 hasCrossingRelation_l_o_relation = (hasCrossingRelation_l_o_relation) := rfl
theorem pin_Loop_Intersects_cond2 (relation_foundSharedVertex : Bool) :
    RelateFns.Loop_Intersects_cond2 relation_foundSharedVertex = (relation_foundSharedVertex) := rfl
theorem pin_Loop_Intersects_cond3 (l_subregionBound_Contains_o_bound : Bool) (l_bound_Union_o_bound_IsFull : Bool) :
    RelateFns.Loop_Intersects_cond3 l_subregionBound_Contains_o_bound l_bound_Union_o_bound_IsFull = (l_subregionBound_Contains_o_bound || l_bound_Union_o_bound_IsFull) := rfl
theorem pin_Loop_Intersects_cond4 (l_ContainsPoint_o_Vertex_0 : Bool) :
    RelateFns.Loop_Intersects_cond4 l_ContainsPoint_o_Vertex_0 = (l_ContainsPoint_o_Vertex_0) := rfl
theorem pin_Loop_Intersects_cond5 (o_subregionBound_Contains_l_bound : Bool) :
    RelateFns.Loop_Intersects_cond5 o_subregionBound_Contains_l_bound = (o_subregionBound_Contains_l_bound) := rfl
theorem pin_Loop_Intersects_cond6 (o_ContainsPoint_l_Vertex_0 : Bool) :
    RelateFns.Loop_Intersects_cond6 o_ContainsPoint_l_Vertex_0 = (o_ContainsPoint_l_Vertex_0) := rfl
theorem pin_Loop_compareBoundary_cond0 (l_bound_Intersects_o_bound : Bool) :
    RelateFns.Loop_compareBoundary_cond0 l_bound_Intersects_o_bound = (!l_bound_Intersects_o_bound) := rfl
theorem pin_Loop_compareBoundary_cond1 (l_IsFull : Bool) :
    RelateFns.Loop_compareBoundary_cond1 l_IsFull = (l_IsFull) := rfl
theorem pin_Loop_compareBoundary_cond2 (o_IsFull : Bool) :
    RelateFns.Loop_compareBoundary_cond2 o_IsFull = (o_IsFull) := rfl
theorem pin_Loop_compareBoundary_cond3 (hasCrossingRelation_l_o_relation : Bool) :
    RelateFns.Loop_compareBoundary_cond3 hasCrossingRelation_l_o_relation = (hasCrossingRelation_l_o_relation) := rfl
theorem pin_Loop_compareBoundary_cond4 (relation_foundSharedVertex : Bool) :
    RelateFns.Loop_compareBoundary_cond4 relation_foundSharedVertex = (relation_foundSharedVertex) := rfl
theorem pin_Loop_compareBoundary_cond5 (relation_containsEdge : Bool) :
    RelateFns.Loop_compareBoundary_cond5 relation_containsEdge = (relation_containsEdge) := rfl
theorem pin_Loop_compareBoundary_cond6 (l_ContainsPoint_o_Vertex_0 : Bool) :
    RelateFns.Loop_compareBoundary_cond6 l_ContainsPoint_o_Vertex_0 = (l_ContainsPoint_o_Vertex_0) := rfl
theorem pin_Loop_ContainsNested_cond0 (l_subregionBound_Contains_other_bound : Bool) :
    RelateFns.Loop_ContainsNested_cond0 l_subregionBound_Contains_other_bound = (!l_subregionBound_Contains_other_bound) := rfl
theorem pin_Loop_ContainsNested_cond1 (l_isEmptyOrFull : Bool) (other_NumVertices : Int) :
    RelateFns.Loop_ContainsNested_cond1 l_isEmptyOrFull other_NumVertices = (l_isEmptyOrFull || (decide (other_NumVertices < 2))) := rfl
theorem pin_Loop_ContainsNested_val0 (l_IsFull : Bool) (other_IsEmpty : Bool) :
    RelateFns.Loop_ContainsNested_val0 l_IsFull other_IsEmpty = (l_IsFull || other_IsEmpty) := rfl
theorem pin_Loop_ContainsNested_cond2 (ok : Bool) :
    RelateFns.Loop_ContainsNested_cond2 ok = (!ok) := rfl
theorem pin_Loop_ContainsNested_val1 (m : Int) :
    RelateFns.Loop_ContainsNested_val1 m = (m - 1) := rfl
theorem pin_Loop_ContainsNested_val2 (m : Int) :
    RelateFns.Loop_ContainsNested_val2 m = (m + 1) := rfl
theorem pin_Loop_ContainsNested_val3 (l_Vertex_val1 : α) (l_Vertex_m : α) (l_Vertex_val2 : α) (other_Vertex_0 : α) (other_Vertex_2 : α) :
    RelateFns.Loop_ContainsNested_val3 G l_Vertex_val1 l_Vertex_m l_Vertex_val2 other_Vertex_0 other_Vertex_2 = (Relate.wedgeContains G l_Vertex_val1 l_Vertex_m l_Vertex_val2 other_Vertex_0 other_Vertex_2) := rfl
theorem pin_Loop_containsNonCrossingBoundary_cond0 (l_bound_Intersects_other_bound : Bool) :
    RelateFns.Loop_containsNonCrossingBoundary_cond0 l_bound_Intersects_other_bound = (!l_bound_Intersects_other_bound) := rfl
theorem pin_Loop_containsNonCrossingBoundary_cond1 (l_IsFull : Bool) :
    RelateFns.Loop_containsNonCrossingBoundary_cond1 l_IsFull = (l_IsFull) := rfl
theorem pin_Loop_containsNonCrossingBoundary_cond2 (other_IsFull : Bool) :
    RelateFns.Loop_containsNonCrossingBoundary_cond2 other_IsFull = (other_IsFull) := rfl
theorem pin_Loop_containsNonCrossingBoundary_cond3 (ok : Bool) :
    RelateFns.Loop_containsNonCrossingBoundary_cond3 ok = (!ok) := rfl
theorem pin_Loop_containsNonCrossingBoundary_val0 (m : Int) :
    RelateFns.Loop_containsNonCrossingBoundary_val0 m = (m - 1) := rfl
theorem pin_Loop_containsNonCrossingBoundary_val1 (m : Int) :
    RelateFns.Loop_containsNonCrossingBoundary_val1 m = (m + 1) := rfl
theorem pin_Loop_containsNonCrossingBoundary_val2 (l_Vertex_val0 : α) (l_Vertex_m : α) (l_Vertex_val1 : α) (other_Vertex_1 : α) (reverseOther : Bool) :
    RelateFns.Loop_containsNonCrossingBoundary_val2 G l_Vertex_val0 l_Vertex_m l_Vertex_val1 other_Vertex_1 reverseOther = (Relate.wedgeContainsSemiwedge G l_Vertex_val0 l_Vertex_m l_Vertex_val1 other_Vertex_1 reverseOther) := rfl
theorem pin_Loop_findVertex_cond0 (len_l_vertices : Int) :
    RelateFns.Loop_findVertex_cond0 len_l_vertices = (decide (len_l_vertices < 10)) := rfl
theorem pin_Loop_findVertex_cond1 (i : Int) (len_l_vertices : Int) :
    RelateFns.Loop_findVertex_cond1 i len_l_vertices = (decide (i ≤ len_l_vertices)) := rfl
theorem pin_Loop_findVertex_cond2 (l_Vertex_i : α) (p : α) :
    RelateFns.Loop_findVertex_cond2 l_Vertex_i p = (decide (l_Vertex_i = p)) := rfl
theorem pin_Loop_findVertex_cond3 (it_LocatePoint_p : Bool) :
    RelateFns.Loop_findVertex_cond3 it_LocatePoint_p = (!it_LocatePoint_p) := rfl
theorem pin_Loop_findVertex_val0 (aClipped_numEdges : Int) :
    RelateFns.Loop_findVertex_val0 aClipped_numEdges = (aClipped_numEdges - 1) := rfl
theorem pin_Loop_findVertex_cond4 (i : Int) :
    RelateFns.Loop_findVertex_cond4 i = (decide (i ≥ 0)) := rfl
theorem pin_Loop_findVertex_cond5 (l_Vertex_ai : α) (p : α) :
    RelateFns.Loop_findVertex_cond5 l_Vertex_ai p = (decide (l_Vertex_ai = p)) := rfl
theorem pin_Loop_findVertex_cond6 (ai : Int) :
    RelateFns.Loop_findVertex_cond6 ai = (ai == 0) := rfl
theorem pin_Loop_findVertex_val1 (ai : Int) :
    RelateFns.Loop_findVertex_val1 ai = (ai + 1) := rfl
theorem pin_Loop_findVertex_cond7 (l_Vertex_val1 : α) (p : α) :
    RelateFns.Loop_findVertex_cond7 l_Vertex_val1 p = (decide (l_Vertex_val1 = p)) := rfl
theorem pin_Loop_findVertex_val2 (ai : Int) :
    RelateFns.Loop_findVertex_val2 ai = (ai + 1) := rfl
theorem pin_Loop_Vertex_val0 (i : Nat) (len_l_vertices : Nat) :
    RelateFns.Loop_Vertex_val0 i len_l_vertices = (i % len_l_vertices) := rfl
theorem pin_Loop_IsEmpty_val0 (l_isEmptyOrFull : Bool) (l_ContainsOrigin : Bool) :
    RelateFns.Loop_IsEmpty_val0 l_isEmptyOrFull l_ContainsOrigin = (l_isEmptyOrFull && (!l_ContainsOrigin)) := rfl
theorem pin_Loop_IsFull_val0 (l_isEmptyOrFull : Bool) (l_ContainsOrigin : Bool) :
    RelateFns.Loop_IsFull_val0 l_isEmptyOrFull l_ContainsOrigin = (l_isEmptyOrFull && l_ContainsOrigin) := rfl
theorem pin_Loop_isEmptyOrFull_val0 (len_l_vertices : Nat) :
    RelateFns.Loop_isEmptyOrFull_val0 len_l_vertices = (len_l_vertices == 1) := rfl
theorem pin_newLoopCrosser_cond0 (swapped : Bool) :
    RelateFns.newLoopCrosser_cond0 swapped = (swapped) := rfl
theorem pin_loopCrosser_startEdge_val0 (aj : Int) :
    RelateFns.loopCrosser_startEdge_val0 aj = (aj + 1) := rfl
theorem pin_loopCrosser_edgeCrossesCell_cond0 (j : Int) (bNumEdges : Int) :
    RelateFns.loopCrosser_edgeCrossesCell_cond0 j bNumEdges = (decide (j < bNumEdges)) := rfl
theorem pin_loopCrosser_edgeCrossesCell_cond1 (bj : Int) (l_bjPrev : Int) :
    RelateFns.loopCrosser_edgeCrossesCell_cond1 bj l_bjPrev = (bj != (l_bjPrev + 1)) := rfl
theorem pin_loopCrosser_edgeCrossesCell_val0 (bj : Int) :
    RelateFns.loopCrosser_edgeCrossesCell_val0 bj = (bj + 1) := rfl
theorem pin_loopCrosser_edgeCrossesCell_cond2 (crossing : Int) :
    RelateFns.loopCrosser_edgeCrossesCell_cond2 crossing = (crossing == (-1 : Int)) := rfl
theorem pin_loopCrosser_edgeCrossesCell_cond3 (crossing : Int) :
    RelateFns.loopCrosser_edgeCrossesCell_cond3 crossing = (crossing == (1 : Int)) := rfl
theorem pin_loopCrosser_edgeCrossesCell_val1 (l_aj : Int) :
    RelateFns.loopCrosser_edgeCrossesCell_val1 l_aj = (l_aj + 1) := rfl
theorem pin_loopCrosser_edgeCrossesCell_val2 (bj : Int) :
    RelateFns.loopCrosser_edgeCrossesCell_val2 bj = (bj + 1) := rfl
theorem pin_loopCrosser_edgeCrossesCell_cond4 (l_a_Vertex_val1 : α) (l_b_Vertex_val2 : α) :
    RelateFns.loopCrosser_edgeCrossesCell_cond4 l_a_Vertex_val1 l_b_Vertex_val2 = (decide (l_a_Vertex_val1 = l_b_Vertex_val2)) := rfl
theorem pin_loopCrosser_edgeCrossesCell_cond5 (l_swapped : Bool) :
    RelateFns.loopCrosser_edgeCrossesCell_cond5 l_swapped = (l_swapped) := rfl
theorem pin_loopCrosser_edgeCrossesCell_val3 (bj : Int) :
    RelateFns.loopCrosser_edgeCrossesCell_val3 bj = (bj + 1) := rfl
theorem pin_loopCrosser_edgeCrossesCell_val4 (bj : Int) :
    RelateFns.loopCrosser_edgeCrossesCell_val4 bj = (bj + 2) := rfl
theorem pin_loopCrosser_edgeCrossesCell_val5 (l_aj : Int) :
    RelateFns.loopCrosser_edgeCrossesCell_val5 l_aj = (l_aj + 2) := rfl
theorem pin_loopCrosser_edgeCrossesCell_cond6 (l_relation_wedgesCross_l_b_Vertex_bj_l_b_Vertex_val3_l_b_Vertex_val4_l_a_Vertex_l_aj_l_a_Vertex_val5 : Bool) :
    RelateFns.loopCrosser_edgeCrossesCell_cond6 l_relation_wedgesCross_l_b_Vertex_bj_l_b_Vertex_val3_l_b_Vertex_val4_l_a_Vertex_l_aj_l_a_Vertex_val5 = (l_relation_wedgesCross_l_b_Vertex_bj_l_b_Vertex_val3_l_b_Vertex_val4_l_a_Vertex_l_aj_l_a_Vertex_val5) := rfl
theorem pin_loopCrosser_edgeCrossesCell_val6 (l_aj : Int) :
    RelateFns.loopCrosser_edgeCrossesCell_val6 l_aj = (l_aj + 1) := rfl
theorem pin_loopCrosser_edgeCrossesCell_val7 (l_aj : Int) :
    RelateFns.loopCrosser_edgeCrossesCell_val7 l_aj = (l_aj + 2) := rfl
theorem pin_loopCrosser_edgeCrossesCell_val8 (bj : Int) :
    RelateFns.loopCrosser_edgeCrossesCell_val8 bj = (bj + 2) := rfl
theorem pin_loopCrosser_edgeCrossesCell_cond7 (l_relation_wedgesCross_l_a_Vertex_l_aj_l_a_Vertex_val6_l_a_Vertex_val7_l_b_Vertex_bj_l_b_Vertex_val8 : Bool) :
    RelateFns.loopCrosser_edgeCrossesCell_cond7 l_relation_wedgesCross_l_a_Vertex_l_aj_l_a_Vertex_val6_l_a_Vertex_val7_l_b_Vertex_bj_l_b_Vertex_val8 = (l_relation_wedgesCross_l_a_Vertex_l_aj_l_a_Vertex_val6_l_a_Vertex_val7_l_b_Vertex_bj_l_b_Vertex_val8) := rfl
theorem pin_loopCrosser_cellCrossesCell_cond0 (l_edgeCrossesCell_bClipped : Bool) :
    RelateFns.loopCrosser_cellCrossesCell_cond0 l_edgeCrossesCell_bClipped = (l_edgeCrossesCell_bClipped) := rfl
theorem pin_loopCrosser_cellCrossesAnySubcell_val0 (aj : Nat) :
    RelateFns.loopCrosser_cellCrossesAnySubcell_val0 aj = (aj + 1) := rfl
theorem pin_loopCrosser_cellCrossesAnySubcell_cond0 (len_l_bCells : Nat) :
    RelateFns.loopCrosser_cellCrossesAnySubcell_cond0 len_l_bCells = (len_l_bCells == 0) := rfl
theorem pin_loopCrosser_cellCrossesAnySubcell_cond1 (c : Nat) (len_l_bCells : Nat) :
    RelateFns.loopCrosser_cellCrossesAnySubcell_cond1 c len_l_bCells = (decide (c < len_l_bCells)) := rfl
theorem pin_loopCrosser_cellCrossesAnySubcell_cond2 (l_edgeCrossesCell_l_bCells_c_shapes_0 : Bool) :
    RelateFns.loopCrosser_cellCrossesAnySubcell_cond2 l_edgeCrossesCell_l_bCells_c_shapes_0 = (l_edgeCrossesCell_l_bCells_c_shapes_0) := rfl
theorem pin_loopCrosser_hasCrossing_cond0 (n : Nat) :
    RelateFns.loopCrosser_hasCrossing_cond0 n = (decide (n > 0)) := rfl
theorem pin_loopCrosser_hasCrossing_cond1 (totalEdges : Nat) :
    RelateFns.loopCrosser_hasCrossing_cond1 totalEdges = (decide (totalEdges ≥ 20)) := rfl
theorem pin_loopCrosser_hasCrossing_cond2 (l_cellCrossesAnySubcell_ai_it_IndexCell_shapes_0_ai_cellID : Bool) :
    RelateFns.loopCrosser_hasCrossing_cond2 l_cellCrossesAnySubcell_ai_it_IndexCell_shapes_0_ai_cellID = (l_cellCrossesAnySubcell_ai_it_IndexCell_shapes_0_ai_cellID) := rfl
theorem pin_loopCrosser_hasCrossing_cond3 (bi_cellID : UInt64) (ai_rangeMax : UInt64) :
    RelateFns.loopCrosser_hasCrossing_cond3 bi_cellID ai_rangeMax = (decide (bi_cellID > ai_rangeMax)) := rfl
theorem pin_loopCrosser_hasCrossing_cond4 (l_cellCrossesCell_ai_it_IndexCell_shapes_0_c_shapes_0 : Bool) :
    RelateFns.loopCrosser_hasCrossing_cond4 l_cellCrossesCell_ai_it_IndexCell_shapes_0_c_shapes_0 = (l_cellCrossesCell_ai_it_IndexCell_shapes_0_c_shapes_0) := rfl
theorem pin_containsCenterMatches_val0 (a_containsCenter : Bool) (target : RelateWalk.Target) :
    RelateFns.containsCenterMatches_val0 a_containsCenter target = (((!a_containsCenter) && (target == RelateWalk.Target.dontCross)) || (a_containsCenter && (target == RelateWalk.Target.cross))) := rfl
theorem pin_loopCrosser_hasCrossingRelation_cond0 (aClipped_numEdges : Nat) :
    RelateFns.loopCrosser_hasCrossingRelation_cond0 aClipped_numEdges = (aClipped_numEdges != 0) := rfl
theorem pin_loopCrosser_hasCrossingRelation_cond1 (l_hasCrossing_ai_bi : Bool) :
    RelateFns.loopCrosser_hasCrossingRelation_cond1 l_hasCrossing_ai_bi = (l_hasCrossing_ai_bi) := rfl
theorem pin_loopCrosser_hasCrossingRelation_cond2 (containsCenterMatches_aClipped_l_aCrossingTarget : Bool) :
    RelateFns.loopCrosser_hasCrossingRelation_cond2 containsCenterMatches_aClipped_l_aCrossingTarget = (!containsCenterMatches_aClipped_l_aCrossingTarget) := rfl
theorem pin_loopCrosser_hasCrossingRelation_cond3 (bi_cellID : UInt64) (ai_rangeMax : UInt64) :
    RelateFns.loopCrosser_hasCrossingRelation_cond3 bi_cellID ai_rangeMax = (decide (bi_cellID ≤ ai_rangeMax)) := rfl
theorem pin_loopCrosser_hasCrossingRelation_cond4 (containsCenterMatches_bClipped_l_bCrossingTarget : Bool) :
    RelateFns.loopCrosser_hasCrossingRelation_cond4 containsCenterMatches_bClipped_l_bCrossingTarget = (containsCenterMatches_bClipped_l_bCrossingTarget) := rfl
theorem pin_hasCrossingRelation_cond0 (ai_done : Bool) (bi_done : Bool) :
    RelateFns.hasCrossingRelation_cond0 ai_done bi_done = ((!ai_done) || (!bi_done)) := rfl
theorem pin_hasCrossingRelation_cond1 (ai_rangeMax : UInt64) (bi_rangeMin : UInt64) :
    RelateFns.hasCrossingRelation_cond1 ai_rangeMax bi_rangeMin = (decide (ai_rangeMax < bi_rangeMin)) := rfl
theorem pin_hasCrossingRelation_cond2 (bi_rangeMax : UInt64) (ai_rangeMin : UInt64) :
    RelateFns.hasCrossingRelation_cond2 bi_rangeMax ai_rangeMin = (decide (bi_rangeMax < ai_rangeMin)) := rfl
theorem pin_hasCrossingRelation_val0 (ai_it_CellID : UInt64) (bi_it_CellID : UInt64) :
    RelateFns.hasCrossingRelation_val0 ai_it_CellID bi_it_CellID = (CellID.int64OfWord ((CellID.lsb ai_it_CellID) - (CellID.lsb bi_it_CellID))) := rfl
theorem pin_hasCrossingRelation_cond3 (abRelation : Int) :
    RelateFns.hasCrossingRelation_cond3 abRelation = (decide (abRelation > 0)) := rfl
theorem pin_hasCrossingRelation_cond4 (ab_hasCrossingRelation_ai_bi : Bool) :
    RelateFns.hasCrossingRelation_cond4 ab_hasCrossingRelation_ai_bi = (ab_hasCrossingRelation_ai_bi) := rfl
theorem pin_hasCrossingRelation_cond5 (abRelation : Int) :
    RelateFns.hasCrossingRelation_cond5 abRelation = (decide (abRelation < 0)) := rfl
theorem pin_hasCrossingRelation_cond6 (ba_hasCrossingRelation_bi_ai : Bool) :
    RelateFns.hasCrossingRelation_cond6 ba_hasCrossingRelation_bi_ai = (ba_hasCrossingRelation_bi_ai) := rfl
theorem pin_hasCrossingRelation_cond7 (containsCenterMatches_aClipped_ab_aCrossingTarget : Bool) (containsCenterMatches_bClipped_ab_bCrossingTarget : Bool) :
    RelateFns.hasCrossingRelation_cond7 containsCenterMatches_aClipped_ab_aCrossingTarget containsCenterMatches_bClipped_ab_bCrossingTarget = (containsCenterMatches_aClipped_ab_aCrossingTarget && containsCenterMatches_bClipped_ab_bCrossingTarget) := rfl
theorem pin_hasCrossingRelation_cond8 (aClipped_numEdges : Int) (bClipped_numEdges : Int) (ab_cellCrossesCell_aClipped_bClipped : Bool) :
    RelateFns.hasCrossingRelation_cond8 aClipped_numEdges bClipped_numEdges ab_cellCrossesCell_aClipped_bClipped = (((decide (aClipped_numEdges > 0)) && (decide (bClipped_numEdges > 0))) && ab_cellCrossesCell_aClipped_bClipped) := rfl
theorem pin_containsRelation_aCrossingTarget_val0 :
    RelateFns.containsRelation_aCrossingTarget_val0 = (RelateWalk.Target.dontCross) := rfl
theorem pin_containsRelation_bCrossingTarget_val0 :
    RelateFns.containsRelation_bCrossingTarget_val0 = (RelateWalk.Target.cross) := rfl
theorem pin_containsRelation_wedgesCross_val0 (a0 : α) (ab1 : α) (a2 : α) (b0 : α) (b2 : α) :
    RelateFns.containsRelation_wedgesCross_val0 G a0 ab1 a2 b0 b2 = (!(Relate.wedgeContains G a0 ab1 a2 b0 b2)) := rfl
theorem pin_intersectsRelation_aCrossingTarget_val0 :
    RelateFns.intersectsRelation_aCrossingTarget_val0 = (RelateWalk.Target.cross) := rfl
theorem pin_intersectsRelation_bCrossingTarget_val0 :
    RelateFns.intersectsRelation_bCrossingTarget_val0 = (RelateWalk.Target.cross) := rfl
theorem pin_intersectsRelation_wedgesCross_val0 (a0 : α) (ab1 : α) (a2 : α) (b0 : α) (b2 : α) :
    RelateFns.intersectsRelation_wedgesCross_val0 G a0 ab1 a2 b0 b2 = (Relate.wedgeIntersects G a0 ab1 a2 b0 b2) := rfl
theorem pin_compareBoundaryRelation_aCrossingTarget_val0 :
    RelateFns.compareBoundaryRelation_aCrossingTarget_val0 = (RelateWalk.Target.dontCare) := rfl
theorem pin_compareBoundaryRelation_bCrossingTarget_val0 :
    RelateFns.compareBoundaryRelation_bCrossingTarget_val0 = (RelateWalk.Target.dontCare) := rfl
theorem pin_compareBoundaryRelation_wedgesCross_cond0 (a0 : α) (ab1 : α) (a2 : α) (b2 : α) (c_reverse : Bool) :
    RelateFns.compareBoundaryRelation_wedgesCross_cond0 G a0 ab1 a2 b2 c_reverse = (Relate.wedgeContainsSemiwedge G a0 ab1 a2 b2 c_reverse) := rfl
theorem pin_compareBoundaryRelation_wedgesCross_val0 (c_containsEdge : Bool) (c_excludesEdge : Bool) :
    RelateFns.compareBoundaryRelation_wedgesCross_val0 c_containsEdge c_excludesEdge = (c_containsEdge && c_excludesEdge) := rfl
theorem pin_Loop_ContainsCell_cond0 (relation : Int) :
    RelateFns.Loop_ContainsCell_cond0 relation = (relation != 0) := rfl
theorem pin_Loop_ContainsCell_cond1 (l_boundaryApproxIntersects_it_target : Bool) :
    RelateFns.Loop_ContainsCell_cond1 l_boundaryApproxIntersects_it_target = (l_boundaryApproxIntersects_it_target) := rfl
theorem pin_Loop_IntersectsCell_cond0 (relation : Int) :
    RelateFns.Loop_IntersectsCell_cond0 relation = (relation == 2) := rfl
theorem pin_Loop_IntersectsCell_cond1 (relation : Int) :
    RelateFns.Loop_IntersectsCell_cond1 relation = (relation == 1) := rfl
theorem pin_Loop_IntersectsCell_cond2 (it_CellID : UInt64) (target_id : UInt64) :
    RelateFns.Loop_IntersectsCell_cond2 it_CellID target_id = (it_CellID == target_id) := rfl
theorem pin_Loop_IntersectsCell_cond3 (l_boundaryApproxIntersects_it_target : Bool) :
    RelateFns.Loop_IntersectsCell_cond3 l_boundaryApproxIntersects_it_target = (l_boundaryApproxIntersects_it_target) := rfl
theorem pin_Loop_boundaryApproxIntersects_cond0 (len_aClipped_edges : Int) :
    RelateFns.Loop_boundaryApproxIntersects_cond0 len_aClipped_edges = (len_aClipped_edges == 0) := rfl
theorem pin_Loop_boundaryApproxIntersects_cond1 (it_CellID : UInt64) (target_ID : UInt64) :
    RelateFns.Loop_boundaryApproxIntersects_cond1 it_CellID target_ID = (it_CellID == target_ID) := rfl
theorem pin_Loop_boundaryApproxIntersects_val0 (ai : Int) :
    RelateFns.Loop_boundaryApproxIntersects_val0 ai = (ai + 1) := rfl
theorem pin_Loop_boundaryApproxIntersects_cond2 (ok : Bool) (edgeIntersectsRect_v0_v1_bound : Bool) :
    RelateFns.Loop_boundaryApproxIntersects_cond2 ok edgeIntersectsRect_v0_v1_bound = (ok && edgeIntersectsRect_v0_v1_bound) := rfl
theorem pin_referencePointForShape_cond0 (shape_NumEdges : Int) :
    RelateFns.referencePointForShape_cond0 shape_NumEdges = (shape_NumEdges == 0) := rfl
theorem pin_referencePointForShape_val0 (shape_NumChains : Int) :
    RelateFns.referencePointForShape_val0 shape_NumChains = (decide (shape_NumChains > 0)) := rfl
theorem pin_referencePointForShape_cond1 (ok : Bool) :
    RelateFns.referencePointForShape_cond1 ok = (ok) := rfl
theorem pin_referencePointForShape_cond2 (i : Int) (n : Int) :
    RelateFns.referencePointForShape_cond2 i n = (decide (i < n)) := rfl
theorem pin_referencePointForShape_cond3 (i : Int) (n : Int) :
    RelateFns.referencePointForShape_cond3 i n = (decide (i < n)) := rfl
theorem pin_referencePointForShape_cond4 (edges_i_Cmp_revEdges_i : Int) :
    RelateFns.referencePointForShape_cond4 edges_i_Cmp_revEdges_i = (edges_i_Cmp_revEdges_i == (-1)) := rfl
theorem pin_referencePointForShape_cond5 (ok : Bool) :
    RelateFns.referencePointForShape_cond5 ok = (ok) := rfl
theorem pin_referencePointForShape_cond6 (revEdges_i_Cmp_edges_i : Int) :
    RelateFns.referencePointForShape_cond6 revEdges_i_Cmp_edges_i = (revEdges_i_Cmp_edges_i == (-1)) := rfl
theorem pin_referencePointForShape_cond7 (ok : Bool) :
    RelateFns.referencePointForShape_cond7 ok = (ok) := rfl
theorem pin_referencePointForShape_cond8 (i : Int) (shape_NumChains : Int) :
    RelateFns.referencePointForShape_cond8 i shape_NumChains = (decide (i < shape_NumChains)) := rfl
theorem pin_referencePointForShape_cond9 (shape_Chain_i_Length : Int) :
    RelateFns.referencePointForShape_cond9 shape_Chain_i_Length = (shape_Chain_i_Length == 0) := rfl
theorem pin_referencePointAtVertex_cond0 (e : Int) (n : Int) :
    RelateFns.referencePointAtVertex_cond0 e n = (decide (e < n)) := rfl
theorem pin_referencePointAtVertex_cond1 (edge_V0 : α) (vTest : α) :
    RelateFns.referencePointAtVertex_cond1 edge_V0 vTest = (decide (edge_V0 = vTest)) := rfl
theorem pin_referencePointAtVertex_cond2 (edge_V1 : α) (vTest : α) :
    RelateFns.referencePointAtVertex_cond2 edge_V1 vTest = (decide (edge_V1 = vTest)) := rfl
theorem pin_referencePointAtVertex_cond3 (containsSign : Int) :
    RelateFns.referencePointAtVertex_cond3 containsSign = (containsSign == 0) := rfl
theorem pin_referencePointAtVertex_val0 (containsSign : Int) :
    RelateFns.referencePointAtVertex_val0 containsSign = (decide (containsSign > 0)) := rfl
theorem pin_Polygon_Contains_cond0 (len_p_loops : Nat) (len_o_loops : Nat) :
    RelateFns.Polygon_Contains_cond0 len_p_loops len_o_loops = ((len_p_loops == 1) && (len_o_loops == 1)) := rfl
theorem pin_Polygon_Contains_cond1 (p_subregionBound_Contains_o_bound : Bool) :
    RelateFns.Polygon_Contains_cond1 p_subregionBound_Contains_o_bound = (!p_subregionBound_Contains_o_bound) := rfl
theorem pin_Polygon_Contains_cond2 (p_bound_Lng_Union_o_bound_Lng_IsFull : Bool) :
    RelateFns.Polygon_Contains_cond2 p_bound_Lng_Union_o_bound_Lng_IsFull = (!p_bound_Lng_Union_o_bound_Lng_IsFull) := rfl
theorem pin_Polygon_Contains_cond3 (p_hasHoles : Bool) (o_hasHoles : Bool) :
    RelateFns.Polygon_Contains_cond3 p_hasHoles o_hasHoles = ((!p_hasHoles) && (!o_hasHoles)) := rfl
theorem pin_Polygon_Contains_cond4 (p_anyLoopContains_l : Bool) :
    RelateFns.Polygon_Contains_cond4 p_anyLoopContains_l = (!p_anyLoopContains_l) := rfl
theorem pin_Polygon_Contains_val0 (p_containsBoundary_o : Bool) (o_excludesNonCrossingComplementShells_p : Bool) :
    RelateFns.Polygon_Contains_val0 p_containsBoundary_o o_excludesNonCrossingComplementShells_p = (p_containsBoundary_o && o_excludesNonCrossingComplementShells_p) := rfl
theorem pin_Polygon_Intersects_cond0 (len_p_loops : Nat) (len_o_loops : Nat) :
    RelateFns.Polygon_Intersects_cond0 len_p_loops len_o_loops = ((len_p_loops == 1) && (len_o_loops == 1)) := rfl
theorem pin_Polygon_Intersects_cond1 (p_bound_Intersects_o_bound : Bool) :
    RelateFns.Polygon_Intersects_cond1 p_bound_Intersects_o_bound = (!p_bound_Intersects_o_bound) := rfl
theorem pin_Polygon_Intersects_cond2 (p_hasHoles : Bool) (o_hasHoles : Bool) :
    RelateFns.Polygon_Intersects_cond2 p_hasHoles o_hasHoles = ((!p_hasHoles) && (!o_hasHoles)) := rfl
theorem pin_Polygon_Intersects_cond3 (p_anyLoopIntersects_l : Bool) :
    RelateFns.Polygon_Intersects_cond3 p_anyLoopIntersects_l = (p_anyLoopIntersects_l) := rfl
theorem pin_Polygon_Intersects_val0 (p_excludesBoundary_o : Bool) (o_excludesNonCrossingShells_p : Bool) :
    RelateFns.Polygon_Intersects_val0 p_excludesBoundary_o o_excludesNonCrossingShells_p = ((!p_excludesBoundary_o) || (!o_excludesNonCrossingShells_p)) := rfl
theorem pin_Polygon_compareBoundary_cond0 (i : Int) (len_p_loops : Int) (result : Int) :
    RelateFns.Polygon_compareBoundary_cond0 i len_p_loops result = ((decide (i < len_p_loops)) && (result != 0)) := rfl
theorem pin_Polygon_compareBoundary_val0 (p_loops_i_compareBoundary_o : Int) :
    RelateFns.Polygon_compareBoundary_val0 p_loops_i_compareBoundary_o = (-p_loops_i_compareBoundary_o) := rfl
theorem pin_Polygon_containsBoundary_cond0 (p_compareBoundary_l : Int) :
    RelateFns.Polygon_containsBoundary_cond0 p_compareBoundary_l = (decide (p_compareBoundary_l ≤ 0)) := rfl
theorem pin_Polygon_excludesBoundary_cond0 (p_compareBoundary_l : Int) :
    RelateFns.Polygon_excludesBoundary_cond0 p_compareBoundary_l = (decide (p_compareBoundary_l ≥ 0)) := rfl
theorem pin_Polygon_containsNonCrossingBoundary_val0 (inside : Bool) (x : Bool) :
    RelateFns.Polygon_containsNonCrossingBoundary_val0 inside x = (inside != x) := rfl
theorem pin_Polygon_excludesNonCrossingShells_cond0 (l_IsHole : Bool) :
    RelateFns.Polygon_excludesNonCrossingShells_cond0 l_IsHole = (l_IsHole) := rfl
theorem pin_Polygon_excludesNonCrossingShells_cond1 (p_containsNonCrossingBoundary_l_false : Bool) :
    RelateFns.Polygon_excludesNonCrossingShells_cond1 p_containsNonCrossingBoundary_l_false = (p_containsNonCrossingBoundary_l_false) := rfl
theorem pin_Polygon_excludesNonCrossingComplementShells_cond0 (o_IsEmpty : Bool) :
    RelateFns.Polygon_excludesNonCrossingComplementShells_cond0 o_IsEmpty = (o_IsEmpty) := rfl
theorem pin_Polygon_excludesNonCrossingComplementShells_val0 (p_IsFull : Bool) :
    RelateFns.Polygon_excludesNonCrossingComplementShells_val0 p_IsFull = (!p_IsFull) := rfl
theorem pin_Polygon_excludesNonCrossingComplementShells_cond1 (o_IsFull : Bool) :
    RelateFns.Polygon_excludesNonCrossingComplementShells_cond1 o_IsFull = (o_IsFull) := rfl
theorem pin_Polygon_excludesNonCrossingComplementShells_cond2 (j : Nat) (l_IsHole : Bool) :
    RelateFns.Polygon_excludesNonCrossingComplementShells_cond2 j l_IsHole = ((decide (j > 0)) && (!l_IsHole)) := rfl
theorem pin_Polygon_excludesNonCrossingComplementShells_val1 (j : Nat) :
    RelateFns.Polygon_excludesNonCrossingComplementShells_val1 j = (j == 0) := rfl
theorem pin_Polygon_excludesNonCrossingComplementShells_cond3 (p_containsNonCrossingBoundary_l_val1 : Bool) :
    RelateFns.Polygon_excludesNonCrossingComplementShells_cond3 p_containsNonCrossingBoundary_l_val1 = (p_containsNonCrossingBoundary_l_val1) := rfl
theorem pin_Polygon_anyLoopContains_cond0 (l_Contains_o : Bool) :
    RelateFns.Polygon_anyLoopContains_cond0 l_Contains_o = (l_Contains_o) := rfl
theorem pin_Polygon_anyLoopIntersects_cond0 (l_Intersects_o : Bool) :
    RelateFns.Polygon_anyLoopIntersects_cond0 l_Intersects_o = (l_Intersects_o) := rfl
theorem pin_Polygon_IsEmpty_val0 (len_p_loops : Nat) :
    RelateFns.Polygon_IsEmpty_val0 len_p_loops = (len_p_loops == 0) := rfl
theorem pin_Polygon_IsFull_val0 (len_p_loops : Nat) (p_loops_0_IsFull : Bool) :
    RelateFns.Polygon_IsFull_val0 len_p_loops p_loops_0_IsFull = ((len_p_loops == 1) && p_loops_0_IsFull) := rfl
theorem pin_Polygon_ContainsCell_cond0 (relation : Int) :
    RelateFns.Polygon_ContainsCell_cond0 relation = (relation != 0) := rfl
theorem pin_Polygon_ContainsCell_cond1 (p_boundaryApproxIntersects_it_cell : Bool) :
    RelateFns.Polygon_ContainsCell_cond1 p_boundaryApproxIntersects_it_cell = (p_boundaryApproxIntersects_it_cell) := rfl
theorem pin_Polygon_IntersectsCell_cond0 (relation : Int) :
    RelateFns.Polygon_IntersectsCell_cond0 relation = (relation == 2) := rfl
theorem pin_Polygon_IntersectsCell_cond1 (relation : Int) :
    RelateFns.Polygon_IntersectsCell_cond1 relation = (relation == 1) := rfl
theorem pin_Polygon_IntersectsCell_cond2 (it_CellID : UInt64) (cell_id : UInt64) :
    RelateFns.Polygon_IntersectsCell_cond2 it_CellID cell_id = (it_CellID == cell_id) := rfl
theorem pin_Polygon_IntersectsCell_cond3 (p_boundaryApproxIntersects_it_cell : Bool) :
    RelateFns.Polygon_IntersectsCell_cond3 p_boundaryApproxIntersects_it_cell = (p_boundaryApproxIntersects_it_cell) := rfl
theorem pin_Polygon_boundaryApproxIntersects_cond0 (len_aClipped_edges : Int) :
    RelateFns.Polygon_boundaryApproxIntersects_cond0 len_aClipped_edges = (len_aClipped_edges == 0) := rfl
theorem pin_Polygon_boundaryApproxIntersects_cond1 (it_CellID : UInt64) (cell_ID : UInt64) :
    RelateFns.Polygon_boundaryApproxIntersects_cond1 it_CellID cell_ID = (it_CellID == cell_ID) := rfl
theorem pin_Polygon_boundaryApproxIntersects_cond2 (ok : Bool) (edgeIntersectsRect_v0_v1_bound : Bool) :
    RelateFns.Polygon_boundaryApproxIntersects_cond2 ok edgeIntersectsRect_v0_v1_bound = (ok && edgeIntersectsRect_v0_v1_bound) := rfl
theorem pin_PolygonFromOrientedLoops_cond0 (angle : F64) (l_turningAngleMaxError : F64) :
    RelateFns.PolygonFromOrientedLoops_cond0 angle l_turningAngleMaxError = (F64.lt l_turningAngleMaxError (F64.abs angle)) := rfl
theorem pin_PolygonFromOrientedLoops_cond1 (angle : F64) :
    RelateFns.PolygonFromOrientedLoops_cond1 angle = (F64.lt angle (⟨0x0000000000000000⟩ : F64)) := rfl
theorem pin_PolygonFromOrientedLoops_cond2 (l_ContainsOrigin : Bool) :
    RelateFns.PolygonFromOrientedLoops_cond2 l_ContainsOrigin = (l_ContainsOrigin) := rfl
theorem pin_PolygonFromOrientedLoops_cond3 (p_NumLoops : Int) :
    RelateFns.PolygonFromOrientedLoops_cond3 p_NumLoops = (decide (p_NumLoops > 0)) := rfl
theorem pin_PolygonFromOrientedLoops_cond4 (l_ContainsOrigin : Bool) :
    RelateFns.PolygonFromOrientedLoops_cond4 l_ContainsOrigin = (l_ContainsOrigin) := rfl
theorem pin_PolygonFromOrientedLoops_val0 (polygonContainsOrigin : Bool) :
    RelateFns.PolygonFromOrientedLoops_val0 polygonContainsOrigin = (!polygonContainsOrigin) := rfl
theorem pin_PolygonFromOrientedLoops_cond5 (containedOrigin_originLoop : Bool) (polygonContainsOrigin : Bool) :
    RelateFns.PolygonFromOrientedLoops_cond5 containedOrigin_originLoop polygonContainsOrigin = (containedOrigin_originLoop != polygonContainsOrigin) := rfl
theorem pin_Polygon_Invert_cond0 (p_IsEmpty : Bool) :
    RelateFns.Polygon_Invert_cond0 p_IsEmpty = (p_IsEmpty) := rfl
theorem pin_Polygon_Invert_cond1 (p_IsFull : Bool) :
    RelateFns.Polygon_Invert_cond1 p_IsFull = (p_IsFull) := rfl
theorem pin_Polygon_Invert_cond2 (i : Int) (p_NumLoops : Int) :
    RelateFns.Polygon_Invert_cond2 i p_NumLoops = (decide (i < p_NumLoops)) := rfl
theorem pin_Polygon_Invert_cond3 (p_Loop_i_depth : Int) :
    RelateFns.Polygon_Invert_cond3 p_Loop_i_depth = (p_Loop_i_depth != 0) := rfl
theorem pin_Polygon_Invert_cond4 (bestAngle : F64) :
    RelateFns.Polygon_Invert_cond4 bestAngle = (F64.feq bestAngle (⟨0x4024000000000000⟩ : F64)) := rfl
theorem pin_Polygon_Invert_cond5 (angle : F64) (bestAngle : F64) (compareLoops_p_Loop_i_p_Loop_best : Int) :
    RelateFns.Polygon_Invert_cond5 angle bestAngle compareLoops_p_Loop_i_p_Loop_best = ((F64.lt angle bestAngle) || ((F64.feq angle bestAngle) && (decide (compareLoops_p_Loop_i_p_Loop_best < 0)))) := rfl
theorem pin_Polygon_Invert_cond6 (i : Int) (best : Int) (lastBest : Int) :
    RelateFns.Polygon_Invert_cond6 i best lastBest = ((decide (i < best)) || (decide (i > lastBest))) := rfl
theorem pin_Polygon_Invert_cond7 (i : Int) (best : Int) (lastBest : Int) :
    RelateFns.Polygon_Invert_cond7 i best lastBest = ((decide (i > best)) && (decide (i ≤ lastBest))) := rfl

/-- number of extracted conditions / values per function, in generation order -/
theorem counts_RelateFns :
    [(RelateFns.newRangeIterator_numConds, RelateFns.newRangeIterator_numVals), (RelateFns.rangeIterator_cellID_numConds, RelateFns.rangeIterator_cellID_numVals), (RelateFns.rangeIterator_indexCell_numConds, RelateFns.rangeIterator_indexCell_numVals), (RelateFns.rangeIterator_next_numConds, RelateFns.rangeIterator_next_numVals), (RelateFns.rangeIterator_done_numConds, RelateFns.rangeIterator_done_numVals), (RelateFns.rangeIterator_seekTo_numConds, RelateFns.rangeIterator_seekTo_numVals), (RelateFns.rangeIterator_seekBeyond_numConds, RelateFns.rangeIterator_seekBeyond_numVals), (RelateFns.rangeIterator_refresh_numConds, RelateFns.rangeIterator_refresh_numVals), (RelateFns.Loop_Contains_numConds, RelateFns.Loop_Contains_numVals), (RelateFns.Loop_Intersects_numConds, RelateFns.Loop_Intersects_numVals), (RelateFns.Loop_compareBoundary_numConds, RelateFns.Loop_compareBoundary_numVals), (RelateFns.Loop_ContainsNested_numConds, RelateFns.Loop_ContainsNested_numVals), (RelateFns.Loop_containsNonCrossingBoundary_numConds, RelateFns.Loop_containsNonCrossingBoundary_numVals), (RelateFns.Loop_findVertex_numConds, RelateFns.Loop_findVertex_numVals), (RelateFns.Loop_Vertex_numConds, RelateFns.Loop_Vertex_numVals), (RelateFns.Loop_IsEmpty_numConds, RelateFns.Loop_IsEmpty_numVals), (RelateFns.Loop_IsFull_numConds, RelateFns.Loop_IsFull_numVals), (RelateFns.Loop_isEmptyOrFull_numConds, RelateFns.Loop_isEmptyOrFull_numVals), (RelateFns.newLoopCrosser_numConds, RelateFns.newLoopCrosser_numVals), (RelateFns.loopCrosser_startEdge_numConds, RelateFns.loopCrosser_startEdge_numVals), (RelateFns.loopCrosser_edgeCrossesCell_numConds, RelateFns.loopCrosser_edgeCrossesCell_numVals), (RelateFns.loopCrosser_cellCrossesCell_numConds, RelateFns.loopCrosser_cellCrossesCell_numVals), (RelateFns.loopCrosser_cellCrossesAnySubcell_numConds, RelateFns.loopCrosser_cellCrossesAnySubcell_numVals), (RelateFns.loopCrosser_hasCrossing_numConds, RelateFns.loopCrosser_hasCrossing_numVals), (RelateFns.containsCenterMatches_numConds, RelateFns.containsCenterMatches_numVals), (RelateFns.loopCrosser_hasCrossingRelation_numConds, RelateFns.loopCrosser_hasCrossingRelation_numVals), (RelateFns.hasCrossingRelation_numConds, RelateFns.hasCrossingRelation_numVals), (RelateFns.containsRelation_aCrossingTarget_numConds, RelateFns.containsRelation_aCrossingTarget_numVals), (RelateFns.containsRelation_bCrossingTarget_numConds, RelateFns.containsRelation_bCrossingTarget_numVals), (RelateFns.containsRelation_wedgesCross_numConds, RelateFns.containsRelation_wedgesCross_numVals), (RelateFns.intersectsRelation_aCrossingTarget_numConds, RelateFns.intersectsRelation_aCrossingTarget_numVals), (RelateFns.intersectsRelation_bCrossingTarget_numConds, RelateFns.intersectsRelation_bCrossingTarget_numVals), (RelateFns.intersectsRelation_wedgesCross_numConds, RelateFns.intersectsRelation_wedgesCross_numVals), (RelateFns.newCompareBoundaryRelation_numConds, RelateFns.newCompareBoundaryRelation_numVals), (RelateFns.compareBoundaryRelation_aCrossingTarget_numConds, RelateFns.compareBoundaryRelation_aCrossingTarget_numVals), (RelateFns.compareBoundaryRelation_bCrossingTarget_numConds, RelateFns.compareBoundaryRelation_bCrossingTarget_numVals), (RelateFns.compareBoundaryRelation_wedgesCross_numConds, RelateFns.compareBoundaryRelation_wedgesCross_numVals), (RelateFns.Loop_ContainsCell_numConds, RelateFns.Loop_ContainsCell_numVals), (RelateFns.Loop_IntersectsCell_numConds, RelateFns.Loop_IntersectsCell_numVals), (RelateFns.Loop_boundaryApproxIntersects_numConds, RelateFns.Loop_boundaryApproxIntersects_numVals), (RelateFns.referencePointForShape_numConds, RelateFns.referencePointForShape_numVals), (RelateFns.referencePointAtVertex_numConds, RelateFns.referencePointAtVertex_numVals), (RelateFns.Polygon_Contains_numConds, RelateFns.Polygon_Contains_numVals), (RelateFns.Polygon_Intersects_numConds, RelateFns.Polygon_Intersects_numVals), (RelateFns.Polygon_compareBoundary_numConds, RelateFns.Polygon_compareBoundary_numVals), (RelateFns.Polygon_containsBoundary_numConds, RelateFns.Polygon_containsBoundary_numVals), (RelateFns.Polygon_excludesBoundary_numConds, RelateFns.Polygon_excludesBoundary_numVals), (RelateFns.Polygon_containsNonCrossingBoundary_numConds, RelateFns.Polygon_containsNonCrossingBoundary_numVals), (RelateFns.Polygon_excludesNonCrossingShells_numConds, RelateFns.Polygon_excludesNonCrossingShells_numVals), (RelateFns.Polygon_excludesNonCrossingComplementShells_numConds, RelateFns.Polygon_excludesNonCrossingComplementShells_numVals), (RelateFns.Polygon_anyLoopContains_numConds, RelateFns.Polygon_anyLoopContains_numVals), (RelateFns.Polygon_anyLoopIntersects_numConds, RelateFns.Polygon_anyLoopIntersects_numVals), (RelateFns.Polygon_IsEmpty_numConds, RelateFns.Polygon_IsEmpty_numVals), (RelateFns.Polygon_IsFull_numConds, RelateFns.Polygon_IsFull_numVals), (RelateFns.Polygon_ContainsCell_numConds, RelateFns.Polygon_ContainsCell_numVals), (RelateFns.Polygon_IntersectsCell_numConds, RelateFns.Polygon_IntersectsCell_numVals), (RelateFns.Polygon_boundaryApproxIntersects_numConds, RelateFns.Polygon_boundaryApproxIntersects_numVals), (RelateFns.PolygonFromOrientedLoops_numConds, RelateFns.PolygonFromOrientedLoops_numVals), (RelateFns.Polygon_Invert_numConds, RelateFns.Polygon_Invert_numVals)] =
    [(0, 0), (0, 0), (0, 0), (0, 0), (0, 0), (2, 0), (1, 1), (0, 2), (6, 1), (7, 0), (7, 0), (3, 4), (4, 3), (8, 3), (0, 1), (0, 1), (0, 1), (0, 1), (1, 0), (0, 1), (8, 9), (1, 0), (3, 1), (5, 0), (0, 1), (5, 0), (9, 1), (0, 1), (0, 1), (0, 1), (0, 1), (0, 1), (0, 1), (0, 0), (0, 1), (0, 1), (1, 1), (2, 0), (4, 0), (3, 1), (10, 1), (4, 1), (5, 1), (4, 1), (1, 1), (1, 0), (1, 0), (0, 1), (2, 0), (4, 2), (1, 0), (1, 0), (0, 1), (0, 1), (2, 0), (4, 0), (3, 0), (6, 1), (8, 0)] := rfl

end S2Proofs.Ties.C07_RelatePins
