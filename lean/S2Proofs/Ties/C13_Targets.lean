/-
  S2Proofs.Ties.C13_Targets — regenerated-instance obligations for the TARGET side of the C13 history model
  (`S2.History.Target`): what `findEdgesInternal` forwards to the target, and the bodies of the target methods the
  model abstracts (s2/min_distance_targets.go, s2/max_distance_targets.go).

  `S2.Generated.QueryOptsIR` (rewritten from the Go source on every run by translator_c19/query.go) now contains
   * in the event list of `findEdgesInternal` the event `tsetMaxError guards v` for the call
     `e.target.setMaxError(v)`: `guards` = the conditions under which the call is evaluated (enclosing `if`s, left
     operands of enclosing `&&` / `||`), `v` = `optsField f` when the argument is `<options parameter>.f`;
   * struct layout and statement skeleton of `setMaxError`, `capBound`, `maxBruteForceIndexSize` of the eight
     targets and of `setIncludeInteriors` / `setUseBruteForce` of the two index targets.

  The defect D49 (maxError forwarded only when non-zero) shows as a non-empty guard list
  (`["opts.maxError != target.distance().zero().chordAngle()"]` on /repo before 3519f3b) and stops the run of
  `Ties.C13.runEvs`; a cache in `capBound()` (seeded change C13_4) changes the field list and the skeleton of the
  index targets.
-/
import S2Proofs.Ties.C13
namespace S2Proofs.Ties.C13T
open S2 S2.History S2.Generated S2.Generated.QueryOptsIR S2Proofs.Ties.C13

/-! ### what reaches the target -/

/-- `findEdgesInternal`: after `e.opts = opts` the target's `setMaxError` is called UNCONDITIONALLY with the
    `maxError` field of the options parameter — and nothing else is written to the target -/
theorem tie_findEdgesInternal_events :
    QueryOptsIR.findEdgesInternal_events = [.store .param, .tsetMaxError [] (.optsField .maxError)] := rfl

/-- for every kind of public call and all caller options: exactly one value reaches `target.setMaxError`, the
    `maxError` of the effective options `k.override o` (0 stays 0, threshold calls forward π) -/
theorem tie_setMaxError_value (k : QKind) (o : Opts) :
    (runCall k o).map (·.tmax) = some [(k.override o).maxError] := by
  cases k <;> rfl

/-- … which is the `d49 = true` reading of the hand model: the target's inner `maxError` after the call is the
    forwarded value, whatever it held before -/
theorem tie_Target_setMaxError (t : Target) (k : QKind) (o : Opts) :
    ∃ m e, runCall k o = some m ∧ m.tmax = [e] ∧ (t.setMaxError Fixes.all e).inner.maxError = (k.override o).maxError := by
  have h := tie_setMaxError_value k o
  cases hr : runCall k o with
  | none => rw [hr] at h; cases h
  | some m =>
    rw [hr] at h
    simp only [Option.map, Option.some.injEq] at h
    exact ⟨m, _, rfl, h, by simp [Target.setMaxError, Target.inner, Fixes.all]⟩

/-- the guarded form (the tree before 3519f3b) has no run: the tie would fail -/
example : runEvs 8 [.store .param, .tsetMaxError ["opts.maxError != target.distance().zero().chordAngle()"] (.optsField .maxError)]
    ⟨some 0, none, [], []⟩ ⟨[Opts.default], 0, [], []⟩ = none := rfl

/-! ### the index targets: setters write exactly one field of the inner option record, nothing is cached -/

theorem tie_MinIdx_fields : QueryOptsIR.MinDistanceToShapeIndexTarget_fields =
    "index *s2.ShapeIndex; query *s2.EdgeQuery; dist s2.distance" := rfl
theorem tie_MaxIdx_fields : QueryOptsIR.MaxDistanceToShapeIndexTarget_fields =
    "index *s2.ShapeIndex; query *s2.EdgeQuery; dist s2.distance" := rfl

/-- `setMaxError`: field `maxError` of `m.query.opts`, value = the argument, result true
    (`Target.setMaxError`, `TOpts.maxError`) -/
theorem tie_MinIdx_setMaxError : QueryOptsIR.MinDistanceToShapeIndexTarget_setMaxError_shape =
    "m.query.opts.maxError = maxErr; return true" := rfl
theorem tie_MaxIdx_setMaxError : QueryOptsIR.MaxDistanceToShapeIndexTarget_setMaxError_shape =
    "m.query.opts.maxError = maxErr; return true" := rfl
/-- `setIncludeInteriors` / `setUseBruteForce` (`Target.configure`) -/
theorem tie_MinIdx_setIncludeInteriors : QueryOptsIR.MinDistanceToShapeIndexTarget_setIncludeInteriors_shape =
    "m.query.opts.includeInteriors = b" := rfl
theorem tie_MaxIdx_setIncludeInteriors : QueryOptsIR.MaxDistanceToShapeIndexTarget_setIncludeInteriors_shape =
    "m.query.opts.includeInteriors = b" := rfl
theorem tie_MinIdx_setUseBruteForce : QueryOptsIR.MinDistanceToShapeIndexTarget_setUseBruteForce_shape =
    "m.query.opts.useBruteForce = b" := rfl
theorem tie_MaxIdx_setUseBruteForce : QueryOptsIR.MaxDistanceToShapeIndexTarget_setUseBruteForce_shape =
    "m.query.opts.useBruteForce = b" := rfl

/-- the hand model's setters write the same three fields and nothing else -/
theorem tie_Target_setters (t : Target) (e : Lim) (ii bf : Bool) :
    (t.setMaxError Fixes.all e).inner = { t.inner with maxError := e } ∧
    (t.configure ii bf).inner = { t.inner with includeInteriors := ii, useBruteForce := bf } ∧
    (t.setMaxError Fixes.all e).idx = t.idx ∧ (t.configure ii bf).idx = t.idx ∧
    (t.setMaxError Fixes.all e).q.covering = t.q.covering ∧ (t.setMaxError Fixes.all e).q.numEdges = t.q.numEdges := by
  simp [Target.setMaxError, Target.configure, Target.inner, Fixes.all]

/-- `capBound()` of the index targets is recomputed from the index on every call (`findEdgesT`: `cap` = the cells of
    the target's index after `maybeApplyUpdates`): no condition, no stored value -/
theorem tie_MinIdx_capBound : QueryOptsIR.MinDistanceToShapeIndexTarget_capBound_shape =
    "return m.index.Region().CapBound()" ∧ QueryOptsIR.MinDistanceToShapeIndexTarget_capBound_numConds = 0 := ⟨rfl, rfl⟩
theorem tie_MaxIdx_capBound : QueryOptsIR.MaxDistanceToShapeIndexTarget_capBound_shape =
    "c := m.index.Region().CapBound(); return CapFromCenterAngle(Point{c.Center().Mul(-1)}, c.Radius())" ∧
    QueryOptsIR.MaxDistanceToShapeIndexTarget_capBound_numConds = 0 := ⟨rfl, rfl⟩

/-- `maxBruteForceIndexSize()`: `TKind.thr` (min-distance targets) -/
theorem tie_thr :
    QueryOptsIR.MinDistanceToPointTarget_maxBruteForceIndexSize_shape = "return " ++ toString TKind.point.thr ∧
    QueryOptsIR.MinDistanceToEdgeTarget_maxBruteForceIndexSize_shape = "return " ++ toString TKind.edge.thr ∧
    QueryOptsIR.MinDistanceToCellTarget_maxBruteForceIndexSize_shape = "return " ++ toString TKind.cell.thr ∧
    QueryOptsIR.MinDistanceToShapeIndexTarget_maxBruteForceIndexSize_shape = "return " ++ toString TKind.index.thr := by
  decide
/-- the max-distance targets (not in the hand model) -/
theorem tie_thr_max :
    QueryOptsIR.MaxDistanceToPointTarget_maxBruteForceIndexSize_shape = "return 30" ∧
    QueryOptsIR.MaxDistanceToEdgeTarget_maxBruteForceIndexSize_shape = "return 30" ∧
    QueryOptsIR.MaxDistanceToCellTarget_maxBruteForceIndexSize_shape = "return 30" ∧
    QueryOptsIR.MaxDistanceToShapeIndexTarget_maxBruteForceIndexSize_shape = "return 30" := ⟨rfl, rfl, rfl, rfl⟩

/-! ### the stateless targets: no state at all (`eqCallT`: nothing of the target is read or written) -/

theorem tie_stateless_fields :
    QueryOptsIR.MinDistanceToPointTarget_fields = "point s2.Point; dist s2.distance" ∧
    QueryOptsIR.MinDistanceToEdgeTarget_fields = "e s2.Edge; dist s2.distance" ∧
    QueryOptsIR.MinDistanceToCellTarget_fields = "cell s2.Cell; dist s2.distance" ∧
    QueryOptsIR.MaxDistanceToPointTarget_fields = "point s2.Point; dist s2.distance" ∧
    QueryOptsIR.MaxDistanceToEdgeTarget_fields = "e s2.Edge; dist s2.distance" ∧
    QueryOptsIR.MaxDistanceToCellTarget_fields = "cell s2.Cell; dist s2.distance" := ⟨rfl, rfl, rfl, rfl, rfl, rfl⟩

/-- `setMaxError` of the six stateless targets: `return false`, nothing written -/
theorem tie_stateless_setMaxError :
    QueryOptsIR.MinDistanceToPointTarget_setMaxError_shape = "return false" ∧
    QueryOptsIR.MinDistanceToEdgeTarget_setMaxError_shape = "return false" ∧
    QueryOptsIR.MinDistanceToCellTarget_setMaxError_shape = "return false" ∧
    QueryOptsIR.MaxDistanceToPointTarget_setMaxError_shape = "return false" ∧
    QueryOptsIR.MaxDistanceToEdgeTarget_setMaxError_shape = "return false" ∧
    QueryOptsIR.MaxDistanceToCellTarget_setMaxError_shape = "return false" := ⟨rfl, rfl, rfl, rfl, rfl, rfl⟩

/-- `capBound()` of the stateless targets: a function of the target's value only -/
theorem tie_stateless_capBound :
    QueryOptsIR.MinDistanceToPointTarget_capBound_shape = "return CapFromCenterChordAngle(m.point, s1.ChordAngle(0))" ∧
    QueryOptsIR.MinDistanceToCellTarget_capBound_shape = "return m.cell.CapBound()" ∧
    QueryOptsIR.MinDistanceToEdgeTarget_capBound_shape =
      "d2 := float64(ChordAngleBetweenPoints(m.e.V0, m.e.V1)); r2 := val0; return CapFromCenterChordAngle(Point{m.e.V0.Add(m.e.V1.Vector).Normalize()}, s1.ChordAngleFromSquaredLength(r2))" ∧
    QueryOptsIR.MaxDistanceToPointTarget_capBound_shape = "return CapFromCenterChordAngle(Point{m.point.Mul(-1)}, s1.ChordAngle(0))" ∧
    QueryOptsIR.MaxDistanceToCellTarget_capBound_shape =
      "c := m.cell.CapBound(); return CapFromCenterAngle(Point{c.Center().Mul(-1)}, c.Radius())" ∧
    QueryOptsIR.MaxDistanceToEdgeTarget_capBound_shape =
      "d2 := float64(ChordAngleBetweenPoints(m.e.V0, m.e.V1)); r2 := val0; return CapFromCenterChordAngle(Point{m.e.V0.Add(m.e.V1.Vector).Mul(-1).Normalize()}, s1.ChordAngleFromSquaredLength(r2))" :=
  ⟨rfl, rfl, rfl, rfl, rfl, rfl⟩

end S2Proofs.Ties.C13T
