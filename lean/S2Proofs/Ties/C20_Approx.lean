/-
  S2Proofs.Ties.C20_Approx — regenerated-instance obligations for s2/polyline.go (subsampling), s2/edge_tessellator.go,
  s2/projections.go (wrapping, interpolation) and s2/builder_snapper.go (radius / level / exponent arithmetic).

  `S2.Generated.ApproxFns.*` is rewritten from the Go source on every run by translator_c10 (skeleton extraction over the
  bit-exact soft-float).  The hand model `S2.Approx` is tied where it is concrete: the guards of `findEndVertex`, the
  loop of `SubsampleVertices`, the acceptance test / midpoint / recursion skeleton of the tessellator, `wrapDestination`,
  `Interpolate`, `scaledToleranceArg`, `minSnapRadiusForLevel`, `levelForMaxSnapRadius`, `minSnapRadiusForExponent`, the
  degree arithmetic of `IntLatLngSnapper.SnapPoint`.  The separation formulas of the snappers (`MinVertexSeparation`,
  `MinEdgeVertexSeparation`, `MaxEdgeDeviation`, `exponentForMaxSnapRadius`, `estimateMaxError`) have no model
  counterpart: they are pinned by their Go source text (`…_exprs`) and by the shape strings.
-/
import S2.Approx
import S2.Generated.ApproxFns
namespace S2Proofs.Ties.C20Approx
open S2 S2.Approx S2.Generated S2.Generated.ApproxFns

/-! ### statement structure of every translated function -/
theorem tie_findEndVertex_shape : findEndVertex_shape =
    "origin := p[index]; frame := getFrame(origin); currentWedge := s1.FullInterval(); var lastDistance s1.Angle; for[index++] cond0⟨index; len(p)⟩ [index++] {candidate := p[index]; distance := origin.Distance(candidate); if cond1⟨distance; lastDistance⟩ {break}; if cond2⟨distance; lastDistance; tolerance⟩ {break}; lastDistance = distance; if cond3⟨distance; tolerance⟩ {continue}; direction := toFrame(frame, candidate); center := math.Atan2(direction.Y, direction.X); if cond4⟨currentWedge.Contains(center)⟩ {break}; halfAngle := math.Asin(val0⟨math.Sin(tolerance.Radians()); math.Sin(distance.Radians())⟩); target := s1.IntervalFromPointPair(center, center).Expanded(halfAngle); currentWedge = currentWedge.Intersection(target)}; return val1⟨index⟩" := rfl
theorem tie_SubsampleVertices_shape : SubsampleVertices_shape =
    "var result []int; if cond0⟨len(*p)⟩ {return result}; result = append(result, 0); clampedTolerance := val0⟨tolerance⟩; for[index := 0] cond1⟨index; len(*p)⟩ {nextIndex := findEndVertex(*p, clampedTolerance, index); if cond2⟨(*p)[nextIndex]; (*p)[index]⟩ {result = append(result, nextIndex)}; index = nextIndex}; return result" := rfl
theorem tie_NewEdgeTessellator_shape : NewEdgeTessellator_shape =
    "return &EdgeTessellator{projection: p, scaledTolerance: s1.ChordAngleFromAngle(val0⟨maxAngle(tolerance, minTessellationTolerance)⟩)}" := rfl
theorem tie_AppendProjected_shape : AppendProjected_shape =
    "pa := e.projection.Project(a); if cond0⟨len(vertices)⟩ {vertices = []r2.Point{pa}} else {pa = e.projection.WrapDestination(vertices[val0⟨len(vertices)⟩], pa)}; pb := e.projection.Project(b); return e.appendProjected(pa, a, pb, b, vertices)" := rfl
theorem tie_appendProjected_shape : appendProjected_shape =
    "pb := e.projection.WrapDestination(pa, pbIn); if cond0⟨e.estimateMaxError(pa, a, pb, b); e.scaledTolerance⟩ {return append(vertices, pb)}; mid := val0⟨a; b⟩; pmid := e.projection.WrapDestination(pa, e.projection.Project(mid)); vertices = e.appendProjected(pa, a, pmid, mid, vertices); return e.appendProjected(vertices[val1⟨len(vertices)⟩], mid, pb, b, vertices)" := rfl
theorem tie_AppendUnprojected_shape : AppendUnprojected_shape =
    "a := e.projection.Unproject(pa); b := e.projection.Unproject(pb); if cond0⟨len(vertices)⟩ {vertices = []Point{a}}; return e.appendUnprojected(pa, a, pb, b, vertices)" := rfl
theorem tie_appendUnprojected_shape : appendUnprojected_shape =
    "pb := e.projection.WrapDestination(pa, pbIn); if cond0⟨e.estimateMaxError(pa, a, pb, b); e.scaledTolerance⟩ {return append(vertices, b)}; pmid := e.projection.Interpolate(0.5, pa, pb); mid := e.projection.Unproject(pmid); vertices = e.appendUnprojected(pa, a, pmid, mid, vertices); return e.appendUnprojected(pmid, mid, pb, b, vertices)" := rfl
theorem tie_estimateMaxError_shape : estimateMaxError_shape =
    "if cond0⟨a; b⟩ {return s1.InfChordAngle()}; t1 := tessellationInterpolationFraction; t2 := 1 - tessellationInterpolationFraction; mid1 := Interpolate(t1, a, b); mid2 := Interpolate(t2, a, b); pmid1 := e.projection.Unproject(e.projection.Interpolate(t1, pa, pb)); pmid2 := e.projection.Unproject(e.projection.Interpolate(t2, pa, pb)); return maxChordAngle(ChordAngleBetweenPoints(mid1, pmid1), ChordAngleBetweenPoints(mid2, pmid2))" := rfl
theorem tie_PlateCarree_Interpolate_shape : PlateCarree_Interpolate_shape =
    "return a.Mul(val0⟨f⟩).Add(b.Mul(f))" := rfl
theorem tie_PlateCarree_WrapDestination_shape : PlateCarree_WrapDestination_shape =
    "return wrapDestination(a, b, p.WrapDistance)" := rfl
theorem tie_Mercator_Interpolate_shape : Mercator_Interpolate_shape =
    "return a.Mul(val0⟨f⟩).Add(b.Mul(f))" := rfl
theorem tie_Mercator_WrapDestination_shape : Mercator_WrapDestination_shape =
    "return wrapDestination(a, b, p.WrapDistance)" := rfl
theorem tie_wrapDestination_shape : wrapDestination_shape =
    "wrap := wrapDistance(); x := b.X; y := b.Y; if cond0⟨wrap.X; x; a.X⟩ {x = val1⟨a.X; math.Remainder(val0⟨x; a.X⟩, wrap.X)⟩}; if cond1⟨wrap.Y; y; a.Y⟩ {y = val3⟨a.Y; math.Remainder(val2⟨y; a.Y⟩, wrap.Y)⟩}; return r2.Point{X: x, Y: y}" := rfl
theorem tie_CellIDSnapperForLevel_shape : CellIDSnapperForLevel_shape =
    "sf := CellIDSnapper{level: level}; sf.snapRadius = sf.minSnapRadiusForLevel(level); return sf" := rfl
theorem tie_CellID_minSnapRadiusForLevel_shape : CellID_minSnapRadiusForLevel_shape =
    "return val0⟨MaxDiagMetric.Value(level)⟩" := rfl
theorem tie_CellID_levelForMaxSnapRadius_shape : CellID_levelForMaxSnapRadius_shape =
    "return MaxDiagMetric.MinLevel(val0⟨snapRadius⟩)" := rfl
theorem tie_CellID_MaxEdgeDeviation_shape : CellID_MaxEdgeDeviation_shape =
    "return val0⟨sf.snapRadius⟩" := rfl
theorem tie_CellID_MinVertexSeparation_shape : CellID_MinVertexSeparation_shape =
    "minEdge := s1.Angle(MinEdgeMetric.Value(sf.level)); maxDiag := s1.Angle(MaxDiagMetric.Value(sf.level)); return maxAngle(minEdge, maxAngle(val0⟨sf.snapRadius⟩, val1⟨sf.snapRadius; maxDiag⟩))" := rfl
theorem tie_CellID_MinEdgeVertexSeparation_shape : CellID_MinEdgeVertexSeparation_shape =
    "minDiag := s1.Angle(MinDiagMetric.Value(sf.level)); if cond0⟨sf.snapRadius; sf.minSnapRadiusForLevel(sf.level)⟩ {return val0⟨minDiag⟩}; vertexSep := sf.MinVertexSeparation(); return maxAngle(val1⟨minDiag⟩, maxAngle(val2⟨sf.snapRadius⟩, val3⟨vertexSep; sf.snapRadius⟩))" := rfl
theorem tie_CellID_SnapPoint_shape : CellID_SnapPoint_shape =
    "return val0⟨CellFromPoint(point).id; sf.level⟩.Point()" := rfl
theorem tie_NewIntLatLngSnapper_shape : NewIntLatLngSnapper_shape =
    "power := s1.Angle(math.Pow10(exponent)); sf := IntLatLngSnapper{exponent: exponent, from: power, to: val0⟨power⟩}; sf.snapRadius = sf.minSnapRadiusForExponent(exponent); return sf" := rfl
theorem tie_IntLatLng_minSnapRadiusForExponent_shape : IntLatLng_minSnapRadiusForExponent_shape =
    "power := math.Pow10(exponent); return (val0⟨power⟩)" := rfl
theorem tie_IntLatLng_exponentForMaxSnapRadius_shape : IntLatLng_exponentForMaxSnapRadius_shape =
    "snapRadius -= (9 * math.Sqrt2 + 1.5) * dblEpsilon; snapRadius = val0⟨snapRadius⟩; exponent := math.Log10(val1⟨snapRadius.Degrees()⟩); return maxInt(minIntSnappingExponent, minInt(maxIntSnappingExponent, val3⟨math.Ceil(val2⟨exponent⟩)⟩))" := rfl
theorem tie_IntLatLng_MaxEdgeDeviation_shape : IntLatLng_MaxEdgeDeviation_shape =
    "return val0⟨sf.snapRadius⟩" := rfl
theorem tie_IntLatLng_MinVertexSeparation_shape : IntLatLng_MinVertexSeparation_shape =
    "return maxAngle(val0⟨sf.snapRadius⟩, val1⟨sf.snapRadius; sf.to⟩)" := rfl
theorem tie_IntLatLng_MinEdgeVertexSeparation_shape : IntLatLng_MinEdgeVertexSeparation_shape =
    "vertexSep := sf.MinVertexSeparation(); return maxAngle(val0⟨sf.to⟩, maxAngle(val1⟨sf.snapRadius⟩, val2⟨vertexSep; sf.snapRadius⟩))" := rfl
theorem tie_IntLatLng_SnapPoint_shape : IntLatLng_SnapPoint_shape =
    "input := LatLngFromPoint(point); lat := math.Round(val0⟨input.Lat.Degrees(); sf.from⟩); lng := math.Round(val1⟨input.Lng.Degrees(); sf.from⟩); return PointFromLatLng(LatLngFromDegrees(val2⟨lat; sf.to⟩, val3⟨lng; sf.to⟩))" := rfl
theorem tie_Identity_MaxEdgeDeviation_shape : Identity_MaxEdgeDeviation_shape =
    "return val0⟨sf.snapRadius⟩" := rfl
theorem tie_Identity_MinVertexSeparation_shape : Identity_MinVertexSeparation_shape =
    "return sf.snapRadius" := rfl
theorem tie_Identity_MinEdgeVertexSeparation_shape : Identity_MinEdgeVertexSeparation_shape =
    "return val0⟨sf.snapRadius⟩" := rfl
theorem tie_Identity_SnapPoint_shape : Identity_SnapPoint_shape =
    "return point" := rfl

/-! ### source-text pins of the expressions without a model counterpart -/
theorem pin_CellID_MaxEdgeDeviation_exprs : CellID_MaxEdgeDeviation_exprs =
    "val0: maxEdgeDeviationRatio * sf.snapRadius" := rfl
theorem pin_CellID_MinVertexSeparation_exprs : CellID_MinVertexSeparation_exprs =
    "val0: s1.Angle(2/math.Sqrt(13)) * sf.snapRadius | val1: sf.snapRadius - 0.5*maxDiag" := rfl
theorem pin_CellID_MinEdgeVertexSeparation_exprs : CellID_MinEdgeVertexSeparation_exprs =
    "cond0: sf.snapRadius == sf.minSnapRadiusForLevel(sf.level) | val0: 0.565 * minDiag | val1: s1.Angle(math.Sqrt(3.0/19.0)) * minDiag | val2: s1.Angle(2*math.Sqrt(3.0/247.0)) * sf.snapRadius | val3: 0.5 * (vertexSep / sf.snapRadius) * vertexSep" := rfl
theorem pin_IntLatLng_exponentForMaxSnapRadius_exprs : IntLatLng_exponentForMaxSnapRadius_exprs =
    "val0: s1.Angle(math.Max(float64(snapRadius), 1e-30)) | val1: (1 / math.Sqrt2) / snapRadius.Degrees() | val2: exponent - 2*dblEpsilon | val3: int(math.Ceil(exponent - 2*dblEpsilon))" := rfl
theorem pin_IntLatLng_MaxEdgeDeviation_exprs : IntLatLng_MaxEdgeDeviation_exprs =
    "val0: maxEdgeDeviationRatio * sf.snapRadius" := rfl
theorem pin_IntLatLng_MinVertexSeparation_exprs : IntLatLng_MinVertexSeparation_exprs =
    "val0: (math.Sqrt2 / 3) * sf.snapRadius | val1: sf.snapRadius - s1.Degree*s1.Angle(1/math.Sqrt2)*sf.to" := rfl
theorem pin_IntLatLng_MinEdgeVertexSeparation_exprs : IntLatLng_MinEdgeVertexSeparation_exprs =
    "val0: s1.Angle(1/math.Sqrt(13)) * s1.Degree * sf.to | val1: (2.0 / 9.0) * sf.snapRadius | val2: 0.5 * (vertexSep / sf.snapRadius) * vertexSep" := rfl
theorem pin_Identity_MaxEdgeDeviation_exprs : Identity_MaxEdgeDeviation_exprs =
    "val0: maxEdgeDeviationRatio * sf.snapRadius" := rfl
theorem pin_Identity_MinEdgeVertexSeparation_exprs : Identity_MinEdgeVertexSeparation_exprs =
    "val0: 0.5 * sf.snapRadius" := rfl
theorem pin_estimateMaxError_exprs : estimateMaxError_exprs =
    "cond0: a.Dot(b.Vector) < -1e-14" := rfl
theorem pin_findEndVertex_exprs : findEndVertex_exprs =
    "cond0: index < len(p) | cond1: distance > math.Pi/2 && lastDistance > 0 | cond2: distance < lastDistance && lastDistance > tolerance | cond3: distance <= tolerance | cond4: !currentWedge.Contains(center) | val0: math.Sin(tolerance.Radians()) / math.Sin(distance.Radians()) | val1: index - 1" := rfl

/-! ### findEndVertex, SubsampleVertices -/

/-- one iteration of `for index++; index < len(p); index++ { … }`: the four guards in the Go order -/
theorem tie_fevLoop_step {W : Type} (G : FEVGeom W) (n : Nat) (tol : F64) (origin fuel index : Nat) (w : W) (last : F64) :
    fevLoop G n tol origin (fuel + 1) index w last =
      if findEndVertex_cond0 (index : Int) (n : Int) then
        let d := G.dist origin index
        if findEndVertex_cond1 d last then index
        else if findEndVertex_cond2 d last tol then index
        else if findEndVertex_cond3 d tol then fevLoop G n tol origin fuel (index + 1) w d
        else if findEndVertex_cond4 (G.inWedge w origin index) then index
        else fevLoop G n tol origin fuel (index + 1) (G.restrict w origin index tol d) d
      else index := by
  have h : (((index : Int) < (n : Int))) ↔ (index < n) := by omega
  simp only [fevLoop, findEndVertex_cond0, decide_eq_true_eq, h]
  rfl

/-- "back up by one vertex": `return index - 1` -/
theorem tie_findEndVertex {W : Type} (G : FEVGeom W) (n : Nat) (tol : F64) (index : Nat) :
    ((Approx.findEndVertex G n tol index : Nat) : Int) =
      (findEndVertex_val1 ((fevLoop G n tol index n (index + 1) G.full fzero : Nat) : Int)).toNat := by
  simp only [Approx.findEndVertex, findEndVertex_val1]
  omega

theorem tie_subsampleFrom_step (n : Nat) (fev : Nat → Nat) (p : Nat → V3) (fuel index : Nat) :
    subsampleFrom n fev (fun i j => V3.feq (p i) (p j)) (fuel + 1) index =
      if SubsampleVertices_cond1 (index : Int) (n : Int) then
        let next := fev index
        (if SubsampleVertices_cond2 (p next) (p index) then [next] else []) ++
          subsampleFrom n fev (fun i j => V3.feq (p i) (p j)) fuel next
      else [] := by
  rw [subsampleFrom]
  unfold SubsampleVertices_cond1 SubsampleVertices_cond2
  by_cases hlt : index + 1 < n
  · have h' : ((index : Int) + 1 < (n : Int)) := by omega
    rw [if_pos hlt, if_pos (decide_eq_true h')]
    show (if V3.feq (p (fev index)) (p index) = true then [] else [fev index]) ++ _ =
      (if (!V3.feq (p (fev index)) (p index)) = true then [fev index] else []) ++ _
    cases V3.feq (p (fev index)) (p index) <;> rfl
  · have h' : ¬ ((index : Int) + 1 < (n : Int)) := by omega
    rw [if_neg hlt, if_neg (by simpa using h')]

theorem tie_subsampleVertices (n : Nat) (fev : Nat → Nat) (same : Nat → Nat → Bool) :
    subsampleVertices n fev same =
      if SubsampleVertices_cond0 (n : Int) then [] else 0 :: subsampleFrom n fev same n 0 := by
  have h : (((n : Int) < 1)) ↔ (n < 1) := by omega
  simp only [subsampleVertices, SubsampleVertices_cond0, decide_eq_true_eq, h]

/-- `clampedTolerance := s1.Angle(math.Max(tolerance.Radians(), 0))` -/
theorem tie_clampedTolerance (t : F64) : SubsampleVertices_val0 t = F64.fmax t fzero := rfl

/-! ### EdgeTessellator -/

theorem tie_scaledToleranceArg (tol : F64) :
    scaledToleranceArg tol = NewEdgeTessellator_val0 (maxAngle tol minTessellationTolerance) := rfl

/-- the tessellator operations assembled from the regenerated pieces: `est` = `estimateMaxError` (libm), the rest of
    the projection abstract -/
def genTessOps {P : Type} (project : V3 → P) (unproject : P → V3) (wrapDest interpHalf : P → P → P)
    (est : P → V3 → P → V3 → F64) (scaledTolerance : F64) : TessOps V3 P :=
  { project := project, unproject := unproject, wrapDest := wrapDest, interpHalf := interpHalf,
    midpoint := fun a b => appendProjected_val0 a b,
    accept := fun pa a pb b => appendProjected_cond0 (est pa a pb b) scaledTolerance }

/-- `appendProjected`: accept test, spherical midpoint `Point{a.Add(b.Vector).Normalize()}`, left half, then the right
    half from `vertices[len(vertices)-1]` -/
theorem tie_appendProjected_step {P : Type} (O : TessOps V3 P) (fuel : Nat) (pa : P) (a : V3) (pbIn : P) (b : V3) (vertices : List P) :
    Approx.appendProjected O (fuel + 1) pa a pbIn b vertices =
      let pb := O.wrapDest pa pbIn
      if O.accept pa a pb b then some (vertices ++ [pb])
      else
        let mid := O.midpoint a b
        let pmid := O.wrapDest pa (O.project mid)
        match Approx.appendProjected O fuel pa a pmid mid vertices with
        | some vs =>
          match vs.getLast? with
          | some last => Approx.appendProjected O fuel last mid pb b vs
          | none => none
        | none => none := rfl
theorem tie_tess_midpoint (a b : V3) : appendProjected_val0 a b = (V3.add a b).normalize := rfl
theorem tie_tess_last_index (vs : List V3) (h : vs ≠ []) :
    vs.getLast? = vs[(appendProjected_val1 (vs.length : Int)).toNat]? := by
  have : ((vs.length : Int) - 1).toNat = vs.length - 1 := by omega
  simp [appendProjected_val1, this, List.getLast?_eq_getElem?]
theorem tie_AppendProjected_last_index (vs : List V3) :
    vs.getLast? = vs[(AppendProjected_val0 (vs.length : Int)).toNat]? := by
  have : ((vs.length : Int) - 1).toNat = vs.length - 1 := by omega
  simp [AppendProjected_val0, this, List.getLast?_eq_getElem?]
theorem tie_accept_same : appendUnprojected_cond0 = appendProjected_cond0 := rfl
theorem tie_AppendProjected_first (n : Nat) : AppendProjected_cond0 (n : Int) = (n == 0) ∧ AppendUnprojected_cond0 (n : Int) = (n == 0) := by
  have h : (((n : Int) == 0)) = (n == 0) := by
    cases n with
    | zero => rfl
    | succ k => simp; omega
  exact ⟨h, h⟩

/-! ### projections: wrapping, interpolation -/

/-- one coordinate of `wrapDestination` (x and y are mirrors) -/
theorem tie_wrapCoord (a x w : F64) :
    wrapCoord a x w =
      if wrapDestination_cond0 w x a then wrapDestination_val1 a (F64.remainder (wrapDestination_val0 x a) w) else x := rfl
theorem tie_wrap_mirror : wrapDestination_cond1 = wrapDestination_cond0 ∧ wrapDestination_val2 = wrapDestination_val0 ∧
    wrapDestination_val3 = wrapDestination_val1 := ⟨rfl, rfl, rfl⟩

/-- `a.Mul(1 - f).Add(b.Mul(f))`, both projections -/
theorem tie_interpolate (f : F64) (a b : F64 × F64) :
    interpolate f a b =
      let g := PlateCarree_Interpolate_val0 f
      (a.1 * g + b.1 * f, a.2 * g + b.2 * f) := rfl
theorem tie_interpolate_same : Mercator_Interpolate_val0 = PlateCarree_Interpolate_val0 := rfl

/-! ### snappers -/

/-- `s1.Angle(0.5*MaxDiagMetric.Value(level) + 4*dblEpsilon)` -/
theorem tie_minSnapRadiusForLevel (level : Nat) :
    minSnapRadiusForLevel level = CellID_minSnapRadiusForLevel_val0 (metricValue1 maxDiagDeriv level) := rfl
/-- `MaxDiagMetric.MinLevel(2 * (snapRadius.Radians() - 4*dblEpsilon))` -/
theorem tie_levelForMaxSnapRadius (r : F64) :
    levelForMaxSnapRadius r = minLevel1 maxDiagDeriv (CellID_levelForMaxSnapRadius_val0 r) := rfl
/-- `CellFromPoint(point).id.Parent(sf.level).Point()` -/
theorem tie_snapCellID (level : Nat) (p : V3) :
    snapCellID level p = cellPoint (CellID_SnapPoint_val0 (STUV.cellIDFromPoint p) (level : Int)) := rfl
/-- `s1.Degree*s1.Angle((1/math.Sqrt2)/power) + s1.Angle((9*math.Sqrt2+1.5)*dblEpsilon)` -/
theorem tie_minSnapRadiusForExponent (e : Nat) :
    minSnapRadiusForExponent e = IntLatLng_minSnapRadiusForExponent_val0 (pow10 e) := rfl
/-- `to: 1 / power`; `lat := math.Round(input.Lat.Degrees() * from)`; `LatLngFromDegrees(lat * to, …)` -/
theorem tie_snapDegreeCoord (e : Nat) (a : F64) :
    snapDegreeCoord e a =
      let from' := pow10 e
      let to := NewIntLatLngSnapper_val0 from'
      let x := IntLatLng_SnapPoint_val0 (toDegrees a) from'
      (roundHalfAwayInt x, (IntLatLng_SnapPoint_val2 (roundHalfAway x) to) * degree) := rfl
theorem tie_snap_lng_mirror : IntLatLng_SnapPoint_val1 = IntLatLng_SnapPoint_val0 ∧ IntLatLng_SnapPoint_val3 = IntLatLng_SnapPoint_val2 :=
  ⟨rfl, rfl⟩

end S2Proofs.Ties.C20Approx
