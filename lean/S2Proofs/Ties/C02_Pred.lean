/-
  S2Proofs.Ties.C02_Pred — regenerated-instance obligations for r3/vector.go, r3/precisevector.go, s2/predicates.go and
  OrderedCCW of s2/point.go.

  `S2.Generated.PredFns.*` is rewritten from the Go source on every run by translator_c02 (statement by statement,
  expression by expression over the bit-exact soft float `S2.F64`; `*big.Float` over the exact carrier `S2.BigF`;
  rules: header of translator_c02/main.go).  Every theorem says `hand model function = regenerated function`
  for the definitions of `S2.Pred` / `S2.V3` / `S2.Exact` that the property theorems and the oracle use.
-/
import S2.Pred
import S2.BigF
import S2.Generated.PredFns
namespace S2Proofs.Ties.C02_Pred
open S2 S2.Generated S2.Exact
set_option linter.unusedSimpArgs false

theorem f64_eq_of_bits {a b : F64} (h : a.bits = b.bits) : a = b := by
  cases a; cases b; simp_all

/-! ### r3/vector.go (order of the float operations included) -/
theorem tie_Vector_Add : V3.add = PredFns.Vector_Add := rfl
theorem tie_Vector_Sub : V3.sub = PredFns.Vector_Sub := rfl
theorem tie_Vector_Mul : V3.mul = PredFns.Vector_Mul := rfl
theorem tie_Vector_Dot : V3.dot = PredFns.Vector_Dot := rfl
theorem tie_Vector_Cross : V3.cross = PredFns.Vector_Cross := rfl
theorem tie_Vector_Norm2 : V3.norm2 = PredFns.Vector_Norm2 := rfl
theorem tie_Vector_Cmp : V3.cmp = PredFns.Vector_Cmp := rfl
/-- Go `==` on points -/
theorem tie_Vector_eq : V3.feq = PredFns.Vector_eq := rfl
/-- `Dot` and `Cross` carry explicit `float64(...)` conversions on every product: no FMA fusion is allowed there -/
theorem tie_Vector_fma : PredFns.Vector_Dot_fmaSites = 0 ∧ PredFns.Vector_Cross_fmaSites = 0 := ⟨rfl, rfl⟩

/-! ### r3/precisevector.go : exact vectors.  `toPV k v` is the integer vector `v` read at degree `k`
    (value = v / 2^(1074 k)); float inputs have degree 1, their cross product degree 2. -/
def toPV (k : Nat) (v : IV3) : PredFns.PreciseVector := ⟨⟨v.x, k⟩, ⟨v.y, k⟩, ⟨v.z, k⟩⟩

theorem tie_PreciseVectorFromVector (v : V3) : toPV 1 (ofV3 v) = PredFns.PreciseVectorFromVector v := rfl
theorem tie_PreciseVector_Dot (j k : Nat) (v o : IV3) :
    (⟨v.dot o, j + k⟩ : BigF) = PredFns.PreciseVector_Dot (toPV j v) (toPV k o) := by
  simp [PredFns.PreciseVector_Dot, PredFns.precAdd, PredFns.precMul, BigF.add, BigF.mul, toPV, IV3.dot]
theorem tie_PreciseVector_Cross (j k : Nat) (v o : IV3) :
    toPV (j + k) (v.cross o) = PredFns.PreciseVector_Cross (toPV j v) (toPV k o) := by
  simp [PredFns.PreciseVector_Cross, PredFns.precSub, PredFns.precMul, BigF.sub, BigF.mul, toPV, IV3.cross, Nat.add_comm]
theorem tie_PreciseVector_Norm2 (k : Nat) (v : IV3) :
    (⟨v.norm2, k + k⟩ : BigF) = PredFns.PreciseVector_Norm2 (toPV k v) := tie_PreciseVector_Dot k k v v

/-- every big.Float operation of the translated functions runs at a precision of at least 2^26 bits (`r3.MaxPrec`,
    `big.MaxPrec`); the largest intermediate (degree 8 in `exactCompareDistance`, numerators below 2^(8·2098+3)) needs
    fewer than 17000 bits, so no operation rounds: the basis of the exact carrier `S2.BigF` -/
theorem tie_bigPrec : 17000 ≤ PredFns.bigPrec_min := by decide

/-! ### constants at their places of use -/
theorem k_triageSign_0 : Pred.maxDeterminantError = PredFns.triageSign_k0 := f64_eq_of_bits (by decide +kernel)
theorem k_triageSign_1 : -Pred.maxDeterminantError = PredFns.triageSign_k1 := f64_eq_of_bits (by decide +kernel)
theorem k_stableSign_0 : Pred.minStableSignNorm2Product = PredFns.stableSign_k0 := rfl
theorem k_stableSign_1 : Pred.detErrorMultiplier = PredFns.stableSign_k1 := f64_eq_of_bits (by decide +kernel)
theorem k_cosDistance_0 : Pred.cosErrMul = PredFns.cosDistance_k0 := f64_eq_of_bits (by decide +kernel)
theorem k_cosDistance_1 : Pred.cosErrAdd = PredFns.cosDistance_k1 := f64_eq_of_bits (by decide +kernel)
theorem k_sin2Distance_0 : Pred.quarter = PredFns.sin2Distance_k0 := rfl
theorem k_sin2Distance_1 : Pred.sin2ErrA = PredFns.sin2Distance_k1 := f64_eq_of_bits (by decide +kernel)
theorem k_sin2Distance_2 : Pred.sin2ErrB = PredFns.sin2Distance_k2 := f64_eq_of_bits (by decide +kernel)
theorem k_sin2Distance_3 : Pred.sin2ErrC = PredFns.sin2Distance_k3 := f64_eq_of_bits (by decide +kernel)
theorem k_CompareDistances_0 : Pred.invSqrt2 = PredFns.CompareDistances_k0 := f64_eq_of_bits (by decide +kernel)
theorem k_CompareDistances_1 : -Pred.invSqrt2 = PredFns.CompareDistances_k1 := f64_eq_of_bits (by decide +kernel)
theorem k_triageCompareCosDistance_0 : F64.one = PredFns.triageCompareCosDistance_k0 := rfl
theorem k_triageCompareCosDistance_1 : F64.half = PredFns.triageCompareCosDistance_k1 := rfl
theorem k_triageCompareCosDistance_2 : Pred.twoDblError = PredFns.triageCompareCosDistance_k2 := f64_eq_of_bits (by decide +kernel)
theorem k_triageCompareSin2Distance_0 : F64.one = PredFns.triageCompareSin2Distance_k0 := rfl
theorem k_triageCompareSin2Distance_1 : Pred.quarter = PredFns.triageCompareSin2Distance_k1 := rfl
theorem k_triageCompareSin2Distance_2 : Pred.threeDblError = PredFns.triageCompareSin2Distance_k2 := f64_eq_of_bits (by decide +kernel)
theorem k_triageSignDotProd_0 : Pred.sdpMaxError = PredFns.triageSignDotProd_k0 := f64_eq_of_bits (by decide +kernel)
theorem k_triageSignDotProd_1 : Pred.fzero = PredFns.triageSignDotProd_k1 := rfl
theorem k_Sign_0 : Pred.fzero = PredFns.Sign_k0 := rfl
/-- `ca45Degrees = s1.ChordAngleFromSquaredLength(2 - math.Sqrt2)` (the clamp at 4 does not fire) -/
theorem k_ca45Degrees : Pred.ca45Degrees = PredFns.var_ca45Degrees := f64_eq_of_bits (by decide +kernel)

/-! ### orientation: float stages -/
theorem tie_Sign : Pred.sign = PredFns.Sign := rfl

theorem tie_triageSign : Pred.triageSign = PredFns.triageSign := by
  funext a b c
  unfold Pred.triageSign Pred.threshold
  rw [k_triageSign_1, k_triageSign_0]
  rfl

theorem tie_stableSign : Pred.stableSign = PredFns.stableSign := by
  funext a b c
  unfold Pred.stableSign Pred.stableDetErr Pred.stableParts Pred.threshold
  rw [k_stableSign_0, k_stableSign_1]
  rfl

/-! ### orientation: exact stages -/
theorem step_pos (x k : Int) (inst : Decidable ((Exact.sgn x != 0) = true)) :
    (@ite _ ((Exact.sgn x != 0) = true) inst (Exact.sgn x) k) = (if x ≠ 0 then Exact.sgn x else k) := by
  by_cases h : x = 0 <;> simp [h, Exact.sgn, Int.sign_eq_zero_iff_zero]
theorem step_neg (x k : Int) (inst : Decidable ((-(Exact.sgn x) != 0) = true)) :
    (@ite _ ((-(Exact.sgn x) != 0) = true) inst (-(Exact.sgn x)) k) = (if x ≠ 0 then -(Exact.sgn x) else k) := by
  by_cases h : x = 0 <;> simp [h, Exact.sgn, Int.sign_eq_zero_iff_zero]

/-- the thirteen tests, their order and signs; arguments at degrees 1,1,1 and 2 as `exactSign` passes them -/
theorem tie_symbolicallyPerturbedSign :
    Pred.symbolicallyPerturbedSign =
      fun a b c bxc => PredFns.symbolicallyPerturbedSign (toPV 1 a) (toPV 1 b) (toPV 1 c) (toPV 2 bxc) := by
  funext a b c bxc
  dsimp only [PredFns.symbolicallyPerturbedSign, toPV, BigF.sign, BigF.sub, BigF.mul, Nat.reduceAdd, ↓reduceIte]
  simp only [step_pos, step_neg]
  rfl

theorem tie_exactSign : Pred.exactSign = PredFns.exactSign := by
  funext a b c p
  unfold Pred.exactSign Pred.sort3 Pred.exactSignSorted
  rw [tie_symbolicallyPerturbedSign]
  rfl


theorem exactSign_true_of_false_ne {a b c : V3} (h : (Pred.exactSign a b c false != 0) = true) :
    Pred.exactSign a b c true = Pred.exactSign a b c false := by
  unfold Pred.exactSign at *
  generalize Pred.sort3 (fun u v => decide (V3.cmp u v > 0)) a b c = t at *
  obtain ⟨pa, pb, pc, s⟩ := t
  simp only [Pred.exactSignSorted] at *
  by_cases hd : Exact.sgn ((Exact.ofV3 pa).dot ((Exact.ofV3 pb).cross (Exact.ofV3 pc))) = 0
  · simp [hd] at h
  · simp [hd]

/-- Go calls `exactSign(a, b, c, true)` once; the model first asks the unperturbed determinant (to name the deciding
    stage), which is the same value -/
theorem tie_expensiveSign : Pred.expensiveSign = PredFns.expensiveSign := by
  funext a b c
  unfold Pred.expensiveSign Pred.expensiveSignS PredFns.expensiveSign
  rw [tie_stableSign, ← tie_exactSign, ← tie_Vector_eq]
  by_cases h1 : (V3.feq a b || V3.feq b c || V3.feq c a) = true
  · simp [h1]
  · by_cases h2 : (PredFns.stableSign a b c != 0) = true
    · simp [h1, h2]
    · by_cases h3 : (Pred.exactSign a b c false != 0) = true
      · simp [h1, h2, h3, exactSign_true_of_false_ne h3]
      · simp [h1, h2, h3]

theorem tie_RobustSign : Pred.robustSign = PredFns.RobustSign := by
  funext a b c
  unfold Pred.robustSign Pred.robustSignS PredFns.RobustSign
  rw [tie_triageSign]
  show (if (PredFns.triageSign a b c != 0) = true then (PredFns.triageSign a b c, 0) else Pred.expensiveSignS a b c).1 = _
  rw [← tie_expensiveSign]
  unfold Pred.expensiveSign
  cases h : PredFns.triageSign a b c == 0 <;> simp [bne, h]

theorem tie_OrderedCCW : Pred.orderedCCW = PredFns.OrderedCCW := by
  funext a b c o
  unfold Pred.orderedCCW Pred.orderedCCWWith PredFns.OrderedCCW
  rw [tie_RobustSign]
  cases h1 : (PredFns.RobustSign b o a != -1) <;> cases h2 : (PredFns.RobustSign c o b != -1) <;>
    cases h3 : (PredFns.RobustSign a o c == 1) <;> simp [h1, h2, h3]

/-! ### distances: float stages -/
theorem tie_cosDistance : Pred.cosDistance = PredFns.cosDistance := by
  funext x y
  unfold Pred.cosDistance
  rw [k_cosDistance_0, k_cosDistance_1]
  rfl

theorem tie_sin2Distance : Pred.sin2Distance = PredFns.sin2Distance := by
  funext x y
  unfold Pred.sin2Distance
  rw [k_sin2Distance_0, k_sin2Distance_1, k_sin2Distance_2, k_sin2Distance_3]
  rfl

theorem neg_threshold (d e : F64) :
    Int.neg (Pred.threshold d e) = if F64.gt d e then -1 else if F64.lt d (F64.neg e) then 1 else 0 := by
  unfold Pred.threshold
  cases F64.gt d e <;> cases h : F64.lt d (-e) <;> simp [h, show F64.lt d (F64.neg e) = F64.lt d (-e) from rfl] <;> rfl

theorem tie_triageCompareCosDistances : Pred.triageCompareCosDistances = PredFns.triageCompareCosDistances := by
  funext x a b
  unfold Pred.triageCompareCosDistances Pred.cosDistancesDiffErr
  rw [tie_cosDistance]
  dsimp only
  rw [neg_threshold]
  rfl

theorem tie_triageCompareSin2Distances : Pred.triageCompareSin2Distances = PredFns.triageCompareSin2Distances := by
  funext x a b
  unfold Pred.triageCompareSin2Distances Pred.sin2DistancesDiffErr Pred.threshold
  rw [tie_sin2Distance]
  rfl

theorem tie_triageCompareCosDistance : Pred.triageCompareCosDistance = PredFns.triageCompareCosDistance := by
  funext x y r2
  unfold Pred.triageCompareCosDistance Pred.cosDistanceDiffErr
  rw [tie_cosDistance, k_triageCompareCosDistance_2]
  dsimp only
  rw [neg_threshold]
  rfl

theorem tie_triageCompareSin2Distance : Pred.triageCompareSin2Distance = PredFns.triageCompareSin2Distance := by
  funext x y r2
  unfold Pred.triageCompareSin2Distance Pred.sin2DistanceDiffErr Pred.threshold
  rw [tie_sin2Distance, k_triageCompareSin2Distance_2]
  rfl

theorem tie_triageSignDotProd : Pred.triageSignDotProd = PredFns.triageSignDotProd := by
  funext a b
  unfold Pred.triageSignDotProd
  rw [k_triageSignDotProd_0]
  rfl

theorem tie_symbolicCompareDistances : Pred.symbolicCompareDistances = PredFns.symbolicCompareDistances := rfl


/-! ### distances: exact stages and the drivers -/

theorem ite_bne_int (a b : Int) (x y : α) : (if (a != b) = true then x else y) = (if a ≠ b then x else y) := by
  by_cases h : a = b <;> simp [h]
theorem ite_decide_gt (a b : Int) (x y : α) : (if decide (a > b) = true then x else y) = (if a > b then x else y) := by
  by_cases h : a > b <;> simp [h]

theorem tie_exactCompareDistances :
    Pred.exactCompareDistances = fun x a b => PredFns.exactCompareDistances (toPV 1 x) (toPV 1 a) (toPV 1 b) := by
  funext x a b
  unfold PredFns.exactCompareDistances
  simp only [← tie_PreciseVector_Dot, ← tie_PreciseVector_Norm2, BigF.sign, BigF.mul, BigF.sub, Nat.reduceAdd, ↓reduceIte,
    ite_bne_int, ite_decide_gt]
  rfl

theorem tie_CompareDistances : Pred.compareDistances = PredFns.CompareDistances := by
  funext x a b
  unfold Pred.compareDistances Pred.compareDistancesS Pred.sin2StageDistances PredFns.CompareDistances
  rw [tie_triageCompareCosDistances, tie_triageCompareSin2Distances, tie_exactCompareDistances, k_CompareDistances_1,
    k_CompareDistances_0, tie_symbolicCompareDistances, tie_Vector_eq]
  dsimp only
  rw [← tie_PreciseVectorFromVector, ← tie_PreciseVectorFromVector, ← tie_PreciseVectorFromVector]
  cases h0 : (PredFns.triageCompareCosDistances x a b != 0)
  · cases h1 : PredFns.Vector_eq a b
    · have hz : PredFns.triageCompareCosDistances x a b = 0 := by simpa using h0
      rw [hz, ← tie_Vector_Dot]
      generalize (if (a.dot x).gt PredFns.CompareDistances_k0 = true then PredFns.triageCompareSin2Distances x a b
                  else if (a.dot x).lt PredFns.CompareDistances_k1 = true then -PredFns.triageCompareSin2Distances x a b
                  else 0) = s
      cases h2 : (s != 0) <;>
        cases h3 : (PredFns.exactCompareDistances (toPV 1 (ofV3 x)) (toPV 1 (ofV3 a)) (toPV 1 (ofV3 b)) != 0) <;> simp [h2, h3]
    · simp [h0, h1]
  · simp [h0]

theorem tie_CompareDistance_float (x y : V3) (r : F64) :
    Pred.compareDistance x y r =
      (let sign := PredFns.triageCompareCosDistance x y r
       if sign != 0 then sign
       else if F64.lt r PredFns.var_ca45Degrees then
         (let sign := PredFns.triageCompareSin2Distance x y r
          if sign != 0 then sign else Pred.exactCompareDistance x y r)
       else Pred.exactCompareDistance x y r) := by
  unfold Pred.compareDistance Pred.compareDistanceS
  rw [tie_triageCompareCosDistance, tie_triageCompareSin2Distance, k_ca45Degrees]
  dsimp only
  cases h0 : (PredFns.triageCompareCosDistance x y r != 0) <;> cases h1 : F64.lt r PredFns.var_ca45Degrees <;>
    cases h2 : (PredFns.triageCompareSin2Distance x y r != 0) <;> simp [h0, h1, h2]


theorem sgn_mul_pos (c t : Int) (hc : 0 < c) : sgn (c * t) = sgn t := by
  unfold sgn
  rw [Int.sign_mul, Int.sign_eq_one_of_pos hc, Int.one_mul]

/-- the algebra behind `exactCompareDistance`: with `S = 2 H`, the regenerated big.Float computation (values aligned to a
    common power of `S`) and the hand model's integer formula differ by the positive factors `H` and `H²` -/
theorem ecd_algebra (S H r cXY n : Int) (hS : S = 2 * H) :
    S * S ^ 1 - H * r = H * (2 * S - r) ∧
    (H * (2 * S - r)) * (H * (2 * S - r)) * n - cXY * cXY * S ^ 4 =
      (H * H) * ((2 * S - r) * (2 * S - r) * n - 4 * S * S * (cXY * cXY)) := by
  subst hS
  constructor <;> grind

def H : Int := 2 ^ 1073
theorem scale_eq : BigF.S = 2 * H := by decide +kernel
theorem H_pos : 0 < H := by decide +kernel
set_option exponentiation.threshold 4096 in
theorem one_toInt : Exact.toInt PredFns.var_bigOne_k0 = BigF.S := by decide +kernel
set_option exponentiation.threshold 4096 in
theorem half_toInt : Exact.toInt PredFns.var_bigHalf_k0 = H := by decide +kernel
/-- `bigOne = big.NewFloat(1.0)` is `S / S`, `bigHalf = big.NewFloat(0.5)` is `(S/2) / S` -/
theorem bigOne_eq : PredFns.var_bigOne = ⟨BigF.S, 1⟩ := by
  unfold PredFns.var_bigOne BigF.ofF64; rw [one_toInt]
theorem bigHalf_eq : PredFns.var_bigHalf = ⟨H, 1⟩ := by
  unfold PredFns.var_bigHalf BigF.ofF64; rw [half_toInt]

/-- `exactCompareDistance` on exact vectors and an exact `r2` (all of degree 1): the hand model's scaled-integer
    formula and the regenerated big.Float computation decide the same sign -/
theorem tie_exactCompareDistanceS (x y : IV3) (r : Int) :
    Pred.exactCompareDistanceS Exact.scale x y r = PredFns.exactCompareDistance (toPV 1 x) (toPV 1 y) ⟨r, 1⟩ := by
  unfold PredFns.exactCompareDistance Pred.exactCompareDistanceS
  rw [bigOne_eq, bigHalf_eq]
  simp only [← tie_PreciseVector_Dot, ← tie_PreciseVector_Norm2, BigF.sign, BigF.mul, BigF.sub, Nat.reduceAdd, ↓reduceIte,
    ite_bne_int, ite_decide_gt, Nat.reduceEqDiff, Nat.reduceLT, Nat.reduceSub]
  show _ = (if sgn (x.dot y) ≠ sgn (BigF.S * BigF.S ^ 1 - H * r) then
      if sgn (x.dot y) > sgn (BigF.S * BigF.S ^ 1 - H * r) then -1 else 1
    else sgn (x.dot y) * sgn ((BigF.S * BigF.S ^ 1 - H * r) * (BigF.S * BigF.S ^ 1 - H * r) * (x.norm2 * y.norm2) -
            x.dot y * x.dot y * BigF.S ^ 4))
  have hS : ((Exact.scale : Nat) : Int) = BigF.S := rfl
  rw [hS]
  obtain ⟨e1, e2⟩ := ecd_algebra BigF.S H r (x.dot y) (x.norm2 * y.norm2) scale_eq
  rw [e1, e2, sgn_mul_pos _ _ H_pos, sgn_mul_pos _ _ (Int.mul_pos H_pos H_pos)]

/-- `CompareDistance` passes `big.NewFloat(float64(r))`; the tie is for finite r (big.NewFloat panics on NaN; for
    r = ±Inf — reached since repair D54 made the cos triage answer 0 there — the hand model follows big.Float's infinity
    arithmetic, which `BigF` does not represent: checked by the correspondence runs, op `c02cmpr` with r = +Inf) -/
theorem tie_exactCompareDistance (x y : V3) (r2 : F64) (h : r2.isFinite = true) :
    Pred.exactCompareDistance x y r2 =
      PredFns.exactCompareDistance (PredFns.PreciseVectorFromVector x) (PredFns.PreciseVectorFromVector y) (BigF.ofF64 r2) := by
  unfold Pred.exactCompareDistance
  rw [← tie_PreciseVectorFromVector, ← tie_PreciseVectorFromVector]
  show _ = PredFns.exactCompareDistance (toPV 1 (ofV3 x)) (toPV 1 (ofV3 y)) ⟨toInt r2, 1⟩
  rw [← tie_exactCompareDistanceS]
  simp [h]

theorem tie_CompareDistance (x y : V3) (r : F64) (h : r.isFinite = true) :
    Pred.compareDistance x y r = PredFns.CompareDistance x y r := by
  rw [tie_CompareDistance_float, tie_exactCompareDistance x y r h]
  rfl

theorem tie_SignDotProd : Pred.signDotProd = PredFns.SignDotProd := by
  funext a b
  unfold Pred.signDotProd Pred.signDotProdS PredFns.SignDotProd
  rw [tie_triageSignDotProd, ← tie_PreciseVectorFromVector, ← tie_PreciseVectorFromVector, ← tie_PreciseVector_Dot]
  cases h : (PredFns.triageSignDotProd a b != 0) <;> simp [h] <;> rfl


/-- FMA audit.  The Go spec lets a compiler fuse `x*y ± z` into one rounding unless the product is explicitly converted
    (`float64(x*y)`); the model rounds every operation separately (what gc does on amd64).  The translator counts, per
    function, the products that are direct operands of `+` / `-` without such a conversion: none in these functions -/
theorem tie_fmaSites_zero :
    [PredFns.Vector_Add_fmaSites, PredFns.Vector_Sub_fmaSites, PredFns.Vector_Mul_fmaSites, PredFns.Vector_Dot_fmaSites, PredFns.Vector_Cross_fmaSites, PredFns.Vector_Norm2_fmaSites, PredFns.Vector_Cmp_fmaSites, PredFns.precFloat_fmaSites, PredFns.precAdd_fmaSites, PredFns.precSub_fmaSites, PredFns.precMul_fmaSites, PredFns.NewPreciseVector_fmaSites, PredFns.PreciseVectorFromVector_fmaSites, PredFns.PreciseVector_Dot_fmaSites, PredFns.PreciseVector_Cross_fmaSites, PredFns.PreciseVector_Norm2_fmaSites, PredFns.ChordAngleFromSquaredLength_fmaSites, PredFns.Sign_fmaSites, PredFns.triageSign_fmaSites, PredFns.stableSign_fmaSites, PredFns.symbolicallyPerturbedSign_fmaSites, PredFns.exactSign_fmaSites, PredFns.expensiveSign_fmaSites, PredFns.RobustSign_fmaSites, PredFns.OrderedCCW_fmaSites, PredFns.triageCompareCosDistances_fmaSites, PredFns.triageCompareSin2Distances_fmaSites, PredFns.exactCompareDistances_fmaSites, PredFns.symbolicCompareDistances_fmaSites, PredFns.CompareDistances_fmaSites, PredFns.exactCompareDistance_fmaSites, PredFns.CompareDistance_fmaSites, PredFns.triageSignDotProd_fmaSites, PredFns.SignDotProd_fmaSites] = List.replicate 34 0 := by decide
/-- …and these are the sites where fusion IS allowed by the spec (arm64, ppc64le, s390x, riscv64 compilers do fuse):
    the float triage stages of the distance predicates.  The error constants absorb one rounding more or less; the model
    and the correspondence runs are for the unfused evaluation -/
theorem tie_fmaSites_nonzero :
    (PredFns.cosDistance_fmaSites, PredFns.sin2Distance_fmaSites, PredFns.triageCompareCosDistance_fmaSites, PredFns.triageCompareSin2Distance_fmaSites) = (1, 2, 1, 1) := by decide

/-- the same for every chord angle on which the cos triage answers -/
theorem tie_CompareDistance_of_triage (x y : V3) (r : F64) (h : PredFns.triageCompareCosDistance x y r ≠ 0) :
    Pred.compareDistance x y r = PredFns.CompareDistance x y r := by
  rw [tie_CompareDistance_float]
  unfold PredFns.CompareDistance
  have h' : (PredFns.triageCompareCosDistance x y r != 0) = true := by simpa using h
  simp [h']

end S2Proofs.Ties.C02_Pred
