/-
  S2Proofs.Ties.C02 — regenerated-instance obligations for s2/predicates.go (and r3.MaxPrec).

  `S2.Generated.PredConsts.*` is rewritten from the Go source on every run by translator_c01: go/types +
  go/constant evaluate every constant float expression exactly as the compiler does (exact rational arithmetic on
  untyped constants, ONE rounding to float64, ties to even) and the translator writes the bit pattern.
  The hand model `S2.Pred` computes the same constants inside Lean from the decimal literals with the soft-float
  rounding `F64.roundNE`; the theorems below say that the two agree bit for bit, that the error constants are used
  at the same places (k-th constant sub-expression of the function), and that `symbolicallyPerturbedSign` tests
  the same thirteen quantities in the same order with the same signs.
-/
import S2.Pred
import S2.Generated.PredConsts
namespace S2Proofs.Ties.C02
open S2 S2.Generated

/-! ### the decimal literals (exact values; the model keeps unreduced fractions) -/
theorem tie_dblEpsilon_exact :
    Pred.qDblEpsilon.n * PredConsts.dblEpsilon_den = PredConsts.dblEpsilon_num * Pred.qDblEpsilon.d := by decide +kernel
theorem tie_dblError_exact :
    Pred.qDblError.n * PredConsts.dblError_den = PredConsts.dblError_num * Pred.qDblError.d := by decide +kernel
theorem tie_sqrt3_exact :
    Pred.qSqrt3.n * PredConsts.sqrt3_den = PredConsts.sqrt3_num * Pred.qSqrt3.d := by decide +kernel

/-! ### float64 bit patterns of the package constants -/
theorem tie_maxDeterminantError : Pred.maxDeterminantError.bits = PredConsts.maxDeterminantError_bits := by decide +kernel
theorem tie_detErrorMultiplier : Pred.detErrorMultiplier.bits = PredConsts.detErrorMultiplier_bits := by decide +kernel
theorem tie_minStableSignNorm2Product :
    Pred.minStableSignNorm2Product.bits = PredConsts.minStableSignNorm2Product_bits := by decide +kernel
/-- `0x1p-1000` exactly -/
theorem tie_minStableSignNorm2Product_exact :
    PredConsts.minStableSignNorm2Product_num = 1 ∧ PredConsts.minStableSignNorm2Product_den = 2 ^ 1000 := by decide +kernel

/-! ### the constants at their places of use (k-th constant float sub-expression of the function) -/
/-- `det > maxDeterminantError`, `det < -maxDeterminantError` -/
theorem tie_triageSign_consts :
    Pred.maxDeterminantError.bits = PredConsts.triageSign_f0 ∧ (-Pred.maxDeterminantError).bits = PredConsts.triageSign_f1 := by
  decide +kernel
/-- `norm2Product < minStableSignNorm2Product`, `detErrorMultiplier * math.Sqrt(norm2Product)` -/
theorem tie_stableSign_consts :
    Pred.minStableSignNorm2Product.bits = PredConsts.stableSign_f0 ∧ Pred.detErrorMultiplier.bits = PredConsts.stableSign_f1 := by
  decide +kernel
/-- `9.5*dblError*math.Abs(cos) + 1.5*dblError` -/
theorem tie_cosDistance_consts :
    Pred.cosErrMul.bits = PredConsts.cosDistance_f0 ∧ Pred.cosErrAdd.bits = PredConsts.cosDistance_f1 := by decide +kernel
/-- `0.25 * n.Norm2()`, `(21+4*sqrt3)*dblError*sin2 + 32*sqrt3*dblError*dblError*math.Sqrt(sin2) + 768*dblError^4` -/
theorem tie_sin2Distance_consts :
    Pred.quarter.bits = PredConsts.sin2Distance_f0 ∧ Pred.sin2ErrA.bits = PredConsts.sin2Distance_f1 ∧
    Pred.sin2ErrB.bits = PredConsts.sin2Distance_f2 ∧ Pred.sin2ErrC.bits = PredConsts.sin2Distance_f3 := by decide +kernel
/-- `cosR := 1.0 - 0.5*r2`, `2.0 * dblError * cosR` -/
theorem tie_triageCompareCosDistance_consts : Pred.twoDblError.bits = PredConsts.triageCompareCosDistance_f2 := by decide +kernel
/-- `sin2R := r2 * (1.0 - 0.25*r2)`, `3.0 * dblError * sin2R` -/
theorem tie_triageCompareSin2Distance_consts :
    Pred.quarter.bits = PredConsts.triageCompareSin2Distance_f1 ∧
    Pred.threeDblError.bits = PredConsts.triageCompareSin2Distance_f2 := by decide +kernel
/-- `const maxError = 3.046875 * dblEpsilon` -/
theorem tie_triageSignDotProd_consts : Pred.sdpMaxError.bits = PredConsts.triageSignDotProd_f0 := by decide +kernel
/-- `cosAX > 1/math.Sqrt2`, `cosAX < -1/math.Sqrt2` -/
theorem tie_CompareDistances_consts :
    Pred.invSqrt2.bits = PredConsts.CompareDistances_f0 ∧ (-Pred.invSqrt2).bits = PredConsts.CompareDistances_f1 := by decide +kernel
/-- `ca45Degrees = s1.ChordAngleFromSquaredLength(2 - math.Sqrt2)` -/
theorem tie_ca45Degrees : Pred.ca45Degrees.bits = PredConsts.var_ca45Degrees_f0 := by decide +kernel

/-! ### r3.MaxPrec: the exact model assumes big.Float never rounds; S2/Exact.lean bounds the largest intermediate
    by 13000 bits -/
theorem tie_MaxPrec : 13000 ≤ PredConsts.MaxPrec := by decide

/-! ### symbolicallyPerturbedSign: the cascade -/
theorem step_pos (x k : Int) :
    (if (Exact.sgn x != 0) = true then Exact.sgn x else k) = (if x ≠ 0 then Exact.sgn x else k) := by
  by_cases h : x = 0 <;> simp [h, Exact.sgn, Int.sign_eq_zero_iff_zero]
theorem step_neg (x k : Int) :
    (if (-(Exact.sgn x) != 0) = true then -(Exact.sgn x) else k) = (if x ≠ 0 then -(Exact.sgn x) else k) := by
  by_cases h : x = 0 <;> simp [h, Exact.sgn, Int.sign_eq_zero_iff_zero]

theorem tie_symbolicallyPerturbedSign : Pred.symbolicallyPerturbedSign = PredConsts.symbolicallyPerturbedSign := by
  funext a b c bxc
  simp only [PredConsts.symbolicallyPerturbedSign, step_pos, step_neg]
  rfl

end S2Proofs.Ties.C02
