/-
  S2Proofs.HilbertCells — consequences of `HilbertLemmas` for cell ids:
  `cellIDFromFaceIJ` / `faceIJOrientation` are mutually inverse bijections between
  (face, i, j) and valid leaf cells, and level-k cells are the ij-aligned squares of side 2^(30-k).

  Technical note: statements that mention the 30-level recursion are stated for a VARIABLE number of
  levels `L` with a hypothesis `hL : L = 30`.  With the literal 30, a definitional-equality check that
  has to look at a projection of `hIJ 30 …` / `hPos 30 …` unfolds 30 levels of the recursion (an
  exponentially large term) in the elaborator and in the kernel; with a variable the recursion is stuck.
-/
import S2Proofs.HilbertLemmas
import S2Proofs.CellIDAlgebra
open S2 S2.CellID S2.Hilbert
namespace S2Proofs

section
variable {L : Nat} (hL : L = 30)
include hL

theorem pow2L : (2:Nat)^L = 2^30 := by rw [hL]
theorem pow4L : (4:Nat)^L = 4^30 := by rw [hL]

theorem bfold_eq (ci : CellID) :
    List.foldl (bstep ci) (0, 0, face ci &&& swapMask) [7,6,5,4,3,2,1,0] =
      ((hIJ L (face ci &&& 1) (posBits60 ci)).1, (hIJ L (face ci &&& 1) (posBits60 ci)).2.1,
       (hIJ L (face ci &&& 1) (posBits60 ci)).2.2) := by
  subst hL
  have h8 : BInv ci 8 (0, 0, face ci &&& swapMask) := by
    unfold BInv
    simp only [Nat.sub_self, Nat.mul_zero, hIJ, Nat.zero_mul, swapMask]
  have h7 := BInv_step ci 7 (by omega) _ h8
  have h6 := BInv_step ci 6 (by omega) _ h7
  have h5 := BInv_step ci 5 (by omega) _ h6
  have h4 := BInv_step ci 4 (by omega) _ h5
  have h3 := BInv_step ci 3 (by omega) _ h4
  have h2 := BInv_step ci 2 (by omega) _ h3
  have h1 := BInv_step ci 1 (by omega) _ h2
  have h0 := BInv_step ci 0 (by omega) _ h1
  have hP : posBits60 ci < 4^30 := by unfold posBits60; exact Nat.mod_lt _ (by omega)
  have htwo := hIJ_two_add 30 (face ci &&& 1) (posBits60 ci) (and_one_lt _) hP
  unfold BInv at h0
  simp only [Nat.sub_zero, Nat.pow_zero, Nat.div_one, Nat.mul_one, Nat.reduceMul] at h0
  rw [show (32:Nat) = 2 + 30 from rfl, htwo] at h0
  exact h0

/-- the final swap adjustment of `faceIJOrientation` -/
def finalOrient (ci : CellID) (o : Nat) : Nat :=
  if lsb ci &&& 0x1111111111111110 != 0 then o ^^^ swapMask else o

omit hL in
theorem finalOrient_lt4 (ci : CellID) (o : Nat) (ho : o < 4) : finalOrient ci o < 4 := by
  have : ∀ o < 4, o ^^^ swapMask < 4 := by decide
  unfold finalOrient
  split
  · exact this _ ho
  · exact ho

/-- `faceIJOrientation` of ANY word: face, and the 30-level decoding of its 60 position bits. -/
theorem faceIJOrientation_spec (ci : CellID) :
    faceIJOrientation ci =
      (face ci, (hIJ L (face ci &&& 1) (posBits60 ci)).1, (hIJ L (face ci &&& 1) (posBits60 ci)).2.1,
        finalOrient ci (hIJ L (face ci &&& 1) (posBits60 ci)).2.2) := by
  rw [faceIJOrientation_fold]
  simp only [bfold_eq hL]
  rfl

omit hL in
theorem and_one_lt4 (f : Nat) : f &&& 1 < 4 := by have := and_one_lt f; omega

theorem toNat_L (f i j : Nat) (hf : f < 8) (hi : i < 2^30) (hj : j < 2^30) :
    (cellIDFromFaceIJ f i j).toNat = 2 * (f * 2^60 + (hPos L (f &&& 1) i j).1) + 1 := by
  subst hL; exact cellIDFromFaceIJ_toNat f i j hf hi hj

theorem hPosL_lt (o i j : Nat) (ho : o < 4) : (hPos L o i j).1 < 4^30 :=
  lt_of_lt_of_eq (hPos_bounds L o i j ho).1 (pow4L hL)

theorem hIJL_lt (o p : Nat) (ho : o < 4) : (hIJ L o p).1 < 2^30 ∧ (hIJ L o p).2.1 < 2^30 ∧ (hIJ L o p).2.2 < 4 :=
  ⟨lt_of_lt_of_eq (hIJ_bounds L o p ho).1 (pow2L hL), lt_of_lt_of_eq (hIJ_bounds L o p ho).2.1 (pow2L hL),
   (hIJ_bounds L o p ho).2.2⟩

/-- the leaf built from (f,i,j): a valid leaf of face f whose position bits are the encoding -/
theorem cellIDFromFaceIJ_facts (f i j : Nat) (hf : f < 6) (hi : i < 2^30) (hj : j < 2^30) :
    IsCell (cellIDFromFaceIJ f i j) 30 ∧ face (cellIDFromFaceIJ f i j) = f ∧
      posBits60 (cellIDFromFaceIJ f i j) = (hPos L (f &&& 1) i j).1 := by
  have e := toNat_L hL f i j (by omega) hi hj
  have hb := hPosL_lt hL (f &&& 1) i j (and_one_lt4 f)
  generalize (hPos L (f &&& 1) i j).1 = P at *
  clear hi hj
  refine ⟨⟨by omega, ?_, ?_⟩, ?_, ?_⟩
  · rw [e]; simp only [Nat.reducePow] at *; omega
  · rw [e]; simp only [Nat.reducePow, Nat.reduceMul, Nat.reduceSub] at *; omega
  · rw [face_toNat, e]; simp only [Nat.reducePow] at *; omega
  · unfold posBits60; rw [e]; simp only [Nat.reducePow] at *; omega

/-- (f,i,j) ↦ leaf ↦ (f,i,j) -/
theorem faceIJOrientation_cellIDFromFaceIJ (f i j : Nat) (hf : f < 6) (hi : i < 2^30) (hj : j < 2^30) :
    ∃ o, o < 4 ∧ faceIJOrientation (cellIDFromFaceIJ f i j) = (f, i, j, o) := by
  obtain ⟨_, hface, hpos⟩ := cellIDFromFaceIJ_facts hL f i j hf hi hj
  have hinv := hIJ_hPos L (f &&& 1) i j (and_one_lt4 f) (lt_of_lt_of_eq hi (pow2L hL).symm)
    (lt_of_lt_of_eq hj (pow2L hL).symm)
  have hb := (hPos_bounds L (f &&& 1) i j (and_one_lt4 f)).2
  rw [faceIJOrientation_spec hL, hface, hpos, hinv]
  exact ⟨_, finalOrient_lt4 _ _ hb, rfl⟩

/-- leaf ↦ (f,i,j) ↦ leaf -/
theorem cellIDFromFaceIJ_faceIJOrientation (ci : CellID) (h : IsCell ci 30) :
    (faceIJOrientation ci).1 = face ci ∧ (faceIJOrientation ci).1 < 6 ∧
    (faceIJOrientation ci).2.1 < 2^30 ∧ (faceIJOrientation ci).2.2.1 < 2^30 ∧
    cellIDFromFaceIJ (faceIJOrientation ci).1 (faceIJOrientation ci).2.1 (faceIJOrientation ci).2.2.1 = ci := by
  rw [faceIJOrientation_spec hL]
  have hf := h.face_lt6
  have hP : posBits60 ci < 4^L := by
    rw [pow4L hL]; unfold posBits60; exact Nat.mod_lt _ (by omega)
  have hb := hIJL_lt hL (face ci &&& 1) (posBits60 ci) (and_one_lt4 _)
  refine ⟨rfl, hf, hb.1, hb.2.1, ?_⟩
  apply UInt64.toNat_inj.mp
  simp only
  rw [toNat_L hL _ _ _ (by omega) hb.1 hb.2.1,
      hPos_hIJ L (face ci &&& 1) (posBits60 ci) (and_one_lt4 _) hP]
  obtain ⟨_, hlt, hlow⟩ := h
  have hx := ci.toNat_lt
  clear hb hP
  unfold posBits60
  rw [face_toNat]
  simp only [Nat.reducePow, Nat.reduceMul, Nat.reduceSub] at *
  omega

/-- the level-k ancestor of the leaf at (f,i,j) is determined by, and determines,
    f and the top k bits of i and j -/
theorem parent_cellIDFromFaceIJ_eq_iff (f i j f' i' j' k : Nat) (hf : f < 6) (hf' : f' < 6)
    (hi : i < 2^30) (hj : j < 2^30) (hi' : i' < 2^30) (hj' : j' < 2^30) (hk : k ≤ 30) :
    parent (cellIDFromFaceIJ f i j) k = parent (cellIDFromFaceIJ f' i' j') k ↔
      f = f' ∧ i / 2^(30-k) = i' / 2^(30-k) ∧ j / 2^(30-k) = j' / 2^(30-k) := by
  rw [parent_eq_iff_div _ _ k hk, toNat_L hL f i j (by omega) hi hj,
      toNat_L hL f' i' j' (by omega) hi' hj']
  -- split the encodings at level k
  have e30 : L = k + (30 - k) := by omega
  have hs := hPos_add (30-k) k (f &&& 1) i j
  have hs' := hPos_add (30-k) k (f' &&& 1) i' j'
  rw [← e30] at hs hs'
  have hlow := (hPos_bounds (30-k) (hPos k (f &&& 1) (i / 2^(30-k)) (j / 2^(30-k))).2 (i % 2^(30-k)) (j % 2^(30-k))
    (hPos_bounds k _ _ _ (and_one_lt4 f)).2).1
  have hlow' := (hPos_bounds (30-k) (hPos k (f' &&& 1) (i' / 2^(30-k)) (j' / 2^(30-k))).2 (i' % 2^(30-k)) (j' % 2^(30-k))
    (hPos_bounds k _ _ _ (and_one_lt4 f')).2).1
  have hhi := (hPos_bounds k (f &&& 1) (i / 2^(30-k)) (j / 2^(30-k)) (and_one_lt4 f)).1
  have hhi' := (hPos_bounds k (f' &&& 1) (i' / 2^(30-k)) (j' / 2^(30-k)) (and_one_lt4 f')).1
  have hIlt : ∀ x : Nat, x < 2^30 → x / 2^(30-k) < 2^k := by
    intro x hx
    rw [Nat.div_lt_iff_lt_mul (Nat.two_pow_pos _), ← Nat.pow_add]
    have : k + (30 - k) = 30 := by omega
    rw [this]; exact hx
  -- the arithmetic core: equality of the quotients ⇔ equal face and equal high parts
  have core : (2 * (f * 2^60 + (hPos L (f &&& 1) i j).1) + 1) / 2^(61 - 2*k)
        = (2 * (f' * 2^60 + (hPos L (f' &&& 1) i' j').1) + 1) / 2^(61 - 2*k) ↔
      f = f' ∧ (hPos k (f &&& 1) (i / 2^(30-k)) (j / 2^(30-k))).1
              = (hPos k (f' &&& 1) (i' / 2^(30-k)) (j' / 2^(30-k))).1 := by
    rw [hs, hs']
    simp only
    generalize (hPos k (f &&& 1) (i / 2^(30-k)) (j / 2^(30-k))).1 = A at *
    generalize (hPos k (f' &&& 1) (i' / 2^(30-k)) (j' / 2^(30-k))).1 = A' at *
    generalize (hPos (30-k) _ (i % 2^(30-k)) (j % 2^(30-k))).1 = B at *
    generalize (hPos (30-k) _ (i' % 2^(30-k)) (j' % 2^(30-k))).1 = B' at *
    have e60 : (2:Nat)^60 = 4^k * 4^(30-k) := by
      rw [← Nat.pow_add, show (4:Nat) = 2^2 from rfl, ← Nat.pow_mul]; congr 1; omega
    have e61 : (2:Nat)^(61 - 2*k) = 2 * 4^(30-k) := by
      rw [show (4:Nat) = 2^2 from rfl, ← Nat.pow_mul, ← Nat.pow_succ']; congr 1; omega
    have q1 : ∀ F A B : Nat, B < 4^(30-k) →
        (2 * (F * 2^60 + (A * 4^(30-k) + B)) + 1) / 2^(61 - 2*k) = F * 4^k + A := by
      intro F A B hB
      rw [e60, e61]
      have : 2 * (F * (4^k * 4^(30-k)) + (A * 4^(30-k) + B)) + 1
          = (F * 4^k + A) * (2 * 4^(30-k)) + (2 * B + 1) := by ring
      rw [this]; exact div_lem _ _ _ (by omega)
    rw [q1 f A B hlow, q1 f' A' B' hlow']
    constructor
    · intro h
      have h1 := congrArg (· / 4^k) h
      have h2 := congrArg (· % 4^k) h
      simp only [div_lem _ _ _ hhi, div_lem _ _ _ hhi', mod_lem _ _ _ hhi, mod_lem _ _ _ hhi'] at h1 h2
      exact ⟨h1, h2⟩
    · rintro ⟨rfl, rfl⟩; rfl
  rw [core]
  constructor
  · rintro ⟨rfl, hA⟩
    have r1 := hIJ_hPos k (f &&& 1) (i / 2^(30-k)) (j / 2^(30-k)) (and_one_lt4 f) (hIlt i hi) (hIlt j hj)
    have r2 := hIJ_hPos k (f &&& 1) (i' / 2^(30-k)) (j' / 2^(30-k)) (and_one_lt4 f) (hIlt i' hi') (hIlt j' hj')
    rw [hA, r2] at r1
    simp only [Prod.mk.injEq] at r1
    exact ⟨rfl, r1.1.symm, r1.2.1.symm⟩
  · rintro ⟨rfl, h1, h2⟩
    rw [h1, h2]; exact ⟨rfl, rfl⟩

omit hL in
theorem leaf_parent_arith (x k : Nat) (hk : k ≤ 30) (hlow : x % 2^(61 - 2*k) = 2^(60 - 2*k)) :
    (x + 1 - x % 2) - (x + 1 - x % 2) % 2^(61 - 2*k) + 2^(60 - 2*k) = x := by
  interval_cases k <;> cell_omega

/-- for a cell of ANY level, `faceIJOrientation` returns the coordinates of a leaf inside the cell
    (the leaf whose id is `ci ||| 1`) -/
theorem faceIJOrientation_leaf_in_cell (ci : CellID) (k : Nat) (h : IsCell ci k) :
    (faceIJOrientation ci).1 = face ci ∧
    (faceIJOrientation ci).2.1 < 2^30 ∧ (faceIJOrientation ci).2.2.1 < 2^30 ∧
    (cellIDFromFaceIJ (faceIJOrientation ci).1 (faceIJOrientation ci).2.1 (faceIJOrientation ci).2.2.1).toNat
      = ci.toNat + 1 - ci.toNat % 2 ∧
    parent (cellIDFromFaceIJ (faceIJOrientation ci).1 (faceIJOrientation ci).2.1 (faceIJOrientation ci).2.2.1) k = ci := by
  rw [faceIJOrientation_spec hL]
  have hf := h.face_lt6
  have hP : posBits60 ci < 4^L := by
    rw [pow4L hL]; unfold posBits60; exact Nat.mod_lt _ (by omega)
  have hb := hIJL_lt hL (face ci &&& 1) (posBits60 ci) (and_one_lt4 _)
  have e : (cellIDFromFaceIJ (face ci) (hIJ L (face ci &&& 1) (posBits60 ci)).1
      (hIJ L (face ci &&& 1) (posBits60 ci)).2.1).toNat = ci.toNat + 1 - ci.toNat % 2 := by
    rw [toNat_L hL _ _ _ (by omega) hb.1 hb.2.1,
        hPos_hIJ L (face ci &&& 1) (posBits60 ci) (and_one_lt4 _) hP]
    have hx := ci.toNat_lt
    clear hb hP
    unfold posBits60
    rw [face_toNat]
    simp only [Nat.reducePow] at *
    omega
  refine ⟨rfl, hb.1, hb.2.1, e, ?_⟩
  apply UInt64.toNat_inj.mp
  simp only
  rw [parent_toNat _ k h.k_le, e]
  exact leaf_parent_arith _ k h.k_le h.low

end

end S2Proofs
