/-
  S2Proofs.BitLemmas — the few genuinely bit-level facts about 64-bit words that the
  cell-id algebra rests on.  Everything else is arithmetic.
-/
import Mathlib.Tactic.Ring
namespace S2Proofs

theorem and_neg_odd (a m : Nat) (h : 2*a+1 < 2^m) : (2*a+1) &&& (2^m - (2*a+1)) = 1 := by
  apply Nat.eq_of_testBit_eq
  intro i
  have h2 : 2*a < 2^m := by omega
  rw [Nat.testBit_and, Nat.testBit_two_pow_sub_succ h2]
  cases i with
  | zero =>
    have hm : 0 < m := by
      rcases m with _ | m
      · simp at h
      · omega
    simp [Nat.testBit_zero, hm]
  | succ j =>
    rw [Nat.testBit_add_one, Nat.testBit_add_one]
    have e1 : (2*a+1)/2 = a := by omega
    have e2 : (2*a)/2 = a := by omega
    rw [e1, e2]
    have : (1:Nat).testBit (j+1) = false := by
      rw [Nat.testBit_add_one]; simp
    rw [this]
    cases a.testBit j <;> simp

/-- `x & -x` isolates the lowest set bit (64-bit two's complement). -/
theorem lsbNat (a n : Nat) (h : (2*a+1)*2^n < 2^64) :
    ((2*a+1)*2^n) &&& (2^64 - (2*a+1)*2^n) = 2^n := by
  have hn : n < 64 := by
    by_cases hn : n < 64
    · exact hn
    · exfalso
      have : 2^64 ≤ 2^n := Nat.pow_le_pow_right (by omega) (by omega)
      have : 2^n ≤ (2*a+1)*2^n := Nat.le_mul_of_pos_left _ (by omega)
      omega
  have e : (2:Nat)^64 = 2^(64-n) * 2^n := by rw [← Nat.pow_add]; congr 1; omega
  have hlt : 2*a+1 < 2^(64-n) := by
    rw [e] at h
    exact Nat.lt_of_mul_lt_mul_right h
  have e2 : 2^64 - (2*a+1)*2^n = (2^(64-n) - (2*a+1)) * 2^n := by
    rw [Nat.sub_mul, ← e]
  rw [e2]
  apply Nat.eq_of_testBit_eq
  intro i
  rw [Nat.testBit_and, Nat.testBit_mul_two_pow, Nat.testBit_mul_two_pow, Nat.testBit_two_pow]
  by_cases hi : n ≤ i
  · simp only [hi, decide_true, Bool.true_and]
    rw [← Nat.testBit_and, and_neg_odd a (64-n) hlt]
    by_cases hni : n = i
    · subst hni; simp
    · have : i - n ≠ 0 := by omega
      simp [hni]
      rcases hk : i - n with _ | k
      · omega
      · rw [Nat.testBit_add_one]; simp
  · have : n ≠ i := by omega
    simp [hi, this]

/-- `x & -(2^m)` clears the low `m` bits. -/
theorem and_neg_pow (x m : Nat) (hx : x < 2^64) (hm : m ≤ 64) :
    x &&& (2^64 - 2^m) = x - x % 2^m := by
  have e : x - x % 2^m = (x / 2^m) * 2^m := by
    have := Nat.div_add_mod x (2^m)
    rw [Nat.mul_comm] at this; omega
  rw [e]
  apply Nat.eq_of_testBit_eq
  intro i
  have hpos : 0 < 2^m := Nat.two_pow_pos m
  have e2 : 2^64 - 2^m = 2^64 - ((2^m - 1) + 1) := by omega
  have hlt : 2^m - 1 < 2^64 := by
    have : 2^m ≤ 2^64 := Nat.pow_le_pow_right (by omega) hm
    omega
  rw [Nat.testBit_and, e2, Nat.testBit_two_pow_sub_succ hlt, Nat.testBit_two_pow_sub_one,
      Nat.testBit_mul_two_pow, Nat.testBit_div_two_pow]
  by_cases h1 : m ≤ i
  · have : i - m + m = i := by omega
    rw [this]
    by_cases h2 : i < 64
    · have : ¬ i < m := by omega
      simp [h1, h2, this]
    · have : x.testBit i = false := by
        apply Nat.testBit_lt_two_pow
        have : 2^64 ≤ 2^i := Nat.pow_le_pow_right (by omega) (by omega)
        omega
      simp [this]
  · have : i < m := by omega
    simp [h1, this]

/-- OR-ing bit `m` into a word whose low `m` bits are clear. -/
theorem or_pow_of_div (x m : Nat) :
    ((x / 2^m) * 2^m) ||| 2^m = (x / 2^(m+1)) * 2^(m+1) + 2^m := by
  have e : (x / 2^(m+1)) * 2^(m+1) + 2^m = (2 * (x / 2^(m+1)) + 1) * 2^m := by ring
  rw [e]
  apply Nat.eq_of_testBit_eq
  intro i
  rw [Nat.testBit_or, Nat.testBit_mul_two_pow, Nat.testBit_mul_two_pow, Nat.testBit_two_pow,
      Nat.testBit_div_two_pow]
  by_cases h1 : m ≤ i
  · by_cases h2 : m = i
    · subst h2; simp
    · have h3 : i - m = (i - m - 1) + 1 := by omega
      have h4 : i - m + m = i := by omega
      rw [h4, h3, Nat.testBit_add_one]
      have : (2 * (x / 2^(m+1)) + 1) / 2 = x / 2^(m+1) := by omega
      rw [this, Nat.testBit_div_two_pow]
      have : i - m - 1 + (m + 1) = i := by omega
      rw [this]
      simp [h1, h2]
  · have : m ≠ i := by omega
    simp [h1, this]

end S2Proofs
