/-
  S2Proofs.C16Normalize — error analysis of `r3.Vector.Normalize` on the output of `PreciseVector.Vector()`:

      the rounded, normalised exact vector `PV.toVector v e` has finite coordinates and exact squared norm ≤ 1 + 2^-16
                                                                                                   (`toVector_normLe`),

  which is all `RobustSign` needs of its arguments to be the exact decision (`triageSign_sound_normLe`,
  `stableSign_sound_normLe`: only an UPPER bound on the norms is used).  Standard model of S2Proofs.FloatErr (`×`, `+`),
  `FloatErr.sqrt_lower`, and the correctly rounded division of S2Proofs.F64Round carried over to ℝ.

  Chain (u = 2^-53, e = 2^-1075; w = the three roundings of the components scaled by the power of two that brings the largest into
  [1/2, 1)):   X = Σ wᵢ² ∈ [1/5, 4],   n2 = fl(fl(wx²+wy²)+wz²) ≥ (X(1−u) − 3e)(1−u)²,   s = fl(√n2), s² ≥ n2(1−2^-58)(1−u)²,
  r = fl(1/s), r·s ≤ 1+u,   nᵢ = fl(r·wᵢ), |nᵢ| ≤ (1+u) r |wᵢ| + e   ⟹   Σ nᵢ² ≤ (1+u)⁴ / ((1−2u)(1−u)⁴(1−2^-58)) + 17e ≤ 1 + 2^-16.
-/
import S2Proofs.FloatErr.Stable
import S2Proofs.C16Kernel

set_option linter.unusedSimpArgs false
set_option linter.unusedVariables false

namespace S2Proofs.C16N
open S2 S2.Exact S2.EdgeNum S2Proofs.F64Order S2Proofs.FloatErr

/-! ### pure real arithmetic -/

theorem eR_small : eR ≤ 1 / 2 ^ 100 := by
  unfold eR
  apply one_div_le_one_div_of_le (by positivity)
  exact pow_le_pow_right₀ (by norm_num) (by norm_num)

/-- the final inequality of the chain -/
theorem chain_real {e X n2 s r T : ℝ} (he0 : 0 ≤ e) (he : e ≤ 1 / 2 ^ 100) (hX : 1 / 5 ≤ X)
    (hn2 : (X * (1 - uR) - 3 * e) * (1 - uR) ^ 2 ≤ n2) (hs0 : 0 ≤ s)
    (hs : n2 * ((1 - 1 / 2 ^ 58) * (1 - uR) ^ 2) ≤ s ^ 2) (hr0 : 0 ≤ r) (hrs : r * s ≤ 1 + uR)
    (hT : T ≤ (1 + uR) ^ 2 * r ^ 2 * X + 17 * e) : T ≤ 1 + 1 / 2 ^ 16 := by
  have hu : uR = 1 / 2 ^ 53 := rfl
  have hu0 : (0 : ℝ) ≤ uR := uR_nonneg
  have hu1 : uR ≤ 1 / 2 ^ 53 := le_of_eq hu
  -- X(1−u) − 3e ≥ X(1−2u)
  have h3e : 3 * e ≤ X * uR := by
    rw [hu]
    have : (3 : ℝ) * (1 / 2 ^ 100) ≤ 1 / 5 * (1 / 2 ^ 53) := by norm_num
    nlinarith
  have c1 : (0 : ℝ) ≤ (1 - uR) ^ 2 := sq_nonneg _
  have c2 : (0 : ℝ) ≤ (1 - 1 / 2 ^ 58) * (1 - uR) ^ 2 := by
    apply mul_nonneg _ c1
    norm_num
  have hn2' : X * (1 - 2 * uR) * (1 - uR) ^ 2 ≤ n2 := by
    refine le_trans ?_ hn2
    apply mul_le_mul_of_nonneg_right _ c1
    linarith
  -- s² ≥ X · k1
  have hs' : X * ((1 - 2 * uR) * (1 - uR) ^ 2 * ((1 - 1 / 2 ^ 58) * (1 - uR) ^ 2)) ≤ s ^ 2 := by
    refine le_trans ?_ hs
    have := mul_le_mul_of_nonneg_right hn2' c2
    linarith
  set k1 : ℝ := (1 - 2 * uR) * (1 - uR) ^ 2 * ((1 - 1 / 2 ^ 58) * (1 - uR) ^ 2) with hk1
  have hk1pos : (1 / 2 : ℝ) ≤ k1 := by rw [hk1, hu]; norm_num
  have hK : (1 + uR) ^ 4 ≤ (1 + 1 / 2 ^ 17) * k1 := by rw [hk1, hu]; norm_num
  -- r² s² ≤ (1+u)²
  have hrs2 : r ^ 2 * s ^ 2 ≤ (1 + uR) ^ 2 := by
    have h0 : 0 ≤ r * s := mul_nonneg hr0 hs0
    have := mul_le_mul hrs hrs h0 (by linarith)
    nlinarith
  -- r² X k1 ≤ (1+u)²
  have h1 : r ^ 2 * (X * k1) ≤ (1 + uR) ^ 2 := by
    have := mul_le_mul_of_nonneg_left hs' (sq_nonneg r)
    linarith
  have h2 : (1 + uR) ^ 2 * r ^ 2 * X * k1 ≤ (1 + 1 / 2 ^ 17) * k1 := by
    have := mul_le_mul_of_nonneg_left h1 (sq_nonneg (1 + uR))
    nlinarith
  have h3 : (1 + uR) ^ 2 * r ^ 2 * X ≤ 1 + 1 / 2 ^ 17 :=
    le_of_mul_le_mul_right h2 (by linarith)
  have h4 : 17 * e ≤ 1 / 2 ^ 17 := by
    have : (17 : ℝ) * (1 / 2 ^ 100) ≤ 1 / 2 ^ 17 := by norm_num
    linarith
  have h5 : (1 : ℝ) + 1 / 2 ^ 17 + 1 / 2 ^ 17 = 1 + 1 / 2 ^ 16 := by norm_num
  linarith

/-! ### bridge to the rational `val` of S2Proofs.F64Round; the reciprocal -/

theorem valR_eq (x : F64) : val x = ((S2Proofs.F64Round.val x : ℚ) : ℝ) := by
  unfold val S2Proofs.F64Round.val S2Proofs.F64Round.U
  push_cast
  rfl

/-- `fl(1/s)` for `2/5 ≤ s ≤ 2^515`: finite, non-negative, `fl(1/s)·s ≤ 1 + u` -/
theorem inv_step {s : F64} (hs : Fin s) (h1 : 2 / 5 ≤ val s) (h2 : val s ≤ 2 ^ 515) :
    Fin (F64.one / s) ∧ 0 ≤ val (F64.one / s) ∧ val (F64.one / s) * val s ≤ 1 + uR := by
  open S2Proofs.F64Round in
  have hq1 : (2 / 5 : ℚ) ≤ F64Round.val s := by
    have : ((2 / 5 : ℚ) : ℝ) ≤ ((F64Round.val s : ℚ) : ℝ) := by rw [← valR_eq]; push_cast; exact h1
    exact_mod_cast this
  have hq2 : F64Round.val s ≤ 2 ^ 515 := by
    have : ((F64Round.val s : ℚ) : ℝ) ≤ ((2 ^ 515 : ℚ) : ℝ) := by rw [← valR_eq]; push_cast; exact h2
    exact_mod_cast this
  set q := F64Round.val s with hq
  have hq0 : 0 < q := by linarith
  have hz : s.isZero = false := by
    cases h : s.isZero
    · rfl
    · have : FloatErr.val s = 0 := val_of_isZero h
      linarith
  have hone : F64Order.Fin F64.one := by decide
  have hQ : F64Round.val F64.one / q = 1 / q := by rw [val_one]
  have hQlo : (1 / 2 ^ 515 : ℚ) ≤ 1 / q := one_div_le_one_div_of_le hq0 hq2
  have hQhi : 1 / q ≤ 5 / 2 := by
    rw [div_le_div_iff₀ hq0 (by norm_num)]; linarith
  have hQpos : 0 < 1 / q := by positivity
  have hfin : F64Order.Fin (F64.div F64.one s) := by
    apply div_fin_of_lt hone hs hz
    rw [hQ, abs_of_pos hQpos]
    have : (5 / 2 : ℚ) ≤ 2 ^ 20 := by norm_num
    exact lt_of_le_of_lt (le_trans hQhi this) S2Proofs.C16K.thr_big
  have hlow : (1 : ℚ) / 2 ^ 1022 ≤ |F64Round.val F64.one / q| := by
    rw [hQ, abs_of_pos hQpos]
    refine le_trans ?_ hQlo
    apply one_div_le_one_div_of_le (by positivity)
    exact pow_le_pow_right₀ (by norm_num) (by norm_num)
  have herr := div_rel_err hone hs hz hfin hlow
  rw [hQ, abs_of_pos hQpos] at herr
  have hub : F64Round.val (F64.div F64.one s) ≤ 1 / q * (1 + 1 / 2 ^ 53) := by
    have := (abs_le.mp herr).2
    have e : 1 / q * (1 + 1 / 2 ^ 53) = 1 / q + 1 / q / 2 ^ 53 := by ring
    linarith
  have hlb : 0 ≤ F64Round.val (F64.div F64.one s) := by
    have := (abs_le.mp herr).1
    have h53 : 1 / q / 2 ^ 53 ≤ 1 / q := div_le_self (le_of_lt hQpos) (by norm_num)
    linarith
  have hprod : F64Round.val (F64.div F64.one s) * q ≤ 1 + 1 / 2 ^ 53 := by
    have := mul_le_mul_of_nonneg_right hub (le_of_lt hq0)
    have e : 1 / q * (1 + 1 / 2 ^ 53) * q = 1 + 1 / 2 ^ 53 := by field_simp
    linarith
  refine ⟨hfin, ?_, ?_⟩
  · show 0 ≤ FloatErr.val (F64.div F64.one s)
    rw [valR_eq]; exact_mod_cast hlb
  · show FloatErr.val (F64.div F64.one s) * FloatErr.val s ≤ 1 + uR
    rw [valR_eq, valR_eq]
    have : ((F64Round.val (F64.div F64.one s) * q : ℚ) : ℝ) ≤ ((1 + 1 / 2 ^ 53 : ℚ) : ℝ) := by exact_mod_cast hprod
    unfold uR
    push_cast at this
    exact this

/-! ### the float chain of `Normalize` -/

theorem val_nonneg_of_pos {x : F64} (h : S2Proofs.F64Sym2.Pos x) : 0 ≤ val x := by
  unfold val
  rw [S2Proofs.F64Inj.toInt_eq_mag, h.2]
  simp only [Bool.false_eq_true, if_false]
  positivity

theorem sq_le_of_abs_le {a B : ℝ} (h : |a| ≤ B) : a ^ 2 ≤ B ^ 2 := by
  have h0 : 0 ≤ |a| := abs_nonneg a
  have : |a| ^ 2 ≤ B ^ 2 := pow_le_pow_left₀ h0 h 2
  rwa [sq_abs] at this

theorem uR_eq : uR = 1 / 2 ^ 53 := rfl

/-- a rounded square -/
theorem sq_rnd {a p : ℝ} (h : Rnd uR eR (a * a) p) (ha : |a| ≤ 101 / 100) :
    a ^ 2 * (1 - uR) - eR ≤ p ∧ p ≤ 13 / 10 ∧ |a * a| ≤ 2 := by
  have he := eR_small
  have he0 := eR_nonneg
  unfold Rnd at h
  have e1 : |a * a| = a ^ 2 := by rw [abs_mul_self, sq]
  rw [e1] at h ⊢
  have h2 := sq_le_of_abs_le ha
  have h3 : ((101 : ℝ) / 100) ^ 2 = 10201 / 10000 := by norm_num
  rw [h3] at h2
  have h4 := abs_le.mp h
  have hu := uR_eq
  have hu0 := uR_nonneg
  have a0 := sq_nonneg a
  refine ⟨by nlinarith [h4.1], ?_, by linarith⟩
  have : uR * a ^ 2 ≤ 1 / 2 ^ 53 * (10201 / 10000) := by
    rw [hu]; exact mul_le_mul_of_nonneg_left h2 (by norm_num)
  have e100 : (1 : ℝ) / 2 ^ 100 ≤ 1 / 1000 := by norm_num
  have e53 : (1 : ℝ) / 2 ^ 53 * (10201 / 10000) ≤ 1 / 1000 := by norm_num
  linarith [h4.2]

/-- a rounded sum of a non-negative exact value -/
theorem add_rnd {t v : ℝ} (ht : 0 ≤ t) (h : Rnd uR 0 t v) : t * (1 - uR) ≤ v ∧ v ≤ t * (1 + uR) := by
  unfold Rnd at h
  rw [abs_of_nonneg ht, add_zero] at h
  have := abs_le.mp h
  constructor <;> nlinarith [this.1, this.2]

/-- real arithmetic of the squared norm: lower bound of `fl(fl(px+py)+pz)` -/
theorem norm2_real {vx vy vz px py pz va vn : ℝ} (hX : 1 / 5 ≤ vx ^ 2 + vy ^ 2 + vz ^ 2)
    (lx : vx ^ 2 * (1 - uR) - eR ≤ px) (ly : vy ^ 2 * (1 - uR) - eR ≤ py) (lz : vz ^ 2 * (1 - uR) - eR ≤ pz)
    (pz0 : 0 ≤ pz) (la : (px + py) * (1 - uR) ≤ va) (ln : (va + pz) * (1 - uR) ≤ vn) :
    ((vx ^ 2 + vy ^ 2 + vz ^ 2) * (1 - uR) - 3 * eR) * (1 - uR) ^ 2 ≤ vn ∧ 18 / 100 ≤ vn := by
  have hu := uR_eq
  have he := eR_small
  have he0 := eR_nonneg
  have h1u : 0 ≤ 1 - uR := by rw [hu]; norm_num
  have h1u' : 1 - uR ≤ 1 := by have := uR_nonneg; linarith
  have s1 : (vx ^ 2 + vy ^ 2 + vz ^ 2) * (1 - uR) - 3 * eR ≤ px + py + pz := by linarith
  have t1 : (px + py) * (1 - uR) * (1 - uR) ≤ va * (1 - uR) := mul_le_mul_of_nonneg_right la h1u
  have t2 : pz * (1 - uR) * (1 - uR) ≤ pz * (1 - uR) := by
    have : pz * (1 - uR) ≤ pz := by nlinarith
    exact mul_le_mul_of_nonneg_right this h1u
  have s2 : (px + py + pz) * (1 - uR) ^ 2 ≤ vn := by
    have : (px + py + pz) * (1 - uR) ^ 2 = (px + py) * (1 - uR) * (1 - uR) + pz * (1 - uR) * (1 - uR) := by ring
    have e2 : (va + pz) * (1 - uR) = va * (1 - uR) + pz * (1 - uR) := by ring
    linarith
  have s3 := mul_le_mul_of_nonneg_right s1 (sq_nonneg (1 - uR))
  have main : ((vx ^ 2 + vy ^ 2 + vz ^ 2) * (1 - uR) - 3 * eR) * (1 - uR) ^ 2 ≤ vn := le_trans s3 s2
  refine ⟨main, le_trans ?_ main⟩
  have hA : (19 : ℝ) / 100 ≤ (vx ^ 2 + vy ^ 2 + vz ^ 2) * (1 - uR) - 3 * eR := by
    have e100 : (3 : ℝ) * (1 / 2 ^ 100) ≤ 1 / 1000 := by norm_num
    have : (1 : ℝ) / 5 * (1 - 1 / 2 ^ 53) ≤ (vx ^ 2 + vy ^ 2 + vz ^ 2) * (1 - uR) := by
      rw [hu]; exact mul_le_mul_of_nonneg_right hX (by norm_num)
    have e53 : (199 : ℝ) / 1000 ≤ 1 / 5 * (1 - 1 / 2 ^ 53) := by norm_num
    linarith
  have hB : (99 : ℝ) / 100 ≤ (1 - uR) ^ 2 := by rw [hu]; norm_num
  have := mul_le_mul hA hB (by norm_num) (by linarith)
  have e : (19 : ℝ) / 100 * (99 / 100) = 1881 / 10000 := by norm_num
  linarith

/-- the squared norm of a vector with coordinates of magnitude ≤ 1.01 and exact squared norm ≥ 1/5 -/
theorem norm2_step {w : V3} (hf : Fin3 w) (bx : |val w.x| ≤ 101 / 100) (by' : |val w.y| ≤ 101 / 100)
    (bz : |val w.z| ≤ 101 / 100) (hX : 1 / 5 ≤ val w.x ^ 2 + val w.y ^ 2 + val w.z ^ 2) :
    Fin w.norm2 ∧ 18 / 100 ≤ val w.norm2 ∧
      ((val w.x ^ 2 + val w.y ^ 2 + val w.z ^ 2) * (1 - uR) - 3 * eR) * (1 - uR) ^ 2 ≤ val w.norm2 := by
  have H := stdModel
  obtain ⟨fx, fy, fz⟩ := hf
  have px0 : 0 ≤ val (w.x * w.x) := val_nonneg_of_pos (S2Proofs.F64Sym2.sq_pos (isNaN_false fx))
  have py0 : 0 ≤ val (w.y * w.y) := val_nonneg_of_pos (S2Proofs.F64Sym2.sq_pos (isNaN_false fy))
  have pz0 : 0 ≤ val (w.z * w.z) := val_nonneg_of_pos (S2Proofs.F64Sym2.sq_pos (isNaN_false fz))
  have sqb : ∀ a : ℝ, |a| ≤ 101 / 100 → |a * a| ≤ 2 := by
    intro a ha
    rw [abs_mul]
    have h0 := abs_nonneg a
    nlinarith
  obtain ⟨fx2, rx2, _⟩ := mul_step H fx fx (sqb _ bx) (by norm_num)
  obtain ⟨fy2, ry2, _⟩ := mul_step H fy fy (sqb _ by') (by norm_num)
  obtain ⟨fz2, rz2, _⟩ := mul_step H fz fz (sqb _ bz) (by norm_num)
  obtain ⟨lx, ux, _⟩ := sq_rnd rx2 bx
  obtain ⟨ly, uy, _⟩ := sq_rnd ry2 by'
  obtain ⟨lz, uz, _⟩ := sq_rnd rz2 bz
  have hxy : 0 ≤ val (w.x * w.x) + val (w.y * w.y) := add_nonneg px0 py0
  obtain ⟨fa, ra, _⟩ := add_step H fx2 fy2 (M := 3) (by rw [abs_of_nonneg hxy]; linarith) (by norm_num)
  obtain ⟨la, ua⟩ := add_rnd hxy ra
  have hu := uR_eq
  have va0 : 0 ≤ val (w.x * w.x + w.y * w.y) := by
    refine le_trans (mul_nonneg hxy ?_) la
    rw [hu]; norm_num
  have va1 : val (w.x * w.x + w.y * w.y) ≤ 3 := by
    refine le_trans ua ?_
    have h1 : val (w.x * w.x) + val (w.y * w.y) ≤ 26 / 10 := by linarith
    have h2 : (1 : ℝ) + uR ≤ 11 / 10 := by rw [hu]; norm_num
    have := mul_le_mul h1 h2 (by rw [hu]; norm_num) (by norm_num)
    linarith
  have haz : 0 ≤ val (w.x * w.x + w.y * w.y) + val (w.z * w.z) := add_nonneg va0 pz0
  obtain ⟨fn, rn, _⟩ := add_step H fa fz2 (M := 5) (by rw [abs_of_nonneg haz]; linarith) (by norm_num)
  obtain ⟨ln, _⟩ := add_rnd haz rn
  obtain ⟨m1, m2⟩ := norm2_real hX lx ly lz pz0 la ln
  exact ⟨fn, m2, m1⟩

/-- `Normalize` does not take its zero branch, and the scale factor `fl(1/fl(√n2))` -/
theorem scale_step {n2 : F64} (fn : Fin n2) (hlo : 18 / 100 ≤ val n2) :
    F64.feq n2 (F64.zero false) = false ∧ Fin (F64.one / F64.sqrt n2) ∧ 0 ≤ val (F64.one / F64.sqrt n2) ∧
      val (F64.one / F64.sqrt n2) ≤ 53 / 20 ∧
      ∃ vs : ℝ, 0 ≤ vs ∧ val n2 * ((1 - 1 / 2 ^ 58) * (1 - uR) ^ 2) ≤ vs ^ 2 ∧ val (F64.one / F64.sqrt n2) * vs ≤ 1 + uR := by
  have hu := uR_eq
  have hfeq : F64.feq n2 (F64.zero false) = false := by
    have := S2Proofs.C16K.feq_fz n2
    unfold S2.EdgeNum.fz at this
    rw [this]
    cases hz : n2.isZero
    · rfl
    · have : val n2 = 0 := val_of_isZero hz
      linarith
  obtain ⟨fs, s0, shi, slo⟩ := sqrt_lower n2 fn (by linarith)
  have hC : (98 : ℝ) / 100 ≤ (1 - 1 / 2 ^ 58) * (1 - uR) ^ 2 := by rw [hu]; norm_num
  have vs2 : (4 : ℝ) / 25 ≤ val (F64.sqrt n2) ^ 2 := by
    have := mul_le_mul hlo hC (by norm_num) (by linarith)
    have e : (18 : ℝ) / 100 * (98 / 100) = 1764 / 10000 := by norm_num
    linarith
  have vslo : 2 / 5 ≤ val (F64.sqrt n2) := by
    by_contra hc
    have hc' : val (F64.sqrt n2) < 2 / 5 := not_le.mp hc
    have : val (F64.sqrt n2) ^ 2 < (2 / 5) ^ 2 := pow_lt_pow_left₀ hc' s0 (by norm_num)
    have e : ((2 : ℝ) / 5) ^ 2 = 4 / 25 := by norm_num
    linarith
  obtain ⟨fr, r0, rs⟩ := inv_step fs vslo shi
  have vr3 : val (F64.one / F64.sqrt n2) ≤ 53 / 20 := by
    have h1 : val (F64.one / F64.sqrt n2) * (2 / 5) ≤ val (F64.one / F64.sqrt n2) * val (F64.sqrt n2) :=
      mul_le_mul_of_nonneg_left vslo r0
    have h2 : val (F64.one / F64.sqrt n2) * (2 / 5) ≤ 1 + uR := le_trans h1 rs
    have h3 : (1 : ℝ) + uR ≤ 106 / 100 := by rw [hu]; norm_num
    linarith
  exact ⟨hfeq, fr, r0, vr3, _, s0, slo, rs⟩

/-- real arithmetic of the three scaled components -/
theorem comps_real {vr vx vy vz nx ny nz : ℝ} (r0 : 0 ≤ vr) (r3 : vr ≤ 53 / 20)
    (bx : |vx| ≤ 101 / 100) (by' : |vy| ≤ 101 / 100) (bz : |vz| ≤ 101 / 100)
    (qx : Rnd uR eR (vr * vx) nx) (qy : Rnd uR eR (vr * vy) ny) (qz : Rnd uR eR (vr * vz) nz) :
    nx ^ 2 + ny ^ 2 + nz ^ 2 ≤ (1 + uR) ^ 2 * vr ^ 2 * (vx ^ 2 + vy ^ 2 + vz ^ 2) + 17 * eR := by
  have hu := uR_eq
  have hu0 := uR_nonneg
  have he0 := eR_nonneg
  have he' : eR ≤ 1 / 1024 := le_trans eR_small (by norm_num)
  have h1 : (1 + uR) * vr ≤ 266 / 100 := by
    have : (1 : ℝ) + uR ≤ 1001 / 1000 := by rw [hu]; norm_num
    have := mul_le_mul this r3 r0 (by norm_num)
    linarith
  have h2 : 0 ≤ (1 + uR) * vr := mul_nonneg (by linarith) r0
  have comp : ∀ {a n : ℝ}, |a| ≤ 101 / 100 → Rnd uR eR (vr * a) n →
      n ^ 2 ≤ (1 + uR) ^ 2 * vr ^ 2 * a ^ 2 + 2 * eR * (27 / 10) + eR / 1024 := by
    intro a n ha h
    have hb : |n| ≤ (1 + uR) * vr * |a| + eR := by
      have := h.abs_le
      rw [abs_mul, abs_of_nonneg r0] at this
      linarith
    have hsq := sq_le_of_abs_le hb
    have a0 := abs_nonneg a
    have k : (1 + uR) * vr * |a| ≤ 27 / 10 := by
      have := mul_le_mul h1 ha a0 (by norm_num)
      linarith
    have e2 : eR ^ 2 ≤ eR / 1024 := by
      have : eR ^ 2 = eR * eR := sq eR
      rw [this]
      have := mul_le_mul_of_nonneg_left he' he0
      linarith
    have m := mul_le_mul_of_nonneg_left k (by linarith : 0 ≤ 2 * eR)
    have ex : ((1 + uR) * vr * |a| + eR) ^ 2 =
        (1 + uR) ^ 2 * vr ^ 2 * a ^ 2 + 2 * eR * ((1 + uR) * vr * |a|) + eR ^ 2 := by
      have : |a| ^ 2 = a ^ 2 := sq_abs a
      calc ((1 + uR) * vr * |a| + eR) ^ 2
          = (1 + uR) ^ 2 * vr ^ 2 * |a| ^ 2 + 2 * eR * ((1 + uR) * vr * |a|) + eR ^ 2 := by ring
        _ = _ := by rw [this]
    rw [ex] at hsq
    linarith
  have tx := comp bx qx
  have ty := comp by' qy
  have tz := comp bz qz
  have hsum : (1 + uR) ^ 2 * vr ^ 2 * vx ^ 2 + (1 + uR) ^ 2 * vr ^ 2 * vy ^ 2 + (1 + uR) ^ 2 * vr ^ 2 * vz ^ 2 =
      (1 + uR) ^ 2 * vr ^ 2 * (vx ^ 2 + vy ^ 2 + vz ^ 2) := by ring
  linarith

/-- **`Normalize` of a vector with coordinates of magnitude ≤ 1.01 and squared norm ≥ 1/5**: finite, squared norm ≤ 1 + 2^-16 -/
theorem normalize_bound {w : V3} (hf : Fin3 w) (bx : |val w.x| ≤ 101 / 100) (by' : |val w.y| ≤ 101 / 100)
    (bz : |val w.z| ≤ 101 / 100) (hX : 1 / 5 ≤ val w.x ^ 2 + val w.y ^ 2 + val w.z ^ 2) :
    Fin3 w.normalize ∧
      val w.normalize.x ^ 2 + val w.normalize.y ^ 2 + val w.normalize.z ^ 2 ≤ 1 + 1 / 2 ^ 16 := by
  have H := stdModel
  obtain ⟨fn, nlo, hn2⟩ := norm2_step hf bx by' bz hX
  obtain ⟨hfeq, fr, r0, r3, vs, s0, slo, rs⟩ := scale_step fn nlo
  have hnorm : w.normalize = w.mul (F64.one / F64.sqrt w.norm2) := by
    unfold V3.normalize
    simp only [hfeq, Bool.false_eq_true, if_false]
  have cb : ∀ a : ℝ, |a| ≤ 101 / 100 → |val (F64.one / F64.sqrt w.norm2) * a| ≤ 4 := by
    intro a ha
    rw [abs_mul, abs_of_nonneg r0]
    have h0 := abs_nonneg a
    have := mul_le_mul r3 ha h0 (by norm_num)
    linarith
  obtain ⟨gx, qx, _⟩ := mul_step H fr hf.1 (cb _ bx) (by norm_num)
  obtain ⟨gy, qy, _⟩ := mul_step H fr hf.2.1 (cb _ by') (by norm_num)
  obtain ⟨gz, qz, _⟩ := mul_step H fr hf.2.2 (cb _ bz) (by norm_num)
  rw [hnorm]
  refine ⟨⟨gx, gy, gz⟩, ?_⟩
  exact chain_real eR_nonneg eR_small hX hn2 s0 slo r0 rs (comps_real r0 r3 bx by' bz qx qy qz)

/-! ### the components of `PreciseVector.Vector()` before `Normalize` -/

/-- one scaled, rounded component: finite, of magnitude ≤ 1.01; of magnitude ≥ 0.49 if it is (one of) the largest -/
theorem comp_bound (s : SZ) (m : Nat) (hm : s.bitLen ≤ m) :
    Fin (s.toF64 (-(m : ℤ))) ∧ |val (s.toF64 (-(m : ℤ)))| ≤ 101 / 100 ∧
      (s.bitLen = m → 1 ≤ m → 49 / 100 ≤ |val (s.toF64 (-(m : ℤ)))|) := by
  unfold SZ.toF64
  by_cases h0 : s.v = 0
  · have hb : s.bitLen = 0 := by unfold SZ.bitLen; simp [h0]
    rw [h0]
    simp only [Int.natAbs_zero, S2Proofs.C16K.roundDyadic_zero]
    obtain ⟨hf, hv⟩ := zero_val s.isNeg
    refine ⟨hf, by rw [hv]; norm_num, fun h1 h2 => ?_⟩
    omega
  · have ha : 0 < s.v.natAbs := by omega
    have hb : s.bitLen = s.v.natAbs.log2 + 1 := by unfold SZ.bitLen; simp [h0]
    have hlt : s.v.natAbs < 2 ^ m :=
      lt_of_lt_of_le Nat.lt_log2_self (Nat.pow_le_pow_right (by norm_num) (by omega))
    have htw : tw (-(m : ℤ)) = ((2 : ℝ) ^ m)⁻¹ := by rw [tw_neg, tw_nat]
    have h2m : (0 : ℝ) < 2 ^ m := by positivity
    have ht1 : (s.v.natAbs : ℝ) * tw (-(m : ℤ)) < 1 := by
      rw [htw, ← div_eq_mul_inv, div_lt_one h2m]
      exact_mod_cast hlt
    have ht0 : 0 < (s.v.natAbs : ℝ) * tw (-(m : ℤ)) := by
      rw [htw]; positivity
    have hhalf : s.bitLen = m → 1 ≤ m → (1 : ℝ) / 2 ≤ (s.v.natAbs : ℝ) * tw (-(m : ℤ)) := by
      intro h1 h2
      have hge : 2 ^ (m - 1) ≤ s.v.natAbs := by
        have : s.v.natAbs.log2 = m - 1 := by omega
        rw [← this]
        exact Nat.log2_self_le (by omega)
      have hge' : ((2 : ℝ) ^ (m - 1)) ≤ (s.v.natAbs : ℝ) := by exact_mod_cast hge
      have e : (2 : ℝ) ^ m = 2 * 2 ^ (m - 1) := by
        have : m = (m - 1) + 1 := by omega
        conv_lhs => rw [this, pow_succ]
        ring
      rw [htw, ← div_eq_mul_inv, le_div_iff₀ h2m, e]
      linarith
    obtain ⟨hf, δ, η, hδ, hη, hv, _⟩ := roundDyadic_spec s.isNeg s.v.natAbs (-(m : ℤ)) ha
      (lt_trans ht1 (one_lt_pow₀ (by norm_num) (by norm_num)))
    have hu := uR_eq
    have he := eR_small
    have he0 := eR_nonneg
    generalize (s.v.natAbs : ℝ) * tw (-(m : ℤ)) = t at *
    have habs : |val (F64.roundDyadic s.isNeg s.v.natAbs (-(m : ℤ)))| = |t * (1 + δ) + η| := by
      rw [hv, abs_mul, sg_abs, one_mul]
    have hδ' := abs_le.mp hδ
    have hη' := abs_le.mp hη
    rw [hu] at hδ'
    have e100 : (1 : ℝ) / 2 ^ 100 ≤ 1 / 1000 := by norm_num
    have e53 : (1 : ℝ) / 2 ^ 53 ≤ 1 / 1000 := by norm_num
    have td1 : t * δ ≤ 1 / 1000 := by nlinarith [hδ'.2]
    have td2 : -(1 / 1000) ≤ t * δ := by nlinarith [hδ'.1]
    refine ⟨hf, ?_, fun h1 h2 => ?_⟩
    · rw [habs, abs_le]
      constructor <;> nlinarith [hη'.1, hη'.2]
    · have := hhalf h1 h2
      rw [habs]
      refine le_trans ?_ (le_abs_self _)
      nlinarith [hη'.1]

/-! ### `PreciseVector.Vector()` -/

/-- from the real bound on the squared norm to the integer predicate `NormLe` -/
theorem normLe_of_sq {p : V3} (hf : Fin3 p) (h : val p.x ^ 2 + val p.y ^ 2 + val p.z ^ 2 ≤ 1 + 1 / 2 ^ 16) : NormLe p := by
  refine ⟨hf, ?_⟩
  rw [norm2_val] at h
  have hS : (0 : ℝ) < (2 ^ 1074) ^ 2 := by positivity
  have e1 : (norm2I p : ℝ) * (1 / 2 ^ 1074) ^ 2 = (norm2I p : ℝ) / (2 ^ 1074) ^ 2 := by
    rw [one_div, inv_pow]; rfl
  rw [e1, div_le_iff₀ hS] at h
  have h3 : (((norm2I p - (scale : ℤ) ^ 2) * 2 ^ 16 : ℤ) : ℝ) ≤ (((scale : ℤ) ^ 2 : ℤ) : ℝ) := by
    push_cast
    rw [scale_cast]
    generalize ((2 : ℝ) ^ 1074) ^ 2 = S at *
    have e16 : (2 : ℝ) ^ 16 = 65536 := by norm_num
    rw [e16] at h
    clear e1
    nlinarith
  exact Int.cast_le.mp h3

theorem toVector_eq (v : PV) (e : Int) :
    v.toVector e =
      (V3.mk (v.x.toF64 (-((max v.x.bitLen (max v.y.bitLen v.z.bitLen) : Nat) : ℤ)))
        (v.y.toF64 (-((max v.x.bitLen (max v.y.bitLen v.z.bitLen) : Nat) : ℤ)))
        (v.z.toF64 (-((max v.x.bitLen (max v.y.bitLen v.z.bitLen) : Nat) : ℤ)))).normalize := rfl

theorem sq_ge_of_abs_ge {a : ℝ} (h : 49 / 100 ≤ |a|) : 1 / 5 ≤ a ^ 2 := by
  have : ((49 : ℝ) / 100) ^ 2 ≤ |a| ^ 2 := pow_le_pow_left₀ (by norm_num) h 2
  rw [sq_abs] at this
  have e : ((49 : ℝ) / 100) ^ 2 = 2401 / 10000 := by norm_num
  linarith

/-- **the rounded, normalised exact vector has finite coordinates and exact squared norm ≤ 1 + 2^-16** -/
theorem toVector_normLe (v : PV) (e : Int) : NormLe (v.toVector e) := by
  rw [toVector_eq]
  generalize hM : max v.x.bitLen (max v.y.bitLen v.z.bitLen) = M
  have hx : v.x.bitLen ≤ M := by rw [← hM]; exact le_max_left _ _
  have hy : v.y.bitLen ≤ M := by rw [← hM]; exact le_trans (le_max_left _ _) (le_max_right _ _)
  have hz : v.z.bitLen ≤ M := by rw [← hM]; exact le_trans (le_max_right _ _) (le_max_right _ _)
  by_cases h0 : M = 0
  · -- the zero vector: three signed zeros
    subst h0
    have z : ∀ s : SZ, s.bitLen ≤ 0 → s.toF64 (-((0 : Nat) : ℤ)) = F64.zero s.isNeg := by
      intro s hs
      have hv : s.v = 0 := by
        unfold SZ.bitLen at hs
        by_contra hc
        simp [hc] at hs
      unfold SZ.toF64
      rw [hv]
      simp only [Int.natAbs_zero, S2Proofs.C16K.roundDyadic_zero]
    rw [z _ hx, z _ hy, z _ hz]
    have all : ∀ a b c : Bool, NormLe (V3.mk (F64.zero a) (F64.zero b) (F64.zero c)).normalize := by
      intro a b c
      cases a <;> cases b <;> cases c <;> decide +kernel
    exact all _ _ _
  · have hM1 : 1 ≤ M := by omega
    obtain ⟨fx, bx, lx⟩ := comp_bound v.x M hx
    obtain ⟨fy, by', ly⟩ := comp_bound v.y M hy
    obtain ⟨fz, bz, lz⟩ := comp_bound v.z M hz
    have hX : 1 / 5 ≤ val (v.x.toF64 (-(M : ℤ))) ^ 2 + val (v.y.toF64 (-(M : ℤ))) ^ 2 +
        val (v.z.toF64 (-(M : ℤ))) ^ 2 := by
      have qx := sq_nonneg (val (v.x.toF64 (-(M : ℤ))))
      have qy := sq_nonneg (val (v.y.toF64 (-(M : ℤ))))
      have qz := sq_nonneg (val (v.z.toF64 (-(M : ℤ))))
      have hmax : v.x.bitLen = M ∨ v.y.bitLen = M ∨ v.z.bitLen = M := by
        rw [← hM]
        rcases max_choice v.x.bitLen (max v.y.bitLen v.z.bitLen) with h | h
        · left; exact h.symm
        · rw [h]
          rcases max_choice v.y.bitLen v.z.bitLen with h' | h'
          · right; left; exact h'.symm
          · right; right; exact h'.symm
      rcases hmax with h | h | h
      · have := sq_ge_of_abs_ge (lx h hM1); linarith
      · have := sq_ge_of_abs_ge (ly h hM1); linarith
      · have := sq_ge_of_abs_ge (lz h hM1); linarith
    obtain ⟨hf, hb⟩ := normalize_bound (w := V3.mk (v.x.toF64 (-(M : ℤ))) (v.y.toF64 (-(M : ℤ))) (v.z.toF64 (-(M : ℤ))))
      ⟨fx, fy, fz⟩ bx by' bz hX
    exact normLe_of_sq hf hb

end S2Proofs.C16N
