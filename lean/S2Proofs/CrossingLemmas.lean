/-
  S2Proofs.CrossingLemmas — hypotheses bundles and helper lemmas for property C03.

  `E` is the exact sign of the library (`Pred.exactDecision`: exact determinant sign, symbolic
  perturbation when it vanishes, 0 iff two arguments coincide).

  Hypotheses (all relative to a set `S` of points, given as a predicate):
    * `Dom S`        – on `S`, Go's `==` (IEEE, `V3.feq`) is plain equality (no NaN coordinate, no two
                       points differing only in the sign of a zero) and the zero vector is not in `S`;
    * `SignLaws S`   – algebraic laws of the exact sign (rotation, swap, ±1 on distinct points);
                       proved for the decision model by the C02 package, taken here as hypotheses;
    * `FloatSound S` – the three float filters never contradict the exact sign: `triageSign`,
                       `stableSign` (non-zero ⇒ exact) and the outward-tangent early rejection
                       (rejects ⇒ the exact answer is DoNotCross).  NOT proved (float error analysis).
  Each bundle has a Bool checker over a finite list, used for the non-vacuity examples and usable by
  the oracle.
-/
import S2.Pred
import S2.Crossing
import S2.Crosser
namespace S2Proofs.C03
open S2 S2.Pred S2.Crossing

/-- the exact sign -/
local notation "E" => S2.Pred.exactDecision

structure Dom (S : V3 → Prop) : Prop where
  feq_iff : ∀ x y, S x → S y → (V3.feq x y = true ↔ x = y)
  ne_zero : ∀ x, S x → V3.feq x zero3 = false

structure SignLaws (S : V3 → Prop) : Prop where
  rot : ∀ a b c, S a → S b → S c → E a b c = E b c a
  swap : ∀ a b c, S a → S b → S c → E b a c = -(E a b c)
  unit : ∀ a b c, S a → S b → S c → a ≠ b → b ≠ c → c ≠ a → E a b c = 1 ∨ E a b c = -1

structure FloatSound (S : V3 → Prop) : Prop where
  triage : ∀ a b c, S a → S b → S c → triageSign a b c ≠ 0 → triageSign a b c = E a b c
  stable : ∀ a b c, S a → S b → S c → a ≠ b → b ≠ c → c ≠ a →
    stableSign a b c ≠ 0 → stableSign a b c = E a b c
  tangent : ∀ a b c d, S a → S b → S c → S d →
    tangentReject (tangents a b).1 (tangents a b).2 c d = true → exactCrossing a b c d = -1

/-! ### Bool checkers over a finite list -/

def domB (L : List V3) : Bool :=
  L.all fun x => !(V3.feq x zero3) && L.all fun y => V3.feq x y == decide (x = y)

def signLawsB (L : List V3) : Bool :=
  L.all fun a => L.all fun b => L.all fun c =>
    E a b c == E b c a && E b a c == -(E a b c) &&
    (decide (a = b) || decide (b = c) || decide (c = a) || E a b c == 1 || E a b c == -1)

/-- triple part of the float-soundness check -/
def triSoundB (L : List V3) : Bool :=
  L.all fun a => L.all fun b => L.all fun c =>
    (triageSign a b c == 0 || triageSign a b c == E a b c) &&
    (decide (a = b) || decide (b = c) || decide (c = a) ||
      stableSign a b c == 0 || stableSign a b c == E a b c)

/-- tangent part for one first vertex `a` (split so that each kernel evaluation stays short) -/
def tanSoundB (L : List V3) (a : V3) : Bool :=
  L.all fun b => L.all fun c => L.all fun d =>
    !(tangentReject (tangents a b).1 (tangents a b).2 c d) || exactCrossing a b c d == -1

def floatSoundB (L : List V3) : Bool := triSoundB L && L.all (tanSoundB L)

theorem dom_of_check {L : List V3} (h : domB L = true) : Dom (· ∈ L) := by
  simp only [domB, List.all_eq_true, Bool.and_eq_true, Bool.not_eq_true', beq_iff_eq] at h
  refine ⟨fun x y hx hy => ?_, fun x hx => (h x hx).1⟩
  have := (h x hx).2 y hy
  rw [this]; simp

theorem signLaws_of_check {L : List V3} (h : signLawsB L = true) : SignLaws (· ∈ L) := by
  simp only [signLawsB, List.all_eq_true, Bool.and_eq_true, Bool.or_eq_true, beq_iff_eq,
    decide_eq_true_eq] at h
  refine ⟨fun a b c ha hb hc => (h a ha b hb c hc).1.1, fun a b c ha hb hc => (h a ha b hb c hc).1.2,
    fun a b c ha hb hc h1 h2 h3 => ?_⟩
  rcases (h a ha b hb c hc).2 with ((((h' | h') | h') | h') | h')
  · exact absurd h' h1
  · exact absurd h' h2
  · exact absurd h' h3
  · exact Or.inl h'
  · exact Or.inr h'

theorem floatSound_of_parts {L : List V3} (h1 : triSoundB L = true)
    (h2 : ∀ a, a ∈ L → tanSoundB L a = true) : FloatSound (· ∈ L) := by
  simp only [triSoundB, List.all_eq_true, Bool.and_eq_true, Bool.or_eq_true, beq_iff_eq,
    decide_eq_true_eq] at h1
  refine ⟨fun a b c ha hb hc hn => ?_, fun a b c ha hb hc h1' h2' h3' hn => ?_,
    fun a b c d ha hb hc hd ht => ?_⟩
  · rcases (h1 a ha b hb c hc).1 with h' | h'
    · exact absurd h' hn
    · exact h'
  · rcases (h1 a ha b hb c hc).2 with ((((h' | h') | h') | h') | h')
    · exact absurd h' h1'
    · exact absurd h' h2'
    · exact absurd h' h3'
    · exact absurd h' hn
    · exact h'
  · have := h2 a ha
    simp only [tanSoundB, List.all_eq_true, Bool.or_eq_true, beq_iff_eq, Bool.not_eq_true'] at this
    rcases this b hb c hc d hd with h' | h'
    · rw [ht] at h'; exact absurd h' (by decide)
    · exact h'

theorem floatSound_of_check {L : List V3} (h : floatSoundB L = true) : FloatSound (· ∈ L) := by
  simp only [floatSoundB, Bool.and_eq_true, List.all_eq_true] at h
  exact floatSound_of_parts h.1 h.2

/-! ### consequences of the sign laws: all six argument orders -/

section perms
variable {S : V3 → Prop} (hL : SignLaws S) {a b c : V3} (ha : S a) (hb : S b) (hc : S c)
include hL ha hb hc

theorem E_bca : E b c a = E a b c := (hL.rot a b c ha hb hc).symm
theorem E_cab : E c a b = E a b c := by
  rw [← hL.rot b c a hb hc ha, ← hL.rot a b c ha hb hc]
theorem E_bac : E b a c = -(E a b c) := hL.swap a b c ha hb hc
theorem E_acb : E a c b = -(E a b c) := by
  rw [hL.rot a c b ha hc hb, hL.swap b c a hb hc ha, ← hL.rot a b c ha hb hc]
theorem E_cba : E c b a = -(E a b c) := by
  rw [hL.rot c b a hc hb ha, hL.swap a b c ha hb hc]
end perms

theorem E_aab {S : V3 → Prop} (hL : SignLaws S) {a c : V3} (ha : S a) (hc : S c) : E a a c = 0 := by
  have := hL.swap a a c ha ha hc; omega
theorem E_aba {S : V3 → Prop} (hL : SignLaws S) {a c : V3} (ha : S a) (hc : S c) : E a c a = 0 := by
  have := E_acb hL ha ha hc; rw [this, E_aab hL ha hc]; rfl
theorem E_baa {S : V3 → Prop} (hL : SignLaws S) {a c : V3} (ha : S a) (hc : S c) : E c a a = 0 := by
  have := E_cab hL ha ha hc; rw [E_aab hL ha hc] at this; exact this

/-! ### Go `==` on the domain -/

theorem feq_eq_decide {S : V3 → Prop} (hD : Dom S) {x y : V3} (hx : S x) (hy : S y) :
    V3.feq x y = decide (x = y) := by
  have := hD.feq_iff x y hx hy
  by_cases h : x = y
  · subst h; simp [this.mpr rfl]
  · have : V3.feq x y = false := by
      cases hf : V3.feq x y
      · rfl
      · exact absurd (this.mp hf) h
    simp [h, this]

/-! ### the float filters, given soundness -/

theorem exactSign_true_of_false_ne {a b c : V3} (h : exactSign a b c false ≠ 0) :
    exactSign a b c true = exactSign a b c false := by
  unfold exactSign at *
  generalize sort3 (fun u v => decide (V3.cmp u v > 0)) a b c = t at *
  obtain ⟨pa, pb, pc, s⟩ := t
  simp only [exactSignSorted] at *
  by_cases hd : Exact.sgn ((Exact.ofV3 pa).dot ((Exact.ofV3 pb).cross (Exact.ofV3 pc))) = 0
  · simp [hd] at h
  · simp [hd]

theorem expensiveSign_eq {S : V3 → Prop} (hD : Dom S) (hF : FloatSound S) {a b c : V3}
    (ha : S a) (hb : S b) (hc : S c) : expensiveSign a b c = E a b c := by
  unfold expensiveSign expensiveSignS exactDecision
  by_cases heq : (V3.feq a b || V3.feq b c || V3.feq c a) = true
  · simp [heq]
  · have hne : (V3.feq a b || V3.feq b c || V3.feq c a) = false := by
      cases hh : (V3.feq a b || V3.feq b c || V3.feq c a) <;> simp_all
    rw [if_neg heq, if_neg heq]
    have h1 : a ≠ b := by
      intro h; apply heq; simp [(hD.feq_iff a b ha hb).mpr h]
    have h2 : b ≠ c := by
      intro h; apply heq; simp [(hD.feq_iff b c hb hc).mpr h]
    have h3 : c ≠ a := by
      intro h; apply heq; simp [(hD.feq_iff c a hc ha).mpr h]
    have hE : E a b c = exactSign a b c true := by
      unfold exactDecision; rw [if_neg heq]
    by_cases hs : stableSign a b c = 0
    · simp only [hs]
      by_cases hu : exactSign a b c false = 0
      · simp [hu]
      · simp [hu, exactSign_true_of_false_ne hu]
    · have := hF.stable a b c ha hb hc h1 h2 h3 hs
      rw [hE] at this
      rw [this] at hs
      simp [this, hs]

theorem robustSign_eq {S : V3 → Prop} (hD : Dom S) (hF : FloatSound S) {a b c : V3}
    (ha : S a) (hb : S b) (hc : S c) : robustSign a b c = E a b c := by
  unfold robustSign robustSignS
  by_cases ht : triageSign a b c = 0
  · simp only [ht]
    exact expensiveSign_eq hD hF ha hb hc
  · have := hF.triage a b c ha hb hc ht
    rw [this] at ht
    simp [this, ht]

theorem triage_cases {S : V3 → Prop} (hF : FloatSound S) {a b c : V3}
    (ha : S a) (hb : S b) (hc : S c) : triageSign a b c = 0 ∨ triageSign a b c = E a b c := by
  by_cases ht : triageSign a b c = 0
  · exact Or.inl ht
  · exact Or.inr (hF.triage a b c ha hb hc ht)

/-! ### the specification -/

section spec
variable {S : V3 → Prop} (hD : Dom S) (hL : SignLaws S) {a b c d : V3}
  (ha : S a) (hb : S b) (hc : S c) (hd : S d)

include hD ha hb hc hd in
theorem shares_iff : sharesEndpoint a b c d = true ↔ (a = c ∨ a = d ∨ b = c ∨ b = d) := by
  unfold sharesEndpoint
  rw [feq_eq_decide hD ha hc, feq_eq_decide hD ha hd, feq_eq_decide hD hb hc, feq_eq_decide hD hb hd]
  simp [or_assoc]

include hD ha hb hc hd in
theorem shares_false (h1 : a ≠ c) (h2 : a ≠ d) (h3 : b ≠ c) (h4 : b ≠ d) :
    sharesEndpoint a b c d = false := by
  cases h : sharesEndpoint a b c d
  · rfl
  · rcases (shares_iff hD ha hb hc hd).mp h with h | h | h | h <;> contradiction

include hL ha hb hc hd in
/-- the four-orientation criterion in terms of the four signs the code computes -/
theorem fourSame_iff : fourSameWith exactDecision a b c d = true ↔
    (E a b c ≠ 0 ∧ E c d b = E a b c ∧ E a b d = -(E a b c) ∧ E c d a = -(E a b c)) := by
  have h1 : E a c b = -(E a b c) := E_acb hL ha hb hc
  have h2 : E c b d = -(E c d b) := E_acb hL hc hd hb
  have h3 : E b d a = E a b d := E_bca hL ha hb hd
  have h4 : E d a c = E c d a := E_bca hL hc hd ha
  unfold fourSameWith
  simp only [Bool.and_eq_true, bne_iff_ne, beq_iff_eq, ne_eq]
  rw [h1, h2, h3, h4]
  omega

theorem exactCrossing_of_shares (h : sharesEndpoint a b c d = true) : exactCrossing a b c d = 0 := by
  simp [exactCrossing, exactCrossingWith, h]

theorem exactCrossing_neg_one (h : sharesEndpoint a b c d = false)
    (h4 : ¬ (fourSameWith exactDecision a b c d = true)) : exactCrossing a b c d = -1 := by
  simp [exactCrossing, exactCrossingWith, h, h4]

theorem exactCrossing_one (h : sharesEndpoint a b c d = false)
    (h4 : fourSameWith exactDecision a b c d = true) : exactCrossing a b c d = 1 := by
  simp [exactCrossing, exactCrossingWith, h, h4]

end spec

/-! ### the body of ChainCrossingSign computes the specification and keeps the cache invariant -/

section chain
variable {S : V3 → Prop} (hD : Dom S) (hL : SignLaws S) (hF : FloatSound S) {a b c d : V3}
  (ha : S a) (hb : S b) (hc : S c) (hd : S d)

include hD hL hF ha hb hc hd in
theorem slowSign_spec {acb bda : Int} (hacb : acb = 0 ∨ acb = -(E a b c))
    (hbda : bda = 0 ∨ bda = E a b d) :
    (slowSign a b (tangents a b).1 (tangents a b).2 c acb d bda).1 = exactCrossing a b c d ∧
    ((slowSign a b (tangents a b).1 (tangents a b).2 c acb d bda).2 = 0 ∨
     (slowSign a b (tangents a b).1 (tangents a b).2 c acb d bda).2 = E a b d) := by
  unfold slowSign
  by_cases hT : tangentReject (tangents a b).1 (tangents a b).2 c d = true
  · rw [if_pos hT]
    exact ⟨(hF.tangent a b c d ha hb hc hd hT).symm, hbda⟩
  rw [if_neg hT]
  by_cases hsh : (V3.feq a c || V3.feq a d || V3.feq b c || V3.feq b d) = true
  · rw [if_pos hsh]
    exact ⟨(exactCrossing_of_shares (by simpa [sharesEndpoint] using hsh)).symm, hbda⟩
  rw [if_neg hsh]
  have hsh' : sharesEndpoint a b c d = false := by
    cases h : sharesEndpoint a b c d
    · rfl
    · exact absurd (by simpa [sharesEndpoint] using h) hsh
  have hne := fun h => (shares_iff hD ha hb hc hd).mpr h
  have hac : a ≠ c := fun h => by simp [hne (Or.inl h)] at hsh'
  have had : a ≠ d := fun h => by simp [hne (Or.inr (Or.inl h))] at hsh'
  have hbc : b ≠ c := fun h => by simp [hne (Or.inr (Or.inr (Or.inl h)))] at hsh'
  have hbd : b ≠ d := fun h => by simp [hne (Or.inr (Or.inr (Or.inr h)))] at hsh'
  have h4 := fourSame_iff hL ha hb hc hd
  by_cases hdeg : (V3.feq a b || V3.feq c d) = true
  · rw [if_pos hdeg]
    refine ⟨(exactCrossing_neg_one hsh' ?_).symm, hbda⟩
    rw [h4]
    rw [feq_eq_decide hD ha hb, feq_eq_decide hD hc hd] at hdeg
    simp only [Bool.or_eq_true, decide_eq_true_eq] at hdeg
    rcases hdeg with h | h
    · subst h
      have := E_aab hL ha hc
      omega
    · subst h
      have := E_aab hL hc hb
      omega
  rw [if_neg hdeg]
  rw [feq_eq_decide hD ha hb, feq_eq_decide hD hc hd] at hdeg
  simp only [Bool.or_eq_true, decide_eq_true_eq, not_or] at hdeg
  obtain ⟨hab, hcd⟩ := hdeg
  have hp := hL.unit a b c ha hb hc hab hbc (Ne.symm hac)
  have e1 : expensiveSign a b c = E a b c := expensiveSign_eq hD hF ha hb hc
  have e2 : expensiveSign a b d = E a b d := expensiveSign_eq hD hF ha hb hd
  have e3 : robustSign c d b = E c d b := robustSign_eq hD hF hc hd hb
  have e4 : robustSign c d a = E c d a := robustSign_eq hD hF hc hd ha
  rw [e1, e2, e3, e4]
  generalize E a b c = p at *
  generalize E a b d = q at *
  generalize E c d b = s at *
  generalize E c d a = r at *
  have hacb' : (if (acb == 0) = true then -p else acb) = -p := by
    rcases hacb with h | h
    · simp [h]
    · by_cases h0 : acb = 0
      · simp [h0]
      · simp [h]
  have hbda' : (if (bda == 0) = true then q else bda) = q := by
    rcases hbda with h | h
    · simp [h]
    · by_cases h0 : bda = 0
      · simp [h0]
      · simp [h]
  simp only [hacb', hbda']
  by_cases hx : q = -p
  · by_cases hy : s = p
    · by_cases hz : r = -p
      · have : fourSameWith exactDecision a b c d = true := h4.mpr ⟨by omega, hy, hx, hz⟩
        rw [exactCrossing_one hsh' this]
        simp [hx, hy, hz]
      · have : ¬ fourSameWith exactDecision a b c d = true := fun h => hz (h4.mp h).2.2.2
        rw [exactCrossing_neg_one hsh' this]
        subst hx hy
        simp [hz]
    · have : ¬ fourSameWith exactDecision a b c d = true := fun h => hy (h4.mp h).2.1
      rw [exactCrossing_neg_one hsh' this]
      subst hx
      simp [hy]
  · have : ¬ fourSameWith exactDecision a b c d = true := fun h => hx (h4.mp h).2.2.1
    rw [exactCrossing_neg_one hsh' this]
    simp [hx]

include hD hL hF ha hb hc hd in
theorem chainSign_spec {acb : Int} (hacb : acb = 0 ∨ acb = -(E a b c)) :
    (chainSign a b (tangents a b).1 (tangents a b).2 c acb d).1 = exactCrossing a b c d ∧
    ((chainSign a b (tangents a b).1 (tangents a b).2 c acb d).2 = 0 ∨
     (chainSign a b (tangents a b).1 (tangents a b).2 c acb d).2 = -(E a b d)) := by
  have hbda := triage_cases hF ha hb hd
  unfold chainSign
  generalize triageSign a b d = bda at *
  by_cases hfast : (acb == -bda && bda != 0) = true
  · simp only [hfast, if_true]
    simp only [Bool.and_eq_true, beq_iff_eq, bne_iff_ne, ne_eq] at hfast
    obtain ⟨h1, h2⟩ := hfast
    have hq : bda = E a b d := by rcases hbda with h | h; exact absurd h h2; exact h
    have hp : E a b c = E a b d := by rcases hacb with h | h <;> omega
    have hq0 : E a b d ≠ 0 := by omega
    have hac : a ≠ c := fun h => by subst h; have := E_aba hL ha hb; omega
    have hbc : b ≠ c := fun h => by subst h; have := E_baa hL hb ha; omega
    have had : a ≠ d := fun h => by subst h; have := E_aba hL ha hb; omega
    have hbd : b ≠ d := fun h => by subst h; have := E_baa hL hb ha; omega
    refine ⟨(exactCrossing_neg_one (shares_false hD ha hb hc hd hac had hbc hbd) ?_).symm, Or.inr (by omega)⟩
    rw [fourSame_iff hL ha hb hc hd]
    omega
  · rw [if_neg hfast]
    have := slowSign_spec hD hL hF ha hb hc hd hacb hbda
    generalize slowSign a b (tangents a b).1 (tangents a b).2 c acb d bda = res at *
    obtain ⟨r, x⟩ := res
    simp only at this ⊢
    exact ⟨this.1, by omega⟩

end chain

/-! ### the crosser state machine -/

open S2.Crosser in
/-- what the EdgeCrosser for the edge `a b` maintains between calls -/
structure Inv (S : V3 → Prop) (a b : V3) (e : S2.Crosser.St) : Prop where
  ha : e.a = a
  hb : e.b = b
  haT : e.aTangent = (tangents a b).1
  hbT : e.bTangent = (tangents a b).2
  /-- the cached orientation is either "unknown" (0) or the exact orientation of A,C,B -/
  cache : e.acb = 0 ∨ e.acb = -(E a b e.c)
  /-- the chain vertex is a point of the domain, or still the Go zero value -/
  cur : S e.c ∨ e.c = zero3

section crosser
open S2.Crosser
variable {S : V3 → Prop} (hD : Dom S) (hL : SignLaws S) (hF : FloatSound S) {a b : V3}
  (ha : S a) (hb : S b)

theorem init_inv : Inv S a b (init a b) :=
  ⟨rfl, rfl, rfl, rfl, Or.inl rfl, Or.inr rfl⟩

include hF ha hb in
theorem restartAt_inv {e : St} (hI : Inv S a b e) {c : V3} (hc : S c) :
    Inv S a b (restartAt e c) ∧ (restartAt e c).c = c := by
  refine ⟨⟨hI.ha, hI.hb, hI.haT, hI.hbT, ?_, Or.inl hc⟩, rfl⟩
  show -(triageSign e.a e.b c) = 0 ∨ -(triageSign e.a e.b c) = -(E a b c)
  rw [hI.ha, hI.hb]
  rcases triage_cases hF ha hb hc with h | h <;> omega

include hD hF ha hb in
/-- the `if c != e.c { e.RestartAt(c) }` prologue of CrossingSign / EdgeOrVertexCrossing -/
theorem prologue_inv {e : St} (hI : Inv S a b e) {c : V3} (hc : S c) :
    Inv S a b (if !(V3.feq c e.c) then restartAt e c else e) ∧
    (if !(V3.feq c e.c) then restartAt e c else e).c = c := by
  by_cases h : V3.feq c e.c = true
  · have hcc : e.c = c := by
      rcases hI.cur with h' | h'
      · exact ((hD.feq_iff c e.c hc h').mp h).symm
      · rw [h', hD.ne_zero c hc] at h; exact absurd h (by decide)
    simp only [h, Bool.not_true, Bool.false_eq_true, if_false]
    exact ⟨hI, hcc⟩
  · have : V3.feq c e.c = false := by cases hh : V3.feq c e.c <;> simp_all
    simp only [this, Bool.not_false, if_true]
    exact restartAt_inv hF ha hb hI hc

include hD hL hF ha hb in
theorem chainCrossingSign_spec {e : St} (hI : Inv S a b e) (hc : S e.c) {d : V3} (hd : S d) :
    (chainCrossingSign e d).2 = exactCrossing a b e.c d ∧
    Inv S a b (chainCrossingSign e d).1 ∧ (chainCrossingSign e d).1.c = d := by
  unfold chainCrossingSign
  have heq : chainSign e.a e.b e.aTangent e.bTangent e.c e.acb d =
      chainSign a b (tangents a b).1 (tangents a b).2 e.c e.acb d := by
    rw [hI.ha, hI.hb, hI.haT, hI.hbT]
  rw [heq]
  have := chainSign_spec hD hL hF ha hb hc hd hI.cache
  generalize chainSign a b (tangents a b).1 (tangents a b).2 e.c e.acb d = res at *
  obtain ⟨r, x⟩ := res
  simp only at this ⊢
  exact ⟨this.1, ⟨hI.ha, hI.hb, hI.haT, hI.hbT, this.2, Or.inl hd⟩, trivial⟩

include hD hL hF ha hb in
/-- the stateless `CrossingSign` computes the specification -/
theorem crossingSign_eq_exact {c d : V3} (hc : S c) (hd : S d) :
    Crossing.crossingSign a b c d = exactCrossing a b c d := by
  unfold Crossing.crossingSign
  have hacb : -(triageSign a b c) = 0 ∨ -(triageSign a b c) = -(E a b c) := by
    rcases triage_cases hF ha hb hc with h | h <;> omega
  exact (chainSign_spec hD hL hF ha hb hc hd hacb).1

/-- Go's `CrossingSign` (fresh chain crosser, one call) is the flattened stateless function -/
theorem statelessViaCrosser_eq (a b c d : V3) :
    statelessViaCrosser a b c d = Crossing.crossingSign a b c d := rfl

include hD hL hF ha hb in
theorem step_spec {e : St} (hI : Inv S a b e) (op : Op) (hop : ∀ p ∈ op.points, S p)
    (hcur : S e.c ∨ op.isChain = false) :
    (step e op).2 = (specStep a b e.c op).2 ∧ Inv S a b (step e op).1 ∧
    (step e op).1.c = (specStep a b e.c op).1 ∧ S (step e op).1.c := by
  cases op with
  | restartAt c =>
    have hc : S c := hop c (by simp [Op.points])
    obtain ⟨h1, h2⟩ := restartAt_inv hF ha hb hI hc
    exact ⟨rfl, h1, h2, by rw [show (step e (.restartAt c)).1.c = c from h2]; exact hc⟩
  | chainCrossingSign d =>
    have hd : S d := hop d (by simp [Op.points])
    have hc : S e.c := by rcases hcur with h | h; exact h; simp [Op.isChain] at h
    obtain ⟨h1, h2, h3⟩ := chainCrossingSign_spec hD hL hF ha hb hI hc hd
    refine ⟨?_, h2, h3, (show S (chainCrossingSign _ d).1.c from h3 ▸ hd)⟩
    show Out.sign (chainCrossingSign e d).2 = Out.sign (Crossing.crossingSign a b e.c d)
    rw [h1, crossingSign_eq_exact hD hL hF ha hb hc hd]
  | crossingSign c d =>
    have hc : S c := hop c (by simp [Op.points])
    have hd : S d := hop d (by simp [Op.points])
    obtain ⟨g1, g2⟩ := prologue_inv hD hF ha hb hI hc
    have hc' : S (if !(V3.feq c e.c) then restartAt e c else e).c := by rw [g2]; exact hc
    obtain ⟨h1, h2, h3⟩ := chainCrossingSign_spec hD hL hF ha hb g1 hc' hd
    refine ⟨?_, h2, h3, (show S (chainCrossingSign _ d).1.c from h3 ▸ hd)⟩
    show Out.sign (chainCrossingSign _ d).2 = Out.sign (Crossing.crossingSign a b c d)
    rw [h1, g2, crossingSign_eq_exact hD hL hF ha hb hc hd]
  | edgeOrVertexCrossing c d =>
    have hc : S c := hop c (by simp [Op.points])
    have hd : S d := hop d (by simp [Op.points])
    obtain ⟨g1, g2⟩ := prologue_inv hD hF ha hb hI hc
    have hc' : S (if !(V3.feq c e.c) then restartAt e c else e).c := by rw [g2]; exact hc
    obtain ⟨h1, h2, h3⟩ := chainCrossingSign_spec hD hL hF ha hb g1 hc' hd
    refine ⟨?_, h2, h3, (show S (chainCrossingSign _ d).1.c from h3 ▸ hd)⟩
    show Out.bool (edgeOrVertexChainCrossing _ d).2 = Out.bool (Crossing.edgeOrVertexCrossing a b c d)
    unfold edgeOrVertexChainCrossing Crossing.edgeOrVertexCrossing
    simp only
    rw [h1, g2, g1.ha, g1.hb, crossingSign_eq_exact hD hL hF ha hb hc hd]
  | edgeOrVertexChainCrossing d =>
    have hd : S d := hop d (by simp [Op.points])
    have hc : S e.c := by rcases hcur with h | h; exact h; simp [Op.isChain] at h
    obtain ⟨h1, h2, h3⟩ := chainCrossingSign_spec hD hL hF ha hb hI hc hd
    refine ⟨?_, h2, h3, (show S (chainCrossingSign _ d).1.c from h3 ▸ hd)⟩
    show Out.bool (edgeOrVertexChainCrossing e d).2 = Out.bool (Crossing.edgeOrVertexCrossing a b e.c d)
    unfold edgeOrVertexChainCrossing Crossing.edgeOrVertexCrossing
    simp only
    rw [h1, hI.ha, hI.hb, crossingSign_eq_exact hD hL hF ha hb hc hd]

include hD hL hF ha hb in
theorem run_eq_spec (ops : List Op) : ∀ {e : St}, Inv S a b e →
    (∀ op ∈ ops, ∀ p ∈ op.points, S p) → (S e.c ∨ wellFormed ops = true) →
    run e ops = spec a b e.c ops := by
  induction ops with
  | nil => intros; rfl
  | cons op rest ih =>
    intro e hI hpts hcur
    have hcur' : S e.c ∨ op.isChain = false := by
      rcases hcur with h | h
      · exact Or.inl h
      · right; simpa [wellFormed] using h
    obtain ⟨h1, h2, h3, h4⟩ := step_spec hD hL hF ha hb hI op (hpts op (by simp)) hcur'
    have ihr := ih h2 (fun o ho => hpts o (by simp [ho])) (Or.inl h4)
    show (let (e', o) := step e op; o :: run e' rest) =
      (let (cur', o) := specStep a b e.c op; o :: spec a b cur' rest)
    generalize hs : step e op = se at *
    generalize ht : specStep a b e.c op = sp at *
    obtain ⟨e', o⟩ := se
    obtain ⟨cur', o'⟩ := sp
    simp only at h1 h3 ihr ⊢
    rw [h1, ihr, h3]

/-- the state after a history -/
def exec (e : St) : List Op → St
  | [] => e
  | op :: rest => exec (step e op).1 rest

include hD hL hF ha hb in
theorem exec_inv (ops : List Op) : ∀ {e : St}, Inv S a b e →
    (∀ op ∈ ops, ∀ p ∈ op.points, S p) → (S e.c ∨ wellFormed ops = true) →
    Inv S a b (exec e ops) := by
  induction ops with
  | nil => intro e hI _ _; exact hI
  | cons op rest ih =>
    intro e hI hpts hcur
    have hcur' : S e.c ∨ op.isChain = false := by
      rcases hcur with h | h
      · exact Or.inl h
      · right; simpa [wellFormed] using h
    obtain ⟨_, h2, _, h4⟩ := step_spec hD hL hF ha hb hI op (hpts op (by simp)) hcur'
    exact ih h2 (fun o ho => hpts o (by simp [ho])) (Or.inl h4)

end crosser

/-! ### OrderedCCW / VertexCrossing -/

/-- what the vertex rules need from an orientation function `rs` on a point set `T` -/
structure RSLaws (T : V3 → Prop) (rs : V3 → V3 → V3 → Int) : Prop where
  anti : ∀ x o y, T x → T o → T y → rs y o x = -(rs x o y)
  unit : ∀ x o y, T x → T o → T y → x ≠ o → o ≠ y → y ≠ x → rs x o y = 1 ∨ rs x o y = -1

def rsLawsB (L : List V3) (rs : V3 → V3 → V3 → Int) : Bool :=
  L.all fun x => L.all fun o => L.all fun y =>
    rs y o x == -(rs x o y) &&
    (decide (x = o) || decide (o = y) || decide (y = x) || rs x o y == 1 || rs x o y == -1)

theorem rsLaws_of_check {L : List V3} {rs : V3 → V3 → V3 → Int} (h : rsLawsB L rs = true) :
    RSLaws (· ∈ L) rs := by
  simp only [rsLawsB, List.all_eq_true, Bool.and_eq_true, Bool.or_eq_true, beq_iff_eq,
    decide_eq_true_eq] at h
  refine ⟨fun x o y hx ho hy => (h x hx o ho y hy).1, fun x o y hx ho hy h1 h2 h3 => ?_⟩
  rcases (h x hx o ho y hy).2 with ((((h' | h') | h') | h') | h')
  · exact absurd h' h1
  · exact absurd h' h2
  · exact absurd h' h3
  · exact Or.inl h'
  · exact Or.inr h'

/-- `RobustSign` satisfies the laws wherever the exact sign does and the float filters are sound -/
theorem rsLaws_robust {S : V3 → Prop} (hD : Dom S) (hL : SignLaws S) (hF : FloatSound S) :
    RSLaws S robustSign := by
  refine ⟨fun x o y hx ho hy => ?_, fun x o y hx ho hy h1 h2 h3 => ?_⟩
  · rw [robustSign_eq hD hF hy ho hx, robustSign_eq hD hF hx ho hy]
    exact E_cba hL hx ho hy
  · rw [robustSign_eq hD hF hx ho hy]
    exact hL.unit x o y hx ho hy h1 h2 h3

section occw
variable {T : V3 → Prop} {rs : V3 → V3 → V3 → Int} (hR : RSLaws T rs)
include hR

/-- around `o`, starting from `r`: exactly one of "r, d, b in CCW order" and "r, b, d in CCW order" -/
theorem occw_compl {r o b d : V3} (hr : T r) (ho : T o) (hb : T b) (hd : T d)
    (h1 : d ≠ o) (h2 : o ≠ b) (h3 : b ≠ d) :
    orderedCCWWith rs r d b o = !(orderedCCWWith rs r b d o) := by
  have a1 : rs d o r = -(rs r o d) := hR.anti r o d hr ho hd
  have a2 : rs b o d = -(rs d o b) := hR.anti d o b hd ho hb
  have a3 : rs r o b = -(rs b o r) := hR.anti b o r hb ho hr
  have hy := hR.unit d o b hd ho hb h1 h2 h3
  unfold orderedCCWWith
  simp only []
  rw [a1, a2, a3]
  generalize rs r o d = x at *
  generalize rs d o b = y at *
  generalize rs b o r = z at *
  have e1 : (-x != -1) = (x != 1) := by
    rw [Bool.eq_iff_iff]; simp only [bne_iff_ne, ne_eq]; omega
  have e2 : (-z == 1) = (z == -1) := by
    rw [Bool.eq_iff_iff]; simp only [beq_iff_eq]; omega
  rw [e1, e2]
  rcases hy with hy | hy <;> subst hy <;> by_cases hx : x = 1 <;> by_cases hz : z = -1 <;>
    simp [hx, hz]

/-- `OrderedCCW(r, a, a, o)` is true (rule 4 of the Go comment of OrderedCCW) -/
theorem occw_mid_eq {r o a : V3} (hr : T r) (ho : T o) (ha : T a) :
    orderedCCWWith rs r a a o = true := by
  have a1 : rs r o a = -(rs a o r) := hR.anti a o r ha ho hr
  have a2 : rs a o a = 0 := by have := hR.anti a o a ha ho ha; omega
  unfold orderedCCWWith
  simp only []
  rw [a1, a2]
  generalize rs a o r = x at *
  by_cases hx : x = -1
  · simp [hx]
  · have : -x ≠ 1 := by omega
    simp [hx, this]
end occw

section vc
variable {T : V3 → Prop} (hD : Dom T) (occw : V3 → V3 → V3 → V3 → Bool) {a b c d : V3}
  (ha : T a) (hb : T b) (hc : T c) (hd : T d)
include hD ha hb hc hd

/-- `VertexCrossing` with Go `==` replaced by equality -/
theorem vc_eq : vertexCrossingWith occw a b c d =
    (if a = b ∨ c = d then false
     else if a = c then decide (b = d) || occw (referenceDir a) d b a
     else if b = d then occw (referenceDir b) c a b
     else if a = d then decide (b = c) || occw (referenceDir a) c b a
     else if b = c then occw (referenceDir b) d a b
     else false) := by
  unfold vertexCrossingWith
  rw [feq_eq_decide hD ha hb, feq_eq_decide hD hc hd, feq_eq_decide hD ha hc,
    feq_eq_decide hD hb hd, feq_eq_decide hD ha hd, feq_eq_decide hD hb hc]
  simp only [Bool.or_eq_true, decide_eq_true_eq]
end vc

end S2Proofs.C03
