/-
  S2Proofs.C03Zero.Chain — the chain of `S2Proofs.CrossingLemmas` (body of `ChainCrossingSign` = specification, cache
  invariant, crosser histories = stateless functions) WITHOUT the hypothesis `Dom S` ("Go `==` is structural equality on S"):
  every step is phrased with Go's `==` (`V3.feq`) itself, so a point and its ±0 twin may both occur.

  Hypotheses on the point set `S`:
     `ZDom S`        all members finite, none `==` the zero vector (the Go zero value of the crosser's field `c`);
     `FloatSound S`  as before (a THEOREM for `S = Unitish`, `floatSound_unitish`).
  `SignLaws` is not needed: the laws of the exact sign are used in their `==` form (`ExactLaws.E_zero_iff`, `E_unit`, …).

  Where the sign of a zero could matter: the prologue `if c != e.c { RestartAt(c) }` keeps a cached vertex `e.c` that is only
  `==` to `c` (a ±0 twin); the call then runs on `e.c`.  The crossing sign is the exact specification, which does not see
  the twin (`exactCrossing_feq_c`); `VertexCrossing` — float, with reference directions that need not even be finite — does not
  see it either (`C03Z.vertexCrossing_T3`, congruence of every float stage).
-/
import S2Proofs.Properties.C03_Exact
import S2Proofs.ExactSignLaws
import S2Proofs.C03Zero.Twin

namespace S2Proofs.C03
open S2 S2.Pred S2.Crossing S2Proofs.F64Order S2Proofs.ExactLaws S2Proofs.C03Z

local notation "E" => S2.Pred.exactDecision

/-- the point set of the `==`-chain: finite vectors, none `==` to the zero vector -/
structure ZDom (S : V3 → Prop) : Prop where
  fin : ∀ x, S x → Fin3 x
  ne_zero : ∀ x, S x → V3.feq x zero3 = false

/-! ### the float filters, given soundness -/

theorem expensiveSign_eqZ {S : V3 → Prop} (hZ : ZDom S) (hF : FloatSound S) {a b c : V3}
    (ha : S a) (hb : S b) (hc : S c) : expensiveSign a b c = E a b c := by
  unfold expensiveSign expensiveSignS exactDecision
  by_cases heq : (V3.feq a b || V3.feq b c || V3.feq c a) = true
  · simp [heq]
  · have hne : (V3.feq a b || V3.feq b c || V3.feq c a) = false := by
      cases hh : (V3.feq a b || V3.feq b c || V3.feq c a) <;> simp_all
    rw [if_neg heq, if_neg heq]
    have h1 : a ≠ b := by
      intro h; subst h; apply heq; simp [feq_refl (hZ.fin a ha)]
    have h2 : b ≠ c := by
      intro h; subst h; apply heq; simp [feq_refl (hZ.fin b hb)]
    have h3 : c ≠ a := by
      intro h; subst h; apply heq; simp [feq_refl (hZ.fin c hc)]
    have hE : E a b c = exactSign a b c true := by
      unfold exactDecision; rw [if_neg heq]
    by_cases hs : stableSign a b c = 0
    · simp only [hs]
      by_cases hu : exactSign a b c false = 0
      · simp [hu]
      · simp [hu, exactSign_true_of_false_ne hu]
    · have := hF.stable a b c ha hb hc h1 h2 h3 hs
      rw [hE] at this
      rw [this] at hs
      simp [this, hs]

theorem robustSign_eqZ {S : V3 → Prop} (hZ : ZDom S) (hF : FloatSound S) {a b c : V3}
    (ha : S a) (hb : S b) (hc : S c) : robustSign a b c = E a b c := by
  unfold robustSign robustSignS
  by_cases ht : triageSign a b c = 0
  · simp only [ht]
    exact expensiveSign_eqZ hZ hF ha hb hc
  · have := hF.triage a b c ha hb hc ht
    rw [this] at ht
    simp [this, ht]

/-! ### the specification does not see ±0 twins -/

/-- replacing `c` by a Go-`==` vector (a ±0 twin) does not change the exact specification -/
theorem exactCrossing_feq_c {a b c c' d : V3} (hc : Fin3 c) (hc' : Fin3 c') (h : V3.feq c c' = true) :
    exactCrossing a b c' d = exactCrossing a b c d :=
  exactCrossing_T3 (T3.refl a) (T3.refl b) (T3_of_feq hc hc' h).symm (T3.refl d)

/-! ### the body of ChainCrossingSign computes the specification and keeps the cache invariant -/

section chain
variable {S : V3 → Prop} (hZ : ZDom S) (hF : FloatSound S) {a b c d : V3}
  (ha : S a) (hb : S b) (hc : S c) (hd : S d)

include hZ hF ha hb hc hd in
theorem slowSign_specZ {acb bda : Int} (hacb : acb = 0 ∨ acb = -(E a b c))
    (hbda : bda = 0 ∨ bda = E a b d) :
    (slowSign a b (tangents a b).1 (tangents a b).2 c acb d bda).1 = exactCrossing a b c d ∧
    ((slowSign a b (tangents a b).1 (tangents a b).2 c acb d bda).2 = 0 ∨
     (slowSign a b (tangents a b).1 (tangents a b).2 c acb d bda).2 = E a b d) := by
  have fa := hZ.fin a ha
  have fb := hZ.fin b hb
  have fc := hZ.fin c hc
  have fd := hZ.fin d hd
  unfold slowSign
  by_cases hT : tangentReject (tangents a b).1 (tangents a b).2 c d = true
  · rw [if_pos hT]
    exact ⟨(hF.tangent a b c d ha hb hc hd hT).symm, hbda⟩
  rw [if_neg hT]
  by_cases hsh : (V3.feq a c || V3.feq a d || V3.feq b c || V3.feq b d) = true
  · rw [if_pos hsh]
    exact ⟨(exactCrossing_of_shares (by simpa [sharesEndpoint] using hsh)).symm, hbda⟩
  rw [if_neg hsh]
  have hsh' : sharesEndpoint a b c d = false := by
    cases h : sharesEndpoint a b c d
    · rfl
    · exact absurd (by simpa [sharesEndpoint] using h) hsh
  simp only [Bool.or_eq_true, not_or, Bool.not_eq_true] at hsh
  obtain ⟨⟨⟨hac, had⟩, hbc⟩, hbd⟩ := hsh
  have h4 := fourSame_iff_exact fa fb fc fd
  by_cases hdeg : (V3.feq a b || V3.feq c d) = true
  · rw [if_pos hdeg]
    refine ⟨(exactCrossing_neg_one hsh' ?_).symm, hbda⟩
    rw [h4]
    simp only [Bool.or_eq_true] at hdeg
    rcases hdeg with h | h
    · have := (E_zero_iff fa fb fc).2 (Or.inl h)
      omega
    · have := (E_zero_iff fc fd fb).2 (Or.inl h)
      omega
  rw [if_neg hdeg]
  simp only [Bool.or_eq_true, not_or, Bool.not_eq_true] at hdeg
  obtain ⟨hab, hcd⟩ := hdeg
  have hca : V3.feq c a = false := by rw [feq_comm fc fa]; exact hac
  have hp := E_unit fa fb fc hab hbc hca
  have e1 : expensiveSign a b c = E a b c := expensiveSign_eqZ hZ hF ha hb hc
  have e2 : expensiveSign a b d = E a b d := expensiveSign_eqZ hZ hF ha hb hd
  have e3 : robustSign c d b = E c d b := robustSign_eqZ hZ hF hc hd hb
  have e4 : robustSign c d a = E c d a := robustSign_eqZ hZ hF hc hd ha
  rw [e1, e2, e3, e4]
  generalize E a b c = p at *
  generalize E a b d = q at *
  generalize E c d b = s at *
  generalize E c d a = r at *
  have hacb' : (if (acb == 0) = true then -p else acb) = -p := by
    rcases hacb with h | h
    · simp [h]
    · by_cases h0 : acb = 0
      · simp [h0]
      · simp [h]
  have hbda' : (if (bda == 0) = true then q else bda) = q := by
    rcases hbda with h | h
    · simp [h]
    · by_cases h0 : bda = 0
      · simp [h0]
      · simp [h]
  simp only [hacb', hbda']
  by_cases hx : q = -p
  · by_cases hy : s = p
    · by_cases hz : r = -p
      · have : fourSameWith exactDecision a b c d = true := h4.mpr ⟨by omega, hy, hx, hz⟩
        rw [exactCrossing_one hsh' this]
        simp [hx, hy, hz]
      · have : ¬ fourSameWith exactDecision a b c d = true := fun h => hz (h4.mp h).2.2.2
        rw [exactCrossing_neg_one hsh' this]
        subst hx hy
        simp [hz]
    · have : ¬ fourSameWith exactDecision a b c d = true := fun h => hy (h4.mp h).2.1
      rw [exactCrossing_neg_one hsh' this]
      subst hx
      simp [hy]
  · have : ¬ fourSameWith exactDecision a b c d = true := fun h => hx (h4.mp h).2.2.1
    rw [exactCrossing_neg_one hsh' this]
    simp [hx]

include hZ hF ha hb hc hd in
theorem chainSign_specZ {acb : Int} (hacb : acb = 0 ∨ acb = -(E a b c)) :
    (chainSign a b (tangents a b).1 (tangents a b).2 c acb d).1 = exactCrossing a b c d ∧
    ((chainSign a b (tangents a b).1 (tangents a b).2 c acb d).2 = 0 ∨
     (chainSign a b (tangents a b).1 (tangents a b).2 c acb d).2 = -(E a b d)) := by
  have fa := hZ.fin a ha
  have fb := hZ.fin b hb
  have fc := hZ.fin c hc
  have fd := hZ.fin d hd
  have hbda := triage_cases hF ha hb hd
  unfold chainSign
  generalize triageSign a b d = bda at *
  by_cases hfast : (acb == -bda && bda != 0) = true
  · simp only [hfast, if_true]
    simp only [Bool.and_eq_true, beq_iff_eq, bne_iff_ne, ne_eq] at hfast
    obtain ⟨h1, h2⟩ := hfast
    have hq : bda = E a b d := by rcases hbda with h | h; exact absurd h h2; exact h
    have hp : E a b c = E a b d := by rcases hacb with h | h <;> omega
    have hq0 : E a b d ≠ 0 := by omega
    have hp0 : E a b c ≠ 0 := by omega
    have nz : ∀ {x y z : V3}, Fin3 x → Fin3 y → Fin3 z → E x y z ≠ 0 →
        V3.feq x y = false ∧ V3.feq y z = false ∧ V3.feq z x = false := by
      intro x y z fx fy fz h
      have := mt (E_zero_iff fx fy fz).2 h
      simp only [not_or, Bool.not_eq_true] at this
      exact this
    obtain ⟨_, hbc, hca⟩ := nz fa fb fc hp0
    obtain ⟨_, hbd, hda⟩ := nz fa fb fd hq0
    have hsh : sharesEndpoint a b c d = false := by
      unfold sharesEndpoint
      rw [feq_comm fa fc, feq_comm fa fd, hca, hda, hbc, hbd]; rfl
    refine ⟨(exactCrossing_neg_one hsh ?_).symm, Or.inr (by omega)⟩
    rw [fourSame_iff_exact fa fb fc fd]
    omega
  · rw [if_neg hfast]
    have := slowSign_specZ hZ hF ha hb hc hd hacb hbda
    generalize slowSign a b (tangents a b).1 (tangents a b).2 c acb d bda = res at *
    obtain ⟨r, x⟩ := res
    simp only at this ⊢
    exact ⟨this.1, by omega⟩

end chain

/-! ### the crosser state machine -/

section crosser
open S2.Crosser
variable {S : V3 → Prop} (hZ : ZDom S) (hF : FloatSound S) {a b : V3}
  (ha : S a) (hb : S b)

include hZ hF ha hb in
/-- the `if c != e.c { e.RestartAt(c) }` prologue of CrossingSign / EdgeOrVertexCrossing: afterwards the chain vertex is
    a member of `S` that is Go-`==` to `c` — `c` itself after a restart, possibly a ±0 twin of `c` otherwise -/
theorem prologue_invZ {e : St} (hI : Inv S a b e) {c : V3} (hc : S c) :
    Inv S a b (if !(V3.feq c e.c) then restartAt e c else e) ∧
    S (if !(V3.feq c e.c) then restartAt e c else e).c ∧
    V3.feq c (if !(V3.feq c e.c) then restartAt e c else e).c = true := by
  by_cases h : V3.feq c e.c = true
  · have hcc : S e.c := by
      rcases hI.cur with h' | h'
      · exact h'
      · rw [h', hZ.ne_zero c hc] at h; exact absurd h (by decide)
    simp only [h, Bool.not_true, Bool.false_eq_true, if_false]
    exact ⟨hI, hcc, trivial⟩
  · have : V3.feq c e.c = false := by cases hh : V3.feq c e.c <;> simp_all
    simp only [this, Bool.not_false, if_true]
    obtain ⟨h1, h2⟩ := restartAt_inv hF ha hb hI hc
    refine ⟨h1, ?_, ?_⟩
    · rw [h2]; exact hc
    · rw [h2]; exact feq_refl (hZ.fin c hc)

include hZ hF ha hb in
theorem chainCrossingSign_specZ {e : St} (hI : Inv S a b e) (hc : S e.c) {d : V3} (hd : S d) :
    (chainCrossingSign e d).2 = exactCrossing a b e.c d ∧
    Inv S a b (chainCrossingSign e d).1 ∧ (chainCrossingSign e d).1.c = d := by
  unfold chainCrossingSign
  have heq : chainSign e.a e.b e.aTangent e.bTangent e.c e.acb d =
      chainSign a b (tangents a b).1 (tangents a b).2 e.c e.acb d := by
    rw [hI.ha, hI.hb, hI.haT, hI.hbT]
  rw [heq]
  have := chainSign_specZ hZ hF ha hb hc hd hI.cache
  generalize chainSign a b (tangents a b).1 (tangents a b).2 e.c e.acb d = res at *
  obtain ⟨r, x⟩ := res
  simp only at this ⊢
  exact ⟨this.1, ⟨hI.ha, hI.hb, hI.haT, hI.hbT, this.2, Or.inl hd⟩, trivial⟩

include hZ hF ha hb in
/-- the stateless `CrossingSign` computes the specification — no `Dom`, no `SignLaws` -/
theorem crossingSign_eq_exactZ {c d : V3} (hc : S c) (hd : S d) :
    Crossing.crossingSign a b c d = exactCrossing a b c d := by
  unfold Crossing.crossingSign
  have hacb : -(triageSign a b c) = 0 ∨ -(triageSign a b c) = -(E a b c) := by
    rcases triage_cases hF ha hb hc with h | h <;> omega
  exact (chainSign_specZ hZ hF ha hb hc hd hacb).1

include hZ hF ha hb in
theorem step_specZ {e : St} (hI : Inv S a b e) (op : Op) (hop : ∀ p ∈ op.points, S p)
    (hcur : S e.c ∨ op.isChain = false) :
    (step e op).2 = (specStep a b e.c op).2 ∧ Inv S a b (step e op).1 ∧
    (step e op).1.c = (specStep a b e.c op).1 ∧ S (step e op).1.c := by
  cases op with
  | restartAt c =>
    have hc : S c := hop c (by simp [Op.points])
    obtain ⟨h1, h2⟩ := restartAt_inv hF ha hb hI hc
    exact ⟨rfl, h1, h2, by rw [show (step e (.restartAt c)).1.c = c from h2]; exact hc⟩
  | chainCrossingSign d =>
    have hd : S d := hop d (by simp [Op.points])
    have hc : S e.c := by rcases hcur with h | h; exact h; simp [Op.isChain] at h
    obtain ⟨h1, h2, h3⟩ := chainCrossingSign_specZ hZ hF ha hb hI hc hd
    refine ⟨?_, h2, h3, (show S (chainCrossingSign _ d).1.c from h3 ▸ hd)⟩
    show Out.sign (chainCrossingSign e d).2 = Out.sign (Crossing.crossingSign a b e.c d)
    rw [h1, crossingSign_eq_exactZ hZ hF ha hb hc hd]
  | crossingSign c d =>
    have hc : S c := hop c (by simp [Op.points])
    have hd : S d := hop d (by simp [Op.points])
    obtain ⟨g1, hc', g2⟩ := prologue_invZ hZ hF ha hb hI hc
    obtain ⟨h1, h2, h3⟩ := chainCrossingSign_specZ hZ hF ha hb g1 hc' hd
    refine ⟨?_, h2, h3, (show S (chainCrossingSign _ d).1.c from h3 ▸ hd)⟩
    show Out.sign (chainCrossingSign _ d).2 = Out.sign (Crossing.crossingSign a b c d)
    rw [h1, exactCrossing_feq_c (hZ.fin c hc) (hZ.fin _ hc') g2, crossingSign_eq_exactZ hZ hF ha hb hc hd]
  | edgeOrVertexCrossing c d =>
    have hc : S c := hop c (by simp [Op.points])
    have hd : S d := hop d (by simp [Op.points])
    obtain ⟨g1, hc', g2⟩ := prologue_invZ hZ hF ha hb hI hc
    obtain ⟨h1, h2, h3⟩ := chainCrossingSign_specZ hZ hF ha hb g1 hc' hd
    refine ⟨?_, h2, h3, (show S (chainCrossingSign _ d).1.c from h3 ▸ hd)⟩
    show Out.bool (edgeOrVertexChainCrossing _ d).2 = Out.bool (Crossing.edgeOrVertexCrossing a b c d)
    unfold edgeOrVertexChainCrossing Crossing.edgeOrVertexCrossing
    simp only
    rw [h1, exactCrossing_feq_c (hZ.fin c hc) (hZ.fin _ hc') g2, g1.ha, g1.hb,
      crossingSign_eq_exactZ hZ hF ha hb hc hd,
      vertexCrossing_T3 a b (T3_of_feq (hZ.fin c hc) (hZ.fin _ hc') g2).symm (T3.refl d)]
  | edgeOrVertexChainCrossing d =>
    have hd : S d := hop d (by simp [Op.points])
    have hc : S e.c := by rcases hcur with h | h; exact h; simp [Op.isChain] at h
    obtain ⟨h1, h2, h3⟩ := chainCrossingSign_specZ hZ hF ha hb hI hc hd
    refine ⟨?_, h2, h3, (show S (chainCrossingSign _ d).1.c from h3 ▸ hd)⟩
    show Out.bool (edgeOrVertexChainCrossing e d).2 = Out.bool (Crossing.edgeOrVertexCrossing a b e.c d)
    unfold edgeOrVertexChainCrossing Crossing.edgeOrVertexCrossing
    simp only
    rw [h1, hI.ha, hI.hb, crossingSign_eq_exactZ hZ hF ha hb hc hd]

include hZ hF ha hb in
theorem run_eq_specZ (ops : List Op) : ∀ {e : St}, Inv S a b e →
    (∀ op ∈ ops, ∀ p ∈ op.points, S p) → (S e.c ∨ wellFormed ops = true) →
    run e ops = spec a b e.c ops := by
  induction ops with
  | nil => intros; rfl
  | cons op rest ih =>
    intro e hI hpts hcur
    have hcur' : S e.c ∨ op.isChain = false := by
      rcases hcur with h | h
      · exact Or.inl h
      · right; simpa [wellFormed] using h
    obtain ⟨h1, h2, h3, h4⟩ := step_specZ hZ hF ha hb hI op (hpts op (by simp)) hcur'
    have ihr := ih h2 (fun o ho => hpts o (by simp [ho])) (Or.inl h4)
    show (let (e', o) := step e op; o :: run e' rest) =
      (let (cur', o) := specStep a b e.c op; o :: spec a b cur' rest)
    generalize hs : step e op = se at *
    generalize ht : specStep a b e.c op = sp at *
    obtain ⟨e', o⟩ := se
    obtain ⟨cur', o'⟩ := sp
    simp only at h1 h3 ihr ⊢
    rw [h1, ihr, h3]

include hZ hF ha hb in
theorem exec_invZ (ops : List Op) : ∀ {e : St}, Inv S a b e →
    (∀ op ∈ ops, ∀ p ∈ op.points, S p) → (S e.c ∨ wellFormed ops = true) →
    Inv S a b (exec e ops) := by
  induction ops with
  | nil => intro e hI _ _; exact hI
  | cons op rest ih =>
    intro e hI hpts hcur
    have hcur' : S e.c ∨ op.isChain = false := by
      rcases hcur with h | h
      · exact Or.inl h
      · right; simpa [wellFormed] using h
    obtain ⟨_, h2, _, h4⟩ := step_specZ hZ hF ha hb hI op (hpts op (by simp)) hcur'
    exact ih h2 (fun o ho => hpts o (by simp [ho])) (Or.inl h4)

end crosser

end S2Proofs.C03
