/-
  S2Proofs.C03Zero.Vertex — the shared-vertex rules of `VertexCrossing` / `AngleContainsVertex` phrased with Go's `==`
  (`V3.feq`) instead of structural equality, so that a shared vertex may be written with different signs of its zero
  coordinates in the two edges.

    `vc_eqZ`           `VertexCrossing` with every `==` test replaced by equality of the EXACT vectors `ofV3` (finite points)
    `occw_compl_core`  around `o`: exactly one of "r, d, b in CCW order" and "r, b, d in CCW order" — from the three antisymmetry
                       facts and ±1 for the one triple, for any orientation function
    `unitish_of_Z3`    the class `Unitish` does not see the sign of a zero
    `robust_anti`, `robust_unit`, `occw_compl_robust`   the facts for `RobustSign` on unit-ish points
-/
import S2Proofs.Properties.C03_FloatSound
import S2Proofs.C03Zero.Chain

namespace S2Proofs.C03
open S2 S2.Exact S2.Pred S2.Crossing S2Proofs.F64Order S2Proofs.C02Err S2Proofs.ExactLaws S2Proofs.C03Z
  S2Proofs.F64Sym2

local notation "E" => S2.Pred.exactDecision

/-! ### `VertexCrossing` on finite points: `==` is equality of the exact vectors -/

theorem feq_eq_decide_ofV3 {x y : V3} (hx : Fin3 x) (hy : Fin3 y) : V3.feq x y = decide (ofV3 x = ofV3 y) := by
  rw [Bool.eq_iff_iff, v3feq_iff hx hy]; simp

theorem feq_false_iff {x y : V3} (hx : Fin3 x) (hy : Fin3 y) : V3.feq x y = false ↔ ofV3 x ≠ ofV3 y := by
  rw [Ne, ← v3feq_iff hx hy]; simp

section vc
variable (occw : V3 → V3 → V3 → V3 → Bool) {a b c d : V3} (ha : Fin3 a) (hb : Fin3 b) (hc : Fin3 c) (hd : Fin3 d)
include ha hb hc hd

/-- `VertexCrossing` with Go `==` replaced by equality of the exact vectors -/
theorem vc_eqZ : vertexCrossingWith occw a b c d =
    (if ofV3 a = ofV3 b ∨ ofV3 c = ofV3 d then false
     else if ofV3 a = ofV3 c then decide (ofV3 b = ofV3 d) || occw (referenceDir a) d b a
     else if ofV3 b = ofV3 d then occw (referenceDir b) c a b
     else if ofV3 a = ofV3 d then decide (ofV3 b = ofV3 c) || occw (referenceDir a) c b a
     else if ofV3 b = ofV3 c then occw (referenceDir b) d a b
     else false) := by
  unfold vertexCrossingWith
  rw [feq_eq_decide_ofV3 ha hb, feq_eq_decide_ofV3 hc hd, feq_eq_decide_ofV3 ha hc,
    feq_eq_decide_ofV3 hb hd, feq_eq_decide_ofV3 ha hd, feq_eq_decide_ofV3 hb hc]
  simp only [Bool.or_eq_true, decide_eq_true_eq]

end vc

/-! ### the orientation facts -/

/-- around `o`, starting from `r`: exactly one of "r, d, b in CCW order" and "r, b, d in CCW order" -/
theorem occw_compl_core {rs : V3 → V3 → V3 → Int} {r o b d : V3}
    (a1 : rs d o r = -(rs r o d)) (a2 : rs b o d = -(rs d o b)) (a3 : rs r o b = -(rs b o r))
    (hy : rs d o b = 1 ∨ rs d o b = -1) :
    orderedCCWWith rs r d b o = !(orderedCCWWith rs r b d o) := by
  unfold orderedCCWWith
  simp only []
  rw [a1, a2, a3]
  generalize rs r o d = x at *
  generalize rs d o b = y at *
  generalize rs b o r = z at *
  have e1 : (-x != -1) = (x != 1) := by
    rw [Bool.eq_iff_iff]; simp only [bne_iff_ne, ne_eq]; omega
  have e2 : (-z == 1) = (z == -1) := by
    rw [Bool.eq_iff_iff]; simp only [beq_iff_eq]; omega
  rw [e1, e2]
  rcases hy with hy | hy <;> subst hy <;> by_cases hx : x = 1 <;> by_cases hz : z = -1 <;>
    simp [hx, hz]

/-- a float that agrees with a finite one up to the sign of a zero is finite -/
theorem fin_of_Z {x y : F64} (h : Z x y) (hy : Fin y) : Fin x := by
  rcases Z_iff.mp h with rfl | ⟨h1, _⟩ | ⟨_, h2⟩
  · exact hy
  · unfold F64.isZero at h1
    unfold F64Order.Fin
    simp only [Bool.and_eq_true, beq_iff_eq] at h1
    omega
  · rw [isNaN_false hy] at h2; cases h2

theorem fin3_of_Z3 {u v : V3} (h : Z3 u v) (hv : Fin3 v) : Fin3 u :=
  ⟨fin_of_Z h.1 hv.1, fin_of_Z h.2.1 hv.2.1, fin_of_Z h.2.2 hv.2.2⟩

/-- a vector that agrees with a finite one up to the sign of zeros is its ±0 twin -/
theorem T3_of_Z3 {u v : V3} (h : Z3 u v) (hv : Fin3 v) : T3 u v :=
  ⟨h, (v3feq_iff (fin3_of_Z3 h hv) hv).1 (feq_of_Z3 hv h)⟩

/-- **the class `Unitish` does not see the sign of a zero** -/
theorem unitish_of_Z3 {u v : V3} (h : Z3 u v) (hv : Unitish v) : Unitish u := by
  have ht := T3_of_Z3 h hv.1
  refine ⟨fin3_of_Z3 h hv.1, ?_⟩
  have := hv.2
  unfold S2Proofs.FloatErr.norm2I at this ⊢
  rw [ht.2]; exact this

/-- the reference direction of a ±0 twin is unit-ish when the other one is, and is its twin -/
theorem referenceDir_twin {a c : V3} (h : V3.feq c a = true) (hra : Unitish (referenceDir a)) :
    Unitish (referenceDir c) ∧ T3 (referenceDir c) (referenceDir a) := by
  have hz := referenceDir_Z3 (Z3_of_feq h)
  exact ⟨unitish_of_Z3 hz hra, T3_of_Z3 hz hra.1⟩

theorem robust_anti {x o y : V3} (hx : Unitish x) (ho : Unitish o) (hy : Unitish y) :
    robustSign y o x = -(robustSign x o y) := by
  rw [S2Proofs.C02StableErr.robustSign_exact y o x hy ho hx, S2Proofs.C02StableErr.robustSign_exact x o y hx ho hy]
  exact E_swap13 hx.1 ho.1 hy.1

theorem robust_unit {x o y : V3} (hx : Unitish x) (ho : Unitish o) (hy : Unitish y)
    (h1 : V3.feq x o = false) (h2 : V3.feq o y = false) (h3 : V3.feq y x = false) :
    robustSign x o y = 1 ∨ robustSign x o y = -1 := by
  rw [S2Proofs.C02StableErr.robustSign_exact x o y hx ho hy]
  exact E_unit hx.1 ho.1 hy.1 h1 h2 h3

/-- `OrderedCCW` over `RobustSign` on unit-ish points: exactly one of the two orders -/
theorem occw_compl_robust {r o b d : V3} (hr : Unitish r) (ho : Unitish o) (hb : Unitish b) (hd : Unitish d)
    (h1 : V3.feq d o = false) (h2 : V3.feq o b = false) (h3 : V3.feq b d = false) :
    orderedCCW r d b o = !(orderedCCW r b d o) :=
  occw_compl_core (robust_anti hr ho hd) (robust_anti hd ho hb) (robust_anti hb ho hr)
    (robust_unit hd ho hb h1 h2 h3)

/-- `OrderedCCW(r, a, a', o)` is true when `a == a'` -/
theorem occw_mid_robust {r o a a' : V3} (hr : Unitish r) (ho : Unitish o) (ha : Unitish a) (ha' : Unitish a')
    (h : V3.feq a a' = true) : orderedCCW r a a' o = true := by
  have a1 : robustSign r o a' = -(robustSign a' o r) := robust_anti ha' ho hr
  have a2 : robustSign a' o a = 0 := by
    rw [S2Proofs.C02StableErr.robustSign_exact a' o a ha' ho ha]
    exact (E_zero_iff ha'.1 ho.1 ha.1).2 (Or.inr (Or.inr h))
  have a3 : robustSign a o r = robustSign a' o r :=
    robustSign_T3 (T3_of_feq ha.1 ha'.1 h) (T3.refl o) (T3.refl r)
  unfold orderedCCW orderedCCWWith
  simp only []
  rw [a1, a2, a3]
  generalize robustSign a' o r = x at *
  by_cases hx : x = -1
  · simp [hx]
  · have : -x ≠ 1 := by omega
    simp [hx, this]

end S2Proofs.C03
