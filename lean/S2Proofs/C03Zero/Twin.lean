/-
  S2Proofs.C03Zero.Twin — the float stages of the orientation / crossing model do not see the SIGN OF A ZERO coordinate.

  `T3 u v` : the float vectors `u`, `v` are ±0 twins — component-wise the same float up to the sign of a zero
             (`F64Sym2.Z3`) and the same exact vector `ofV3`.  Two finite vectors that are Go-`==` are twins (`T3_of_feq`).

  Congruence, for ALL bit patterns (no finiteness, no unit-length hypothesis; overflow / NaN inside allowed):
      `triageSign`, `stableSign`, `exactSign`, `expensiveSign`, `robustSign`, `exactDecision`, `orderedCCW`,
      `s2Ortho` / `referenceDir` (twins go to `Z3`-related vectors), `tangents`, `tangentReject`, `slowSign`, `chainSign`,
      `crossingSign`, `vertexCrossing` (in the tested edge), `sharesEndpoint`, `exactCrossing`.
  These rest on the calculus of `S2Proofs.F64Sym2` (`+ − × √` and the comparisons respect `Z`; `x·x` and hence the squared
  norm forget it).  The only IEEE operation that DOES see the sign of a zero, `÷` by a zero, occurs in the model only as
  `1 / sqrt(norm2)` in `Normalize`, and `norm2` of twins is the same bit pattern.
-/
import S2Proofs.F64Sym2
import S2Proofs.ExactSignLaws
import S2.Crossing
import S2.Crosser
import S2.Contain

set_option linter.unusedSimpArgs false
set_option linter.unusedVariables false

namespace S2Proofs.C03Z
open S2 S2.Exact S2.Pred S2.Crossing S2Proofs.F64Order S2Proofs.F64Sym2

/-! ### ±0 twins -/

/-- ±0 twins: the same float vector up to the sign of zero coordinates (and NaN payloads), and the same exact vector -/
def T3 (u v : V3) : Prop := Z3 u v ∧ ofV3 u = ofV3 v

theorem T3.refl (u : V3) : T3 u u := ⟨Z3.refl u, rfl⟩
theorem T3.symm {u v : V3} (h : T3 u v) : T3 v u := ⟨h.1.symm, h.2.symm⟩
theorem T3.trans {u v w : V3} (h : T3 u v) (h' : T3 v w) : T3 u w := ⟨h.1.trans h'.1, h.2.trans h'.2⟩

/-- Go `==` of two vectors: component-wise the same float up to the sign of a zero -/
theorem Z3_of_feq {u v : V3} (h : V3.feq u v = true) : Z3 u v := by
  unfold V3.feq at h
  simp only [Bool.and_eq_true] at h
  exact ⟨Z_of_feq h.1.1, Z_of_feq h.1.2, Z_of_feq h.2⟩

/-- two FINITE vectors that are Go-`==` are ±0 twins -/
theorem T3_of_feq {u v : V3} (hu : Fin3 u) (hv : Fin3 v) (h : V3.feq u v = true) : T3 u v :=
  ⟨Z3_of_feq h, (v3feq_iff hu hv).1 h⟩

/-- conversely finite twins are Go-`==` -/
theorem feq_of_T3 {u v : V3} (hu : Fin3 u) (hv : Fin3 v) (h : T3 u v) : V3.feq u v = true :=
  (v3feq_iff hu hv).2 h.2

/-- finite `Z3`-related vectors are Go-`==` -/
theorem feq_of_Z3 {u v : V3} (hv : Fin3 v) (h : Z3 u v) : V3.feq u v = true := by
  rw [feq3_Z3 h (Z3.refl v)]
  exact S2Proofs.ExactLaws.feq_refl hv

/-! ### `Pred`: the orientation cascade -/

theorem threshold_Z {d d' e e' : F64} (hd : Z d' d) (he : Z e' e) : threshold d' e' = threshold d e := by
  unfold threshold
  have h2 : F64.lt d' (-e') = F64.lt d (-e) := lt_Z hd (neg_Z he)
  rw [gt_Z hd he, h2]

theorem triageSign_Z3 {a a' b b' c c' : V3} (ha : Z3 a' a) (hb : Z3 b' b) (hc : Z3 c' c) :
    triageSign a' b' c' = triageSign a b c := by
  unfold triageSign
  exact threshold_Z (dot_Z (cross_Z3 ha hb) hc) (Z.refl _)

/-- the determinant of `stableSign` is the same up to the sign of a zero; the error bound and the norm product are the
    same bit patterns -/
theorem stableParts_Z3 {a a' b b' c c' : V3} (ha : Z3 a' a) (hb : Z3 b' b) (hc : Z3 c' c) :
    Z (stableParts a' b' c').1 (stableParts a b c).1 ∧ (stableParts a' b' c').2 = (stableParts a b c).2 := by
  have hab := sub_Z3 hb ha
  have hbc := sub_Z3 hc hb
  have hca := sub_Z3 ha hc
  unfold stableParts
  simp only []
  rw [norm2_Z3 hab, norm2_Z3 hbc, norm2_Z3 hca]
  by_cases h1 : (F64.ge (b.sub a).norm2 (c.sub b).norm2 && F64.ge (b.sub a).norm2 (a.sub c).norm2) = true
  · simp only [h1, if_true]
    rw [norm2_Z3 hca, norm2_Z3 hbc]
    exact ⟨neg_Z (dot_Z (cross_Z3 hca hbc) hc), rfl⟩
  · by_cases h2 : F64.ge (c.sub b).norm2 (a.sub c).norm2 = true
    · simp only [h1, h2, if_true, if_false, Bool.false_eq_true]
      rw [norm2_Z3 hab, norm2_Z3 hca]
      exact ⟨neg_Z (dot_Z (cross_Z3 hab hca) ha), rfl⟩
    · simp only [h1, h2, if_true, if_false, Bool.false_eq_true]
      rw [norm2_Z3 hbc, norm2_Z3 hab]
      exact ⟨neg_Z (dot_Z (cross_Z3 hbc hab) hb), rfl⟩

theorem stableSign_Z3 {a a' b b' c c' : V3} (ha : Z3 a' a) (hb : Z3 b' b) (hc : Z3 c' c) :
    stableSign a' b' c' = stableSign a b c := by
  obtain ⟨h1, h2⟩ := stableParts_Z3 ha hb hc
  unfold stableSign stableDetErr
  simp only []
  rw [h2]
  rw [threshold_Z h1 (Z.refl _)]

/-- `sort3` on related triples with a comparison that respects the relation: related outputs, same permutation sign -/
theorem sort3_rel {α : Type} (R : α → α → Prop) (gt : α → α → Bool)
    (hgt : ∀ x x' y y', R x' x → R y' y → gt x' y' = gt x y)
    {a a' b b' c c' : α} (ha : R a' a) (hb : R b' b) (hc : R c' c) :
    R (sort3 gt a' b' c').1 (sort3 gt a b c).1 ∧ R (sort3 gt a' b' c').2.1 (sort3 gt a b c).2.1 ∧
    R (sort3 gt a' b' c').2.2.1 (sort3 gt a b c).2.2.1 ∧ (sort3 gt a' b' c').2.2.2 = (sort3 gt a b c).2.2.2 := by
  have e : ∀ {x x' y y'}, R x' x → R y' y → gt x' y' = gt x y := fun hx hy => hgt _ _ _ _ hx hy
  unfold sort3
  simp only []
  rw [e ha hb]
  cases h1 : gt a b <;> simp only [Bool.false_eq_true, if_false, if_true]
  · rw [e hb hc]
    cases h2 : gt b c <;> simp only [Bool.false_eq_true, if_false, if_true]
    · rw [e ha hb, h1]; simp only [Bool.false_eq_true, if_false]; exact ⟨ha, hb, hc, trivial⟩
    · rw [e ha hc]; cases h3 : gt a c <;> simp only [Bool.false_eq_true, if_false, if_true] <;>
        first | exact ⟨ha, hc, hb, trivial⟩ | exact ⟨hc, ha, hb, trivial⟩
  · rw [e ha hc]
    cases h2 : gt a c <;> simp only [Bool.false_eq_true, if_false, if_true]
    · rw [e hb ha]; cases h3 : gt b a <;> simp only [Bool.false_eq_true, if_false, if_true] <;>
        first | exact ⟨hb, ha, hc, trivial⟩ | exact ⟨ha, hb, hc, trivial⟩
    · rw [e hb hc]; cases h3 : gt b c <;> simp only [Bool.false_eq_true, if_false, if_true] <;>
        first | exact ⟨hb, hc, ha, trivial⟩ | exact ⟨hc, hb, ha, trivial⟩

theorem exactSign_eq (a b c : V3) (p : Bool) :
    exactSign a b c p =
      (sort3 (fun u v => decide (V3.cmp u v > 0)) a b c).2.2.2 *
        exactSignSorted (ofV3 (sort3 (fun u v => decide (V3.cmp u v > 0)) a b c).1)
          (ofV3 (sort3 (fun u v => decide (V3.cmp u v > 0)) a b c).2.1)
          (ofV3 (sort3 (fun u v => decide (V3.cmp u v > 0)) a b c).2.2.1) p := by
  unfold exactSign
  generalize sort3 (fun u v => decide (V3.cmp u v > 0)) a b c = t
  obtain ⟨pa, pb, pc, s⟩ := t
  rfl

theorem exactSign_T3 {a a' b b' c c' : V3} (ha : T3 a' a) (hb : T3 b' b) (hc : T3 c' c) (p : Bool) :
    exactSign a' b' c' p = exactSign a b c p := by
  obtain ⟨h1, h2, h3, h4⟩ := sort3_rel T3 (fun u v => decide (V3.cmp u v > 0))
    (fun x x' y y' hx hy => by simp only [cmp3_Z3 hx.1 hy.1]) ha hb hc
  rw [exactSign_eq, exactSign_eq, h1.2, h2.2, h3.2, h4]

theorem expensiveSignS_T3 {a a' b b' c c' : V3} (ha : T3 a' a) (hb : T3 b' b) (hc : T3 c' c) :
    expensiveSignS a' b' c' = expensiveSignS a b c := by
  unfold expensiveSignS
  rw [feq3_Z3 ha.1 hb.1, feq3_Z3 hb.1 hc.1, feq3_Z3 hc.1 ha.1, stableSign_Z3 ha.1 hb.1 hc.1,
    exactSign_T3 ha hb hc, exactSign_T3 ha hb hc]

theorem expensiveSign_T3 {a a' b b' c c' : V3} (ha : T3 a' a) (hb : T3 b' b) (hc : T3 c' c) :
    expensiveSign a' b' c' = expensiveSign a b c := by
  unfold expensiveSign; rw [expensiveSignS_T3 ha hb hc]

theorem robustSignS_T3 {a a' b b' c c' : V3} (ha : T3 a' a) (hb : T3 b' b) (hc : T3 c' c) :
    robustSignS a' b' c' = robustSignS a b c := by
  unfold robustSignS
  rw [triageSign_Z3 ha.1 hb.1 hc.1, expensiveSignS_T3 ha hb hc]

/-- **`RobustSign` does not see the sign of a zero coordinate** — all bit patterns -/
theorem robustSign_T3 {a a' b b' c c' : V3} (ha : T3 a' a) (hb : T3 b' b) (hc : T3 c' c) :
    robustSign a' b' c' = robustSign a b c := by
  unfold robustSign; rw [robustSignS_T3 ha hb hc]

theorem exactDecision_T3 {a a' b b' c c' : V3} (ha : T3 a' a) (hb : T3 b' b) (hc : T3 c' c) :
    exactDecision a' b' c' = exactDecision a b c := by
  unfold exactDecision
  rw [feq3_Z3 ha.1 hb.1, feq3_Z3 hb.1 hc.1, feq3_Z3 hc.1 ha.1, exactSign_T3 ha hb hc]

theorem orderedCCWWith_T3 {rs : V3 → V3 → V3 → Int}
    (hrs : ∀ {a a' b b' c c' : V3}, T3 a' a → T3 b' b → T3 c' c → rs a' b' c' = rs a b c)
    {a a' b b' c c' o o' : V3} (ha : T3 a' a) (hb : T3 b' b) (hc : T3 c' c) (ho : T3 o' o) :
    orderedCCWWith rs a' b' c' o' = orderedCCWWith rs a b c o := by
  unfold orderedCCWWith
  rw [hrs hb ho ha, hrs hc ho hb, hrs ha ho hc]

theorem orderedCCW_T3 {a a' b b' c c' o o' : V3} (ha : T3 a' a) (hb : T3 b' b) (hc : T3 c' c) (ho : T3 o' o) :
    orderedCCW a' b' c' o' = orderedCCW a b c o :=
  orderedCCWWith_T3 (fun h1 h2 h3 => robustSign_T3 h1 h2 h3) ha hb hc ho

/-! ### `Crossing` -/

theorem normalize_Z3 {u' u : V3} (h : Z3 u' u) : Z3 u'.normalize u.normalize := by
  unfold V3.normalize
  dsimp only
  rw [norm2_Z3 h]
  split
  · exact Z3.refl _
  · exact smul_Z3 h (Z.refl _)

theorem largestComponent_Z3 {u' u : V3} (h : Z3 u' u) : u'.largestComponent = u.largestComponent := by
  unfold V3.largestComponent V3.abs
  simp only []
  have hx := (abs_Z h.1).toZ
  have hy := (abs_Z h.2.1).toZ
  have hz := (abs_Z h.2.2).toZ
  rw [gt_Z hx hy, gt_Z hx hz, gt_Z hy hz]

/-- **`Ortho` / `referenceDir` of twins**: the same vector up to the sign of zero coordinates -/
theorem s2Ortho_Z3 {a' a : V3} (h : Z3 a' a) : Z3 (s2Ortho a') (s2Ortho a) := by
  unfold s2Ortho
  simp only []
  rw [largestComponent_Z3 h]
  exact normalize_Z3 (cross_Z3 h (Z3.refl _))

theorem referenceDir_Z3 {a' a : V3} (h : Z3 a' a) : Z3 (referenceDir a') (referenceDir a) := s2Ortho_Z3 h

/-- Go-`==` points have Go-`==` reference directions (when these are finite) -/
theorem s2Ortho_feq {a' a : V3} (h : V3.feq a' a = true) (hf : Fin3 (s2Ortho a)) :
    V3.feq (s2Ortho a') (s2Ortho a) = true :=
  feq_of_Z3 hf (s2Ortho_Z3 (Z3_of_feq h))

/-- the same for the containment model's copy of `Ortho` (`Contain.s2Ortho`, constants written as bit patterns) -/
theorem contain_s2Ortho_Z3 {a' a : V3} (h : Z3 a' a) : Z3 (Contain.s2Ortho a') (Contain.s2Ortho a) := by
  unfold Contain.s2Ortho
  simp only []
  rw [largestComponent_Z3 h]
  exact normalize_Z3 (cross_Z3 h (Z3.refl _))

/-- **Go-`==` points (a vector and its ±0 twin) have Go-`==` reference directions** (when these are finite) — the
    hypothesis "always true in IEEE arithmetic, not proved for the soft-float" of `C04.CocycleDomAny`, proved -/
theorem contain_s2Ortho_feq {a' a : V3} (h : V3.feq a' a = true) (hf : Fin3 (Contain.s2Ortho a)) :
    V3.feq (Contain.s2Ortho a') (Contain.s2Ortho a) = true :=
  feq_of_Z3 hf (contain_s2Ortho_Z3 (Z3_of_feq h))

theorem tangents_Z3 {a a' b b' : V3} (ha : Z3 a' a) (hb : Z3 b' b) :
    Z3 (tangents a' b').1 (tangents a b).1 ∧ Z3 (tangents a' b').2 (tangents a b).2 := by
  have hn := cross_Z3 (add_Z3 ha hb) (sub_Z3 hb ha)
  unfold tangents
  simp only []
  rw [norm2_Z3 hn]
  split
  · exact ⟨cross_Z3 ha (normalize_Z3 hn), cross_Z3 (normalize_Z3 hn) hb⟩
  · exact ⟨Z3.refl _, Z3.refl _⟩

theorem tangentReject_Z3 {aT aT' bT bT' c c' d d' : V3} (h1 : Z3 aT' aT) (h2 : Z3 bT' bT) (hc : Z3 c' c)
    (hd : Z3 d' d) : tangentReject aT' bT' c' d' = tangentReject aT bT c d := by
  unfold tangentReject
  rw [gt_Z (dot_Z hc h1) (Z.refl _), gt_Z (dot_Z hd h1) (Z.refl _), gt_Z (dot_Z hc h2) (Z.refl _),
    gt_Z (dot_Z hd h2) (Z.refl _)]

theorem slowSign_T3 {a a' b b' aT aT' bT bT' c c' d d' : V3} (ha : T3 a' a) (hb : T3 b' b) (h1 : Z3 aT' aT)
    (h2 : Z3 bT' bT) (hc : T3 c' c) (hd : T3 d' d) (acb bda : Int) :
    slowSign a' b' aT' bT' c' acb d' bda = slowSign a b aT bT c acb d bda := by
  unfold slowSign
  rw [tangentReject_Z3 h1 h2 hc.1 hd.1, feq3_Z3 ha.1 hc.1, feq3_Z3 ha.1 hd.1, feq3_Z3 hb.1 hc.1, feq3_Z3 hb.1 hd.1,
    feq3_Z3 ha.1 hb.1, feq3_Z3 hc.1 hd.1, expensiveSign_T3 ha hb hc, expensiveSign_T3 ha hb hd,
    robustSign_T3 hc hd hb, robustSign_T3 hc hd ha]

theorem chainSign_T3 {a a' b b' aT aT' bT bT' c c' d d' : V3} (ha : T3 a' a) (hb : T3 b' b) (h1 : Z3 aT' aT)
    (h2 : Z3 bT' bT) (hc : T3 c' c) (hd : T3 d' d) (acb : Int) :
    chainSign a' b' aT' bT' c' acb d' = chainSign a b aT bT c acb d := by
  unfold chainSign
  simp only []
  rw [triageSign_Z3 ha.1 hb.1 hd.1, slowSign_T3 ha hb h1 h2 hc hd]

/-- **the stateless `CrossingSign` does not see the sign of a zero coordinate** — all bit patterns -/
theorem crossingSign_T3 {a a' b b' c c' d d' : V3} (ha : T3 a' a) (hb : T3 b' b) (hc : T3 c' c) (hd : T3 d' d) :
    crossingSign a' b' c' d' = crossingSign a b c d := by
  obtain ⟨t1, t2⟩ := tangents_Z3 ha.1 hb.1
  unfold crossingSign
  simp only []
  rw [chainSign_T3 ha hb t1 t2 hc hd, triageSign_Z3 ha.1 hb.1 hc.1]

/-- `VertexCrossing` does not see the sign of a zero coordinate of the TESTED edge `c d` — all bit patterns
    (for the crosser's own edge `a b` the reference directions enter; they are `Z3`-related, see `s2Ortho_Z3`) -/
theorem vertexCrossing_T3 (a b : V3) {c c' d d' : V3} (hc : T3 c' c) (hd : T3 d' d) :
    vertexCrossing a b c' d' = vertexCrossing a b c d := by
  have ra := T3.refl a
  have rb := T3.refl b
  unfold vertexCrossing vertexCrossingWith
  rw [feq3_Z3 hc.1 hd.1, feq3_Z3 ra.1 hc.1, feq3_Z3 rb.1 hd.1, feq3_Z3 ra.1 hd.1, feq3_Z3 rb.1 hc.1,
    orderedCCW_T3 (T3.refl (referenceDir a)) hd rb ra, orderedCCW_T3 (T3.refl (referenceDir b)) hc ra rb,
    orderedCCW_T3 (T3.refl (referenceDir a)) hc rb ra, orderedCCW_T3 (T3.refl (referenceDir b)) hd ra rb]

theorem edgeOrVertexCrossing_T3 (a b : V3) {c c' d d' : V3} (hc : T3 c' c) (hd : T3 d' d) :
    edgeOrVertexCrossing a b c' d' = edgeOrVertexCrossing a b c d := by
  unfold edgeOrVertexCrossing
  rw [crossingSign_T3 (T3.refl a) (T3.refl b) hc hd, vertexCrossing_T3 a b hc hd]

/-! ### the exact specification -/

theorem sharesEndpoint_Z3 {a a' b b' c c' d d' : V3} (ha : Z3 a' a) (hb : Z3 b' b) (hc : Z3 c' c) (hd : Z3 d' d) :
    sharesEndpoint a' b' c' d' = sharesEndpoint a b c d := by
  unfold sharesEndpoint
  rw [feq3_Z3 ha hc, feq3_Z3 ha hd, feq3_Z3 hb hc, feq3_Z3 hb hd]

theorem exactCrossing_T3 {a a' b b' c c' d d' : V3} (ha : T3 a' a) (hb : T3 b' b) (hc : T3 c' c) (hd : T3 d' d) :
    exactCrossing a' b' c' d' = exactCrossing a b c d := by
  unfold exactCrossing exactCrossingWith fourSameWith
  rw [sharesEndpoint_Z3 ha.1 hb.1 hc.1 hd.1, exactDecision_T3 ha hc hb, exactDecision_T3 hc hb hd,
    exactDecision_T3 hb hd ha, exactDecision_T3 hd ha hc]

/-! ### sharpness: a finite vector and its twin on bit patterns -/

/-- (1, +0, +0) and (1, −0, −0): Go-`==`, distinct bit patterns, twins -/
example : V3.feq ExactLaws.eX ExactLaws.eXm = true ∧ ExactLaws.eX ≠ ExactLaws.eXm ∧ T3 ExactLaws.eX ExactLaws.eXm :=
  ⟨by decide +kernel, by decide +kernel,
    T3_of_feq (by decide +kernel) (by decide +kernel) (by decide +kernel)⟩

end S2Proofs.C03Z
