/-
  S2Proofs.FoldTouch — "folding over a cube edge preserves contact", in exact integer cube coordinates:
  a rectangle R of face f that reaches the boundary line of side d meets the box of the cell that lies across
  that side from a boundary square whose extent along the edge meets R's.  (R may be degenerate: a point.)
-/
import S2Proofs.NbrComplete
open S2 S2.CellID S2.Hilbert S2.STUV
set_option linter.unusedVariables false
set_option linter.unusedSimpArgs false
namespace S2Proofs.C01W

set_option hygiene false in
macro "fold_tac" : tactic => `(tactic|
  (rw [boxMeet_ne_none]
   obtain ⟨hN, hSle, hX, hY, _, _, _, _, hNI, hNJ, _, _, _, _⟩ := sq_prod_facts X Y K N hKN hN0 hXle hYle
   interval_cases f <;>
    simp only [nbrSq, Nat.reduceMod, Nat.reduceAdd, if_true, if_false, Nat.zero_ne_one, OfNat.ofNat_ne_zero,
      Nat.one_ne_zero, OfNat.one_ne_ofNat] <;>
    (try rw [if_neg (by omega)]) <;>
    simp only [sqBox, faceBox, cubeLo, hN, hNI, hNJ, Nat.zero_mul, Nat.sub_self] <;>
    (clear hXle hYle hKN; omega)))

set_option maxHeartbeats 1000000 in
/-- side 0 (j = 0 line, v = −2^30) -/
theorem fold_touch0 (f X Y K N : Nat) (hf : f < 6) (hKN : K * N = 1073741824) (hN0 : 0 < N)
    (hXle : X ≤ K - 1) (hYle : Y ≤ K - 1) (hY0 : Y = 0) (u1 u2 v1 v2 : Int)
    (hu : -1073741824 ≤ u1 ∧ u1 ≤ u2 ∧ u2 ≤ 1073741824) (hv : v1 = -1073741824 ∧ v1 ≤ v2 ∧ v2 ≤ 1073741824)
    (hm : max u1 (cubeLo X N) ≤ min u2 (cubeLo X N + 2 * (N:Int))) :
    boxMeet (faceBox f (u1, u2) (v1, v2))
      (sqBox (nbrSq f X Y (K - 1) 0).1 (nbrSq f X Y (K - 1) 0).2.1 (nbrSq f X Y (K - 1) 0).2.2 N) ≠ none := by
  unfold cubeLo at hm
  have hY0N : Y * N = 0 := by rw [hY0, Nat.zero_mul]
  fold_tac

set_option maxHeartbeats 1000000 in
/-- side 1 (i = max line, u = +2^30) -/
theorem fold_touch1 (f X Y K N : Nat) (hf : f < 6) (hKN : K * N = 1073741824) (hN0 : 0 < N)
    (hXle : X ≤ K - 1) (hYle : Y ≤ K - 1) (hX1' : X = K - 1) (u1 u2 v1 v2 : Int)
    (hu : -1073741824 ≤ u1 ∧ u1 ≤ u2 ∧ u2 = 1073741824) (hv : -1073741824 ≤ v1 ∧ v1 ≤ v2 ∧ v2 ≤ 1073741824)
    (hm : max v1 (cubeLo Y N) ≤ min v2 (cubeLo Y N + 2 * (N:Int))) :
    boxMeet (faceBox f (u1, u2) (v1, v2))
      (sqBox (nbrSq f X Y (K - 1) 1).1 (nbrSq f X Y (K - 1) 1).2.1 (nbrSq f X Y (K - 1) 1).2.2 N) ≠ none := by
  unfold cubeLo at hm
  fold_tac

set_option maxHeartbeats 1000000 in
/-- side 2 (j = max line, v = +2^30) -/
theorem fold_touch2 (f X Y K N : Nat) (hf : f < 6) (hKN : K * N = 1073741824) (hN0 : 0 < N)
    (hXle : X ≤ K - 1) (hYle : Y ≤ K - 1) (hY1' : Y = K - 1) (u1 u2 v1 v2 : Int)
    (hu : -1073741824 ≤ u1 ∧ u1 ≤ u2 ∧ u2 ≤ 1073741824) (hv : -1073741824 ≤ v1 ∧ v1 ≤ v2 ∧ v2 = 1073741824)
    (hm : max u1 (cubeLo X N) ≤ min u2 (cubeLo X N + 2 * (N:Int))) :
    boxMeet (faceBox f (u1, u2) (v1, v2))
      (sqBox (nbrSq f X Y (K - 1) 2).1 (nbrSq f X Y (K - 1) 2).2.1 (nbrSq f X Y (K - 1) 2).2.2 N) ≠ none := by
  unfold cubeLo at hm
  fold_tac

set_option maxHeartbeats 1000000 in
/-- side 3 (i = 0 line, u = −2^30) -/
theorem fold_touch3 (f X Y K N : Nat) (hf : f < 6) (hKN : K * N = 1073741824) (hN0 : 0 < N)
    (hXle : X ≤ K - 1) (hYle : Y ≤ K - 1) (hX0 : X = 0) (u1 u2 v1 v2 : Int)
    (hu : u1 = -1073741824 ∧ u1 ≤ u2 ∧ u2 ≤ 1073741824) (hv : -1073741824 ≤ v1 ∧ v1 ≤ v2 ∧ v2 ≤ 1073741824)
    (hm : max v1 (cubeLo Y N) ≤ min v2 (cubeLo Y N + 2 * (N:Int))) :
    boxMeet (faceBox f (u1, u2) (v1, v2))
      (sqBox (nbrSq f X Y (K - 1) 3).1 (nbrSq f X Y (K - 1) 3).2.1 (nbrSq f X Y (K - 1) 3).2.2 N) ≠ none := by
  unfold cubeLo at hm
  have hX0N : X * N = 0 := by rw [hX0, Nat.zero_mul]
  fold_tac

end S2Proofs.C01W
