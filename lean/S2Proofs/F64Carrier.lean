/-
  S2Proofs.F64Carrier — a LINEAR ORDER made of binary64 values, on which the generic interval theorems of
  `S2Proofs.Properties.C19` apply, and the map `q : F64 → V` that transports the soft-float to it.

  * `key x : Int`      the exact value of a non-NaN float in units of 2^-1074, `±2^2100` for `±∞`;
                        for non-NaN floats the IEEE comparisons `< ≤ ==` are the integer comparisons of the keys
                        (`lt_iff_key`, `le_iff_key`, `feq_iff_key`; finite part: `F64Order.cmp_finite`).
  * `Canon x`           `x` is not a NaN and not `-0`; `key` is injective on canonical floats (`key_inj`).
  * `V`                 the canonical floats, a `LinearOrder` (order of the keys); every element of `V` IS a float.
  * `q x`               `-0 ↦ +0`, `NaN ↦ +∞`, otherwise `x` itself.
  * `IvlOps V`          the float operations, followed by `q`.  `q` commutes with `+ - 0.5* 2* abs` on ALL floats
                        (a NaN operand gives NaN, and `+∞ ⊕ y ∈ {+∞, NaN}`), with `Remainder(·,2π)` on finite floats,
                        and with `< ≤ == max min` on non-NaN floats.
-/
import Mathlib.Order.Basic
import Mathlib.Order.Defs.LinearOrder
import Mathlib.Tactic.Ring
import Mathlib.Tactic.Linarith
import Mathlib.Algebra.Order.Group.Abs
import S2.Interval
import S2Proofs.IntervalLemmas
import S2Proofs.F64Order
import S2Proofs.F64Sym
import S2Proofs.F64Inj
import S2Proofs.Measures.F64Sign

set_option linter.unusedSimpArgs false
set_option linter.unusedVariables false

namespace S2Proofs.F64Carrier
open S2 S2.Exact S2Proofs.F64Order S2Proofs.F64Sym S2Proofs.F64Inj

/-- not a NaN -/
def NN (x : F64) : Prop := x.isNaN = false

instance (x : F64) : Decidable (NN x) := by unfold NN; infer_instance

theorem nn_of_fin {x : F64} (h : Fin x) : NN x := isNaN_false h

theorem fin_of_nn {x : F64} (h : NN x) (hi : x.isInf = false) : Fin x := S2Proofs.C18.fin_of x h hi

/-- a bound above every finite magnitude (`|toInt x| < 2^2098`) -/
def BIG : Int := ((2 ^ 2100 : Nat) : Int)

theorem BIG_pos : 0 < BIG := by
  unfold BIG; exact_mod_cast Nat.two_pow_pos 2100

/-- exact value in units of 2^-1074; `±BIG` for the infinities (garbage for NaN) -/
def key (x : F64) : Int :=
  if x.isInf then (if x.signBit then -BIG else BIG) else toInt x

theorem mag_lt (x : F64) (h : Fin x) : (mag x : Int) < BIG := by
  have fx : x.fracField < 2 ^ 52 := by rw [fracField_eq]; exact Nat.mod_lt _ (by decide)
  have he : x.expField < 2047 := by
    have : x.expField < 2048 := by rw [expField_eq]; exact Nat.mod_lt _ (by decide)
    unfold F64Order.Fin at h; omega
  have hm : x.mant < 2 ^ 53 := by
    unfold F64.mant; split <;> omega
  have hp : 2 ^ (x.expField - 1) ≤ 2 ^ 2046 := Nat.pow_le_pow_right (by decide) (by omega)
  have : mag x < 2 ^ 53 * 2 ^ 2046 := by
    unfold mag
    calc x.mant * 2 ^ (x.expField - 1) < 2 ^ 53 * 2 ^ (x.expField - 1) :=
          Nat.mul_lt_mul_of_pos_right hm (Nat.two_pow_pos _)
      _ ≤ 2 ^ 53 * 2 ^ 2046 := Nat.mul_le_mul_left _ hp
  have h2 : (2 ^ 53 * 2 ^ 2046 : Nat) = 2 ^ 2099 := by rw [← Nat.pow_add]
  have h3 : (2 ^ 2099 : Nat) < 2 ^ 2100 := Nat.pow_lt_pow_right (by decide) (by decide)
  have h4 : mag x < 2 ^ 2100 := by rw [h2] at this; exact lt_trans this h3
  unfold BIG; exact_mod_cast h4

theorem toInt_bounds (x : F64) (h : Fin x) : -BIG < toInt x ∧ toInt x < BIG := by
  have := mag_lt x h
  rw [toInt_eq_mag]
  split <;> omega

theorem key_fin {x : F64} (h : Fin x) : key x = toInt x := by
  unfold key; rw [isInf_false h]; rfl

theorem key_bounds_fin {x : F64} (h : Fin x) : -BIG < key x ∧ key x < BIG := by
  rw [key_fin h]; exact toInt_bounds x h

theorem key_le_BIG (x : F64) (h : NN x) : key x ≤ BIG := by
  by_cases hi : x.isInf = true
  · have := BIG_pos
    unfold key; rw [hi]; simp only [if_true]; split <;> omega
  · have := key_bounds_fin (fin_of_nn h (by simpa using hi)); omega

theorem negBIG_le_key (x : F64) (h : NN x) : -BIG ≤ key x := by
  by_cases hi : x.isInf = true
  · have := BIG_pos
    unfold key; rw [hi]; simp only [if_true]; split <;> omega
  · have := key_bounds_fin (fin_of_nn h (by simpa using hi)); omega

theorem key_inf (s : Bool) : key (F64.inf s) = if s then -BIG else BIG := by
  have h1 : (F64.inf s).isInf = true := by cases s <;> decide
  have h2 : (F64.inf s).signBit = s := by cases s <;> decide
  unfold key; rw [h1, h2]; simp

/-- **the IEEE comparison of two non-NaN floats is the integer comparison of their keys** -/
theorem cmp_key {x y : F64} (hx : NN x) (hy : NN y) : F64.cmp x y = some (compare (key x) (key y)) := by
  unfold NN at hx hy
  by_cases ix : x.isInf = true <;> by_cases iy : y.isInf = true
  · unfold F64.cmp key
    simp only [hx, hy, ix, iy, Bool.or_self, Bool.false_eq_true, if_false, if_true, Bool.and_self]
    have hB := BIG_pos
    by_cases sx : x.signBit = true <;> by_cases sy : y.signBit = true <;>
      simp only [sx, sy, Bool.false_eq_true, if_false, if_true]
    · rw [compare_eq_iff_eq.mpr rfl, compare_eq_iff_eq.mpr rfl]
    · rw [compare_lt_iff_lt.mpr (by decide), compare_lt_iff_lt.mpr (by omega)]
    · rw [compare_gt_iff_gt.mpr (by decide), compare_gt_iff_gt.mpr (by omega)]
    · rw [compare_eq_iff_eq.mpr rfl, compare_eq_iff_eq.mpr rfl]
  · have iy' : y.isInf = false := by simpa using iy
    have hb := key_bounds_fin (fin_of_nn hy iy')
    unfold F64.cmp
    simp only [hx, hy, ix, iy', Bool.or_self, Bool.false_eq_true, if_false, if_true, Bool.or_false,
      Bool.and_false]
    unfold key at *
    simp only [ix, if_true, iy', Bool.false_eq_true, if_false] at *
    by_cases sx : x.signBit = true <;> simp only [sx, Bool.false_eq_true, if_false, if_true]
    · rw [compare_lt_iff_lt.mpr (by omega)]
    · rw [compare_gt_iff_gt.mpr (by omega)]
  · have ix' : x.isInf = false := by simpa using ix
    have hb := key_bounds_fin (fin_of_nn hx ix')
    unfold F64.cmp
    simp only [hx, hy, ix', iy, Bool.or_self, Bool.false_eq_true, if_false, if_true, Bool.or_true,
      Bool.false_and]
    unfold key at *
    simp only [iy, if_true, ix', Bool.false_eq_true, if_false] at *
    by_cases sy : y.signBit = true <;> simp only [sy, Bool.false_eq_true, if_false, if_true]
    · rw [compare_gt_iff_gt.mpr (by omega)]
    · rw [compare_lt_iff_lt.mpr (by omega)]
  · have fx := fin_of_nn hx (by simpa using ix)
    have fy := fin_of_nn hy (by simpa using iy)
    rw [cmp_finite fx fy, key_fin fx, key_fin fy]

theorem lt_iff_key {x y : F64} (hx : NN x) (hy : NN y) : F64.lt x y = true ↔ key x < key y := by
  unfold F64.lt; rw [cmp_key hx hy]
  rcases lt_trichotomy (key x) (key y) with h | h | h
  · simp [compare_lt_iff_lt.mpr h, h]
  · simp [h]
  · simp [compare_gt_iff_gt.mpr h, not_lt.mpr h.le]

theorem le_iff_key {x y : F64} (hx : NN x) (hy : NN y) : F64.le x y = true ↔ key x ≤ key y := by
  unfold F64.le; rw [cmp_key hx hy]
  rcases lt_trichotomy (key x) (key y) with h | h | h
  · simp [compare_lt_iff_lt.mpr h, h.le]
  · simp [h]
  · simp [compare_gt_iff_gt.mpr h, not_le.mpr h]

theorem feq_iff_key {x y : F64} (hx : NN x) (hy : NN y) : F64.feq x y = true ↔ key x = key y := by
  unfold F64.feq; rw [cmp_key hx hy]
  rcases lt_trichotomy (key x) (key y) with h | h | h
  · simp [compare_lt_iff_lt.mpr h, h.ne]
  · simp [h]
  · simp [compare_gt_iff_gt.mpr h, h.ne']

/-- comparisons with a NaN are false -/
theorem cmp_nan_left {x : F64} (h : x.isNaN = true) (y : F64) : F64.cmp x y = none := by
  unfold F64.cmp; simp [h]
theorem cmp_nan_right {y : F64} (h : y.isNaN = true) (x : F64) : F64.cmp x y = none := by
  unfold F64.cmp; simp [h]

theorem nn_of_le_left {x y : F64} (h : F64.le x y = true) : NN x := by
  unfold NN; by_contra hc
  have : x.isNaN = true := by simpa using hc
  unfold F64.le at h; rw [cmp_nan_left this] at h; simp at h
theorem nn_of_le_right {x y : F64} (h : F64.le x y = true) : NN y := by
  unfold NN; by_contra hc
  have : y.isNaN = true := by simpa using hc
  unfold F64.le at h; rw [cmp_nan_right this] at h; simp at h
theorem nn_of_lt_left {x y : F64} (h : F64.lt x y = true) : NN x := by
  unfold NN; by_contra hc
  have : x.isNaN = true := by simpa using hc
  unfold F64.lt at h; rw [cmp_nan_left this] at h; simp at h
theorem nn_of_lt_right {x y : F64} (h : F64.lt x y = true) : NN y := by
  unfold NN; by_contra hc
  have : y.isNaN = true := by simpa using hc
  unfold F64.lt at h; rw [cmp_nan_right this] at h; simp at h

/-- a non-NaN float strictly between two finite floats (or bounded by them) is finite -/
theorem fin_of_between {a x b : F64} (ha : Fin a) (hb : Fin b) (h1 : F64.le a x = true) (h2 : F64.le x b = true) :
    Fin x := by
  have hx := nn_of_le_right h1
  apply fin_of_nn hx
  by_contra hc
  have hi : x.isInf = true := by simpa using hc
  have k1 := (le_iff_key (nn_of_fin ha) hx).1 h1
  have k2 := (le_iff_key hx (nn_of_fin hb)).1 h2
  have b1 := key_bounds_fin ha
  have b2 := key_bounds_fin hb
  unfold key at k1 k2
  rw [hi] at k1 k2
  simp only [if_true] at k1 k2
  unfold key at b1 b2
  rw [isInf_false ha] at b1 k1
  rw [isInf_false hb] at b2 k2
  simp only [Bool.false_eq_true, if_false] at *
  by_cases hs : x.signBit = true <;> simp only [hs, Bool.false_eq_true, if_true, if_false] at k1 k2 <;> omega

/-! ### canonical floats -/

/-- neither NaN nor `-0` -/
def Canon (x : F64) : Prop := x.isNaN = false ∧ x ≠ F64.zero true

instance (x : F64) : Decidable (Canon x) := by unfold Canon; infer_instance

theorem key_inj {x y : F64} (hx : Canon x) (hy : Canon y) (h : key x = key y) : x = y := by
  obtain ⟨nx, zx⟩ := hx
  obtain ⟨ny, zy⟩ := hy
  by_cases ix : x.isInf = true <;> by_cases iy : y.isInf = true
  · rw [S2Proofs.C18.eq_inf_of_isInf x ix, S2Proofs.C18.eq_inf_of_isInf y iy]
    unfold key at h
    simp only [ix, iy, if_true] at h
    have hB := BIG_pos
    cases hsx : x.signBit <;> cases hsy : y.signBit <;>
      simp only [hsx, hsy, Bool.false_eq_true, if_false, if_true] at h ⊢ <;> omega
  · exfalso
    have hb := key_bounds_fin (fin_of_nn ny (by simpa using iy))
    rw [← h] at hb
    unfold key at hb; simp only [ix, if_true] at hb
    split at hb <;> omega
  · exfalso
    have hb := key_bounds_fin (fin_of_nn nx (by simpa using ix))
    rw [h] at hb
    unfold key at hb; simp only [iy, if_true] at hb
    split at hb <;> omega
  · have fx := fin_of_nn nx (by simpa using ix)
    have fy := fin_of_nn ny (by simpa using iy)
    rw [key_fin fx, key_fin fy] at h
    exact toInt_inj h zx zy

/-- `-0 ↦ +0`, `NaN ↦ +∞` -/
def canon (x : F64) : F64 :=
  if x.isNaN then F64.inf false else if x = F64.zero true then F64.zero false else x

theorem canon_canon (x : F64) : Canon (canon x) := by
  unfold canon
  split
  · decide
  · split
    · decide
    · rename_i h1 h2; exact ⟨by simpa using h1, h2⟩

theorem canon_of_canon {x : F64} (h : Canon x) : canon x = x := by
  unfold canon; simp [h.1, h.2]

theorem canon_nn {x : F64} (h : NN x) : canon x = if x = F64.zero true then F64.zero false else x := by
  unfold canon; unfold NN at h; simp [h]

theorem canon_nan {x : F64} (h : x.isNaN = true) : canon x = F64.inf false := by
  unfold canon; simp [h]

theorem key_canon {x : F64} (h : NN x) : key (canon x) = key x := by
  rw [canon_nn h]
  split
  · rename_i hz; rw [hz]; decide
  · rfl

theorem nn_canon (x : F64) : NN (canon x) := (canon_canon x).1

theorem canon_idem (x : F64) : canon (canon x) = canon x := canon_of_canon (canon_canon x)

theorem isInf_canon {x : F64} (h : NN x) : (canon x).isInf = x.isInf := by
  rw [canon_nn h]; split
  · rename_i hz; rw [hz]; decide
  · rfl

theorem fin_canon {x : F64} (h : Fin x) : Fin (canon x) := by
  rw [canon_nn (nn_of_fin h)]; split
  · decide
  · exact h

/-! ### `neg`, `abs` on keys -/

theorem key_neg {x : F64} (h : NN x) : key (F64.neg x) = - key x := by
  unfold key
  rw [isInf_neg, signBit_neg]
  by_cases hi : x.isInf = true
  · simp only [hi, if_true]
    cases x.signBit <;> simp
  · have hi' : x.isInf = false := by simpa using hi
    simp only [hi', Bool.false_eq_true, if_false]
    exact toIntAt_neg x _

theorem nn_neg {x : F64} (h : NN x) : NN (F64.neg x) := by
  unfold NN; rw [isNaN_neg]; exact h

theorem and_mask_toNat (b : UInt64) : (b &&& 0x7FFFFFFFFFFFFFFF).toNat = b.toNat % 2 ^ 63 := by
  rw [UInt64.toNat_and]
  have h7 : (0x7FFFFFFFFFFFFFFF : UInt64).toNat = 2 ^ 63 - 1 := by decide
  rw [h7, Nat.and_two_pow_sub_one_eq_mod]

/-- `math.Abs` clears the sign bit: it is `neg` on negative patterns and the identity otherwise -/
theorem abs_eq (x : F64) : F64.abs x = if x.signBit then F64.neg x else x := by
  have hb := x.bits.toNat_lt
  rw [signBit_eq]
  by_cases h : 2 ^ 63 ≤ x.bits.toNat
  · rw [decide_eq_true h]; simp only [if_true]
    unfold F64.abs F64.neg
    congr 1
    apply UInt64.toNat_inj.mp
    rw [and_mask_toNat, xor_toNat]
    split <;> omega
  · rw [decide_eq_false h]; simp only [Bool.false_eq_true, if_false]
    cases x with | mk b =>
    simp only at h hb
    unfold F64.abs
    simp only
    congr 1
    apply UInt64.toNat_inj.mp
    rw [and_mask_toNat]
    omega

theorem isNaN_abs (x : F64) : (F64.abs x).isNaN = x.isNaN := by
  rw [abs_eq]; split
  · exact isNaN_neg x
  · rfl

theorem nn_abs {x : F64} (h : NN x) : NN (F64.abs x) := by
  unfold NN; rw [isNaN_abs]; exact h

theorem key_sign {x : F64} (h : NN x) : (x.signBit = true → key x ≤ 0) ∧ (x.signBit = false → 0 ≤ key x) := by
  have hB := BIG_pos
  unfold key
  by_cases hi : x.isInf = true
  · simp only [hi, if_true]
    constructor <;> intro hs <;> simp only [hs, Bool.false_eq_true, if_true, if_false] <;> omega
  · have hi' : x.isInf = false := by simpa using hi
    simp only [hi', Bool.false_eq_true, if_false]
    rw [toInt_eq_mag]
    constructor <;> intro hs <;> simp only [hs, Bool.false_eq_true, if_true, if_false] <;> omega

theorem key_abs {x : F64} (h : NN x) : key (F64.abs x) = |key x| := by
  rw [abs_eq]
  have hs := key_sign h
  by_cases c : x.signBit = true
  · simp only [c, if_true]
    rw [key_neg h, abs_of_nonpos (hs.1 c)]
  · have c' : x.signBit = false := by simpa using c
    simp only [c', Bool.false_eq_true, if_false]
    rw [abs_of_nonneg (hs.2 c')]

/-! ### non-NaN results -/

theorem zero_nn (s : Bool) : NN (F64.zero s) := by cases s <;> decide
theorem inf_nn (s : Bool) : NN (F64.inf s) := by cases s <;> decide

theorem nn_add_of_fin {x y : F64} (hx : Fin x) (hy : Fin y) : NN (F64.add x y) := by
  unfold NN F64.add
  simp only [isNaN_false hx, isNaN_false hy, isInf_false hx, isInf_false hy, Bool.or_self,
    Bool.false_eq_true, if_false]
  split
  · exact zero_nn _
  · split
    · exact zero_nn _
    · exact S2Proofs.C18.roundDyadic_isNaN _ _ _

theorem nn_add_fin_right {x y : F64} (hx : NN x) (hy : Fin y) : NN (F64.add x y) := by
  by_cases hi : x.isInf = true
  · unfold NN at hx
    unfold NN F64.add
    simp only [hx, isNaN_false hy, isInf_false hy, hi, Bool.or_self, Bool.false_eq_true, if_false, if_true,
      Bool.false_and]
  · exact nn_add_of_fin (fin_of_nn hx (by simpa using hi)) hy

theorem nn_add_fin_left {x y : F64} (hx : Fin x) (hy : NN y) : NN (F64.add x y) := by
  by_cases hi : y.isInf = true
  · unfold NN at hy
    unfold NN F64.add
    simp only [hy, isNaN_false hx, isInf_false hx, hi, Bool.or_self, Bool.false_eq_true, if_false, if_true]
  · exact nn_add_of_fin hx (fin_of_nn hy (by simpa using hi))

theorem nn_sub_of_fin {x y : F64} (hx : Fin x) (hy : Fin y) : NN (F64.sub x y) :=
  nn_add_of_fin hx ((isFinite_neg y).2 hy)

theorem nn_sub_fin_right {x y : F64} (hx : NN x) (hy : Fin y) : NN (F64.sub x y) :=
  nn_add_fin_right hx ((isFinite_neg y).2 hy)

theorem nn_mul_of_nn {c x : F64} (hc : Fin c) (hz : c.isZero = false) (hx : NN x) : NN (F64.mul c x) := by
  unfold NN at hx
  unfold NN F64.mul
  simp only [isNaN_false hc, hx, isInf_false hc, hz, Bool.or_self, Bool.false_eq_true, if_false, Bool.false_or]
  split
  · split
    · rename_i h1 h2
      exfalso
      have := S2Proofs.C18.isInf_isZero_false x h1
      rw [this] at h2; simp at h2
    · exact inf_nn _
  · split
    · exact zero_nn _
    · exact S2Proofs.C18.roundDyadic_isNaN _ _ _

/-! ### the carrier -/

/-- canonical floats: the carrier of the linear order -/
def V : Type := {x : F64 // Canon x}

def vkey (v : V) : Int := key v.1

theorem vkey_inj : Function.Injective vkey := fun a b h => Subtype.ext (key_inj a.2 b.2 h)

instance : LinearOrder V := LinearOrder.lift' vkey vkey_inj

/-- the transport map -/
def q (x : F64) : V := ⟨canon x, canon_canon x⟩

theorem q_val (v : V) : q v.1 = v := Subtype.ext (canon_of_canon v.2)
theorem val_q (x : F64) : (q x).1 = canon x := rfl
theorem nn_val (v : V) : NN v.1 := v.2.1
theorem vkey_q {x : F64} (h : NN x) : vkey (q x) = key x := key_canon h
theorem le_def (a b : V) : a ≤ b ↔ vkey a ≤ vkey b := Iff.rfl
theorem lt_def (a b : V) : a < b ↔ vkey a < vkey b := Iff.rfl
theorem q_eq_iff {x y : F64} (hx : NN x) (hy : NN y) : q x = q y ↔ key x = key y := by
  constructor
  · intro h; rw [← vkey_q hx, ← vkey_q hy, h]
  · intro h; apply vkey_inj; rw [vkey_q hx, vkey_q hy, h]

theorem max_eq_of_key_le {a b : V} (h : vkey a ≤ vkey b) : max a b = b := max_eq_right h
theorem max_eq_of_key_ge {a b : V} (h : vkey b ≤ vkey a) : max a b = a := max_eq_left h

/-! ### the float operations respect `canon` -/

theorem add_nan_left {x : F64} (h : x.isNaN = true) (y : F64) : F64.add x y = F64.nan := by
  unfold F64.add; simp [h]
theorem add_nan_right {y : F64} (h : y.isNaN = true) (x : F64) : F64.add x y = F64.nan := by
  unfold F64.add; simp [h]

theorem canon_nan' : canon F64.nan = F64.inf false := by decide

theorem canon_add_posinf_left (y : F64) : canon (F64.add (F64.inf false) y) = F64.inf false := by
  by_cases hy : y.isNaN = true
  · rw [add_nan_right hy, canon_nan']
  · have hy' : y.isNaN = false := by simpa using hy
    have h1 : (F64.inf false).isNaN = false := by decide
    have h2 : (F64.inf false).isInf = true := by decide
    unfold F64.add
    simp only [h1, hy', h2, Bool.or_self, Bool.false_eq_true, if_false, if_true]
    split
    · exact canon_nan'
    · decide

theorem canon_add_posinf_right (x : F64) : canon (F64.add x (F64.inf false)) = F64.inf false := by
  by_cases hx : x.isNaN = true
  · rw [add_nan_left hx, canon_nan']
  · have hx' : x.isNaN = false := by simpa using hx
    have h1 : (F64.inf false).isNaN = false := by decide
    have h2 : (F64.inf false).isInf = true := by decide
    have h3 : (F64.inf false).signBit = false := by decide
    unfold F64.add
    simp only [h1, hx', h2, h3, Bool.or_self, Bool.false_eq_true, if_false, if_true, Bool.true_and]
    split
    · split
      · exact canon_nan'
      · rename_i hi hs
        rw [S2Proofs.C18.eq_inf_of_isInf x hi]
        cases hsx : x.signBit
        · decide
        · rw [hsx] at hs; simp at hs
    · decide

theorem toIntAt_zero (s : Bool) (e : Int) : (F64.zero s).toIntAt e = 0 := by
  have hm : (F64.zero s).mant = 0 := by cases s <;> decide
  unfold F64.toIntAt
  rw [hm]; simp

theorem add_negzero_left (y : F64) : canon (F64.add (F64.zero true) y) = canon (F64.add (F64.zero false) y) := by
  have a1 : (F64.zero true).isNaN = false := by decide
  have a2 : (F64.zero true).isInf = false := by decide
  have a3 : (F64.zero true).isZero = true := by decide
  have a4 : (F64.zero true).expo = -1074 := by decide
  have a5 : (F64.zero true).signBit = true := by decide
  have b1 : (F64.zero false).isNaN = false := by decide
  have b2 : (F64.zero false).isInf = false := by decide
  have b3 : (F64.zero false).isZero = true := by decide
  have b4 : (F64.zero false).expo = -1074 := by decide
  have b5 : (F64.zero false).signBit = false := by decide
  unfold F64.add
  simp only [a1, a2, a3, a4, a5, b1, b2, b3, b4, b5, toIntAt_zero, Bool.false_or, Bool.true_and, Bool.false_and,
    Bool.false_eq_true, if_false]
  split
  · rfl
  · split
    · rfl
    · split
      · cases y.signBit <;> decide
      · rfl

theorem add_negzero_right (x : F64) : canon (F64.add x (F64.zero true)) = canon (F64.add x (F64.zero false)) := by
  have a1 : (F64.zero true).isNaN = false := by decide
  have a2 : (F64.zero true).isInf = false := by decide
  have a3 : (F64.zero true).isZero = true := by decide
  have a4 : (F64.zero true).expo = -1074 := by decide
  have a5 : (F64.zero true).signBit = true := by decide
  have b1 : (F64.zero false).isNaN = false := by decide
  have b2 : (F64.zero false).isInf = false := by decide
  have b3 : (F64.zero false).isZero = true := by decide
  have b4 : (F64.zero false).expo = -1074 := by decide
  have b5 : (F64.zero false).signBit = false := by decide
  unfold F64.add
  simp only [a1, a2, a3, a4, a5, b1, b2, b3, b4, b5, toIntAt_zero, Bool.or_false, Bool.and_true, Bool.and_false,
    Bool.false_eq_true, if_false]
  split
  · rfl
  · split
    · rfl
    · split
      · cases x.signBit <;> decide
      · rfl

theorem canon_add_left (x y : F64) : canon (F64.add (canon x) y) = canon (F64.add x y) := by
  by_cases hx : x.isNaN = true
  · rw [canon_nan hx, canon_add_posinf_left, add_nan_left hx, canon_nan']
  · have hx' : NN x := by unfold NN; simpa using hx
    rw [canon_nn hx']
    split
    · rename_i hz; rw [hz]; exact (add_negzero_left y).symm
    · rfl

theorem canon_add_right (x y : F64) : canon (F64.add x (canon y)) = canon (F64.add x y) := by
  by_cases hy : y.isNaN = true
  · rw [canon_nan hy, canon_add_posinf_right, add_nan_right hy, canon_nan']
  · have hy' : NN y := by unfold NN; simpa using hy
    rw [canon_nn hy']
    split
    · rename_i hz; rw [hz]; exact (add_negzero_right x).symm
    · rfl

theorem canon_add (x y : F64) : canon (F64.add (canon x) (canon y)) = canon (F64.add x y) := by
  rw [canon_add_left, canon_add_right]

theorem neg_canon_nn {y : F64} (h : NN y) : canon (F64.neg (canon y)) = canon (F64.neg y) := by
  rw [canon_nn h]
  split
  · rename_i hz; rw [hz]; decide
  · rfl

/-- (`y` must not be a NaN: `x - NaN = NaN ↦ +∞`, but `x ⊖ (+∞) = -∞`) -/
theorem canon_sub (x : F64) {y : F64} (hy : NN y) : canon (F64.sub (canon x) (canon y)) = canon (F64.sub x y) := by
  unfold F64.sub
  rw [canon_add_left, ← canon_add_right, neg_canon_nn hy, canon_add_right]

/-- multiplication by a positive finite constant -/
theorem canon_mul_const {c : F64} (hc : Fin c) (hz : c.isZero = false) (hs : c.signBit = false) (x : F64) :
    canon (F64.mul c (canon x)) = canon (F64.mul c x) := by
  have c1 := isNaN_false hc
  have c2 := isInf_false hc
  by_cases hx : x.isNaN = true
  · rw [canon_nan hx]
    have h1 : (F64.inf false).isNaN = false := by decide
    have h2 : (F64.inf false).isInf = true := by decide
    have h3 : (F64.inf false).isZero = false := by decide
    have h4 : (F64.inf false).signBit = false := by decide
    unfold F64.mul
    simp only [c1, c2, hz, hs, hx, h1, h2, h3, h4, Bool.or_true, Bool.or_false, Bool.or_self, bne_self_eq_false,
      Bool.false_eq_true, if_false, if_true]
    decide
  · have hx' : NN x := by unfold NN; simpa using hx
    rw [canon_nn hx']
    split
    · rename_i hzx; rw [hzx]
      have a1 : (F64.zero true).isNaN = false := by decide
      have a2 : (F64.zero true).isInf = false := by decide
      have a3 : (F64.zero true).isZero = true := by decide
      have a5 : (F64.zero true).signBit = true := by decide
      have b1 : (F64.zero false).isNaN = false := by decide
      have b2 : (F64.zero false).isInf = false := by decide
      have b3 : (F64.zero false).isZero = true := by decide
      have b5 : (F64.zero false).signBit = false := by decide
      unfold F64.mul
      simp only [c1, c2, hz, hs, a1, a2, a3, a5, b1, b2, b3, b5, Bool.or_true, Bool.or_false, Bool.or_self,
        Bool.false_eq_true, if_false, if_true]
      decide
    · rfl

theorem canon_abs (x : F64) : canon (F64.abs (canon x)) = canon (F64.abs x) := by
  by_cases hx : x.isNaN = true
  · rw [canon_nan hx]
    have : (F64.abs x).isNaN = true := by rw [isNaN_abs]; exact hx
    rw [canon_nan this]; decide
  · have hx' : NN x := by unfold NN; simpa using hx
    rw [canon_nn hx']
    split
    · rename_i hz; rw [hz]; decide
    · rfl

open S2.IvlF64 in
theorem canon_rem {x : F64} (h : NN x) :
    canon (F64.remainder (canon x) f64TwoPi) = canon (F64.remainder x f64TwoPi) := by
  rw [canon_nn h]
  split
  · rename_i hz; rw [hz]; decide +kernel
  · rfl

/-! ### the operations of the carrier -/

open S2.IvlF64 in
instance : IvlOps V where
  feq a b := F64.feq a.1 b.1
  add a b := q (F64.add a.1 b.1)
  sub a b := q (F64.sub a.1 b.1)
  half a := q (F64.mul F64.half a.1)
  dbl a := q (F64.mul F64.two a.1)
  abs a := q (F64.abs a.1)
  rem2pi a := if a.1.isInf then q (F64.zero false) else q (F64.remainder a.1 f64TwoPi)
  zero := q (IvlOps.zero : F64)
  one := q (IvlOps.one : F64)
  negOne := q (IvlOps.negOne : F64)
  pi := q (IvlOps.pi : F64)
  negPi := q (IvlOps.negPi : F64)
  twoPi := q (IvlOps.twoPi : F64)
  halfPi := q (IvlOps.halfPi : F64)
  negHalfPi := q (IvlOps.negHalfPi : F64)
  twoEps := q (IvlOps.twoEps : F64)

section Commute
open S2.IvlF64 IvlOps

/-! ### `q` commutes with the operations -/

theorem q_zero : q (zero : F64) = (zero : V) := rfl
theorem q_one : q (one : F64) = (one : V) := rfl
theorem q_negOne : q (negOne : F64) = (negOne : V) := rfl
theorem q_pi : q (pi : F64) = (pi : V) := rfl
theorem q_negPi : q (negPi : F64) = (negPi : V) := rfl
theorem q_twoPi : q (twoPi : F64) = (twoPi : V) := rfl
theorem q_halfPi : q (halfPi : F64) = (halfPi : V) := rfl
theorem q_negHalfPi : q (negHalfPi : F64) = (negHalfPi : V) := rfl
theorem q_twoEps : q (twoEps : F64) = (twoEps : V) := rfl

theorem q_add (x y : F64) : q (add x y) = add (q x) (q y) :=
  Subtype.ext (canon_add x y).symm

theorem q_sub (x : F64) {y : F64} (hy : NN y) : q (sub x y) = sub (q x) (q y) :=
  Subtype.ext (canon_sub x hy).symm

theorem q_half (x : F64) : q (half x) = half (q x) :=
  Subtype.ext (canon_mul_const (by decide) (by decide) (by decide) x).symm

theorem q_dbl (x : F64) : q (dbl x) = dbl (q x) :=
  Subtype.ext (canon_mul_const (by decide) (by decide) (by decide) x).symm

theorem q_abs (x : F64) : q (abs x) = abs (q x) :=
  Subtype.ext (canon_abs x).symm

theorem q_rem {x : F64} (h : Fin x) : q (rem2pi x) = rem2pi (q x) := by
  have h1 : (canon x).isInf = false := by rw [isInf_canon (nn_of_fin h)]; exact isInf_false h
  show q (F64.remainder x f64TwoPi) = if (canon x).isInf then q (F64.zero false) else q (F64.remainder (canon x) f64TwoPi)
  rw [h1]
  simp only [Bool.false_eq_true, if_false]
  exact Subtype.ext (canon_rem (nn_of_fin h)).symm

theorem dle_q {x y : F64} (hx : NN x) (hy : NN y) : decide (x ≤ y) = decide (q x ≤ q y) := by
  rw [Bool.eq_iff_iff, decide_eq_true_iff, decide_eq_true_iff, le_def, vkey_q hx, vkey_q hy]
  exact le_iff_key hx hy

theorem dlt_q {x y : F64} (hx : NN x) (hy : NN y) : decide (x < y) = decide (q x < q y) := by
  rw [Bool.eq_iff_iff, decide_eq_true_iff, decide_eq_true_iff, lt_def, vkey_q hx, vkey_q hy]
  exact lt_iff_key hx hy

theorem le_q {x y : F64} (hx : NN x) (hy : NN y) : x ≤ y ↔ q x ≤ q y := by
  rw [le_def, vkey_q hx, vkey_q hy]; exact le_iff_key hx hy

theorem lt_q {x y : F64} (hx : NN x) (hy : NN y) : x < y ↔ q x < q y := by
  rw [lt_def, vkey_q hx, vkey_q hy]; exact lt_iff_key hx hy

theorem feq_q {x y : F64} (hx : NN x) (hy : NN y) : feq x y = feq (q x) (q y) := by
  show F64.feq x y = F64.feq (canon x) (canon y)
  rw [Bool.eq_iff_iff, feq_iff_key hx hy, feq_iff_key (nn_canon x) (nn_canon y), key_canon hx, key_canon hy]

theorem key_of_isZero {x : F64} (h : x.isZero = true) : key x = 0 := by
  unfold F64.isZero at h
  simp only [Bool.and_eq_true, beq_iff_eq] at h
  have hi : x.isInf = false := by unfold F64.isInf; simp [h.1]
  have hm : x.mant = 0 := by unfold F64.mant; simp [h.1, h.2]
  unfold key toInt F64.toIntAt
  rw [hi, hm]; simp

theorem key_posinf {x : F64} (hi : x.isInf = true) (hs : x.signBit = false) : key x = BIG := by
  unfold key; simp [hi, hs]
theorem key_neginf {x : F64} (hi : x.isInf = true) (hs : x.signBit = true) : key x = -BIG := by
  unfold key; simp [hi, hs]

theorem fmax_spec {x y : F64} (hx : NN x) (hy : NN y) :
    (F64.fmax x y = x ∨ F64.fmax x y = y) ∧ key (F64.fmax x y) = Max.max (key x) (key y) := by
  have bx := key_le_BIG x hx
  have by' := key_le_BIG y hy
  unfold NN at hx hy
  unfold F64.fmax
  split
  · rename_i h; simp only [Bool.and_eq_true, Bool.not_eq_true'] at h
    have := key_posinf h.1 h.2
    exact ⟨Or.inl rfl, by rw [this, max_eq_left by']⟩
  · split
    · rename_i _ h; simp only [Bool.and_eq_true, Bool.not_eq_true'] at h
      have := key_posinf h.1 h.2
      exact ⟨Or.inr rfl, by rw [this, max_eq_right bx]⟩
    · simp only [hx, hy, Bool.or_self, Bool.false_eq_true, if_false]
      split
      · rename_i h; simp only [Bool.and_eq_true] at h
        have k1 := key_of_isZero h.1
        have k2 := key_of_isZero h.2
        split
        · exact ⟨Or.inr rfl, by rw [k1, k2]; simp⟩
        · exact ⟨Or.inl rfl, by rw [k1, k2]; simp⟩
      · split
        · rename_i h
          have := (lt_iff_key hy hx).1 h
          exact ⟨Or.inl rfl, by rw [max_eq_left (le_of_lt this)]⟩
        · rename_i h
          have : ¬ key y < key x := fun hc => h ((lt_iff_key hy hx).2 hc)
          exact ⟨Or.inr rfl, by rw [max_eq_right (not_lt.1 this)]⟩

theorem fmin_spec {x y : F64} (hx : NN x) (hy : NN y) :
    (F64.fmin x y = x ∨ F64.fmin x y = y) ∧ key (F64.fmin x y) = Min.min (key x) (key y) := by
  have bx := negBIG_le_key x hx
  have by' := negBIG_le_key y hy
  unfold NN at hx hy
  unfold F64.fmin
  split
  · rename_i h; simp only [Bool.and_eq_true] at h
    have := key_neginf h.1 h.2
    exact ⟨Or.inl rfl, by rw [this, min_eq_left by']⟩
  · split
    · rename_i _ h; simp only [Bool.and_eq_true] at h
      have := key_neginf h.1 h.2
      exact ⟨Or.inr rfl, by rw [this, min_eq_right bx]⟩
    · simp only [hx, hy, Bool.or_self, Bool.false_eq_true, if_false]
      split
      · rename_i h; simp only [Bool.and_eq_true] at h
        have k1 := key_of_isZero h.1
        have k2 := key_of_isZero h.2
        split
        · exact ⟨Or.inl rfl, by rw [k1, k2]; simp⟩
        · exact ⟨Or.inr rfl, by rw [k1, k2]; simp⟩
      · split
        · rename_i h
          have := (lt_iff_key hx hy).1 h
          exact ⟨Or.inl rfl, by rw [min_eq_left (le_of_lt this)]⟩
        · rename_i h
          have : ¬ key x < key y := fun hc => h ((lt_iff_key hx hy).2 hc)
          exact ⟨Or.inr rfl, by rw [min_eq_right (not_lt.1 this)]⟩

theorem nn_max {x y : F64} (hx : NN x) (hy : NN y) : NN (Max.max x y) := by
  rcases (fmax_spec hx hy).1 with h | h <;> (show NN (F64.fmax x y)) <;> rw [h] <;> assumption

theorem nn_min {x y : F64} (hx : NN x) (hy : NN y) : NN (Min.min x y) := by
  rcases (fmin_spec hx hy).1 with h | h <;> (show NN (F64.fmin x y)) <;> rw [h] <;> assumption

theorem fin_max {x y : F64} (hx : Fin x) (hy : Fin y) : Fin (Max.max x y) := by
  rcases (fmax_spec (nn_of_fin hx) (nn_of_fin hy)).1 with h | h <;> (show Fin (F64.fmax x y)) <;> rw [h] <;> assumption

theorem fin_min {x y : F64} (hx : Fin x) (hy : Fin y) : Fin (Min.min x y) := by
  rcases (fmin_spec (nn_of_fin hx) (nn_of_fin hy)).1 with h | h <;> (show Fin (F64.fmin x y)) <;> rw [h] <;> assumption

theorem vkey_max (a b : V) : vkey (Max.max a b) = Max.max (vkey a) (vkey b) := by
  rcases le_total a b with h | h
  · rw [max_eq_right h, max_eq_right ((le_def _ _).1 h)]
  · rw [max_eq_left h, max_eq_left ((le_def _ _).1 h)]

theorem vkey_min (a b : V) : vkey (Min.min a b) = Min.min (vkey a) (vkey b) := by
  rcases le_total a b with h | h
  · rw [min_eq_left h, min_eq_left ((le_def _ _).1 h)]
  · rw [min_eq_right h, min_eq_right ((le_def _ _).1 h)]

theorem q_max {x y : F64} (hx : NN x) (hy : NN y) : q (Max.max x y) = Max.max (q x) (q y) := by
  apply vkey_inj
  rw [vkey_max, vkey_q hx, vkey_q hy, vkey_q (nn_max hx hy)]
  exact (fmax_spec hx hy).2

theorem q_min {x y : F64} (hx : NN x) (hy : NN y) : q (Min.min x y) = Min.min (q x) (q y) := by
  apply vkey_inj
  rw [vkey_min, vkey_q hx, vkey_q hy, vkey_q (nn_min hx hy)]
  exact (fmin_spec hx hy).2

end Commute

/-! ### the laws of the carrier -/

section Laws
open S2.IvlF64 IvlOps

theorem vkey_zero : vkey (zero : V) = 0 := by decide +kernel
theorem vkey_negPi : vkey (negPi : V) = - vkey (pi : V) := by decide +kernel
theorem vkey_negHalfPi : vkey (negHalfPi : V) = - vkey (halfPi : V) := by decide +kernel

theorem vkey_abs (a : V) : vkey (abs a) = |vkey a| := by
  show vkey (q (F64.abs a.1)) = |key a.1|
  rw [vkey_q (nn_abs (nn_val a)), key_abs (nn_val a)]

instance : IvlLaws V where
  feq_iff a b := by
    show F64.feq a.1 b.1 = true ↔ a = b
    rw [feq_iff_key (nn_val a) (nn_val b)]
    exact ⟨fun h => vkey_inj h, fun h => by rw [h]⟩
  negPi_lt_pi := by rw [lt_def]; decide +kernel
  negHalfPi_lt_halfPi := by rw [lt_def]; decide +kernel
  zero_lt_one := by rw [lt_def]; decide +kernel
  abs_le_pi a := by
    rw [le_def, le_def, le_def, vkey_abs, vkey_negPi, abs_le]
  abs_le_halfPi a := by
    rw [le_def, le_def, le_def, vkey_abs, vkey_negHalfPi, abs_le]
  zero_one_lat := by rw [le_def, le_def]; decide +kernel

instance : IvlLengthLaws V where
  sub_negPi_pi_neg := by rw [lt_def]; decide +kernel
  empty_len_not_pos := by rw [lt_def]; decide +kernel
  negOne_neg := by rw [lt_def]; decide +kernel

/-- The facts about binary64 ARITHMETIC (rounding) that the interval theorems need and that are NOT proved here
    (they are the subject of package `f64round`): adding a non-negative (non-positive) finite float does not
    decrease (increase) a finite float, even when the sum overflows; the IEEE remainder modulo `2π` of a finite float
    lies in `[-π, π]`; and `a ⊕ b` does not overflow for `|a| ≤ π`, `|b| < 2^1023`. -/
structure F64ArithFacts : Prop where
  le_add_nonneg : ∀ a m : F64, Fin a → Fin m → F64.le (F64.zero false) m = true → F64.le a (F64.add a m) = true
  add_nonpos_le : ∀ a m : F64, Fin a → Fin m → F64.le m (F64.zero false) = true → F64.le (F64.add a m) a = true
  rem_range : ∀ x : F64, Fin x →
    F64.le (negPi : F64) (F64.remainder x f64TwoPi) = true ∧ F64.le (F64.remainder x f64TwoPi) f64Pi = true
  add_fin : ∀ a b : F64, Fin a → Fin b → F64.le (F64.abs a) f64Pi = true → b.expField < 2046 → Fin (F64.add a b)

/-- `2·m` overflows to `±∞` for the finite floats with `|m| ≥ 2^1023` (exponent field 2046).  Only needed to lift the
    bound `|margin| < 2^1023` from the `s1.Expanded` theorems (`…_allmargins`). -/
def DblBig : Prop := ∀ m : F64, Fin m → m.expField = 2046 → F64.mul F64.two m = F64.inf m.signBit

theorem add_inf_left {x z : F64} (hx : NN x) (hz : NN z) (hi : x.isInf = true) :
    F64.add x z = if z.isInf && (x.signBit != z.signBit) then F64.nan else x := by
  unfold NN at hx hz
  unfold F64.add
  simp only [hx, hz, hi, Bool.or_self, Bool.false_eq_true, if_false, if_true]

theorem add_inf_right {x z : F64} (hx : Fin x) (hz : NN z) (hi : z.isInf = true) : F64.add x z = z := by
  unfold NN at hz
  unfold F64.add
  simp only [isNaN_false hx, isInf_false hx, hz, hi, Bool.or_self, Bool.false_eq_true, if_false, if_true]

theorem key_zero_false : key (F64.zero false) = 0 := by decide +kernel

theorem key_canon_nan : key (canon F64.nan) = BIG := by
  rw [canon_nan', key_inf]; simp

/-- adding something non-negative does not decrease (NaN counted as `+∞`) -/
theorem key_le_add (H : F64ArithFacts) {x z : F64} (hx : NN x) (hz : NN z) (h0 : 0 ≤ key z) :
    key x ≤ key (canon (F64.add x z)) := by
  have hB := BIG_pos
  by_cases ix : x.isInf = true
  · rw [add_inf_left hx hz ix]
    split
    · rw [key_canon_nan]; exact key_le_BIG x hx
    · rw [key_canon hx]
  · have fx := fin_of_nn hx (by simpa using ix)
    by_cases iz : z.isInf = true
    · rw [add_inf_right fx hz iz, key_canon hz]
      have hs : z.signBit = false := by
        by_contra hc
        have := key_neginf iz (by simpa using hc)
        omega
      rw [key_posinf iz hs]; exact key_le_BIG x hx
    · have fz := fin_of_nn hz (by simpa using iz)
      have hr := nn_add_of_fin fx fz
      rw [key_canon hr]
      apply (le_iff_key hx hr).1
      apply H.le_add_nonneg x z fx fz
      apply (le_iff_key (zero_nn false) hz).2
      rw [key_zero_false]; exact h0

/-- adding something non-positive does not increase (NaN counted as `+∞`; it only arises from `+∞ ⊕ -∞`) -/
theorem key_add_le (H : F64ArithFacts) {x z : F64} (hx : NN x) (hz : NN z) (h0 : key z ≤ 0) :
    key (canon (F64.add x z)) ≤ key x := by
  have hB := BIG_pos
  by_cases ix : x.isInf = true
  · rw [add_inf_left hx hz ix]
    split
    · rename_i hc
      simp only [Bool.and_eq_true, bne_iff_ne, ne_eq] at hc
      have hsz : z.signBit = true := by
        by_contra hc'
        have := key_posinf hc.1 (by simpa using hc')
        omega
      have hsx : x.signBit = false := by
        cases hs : x.signBit
        · rfl
        · exfalso; exact hc.2 (by rw [hs, hsz])
      rw [key_canon_nan, key_posinf ix hsx]
    · rw [key_canon hx]
  · have fx := fin_of_nn hx (by simpa using ix)
    by_cases iz : z.isInf = true
    · rw [add_inf_right fx hz iz, key_canon hz]
      have hs : z.signBit = true := by
        by_contra hc
        have := key_posinf iz (by simpa using hc)
        omega
      rw [key_neginf iz hs]; exact negBIG_le_key x hx
    · have fz := fin_of_nn hz (by simpa using iz)
      have hr := nn_add_of_fin fx fz
      rw [key_canon hr]
      apply (le_iff_key hr hx).1
      apply H.add_nonpos_le x z fx fz
      apply (le_iff_key hz (zero_nn false)).2
      rw [key_zero_false]; exact h0

theorem arithLaws (H : F64ArithFacts) : IvlArithLaws V where
  le_add_nonneg a m h := by
    rw [le_def, vkey_zero] at h
    exact key_le_add H (nn_val a) (nn_val m) h
  sub_nonneg_le a m h := by
    rw [le_def, vkey_zero] at h
    apply key_add_le H (nn_val a) (nn_neg (nn_val m))
    rw [key_neg (nn_val m)]
    have : 0 ≤ key m.1 := h
    omega
  add_nonpos_le a m h := by
    rw [le_def, vkey_zero] at h
    exact key_add_le H (nn_val a) (nn_val m) h
  le_sub_nonpos a m h := by
    rw [le_def, vkey_zero] at h
    apply key_le_add H (nn_val a) (nn_neg (nn_val m))
    rw [key_neg (nn_val m)]
    have : key m.1 ≤ 0 := h
    omega
  rem_range x := by
    show (negPi : V) ≤ (if x.1.isInf then q (F64.zero false) else q (F64.remainder x.1 f64TwoPi)) ∧
      (if x.1.isInf then q (F64.zero false) else q (F64.remainder x.1 f64TwoPi)) ≤ (pi : V)
    by_cases hi : x.1.isInf = true
    · simp only [hi, if_true]
      rw [le_def, le_def]; decide +kernel
    · have hi' : x.1.isInf = false := by simpa using hi
      simp only [hi', Bool.false_eq_true, if_false]
      obtain ⟨h1, h2⟩ := H.rem_range x.1 (fin_of_nn (nn_val x) hi')
      have hr := nn_of_le_right h1
      exact ⟨(le_q (by decide) hr).1 h1, (le_q hr (by decide)).1 h2⟩

theorem fin_of_key_bounds {x : F64} (hx : NN x) (h1 : -BIG < key x) (h2 : key x < BIG) : Fin x := by
  apply fin_of_nn hx
  by_contra hc
  have hi : x.isInf = true := by simpa using hc
  unfold key at h1 h2
  rw [hi] at h1 h2
  simp only [if_true] at h1 h2
  by_cases hs : x.signBit = true <;> simp only [hs, Bool.false_eq_true, if_true, if_false] at h1 h2 <;> omega

/-- magnitude bounds from the exponent field -/
theorem mag_ge_of_expField {x : F64} (h : 1 ≤ x.expField) : 2 ^ 52 * 2 ^ (x.expField - 1) ≤ mag x := by
  have hb : (x.expField == 0) = false := by simp; omega
  unfold mag F64.mant
  simp only [hb, Bool.false_eq_true, if_false]
  exact Nat.mul_le_mul_right _ (by omega)

theorem mag_lt_of_expField (x : F64) : mag x < 2 ^ 53 * 2 ^ (x.expField - 1) := by
  have fx : x.fracField < 2 ^ 52 := by rw [fracField_eq]; exact Nat.mod_lt _ (by decide)
  have hm : x.mant < 2 ^ 53 := by unfold F64.mant; split <;> omega
  unfold mag
  exact Nat.mul_lt_mul_of_pos_right hm (Nat.two_pow_pos _)

theorem natAbs_key_fin {x : F64} (h : Fin x) : (key x).natAbs = mag x := by
  rw [key_fin h, toInt_eq_mag]; split <;> omega

/-- a finite float that is not larger in magnitude has a not larger exponent field -/
theorem expField_le_of_abs_key_le {x y : F64} (hx : Fin x) (hy : Fin y) (hy1 : 1 ≤ y.expField)
    (h : |key x| ≤ |key y|) : x.expField ≤ y.expField := by
  by_contra hc
  have h1 : 1 ≤ x.expField := by omega
  have a := mag_ge_of_expField h1
  have b := mag_lt_of_expField y
  have e : 2 ^ 53 * 2 ^ (y.expField - 1) ≤ 2 ^ 52 * 2 ^ (x.expField - 1) := by
    have hk : x.expField - 1 = (y.expField - 1) + 1 + (x.expField - 1 - (y.expField - 1) - 1) := by omega
    rw [hk, pow_add, pow_add]
    have : 1 ≤ 2 ^ (x.expField - 1 - (y.expField - 1) - 1) := Nat.one_le_two_pow
    calc 2 ^ 53 * 2 ^ (y.expField - 1) = 2 ^ 52 * (2 ^ (y.expField - 1) * 2 ^ 1 * 1) := by ring
      _ ≤ 2 ^ 52 * (2 ^ (y.expField - 1) * 2 ^ 1 * 2 ^ (x.expField - 1 - (y.expField - 1) - 1)) :=
        Nat.mul_le_mul_left _ (Nat.mul_le_mul_left _ this)
  have hlt : mag y < mag x := by omega
  rw [← Int.natCast_natAbs, ← Int.natCast_natAbs, natAbs_key_fin hx, natAbs_key_fin hy] at h
  omega

end Laws

end S2Proofs.F64Carrier
