/-
  S2Proofs.F64Inj — the exact value determines the bit pattern of a finite float, except for the two zeros:
  `toInt x = toInt y → x = y` for finite `x`, `y` different from -0.  Consequently Go's `==` on float vectors
  is structural equality on vectors with finite coordinates none of which is -0 (`NoNegZero3`).
-/
import S2Proofs.F64Order
import S2Proofs.F64Sym

namespace S2Proofs.F64Inj
open S2 S2.Exact S2Proofs.F64Order S2Proofs.F64Sym

/-- magnitude of a finite float in units of 2^-1074 -/
def mag (x : F64) : Nat := x.mant * 2 ^ (x.expField - 1)

theorem toInt_eq_mag (x : F64) : toInt x = if x.signBit then -(mag x : Int) else (mag x : Int) := by
  unfold toInt F64.toIntAt mag
  have hk : (x.expo - (-1074)).toNat = x.expField - 1 := by
    unfold F64.expo
    by_cases h : x.expField = 0
    · simp [h]
    · have : (x.expField == 0) = false := by simp [h]
      simp only [this]; simp; omega
  simp only [hk]
  push_cast
  rfl

/-- the magnitude determines the exponent and fraction fields -/
theorem mag_inj {x y : F64} (h : mag x = mag y) : x.expField = y.expField ∧ x.fracField = y.fracField := by
  have fx : x.fracField < 2 ^ 52 := by rw [fracField_eq]; exact Nat.mod_lt _ (by decide)
  have fy : y.fracField < 2 ^ 52 := by rw [fracField_eq]; exact Nat.mod_lt _ (by decide)
  -- bounds of the magnitude of a normal number
  have nb : ∀ z : F64, z.expField ≠ 0 → z.fracField < 2 ^ 52 →
      2 ^ 52 * 2 ^ (z.expField - 1) ≤ mag z ∧ mag z < 2 ^ 53 * 2 ^ (z.expField - 1) := by
    intro z hz fz
    have : (z.expField == 0) = false := by simp [hz]
    unfold mag F64.mant
    simp only [this, ↓reduceIte, Bool.false_eq_true]
    have hp : 0 < 2 ^ (z.expField - 1) := Nat.two_pow_pos _
    constructor
    · exact Nat.mul_le_mul_right _ (by omega)
    · exact Nat.mul_lt_mul_of_pos_right (by omega) hp
  have sb : ∀ z : F64, z.expField = 0 → mag z = z.fracField := by
    intro z hz
    unfold mag F64.mant
    simp [hz]
  by_cases hx : x.expField = 0 <;> by_cases hy : y.expField = 0
  · rw [sb x hx, sb y hy] at h; exact ⟨by rw [hx, hy], h⟩
  · exfalso
    rw [sb x hx] at h
    have := (nb y hy fy).1
    have : 2 ^ 52 * 1 ≤ 2 ^ 52 * 2 ^ (y.expField - 1) := Nat.mul_le_mul_left _ (Nat.one_le_two_pow)
    omega
  · exfalso
    rw [sb y hy] at h
    have := (nb x hx fx).1
    have : 2 ^ 52 * 1 ≤ 2 ^ 52 * 2 ^ (x.expField - 1) := Nat.mul_le_mul_left _ (Nat.one_le_two_pow)
    omega
  · obtain ⟨lx, ux⟩ := nb x hx fx
    obtain ⟨ly, uy⟩ := nb y hy fy
    have he : x.expField = y.expField := by
      rcases Nat.lt_trichotomy x.expField y.expField with hlt | heq | hgt
      · exfalso
        have : 2 ^ 53 * 2 ^ (x.expField - 1) ≤ 2 ^ 52 * 2 ^ (y.expField - 1) := by
          have e : y.expField - 1 = (x.expField - 1) + 1 + (y.expField - 1 - (x.expField - 1) - 1) := by omega
          rw [e, pow_add, pow_add]
          have : 1 ≤ 2 ^ (y.expField - 1 - (x.expField - 1) - 1) := Nat.one_le_two_pow
          calc 2 ^ 53 * 2 ^ (x.expField - 1) = 2 ^ 52 * (2 ^ (x.expField - 1) * 2 ^ 1 * 1) := by ring
            _ ≤ 2 ^ 52 * (2 ^ (x.expField - 1) * 2 ^ 1 * 2 ^ (y.expField - 1 - (x.expField - 1) - 1)) :=
              Nat.mul_le_mul_left _ (Nat.mul_le_mul_left _ this)
        omega
      · exact heq
      · exfalso
        have : 2 ^ 53 * 2 ^ (y.expField - 1) ≤ 2 ^ 52 * 2 ^ (x.expField - 1) := by
          have e : x.expField - 1 = (y.expField - 1) + 1 + (x.expField - 1 - (y.expField - 1) - 1) := by omega
          rw [e, pow_add, pow_add]
          have : 1 ≤ 2 ^ (x.expField - 1 - (y.expField - 1) - 1) := Nat.one_le_two_pow
          calc 2 ^ 53 * 2 ^ (y.expField - 1) = 2 ^ 52 * (2 ^ (y.expField - 1) * 2 ^ 1 * 1) := by ring
            _ ≤ 2 ^ 52 * (2 ^ (y.expField - 1) * 2 ^ 1 * 2 ^ (x.expField - 1 - (y.expField - 1) - 1)) :=
              Nat.mul_le_mul_left _ (Nat.mul_le_mul_left _ this)
        omega
    refine ⟨he, ?_⟩
    have h1 : (x.expField == 0) = false := by simp [hx]
    have h2 : (y.expField == 0) = false := by simp [hy]
    unfold mag F64.mant at h
    simp only [h1, h2, ↓reduceIte, Bool.false_eq_true] at h
    rw [he] at h
    have hp : 0 < 2 ^ (y.expField - 1) := Nat.two_pow_pos _
    have := Nat.eq_of_mul_eq_mul_right hp h
    omega

/-- the bit pattern is determined by sign, exponent field and fraction field -/
theorem bits_eq_of_fields {x y : F64} (hs : x.signBit = y.signBit) (he : x.expField = y.expField)
    (hf : x.fracField = y.fracField) : x = y := by
  have bx := x.bits.toNat_lt
  have by' := y.bits.toNat_lt
  rw [signBit_eq, signBit_eq] at hs
  rw [expField_eq, expField_eq] at he
  rw [fracField_eq, fracField_eq] at hf
  have hs' : (2 ^ 63 ≤ x.bits.toNat) ↔ (2 ^ 63 ≤ y.bits.toNat) := by
    simpa using hs
  have : x.bits.toNat = y.bits.toNat := by omega
  cases x; cases y
  simp only [F64.mk.injEq]
  exact UInt64.toNat_inj.mp this

/-- **`toInt` is injective on finite floats other than -0.** -/
theorem toInt_inj {x y : F64} (h : toInt x = toInt y) (hx : x ≠ F64.zero true) (hy : y ≠ F64.zero true) :
    x = y := by
  rw [toInt_eq_mag, toInt_eq_mag] at h
  -- a float with magnitude 0 and the sign bit set is -0
  have negz : ∀ z : F64, mag z = 0 → z.signBit = true → z = F64.zero true := by
    intro z hz hs
    have hm : mag z = mag (F64.zero true) := by rw [hz]; decide
    obtain ⟨he, hf⟩ := mag_inj hm
    exact bits_eq_of_fields (by rw [hs]; decide) he hf
  have hmag : mag x = mag y := by
    cases hsx : x.signBit <;> cases hsy : y.signBit <;> simp only [hsx, hsy, ↓reduceIte, Bool.false_eq_true] at h <;> omega
  obtain ⟨he, hf⟩ := mag_inj hmag
  refine bits_eq_of_fields ?_ he hf
  cases hsx : x.signBit <;> cases hsy : y.signBit
  · rfl
  · exfalso
    simp only [hsx, hsy, ↓reduceIte, Bool.false_eq_true] at h
    exact hy (negz y (by omega) hsy)
  · exfalso
    simp only [hsx, hsy, ↓reduceIte, Bool.false_eq_true] at h
    exact hx (negz x (by omega) hsx)
  · rfl

/-- no coordinate is the negative zero -/
def NoNegZero3 (v : V3) : Prop := v.x ≠ F64.zero true ∧ v.y ≠ F64.zero true ∧ v.z ≠ F64.zero true

instance (v : V3) : Decidable (NoNegZero3 v) := by unfold NoNegZero3; infer_instance

/-- Go `==` is structural equality on finite vectors without negative zeros -/
theorem v3_eq_of_feq {u v : V3} (hu : Fin3 u) (hv : Fin3 v) (zu : NoNegZero3 u) (zv : NoNegZero3 v)
    (h : V3.feq u v = true) : u = v := by
  have := (v3feq_iff hu hv).1 h
  simp only [ofV3, IV3.mk.injEq] at this
  cases u; cases v
  simp only [V3.mk.injEq]
  exact ⟨toInt_inj this.1 zu.1 zv.1, toInt_inj this.2.1 zu.2.1 zv.2.1, toInt_inj this.2.2 zu.2.2 zv.2.2⟩

end S2Proofs.F64Inj
