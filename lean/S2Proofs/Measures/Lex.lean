/-
  Helper lemmas for C18: the exact lexicographic comparison `IV3.cmp` as linear-arithmetic facts.
-/
import S2.Exact
import Mathlib.Tactic.SplitIfs
namespace S2Proofs.C18
open S2 S2.Exact

theorem iv3cmp_lt_iff (x y : IV3) :
    IV3.cmp x y = -1 ↔ x.x < y.x ∨ (x.x = y.x ∧ (x.y < y.y ∨ (x.y = y.y ∧ x.z < y.z))) := by
  unfold IV3.cmp
  split_ifs <;> simp <;> omega

theorem iv3cmp_eq_zero_iff (x y : IV3) :
    IV3.cmp x y = 0 ↔ x.x = y.x ∧ x.y = y.y ∧ x.z = y.z := by
  unfold IV3.cmp
  split_ifs <;> simp <;> omega

end S2Proofs.C18
