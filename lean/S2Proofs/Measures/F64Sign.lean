/-
  Helper lemmas for C18: sign symmetry of the soft-float.  `neg` only flips bit 63; rounding to
  nearest-even is symmetric in the sign, so `float64(-1) * x = -(float64(1) * x)` bit for bit, and the
  symmetric clamp of `TurningAngle` commutes with negation — for every `x` that is not a NaN.
-/
import S2.F64
import S2.Measures
import S2Proofs.Codec.F64Exact
import S2Proofs.F64Order
import Mathlib.Tactic.Ring
import Mathlib.Tactic.Linarith
namespace S2Proofs.C18
open S2

/-! ### bit 63 -/

theorem nat_xor_hi (x : Nat) (h : x < 2^63) : x ^^^ 2^63 = x + 2^63 := by
  apply Nat.eq_of_testBit_eq
  intro i
  rw [Nat.testBit_xor, Nat.testBit_two_pow]
  by_cases hi : i = 63
  · subst hi
    have : x.testBit 63 = false := Nat.testBit_lt_two_pow h
    rw [this]
    simp
    have := Nat.testBit_two_pow_add_eq x 63
    rw [Nat.add_comm] at this
    simp [this, Nat.testBit_lt_two_pow h]
  · have h63 : (63 = i) = False := by simp; omega
    simp only [h63, decide_false, Bool.xor_false]
    by_cases hlt : i < 63
    · rw [Nat.add_comm, Nat.testBit_two_pow_add_gt hlt]
    · have : 63 < i := by omega
      have h1 : x.testBit i = false :=
        Nat.testBit_lt_two_pow (lt_of_lt_of_le h (Nat.pow_le_pow_right (by norm_num) (by omega)))
      have h2 : (x + 2^63).testBit i = false :=
        Nat.testBit_lt_two_pow (lt_of_lt_of_le (by omega : x + 2^63 < 2^64) (Nat.pow_le_pow_right (by norm_num) (by omega)))
      rw [h1, h2]

theorem nat_xor_hi' (x : Nat) (h : 2^63 ≤ x) (_h2 : x < 2^64) : x ^^^ 2^63 = x - 2^63 := by
  have := nat_xor_hi (x - 2^63) (by omega)
  have e : x - 2^63 + 2^63 = x := by omega
  rw [e] at this
  calc x ^^^ 2^63 = ((x - 2^63) ^^^ 2^63) ^^^ 2^63 := by rw [this]
    _ = x - 2^63 := by rw [Nat.xor_assoc, Nat.xor_self, Nat.xor_zero]

def signMask : UInt64 := 0x8000000000000000

theorem neg_bits_toNat (x : F64) :
    (F64.neg x).bits.toNat = if x.bits.toNat < 2^63 then x.bits.toNat + 2^63 else x.bits.toNat - 2^63 := by
  unfold F64.neg
  simp only [UInt64.toNat_xor]
  have hm : (0x8000000000000000 : UInt64).toNat = 2^63 := by decide
  rw [hm]
  have hlt := x.bits.toNat_lt
  split
  · rename_i h; exact nat_xor_hi _ h
  · rename_i h; exact nat_xor_hi' _ (by omega) (by omega)

theorem expField_eq (x : F64) : x.expField = x.bits.toNat / 2^52 % 2048 := by
  unfold F64.expField
  rw [UInt64.toNat_and, UInt64.toNat_shiftRight]
  have : (0x7FF : UInt64).toNat = 2^11 - 1 := by decide
  rw [this, Nat.and_two_pow_sub_one_eq_mod]
  have : (52 : UInt64).toNat % 64 = 52 := by decide
  rw [this, Nat.shiftRight_eq_div_pow]

theorem fracField_eq (x : F64) : x.fracField = x.bits.toNat % 2^52 := by
  unfold F64.fracField
  rw [UInt64.toNat_and]
  have : (0xFFFFFFFFFFFFF : UInt64).toNat = 2^52 - 1 := by decide
  rw [this, Nat.and_two_pow_sub_one_eq_mod]

theorem signBit_eq (x : F64) : x.signBit = decide (2^63 ≤ x.bits.toNat) := by
  unfold F64.signBit
  have hlt := x.bits.toNat_lt
  have h1 : (x.bits >>> 63).toNat = x.bits.toNat / 2^63 := by
    rw [UInt64.toNat_shiftRight]
    have : (63 : UInt64).toNat % 64 = 63 := by decide
    rw [this, Nat.shiftRight_eq_div_pow]
  by_cases h : 2^63 ≤ x.bits.toNat
  · have hne : (x.bits >>> 63) ≠ 0 := by
      intro h0
      have h2 := congrArg UInt64.toNat h0
      rw [h1] at h2
      have h3 : (0 : UInt64).toNat = 0 := rfl
      rw [h3] at h2
      have := Nat.div_eq_zero_iff.1 h2
      omega
    rw [decide_eq_true h]
    exact bne_iff_ne.2 hne
  · have he : (x.bits >>> 63) = 0 := by
      apply UInt64.toNat_inj.1
      rw [h1]
      have h3 : (0 : UInt64).toNat = 0 := rfl
      rw [h3]
      exact Nat.div_eq_of_lt (by omega)
    rw [decide_eq_false h, he]
    rfl

theorem expField_neg (x : F64) : (F64.neg x).expField = x.expField := by
  rw [expField_eq, expField_eq, neg_bits_toNat]
  have hlt := x.bits.toNat_lt
  split <;> omega

theorem fracField_neg (x : F64) : (F64.neg x).fracField = x.fracField := by
  rw [fracField_eq, fracField_eq, neg_bits_toNat]
  have hlt := x.bits.toNat_lt
  split <;> omega

theorem signBit_neg (x : F64) : (F64.neg x).signBit = !x.signBit := by
  rw [signBit_eq, signBit_eq, neg_bits_toNat]
  have hlt := x.bits.toNat_lt
  split
  · rename_i h
    have h1 : ¬ (2^63 ≤ x.bits.toNat) := by omega
    have h2 : 2^63 ≤ x.bits.toNat + 2^63 := by omega
    rw [decide_eq_false h1, decide_eq_true h2]; rfl
  · rename_i h
    have h' : 2^63 ≤ x.bits.toNat := by omega
    have h2 : ¬ (2^63 ≤ x.bits.toNat - 2^63) := by omega
    rw [decide_eq_true h', decide_eq_false h2]; rfl

theorem isNaN_neg (x : F64) : (F64.neg x).isNaN = x.isNaN := by
  unfold F64.isNaN; rw [expField_neg, fracField_neg]
theorem isInf_neg (x : F64) : (F64.neg x).isInf = x.isInf := by
  unfold F64.isInf; rw [expField_neg, fracField_neg]
theorem isZero_neg (x : F64) : (F64.neg x).isZero = x.isZero := by
  unfold F64.isZero; rw [expField_neg, fracField_neg]
theorem mant_neg (x : F64) : (F64.neg x).mant = x.mant := by
  unfold F64.mant; rw [expField_neg, fracField_neg]
theorem expo_neg (x : F64) : (F64.neg x).expo = x.expo := by
  unfold F64.expo; rw [expField_neg]

theorem f64_neg_neg (x : F64) : F64.neg (F64.neg x) = x := by
  unfold F64.neg
  simp only [UInt64.xor_assoc, UInt64.xor_self, UInt64.xor_zero]


/-! ### values built as `sign ||| magnitude` -/

theorem nat_or_hi (x : Nat) (h : x < 2^63) : 2^63 ||| x = x + 2^63 := by
  have := Nat.two_pow_add_eq_or_of_lt h 1
  simp only [Nat.mul_one] at this
  omega

theorem neg_sign_or (s : Bool) (X : UInt64) (hX : X.toNat < 2^63) :
    F64.neg ⟨(if s then (0x8000000000000000 : UInt64) else 0) ||| X⟩ =
      ⟨(if !s then (0x8000000000000000 : UInt64) else 0) ||| X⟩ := by
  have hm : (0x8000000000000000 : UInt64).toNat = 2^63 := by decide
  have h0 : (0 : UInt64).toNat = 0 := rfl
  apply congrArg F64.mk
  apply UInt64.toNat_inj.1
  have key := neg_bits_toNat ⟨(if s then (0x8000000000000000 : UInt64) else 0) ||| X⟩
  show (F64.neg ⟨(if s then (0x8000000000000000 : UInt64) else 0) ||| X⟩).bits.toNat = _
  rw [key]
  cases s
  · simp only [Bool.false_eq_true, if_false, Bool.not_false, if_true, UInt64.toNat_or, hm, h0, Nat.zero_or]
    rw [if_pos hX, nat_or_hi _ hX]
  · simp only [if_true, Bool.not_true, Bool.false_eq_true, if_false, UInt64.toNat_or, hm, h0, Nat.zero_or]
    rw [nat_or_hi _ hX, if_neg (by omega)]
    omega

theorem neg_zero (s : Bool) : F64.neg (F64.zero s) = F64.zero (!s) := by cases s <;> decide
theorem neg_inf (s : Bool) : F64.neg (F64.inf s) = F64.inf (!s) := by cases s <;> decide

/-- the last step of `roundNE` : pack sign, exponent and mantissa -/
def packTail (s : Bool) (q : Nat) (e : Int) : F64 :=
  if q < 2 ^ 52 then
    ⟨(if s then (0x8000000000000000 : UInt64) else 0) ||| UInt64.ofNat q⟩
  else
    let be : Int := e + 1075
    if be ≥ 2047 then F64.inf s
    else ⟨(if s then (0x8000000000000000 : UInt64) else 0) ||| (UInt64.ofNat be.toNat <<< 52) |||
          UInt64.ofNat (q - 2 ^ 52)⟩

theorem packTail_neg (s : Bool) (q : Nat) (e : Int) (hq : q ≤ 2 ^ 54) :
    F64.neg (packTail s q e) = packTail (!s) q e := by
  unfold packTail
  by_cases h52 : q < 2 ^ 52
  · rw [if_pos h52, if_pos h52]
    apply neg_sign_or
    rw [UInt64.toNat_ofNat']
    omega
  · rw [if_neg h52, if_neg h52]
    simp only
    by_cases hbe : e + 1075 ≥ 2047
    · rw [if_pos hbe, if_pos hbe]; exact neg_inf s
    · rw [if_neg hbe, if_neg hbe, UInt64.or_assoc, UInt64.or_assoc]
      apply neg_sign_or
      rw [UInt64.toNat_or, UInt64.toNat_shiftLeft, UInt64.toNat_ofNat', UInt64.toNat_ofNat']
      have h52' : (52 : UInt64).toNat % 64 = 52 := by decide
      rw [h52', Nat.shiftLeft_eq]
      apply Nat.or_lt_two_pow
      · have : (e + 1075).toNat < 2047 := by omega
        have h1 : (e + 1075).toNat % 2 ^ 64 = (e + 1075).toNat := Nat.mod_eq_of_lt (by omega)
        rw [h1]
        have h2 : (e + 1075).toNat * 2 ^ 52 < 2 ^ 63 := by omega
        rw [Nat.mod_eq_of_lt (by omega)]
        exact h2
      · have : q - 2 ^ 52 < 2 ^ 63 := by omega
        rw [Nat.mod_eq_of_lt (by omega)]
        exact this


/-! ### rounding is symmetric in the sign -/

open S2Proofs.Codec

theorem finR_eq_packTail (s : Bool) (e : Int) (q r den : Nat) :
    finR s e (q, r, den) =
      let q1 := if 2 * r > den || (2 * r == den && q % 2 == 1) then q + 1 else q
      if q1 ≥ 2 ^ 53 then packTail s (q1 / 2) (e + 1) else packTail s q1 e := by
  unfold finR packTail
  simp only
  generalize (if 2 * r > den || (2 * r == den && q % 2 == 1) then q + 1 else q) = q1
  by_cases h : q1 ≥ 2 ^ 53
  · simp only [if_pos h]
  · simp only [if_neg h]

theorem finR_neg (s : Bool) (e : Int) (q r den : Nat) (hq : q < 2 ^ 54) :
    F64.neg (finR s e (q, r, den)) = finR (!s) e (q, r, den) := by
  rw [finR_eq_packTail, finR_eq_packTail]
  simp only
  have h1 : (if 2 * r > den || (2 * r == den && q % 2 == 1) then q + 1 else q) ≤ 2 ^ 54 := by
    split <;> omega
  generalize (if 2 * r > den || (2 * r == den && q % 2 == 1) then q + 1 else q) = q1 at h1
  split
  · exact packTail_neg s _ _ (by omega)
  · exact packTail_neg s _ _ h1

/-- the quotient gets smaller when the exponent of the unit grows -/
theorem quotF_q_mono (n d : Nat) (hd : 0 < d) (e e' : Int) (h : e ≤ e') :
    (quotF n d e').1 ≤ (quotF n d e).1 := by
  unfold quotF
  by_cases h1 : e ≥ 0
  · have h2 : e' ≥ 0 := by omega
    rw [if_pos h1, if_pos h2]
    simp only
    apply Nat.div_le_div_left
    · apply Nat.mul_le_mul_left
      exact Nat.pow_le_pow_right (by norm_num) (by omega)
    · exact Nat.mul_pos hd (Nat.two_pow_pos _)
  · rw [if_neg h1]
    by_cases h2 : e' ≥ 0
    · rw [if_pos h2]
      simp only
      calc n / (d * 2 ^ e'.toNat) ≤ n / d :=
            Nat.div_le_div_left (Nat.le_mul_of_pos_right _ (Nat.two_pow_pos _)) hd
        _ ≤ n * 2 ^ (-e).toNat / d :=
            Nat.div_le_div_right (Nat.le_mul_of_pos_right _ (Nat.two_pow_pos _))
    · rw [if_neg h2]
      simp only
      apply Nat.div_le_div_right
      apply Nat.mul_le_mul_left
      exact Nat.pow_le_pow_right (by norm_num) (by omega)

/-- at the first candidate exponent the quotient is below 2^54 -/
theorem quotF_q_lt (n d : Nat) (hd : d ≠ 0) :
    (quotF n d ((n.log2 : Int) - (d.log2 : Int) - 1 - 52)).1 < 2 ^ 54 := by
  have hn2 := @Nat.lt_log2_self n
  have hd1 := Nat.log2_self_le hd
  have hdpos : 0 < d := Nat.pos_of_ne_zero hd
  unfold quotF
  by_cases h1 : (n.log2 : Int) - (d.log2 : Int) - 1 - 52 ≥ 0
  · rw [if_pos h1]
    simp only
    rw [Nat.div_lt_iff_lt_mul (Nat.mul_pos hdpos (Nat.two_pow_pos _))]
    have hk : ((n.log2 : Int) - (d.log2 : Int) - 1 - 52).toNat = n.log2 - d.log2 - 53 := by omega
    have hge : d.log2 + 53 ≤ n.log2 := by omega
    rw [hk]
    calc n < 2 ^ (n.log2 + 1) := hn2
      _ = 2 ^ 54 * (2 ^ d.log2 * 2 ^ (n.log2 - d.log2 - 53)) := by
          rw [← Nat.pow_add, ← Nat.pow_add]; congr 1; omega
      _ ≤ 2 ^ 54 * (d * 2 ^ (n.log2 - d.log2 - 53)) :=
          Nat.mul_le_mul_left _ (Nat.mul_le_mul_right _ hd1)
  · rw [if_neg h1]
    simp only
    rw [Nat.div_lt_iff_lt_mul hdpos]
    have hk : (-((n.log2 : Int) - (d.log2 : Int) - 1 - 52)).toNat = d.log2 + 53 - n.log2 := by omega
    have hge : n.log2 < d.log2 + 53 := by omega
    rw [hk]
    calc n * 2 ^ (d.log2 + 53 - n.log2) < 2 ^ (n.log2 + 1) * 2 ^ (d.log2 + 53 - n.log2) :=
          Nat.mul_lt_mul_of_pos_right hn2 (Nat.two_pow_pos _)
      _ = 2 ^ 54 * 2 ^ d.log2 := by
          rw [← Nat.pow_add, ← Nat.pow_add]; congr 1; omega
      _ ≤ 2 ^ 54 * d := Nat.mul_le_mul_left _ hd1

theorem adjE_ge (n d : Nat) (e0 : Int) : e0 ≤ adjE n d e0 := by
  unfold adjE
  simp only
  split
  · omega
  · split <;> omega

/-- `roundNE` is symmetric in the sign: the magnitude bits do not depend on it -/
theorem roundNE_neg (s : Bool) (n d : Nat) (hd : d ≠ 0) :
    F64.neg (F64.roundNE s n d) = F64.roundNE (!s) n d := by
  rw [roundNE_eq, roundNE_eq]
  by_cases hn : n = 0
  · subst hn; simp only [beq_self_eq_true, if_true]; exact neg_zero s
  · have hb : (n == 0) = false := by simpa using hn
    simp only [hb, Bool.false_eq_true, if_false]
    have hge := adjE_ge n d ((n.log2 : Int) - (d.log2 : Int) - 1 - 52)
    generalize adjE n d ((n.log2 : Int) - (d.log2 : Int) - 1 - 52) = e1 at hge
    have hq : (quotF n d (if e1 < -1074 then -1074 else e1)).1 < 2 ^ 54 :=
      lt_of_le_of_lt (quotF_q_mono n d (Nat.pos_of_ne_zero hd) _ _ (by split <;> omega))
        (quotF_q_lt n d hd)
    generalize quotF n d (if e1 < -1074 then -1074 else e1) = qrd at hq
    obtain ⟨q, r, den⟩ := qrd
    exact finR_neg s _ q r den hq

theorem roundDyadic_neg (s : Bool) (m : Nat) (e : Int) :
    F64.neg (F64.roundDyadic s m e) = F64.roundDyadic (!s) m e := by
  unfold F64.roundDyadic
  split
  · exact roundNE_neg s _ 1 (by norm_num)
  · exact roundNE_neg s _ _ (Nat.pos_iff_ne_zero.1 (Nat.two_pow_pos _))


/-! ### `float64(-1) * x = -(float64(1) * x)` -/

open S2.Measures

theorem ofInt_one : F64.ofInt 1 = ⟨0x3FF0000000000000⟩ := by decide +kernel
theorem ofInt_negone : F64.ofInt (-1) = ⟨0xBFF0000000000000⟩ := by decide +kernel

theorem isInf_isZero_false (x : F64) (hi : x.isInf = true) : x.isZero = false := by
  unfold F64.isInf at hi
  unfold F64.isZero
  simp only [Bool.and_eq_true, beq_iff_eq] at hi
  rw [hi.1]; rfl

theorem mulDir_neg (x : F64) (hx : x.isNaN = false) :
    f64MulDir (-1) x = F64.neg (f64MulDir 1 x) := by
  unfold f64MulDir
  rw [ofInt_one, ofInt_negone]
  unfold F64.mul
  have a1 : (⟨0xBFF0000000000000⟩ : F64).isNaN = false := by decide
  have a2 : (⟨0xBFF0000000000000⟩ : F64).isInf = false := by decide
  have a3 : (⟨0xBFF0000000000000⟩ : F64).isZero = false := by decide
  have a4 : (⟨0xBFF0000000000000⟩ : F64).signBit = true := by decide
  have a5 : (⟨0xBFF0000000000000⟩ : F64).mant = 4503599627370496 := by decide
  have a6 : (⟨0xBFF0000000000000⟩ : F64).expo = -52 := by decide
  have b1 : (⟨0x3FF0000000000000⟩ : F64).isNaN = false := by decide
  have b2 : (⟨0x3FF0000000000000⟩ : F64).isInf = false := by decide
  have b3 : (⟨0x3FF0000000000000⟩ : F64).isZero = false := by decide
  have b4 : (⟨0x3FF0000000000000⟩ : F64).signBit = false := by decide
  have b5 : (⟨0x3FF0000000000000⟩ : F64).mant = 4503599627370496 := by decide
  have b6 : (⟨0x3FF0000000000000⟩ : F64).expo = -52 := by decide
  simp only [a1, a2, a3, a4, a5, a6, b1, b2, b3, b4, b5, b6, hx, Bool.false_or, Bool.or_self,
    Bool.false_eq_true, if_false]
  have hs : (true != x.signBit) = !(false != x.signBit) := by cases x.signBit <;> rfl
  by_cases hi : x.isInf = true
  · have hz := isInf_isZero_false x hi
    simp only [hi, hz, if_true, Bool.false_eq_true, if_false]
    rw [hs, neg_inf]
  · have hi' : x.isInf = false := by simpa using hi
    simp only [hi', Bool.false_eq_true, if_false]
    by_cases hz : x.isZero = true
    · simp only [hz, if_true]
      rw [hs, neg_zero]
    · have hz' : x.isZero = false := by simpa using hz
      simp only [hz', Bool.false_eq_true, if_false]
      rw [hs, roundDyadic_neg]


/-! ### comparisons and the symmetric clamp -/

theorem toIntAt_neg (x : F64) (e : Int) : (F64.neg x).toIntAt e = -(x.toIntAt e) := by
  unfold F64.toIntAt
  rw [signBit_neg, mant_neg, expo_neg]
  cases x.signBit <;> simp

theorem compare_neg_neg_int (a b : Int) : compare (-a) (-b) = compare b a := by
  rcases lt_trichotomy a b with h | h | h
  · rw [compare_gt_iff_gt.2 (by omega : -a > -b), compare_gt_iff_gt.2 (by omega : b > a)]
  · subst h; simp
  · rw [compare_lt_iff_lt.2 (by omega : -a < -b), compare_lt_iff_lt.2 (by omega : b < a)]

theorem cmp_neg_neg (a b : F64) : F64.cmp (F64.neg a) (F64.neg b) = F64.cmp b a := by
  unfold F64.cmp
  simp only [isNaN_neg, isInf_neg, signBit_neg, expo_neg, toIntAt_neg]
  by_cases hn : (a.isNaN || b.isNaN) = true
  · have hn' : (b.isNaN || a.isNaN) = true := by rw [Bool.or_comm]; exact hn
    simp only [hn, hn', if_true]
  · have hn1 : (a.isNaN || b.isNaN) = false := by simpa using hn
    have hn' : (b.isNaN || a.isNaN) = false := by rw [Bool.or_comm]; exact hn1
    simp only [hn1, hn', Bool.false_eq_true, if_false]
    cases hai : a.isInf <;> cases hbi : b.isInf <;> cases hsa : a.signBit <;> cases hsb : b.signBit <;>
      simp [compare_neg_neg_int, Int.min_comm]

theorem lt_neg_neg (a b : F64) : F64.lt (F64.neg a) (F64.neg b) = F64.lt b a := by
  unfold F64.lt; rw [cmp_neg_neg]

theorem eq_inf_of_isInf (y : F64) (h : y.isInf = true) : y = F64.inf y.signBit := by
  unfold F64.isInf at h
  simp only [Bool.and_eq_true, beq_iff_eq] at h
  obtain ⟨h1, h2⟩ := h
  rw [expField_eq] at h1
  rw [fracField_eq] at h2
  have hlt := y.bits.toNat_lt
  have hs := signBit_eq y
  obtain ⟨bits⟩ := y
  simp only at h1 h2 hlt hs ⊢
  by_cases hb : 2 ^ 63 ≤ bits.toNat
  · rw [decide_eq_true hb] at hs
    rw [hs]
    apply congrArg F64.mk
    apply UInt64.toNat_inj.1
    have : (F64.inf true).bits.toNat = 18442240474082181120 := by decide
    show bits.toNat = (F64.inf true).bits.toNat
    rw [this]; omega
  · rw [decide_eq_false hb] at hs
    rw [hs]
    apply congrArg F64.mk
    apply UInt64.toNat_inj.1
    have : (F64.inf false).bits.toNat = 9218868437227405312 := by decide
    show bits.toNat = (F64.inf false).bits.toNat
    rw [this]; omega

def negMaxCurvature : F64 := ⟨0xC01921fb54442d17⟩
theorem neg_maxCurvature : F64.neg maxCurvature = negMaxCurvature := by decide
theorem neg_negMaxCurvature : F64.neg negMaxCurvature = maxCurvature := by decide

open S2Proofs.F64Order in
theorem clamp_fin (y : F64) (hn : y.isNaN = false) (hi : y.isInf = false) :
    f64Clamp y = if F64.lt maxCurvature y then maxCurvature
                 else if F64.lt y negMaxCurvature then negMaxCurvature else y := by
  unfold f64Clamp F64.fmin F64.fmax
  rw [neg_maxCurvature]
  have c1 : maxCurvature.isInf = false := by decide
  have c2 : maxCurvature.isNaN = false := by decide
  have c3 : maxCurvature.isZero = false := by decide
  have d1 : negMaxCurvature.isInf = false := by decide
  have d2 : negMaxCurvature.isNaN = false := by decide
  have d3 : negMaxCurvature.isZero = false := by decide
  have d4 : F64.gt negMaxCurvature maxCurvature = false := by decide +kernel
  simp only [c1, c2, c3, hn, hi, Bool.false_and, Bool.or_self, Bool.false_eq_true, if_false]
  by_cases h1 : F64.lt maxCurvature y = true
  · simp only [h1, if_true, c1, c2, c3, d1, d2, d3, d4, Bool.false_and, Bool.or_self, Bool.false_eq_true, if_false]
  · have h1' : F64.lt maxCurvature y = false := by simpa using h1
    simp only [h1', Bool.false_eq_true, if_false, hn, hi, d1, d2, d3, Bool.false_and, Bool.or_self]
    rfl

open S2Proofs.F64Order S2.Exact in
theorem fin_of (y : F64) (hn : y.isNaN = false) (hi : y.isInf = false) : F64Order.Fin y := by
  unfold F64Order.Fin
  intro h
  unfold F64.isNaN at hn
  unfold F64.isInf at hi
  rw [h] at hn hi
  by_cases hf : y.fracField = 0
  · simp [hf] at hi
  · simp [hf] at hn

open S2Proofs.F64Order S2.Exact in
/-- `math.Max(-maxCurvature, math.Min(maxCurvature, ·))` commutes with negation on every non-NaN value -/
theorem clamp_neg (y : F64) (hn : y.isNaN = false) : f64Clamp (F64.neg y) = F64.neg (f64Clamp y) := by
  by_cases hi : y.isInf = true
  · rw [eq_inf_of_isInf y hi, neg_inf]
    cases y.signBit <;> decide +kernel
  · have hi' : y.isInf = false := by simpa using hi
    rw [clamp_fin y hn hi', clamp_fin (F64.neg y) (by rw [isNaN_neg]; exact hn) (by rw [isInf_neg]; exact hi')]
    have e1 : F64.lt maxCurvature (F64.neg y) = F64.lt y negMaxCurvature := by
      rw [← neg_negMaxCurvature, lt_neg_neg]
    have e2 : F64.lt (F64.neg y) negMaxCurvature = F64.lt maxCurvature y := by
      rw [← neg_maxCurvature, lt_neg_neg]
    rw [e1, e2]
    have hfy := fin_of y hn hi'
    have hfc : F64Order.Fin maxCurvature := by decide
    have hfd : F64Order.Fin negMaxCurvature := by decide
    have hord : toInt negMaxCurvature < toInt maxCurvature := by decide +kernel
    by_cases a : F64.lt maxCurvature y = true <;> by_cases b : F64.lt y negMaxCurvature = true
    · exfalso
      have := (lt_iff hfc hfy).1 a
      have := (lt_iff hfy hfd).1 b
      omega
    · have b' : F64.lt y negMaxCurvature = false := by simpa using b
      simp only [a, b', if_true, Bool.false_eq_true, if_false]
      exact neg_maxCurvature.symm
    · have a' : F64.lt maxCurvature y = false := by simpa using a
      simp only [a', b, if_true, Bool.false_eq_true, if_false]
      exact neg_negMaxCurvature.symm
    · have a' : F64.lt maxCurvature y = false := by simpa using a
      have b' : F64.lt y negMaxCurvature = false := by simpa using b
      simp only [a', b', Bool.false_eq_true, if_false]

/-! ### the rounded result is never a NaN -/

theorem quotF_succ (n d : Nat) (e : Int) :
    (quotF n d (e + 1)).1 = (quotF n d e).1 / 2 := by
  unfold quotF
  by_cases h1 : e ≥ 0
  · rw [if_pos h1, if_pos (by omega : e + 1 ≥ 0)]
    simp only
    have : (e + 1).toNat = e.toNat + 1 := by omega
    rw [this, Nat.pow_succ, ← Nat.mul_assoc, Nat.div_div_eq_div_mul]
  · rw [if_neg h1]
    by_cases h2 : e + 1 ≥ 0
    · have he : e = -1 := by omega
      subst he
      rw [if_pos h2]
      simp only
      have : (-1 + 1 : Int).toNat = 0 := by decide
      have h3 : (-(-1 : Int)).toNat = 1 := by decide
      rw [this, h3, Nat.pow_zero, Nat.mul_one, Nat.pow_one, Nat.div_div_eq_div_mul,
        Nat.mul_div_mul_right _ _ (by norm_num)]
    · rw [if_neg h2]
      simp only
      have : (-e).toNat = (-(e + 1)).toNat + 1 := by omega
      rw [this, Nat.pow_succ, ← Nat.mul_assoc, Nat.div_div_eq_div_mul,
        Nat.mul_div_mul_right _ _ (by norm_num)]

theorem quotF_adj_lt (n d : Nat) (hd : d ≠ 0) :
    (quotF n d (adjE n d ((n.log2 : Int) - (d.log2 : Int) - 1 - 52))).1 < 2 ^ 53 := by
  have h0 := quotF_q_lt n d hd
  generalize (n.log2 : Int) - (d.log2 : Int) - 1 - 52 = e0 at h0 ⊢
  unfold adjE
  have hs := quotF_succ n d e0
  generalize hq : quotF n d e0 = qrd at h0 hs ⊢
  obtain ⟨q, r, den⟩ := qrd
  simp only at h0 hs ⊢
  rw [if_neg (by omega)]
  split
  · rw [hs]; omega
  · rw [hq]; simp only; omega

theorem packTail_isNaN (s : Bool) (q : Nat) (e : Int) (hq : q < 2 ^ 53) :
    (packTail s q e).isNaN = false := by
  have hm : (0x8000000000000000 : UInt64).toNat = 2^63 := by decide
  have h0 : (0 : UInt64).toNat = 0 := rfl
  unfold packTail
  by_cases h52 : q < 2 ^ 52
  · rw [if_pos h52]
    unfold F64.isNaN
    have : ((⟨(if s then (0x8000000000000000 : UInt64) else 0) ||| UInt64.ofNat q⟩ : F64)).expField = 0 := by
      rw [expField_eq]
      simp only [UInt64.toNat_or, UInt64.toNat_ofNat']
      rw [Nat.mod_eq_of_lt (by omega : q < 2 ^ 64)]
      cases s
      · simp only [Bool.false_eq_true, if_false, h0, Nat.zero_or]; omega
      · simp only [if_true, hm]; rw [nat_or_hi _ (by omega)]; omega
    rw [this]; rfl
  · rw [if_neg h52]
    simp only
    by_cases hbe : e + 1075 ≥ 2047
    · rw [if_pos hbe]; cases s <;> decide
    · rw [if_neg hbe]
      by_cases hneg : e + 1075 < 0
      · -- be.toNat = 0
        have hz : (e + 1075).toNat = 0 := by omega
        unfold F64.isNaN
        have : ((⟨(if s then (0x8000000000000000 : UInt64) else 0) ||| (UInt64.ofNat (e + 1075).toNat <<< 52) |||
            UInt64.ofNat (q - 2 ^ 52)⟩ : F64)).expField = 0 := by
          rw [expField_eq, hz]
          simp only [UInt64.toNat_or, UInt64.toNat_ofNat', UInt64.toNat_shiftLeft]
          rw [Nat.mod_eq_of_lt (by omega : q - 2 ^ 52 < 2 ^ 64)]
          cases s
          · simp only [Bool.false_eq_true, if_false, h0, Nat.zero_or, Nat.zero_mod, Nat.zero_shiftLeft]; omega
          · simp only [if_true, hm, Nat.zero_mod, Nat.zero_shiftLeft, Nat.or_zero]
            rw [nat_or_hi _ (by omega)]; omega
        rw [this]; rfl
      · unfold F64.isNaN
        have hb : (e + 1075).toNat < 2047 := by omega
        have : ((⟨(if s then (0x8000000000000000 : UInt64) else 0) ||| (UInt64.ofNat (e + 1075).toNat <<< 52) |||
            UInt64.ofNat (q - 2 ^ 52)⟩ : F64)).expField = (e + 1075).toNat := by
          rw [expField_eq, UInt64.or_assoc]
          simp only [UInt64.toNat_or, UInt64.toNat_ofNat', UInt64.toNat_shiftLeft]
          have h52' : (52 : UInt64).toNat % 64 = 52 := by decide
          rw [h52', Nat.shiftLeft_eq, Nat.mod_eq_of_lt (by omega : q - 2 ^ 52 < 2 ^ 64),
            Nat.mod_eq_of_lt (by omega : (e + 1075).toNat < 2 ^ 64),
            Nat.mod_eq_of_lt (by omega : (e + 1075).toNat * 2 ^ 52 < 2 ^ 64)]
          have hadd : (e + 1075).toNat * 2 ^ 52 ||| (q - 2 ^ 52) = (e + 1075).toNat * 2 ^ 52 + (q - 2 ^ 52) := by
            have := Nat.two_pow_add_eq_or_of_lt (i := 52) (b := q - 2 ^ 52) (by omega) (e + 1075).toNat
            rw [Nat.mul_comm] at this
            exact this.symm
          rw [hadd]
          cases s
          · simp only [Bool.false_eq_true, if_false, h0, Nat.zero_or]; omega
          · simp only [if_true, hm]; rw [nat_or_hi _ (by omega)]; omega
        rw [this]
        have : ((e + 1075).toNat == 2047) = false := by
          simp only [beq_eq_false_iff_ne, ne_eq]; omega
        rw [this]; rfl

theorem finR_isNaN (s : Bool) (e : Int) (q r den : Nat) (hq : q < 2 ^ 53) :
    (finR s e (q, r, den)).isNaN = false := by
  rw [finR_eq_packTail]
  simp only
  have h1 : (if 2 * r > den || (2 * r == den && q % 2 == 1) then q + 1 else q) ≤ 2 ^ 53 := by
    split <;> omega
  generalize (if 2 * r > den || (2 * r == den && q % 2 == 1) then q + 1 else q) = q1 at h1
  split
  · exact packTail_isNaN s _ _ (by omega)
  · exact packTail_isNaN s _ _ (by omega)

theorem roundNE_isNaN (s : Bool) (n d : Nat) (hd : d ≠ 0) : (F64.roundNE s n d).isNaN = false := by
  rw [roundNE_eq]
  by_cases hn : n = 0
  · subst hn; simp only [beq_self_eq_true, if_true]; cases s <;> decide
  · have hb : (n == 0) = false := by simpa using hn
    simp only [hb, Bool.false_eq_true, if_false]
    have hlt := quotF_adj_lt n d hd
    generalize adjE n d ((n.log2 : Int) - (d.log2 : Int) - 1 - 52) = e1 at hlt
    have hq : (quotF n d (if e1 < -1074 then -1074 else e1)).1 < 2 ^ 53 :=
      lt_of_le_of_lt (quotF_q_mono n d (Nat.pos_of_ne_zero hd) _ _ (by split <;> omega)) hlt
    generalize quotF n d (if e1 < -1074 then -1074 else e1) = qrd at hq
    obtain ⟨q, r, den⟩ := qrd
    exact finR_isNaN s _ q r den hq

theorem roundDyadic_isNaN (s : Bool) (m : Nat) (e : Int) : (F64.roundDyadic s m e).isNaN = false := by
  unfold F64.roundDyadic
  split
  · exact roundNE_isNaN s _ 1 (by norm_num)
  · exact roundNE_isNaN s _ _ (Nat.pos_iff_ne_zero.1 (Nat.two_pow_pos _))

/-- `float64(1) * x` is not a NaN when `x` is not -/
theorem mulDir_one_not_nan (x : F64) (hx : x.isNaN = false) : (f64MulDir 1 x).isNaN = false := by
  unfold f64MulDir
  rw [ofInt_one]
  unfold F64.mul
  have b1 : (⟨0x3FF0000000000000⟩ : F64).isNaN = false := by decide
  have b2 : (⟨0x3FF0000000000000⟩ : F64).isInf = false := by decide
  have b3 : (⟨0x3FF0000000000000⟩ : F64).isZero = false := by decide
  simp only [b1, b2, b3, hx, Bool.false_or, Bool.or_self, Bool.false_eq_true, if_false]
  by_cases hi : x.isInf = true
  · have hz := isInf_isZero_false x hi
    simp only [hi, hz, if_true, Bool.false_eq_true, if_false]
    generalize ((⟨0x3FF0000000000000⟩ : F64).signBit != x.signBit) = sg
    cases sg <;> decide
  · have hi' : x.isInf = false := by simpa using hi
    simp only [hi', Bool.false_eq_true, if_false]
    by_cases hz : x.isZero = true
    · simp only [hz, if_true]
      generalize ((⟨0x3FF0000000000000⟩ : F64).signBit != x.signBit) = sg
      cases sg <;> decide
    · have hz' : x.isZero = false := by simpa using hz
      simp only [hz', Bool.false_eq_true, if_false]
      exact roundDyadic_isNaN _ _ _

/-- **The float carrier of `TurningAngle` satisfies the sign law**: for every `x` that is not a NaN,
    `clamp(float64(-1) * x) = -clamp(float64(1) * x)` bit for bit. -/
theorem f64_final_neg (x : F64) (hx : x.isNaN = false) :
    f64Clamp (f64MulDir (-1) x) = F64.neg (f64Clamp (f64MulDir 1 x)) := by
  rw [mulDir_neg x hx, clamp_neg _ (mulDir_one_not_nan x hx)]

end S2Proofs.C18
