/-
  Helper lemmas for C18: `turnTotal` (the Kahan total inside `TurningAngle`) is a function of the
  canonical traversal only.
-/
import S2Proofs.Measures.Canon
namespace S2Proofs.C18
open S2 S2.Measures

variable {P A : Type} [Inhabited P] (E : TurnEnv P A)

/-- the summand at position `m` of a traversal `g` : `TurnAngle(g(m-1), g(m), g(m+1))` -/
def triple (g : Int → P) (m : Int) : A := E.turnAngle (g (m - 1)) (g m) (g (m + 1))

/-- compensated summation of `first :: rest` exactly as `TurningAngle` does it, then `sum + compensation` -/
def kahanTotal (first : A) (rest : List A) : A :=
  let st := rest.foldl (kahanStep E) (first, E.zero)
  E.add st.1 st.2

/-- the sequence of numbers `TurningAngle` adds up, in the order it adds them -/
def summands (g : Int → P) (n : Nat) : List A :=
  (List.range (n - 1)).map fun m : Nat => triple E g ((m : Int) + 1)

theorem turnLoop_eq_foldl (vs : List P) (dir : Int) :
    ∀ (cnt : Nat) (i : Int) (st : A × A),
      turnLoop E vs dir cnt i st =
        ((List.range cnt).map fun m : Nat =>
          E.turnAngle (vertex vs (i + ((m : Int) + 1) * dir - dir)) (vertex vs (i + ((m : Int) + 1) * dir))
            (vertex vs (i + ((m : Int) + 1) * dir + dir))).foldl (kahanStep E) st := by
  intro cnt
  induction cnt with
  | zero => intro i st; simp [turnLoop]
  | succ k ih =>
    intro i st
    simp only [turnLoop]
    rw [ih, List.range_succ_eq_map, List.map_cons, List.foldl_cons, List.map_map]
    have e0 : i + ((0 : Nat) + 1 : Int) * dir = i + dir := by push_cast; ring
    simp only [Nat.cast_zero, zero_add, one_mul]
    congr 1
    apply List.map_congr_left
    intro m _
    simp only [Function.comp, Nat.succ_eq_add_one]
    have e1 : i + dir + ((m : Int) + 1) * dir = i + (((m + 1 : Nat) : Int) + 1) * dir := by push_cast; ring
    rw [e1]

/-- `turnTotal` adds up the turn angles along the canonical traversal, starting at the canonical
    first vertex; nothing else of the vertex list enters. -/
theorem turnTotal_eq {vs : List P} (h : OrdOK E.lt vs) (h3 : 3 ≤ vs.length) :
    turnTotal E vs = kahanTotal E (triple E (canonFn E vs) 0) (summands E (canonFn E vs) vs.length) := by
  have hne : vs ≠ [] := by intro h0; rw [h0] at h3; simp at h3
  obtain ⟨_, hi0, hcases⟩ := cfv_spec E h h3
  unfold turnTotal kahanTotal summands
  simp only
  rw [turnLoop_eq_foldl]
  set i := (canonicalFirstVertex E vs).1 with hi
  set d := (canonicalFirstVertex E vs).2 with hd
  have hd1 : d = 1 ∨ d = -1 := by rcases hcases with ⟨a, _⟩ | ⟨a, _⟩; exact Or.inl a; exact Or.inr a
  have hrange : (d = 1 ∧ i < vs.length) ∨ (d = -1 ∧ (vs.length : Int) ≤ i) := by
    rcases hcases with ⟨a, b, _⟩ | ⟨a, b, _⟩; exact Or.inl ⟨a, b⟩; exact Or.inr ⟨a, b⟩
  -- first summand
  have f1 : vertex vs ((i + (vs.length : Int) - d).tmod (vs.length : Int)) = canonFn E vs (0 - 1) := by
    rw [vertex_tmod_eq_cyc hne (by rcases hd1 with h | h <;> rw [h] <;> omega)]
    unfold canonFn; rw [← hi, ← hd]
    exact cyc_congr vs (modeq_of_sub (-1) (by ring))
  have f2 : vertex vs i = canonFn E vs 0 := by
    rw [vertex_eq_cyc vs hi0]; unfold canonFn; rw [← hi, ← hd]; congr 1; ring
  have f3 : vertex vs ((i + d).tmod (vs.length : Int)) = canonFn E vs (0 + 1) := by
    rw [vertex_tmod_eq_cyc hne (by rcases hrange with ⟨h, _⟩ | ⟨h, _⟩ <;> rw [h] <;> omega)]
    unfold canonFn; rw [← hi, ← hd]; congr 1; ring
  have hfirst : E.turnAngle (vertex vs ((i + (vs.length : Int) - d).tmod (vs.length : Int))) (vertex vs i)
      (vertex vs ((i + d).tmod (vs.length : Int))) = triple E (canonFn E vs) 0 := by
    unfold triple; rw [f1, f2, f3]
  rw [hfirst]
  have hmap : ((List.range (vs.length - 1)).map fun m : Nat =>
        E.turnAngle (vertex vs (i + ((m : Int) + 1) * d - d)) (vertex vs (i + ((m : Int) + 1) * d))
          (vertex vs (i + ((m : Int) + 1) * d + d))) =
      (List.range (vs.length - 1)).map fun m : Nat => triple E (canonFn E vs) ((m : Int) + 1) := by
    apply List.map_congr_left
    intro m hm
    have hm' : m < vs.length - 1 := List.mem_range.1 hm
    have hmI : (m : Int) + 2 ≤ vs.length := by omega
    unfold triple canonFn
    rw [← hi, ← hd]
    have g1 : 0 ≤ i + ((m : Int) + 1) * d - d := by
      rcases hrange with ⟨h, _⟩ | ⟨h, h'⟩ <;> rw [h] <;> omega
    have g2 : 0 ≤ i + ((m : Int) + 1) * d := by
      rcases hrange with ⟨h, _⟩ | ⟨h, h'⟩ <;> rw [h] <;> omega
    have g3 : 0 ≤ i + ((m : Int) + 1) * d + d := by
      rcases hrange with ⟨h, _⟩ | ⟨h, h'⟩ <;> rw [h] <;> omega
    rw [vertex_eq_cyc vs g1, vertex_eq_cyc vs g2, vertex_eq_cyc vs g3]
    congr 2 <;> ring
  rw [hmap]

theorem turningAngle_of_three {vs : List P} (h3 : 3 ≤ vs.length) :
    turningAngle E vs = E.clamp (E.mulDir (canonicalFirstVertex E vs).2 (turnTotal E vs)) := by
  unfold turningAngle
  split
  · simp at h3
  · rw [if_neg (by omega)]

end S2Proofs.C18
