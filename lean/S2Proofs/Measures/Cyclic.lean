/-
  Helper lemmas for C18: the cyclic accessor of a vertex list and how it behaves under rotation
  and reversal; `vertex` (Go's `Vertex(i)` with truncated `%`) agrees with it on non-negative
  indices.
-/
import S2.Measures
import Mathlib.Data.List.Rotate
import Mathlib.Data.Int.ModEq
import Mathlib.Tactic.Ring
import Mathlib.Tactic.Linarith
namespace S2Proofs.C18
open S2 S2.Measures

variable {P : Type} [Inhabited P]

/-- mathematical cyclic indexing `vs[j mod n]` for every integer `j` -/
def cyc (vs : List P) (j : Int) : P := vs.getD (j % (vs.length : Int)).toNat default

omit [Inhabited P] in
theorem rotate_eq (vs : List P) (k : Nat) : rotate vs k = vs.rotate k :=
  List.rotate_eq_drop_append_take_mod.symm

omit [Inhabited P] in
theorem length_rotate (vs : List P) (k : Nat) : (rotate vs k).length = vs.length := by
  rw [rotate_eq, List.length_rotate]

omit [Inhabited P] in
theorem len_pos {vs : List P} (h : vs ≠ []) : (0 : Int) < (vs.length : Int) := by
  have := List.length_pos_of_ne_nil h; omega

omit [Inhabited P] in
theorem idx_lt {vs : List P} (h : vs ≠ []) (j : Int) : (j % (vs.length : Int)).toNat < vs.length := by
  have hp := len_pos h
  have h1 := Int.emod_nonneg j (ne_of_gt hp)
  have h2 := Int.emod_lt_of_pos j hp
  omega

theorem cyc_eq_getElem {vs : List P} (h : vs ≠ []) (j : Int) :
    cyc vs j = vs[(j % (vs.length : Int)).toNat]'(idx_lt h j) := by
  unfold cyc
  rw [List.getD_eq_getElem?_getD, List.getElem?_eq_getElem (idx_lt h j)]; rfl

theorem cyc_mem {vs : List P} (h : vs ≠ []) (j : Int) : cyc vs j ∈ vs := by
  rw [cyc_eq_getElem h]; exact List.getElem_mem _

theorem cyc_congr (vs : List P) {a b : Int} (h : a ≡ b [ZMOD (vs.length : Int)]) :
    cyc vs a = cyc vs b := by
  unfold cyc; rw [show a % (vs.length : Int) = b % (vs.length : Int) from h]

theorem cyc_inj {vs : List P} (h : vs ≠ []) (hnd : vs.Nodup) {a b : Int}
    (hab : cyc vs a = cyc vs b) : a ≡ b [ZMOD (vs.length : Int)] := by
  rw [cyc_eq_getElem h, cyc_eq_getElem h] at hab
  have := (hnd.getElem_inj_iff).1 hab
  have hp := len_pos h
  have h1 := Int.emod_nonneg a (ne_of_gt hp)
  have h2 := Int.emod_nonneg b (ne_of_gt hp)
  show a % _ = b % _
  omega

theorem mem_iff_cyc {vs : List P} (h : vs ≠ []) {x : P} :
    x ∈ vs ↔ ∃ j : Int, 0 ≤ j ∧ j < vs.length ∧ cyc vs j = x := by
  constructor
  · intro hx
    obtain ⟨i, hi, rfl⟩ := List.mem_iff_getElem.1 hx
    refine ⟨i, by omega, by omega, ?_⟩
    rw [cyc_eq_getElem h]
    congr 1
    rw [Int.emod_eq_of_lt (by omega) (by omega)]; simp
  · rintro ⟨j, _, _, rfl⟩; exact cyc_mem h j

/-- Go's `Vertex(i)` is the cyclic accessor on the non-negative indices (where `%` does not go
    negative and the slice access does not panic) -/
theorem vertex_eq_cyc (vs : List P) {j : Int} (hj : 0 ≤ j) : vertex vs j = cyc vs j := by
  unfold vertex cyc; rw [Int.tmod_eq_emod_of_nonneg hj]

/-- `Vertex(j % n)` with Go's `%` on a non-negative `j` -/
theorem vertex_tmod_eq_cyc {vs : List P} (h : vs ≠ []) {j : Int} (hj : 0 ≤ j) :
    vertex vs (j.tmod (vs.length : Int)) = cyc vs j := by
  rw [Int.tmod_eq_emod_of_nonneg hj, vertex_eq_cyc vs (Int.emod_nonneg j (ne_of_gt (len_pos h)))]
  exact cyc_congr vs (Int.emod_emod_of_dvd j (dvd_refl _))

theorem cyc_rotate {vs : List P} (h : vs ≠ []) (k : Nat) (j : Int) :
    cyc (rotate vs k) j = cyc vs (j + k) := by
  have hr : rotate vs k ≠ [] := by
    intro h0; have := length_rotate vs k; rw [h0] at this; simp at this; exact h (List.eq_nil_of_length_eq_zero this.symm)
  rw [cyc_eq_getElem hr, cyc_eq_getElem h]
  simp only [rotate_eq]
  rw [List.getElem_rotate]
  congr 1
  have hp := len_pos h
  simp only [List.length_rotate]
  have h1 := Int.emod_nonneg j (ne_of_gt hp)
  have h3 := Int.emod_nonneg (j + k) (ne_of_gt hp)
  zify
  rw [Int.toNat_of_nonneg h1, Int.toNat_of_nonneg h3, Int.emod_add_emod]

theorem cyc_reverse {vs : List P} (h : vs ≠ []) (j : Int) :
    cyc vs.reverse j = cyc vs (-1 - j) := by
  have hr : vs.reverse ≠ [] := by simpa using h
  rw [cyc_eq_getElem hr, cyc_eq_getElem h, List.getElem_reverse]
  congr 1
  have hp := len_pos h
  simp only [List.length_reverse]
  have h1 := Int.emod_nonneg j (ne_of_gt hp)
  have h2 := Int.emod_lt_of_pos j hp
  have h3 := Int.emod_nonneg (-1 - j) (ne_of_gt hp)
  have h4 := Int.emod_lt_of_pos (-1 - j) hp
  have key : (-1 - j) % (vs.length : Int) = (vs.length : Int) - 1 - j % (vs.length : Int) := by
    have e : -1 - j = ((vs.length : Int) - 1 - j % (vs.length : Int)) + (vs.length : Int) * (-(j / (vs.length : Int)) - 1) := by
      have := Int.emod_add_mul_ediv j (vs.length : Int)
      linarith
    rw [e, Int.add_mul_emod_self_left, Int.emod_eq_of_lt (by omega) (by omega)]
  omega

end S2Proofs.C18
