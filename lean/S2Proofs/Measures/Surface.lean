/-
  Helper lemma for C18: as long as no leading edge is (almost) 180 degrees long the surface-integral
  loop keeps the origin at vertex 0 and adds one fan triangle per step.
-/
import S2.Measures
import Mathlib.Tactic.Ring
namespace S2Proofs.C18
open S2 S2.Measures

variable {P S : Type} [Inhabited P] (F : SurfEnv P S)

theorem surfLoop_short (vs : List P) (v0 : P) :
    ∀ (k : Nat) (i : Int) (s : S),
      (∀ m : Nat, m < k → F.angleGt (vertex vs (i + m + 1)) v0 = false) →
      surfLoop F vs v0 k i (s, v0) =
        ((List.range k).foldl (fun s (m : Nat) => F.add s (F.f v0 (vertex vs (i + m)) (vertex vs (i + m + 1)))) s, v0) := by
  intro k
  induction k with
  | zero => intro i s _; simp [surfLoop]
  | succ k ih =>
    intro i s hs
    have h0 := hs 0 (Nat.succ_pos _)
    simp only [Nat.cast_zero, add_zero] at h0
    simp only [surfLoop, surfStep, h0, Bool.false_eq_true, if_false]
    rw [ih (i + 1) _ (fun m hm => by
      have := hs (m + 1) (by omega)
      rw [show i + ((m + 1 : Nat) : Int) + 1 = i + 1 + m + 1 by push_cast; ring] at this
      exact this)]
    rw [List.range_succ_eq_map, List.foldl_cons, List.foldl_map]
    simp only [Nat.cast_zero, add_zero]
    congr 2
    funext s m
    rw [show i + 1 + (m : Int) = i + ((m.succ : Nat) : Int) by push_cast; ring]

end S2Proofs.C18
