/-
  Helper lemmas for C18: specification of `canonicalFirstVertex` (it finds the unique minimal
  vertex and the direction towards its smaller neighbour) and its behaviour under rotation /
  reversal of the vertex list.
-/
import S2Proofs.Measures.Cyclic
import Mathlib.Data.List.Pairwise
namespace S2Proofs.C18
open S2 S2.Measures

variable {P A : Type} [Inhabited P]

/-- The condition `CanonicalFirstVertex` needs: on the vertices of the loop `Cmp(..) == -1` is a
    strict total order.  `total` says that two DIFFERENT POSITIONS of the list hold comparable, hence
    different, vertices — "no duplicate vertices" (`findValidationErrorNoIndex` rejects loops with
    `v[i] == v[j]`, and for vertices without NaN `Cmp != 0` is the same as `!=`). -/
structure OrdOK (lt : P → P → Bool) (vs : List P) : Prop where
  irrefl : ∀ a ∈ vs, lt a a = false
  trans : ∀ a ∈ vs, ∀ b ∈ vs, ∀ c ∈ vs, lt a b = true → lt b c = true → lt a c = true
  total : vs.Pairwise (fun a b => lt a b = true ∨ lt b a = true)

instance (lt : P → P → Bool) (vs : List P) : Decidable (OrdOK lt vs) :=
  decidable_of_iff ((∀ a ∈ vs, lt a a = false) ∧
      (∀ a ∈ vs, ∀ b ∈ vs, ∀ c ∈ vs, lt a b = true → lt b c = true → lt a c = true) ∧
      vs.Pairwise (fun a b => lt a b = true ∨ lt b a = true))
    ⟨fun ⟨a, b, c⟩ => ⟨a, b, c⟩, fun ⟨a, b, c⟩ => ⟨a, b, c⟩⟩

omit [Inhabited P] in
theorem OrdOK.of_perm {lt : P → P → Bool} {vs ws : List P} (h : OrdOK lt vs) (hp : ws.Perm vs) :
    OrdOK lt ws :=
  ⟨fun a ha => h.irrefl a (hp.mem_iff.1 ha),
   fun a ha b hb c hc => h.trans a (hp.mem_iff.1 ha) b (hp.mem_iff.1 hb) c (hp.mem_iff.1 hc),
   (List.Perm.pairwise_iff (fun {_ _} h => h.symm) hp).2 h.total⟩

omit [Inhabited P] in
theorem OrdOK.rotate {lt : P → P → Bool} {vs : List P} (h : OrdOK lt vs) (k : Nat) :
    OrdOK lt (rotate vs k) := by
  rw [rotate_eq]; exact h.of_perm (List.rotate_perm vs k)

omit [Inhabited P] in
theorem OrdOK.reverse {lt : P → P → Bool} {vs : List P} (h : OrdOK lt vs) :
    OrdOK lt (invert vs) := h.of_perm (List.reverse_perm vs)

omit [Inhabited P] in
theorem OrdOK.nodup {lt : P → P → Bool} {vs : List P} (h : OrdOK lt vs) : vs.Nodup := by
  have := h.total
  rw [List.Nodup]
  refine (List.Pairwise.and_mem.1 this).imp ?_
  rintro a b ⟨ha, _, hab⟩ rfl
  have := h.irrefl a ha
  rcases hab with hab | hab <;> simp [this] at hab

omit [Inhabited P] in
/-- different vertices of the loop are comparable -/
theorem OrdOK.cmp {lt : P → P → Bool} {vs : List P} (h : OrdOK lt vs) {a b : P}
    (ha : a ∈ vs) (hb : b ∈ vs) (hab : a ≠ b) : lt a b = true ∨ lt b a = true := by
  have : Std.Symm (fun a b : P => lt a b = true ∨ lt b a = true) := ⟨fun _ _ h => h.symm⟩
  exact List.Pairwise.forall h.total ha hb hab


theorem modeq_of_sub {n a b : Int} (q : Int) (h : b - a = n * q) : a ≡ b [ZMOD n] :=
  Int.modEq_iff_dvd.2 ⟨q, h⟩

theorem cyc_ne {vs : List P} (hne : vs ≠ []) (hnd : vs.Nodup) {a b : Int}
    (ha : 0 ≤ a) (ha' : a < vs.length) (hb : 0 ≤ b) (hb' : b < vs.length) (hab : a ≠ b) :
    cyc vs a ≠ cyc vs b := by
  intro h
  have := cyc_inj hne hnd h
  unfold Int.ModEq at this
  rw [Int.emod_eq_of_lt ha ha', Int.emod_eq_of_lt hb hb'] at this
  exact hab this

/-- `m` is the least vertex of the loop -/
def IsMin (lt : P → P → Bool) (vs : List P) (m : P) : Prop :=
  m ∈ vs ∧ ∀ x ∈ vs, x ≠ m → lt m x = true

omit [Inhabited P] in
theorem IsMin.unique {lt : P → P → Bool} {vs : List P} (h : OrdOK lt vs) {m m' : P}
    (h1 : IsMin lt vs m) (h2 : IsMin lt vs m') : m = m' := by
  by_contra hne
  have a := h1.2 m' h2.1 (Ne.symm hne)
  have b := h2.2 m h1.1 hne
  have := h.trans m h1.1 m' h2.1 m h1.1 a b
  rw [h.irrefl m h1.1] at this; contradiction

omit [Inhabited P] in
theorem IsMin.of_perm {lt : P → P → Bool} {vs ws : List P} {m : P} (h : IsMin lt vs m)
    (hp : ws.Perm vs) : IsMin lt ws m :=
  ⟨hp.mem_iff.2 h.1, fun x hx => h.2 x (hp.mem_iff.1 hx)⟩

variable (E : TurnEnv P A)

theorem argminFrom_spec {vs : List P} (h : OrdOK E.lt vs) (hne : vs ≠ []) :
    ∀ (fuel : Nat) (i f : Int), i + fuel = vs.length → 0 ≤ f → f < i →
      (∀ j : Int, 0 ≤ j → j < i → j ≠ f → E.lt (cyc vs f) (cyc vs j) = true) →
      0 ≤ argminFrom E vs fuel i f ∧ argminFrom E vs fuel i f < vs.length ∧
      ∀ j : Int, 0 ≤ j → j < vs.length → j ≠ argminFrom E vs fuel i f →
        E.lt (cyc vs (argminFrom E vs fuel i f)) (cyc vs j) = true := by
  intro fuel
  induction fuel with
  | zero =>
    intro i f hi hf hfi hinv
    simp only [argminFrom]
    have : i = vs.length := by simpa using hi
    subst this
    exact ⟨hf, hfi, hinv⟩
  | succ k ih =>
    intro i f hi hf hfi hinv
    simp only [argminFrom]
    have hi0 : 0 ≤ i := by omega
    have hin : i < vs.length := by push_cast at hi; omega
    rw [vertex_eq_cyc vs hi0, vertex_eq_cyc vs hf]
    by_cases hlt : E.lt (cyc vs i) (cyc vs f) = true
    · rw [if_pos hlt]
      refine ih (i + 1) i (by push_cast at hi ⊢; omega) hi0 (by omega) ?_
      intro j hj0 hj hji
      by_cases hjf : j = f
      · subst hjf; exact hlt
      · exact h.trans _ (cyc_mem hne _) _ (cyc_mem hne _) _ (cyc_mem hne _) hlt
          (hinv j hj0 (by omega) hjf)
    · rw [if_neg hlt]
      refine ih (i + 1) f (by push_cast at hi ⊢; omega) hf (by omega) ?_
      intro j hj0 hj hjf
      by_cases hji : j = i
      · subst hji
        have hne' := cyc_ne hne h.nodup hf (by omega) hj0 hin (by omega : f ≠ j)
        rcases h.cmp (cyc_mem hne _) (cyc_mem hne _) hne' with h1 | h1
        · exact h1
        · exact absurd h1 hlt
      · exact hinv j hj0 (by omega) hjf

/-- What `CanonicalFirstVertex` returns on a loop with >= 3 pairwise different vertices: the
    position of THE minimal vertex, with direction +1 (index in `[0,n)`) iff the successor of that
    vertex is smaller than its predecessor, else -1 (index shifted into `[n,2n)`). -/
theorem cfv_spec {vs : List P} (h : OrdOK E.lt vs) (h3 : 3 ≤ vs.length) :
    IsMin E.lt vs (cyc vs (canonicalFirstVertex E vs).1) ∧ 0 ≤ (canonicalFirstVertex E vs).1 ∧
    (((canonicalFirstVertex E vs).2 = 1 ∧ (canonicalFirstVertex E vs).1 < vs.length ∧
        E.lt (cyc vs ((canonicalFirstVertex E vs).1 + 1)) (cyc vs ((canonicalFirstVertex E vs).1 - 1)) = true) ∨
     ((canonicalFirstVertex E vs).2 = -1 ∧ (vs.length : Int) ≤ (canonicalFirstVertex E vs).1 ∧
        (canonicalFirstVertex E vs).1 < 2 * vs.length ∧
        E.lt (cyc vs ((canonicalFirstVertex E vs).1 + 1)) (cyc vs ((canonicalFirstVertex E vs).1 - 1)) = false)) := by
  have hne : vs ≠ [] := by intro h0; rw [h0] at h3; simp at h3
  obtain ⟨hf0, hfn, hmin⟩ := argminFrom_spec E h hne (vs.length - 1) 1 0
    (by have : 1 ≤ vs.length := by omega
        push_cast [Nat.cast_sub this]; ring) (le_refl _) (by norm_num)
    (by intro j hj0 hj1 hj; omega)
  unfold canonicalFirstVertex
  simp only
  set f := argminFrom E vs (vs.length - 1) 1 0 with hfdef
  have hismin : IsMin E.lt vs (cyc vs f) := by
    refine ⟨cyc_mem hne _, fun x hx hxne => ?_⟩
    obtain ⟨j, hj0, hjn, rfl⟩ := (mem_iff_cyc hne).1 hx
    exact hmin j hj0 hjn (by rintro rfl; exact hxne rfl)
  rw [vertex_eq_cyc vs (by omega : 0 ≤ f + 1), vertex_eq_cyc vs (by omega : 0 ≤ f + vs.length - 1)]
  have e1 : cyc vs (f + vs.length - 1) = cyc vs (f - 1) :=
    cyc_congr vs (modeq_of_sub (-1) (by ring))
  rw [e1]
  by_cases hlt : E.lt (cyc vs (f + 1)) (cyc vs (f - 1)) = true
  · rw [if_pos hlt]
    exact ⟨hismin, hf0, Or.inl ⟨rfl, hfn, hlt⟩⟩
  · rw [if_neg hlt]
    simp only
    have e0 : cyc vs (f + vs.length) = cyc vs f := cyc_congr vs (modeq_of_sub (-1) (by ring))
    have e2 : cyc vs (f + vs.length + 1) = cyc vs (f + 1) := cyc_congr vs (modeq_of_sub (-1) (by ring))
    have e3 : cyc vs (f + vs.length - 1) = cyc vs (f - 1) := cyc_congr vs (modeq_of_sub (-1) (by ring))
    rw [e0, e2, e3]
    refine ⟨hismin, by omega, Or.inr ⟨trivial, by omega, by omega, ?_⟩⟩
    simpa using hlt


/-- direction returned by `CanonicalFirstVertex` -/
def canonDir (vs : List P) : Int := (canonicalFirstVertex E vs).2

/-- the canonical traversal `m ↦ Vertex(first + m*dir)`, extended cyclically to all integers -/
def canonFn (vs : List P) (m : Int) : P :=
  cyc vs ((canonicalFirstVertex E vs).1 + m * (canonicalFirstVertex E vs).2)

omit [Inhabited P] in
theorem OrdOK.asymm {lt : P → P → Bool} {vs : List P} (h : OrdOK lt vs) {a b : P}
    (ha : a ∈ vs) (hb : b ∈ vs) (hab : a ≠ b) : lt b a = !lt a b := by
  rcases h.cmp ha hb hab with h1 | h1
  · have : lt b a = false := by
      by_contra h2
      have h2 : lt b a = true := by simpa using h2
      have := h.trans a ha b hb a ha h1 h2
      rw [h.irrefl a ha] at this; contradiction
    rw [h1, this]; rfl
  · have : lt a b = false := by
      by_contra h2
      have h2 : lt a b = true := by simpa using h2
      have := h.trans a ha b hb a ha h2 h1
      rw [h.irrefl a ha] at this; contradiction
    rw [h1, this]; rfl

theorem neighbours_ne {vs : List P} (hnd : vs.Nodup) (h3 : 3 ≤ vs.length) (i : Int) :
    cyc vs (i + 1) ≠ cyc vs (i - 1) := by
  have hne : vs ≠ [] := by intro h0; rw [h0] at h3; simp at h3
  intro h
  have := (cyc_inj hne hnd h).dvd
  have h2 : ((vs.length : Int)) ∣ 2 := by
    have e : (i - 1) - (i + 1) = -2 := by ring
    rw [e] at this
    exact (Int.dvd_neg).1 this
  have := Int.le_of_dvd (by norm_num) h2
  omega

theorem dir_cases {vs : List P} (h : OrdOK E.lt vs) (h3 : 3 ≤ vs.length) :
    (canonDir E vs = 1 ∧
      E.lt (cyc vs ((canonicalFirstVertex E vs).1 + 1)) (cyc vs ((canonicalFirstVertex E vs).1 - 1)) = true) ∨
    (canonDir E vs = -1 ∧
      E.lt (cyc vs ((canonicalFirstVertex E vs).1 + 1)) (cyc vs ((canonicalFirstVertex E vs).1 - 1)) = false) := by
  rcases (cfv_spec E h h3).2.2 with ⟨a, _, c⟩ | ⟨a, _, _, c⟩
  · exact Or.inl ⟨a, c⟩
  · exact Or.inr ⟨a, c⟩

theorem dir_eq_of_lt_eq {vs ws : List P} (h : OrdOK E.lt vs) (h3 : 3 ≤ vs.length)
    (hw : OrdOK E.lt ws) (hw3 : 3 ≤ ws.length)
    (e : E.lt (cyc ws ((canonicalFirstVertex E ws).1 + 1)) (cyc ws ((canonicalFirstVertex E ws).1 - 1)) =
         E.lt (cyc vs ((canonicalFirstVertex E vs).1 + 1)) (cyc vs ((canonicalFirstVertex E vs).1 - 1))) :
    canonDir E ws = canonDir E vs := by
  rcases dir_cases E h h3 with ⟨a, b⟩ | ⟨a, b⟩ <;> rcases dir_cases E hw hw3 with ⟨c, d⟩ | ⟨c, d⟩
  · rw [a, c]
  · rw [b, d] at e; contradiction
  · rw [b, d] at e; contradiction
  · rw [a, c]

theorem dir_neg_of_lt_not {vs ws : List P} (h : OrdOK E.lt vs) (h3 : 3 ≤ vs.length)
    (hw : OrdOK E.lt ws) (hw3 : 3 ≤ ws.length)
    (e : E.lt (cyc ws ((canonicalFirstVertex E ws).1 + 1)) (cyc ws ((canonicalFirstVertex E ws).1 - 1)) =
         !E.lt (cyc vs ((canonicalFirstVertex E vs).1 + 1)) (cyc vs ((canonicalFirstVertex E vs).1 - 1))) :
    canonDir E ws = -canonDir E vs := by
  rcases dir_cases E h h3 with ⟨a, b⟩ | ⟨a, b⟩ <;> rcases dir_cases E hw hw3 with ⟨c, d⟩ | ⟨c, d⟩
  · rw [b, d] at e; simp at e
  · rw [a, c]
  · rw [a, c]; norm_num
  · rw [b, d] at e; simp at e

/-- (a) rotation: `CanonicalFirstVertex` of the rotated list points at the same VERTEX (index
    shifted by the rotation, modulo n), returns the same direction, and the canonical traversal
    is the same sequence of vertices. -/
theorem canon_rotate {vs : List P} (h : OrdOK E.lt vs) (h3 : 3 ≤ vs.length) (k : Nat) :
    (canonicalFirstVertex E (rotate vs k)).1 + k ≡ (canonicalFirstVertex E vs).1 [ZMOD (vs.length : Int)] ∧
    canonDir E (rotate vs k) = canonDir E vs ∧
    canonFn E (rotate vs k) = canonFn E vs := by
  have hne : vs ≠ [] := by intro h0; rw [h0] at h3; simp at h3
  have hw := h.rotate k
  have hw3 : 3 ≤ (rotate vs k).length := by rw [length_rotate]; exact h3
  have m1 := (cfv_spec E hw hw3).1
  have m2 := (cfv_spec E h h3).1
  rw [cyc_rotate hne] at m1
  have hperm : (rotate vs k).Perm vs := by rw [rotate_eq]; exact List.rotate_perm vs k
  have m1' : IsMin E.lt vs (cyc vs ((canonicalFirstVertex E (rotate vs k)).1 + k)) :=
    ⟨cyc_mem hne _, fun x hx => m1.2 x (hperm.mem_iff.2 hx)⟩
  have hmod := cyc_inj hne h.nodup (IsMin.unique h m1' m2)
  have hdir : canonDir E (rotate vs k) = canonDir E vs := by
    apply dir_eq_of_lt_eq E h h3 hw hw3
    rw [cyc_rotate hne, cyc_rotate hne]
    rw [cyc_congr vs (show (canonicalFirstVertex E (rotate vs k)).1 + 1 + k ≡ (canonicalFirstVertex E vs).1 + 1 [ZMOD (vs.length : Int)] from by
          have := hmod.add_right 1; convert this using 1; ring),
        cyc_congr vs (show (canonicalFirstVertex E (rotate vs k)).1 - 1 + k ≡ (canonicalFirstVertex E vs).1 - 1 [ZMOD (vs.length : Int)] from by
          have := hmod.add_right (-1); convert this using 1 <;> ring)]
  refine ⟨hmod, hdir, ?_⟩
  funext m
  unfold canonFn
  unfold canonDir at hdir
  rw [cyc_rotate hne, hdir]
  apply cyc_congr
  have := hmod.add_right (m * (canonicalFirstVertex E vs).2)
  convert this using 1; ring

/-- (a) inversion: `CanonicalFirstVertex` of the reversed list points at the same VERTEX (index
    mirrored, modulo n), returns the OPPOSITE direction, and the canonical traversal is the same
    sequence of vertices. -/
theorem canon_invert {vs : List P} (h : OrdOK E.lt vs) (h3 : 3 ≤ vs.length) :
    -1 - (canonicalFirstVertex E (invert vs)).1 ≡ (canonicalFirstVertex E vs).1 [ZMOD (vs.length : Int)] ∧
    canonDir E (invert vs) = -canonDir E vs ∧
    canonFn E (invert vs) = canonFn E vs := by
  have hne : vs ≠ [] := by intro h0; rw [h0] at h3; simp at h3
  have hw := h.reverse
  have hw3 : 3 ≤ (invert vs).length := by unfold invert; rw [List.length_reverse]; exact h3
  have m1 := (cfv_spec E hw hw3).1
  have m2 := (cfv_spec E h h3).1
  unfold invert at m1 hw hw3 ⊢
  rw [cyc_reverse hne] at m1
  have m1' : IsMin E.lt vs (cyc vs (-1 - (canonicalFirstVertex E vs.reverse).1)) :=
    ⟨cyc_mem hne _, fun x hx => m1.2 x (List.mem_reverse.2 hx)⟩
  have hmod := cyc_inj hne h.nodup (IsMin.unique h m1' m2)
  have hdir : canonDir E vs.reverse = -canonDir E vs := by
    apply dir_neg_of_lt_not E h h3 hw hw3
    rw [cyc_reverse hne, cyc_reverse hne]
    rw [cyc_congr vs (show -1 - ((canonicalFirstVertex E vs.reverse).1 + 1) ≡ (canonicalFirstVertex E vs).1 - 1 [ZMOD (vs.length : Int)] from by
          have := hmod.add_right (-1); convert this using 1 <;> ring),
        cyc_congr vs (show -1 - ((canonicalFirstVertex E vs.reverse).1 - 1) ≡ (canonicalFirstVertex E vs).1 + 1 [ZMOD (vs.length : Int)] from by
          have := hmod.add_right 1; convert this using 1; ring)]
    exact h.asymm (cyc_mem hne _) (cyc_mem hne _) (neighbours_ne h.nodup h3 _)
  refine ⟨hmod, hdir, ?_⟩
  funext m
  unfold canonFn
  unfold canonDir at hdir
  rw [cyc_reverse hne, hdir]
  apply cyc_congr
  have := hmod.add_right (m * (canonicalFirstVertex E vs).2)
  convert this using 1; ring

end S2Proofs.C18
