/-
  S2Proofs.NbrComplete — COMPLETENESS of `allNeighbors` for interior cells: every level-`lvl` cell that touches the
  cell (exact cube boxes meet) and is not inside it is reported.  Part 1: integer geometry (a box strictly inside a
  face can only be met by boxes of the same face).  Part 2: the loop of `allNeighbors` enumerates the whole ring.
-/
import S2Proofs.NbrAll
open S2 S2.CellID S2.Hilbert S2.STUV
set_option linter.unusedVariables false
set_option linter.unusedSimpArgs false
namespace S2Proofs.C01W

theorem axMeet_ne_none (p q : Int × Int) : axMeet p q ≠ none ↔ max p.1 q.1 ≤ min p.2 q.2 := by
  unfold axMeet
  simp only
  by_cases h : max p.1 q.1 > min p.2 q.2
  · rw [if_pos h]; simp; omega
  · rw [if_neg h]; simp; omega

theorem boxMeet_ne_none (a b : Box) :
    boxMeet a b ≠ none ↔
      (max a.1.1 b.1.1 ≤ min a.1.2 b.1.2 ∧ max a.2.1.1 b.2.1.1 ≤ min a.2.1.2 b.2.1.2 ∧
       max a.2.2.1 b.2.2.1 ≤ min a.2.2.2 b.2.2.2) := by
  rw [← axMeet_ne_none, ← axMeet_ne_none, ← axMeet_ne_none]
  unfold boxMeet
  cases h1 : axMeet a.1 b.1 <;> cases h2 : axMeet a.2.1 b.2.1 <;> cases h3 : axMeet a.2.2 b.2.2 <;> simp

/-- a rectangle strictly inside face f is met only by rectangles of the same face, and then the u- and the
    v-intervals meet -/
theorem faceBox_meet (f f' : Nat) (hf : f < 6) (hf' : f' < 6) (u1 u2 v1 v2 x1 x2 y1 y2 : Int)
    (hu : -1073741824 < u1 ∧ u1 ≤ u2 ∧ u2 < 1073741824) (hv : -1073741824 < v1 ∧ v1 ≤ v2 ∧ v2 < 1073741824)
    (hx : -1073741824 ≤ x1 ∧ x1 ≤ x2 ∧ x2 ≤ 1073741824) (hy : -1073741824 ≤ y1 ∧ y1 ≤ y2 ∧ y2 ≤ 1073741824)
    (hm : boxMeet (faceBox f (u1, u2) (v1, v2)) (faceBox f' (x1, x2) (y1, y2)) ≠ none) :
    f = f' ∧ max u1 x1 ≤ min u2 x2 ∧ max v1 y1 ≤ min v2 y2 := by
  rw [boxMeet_ne_none] at hm
  interval_cases f <;> interval_cases f' <;> simp only [faceBox] at hm <;> omega

/-- converse on one face: rectangles of the same face whose u- and v-intervals meet have meeting boxes -/
theorem faceBox_meet_same (f : Nat) (hf : f < 6) (u1 u2 v1 v2 x1 x2 y1 y2 : Int)
    (hu : max u1 x1 ≤ min u2 x2) (hv : max v1 y1 ≤ min v2 y2) :
    boxMeet (faceBox f (u1, u2) (v1, v2)) (faceBox f (x1, x2) (y1, y2)) ≠ none := by
  rw [boxMeet_ne_none]
  interval_cases f <;> simp only [faceBox] <;> omega

/-! ### Part 2: the loop of `allNeighbors` enumerates the ring (interior squares) -/

/-- the four kinds of elements produced by iteration `t` (k = t·nbr − nbr), for a square strictly inside the face -/
theorem anRow_has (f lvl : Nat) (i j S nbr : Int) (t : Nat) (hnbr : 0 < nbr) (hS : nbr ≤ S)
    (hi : S ≤ i) (hi2 : i + S < 1073741824) (hj : S ≤ j) (hj2 : j + S < 1073741824)
    (hk0 : -nbr ≤ (t:Int) * nbr - nbr) (hk : (t:Int) * nbr - nbr ≤ S) :
    parent (cellIDFromFaceIJSame f (i - nbr) (j + ((t:Int) * nbr - nbr)) true) lvl ∈ anRow f lvl i j S nbr t ∧
    parent (cellIDFromFaceIJSame f (i + S) (j + ((t:Int) * nbr - nbr)) true) lvl ∈ anRow f lvl i j S nbr t ∧
    ((0 ≤ (t:Int) * nbr - nbr ∧ (t:Int) * nbr - nbr < S) →
      parent (cellIDFromFaceIJSame f (i + ((t:Int) * nbr - nbr)) (j - nbr) true) lvl ∈ anRow f lvl i j S nbr t ∧
      parent (cellIDFromFaceIJSame f (i + ((t:Int) * nbr - nbr)) (j + S) true) lvl ∈ anRow f lvl i j S nbr t) := by
  unfold anRow
  simp only []
  generalize (t:Int) * nbr - nbr = k at *
  have d2 : decide (i - S ≥ 0) = true := decide_eq_true (by omega)
  have d3 : decide (i + S < 1073741824) = true := decide_eq_true (by omega)
  have d4 : decide (j - S ≥ 0) = true := decide_eq_true (by omega)
  have d5 : decide (j + S < 1073741824) = true := decide_eq_true (by omega)
  by_cases c1 : k < 0
  · have d1 : decide (j + k ≥ 0) = true := decide_eq_true (by omega)
    simp only [c1, if_true, d1, d2, d3, Bool.and_self, List.nil_append, List.mem_cons, List.mem_nil_iff, or_false,
      true_or, or_true, true_and]
    intro h; omega
  · by_cases c2 : k ≥ S
    · have d1 : decide (j + k < 1073741824) = true := decide_eq_true (by omega)
      simp only [c1, c2, if_true, if_false, d1, d2, d3, Bool.and_self, List.nil_append, List.mem_cons,
        List.mem_nil_iff, or_false, true_or, or_true, true_and]
      intro h; omega
    · simp only [c1, c2, if_true, if_false, d2, d3, d4, d5, Bool.and_self, List.cons_append, List.nil_append,
        List.mem_cons, List.mem_nil_iff, or_false, true_or, or_true, true_and, implies_true, and_self]

theorem int_toNat_cast (x : Nat) : ((x : Nat) : Int).toNat = x := Int.toNat_natCast x

section
variable {L : Nat} (hL : L = 30)
include hL

set_option maxHeartbeats 1600000 in
/-- COMPLETENESS for interior cells: a level-`lvl` cell `n` that is not inside `id` and whose cube box meets the
    cube box of `id` is an element of `allNeighbors id lvl` -/
theorem allNeighbors_complete (id : CellID) (K : Nat) (h : IsCell id K) (lvl : Nat) (h1 : K ≤ lvl) (h2 : lvl ≤ 30)
    (hI : 1 ≤ sqI id K ∧ sqI id K + 1 < 2^K) (hJ : 1 ≤ sqJ id K ∧ sqJ id K + 1 < 2^K)
    (n : CellID) (hn : IsCell n lvl) (hnot : contains id n = false)
    (ht : boxMeet (cubeBox id) (cubeBox n) ≠ none) : n ∈ allNeighbors id lvl := by
  have hK := h.k_le
  obtain ⟨g1, g2, g3, _, g5⟩ := faceIJOrientation_leaf_in_cell hL id K h
  obtain ⟨n1, n2, n3, _, n5⟩ := faceIJOrientation_leaf_in_cell hL n lvl hn
  obtain ⟨bX, bY⟩ := sq_le hL n lvl hn
  -- sizes
  have hpowK : (2:Nat)^K * 2^(30 - K) = 1073741824 := pow_split K hK
  have hpowL : (2:Nat)^lvl * 2^(30 - lvl) = 1073741824 := pow_split lvl h2
  have hSN : (2:Nat)^(30 - K) = 2^(lvl - K) * 2^(30 - lvl) := by
    rw [← Nat.pow_add]; congr 1; omega
  have hN0 : 0 < (2:Nat)^(30 - lvl) := Nat.two_pow_pos _
  have hm0 : 0 < (2:Nat)^(lvl - K) := Nat.two_pow_pos _
  have hLL0 : 0 < (2:Nat)^lvl := Nat.two_pow_pos _
  have hKK0 : 0 < (2:Nat)^K := Nat.two_pow_pos _
  -- geometry: same face, intervals meet
  rw [cubeBox_cell hL id K h, cubeBox_cell hL n lvl hn] at ht
  unfold cubeLo at ht
  generalize hIdef : sqI id K = I at *
  generalize hJdef : sqJ id K = J at *
  generalize hXdef : sqI n lvl = X at *
  generalize hYdef : sqJ n lvl = Y at *
  generalize hSdef : (2:Nat)^(30 - K) = S at *
  generalize hNdef : (2:Nat)^(30 - lvl) = N at *
  generalize hmdef : (2:Nat)^(lvl - K) = m at *
  generalize hKKdef : (2:Nat)^K = KK at *
  generalize hLLdef : (2:Nat)^lvl = LL at *
  have hS0 : 0 < S := by rw [hSN]; exact Nat.mul_pos hm0 hN0
  have iS1 : S ≤ I * S := Nat.le_mul_of_pos_left S hI.1
  have jS1 : S ≤ J * S := Nat.le_mul_of_pos_left S hJ.1
  have iS2 : I * S + S + S ≤ 1073741824 := by
    calc I * S + S + S = (I + 2) * S := by rw [Nat.add_mul]; omega
      _ ≤ KK * S := Nat.mul_le_mul_right _ (by omega)
      _ = 1073741824 := hpowK
  have jS2 : J * S + S + S ≤ 1073741824 := by
    calc J * S + S + S = (J + 2) * S := by rw [Nat.add_mul]; omega
      _ ≤ KK * S := Nat.mul_le_mul_right _ (by omega)
      _ = 1073741824 := hpowK
  have xN : X * N + N ≤ 1073741824 := by
    calc X * N + N = (X + 1) * N := by rw [Nat.add_mul, Nat.one_mul]
      _ ≤ LL * N := Nat.mul_le_mul_right _ (by omega)
      _ = 1073741824 := hpowL
  have yN : Y * N + N ≤ 1073741824 := by
    calc Y * N + N = (Y + 1) * N := by rw [Nat.add_mul, Nat.one_mul]
      _ ≤ LL * N := Nat.mul_le_mul_right _ (by omega)
      _ = 1073741824 := hpowL
  obtain ⟨hface, mu, mv⟩ := faceBox_meet (face id) (face n) h.face_lt6 hn.face_lt6 _ _ _ _ _ _ _ _
    (by omega) (by omega) (by omega) (by omega) ht
  -- ring coordinates p, q
  have eIS : I * S = I * m * N := by rw [hSN, Nat.mul_assoc]
  have eJS : J * S = J * m * N := by rw [hSN, Nat.mul_assoc]
  have hx1 : I * m * N ≤ X * N + N := by rw [← eIS]; omega
  have hx2 : X * N ≤ I * m * N + m * N := by rw [← eIS, ← hSN]; omega
  have hy1 : J * m * N ≤ Y * N + N := by rw [← eJS]; omega
  have hy2 : Y * N ≤ J * m * N + m * N := by rw [← eJS, ← hSN]; omega
  have hxa : I * m ≤ X + 1 := by
    have : I * m * N ≤ (X + 1) * N := by rw [Nat.add_mul, Nat.one_mul]; exact hx1
    exact Nat.le_of_mul_le_mul_right this hN0
  have hxb : X ≤ I * m + m := by
    have : X * N ≤ (I * m + m) * N := by rw [Nat.add_mul]; exact hx2
    exact Nat.le_of_mul_le_mul_right this hN0
  have hya : J * m ≤ Y + 1 := by
    have : J * m * N ≤ (Y + 1) * N := by rw [Nat.add_mul, Nat.one_mul]; exact hy1
    exact Nat.le_of_mul_le_mul_right this hN0
  have hyb : Y ≤ J * m + m := by
    have : Y * N ≤ (J * m + m) * N := by rw [Nat.add_mul]; exact hy2
    exact Nat.le_of_mul_le_mul_right this hN0
  -- not inside
  have hout : ¬ (I * m ≤ X ∧ X < I * m + m ∧ J * m ≤ Y ∧ Y < J * m + m) := by
    rintro ⟨o1, o2, o3, o4⟩
    have hXm : X / m = I := by
      have e : X = I * m + (X - I * m) := by omega
      rw [e]; exact div_lem _ _ _ (by omega)
    have hYm : Y / m = J := by
      have e : Y = J * m + (Y - J * m) := by omega
      rw [e]; exact div_lem _ _ _ (by omega)
    have hc : contains id n = true := by
      rw [h.contains_iff_parent hn]
      refine ⟨h1, ?_⟩
      rw [← n5, parent_parent _ K lvl h1 h2, ← g5]
      apply (parent_cellIDFromFaceIJ_eq_iff hL _ _ _ _ _ _ K (by rw [n1]; exact hn.face_lt6) (by rw [g1]; exact h.face_lt6)
        n2 n3 g2 g3 hK).2
      unfold sqI at hXdef hIdef
      unfold sqJ at hYdef hJdef
      rw [hSdef] at hIdef hJdef
      rw [hNdef] at hXdef hYdef
      rw [hSdef, hIdef, hJdef, hSN, Nat.mul_comm m N, ← Nat.div_div_eq_div_mul, ← Nat.div_div_eq_div_mul]
      rw [hXdef, hYdef, hXm, hYm, n1, g1, hface]
      exact ⟨rfl, rfl, rfl⟩
    rw [hc] at hnot; cases hnot
  -- unfold the loop
  rw [allNeighbors_eq]
  have gf : (faceIJOrientation id).1 = face id := g1
  unfold sqI at hIdef
  unfold sqJ at hJdef
  rw [hSdef] at hIdef hJdef
  generalize faceIJOrientation id = r at *
  obtain ⟨f0, i0, j0, o⟩ := r
  simp only at gf g2 g3 hIdef hJdef
  subst gf
  rw [anAux_eq _ _ _ _ _ _ (by rw [h.level_eq]; exact h1) h2, h.level_eq, sizeIJ_eq, sizeIJ_eq, hSdef, hNdef]
  have hA : (i0:Int) - (i0:Int) % (S:Int) = ((I * S : Nat) : Int) := by
    have := Nat.div_add_mod i0 S
    rw [← Int.natCast_mod]
    have e : (i0:Int) = ((S * (i0 / S) + i0 % S : Nat) : Int) := by rw [this]
    rw [Nat.mul_comm, hIdef] at e
    omega
  have hB : (j0:Int) - (j0:Int) % (S:Int) = ((J * S : Nat) : Int) := by
    have := Nat.div_add_mod j0 S
    rw [← Int.natCast_mod]
    have e : (j0:Int) = ((S * (j0 / S) + j0 % S : Nat) : Int) := by rw [this]
    rw [Nat.mul_comm, hJdef] at e
    omega
  rw [hA, hB]
  have hdiv : S / N = m := by rw [hSN]; exact Nat.mul_div_cancel _ hN0
  rw [hdiv]
  -- n as a square cell
  have hnsq : IsSq n lvl (face id) X Y := ⟨hn, hface.symm, hXdef, hYdef⟩
  have elem : ∀ (a b : Nat), a = X * N → b = Y * N →
      parent (cellIDFromFaceIJSame (face id) (a:Int) (b:Int) true) lvl = n := by
    intro a b ha hb
    have e0 : cellIDFromFaceIJSame (face id) (a:Int) (b:Int) true = cellIDFromFaceIJ (face id) a b := by
      unfold cellIDFromFaceIJSame
      rw [if_pos rfl, Int.toNat_natCast, Int.toNat_natCast]
    rw [e0]
    have hsq := isSq_leaf_parent hL (face id) a b lvl h.face_lt6 (by omega) (by omega) h2
    rw [hNdef] at hsq
    have ea : a / N = X := by rw [ha]; exact Nat.mul_div_cancel _ hN0
    have eb : b / N = Y := by rw [hb]; exact Nat.mul_div_cancel _ hN0
    rw [ea, eb] at hsq
    exact isSq_unique hL hsq hnsq
  -- choose the iteration
  have mem_of : ∀ t : Nat, t ≤ m + 1 → (∀ l, l = anRow (face id) lvl ((I * S : Nat) : Int) ((J * S : Nat) : Int) (S:Int) (N:Int) t → n ∈ l) →
      n ∈ (List.map (anRow (face id) lvl ((I * S : Nat) : Int) ((J * S : Nat) : Int) (S:Int) (N:Int)) (List.range (m + 2))).flatten := by
    intro t ht hl
    rw [List.mem_flatten]
    exact ⟨_, List.mem_map.mpr ⟨t, List.mem_range.mpr (by omega), rfl⟩, hl _ rfl⟩
  have hSmN : (S:Int) = (m:Int) * (N:Int) := by rw [hSN]; push_cast; rfl
  have rows : ∀ t : Nat, t ≤ m + 1 → _ := fun t ht => anRow_has (face id) lvl ((I * S : Nat) : Int) ((J * S : Nat) : Int) (S:Int) (N:Int) t
    (by omega) (by rw [hSmN]; have : (1:Int) ≤ m := by omega
                   nlinarith [Int.natCast_nonneg N])
    (by push_cast; omega) (by push_cast; omega) (by push_cast; omega) (by push_cast; omega)
    (by have : (0:Int) ≤ (t:Int) * (N:Int) := Int.mul_nonneg (Int.natCast_nonneg _) (Int.natCast_nonneg _)
        omega)
    (by rw [hSmN]
        have : (t:Int) ≤ (m:Int) + 1 := by omega
        have := Int.mul_le_mul_of_nonneg_right this (Int.natCast_nonneg N)
        rw [Int.add_mul, Int.one_mul] at this
        omega)
  -- products as naturals
  have tN : ∀ t c Z : Nat, t + c * m = Z + 1 → t * N + c * m * N = Z * N + N := by
    intro t c Z e
    calc t * N + c * m * N = (t + c * m) * N := by rw [Nat.add_mul]
      _ = (Z + 1) * N := by rw [e]
      _ = Z * N + N := by rw [Nat.add_mul, Nat.one_mul]
  have castmul : ∀ t : Nat, (t:Int) * (N:Int) = ((t * N : Nat) : Int) := fun t => by push_cast; rfl
  have eSN' : m * N = S := hSN.symm
  by_cases hp0 : X + 1 = I * m
  · -- left column
    have ht : Y + 1 - J * m ≤ m + 1 := by omega
    have row := (rows (Y + 1 - J * m) ht).1
    have e1 := tN (Y + 1 - J * m) J Y (by omega)
    have e2 : I * m * N = X * N + N := by rw [← hp0, Nat.add_mul, Nat.one_mul]
    have ea : ((I * S : Nat) : Int) - (N:Int) = ((X * N : Nat) : Int) := by rw [eIS]; omega
    have eb : ((J * S : Nat) : Int) + (((Y + 1 - J * m : Nat) : Int) * (N:Int) - (N:Int)) = ((Y * N : Nat) : Int) := by
      rw [castmul, eJS]; omega
    rw [ea, eb, elem _ _ rfl rfl] at row
    exact mem_of _ ht (fun l hl => hl ▸ row)
  · by_cases hp1 : X = I * m + m
    · -- right column
      have ht : Y + 1 - J * m ≤ m + 1 := by omega
      have row := (rows (Y + 1 - J * m) ht).2.1
      have e1 := tN (Y + 1 - J * m) J Y (by omega)
      have e2 : X * N = I * m * N + m * N := by rw [hp1, Nat.add_mul]
      have ea : ((I * S : Nat) : Int) + (S:Int) = ((X * N : Nat) : Int) := by rw [eIS, e2, eSN']; push_cast; omega
      have eb : ((J * S : Nat) : Int) + (((Y + 1 - J * m : Nat) : Int) * (N:Int) - (N:Int)) = ((Y * N : Nat) : Int) := by
        rw [castmul, eJS]; omega
      rw [ea, eb, elem _ _ rfl rfl] at row
      exact mem_of _ ht (fun l hl => hl ▸ row)
    · -- bottom or top row
      have ht : X + 1 - I * m ≤ m + 1 := by omega
      have e1 := tN (X + 1 - I * m) I X (by omega)
      have hmid : 0 ≤ ((X + 1 - I * m : Nat) : Int) * (N:Int) - (N:Int) ∧
          ((X + 1 - I * m : Nat) : Int) * (N:Int) - (N:Int) < (S:Int) := by
        rw [castmul]
        have h3 : X * N < I * m * N + m * N := by
          have : X * N < (I * m + m) * N := Nat.mul_lt_mul_of_pos_right (by omega) hN0
          rw [Nat.add_mul] at this; exact this
        have h4 : I * m * N ≤ X * N := Nat.mul_le_mul_right _ (by omega)
        rw [← eSN']; push_cast; omega
      have rowbt := (rows (X + 1 - I * m) ht).2.2 hmid
      have ea : ((I * S : Nat) : Int) + (((X + 1 - I * m : Nat) : Int) * (N:Int) - (N:Int)) = ((X * N : Nat) : Int) := by
        rw [castmul, eIS]; omega
      by_cases hq0 : Y + 1 = J * m
      · have row := rowbt.1
        have e2 : J * m * N = Y * N + N := by rw [← hq0, Nat.add_mul, Nat.one_mul]
        have eb : ((J * S : Nat) : Int) - (N:Int) = ((Y * N : Nat) : Int) := by rw [eJS]; omega
        rw [ea, eb, elem _ _ rfl rfl] at row
        exact mem_of _ ht (fun l hl => hl ▸ row)
      · have hq1 : Y = J * m + m := by omega
        have row := rowbt.2
        have e2 : Y * N = J * m * N + m * N := by rw [hq1, Nat.add_mul]
        have eb : ((J * S : Nat) : Int) + (S:Int) = ((Y * N : Nat) : Int) := by rw [eJS, e2, eSN']; push_cast; omega
        rw [ea, eb, elem _ _ rfl rfl] at row
        exact mem_of _ ht (fun l hl => hl ▸ row)

/-- every cell reported for an interior cell touches it (cube boxes meet) -/
theorem allNeighbors_touch (id : CellID) (K : Nat) (h : IsCell id K) (lvl : Nat) (h1 : K ≤ lvl) (h2 : lvl ≤ 30)
    (hI : 1 ≤ sqI id K ∧ sqI id K + 1 < 2^K) (hJ : 1 ≤ sqJ id K ∧ sqJ id K + 1 < 2^K)
    (n : CellID) (hn : n ∈ allNeighbors id lvl) : boxMeet (cubeBox id) (cubeBox n) ≠ none := by
  obtain ⟨c, fn, _, _, r1, r2, r3, r4⟩ := allNeighbors_interior hL id K h lvl h1 h2 hI hJ n hn
  rw [cubeBox_cell hL id K h, cubeBox_cell hL n lvl c, fn]
  have hSN : (2:Nat)^(30 - K) = 2^(lvl - K) * 2^(30 - lvl) := by
    rw [← Nat.pow_add]; congr 1; omega
  have hN0 : 0 < (2:Nat)^(30 - lvl) := Nat.two_pow_pos _
  unfold cubeLo
  rw [hSN]
  generalize sqI id K = I at *
  generalize sqJ id K = J at *
  generalize sqI n lvl = X at *
  generalize sqJ n lvl = Y at *
  generalize (2:Nat)^(30 - lvl) = N at *
  generalize (2:Nat)^(lvl - K) = m at *
  have a1 : I * (m * N) ≤ X * N + N := by
    have := Nat.mul_le_mul_right N r1
    rw [Nat.add_mul, Nat.one_mul, Nat.mul_assoc] at this; exact this
  have a2 : X * N ≤ I * (m * N) + m * N := by
    have := Nat.mul_le_mul_right N r2
    rw [Nat.add_mul, Nat.one_mul, Nat.add_mul, Nat.mul_assoc] at this; exact this
  have b1 : J * (m * N) ≤ Y * N + N := by
    have := Nat.mul_le_mul_right N r3
    rw [Nat.add_mul, Nat.one_mul, Nat.mul_assoc] at this; exact this
  have b2 : Y * N ≤ J * (m * N) + m * N := by
    have := Nat.mul_le_mul_right N r4
    rw [Nat.add_mul, Nat.one_mul, Nat.add_mul, Nat.mul_assoc] at this; exact this
  apply faceBox_meet_same _ h.face_lt6
  · omega
  · omega

end
end S2Proofs.C01W
