/-
  S2Proofs.F64Transfer — every function of the interval model `S2.Interval`, instantiated at the bit-exact
  soft-float (`S2.IvlF64`), commutes with the transport map `q : F64 → V` of `S2Proofs.F64Carrier`
  on non-NaN inputs.  Consequently each theorem of `Properties/C19.lean` (stated for an arbitrary linear order)
  becomes a theorem about binary64 (`Properties/C19_Binary64.lean`).
-/
import S2Proofs.F64Carrier
import S2Proofs.Properties.C19

set_option linter.unusedSimpArgs false
set_option linter.unusedVariables false
set_option linter.unusedSectionVars false
set_option linter.unnecessarySeqFocus false
set_option linter.unusedTactic false
set_option linter.unreachableTactic false

namespace S2Proofs.F64Transfer
open S2 S2.IvlOps S2.IvlF64 S2Proofs S2Proofs.F64Order S2Proofs.F64Carrier

/-! ## transport of the structures -/

def QR1 (i : R1 F64) : R1 V := ⟨q i.lo, q i.hi⟩
def QS1 (i : S1 F64) : S1 V := ⟨q i.lo, q i.hi⟩
def QP (p : R2Point F64) : R2Point V := ⟨q p.x, q p.y⟩
def QR2 (r : R2Rect F64) : R2Rect V := ⟨QR1 r.x, QR1 r.y⟩
def QLL (p : LatLng F64) : LatLng V := ⟨q p.lat, q p.lng⟩
def QLR (r : LLRect F64) : LLRect V := ⟨QR1 r.lat, QS1 r.lng⟩

/-- both endpoints are not NaN -/
def NN1 (i : R1 F64) : Prop := NN i.lo ∧ NN i.hi
def NNS (i : S1 F64) : Prop := NN i.lo ∧ NN i.hi
def NNP (p : R2Point F64) : Prop := NN p.x ∧ NN p.y
def NN2 (r : R2Rect F64) : Prop := NN1 r.x ∧ NN1 r.y
/-- both endpoints are finite -/
def Fin1 (i : R1 F64) : Prop := Fin i.lo ∧ Fin i.hi

instance (i : R1 F64) : Decidable (NN1 i) := by unfold NN1; infer_instance
instance (i : S1 F64) : Decidable (NNS i) := by unfold NNS; infer_instance
instance (p : R2Point F64) : Decidable (NNP p) := by unfold NNP; infer_instance
instance (r : R2Rect F64) : Decidable (NN2 r) := by unfold NN2; infer_instance
instance (i : R1 F64) : Decidable (Fin1 i) := by unfold Fin1; infer_instance

theorem nn1_of_fin1 {i : R1 F64} (h : Fin1 i) : NN1 i := ⟨nn_of_fin h.1, nn_of_fin h.2⟩

@[simp] theorem QR1_lo (i : R1 F64) : (QR1 i).lo = q i.lo := rfl
@[simp] theorem QR1_hi (i : R1 F64) : (QR1 i).hi = q i.hi := rfl
@[simp] theorem QS1_lo (i : S1 F64) : (QS1 i).lo = q i.lo := rfl
@[simp] theorem QS1_hi (i : S1 F64) : (QS1 i).hi = q i.hi := rfl

/-! ## r1.Interval -/

theorem r1_isEmpty_q {i : R1 F64} (hi : NN1 i) : i.isEmpty = (QR1 i).isEmpty := by
  simp only [R1.isEmpty, QR1, dlt_q hi.2 hi.1]
  rfl

theorem r1_contains_q {i : R1 F64} {p : F64} (hi : NN1 i) (hp : NN p) : i.contains p = (QR1 i).contains (q p) := by
  simp only [R1.contains, QR1, dle_q hi.1 hp, dle_q hp hi.2]
  rfl

theorem r1_interiorContains_q {i : R1 F64} {p : F64} (hi : NN1 i) (hp : NN p) :
    i.interiorContains p = (QR1 i).interiorContains (q p) := by
  simp only [R1.interiorContains, QR1, dlt_q hi.1 hp, dlt_q hp hi.2]
  rfl

theorem r1_containsInterval_q {i o : R1 F64} (hi : NN1 i) (ho : NN1 o) :
    i.containsInterval o = (QR1 i).containsInterval (QR1 o) := by
  simp only [R1.containsInterval, r1_isEmpty_q ho, QR1_lo, QR1_hi, dle_q hi.1 ho.1, dle_q ho.2 hi.2]
  rfl

theorem r1_interiorContainsInterval_q {i o : R1 F64} (hi : NN1 i) (ho : NN1 o) :
    i.interiorContainsInterval o = (QR1 i).interiorContainsInterval (QR1 o) := by
  simp only [R1.interiorContainsInterval, r1_isEmpty_q ho, QR1_lo, QR1_hi, dlt_q hi.1 ho.1, dlt_q ho.2 hi.2]
  rfl

theorem r1_intersects_q {i o : R1 F64} (hi : NN1 i) (ho : NN1 o) : i.intersects o = (QR1 i).intersects (QR1 o) := by
  simp only [R1.intersects, QR1_lo, QR1_hi, le_q hi.1 ho.1, dle_q ho.1 hi.2, dle_q ho.1 ho.2, dle_q hi.1 ho.2,
    dle_q hi.1 hi.2]
  rfl

theorem r1_interiorIntersects_q {i o : R1 F64} (hi : NN1 i) (ho : NN1 o) :
    i.interiorIntersects o = (QR1 i).interiorIntersects (QR1 o) := by
  simp only [R1.interiorIntersects, QR1_lo, QR1_hi, dlt_q ho.1 hi.2, dlt_q hi.1 ho.2, dlt_q hi.1 hi.2,
    dle_q ho.1 ho.2]
  rfl

theorem r1_equal_q {i o : R1 F64} (hi : NN1 i) (ho : NN1 o) : i.equal o = (QR1 i).equal (QR1 o) := by
  simp only [R1.equal, r1_isEmpty_q hi, r1_isEmpty_q ho, QR1_lo, QR1_hi, feq_q hi.1 ho.1, feq_q hi.2 ho.2]

theorem r1_empty_q : QR1 (R1.empty : R1 F64) = (R1.empty : R1 V) := rfl
theorem r1_empty_nn : NN1 (R1.empty : R1 F64) := by decide

theorem r1_intersection_q {i o : R1 F64} (hi : NN1 i) (ho : NN1 o) :
    NN1 (i.intersection o) ∧ QR1 (i.intersection o) = (QR1 i).intersection (QR1 o) := by
  refine ⟨⟨nn_max hi.1 ho.1, nn_min hi.2 ho.2⟩, ?_⟩
  simp only [R1.intersection, QR1, q_max hi.1 ho.1, q_min hi.2 ho.2]

theorem r1_union_q {i o : R1 F64} (hi : NN1 i) (ho : NN1 o) :
    NN1 (i.union o) ∧ QR1 (i.union o) = (QR1 i).union (QR1 o) := by
  unfold R1.union
  rw [← r1_isEmpty_q hi, ← r1_isEmpty_q ho]
  split_ifs
  · exact ⟨ho, rfl⟩
  · exact ⟨hi, rfl⟩
  · refine ⟨⟨nn_min hi.1 ho.1, nn_max hi.2 ho.2⟩, ?_⟩
    simp only [QR1, q_min hi.1 ho.1, q_max hi.2 ho.2]

theorem r1_addPoint_q {i : R1 F64} {p : F64} (hi : NN1 i) (hp : NN p) :
    NN1 (i.addPoint p) ∧ QR1 (i.addPoint p) = (QR1 i).addPoint (q p) := by
  unfold R1.addPoint
  rw [← r1_isEmpty_q hi]
  simp only [QR1_lo, QR1_hi, ← lt_q hp hi.1, ← lt_q hi.2 hp]
  split_ifs
  · exact ⟨⟨hp, hp⟩, rfl⟩
  · exact ⟨⟨hp, hi.2⟩, rfl⟩
  · exact ⟨⟨hi.1, hp⟩, rfl⟩
  · exact ⟨hi, rfl⟩

theorem r1_clampPoint_q {i : R1 F64} {p : F64} (hi : NN1 i) (hp : NN p) :
    NN (i.clampPoint p) ∧ q (i.clampPoint p) = (QR1 i).clampPoint (q p) := by
  have h1 := nn_min hi.2 hp
  refine ⟨nn_max hi.1 h1, ?_⟩
  simp only [R1.clampPoint, QR1, q_max hi.1 h1, q_min hi.2 hp]

/-- `Expanded`: finite endpoints and a finite margin (the sums may overflow to ±∞, never to NaN) -/
theorem r1_expanded_q {i : R1 F64} {m : F64} (hi : Fin1 i) (hm : Fin m) :
    NN1 (i.expanded m) ∧ QR1 (i.expanded m) = (QR1 i).expanded (q m) := by
  unfold R1.expanded
  rw [← r1_isEmpty_q (nn1_of_fin1 hi)]
  split_ifs
  · exact ⟨nn1_of_fin1 hi, rfl⟩
  · refine ⟨⟨nn_sub_of_fin hi.1 hm, nn_add_of_fin hi.2 hm⟩, ?_⟩
    simp only [QR1, q_sub _ (nn_of_fin hm), q_add]

/-- a point of an interval is not a NaN -/
theorem nn_of_r1_contains {i : R1 F64} {p : F64} (h : i.contains p = true) : NN p := by
  simp only [R1.contains, Bool.and_eq_true, decide_eq_true_eq] at h
  exact nn_of_le_right h.1

theorem r1_contains_nan {i : R1 F64} {p : F64} (h : ¬ NN p) : i.contains p = false := by
  by_contra hc
  exact h (nn_of_r1_contains (by simpa using hc))

theorem nn_of_r1_interiorContains {i : R1 F64} {p : F64} (h : i.interiorContains p = true) : NN p := by
  simp only [R1.interiorContains, Bool.and_eq_true, decide_eq_true_eq] at h
  exact nn_of_lt_right h.1

/-- the half of `r1_interiorIntersects_iff` that does not need a dense carrier -/
theorem r1_interiorIntersects_of_point {α : Type} [LinearOrder α] [IvlOps α] [IvlLaws α] (i o : R1 α)
    (h : ∃ p, i.interiorContains p = true ∧ o.contains p = true) : i.interiorIntersects o = true := by
  simp only [R1.interiorIntersects, R1.interiorContains, r1_contains_iff, Bool.and_eq_true, decide_eq_true_eq] at *
  obtain ⟨p, hp⟩ := h; grind

/-! ## r2.Rect -/

/-- all four endpoints finite -/
def Fin2 (r : R2Rect F64) : Prop := Fin1 r.x ∧ Fin1 r.y
def FinP (p : R2Point F64) : Prop := Fin p.x ∧ Fin p.y
instance (r : R2Rect F64) : Decidable (Fin2 r) := by unfold Fin2; infer_instance
instance (p : R2Point F64) : Decidable (FinP p) := by unfold FinP; infer_instance
theorem nn2_of_fin2 {r : R2Rect F64} (h : Fin2 r) : NN2 r := ⟨nn1_of_fin1 h.1, nn1_of_fin1 h.2⟩
theorem nnp_of_finp {p : R2Point F64} (h : FinP p) : NNP p := ⟨nn_of_fin h.1, nn_of_fin h.2⟩

@[simp] theorem QR2_x (r : R2Rect F64) : (QR2 r).x = QR1 r.x := rfl
@[simp] theorem QR2_y (r : R2Rect F64) : (QR2 r).y = QR1 r.y := rfl
@[simp] theorem QP_x (p : R2Point F64) : (QP p).x = q p.x := rfl
@[simp] theorem QP_y (p : R2Point F64) : (QP p).y = q p.y := rfl

theorem r2_isValid_q {r : R2Rect F64} (hr : NN2 r) : r.isValid = (QR2 r).isValid := by
  simp only [R2Rect.isValid, r1_isEmpty_q hr.1, r1_isEmpty_q hr.2, QR2_x, QR2_y]

theorem r2_isEmpty_q {r : R2Rect F64} (hr : NN2 r) : r.isEmpty = (QR2 r).isEmpty := by
  simp only [R2Rect.isEmpty, r1_isEmpty_q hr.1, QR2_x]

theorem r2_containsPoint_q {r : R2Rect F64} {p : R2Point F64} (hr : NN2 r) (hp : NNP p) :
    r.containsPoint p = (QR2 r).containsPoint (QP p) := by
  simp only [R2Rect.containsPoint, r1_contains_q hr.1 hp.1, r1_contains_q hr.2 hp.2, QR2_x, QR2_y, QP_x, QP_y]

theorem r2_interiorContainsPoint_q {r : R2Rect F64} {p : R2Point F64} (hr : NN2 r) (hp : NNP p) :
    r.interiorContainsPoint p = (QR2 r).interiorContainsPoint (QP p) := by
  simp only [R2Rect.interiorContainsPoint, r1_interiorContains_q hr.1 hp.1, r1_interiorContains_q hr.2 hp.2,
    QR2_x, QR2_y, QP_x, QP_y]

theorem r2_contains_q {r o : R2Rect F64} (hr : NN2 r) (ho : NN2 o) : r.contains o = (QR2 r).contains (QR2 o) := by
  simp only [R2Rect.contains, r1_containsInterval_q hr.1 ho.1, r1_containsInterval_q hr.2 ho.2, QR2_x, QR2_y]

theorem r2_interiorContains_q {r o : R2Rect F64} (hr : NN2 r) (ho : NN2 o) :
    r.interiorContains o = (QR2 r).interiorContains (QR2 o) := by
  simp only [R2Rect.interiorContains, r1_interiorContainsInterval_q hr.1 ho.1,
    r1_interiorContainsInterval_q hr.2 ho.2, QR2_x, QR2_y]

theorem r2_intersects_q {r o : R2Rect F64} (hr : NN2 r) (ho : NN2 o) :
    r.intersects o = (QR2 r).intersects (QR2 o) := by
  simp only [R2Rect.intersects, r1_intersects_q hr.1 ho.1, r1_intersects_q hr.2 ho.2, QR2_x, QR2_y]

theorem r2_empty_q : QR2 (R2Rect.empty : R2Rect F64) = (R2Rect.empty : R2Rect V) := rfl
theorem r2_empty_nn : NN2 (R2Rect.empty : R2Rect F64) := ⟨r1_empty_nn, r1_empty_nn⟩

theorem nnp_of_r2_containsPoint {r : R2Rect F64} {p : R2Point F64} (h : r.containsPoint p = true) : NNP p := by
  simp only [R2Rect.containsPoint, Bool.and_eq_true] at h
  exact ⟨nn_of_r1_contains h.1, nn_of_r1_contains h.2⟩

theorem r2_containsPoint_nan {r : R2Rect F64} {p : R2Point F64} (h : ¬ NNP p) : r.containsPoint p = false := by
  by_contra hc
  exact h (nnp_of_r2_containsPoint (by simpa using hc))

theorem QP_val (v : R2Point V) : QP ⟨v.x.1, v.y.1⟩ = v := by
  cases v; simp only [QP, q_val]

theorem r2_union_q {r o : R2Rect F64} (hr : NN2 r) (ho : NN2 o) :
    NN2 (r.union o) ∧ QR2 (r.union o) = (QR2 r).union (QR2 o) := by
  obtain ⟨a1, a2⟩ := r1_union_q hr.1 ho.1
  obtain ⟨b1, b2⟩ := r1_union_q hr.2 ho.2
  refine ⟨⟨a1, b1⟩, ?_⟩
  simp only [R2Rect.union, QR2, a2, b2]

theorem r2_addPoint_q {r : R2Rect F64} {p : R2Point F64} (hr : NN2 r) (hp : NNP p) :
    NN2 (r.addPoint p) ∧ QR2 (r.addPoint p) = (QR2 r).addPoint (QP p) := by
  obtain ⟨a1, a2⟩ := r1_addPoint_q hr.1 hp.1
  obtain ⟨b1, b2⟩ := r1_addPoint_q hr.2 hp.2
  refine ⟨⟨a1, b1⟩, ?_⟩
  simp only [R2Rect.addPoint, QR2, QP, a2, b2]

theorem r2_clampPoint_q {r : R2Rect F64} {p : R2Point F64} (hr : NN2 r) (hp : NNP p) :
    NNP (r.clampPoint p) ∧ QP (r.clampPoint p) = (QR2 r).clampPoint (QP p) := by
  obtain ⟨a1, a2⟩ := r1_clampPoint_q hr.1 hp.1
  obtain ⟨b1, b2⟩ := r1_clampPoint_q hr.2 hp.2
  refine ⟨⟨a1, b1⟩, ?_⟩
  simp only [R2Rect.clampPoint, QR2, QP, a2, b2]

theorem r2_intersection_q {r o : R2Rect F64} (hr : NN2 r) (ho : NN2 o) :
    NN2 (r.intersection o) ∧ QR2 (r.intersection o) = (QR2 r).intersection (QR2 o) := by
  obtain ⟨a1, a2⟩ := r1_intersection_q hr.1 ho.1
  obtain ⟨b1, b2⟩ := r1_intersection_q hr.2 ho.2
  unfold R2Rect.intersection
  simp only [QR2_x, QR2_y, ← a2, ← b2, ← r1_isEmpty_q a1, ← r1_isEmpty_q b1]
  split_ifs
  · exact ⟨r2_empty_nn, r2_empty_q⟩
  · exact ⟨⟨a1, b1⟩, rfl⟩

theorem r2_expanded_q {r : R2Rect F64} {m : R2Point F64} (hr : Fin2 r) (hm : FinP m) :
    NN2 (r.expanded m) ∧ QR2 (r.expanded m) = (QR2 r).expanded (QP m) := by
  obtain ⟨a1, a2⟩ := r1_expanded_q hr.1 hm.1
  obtain ⟨b1, b2⟩ := r1_expanded_q hr.2 hm.2
  unfold R2Rect.expanded
  simp only [QR2_x, QR2_y, QP_x, QP_y, ← a2, ← b2, ← r1_isEmpty_q a1, ← r1_isEmpty_q b1]
  split_ifs
  · exact ⟨r2_empty_nn, r2_empty_q⟩
  · exact ⟨⟨a1, b1⟩, rfl⟩

/-! ## s1.Interval — "B-variants"

`Union`, `Intersection`, `AddPoint`, `Project`, `IntervalFromPointPair` choose between two answers by comparing two
COMPUTED distances / lengths (`positiveDistance`, `Length`).  The generic theorems never use what that comparison
means — both answers are correct.  To transport them to binary64 WITHOUT any assumption about the rounded arithmetic
inside `positiveDistance` / `Length`, the comparison is abstracted into a Boolean parameter `b`; the model function is
the B-variant at the Boolean it computes (`union_eq_B` …), and the generic theorems are re-proved for every `b`. -/

section BVariants
variable {α : Type} [LE α] [LT α] [DecidableLE α] [DecidableLT α] [Max α] [Min α] [IvlOps α]

def unionB (b : Bool) (i o : S1 α) : S1 α :=
  if o.isEmpty then i
  else if i.fastContains o.lo then
    if i.fastContains o.hi then
      if i.containsInterval o then i else S1.full
    else ⟨i.lo, o.hi⟩
  else if i.fastContains o.hi then ⟨o.lo, i.hi⟩
  else if i.isEmpty || o.fastContains i.lo then o
  else if b then ⟨o.lo, i.hi⟩
  else ⟨i.lo, o.hi⟩

def intersectionB (b : Bool) (i o : S1 α) : S1 α :=
  if o.isEmpty then S1.empty
  else if i.fastContains o.lo then
    if i.fastContains o.hi then
      if b then o else i
    else ⟨o.lo, i.hi⟩
  else if i.fastContains o.hi then ⟨i.lo, o.hi⟩
  else if o.fastContains i.lo then i
  else S1.empty

def addPointB (b : Bool) (i : S1 α) (p : α) : S1 α :=
  if (pi : α) < abs p then i
  else
    let p := S1.normPoint p
    if i.fastContains p then i
    else if i.isEmpty then ⟨p, p⟩
    else if b then ⟨p, i.hi⟩
    else ⟨i.lo, p⟩

def projectB (b : Bool) (i : S1 α) (p : α) : α :=
  let p := S1.normPoint p
  if i.fastContains p then p
  else if b then i.lo else i.hi

def fromPointPairB (b : Bool) (a c : α) : S1 α :=
  let a := if feq a negPi then pi else a
  let c := if feq c negPi then pi else c
  if b then ⟨a, c⟩ else ⟨c, a⟩

theorem union_eq_B (i o : S1 α) :
    i.union o = unionB (decide (S1.positiveDistance o.hi i.lo < S1.positiveDistance i.hi o.lo)) i o := by
  unfold S1.union unionB
  simp only [decide_eq_true_eq]

theorem intersection_eq_B (i o : S1 α) : i.intersection o = intersectionB (decide (o.length < i.length)) i o := by
  unfold S1.intersection intersectionB
  simp only [decide_eq_true_eq]

theorem addPoint_eq_B (i : S1 α) (p : α) :
    i.addPoint p = addPointB (decide (S1.positiveDistance (S1.normPoint p) i.lo <
      S1.positiveDistance i.hi (S1.normPoint p))) i p := by
  unfold S1.addPoint addPointB
  simp only [decide_eq_true_eq]

theorem project_eq_B (i : S1 α) (p : α) :
    i.project p = projectB (decide (S1.positiveDistance (S1.normPoint p) i.lo <
      S1.positiveDistance i.hi (S1.normPoint p))) i p := by
  unfold S1.project projectB
  simp only [decide_eq_true_eq]

theorem fromPointPair_eq_B (a c : α) :
    S1.fromPointPair a c = fromPointPairB (decide (S1.positiveDistance (if feq a negPi then pi else a)
      (if feq c negPi then pi else c) ≤ (pi : α))) a c := by
  unfold S1.fromPointPair fromPointPairB
  simp only [decide_eq_true_eq]

end BVariants

section BTheorems
variable {α : Type} [LinearOrder α] [IvlOps α] [IvlLaws α]

theorem s1_unionB_contains (b : Bool) (i o : S1 α) (hi : i.isValid = true) (ho : o.isValid = true) (p : α)
    (hp : ValidPt p) (h : i.contains p = true ∨ o.contains p = true) : (unionB b i o).contains p = true := by
  have h1 := IvlLaws.negPi_lt_pi (α := α)
  rw [s1_contains_iff] at h ⊢
  rw [s1_contains_iff] at h
  have hq := norm_range p hp
  generalize norm p = q at *
  unfold unionB
  split_ifs <;> s1n <;> grind (splits := 40)

theorem s1_unionB_valid (b : Bool) (i o : S1 α) (hi : i.isValid = true) (ho : o.isValid = true) :
    (unionB b i o).isValid = true := by
  have h1 := IvlLaws.negPi_lt_pi (α := α)
  unfold unionB
  split_ifs <;> s1n <;> grind (splits := 40)

theorem s1_unionB_isEmpty_iff (b : Bool) (i o : S1 α) (hi : i.isValid = true) (ho : o.isValid = true) :
    (unionB b i o).isEmpty = true ↔ (i.isEmpty = true ∧ o.isEmpty = true) := by
  have h1 := IvlLaws.negPi_lt_pi (α := α)
  unfold unionB
  split_ifs <;> s1n <;> grind (splits := 40)

theorem s1_intersectionB_contains_common (b : Bool) (i o : S1 α) (hi : i.isValid = true) (ho : o.isValid = true)
    (p : α) (hp : ValidPt p) (h1 : i.contains p = true) (h2 : o.contains p = true) :
    (intersectionB b i o).contains p = true := by
  have h0 := IvlLaws.negPi_lt_pi (α := α)
  rw [s1_contains_iff] at h1 h2 ⊢
  have hq := norm_range p hp
  generalize norm p = q at *
  unfold intersectionB
  split_ifs <;> s1n <;> grind (splits := 40)

theorem s1_intersectionB_no_stranger (b : Bool) (i o : S1 α) (hi : i.isValid = true) (ho : o.isValid = true)
    (p : α) (hp : ValidPt p) (h : (intersectionB b i o).contains p = true) :
    i.contains p = true ∨ o.contains p = true := by
  have h0 := IvlLaws.negPi_lt_pi (α := α)
  rw [s1_contains_iff] at h ⊢
  rw [s1_contains_iff]
  have hq := norm_range p hp
  generalize norm p = q at *
  unfold intersectionB at h
  split_ifs at h <;> s1n <;> grind (splits := 40)

theorem s1_intersectionB_valid (b : Bool) (i o : S1 α) (hi : i.isValid = true) (ho : o.isValid = true) :
    (intersectionB b i o).isValid = true := by
  have h1 := IvlLaws.negPi_lt_pi (α := α)
  unfold intersectionB
  split_ifs <;> s1n <;> grind (splits := 40)

theorem s1_intersectionB_isEmpty_iff (b : Bool) (i o : S1 α) (hi : i.isValid = true) (ho : o.isValid = true) :
    (intersectionB b i o).isEmpty = true ↔ i.intersects o = false := by
  have h1 := IvlLaws.negPi_lt_pi (α := α)
  unfold intersectionB
  split_ifs <;> s1n <;> grind (splits := 40)

theorem s1_addPointB_contains (b : Bool) (i : S1 α) (hi : i.isValid = true) (p q : α) (hp : ValidPt p)
    (hq : ValidPt q) :
    (addPointB b i p).isValid = true ∧ (addPointB b i p).contains p = true ∧
    (i.contains q = true → (addPointB b i p).contains q = true) := by
  have h1 := IvlLaws.negPi_lt_pi (α := α)
  have hpa : ¬ (pi : α) < abs p := by
    have := (IvlLaws.abs_le_pi p).2 hp; order
  have hp' := norm_range p hp
  have hq' := norm_range q hq
  unfold addPointB
  simp only [hpa, if_false, normPoint_eq, s1_contains_iff]
  generalize norm p = p' at *
  generalize norm q = q' at *
  have np : norm p' = p' := norm_of_ne _ (by grind)
  split_ifs <;> (try simp only [np]) <;> s1n <;> grind (splits := 40)

theorem s1_addPointB_out_of_range (b : Bool) (i : S1 α) (p : α) (hp : ¬ ValidPt p) : addPointB b i p = i := by
  have hpa : (pi : α) < abs p := by
    have := (IvlLaws.abs_le_pi p).not.2 hp; order
  unfold addPointB; simp [hpa]

theorem s1_projectB_inside (b : Bool) (i : S1 α) (hi : i.isValid = true) (hne : i.isEmpty = false) (p : α)
    (hp : ValidPt p) :
    i.contains (projectB b i p) = true ∧ (i.contains p = true → projectB b i p = norm p) := by
  have h1 := IvlLaws.negPi_lt_pi (α := α)
  have hq := norm_range p hp
  unfold projectB
  simp only [normPoint_eq]
  rw [s1_contains_iff i p]
  generalize norm p = q at *
  have nq : norm q = q := norm_of_ne _ (by grind)
  split_ifs <;> simp only [s1_contains_iff, nq] <;> s1n <;> grind (splits := 40)

theorem s1_fromPointPairB_contains (b : Bool) (a c : α) (ha : ValidPt a) (hc : ValidPt c) :
    (fromPointPairB b a c).isValid = true ∧ (fromPointPairB b a c).contains a = true ∧
    (fromPointPairB b a c).contains c = true := by
  have h1 := IvlLaws.negPi_lt_pi (α := α)
  unfold fromPointPairB
  simp only [feq_eq, decide_eq_true_eq]
  split_ifs <;> s1n <;> grind (splits := 40)

/-- `s1_interiorContainsInterval_complete` WITHOUT a dense carrier (the probes are the four endpoints and `π`):
    unlike `ContainsInterval`, the interior version is complete on every linear order, hence on the float grid. -/
theorem s1_interiorContainsInterval_complete_grid (i o : S1 α) (hi : i.isValid = true)
    (ho : o.isValid = true) (h : ∀ p, ValidPt p → o.contains p = true → i.interiorContains p = true) :
    i.interiorContainsInterval o = true := by
  have h1 := IvlLaws.negPi_lt_pi (α := α)
  have e1 := probe_ci i o h o.lo; have e2 := probe_ci i o h o.hi; have e3 := probe_ci i o h pi
  have e4 := probe_ci i o h i.lo; have e5 := probe_ci i o h i.hi
  clear h; s1n
  by_cases c1 : i.hi < i.lo <;> by_cases c2 : o.hi < o.lo <;> by_cases c3 : negPi < i.lo <;>
    by_cases c4 : negPi < i.hi <;> grind (splits := 60)

end BTheorems

/-! ## s1.Interval — commutation with `q` (endpoints / points not NaN) -/

theorem nn_pi : NN (pi : F64) := by decide
theorem nn_negPi : NN (negPi : F64) := by decide
theorem fin_pi : Fin (pi : F64) := by decide
theorem fin_negPi : Fin (negPi : F64) := by decide

theorem nn_iabs {x : F64} (h : NN x) : NN (IvlOps.abs x) := nn_abs h

theorem s1_isFull_q {i : S1 F64} (hi : NNS i) : i.isFull = (QS1 i).isFull := by
  simp only [S1.isFull, QS1_lo, QS1_hi, feq_q hi.1 nn_negPi, feq_q hi.2 nn_pi, q_pi, q_negPi]

theorem s1_isEmpty_q {i : S1 F64} (hi : NNS i) : i.isEmpty = (QS1 i).isEmpty := by
  simp only [S1.isEmpty, QS1_lo, QS1_hi, feq_q hi.1 nn_pi, feq_q hi.2 nn_negPi, q_pi, q_negPi]

theorem s1_isInverted_q {i : S1 F64} (hi : NNS i) : i.isInverted = (QS1 i).isInverted := by
  (simp only [S1.isInverted, QS1_lo, QS1_hi, dlt_q hi.2 hi.1]) <;> rfl

theorem s1_isValid_q {i : S1 F64} (hi : NNS i) : i.isValid = (QS1 i).isValid := by
  (simp only [S1.isValid, QS1_lo, QS1_hi, dle_q (nn_iabs hi.1) nn_pi, dle_q (nn_iabs hi.2) nn_pi,
    feq_q hi.1 nn_negPi, feq_q hi.2 nn_pi, feq_q hi.2 nn_negPi, feq_q hi.1 nn_pi, q_pi, q_negPi, q_abs]) <;> rfl

/-- a valid interval has finite endpoints in `[-π, π]` -/
theorem nns_of_valid {i : S1 F64} (h : i.isValid = true) : NNS i := by
  simp only [S1.isValid, Bool.and_eq_true, decide_eq_true_eq] at h
  have a := nn_of_le_left h.1.1.1
  have b := nn_of_le_left h.1.1.2
  unfold NN at a b
  rw [show IvlOps.abs i.lo = F64.abs i.lo from rfl, isNaN_abs] at a
  rw [show IvlOps.abs i.hi = F64.abs i.hi from rfl, isNaN_abs] at b
  exact ⟨a, b⟩

theorem s1_fastContains_q {i : S1 F64} {p : F64} (hi : NNS i) (hp : NN p) :
    i.fastContains p = (QS1 i).fastContains (q p) := by
  (simp only [S1.fastContains, ← s1_isInverted_q hi, ← s1_isEmpty_q hi, QS1_lo, QS1_hi, dle_q hi.1 hp, dle_q hp hi.2]) <;> rfl

theorem normPoint_q {p : F64} (hp : NN p) : NN (S1.normPoint p) ∧ q (S1.normPoint p) = S1.normPoint (q p) := by
  unfold S1.normPoint
  rw [← q_negPi, ← feq_q hp nn_negPi, ← q_pi]
  split_ifs
  · exact ⟨nn_pi, rfl⟩
  · exact ⟨hp, rfl⟩

theorem s1_contains_q {i : S1 F64} {p : F64} (hi : NNS i) (hp : NN p) : i.contains p = (QS1 i).contains (q p) := by
  obtain ⟨a, b⟩ := normPoint_q hp
  simp only [S1.contains, s1_fastContains_q hi a, b]

theorem s1_containsInterval_q {i o : S1 F64} (hi : NNS i) (ho : NNS o) :
    i.containsInterval o = (QS1 i).containsInterval (QS1 o) := by
  (simp only [S1.containsInterval, ← s1_isInverted_q hi, ← s1_isInverted_q ho, ← s1_isEmpty_q hi, ← s1_isEmpty_q ho,
    ← s1_isFull_q hi, QS1_lo, QS1_hi, dle_q hi.1 ho.1, dle_q ho.2 hi.2]) <;> rfl

theorem s1_interiorContains_q {i : S1 F64} {p : F64} (hi : NNS i) (hp : NN p) :
    i.interiorContains p = (QS1 i).interiorContains (q p) := by
  obtain ⟨a, b⟩ := normPoint_q hp
  (simp only [S1.interiorContains, ← s1_isInverted_q hi, ← s1_isFull_q hi, QS1_lo, QS1_hi, ← b, dlt_q hi.1 a,
    dlt_q a hi.2]) <;> rfl

theorem s1_interiorContainsInterval_q {i o : S1 F64} (hi : NNS i) (ho : NNS o) :
    i.interiorContainsInterval o = (QS1 i).interiorContainsInterval (QS1 o) := by
  (simp only [S1.interiorContainsInterval, ← s1_isInverted_q hi, ← s1_isInverted_q ho, ← s1_isEmpty_q ho,
    ← s1_isFull_q hi, QS1_lo, QS1_hi, dlt_q hi.1 ho.1, dlt_q ho.2 hi.2]) <;> rfl

theorem s1_intersects_q {i o : S1 F64} (hi : NNS i) (ho : NNS o) : i.intersects o = (QS1 i).intersects (QS1 o) := by
  (simp only [S1.intersects, ← s1_isInverted_q hi, ← s1_isInverted_q ho, ← s1_isEmpty_q hi, ← s1_isEmpty_q ho,
    QS1_lo, QS1_hi, dle_q ho.1 hi.2, dle_q hi.1 ho.2]) <;> rfl

theorem s1_interiorIntersects_q {i o : S1 F64} (hi : NNS i) (ho : NNS o) :
    i.interiorIntersects o = (QS1 i).interiorIntersects (QS1 o) := by
  (simp only [S1.interiorIntersects, ← s1_isInverted_q hi, ← s1_isInverted_q ho, ← s1_isEmpty_q hi,
    ← s1_isEmpty_q ho, ← s1_isFull_q hi, QS1_lo, QS1_hi, dlt_q ho.1 hi.2, dlt_q hi.1 ho.2, feq_q hi.1 hi.2]) <;> rfl

theorem s1_empty_q : QS1 (S1.empty : S1 F64) = (S1.empty : S1 V) := rfl
theorem s1_full_q : QS1 (S1.full : S1 F64) = (S1.full : S1 V) := rfl
theorem s1_empty_nn : NNS (S1.empty : S1 F64) := by decide
theorem s1_full_nn : NNS (S1.full : S1 F64) := by decide

theorem s1_unionB_q (b : Bool) {i o : S1 F64} (hi : NNS i) (ho : NNS o) :
    NNS (unionB b i o) ∧ QS1 (unionB b i o) = unionB b (QS1 i) (QS1 o) := by
  unfold unionB
  simp only [← s1_isEmpty_q hi, ← s1_isEmpty_q ho, ← s1_fastContains_q hi ho.1, ← s1_fastContains_q hi ho.2,
    ← s1_fastContains_q ho hi.1, ← s1_containsInterval_q hi ho, QS1_lo, QS1_hi]
  split_ifs
  all_goals first
    | exact ⟨hi, rfl⟩
    | exact ⟨ho, rfl⟩
    | exact ⟨s1_full_nn, rfl⟩
    | exact ⟨⟨hi.1, ho.2⟩, rfl⟩
    | exact ⟨⟨ho.1, hi.2⟩, rfl⟩

theorem s1_intersectionB_q (b : Bool) {i o : S1 F64} (hi : NNS i) (ho : NNS o) :
    NNS (intersectionB b i o) ∧ QS1 (intersectionB b i o) = intersectionB b (QS1 i) (QS1 o) := by
  unfold intersectionB
  simp only [← s1_isEmpty_q ho, ← s1_fastContains_q hi ho.1, ← s1_fastContains_q hi ho.2,
    ← s1_fastContains_q ho hi.1, QS1_lo, QS1_hi]
  split_ifs
  all_goals first
    | exact ⟨hi, rfl⟩
    | exact ⟨ho, rfl⟩
    | exact ⟨s1_empty_nn, rfl⟩
    | exact ⟨⟨hi.1, ho.2⟩, rfl⟩
    | exact ⟨⟨ho.1, hi.2⟩, rfl⟩

theorem s1_addPointB_q (b : Bool) {i : S1 F64} {p : F64} (hi : NNS i) (hp : NN p) :
    NNS (addPointB b i p) ∧ QS1 (addPointB b i p) = addPointB b (QS1 i) (q p) := by
  obtain ⟨a, e⟩ := normPoint_q hp
  unfold addPointB
  simp only [← e, ← s1_isEmpty_q hi, ← s1_fastContains_q hi a, QS1_lo, QS1_hi, ← q_abs, ← q_pi,
    ← lt_q nn_pi (nn_iabs hp)]
  split_ifs
  all_goals first
    | exact ⟨hi, rfl⟩
    | exact ⟨⟨a, a⟩, rfl⟩
    | exact ⟨⟨a, hi.2⟩, rfl⟩
    | exact ⟨⟨hi.1, a⟩, rfl⟩

theorem s1_projectB_q (b : Bool) {i : S1 F64} {p : F64} (hi : NNS i) (hp : NN p) :
    NN (projectB b i p) ∧ q (projectB b i p) = projectB b (QS1 i) (q p) := by
  obtain ⟨a, e⟩ := normPoint_q hp
  unfold projectB
  simp only [← e, ← s1_fastContains_q hi a, QS1_lo, QS1_hi]
  split_ifs
  all_goals first
    | exact ⟨a, rfl⟩
    | exact ⟨hi.1, rfl⟩
    | exact ⟨hi.2, rfl⟩

theorem s1_fromPointPairB_q (b : Bool) {a c : F64} (ha : NN a) (hc : NN c) :
    NNS (fromPointPairB b a c) ∧ QS1 (fromPointPairB b a c) = fromPointPairB b (q a) (q c) := by
  unfold fromPointPairB
  simp only [← q_negPi, ← feq_q ha nn_negPi, ← feq_q hc nn_negPi, ← q_pi]
  split_ifs
  all_goals first
    | exact ⟨⟨nn_pi, nn_pi⟩, rfl⟩
    | exact ⟨⟨nn_pi, hc⟩, rfl⟩
    | exact ⟨⟨hc, nn_pi⟩, rfl⟩
    | exact ⟨⟨ha, nn_pi⟩, rfl⟩
    | exact ⟨⟨nn_pi, ha⟩, rfl⟩
    | exact ⟨⟨ha, hc⟩, rfl⟩
    | exact ⟨⟨hc, ha⟩, rfl⟩

theorem s1_fromEndpoints_q {lo hi : F64} (hl : NN lo) (hh : NN hi) :
    NNS (S1.fromEndpoints lo hi) ∧ QS1 (S1.fromEndpoints lo hi) = S1.fromEndpoints (q lo) (q hi) := by
  unfold S1.fromEndpoints
  simp only [← q_negPi, ← q_pi, ← feq_q hl nn_negPi, ← feq_q hh nn_negPi, ← feq_q hl nn_pi, ← feq_q hh nn_pi]
  split_ifs
  all_goals first
    | exact ⟨⟨nn_pi, nn_pi⟩, rfl⟩
    | exact ⟨⟨nn_pi, hh⟩, rfl⟩
    | exact ⟨⟨hl, nn_pi⟩, rfl⟩
    | exact ⟨⟨hl, hh⟩, rfl⟩

theorem s1_complement_q {i : S1 F64} (hi : NNS i) :
    NNS i.complement ∧ QS1 i.complement = (QS1 i).complement := by
  unfold S1.complement
  simp only [QS1_lo, QS1_hi, ← feq_q hi.1 hi.2]
  split_ifs
  · exact ⟨s1_full_nn, rfl⟩
  · exact ⟨⟨hi.2, hi.1⟩, rfl⟩

/-- a float in the documented range `[-π, π]` of circle points (hence finite) -/
def VPt (p : F64) : Prop := F64.le (negPi : F64) p = true ∧ F64.le p (pi : F64) = true

instance (p : F64) : Decidable (VPt p) := by unfold VPt; infer_instance

theorem nn_of_vpt {p : F64} (h : VPt p) : NN p := nn_of_le_right h.1
theorem fin_of_vpt {p : F64} (h : VPt p) : Fin p := fin_of_between fin_negPi fin_pi h.1 h.2

theorem vpt_q {p : F64} (h : VPt p) : ValidPt (q p) :=
  ⟨(le_q nn_negPi (nn_of_vpt h)).1 h.1, (le_q (nn_of_vpt h) nn_pi).1 h.2⟩

theorem vpt_iff_q {p : F64} (hp : NN p) : VPt p ↔ ValidPt (q p) :=
  ⟨vpt_q, fun h => ⟨(le_q nn_negPi hp).2 h.1, (le_q hp nn_pi).2 h.2⟩⟩

theorem vpt_val {v : V} (h : ValidPt v) : VPt v.1 := by
  rw [vpt_iff_q (nn_val v), q_val]; exact h

/-- validity transports -/
theorem s1_valid_q {i : S1 F64} (h : i.isValid = true) : NNS i ∧ (QS1 i).isValid = true := by
  have hn := nns_of_valid h
  exact ⟨hn, by rw [← s1_isValid_q hn]; exact h⟩

theorem nn_of_s1_contains {i : S1 F64} {p : F64} (h : i.contains p = true) : NN p := by
  by_contra hc
  have hc' : p.isNaN = true := by unfold NN at hc; simpa using hc
  have e : S1.normPoint p = p := by
    unfold S1.normPoint
    have : feq p (negPi : F64) = false := by
      show F64.feq p _ = false
      unfold F64.feq; rw [cmp_nan_left hc']; rfl
    rw [this]; rfl
  have l1 : ∀ x : F64, decide (x ≤ p) = false := by
    intro x; show decide (F64.le x p = true) = false
    unfold F64.le; rw [cmp_nan_right hc']; rfl
  have l2 : ∀ x : F64, decide (p ≤ x) = false := by
    intro x; show decide (F64.le p x = true) = false
    unfold F64.le; rw [cmp_nan_left hc']; rfl
  unfold S1.contains S1.fastContains at h
  rw [e] at h
  simp only [l1, l2] at h
  split at h <;> simp at h

/-! ### `Length` and `Expanded` (arithmetic) -/

/-- both endpoints finite -/
def FinS (i : S1 F64) : Prop := Fin i.lo ∧ Fin i.hi
instance (i : S1 F64) : Decidable (FinS i) := by unfold FinS; infer_instance

/-- both endpoints in `[-π, π]` -/
def VS (i : S1 F64) : Prop := VPt i.lo ∧ VPt i.hi
instance (i : S1 F64) : Decidable (VS i) := by unfold VS; infer_instance

theorem vpt_of_abs_le {x : F64} (h : F64.le (F64.abs x) (pi : F64) = true) : VPt x := by
  have na := nn_of_le_left h
  have nx : NN x := by unfold NN at na ⊢; rwa [isNaN_abs] at na
  rw [le_iff_key na nn_pi, key_abs nx, abs_le] at h
  have e : key (negPi : F64) = - key (pi : F64) := by decide +kernel
  exact ⟨(le_iff_key nn_negPi nx).2 (by rw [e]; exact h.1), (le_iff_key nx nn_pi).2 h.2⟩

theorem abs_le_of_vpt {x : F64} (h : VPt x) : F64.le (F64.abs x) (pi : F64) = true := by
  have nx := nn_of_vpt h
  have e : key (negPi : F64) = - key (pi : F64) := by decide +kernel
  rw [le_iff_key (nn_abs nx) nn_pi, key_abs nx, abs_le]
  exact ⟨by rw [← e]; exact (le_iff_key nn_negPi nx).1 h.1, (le_iff_key nx nn_pi).1 h.2⟩

theorem vs_of_valid {i : S1 F64} (h : i.isValid = true) : VS i := by
  simp only [S1.isValid, Bool.and_eq_true, decide_eq_true_eq] at h
  exact ⟨vpt_of_abs_le h.1.1.1, vpt_of_abs_le h.1.1.2⟩

theorem fins_of_vs {i : S1 F64} (h : VS i) : FinS i := ⟨fin_of_vpt h.1, fin_of_vpt h.2⟩
theorem nns_of_fins {i : S1 F64} (h : FinS i) : NNS i := ⟨nn_of_fin h.1, nn_of_fin h.2⟩

theorem nn_zero : NN (zero : F64) := by decide
theorem fin_twoPi : Fin (twoPi : F64) := by decide

theorem s1_length_q {i : S1 F64} (hi : FinS i) : NN i.length ∧ q i.length = (QS1 i).length := by
  have n1 : NN (sub i.hi i.lo) := nn_sub_of_fin hi.2 hi.1
  have n2 : NN (add (sub i.hi i.lo) (twoPi : F64)) := nn_add_fin_right n1 fin_twoPi
  have e1 : q (sub i.hi i.lo) = sub (q i.hi) (q i.lo) := q_sub _ (nn_of_fin hi.1)
  have e2 : q (add (sub i.hi i.lo) (twoPi : F64)) = add (q (sub i.hi i.lo)) (twoPi : V) := by
    rw [q_add, q_twoPi]
  unfold S1.length
  simp only [QS1_lo, QS1_hi, ← e1, ← e2, ← q_zero, ← le_q nn_zero n1, ← lt_q nn_zero n2,
    ← s1_isEmpty_q (nns_of_fins hi)]
  split_ifs
  · exact ⟨n1, rfl⟩
  · exact ⟨n2, rfl⟩
  · exact ⟨by decide, rfl⟩
  · exact ⟨nn_zero, rfl⟩

/-- the margin of `s1.Expanded` / the lat-lng `expanded`: a finite float with `|m| < 2^1023`
    (so that `lo - m`, `hi + m` cannot overflow; beyond that `Remainder(±∞, 2π)` would be a NaN) -/
def MarginOK (m : F64) : Prop := m.expField < 2046

instance (m : F64) : Decidable (MarginOK m) := by unfold MarginOK; infer_instance

theorem fin_of_marginOK {m : F64} (h : MarginOK m) : Fin m := by
  unfold MarginOK at h; unfold F64Order.Fin; omega

/-- the two sums of `Expanded` do not overflow: endpoints in `[-π, π]`, `|margin| < 2^1023` -/
theorem expand_sums_fin (H : F64ArithFacts) {i : S1 F64} {m : F64} (hi : VS i) (hm : Fin m)
    (hb : m.expField < 2046) : Fin (sub i.lo m) ∧ Fin (add i.hi m) := by
  constructor
  · show Fin (F64.add i.lo (F64.neg m))
    exact H.add_fin _ _ (fin_of_vpt hi.1) ((F64Sym.isFinite_neg m).2 hm) (abs_le_of_vpt hi.1)
      (by rw [F64Sym.expField_neg]; exact hb)
  · exact H.add_fin _ _ (fin_of_vpt hi.2) hm (abs_le_of_vpt hi.2) hb

theorem vpt_rem (H : F64ArithFacts) {x : F64} (h : Fin x) : VPt (rem2pi x) := H.rem_range x h

theorem s1_expandedRaw_q (H : F64ArithFacts) {i : S1 F64} {m : F64} (hi : VS i) (hm : Fin m)
    (hb : m.expField < 2046) :
    NNS (i.expandedRaw m) ∧ QS1 (i.expandedRaw m) = (QS1 i).expandedRaw (q m) := by
  obtain ⟨f1, f2⟩ := expand_sums_fin H hi hm hb
  have a := nn_of_vpt (vpt_rem H f1)
  have b := nn_of_vpt (vpt_rem H f2)
  obtain ⟨hn, hq⟩ := s1_fromEndpoints_q a b
  have e1 : q (rem2pi (sub i.lo m)) = rem2pi (sub (q i.lo) (q m)) := by
    rw [q_rem f1, q_sub _ (nn_of_fin hm)]
  have e2 : q (rem2pi (add i.hi m)) = rem2pi (add (q i.hi) (q m)) := by
    rw [q_rem f2, q_add]
  unfold S1.expandedRaw
  simp only [QS1_lo, QS1_hi, ← e1, ← e2, ← hq, ← q_negPi, ← le_q hn.1 nn_negPi, ← q_pi]
  split_ifs
  · exact ⟨⟨nn_pi, hn.2⟩, rfl⟩
  · exact ⟨hn, rfl⟩

/-! ### margins with `|m| ≥ 2^1023`: the guards of `Expanded` fire before the remainder is taken -/

theorem expField_le_of_vpt {x : F64} (h : VPt x) : x.expField ≤ 1024 := by
  have fx := fin_of_vpt h
  have nx := nn_of_vpt h
  have a := abs_le_of_vpt h
  rw [le_iff_key (nn_abs nx) nn_pi, key_abs nx] at a
  have hp : 0 ≤ key (pi : F64) := by decide +kernel
  have : |key x| ≤ |key (pi : F64)| := by rw [abs_of_nonneg hp]; exact a
  exact expField_le_of_abs_key_le fx fin_pi (by decide) this

/-- the computed `Length` of an interval with endpoints in `[-π, π]` is finite -/
theorem fin_length (H : F64ArithFacts) {i : S1 F64} (hi : VS i) : Fin i.length := by
  have flo := fin_of_vpt hi.1
  have fhi := fin_of_vpt hi.2
  have hB := BIG_pos
  have fl : Fin (sub i.hi i.lo) := by
    show Fin (F64.add i.hi (F64.neg i.lo))
    apply H.add_fin _ _ fhi ((F64Sym.isFinite_neg _).2 flo) (abs_le_of_vpt hi.2)
    rw [F64Sym.expField_neg]
    have := expField_le_of_vpt hi.1; omega
  unfold S1.length
  dsimp only
  split_ifs with c1 c2 c3
  · exact fl
  · -- l < 0 : l ⊕ 2π lies between l and 2π
    have nl := nn_of_fin fl
    have n2 : NN (F64.add (sub i.hi i.lo) (twoPi : F64)) := nn_add_fin_right nl fin_twoPi
    have k0 : (0 : Int) ≤ key (twoPi : F64) := by decide +kernel
    have a1 := key_le_add H nl (nn_of_fin fin_twoPi) k0
    rw [key_canon n2] at a1
    have hneg : key (sub i.hi i.lo) ≤ 0 := by
      have : ¬ F64.le (zero : F64) (sub i.hi i.lo) = true := c1
      rw [le_iff_key nn_zero nl] at this
      have z : key (zero : F64) = 0 := key_zero_false
      omega
    have a2 := key_add_le H (nn_of_fin fin_twoPi) nl hneg
    rw [← F64Sym.add_comm fl fin_twoPi, key_canon n2] at a2
    have b1 := key_bounds_fin fl
    have b2 := key_bounds_fin fin_twoPi
    show Fin (F64.add (sub i.hi i.lo) (twoPi : F64))
    exact fin_of_key_bounds n2 (by omega) (by omega)
  · decide
  · decide

theorem not_marginOK {m : F64} (hm : Fin m) (h : ¬ MarginOK m) : m.expField = 2046 := by
  have : m.expField < 2048 := by rw [F64Sym.expField_eq]; exact Nat.mod_lt _ (by decide)
  unfold MarginOK at h; unfold F64Order.Fin at hm; omega

theorem key_ne_zero_of_big {m : F64} (hm : Fin m) (h : m.expField = 2046) : key m ≠ 0 := by
  intro hc
  have a := mag_ge_of_expField (x := m) (by omega)
  have b := natAbs_key_fin hm
  rw [hc] at b
  have : 0 < 2 ^ 52 * 2 ^ (m.expField - 1) := Nat.mul_pos (Nat.two_pow_pos _) (Nat.two_pow_pos _)
  simp at b
  omega

/-- margin ≥ 0 with `|m| ≥ 2^1023`: the first guard `length + 2·margin + 2ε ≥ 2π` is true -/
theorem guard_pos_big (H : F64ArithFacts) (Hd : DblBig) {i : S1 F64} (hi : VS i) {m : F64} (hm : Fin m)
    (hb : ¬ MarginOK m) (h0 : (zero : F64) ≤ m) : (twoPi : F64) ≤ add (add i.length (dbl m)) (twoEps : F64) := by
  have he := not_marginOK hm hb
  have hs : m.signBit = false := by
    by_contra hc
    have := (key_sign (nn_of_fin hm)).1 (by simpa using hc)
    have k0 : 0 ≤ key m := by
      have : F64.le (zero : F64) m = true := h0
      rw [le_iff_key nn_zero (nn_of_fin hm), show key (zero : F64) = 0 from key_zero_false] at this
      exact this
    exact key_ne_zero_of_big hm he (by omega)
  have hd : dbl m = F64.inf false := by
    show F64.mul F64.two m = _
    rw [Hd m hm he, hs]
  have fl := fin_length H hi
  rw [hd]
  have e1 : add i.length (F64.inf false) = F64.inf false := add_inf_right fl (by decide) (by decide)
  rw [e1]
  have e2 : add (F64.inf false) (twoEps : F64) = F64.inf false := by
    show F64.add _ _ = _
    rw [add_inf_left (by decide) (by decide) (by decide)]
    decide
  rw [e2]
  decide +kernel

/-- margin < 0 with `|m| ≥ 2^1023`: the second guard `length + 2·margin − 2ε ≤ 0` is true -/
theorem guard_neg_big (H : F64ArithFacts) (Hd : DblBig) {i : S1 F64} (hi : VS i) {m : F64} (hm : Fin m)
    (hb : ¬ MarginOK m) (h0 : ¬ (zero : F64) ≤ m) : sub (add i.length (dbl m)) (twoEps : F64) ≤ (zero : F64) := by
  have he := not_marginOK hm hb
  have hs : m.signBit = true := by
    by_contra hc
    have := (key_sign (nn_of_fin hm)).2 (by simpa using hc)
    apply h0
    show F64.le (zero : F64) m = true
    rw [le_iff_key nn_zero (nn_of_fin hm), show key (zero : F64) = 0 from key_zero_false]
    exact this
  have hd : dbl m = F64.inf true := by
    show F64.mul F64.two m = _
    rw [Hd m hm he, hs]
  have fl := fin_length H hi
  rw [hd]
  have e1 : add i.length (F64.inf true) = F64.inf true := add_inf_right fl (by decide) (by decide)
  rw [e1]
  have e2 : sub (F64.inf true) (twoEps : F64) = F64.inf true := by
    show F64.sub _ _ = _
    unfold F64.sub
    rw [add_inf_left (by decide) (by decide) (by decide)]
    decide
  rw [e2]
  decide +kernel

/-! ## s2.Rect (lat-lng) — B-variants and their generic theorems (proofs as in `Properties/C19.lean`) -/

section LLB
variable {α : Type} [LE α] [LT α] [DecidableLE α] [DecidableLT α] [Max α] [Min α] [IvlOps α]

def llUnionB (b : Bool) (r o : LLRect α) : LLRect α := ⟨r.lat.union o.lat, unionB b r.lng o.lng⟩

def llIntersectionB (b : Bool) (r o : LLRect α) : LLRect α :=
  let lat := r.lat.intersection o.lat
  let lng := intersectionB b r.lng o.lng
  if lat.isEmpty || lng.isEmpty then LLRect.empty else ⟨lat, lng⟩

def llAddPointB (b : Bool) (r : LLRect α) (ll : LatLng α) : LLRect α :=
  if !ll.isValid then r else ⟨r.lat.addPoint ll.lat, addPointB b r.lng ll.lng⟩

/-- the tail of the unexported `expanded`, given the two expanded intervals -/
def llExpandedWith (lat : R1 α) (lng : S1 α) : LLRect α :=
  if lat.isEmpty || lng.isEmpty then LLRect.empty else ⟨lat.intersection LLRect.validLat, lng⟩

theorem ll_union_eq_B (r o : LLRect α) :
    r.union o = llUnionB (decide (S1.positiveDistance o.lng.hi r.lng.lo < S1.positiveDistance r.lng.hi o.lng.lo)) r o := by
  unfold LLRect.union llUnionB; rw [union_eq_B]

theorem ll_intersection_eq_B (r o : LLRect α) :
    r.intersection o = llIntersectionB (decide (o.lng.length < r.lng.length)) r o := by
  unfold LLRect.intersection llIntersectionB; rw [intersection_eq_B]

theorem ll_addPoint_eq_B (r : LLRect α) (ll : LatLng α) :
    r.addPoint ll = llAddPointB (decide (S1.positiveDistance (S1.normPoint ll.lng) r.lng.lo <
      S1.positiveDistance r.lng.hi (S1.normPoint ll.lng))) r ll := by
  unfold LLRect.addPoint llAddPointB; rw [addPoint_eq_B]

theorem ll_expanded_eq_with (r : LLRect α) (m : LatLng α) :
    r.expanded m = llExpandedWith (r.lat.expanded m.lat) (r.lng.expanded m.lng) := rfl

end LLB

section LLBTheorems
variable {α : Type} [LinearOrder α] [IvlOps α] [IvlLaws α]
open S2Proofs.C19

theorem ll_unionB_contains (b : Bool) (r o : LLRect α) (hr : r.isValid = true) (ho : o.isValid = true)
    (ll : LatLng α) (h : r.containsLatLng ll = true ∨ o.containsLatLng ll = true) :
    (llUnionB b r o).containsLatLng ll = true := by
  simp only [ll_mem_iff, ll_valid_iff] at *
  unfold llUnionB
  have hv : ValidPt ll.lng := by grind
  exact ⟨by grind, by grind, hv, r1_union_contains _ _ _ (by grind),
    s1_unionB_contains b _ _ hr.2.2.2.2.1 ho.2.2.2.2.1 _ hv (by grind)⟩

theorem ll_unionB_valid (b : Bool) (r o : LLRect α) (hr : r.isValid = true) (ho : o.isValid = true) :
    (llUnionB b r o).isValid = true := by
  simp only [ll_valid_iff] at *
  have e1 := s1_unionB_valid b _ _ hr.2.2.2.2.1 ho.2.2.2.2.1
  have e2 := s1_unionB_isEmpty_iff b _ _ hr.2.2.2.2.1 ho.2.2.2.2.1
  unfold llUnionB
  simp only [e1, e2, true_and]
  obtain ⟨a1, a2, a3, a4, -, a6⟩ := hr
  obtain ⟨b1, b2, b3, b4, -, b6⟩ := ho
  rw [← a6, ← b6]
  unfold R1.union
  split_ifs <;> simp only [r1_isEmpty_iff] at * <;> grind

theorem ll_intersectionB_contains_common (b : Bool) (r o : LLRect α) (hr : r.isValid = true)
    (ho : o.isValid = true) (ll : LatLng α) (h1 : r.containsLatLng ll = true) (h2 : o.containsLatLng ll = true) :
    (llIntersectionB b r o).containsLatLng ll = true := by
  simp only [ll_mem_iff, ll_valid_iff] at *
  have e1 := (r1_intersection_iff r.lat o.lat ll.lat).2 ⟨h1.2.2.2.1, h2.2.2.2.1⟩
  have e2 := s1_intersectionB_contains_common b _ _ hr.2.2.2.2.1 ho.2.2.2.2.1 _ h1.2.2.1 h1.2.2.2.2 h2.2.2.2.2
  have n1 : (r.lat.intersection o.lat).isEmpty = false := by
    rw [← Bool.not_eq_true, r1_isEmpty_iff_no_points]; intro hc; have := hc ll.lat; simp [e1] at this
  have n2 : (intersectionB b r.lng o.lng).isEmpty = false := by
    rw [← Bool.not_eq_true,
      s1_isEmpty_iff_no_points _ (s1_intersectionB_valid b _ _ hr.2.2.2.2.1 ho.2.2.2.2.1)]
    intro hc; have := hc ll.lng h1.2.2.1; simp [e2] at this
  unfold llIntersectionB
  simp only [n1, n2, Bool.or_self, Bool.false_eq_true, if_false]
  exact ⟨h1.1, h1.2.1, h1.2.2.1, e1, e2⟩

theorem ll_intersectionB_no_stranger (b : Bool) (r o : LLRect α) (hr : r.isValid = true) (ho : o.isValid = true)
    (ll : LatLng α) (h : (llIntersectionB b r o).containsLatLng ll = true) :
    r.containsLatLng ll = true ∨ o.containsLatLng ll = true := by
  have e0 := ll_empty_full (α := α) ll
  unfold llIntersectionB at h
  dsimp only at h
  simp only [ll_mem_iff, ll_valid_iff] at *
  split_ifs at h
  · have hv : ll.isValid = true := (latlng_valid_iff ll).2 ⟨h.1, h.2.1, h.2.2.1⟩
    have := (e0 hv).2.2.1
    simp only [← Bool.not_eq_true, ll_mem_iff] at this
    exact absurd h this
  · have e1 := (r1_intersection_iff r.lat o.lat ll.lat).1 h.2.2.2.1
    have e2 := s1_intersectionB_no_stranger b _ _ hr.2.2.2.2.1 ho.2.2.2.2.1 _ h.2.2.1 h.2.2.2.2
    grind

theorem ll_intersectionB_valid (b : Bool) (r o : LLRect α) (hr : r.isValid = true) (ho : o.isValid = true) :
    (llIntersectionB b r o).isValid = true := by
  have e0 := ll_empty_valid (α := α)
  unfold llIntersectionB
  dsimp only
  split_ifs with hc
  · exact e0
  · simp only [ll_valid_iff] at *
    have e1 := s1_intersectionB_valid b _ _ hr.2.2.2.2.1 ho.2.2.2.2.1
    simp only [Bool.or_eq_true, not_or, Bool.not_eq_true] at hc
    simp only [hc.1, hc.2, e1, true_and, Bool.false_eq_true]
    unfold R1.intersection
    grind

theorem ll_addPointB_contains (b : Bool) (r : LLRect α) (hr : r.isValid = true) (p q : LatLng α)
    (hp : p.isValid = true) :
    (llAddPointB b r p).isValid = true ∧ (llAddPointB b r p).containsLatLng p = true ∧
    (r.containsLatLng q = true → (llAddPointB b r p).containsLatLng q = true) := by
  have hp' := (latlng_valid_iff p).1 hp
  unfold llAddPointB
  simp only [hp, Bool.not_true, Bool.false_eq_true, if_false]
  simp only [ll_mem_iff, ll_valid_iff] at *
  have a := r1_addPoint_contains r.lat p.lat
  have b' := fun q hq => s1_addPointB_contains b r.lng hr.2.2.2.2.1 p.lng q hp'.2.2 hq
  have b0 := b' p.lng hp'.2.2
  have ne1 : ¬ (r.lat.addPoint p.lat).isEmpty = true := by
    rw [r1_isEmpty_iff_no_points]; intro hc; have := hc p.lat; simp [(a p.lat).1] at this
  have ne2 : ¬ (addPointB b r.lng p.lng).isEmpty = true := by
    rw [s1_isEmpty_iff_no_points _ b0.1]; intro hc; have := hc p.lng hp'.2.2; simp [b0.2.1] at this
  refine ⟨⟨?_, ?_, ?_, ?_, b0.1, by simp [ne1, ne2]⟩, ⟨hp'.1, hp'.2.1, hp'.2.2, (a p.lat).1, b0.2.1⟩, ?_⟩
  · unfold R1.addPoint; split_ifs <;> grind
  · unfold R1.addPoint; split_ifs <;> grind
  · unfold R1.addPoint; split_ifs <;> grind
  · unfold R1.addPoint; split_ifs <;> grind
  · intro hq
    exact ⟨hq.1, hq.2.1, hq.2.2.1, (a q.lat).2 hq.2.2.2.1, (b' q.lng hq.2.2.1).2.2 hq.2.2.2.2⟩

/-- the tail of `expanded` is valid whenever the expanded longitude interval is -/
theorem ll_expandedWith_valid [IvlArithLaws α] (r : LLRect α) (hr : r.isValid = true) (mlat : α) (lng' : S1 α)
    (e1 : lng'.isValid = true) : (llExpandedWith (r.lat.expanded mlat) lng').isValid = true := by
  have h1 := IvlLaws.negPi_lt_pi (α := α)
  have h2 := IvlLaws.negHalfPi_lt_halfPi (α := α)
  have h4 := IvlLaws.zero_one_lat (α := α)
  have e0 := ll_empty_valid (α := α)
  unfold llExpandedWith
  split_ifs with hc
  · exact e0
  · simp only [ll_valid_iff] at *
    simp only [Bool.or_eq_true, not_or, Bool.not_eq_true] at hc
    simp only [hc.2, e1, true_and, Bool.false_eq_true, iff_false]
    have hc1 := hc.1
    rcases le_total (zero : α) mlat with hm | hm
    · have a1 := IvlArithLaws.le_add_nonneg r.lat.hi mlat hm
      have a2 := IvlArithLaws.sub_nonneg_le r.lat.lo mlat hm
      unfold R1.expanded at hc1 ⊢
      unfold R1.intersection LLRect.validLat
      split_ifs at hc1 ⊢ <;> simp only [← Bool.not_eq_true, r1_isEmpty_iff] at * <;> grind
    · have a1 := IvlArithLaws.add_nonpos_le r.lat.hi mlat hm
      have a2 := IvlArithLaws.le_sub_nonpos r.lat.lo mlat hm
      unfold R1.expanded at hc1 ⊢
      unfold R1.intersection LLRect.validLat
      split_ifs at hc1 ⊢ <;> simp only [← Bool.not_eq_true, r1_isEmpty_iff] at * <;> grind

/-- … and keeps every point, given that the expanded longitude interval is valid and keeps the longitude -/
theorem ll_expandedWith_contains [IvlArithLaws α] (r : LLRect α) (hr : r.isValid = true) (mlat : α) (ll : LatLng α)
    (hm : (zero : α) ≤ mlat) (lng' : S1 α) (hv : lng'.isValid = true)
    (h : r.containsLatLng ll = true) (e2 : lng'.contains ll.lng = true) :
    (llExpandedWith (r.lat.expanded mlat) lng').containsLatLng ll = true := by
  have h1 := IvlLaws.negPi_lt_pi (α := α)
  simp only [ll_mem_iff, ll_valid_iff] at h hr
  have e1 := r1_expanded_contains r.lat mlat ll.lat hm h.2.2.2.1
  have n1 : (r.lat.expanded mlat).isEmpty = false := by
    rw [← Bool.not_eq_true, r1_isEmpty_iff_no_points]; intro hc; have := hc ll.lat; simp [e1] at this
  have n2 : lng'.isEmpty = false := by
    rw [← Bool.not_eq_true, s1_isEmpty_iff_no_points _ hv]
    intro hc; have := hc ll.lng h.2.2.1; simp [e2] at this
  unfold llExpandedWith
  simp only [n1, n2, Bool.or_self, Bool.false_eq_true, if_false, ll_mem_iff]
  refine ⟨h.1, h.2.1, h.2.2.1, ?_, e2⟩
  rw [r1_intersection_iff]
  refine ⟨e1, ?_⟩
  rw [r1_contains_iff]; exact ⟨h.1, h.2.1⟩

end LLBTheorems

/-! ## s2.Rect (lat-lng) — commutation with `q` -/

def NNLL (p : LatLng F64) : Prop := NN p.lat ∧ NN p.lng
def NNL (r : LLRect F64) : Prop := NN1 r.lat ∧ NNS r.lng
instance (p : LatLng F64) : Decidable (NNLL p) := by unfold NNLL; infer_instance
instance (r : LLRect F64) : Decidable (NNL r) := by unfold NNL; infer_instance

@[simp] theorem QLR_lat (r : LLRect F64) : (QLR r).lat = QR1 r.lat := rfl
@[simp] theorem QLR_lng (r : LLRect F64) : (QLR r).lng = QS1 r.lng := rfl
@[simp] theorem QLL_lat (p : LatLng F64) : (QLL p).lat = q p.lat := rfl
@[simp] theorem QLL_lng (p : LatLng F64) : (QLL p).lng = q p.lng := rfl

theorem nn_halfPi : NN (halfPi : F64) := by decide
theorem nn_negHalfPi : NN (negHalfPi : F64) := by decide

theorem nn_of_abs_le {x c : F64} (h : IvlOps.abs x ≤ c) : NN x := by
  have na := nn_of_le_left h
  unfold NN at na ⊢
  rwa [show IvlOps.abs x = F64.abs x from rfl, isNaN_abs] at na

theorem latlng_isValid_q {p : LatLng F64} (hp : NNLL p) : p.isValid = (QLL p).isValid := by
  (simp only [LatLng.isValid, QLL_lat, QLL_lng, dle_q (nn_iabs hp.1) nn_halfPi, dle_q (nn_iabs hp.2) nn_pi, q_abs,
    q_pi, q_halfPi]) <;> rfl

theorem nnll_of_valid {p : LatLng F64} (h : p.isValid = true) : NNLL p := by
  simp only [LatLng.isValid, Bool.and_eq_true, decide_eq_true_eq] at h
  exact ⟨nn_of_abs_le h.1, nn_of_abs_le h.2⟩

theorem nnl_of_valid {r : LLRect F64} (h : r.isValid = true) : NNL r := by
  simp only [LLRect.isValid, Bool.and_eq_true, decide_eq_true_eq] at h
  exact ⟨⟨nn_of_abs_le h.1.1.1, nn_of_abs_le h.1.1.2⟩, nns_of_valid h.1.2⟩

theorem ll_isValid_q {r : LLRect F64} (hr : NNL r) : r.isValid = (QLR r).isValid := by
  (simp only [LLRect.isValid, QLR_lat, QLR_lng, QR1_lo, QR1_hi, dle_q (nn_iabs hr.1.1) nn_halfPi,
    dle_q (nn_iabs hr.1.2) nn_halfPi, q_abs, q_halfPi, s1_isValid_q hr.2, r1_isEmpty_q hr.1, s1_isEmpty_q hr.2]) <;> rfl

theorem ll_valid_q {r : LLRect F64} (h : r.isValid = true) : NNL r ∧ (QLR r).isValid = true := by
  have hn := nnl_of_valid h
  exact ⟨hn, by rw [← ll_isValid_q hn]; exact h⟩

theorem ll_isEmpty_q {r : LLRect F64} (hr : NNL r) : r.isEmpty = (QLR r).isEmpty := by
  simp only [LLRect.isEmpty, QLR_lat, r1_isEmpty_q hr.1]

theorem ll_contains_q {r o : LLRect F64} (hr : NNL r) (ho : NNL o) : r.contains o = (QLR r).contains (QLR o) := by
  simp only [LLRect.contains, QLR_lat, QLR_lng, r1_containsInterval_q hr.1 ho.1, s1_containsInterval_q hr.2 ho.2]

theorem ll_intersects_q {r o : LLRect F64} (hr : NNL r) (ho : NNL o) :
    r.intersects o = (QLR r).intersects (QLR o) := by
  simp only [LLRect.intersects, QLR_lat, QLR_lng, r1_intersects_q hr.1 ho.1, s1_intersects_q hr.2 ho.2]

theorem ll_containsLatLng_q {r : LLRect F64} {p : LatLng F64} (hr : NNL r) (hp : NNLL p) :
    r.containsLatLng p = (QLR r).containsLatLng (QLL p) := by
  simp only [LLRect.containsLatLng, latlng_isValid_q hp, QLR_lat, QLR_lng, QLL_lat, QLL_lng,
    r1_contains_q hr.1 hp.1, s1_contains_q hr.2 hp.2]

theorem nnll_of_containsLatLng {r : LLRect F64} {p : LatLng F64} (h : r.containsLatLng p = true) : NNLL p := by
  unfold LLRect.containsLatLng at h
  by_cases hv : p.isValid = true
  · exact nnll_of_valid hv
  · simp [hv] at h

theorem ll_containsLatLng_nan {r : LLRect F64} {p : LatLng F64} (h : ¬ NNLL p) : r.containsLatLng p = false := by
  by_contra hc
  exact h (nnll_of_containsLatLng (by simpa using hc))

theorem QLL_val (v : LatLng V) : QLL ⟨v.lat.1, v.lng.1⟩ = v := by
  cases v; simp only [QLL, q_val]

theorem ll_empty_q : QLR (LLRect.empty : LLRect F64) = (LLRect.empty : LLRect V) := rfl
theorem ll_full_q : QLR (LLRect.full : LLRect F64) = (LLRect.full : LLRect V) := rfl
theorem ll_empty_nn : NNL (LLRect.empty : LLRect F64) := by decide
theorem ll_full_nn : NNL (LLRect.full : LLRect F64) := by decide

theorem ll_unionB_q (b : Bool) {r o : LLRect F64} (hr : NNL r) (ho : NNL o) :
    NNL (llUnionB b r o) ∧ QLR (llUnionB b r o) = llUnionB b (QLR r) (QLR o) := by
  obtain ⟨a1, a2⟩ := r1_union_q hr.1 ho.1
  obtain ⟨b1, b2⟩ := s1_unionB_q b hr.2 ho.2
  refine ⟨⟨a1, b1⟩, ?_⟩
  simp only [llUnionB, QLR, a2, b2]

theorem ll_intersectionB_q (b : Bool) {r o : LLRect F64} (hr : NNL r) (ho : NNL o) :
    NNL (llIntersectionB b r o) ∧ QLR (llIntersectionB b r o) = llIntersectionB b (QLR r) (QLR o) := by
  obtain ⟨a1, a2⟩ := r1_intersection_q hr.1 ho.1
  obtain ⟨b1, b2⟩ := s1_intersectionB_q b hr.2 ho.2
  unfold llIntersectionB
  simp only [QLR_lat, QLR_lng, ← a2, ← b2, ← r1_isEmpty_q a1, ← s1_isEmpty_q b1]
  split_ifs
  · exact ⟨ll_empty_nn, ll_empty_q⟩
  · exact ⟨⟨a1, b1⟩, rfl⟩

theorem ll_addPointB_q (b : Bool) {r : LLRect F64} {p : LatLng F64} (hr : NNL r) (hp : NNLL p) :
    NNL (llAddPointB b r p) ∧ QLR (llAddPointB b r p) = llAddPointB b (QLR r) (QLL p) := by
  obtain ⟨a1, a2⟩ := r1_addPoint_q hr.1 hp.1
  obtain ⟨b1, b2⟩ := s1_addPointB_q b hr.2 hp.2
  unfold llAddPointB
  simp only [QLR_lat, QLR_lng, QLL_lat, QLL_lng, ← a2, ← b2, ← latlng_isValid_q hp]
  split_ifs
  · exact ⟨hr, rfl⟩
  · exact ⟨⟨a1, b1⟩, rfl⟩

theorem ll_polarClosure_q {r : LLRect F64} (hr : NNL r) :
    NNL r.polarClosure ∧ QLR r.polarClosure = (QLR r).polarClosure := by
  unfold LLRect.polarClosure
  simp only [QLR_lat, QLR_lng, QR1_lo, QR1_hi, ← q_negHalfPi, ← q_halfPi, ← feq_q hr.1.1 nn_negHalfPi,
    ← feq_q hr.1.2 nn_halfPi]
  split_ifs
  · exact ⟨⟨hr.1, s1_full_nn⟩, rfl⟩
  · exact ⟨hr, rfl⟩

theorem fin_of_abs_le {x c : F64} (hc : Fin c) (h : IvlOps.abs x ≤ c) : Fin x := by
  have nx := nn_of_abs_le h
  have h' : F64.le (F64.abs x) c = true := h
  rw [le_iff_key (nn_abs nx) (nn_of_fin hc), key_abs nx] at h'
  have bc := key_bounds_fin hc
  have hB := BIG_pos
  apply fin_of_nn nx
  by_contra hi
  have hi' : x.isInf = true := by simpa using hi
  have : |key x| = BIG := by
    unfold key; rw [hi']; simp only [if_true]
    split
    · rw [abs_neg, abs_of_pos hB]
    · exact abs_of_pos hB
  omega

theorem fin1_lat_of_valid {r : LLRect F64} (h : r.isValid = true) : Fin1 r.lat := by
  simp only [LLRect.isValid, Bool.and_eq_true, decide_eq_true_eq] at h
  exact ⟨fin_of_abs_le (by decide) h.1.1.1, fin_of_abs_le (by decide) h.1.1.2⟩

theorem validLat_q : QR1 (LLRect.validLat : R1 F64) = (LLRect.validLat : R1 V) := rfl
theorem validLat_nn : NN1 (LLRect.validLat : R1 F64) := by decide

theorem ll_expandedWith_q {lat : R1 F64} {lng : S1 F64} (h1 : NN1 lat) (h2 : NNS lng) :
    NNL (llExpandedWith lat lng) ∧ QLR (llExpandedWith lat lng) = llExpandedWith (QR1 lat) (QS1 lng) := by
  obtain ⟨a1, a2⟩ := r1_intersection_q h1 validLat_nn
  unfold llExpandedWith
  simp only [← r1_isEmpty_q h1, ← s1_isEmpty_q h2, ← validLat_q, ← a2]
  split_ifs
  · exact ⟨ll_empty_nn, ll_empty_q⟩
  · exact ⟨⟨a1, h2⟩, rfl⟩

end S2Proofs.F64Transfer
