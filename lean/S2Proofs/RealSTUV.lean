/-
  S2Proofs.RealSTUV — exact real-arithmetic mirror of the float code of
  `s2/stuv.go` (`stToUV`, `uvToST`, `face`, `validFaceXYZToUV`, `faceUVToXYZ`)
  and `s2/cellid.go` (`stToIJ`), i.e. of the soft-float model `S2.STUV`
  (`lean/S2/STUV.lean`), with every `F64` operation replaced by the exact
  operation on ℝ.

  SCOPE.  Everything here is about the IDEAL (exact real) functions.  The
  rounding error of the binary64 evaluation (the margin by which the float
  `cellIDFromPoint` may put a point that is within a few ulps of a cell boundary
  into the neighbouring cell) is explicitly NOT proved here and not claimed.

  This file is proof-only: it must not be imported by model / oracle files.
-/
import Mathlib.Analysis.Real.Sqrt
import Mathlib.Algebra.Order.Archimedean.Real.Basic
import Mathlib.Algebra.Order.Floor.Ring
import Mathlib.Tactic.Linarith
import Mathlib.Tactic.Positivity
import Mathlib.Tactic.NormNum
import Mathlib.Tactic.Ring

namespace S2Proofs

/-! ## Definitions (mirror of `S2.STUV`, over ℝ) -/

/-- Go `stToUV` (quadratic projection), exact. -/
noncomputable def stToUVR (s : ℝ) : ℝ :=
  if s ≥ 1/2 then (1/3) * (4*s*s - 1) else (1/3) * (1 - 4*(1-s)*(1-s))

/-- Go `uvToST`, exact. -/
noncomputable def uvToSTR (u : ℝ) : ℝ :=
  if u ≥ 0 then (1/2) * √(1 + 3*u) else 1 - (1/2) * √(1 - 3*u)

/-- Go `clampInt` / model `STUV.clampInt`. -/
def clampIntR (x lo hi : ℤ) : ℤ := if x < lo then lo else if x > hi then hi else x

/-- Go `stToIJ`: `clampInt(int(math.Floor(MaxSize * s)), 0, MaxSize-1)`, exact. -/
noncomputable def stToIJR (s : ℝ) : ℤ := clampIntR ⌊(2^30 : ℝ) * s⌋ 0 (2^30 - 1)

/-- `r3.Vector.LargestComponent` / model `V3.largestComponent` (same tie-breaking). -/
noncomputable def largestComponentR (x y z : ℝ) : ℕ :=
  if |x| > |y| then (if |x| > |z| then 0 else 2)
  else if |y| > |z| then 1 else 2

/-- Go `face` / model `STUV.face`. -/
noncomputable def faceR (x y z : ℝ) : ℕ :=
  let f := largestComponentR x y z
  if f = 0 ∧ x < 0 then 3
  else if f = 1 ∧ y < 0 then 4
  else if f = 2 ∧ z < 0 then 5
  else f

/-- Go `validFaceXYZToUV` / model `STUV.validFaceXYZToUV`. -/
noncomputable def validFaceXYZToUVR (f : ℕ) (p : ℝ × ℝ × ℝ) : ℝ × ℝ :=
  match f with
  | 0 => (p.2.1 / p.1, p.2.2 / p.1)
  | 1 => (-p.1 / p.2.1, p.2.2 / p.2.1)
  | 2 => (-p.1 / p.2.2, -p.2.1 / p.2.2)
  | 3 => (p.2.2 / p.1, p.2.1 / p.1)
  | 4 => (p.2.2 / p.2.1, -p.1 / p.2.1)
  | _ => (-p.2.1 / p.2.2, -p.1 / p.2.2)

/-- Go `faceUVToXYZ` / model `STUV.faceUVToXYZ`. -/
def faceUVToXYZR (f : ℕ) (u v : ℝ) : ℝ × ℝ × ℝ :=
  match f with
  | 0 => (1, u, v)
  | 1 => (-u, 1, v)
  | 2 => (-u, -v, 1)
  | 3 => (-1, -v, -u)
  | 4 => (v, -1, -u)
  | _ => (v, u, -1)

/-- Go `xyzToFaceUV` / model `STUV.xyzToFaceUV`. -/
noncomputable def xyzToFaceUVR (p : ℝ × ℝ × ℝ) : ℕ × ℝ × ℝ :=
  let f := faceR p.1 p.2.1 p.2.2
  let uv := validFaceXYZToUVR f p
  (f, uv.1, uv.2)

/-! ## `stToUVR` and `uvToSTR` are mutually inverse strictly increasing bijections of ℝ -/

theorem stToUVR_of_ge {s : ℝ} (h : 1/2 ≤ s) : stToUVR s = (1/3) * (4*s*s - 1) := by
  unfold stToUVR; rw [if_pos h]

theorem stToUVR_of_lt {s : ℝ} (h : s < 1/2) : stToUVR s = (1/3) * (1 - 4*(1-s)*(1-s)) := by
  unfold stToUVR; rw [if_neg (not_le.mpr h)]

theorem stToUVR_nonneg_of_ge {s : ℝ} (h : 1/2 ≤ s) : 0 ≤ stToUVR s := by
  rw [stToUVR_of_ge h]; nlinarith

theorem stToUVR_neg_of_lt {s : ℝ} (h : s < 1/2) : stToUVR s < 0 := by
  rw [stToUVR_of_lt h]; nlinarith

theorem uvToSTR_stToUVR_all (s : ℝ) : uvToSTR (stToUVR s) = s := by
  rcases le_or_gt (1/2) s with h | h
  · have hu := stToUVR_nonneg_of_ge h
    unfold uvToSTR; rw [if_pos hu, stToUVR_of_ge h]
    have e : 1 + 3 * ((1/3 : ℝ) * (4*s*s - 1)) = (2*s)^2 := by ring
    rw [e, Real.sqrt_sq (by linarith)]; ring
  · have hu := stToUVR_neg_of_lt h
    unfold uvToSTR; rw [if_neg (not_le.mpr hu), stToUVR_of_lt h]
    have e : 1 - 3 * ((1/3 : ℝ) * (1 - 4*(1-s)*(1-s))) = (2*(1-s))^2 := by ring
    rw [e, Real.sqrt_sq (by linarith)]; ring

theorem uvToSTR_ge_half_of_nonneg {u : ℝ} (h : 0 ≤ u) : 1/2 ≤ uvToSTR u := by
  unfold uvToSTR; rw [if_pos h]
  have : √1 ≤ √(1 + 3*u) := Real.sqrt_le_sqrt (by linarith)
  rw [Real.sqrt_one] at this
  linarith

theorem uvToSTR_lt_half_of_neg {u : ℝ} (h : u < 0) : uvToSTR u < 1/2 := by
  unfold uvToSTR; rw [if_neg (not_le.mpr h)]
  have : √1 < √(1 - 3*u) := Real.sqrt_lt_sqrt (by norm_num) (by linarith)
  rw [Real.sqrt_one] at this
  linarith

theorem stToUVR_uvToSTR_all (u : ℝ) : stToUVR (uvToSTR u) = u := by
  rcases le_or_gt 0 u with h | h
  · rw [stToUVR_of_ge (uvToSTR_ge_half_of_nonneg h)]
    unfold uvToSTR; rw [if_pos h]
    have e := Real.sq_sqrt (show (0:ℝ) ≤ 1 + 3*u by linarith)
    nlinarith
  · rw [stToUVR_of_lt (uvToSTR_lt_half_of_neg h)]
    unfold uvToSTR; rw [if_neg (not_le.mpr h)]
    have e := Real.sq_sqrt (show (0:ℝ) ≤ 1 - 3*u by linarith)
    nlinarith

theorem stToUVR_strictMono : StrictMono stToUVR := by
  intro s t hst
  rcases le_or_gt (1/2) s with hs | hs
  · have ht : 1/2 ≤ t := by linarith
    rw [stToUVR_of_ge hs, stToUVR_of_ge ht]; nlinarith
  · rcases le_or_gt (1/2) t with ht | ht
    · exact lt_of_lt_of_le (stToUVR_neg_of_lt hs) (stToUVR_nonneg_of_ge ht)
    · rw [stToUVR_of_lt hs, stToUVR_of_lt ht]; nlinarith

theorem uvToSTR_strictMono : StrictMono uvToSTR := by
  intro u v huv
  by_contra hc
  have hle : uvToSTR v ≤ uvToSTR u := not_lt.mp hc
  have := stToUVR_strictMono.monotone hle
  rw [stToUVR_uvToSTR_all, stToUVR_uvToSTR_all] at this
  linarith

theorem stToUVR_zero : stToUVR 0 = -1 := by
  rw [stToUVR_of_lt (by norm_num)]; norm_num

theorem stToUVR_half : stToUVR (1/2) = 0 := by
  rw [stToUVR_of_ge le_rfl]; norm_num

theorem stToUVR_one : stToUVR 1 = 1 := by
  rw [stToUVR_of_ge (by norm_num)]; norm_num

theorem uvToSTR_neg_one : uvToSTR (-1) = 0 := by
  rw [← stToUVR_zero, uvToSTR_stToUVR_all]

theorem uvToSTR_zero : uvToSTR 0 = 1/2 := by
  rw [← stToUVR_half, uvToSTR_stToUVR_all]

theorem uvToSTR_one : uvToSTR 1 = 1 := by
  conv_lhs => rw [← stToUVR_one]
  rw [uvToSTR_stToUVR_all]

theorem stToUVR_mem {s : ℝ} (h0 : 0 ≤ s) (h1 : s ≤ 1) : -1 ≤ stToUVR s ∧ stToUVR s ≤ 1 := by
  constructor
  · rw [← stToUVR_zero]; exact stToUVR_strictMono.monotone h0
  · rw [← stToUVR_one]; exact stToUVR_strictMono.monotone h1

theorem uvToSTR_mem {u : ℝ} (h0 : -1 ≤ u) (h1 : u ≤ 1) : 0 ≤ uvToSTR u ∧ uvToSTR u ≤ 1 := by
  constructor
  · rw [← uvToSTR_neg_one]; exact uvToSTR_strictMono.monotone h0
  · rw [← uvToSTR_one]; exact uvToSTR_strictMono.monotone h1

/-! ## `stToIJR` -/

theorem two30_pos : (0 : ℝ) < 2^30 := by positivity

theorem clampIntR_mem {x lo hi : ℤ} (h : lo ≤ hi) : lo ≤ clampIntR x lo hi ∧ clampIntR x lo hi ≤ hi := by
  unfold clampIntR; split_ifs <;> omega

theorem stToIJR_range (s : ℝ) : 0 ≤ stToIJR s ∧ stToIJR s < 2^30 := by
  have := @clampIntR_mem ⌊(2^30 : ℝ) * s⌋ 0 (2^30 - 1) (by norm_num)
  unfold stToIJR
  constructor
  · exact this.1
  · have := this.2; omega

/-- For `0 ≤ s < 1` there is no clamping: `stToIJR s = ⌊2^30 s⌋`. -/
theorem stToIJR_eq_floor {s : ℝ} (h0 : 0 ≤ s) (h1 : s < 1) : stToIJR s = ⌊(2^30 : ℝ) * s⌋ := by
  have hf0 : 0 ≤ ⌊(2^30 : ℝ) * s⌋ := Int.floor_nonneg.mpr (by positivity)
  have hf1 : ⌊(2^30 : ℝ) * s⌋ < 2^30 := by
    rw [Int.floor_lt]; push_cast; nlinarith [two30_pos]
  unfold stToIJR clampIntR
  rw [if_neg (by omega), if_neg (by omega)]

/-- The clamp: `s = 1` (indeed any `s ≥ 1`) goes to the last leaf coordinate. -/
theorem stToIJR_of_one_le {s : ℝ} (h1 : 1 ≤ s) : stToIJR s = 2^30 - 1 := by
  have hf1 : (2^30 : ℤ) ≤ ⌊(2^30 : ℝ) * s⌋ := by
    rw [Int.le_floor]; push_cast; nlinarith [two30_pos]
  unfold stToIJR clampIntR
  rw [if_neg (by omega), if_pos (by omega)]

/-- The leaf interval in st-space: `i/2^30 ≤ s ≤ (i+1)/2^30` for `s ∈ [0,1]`. -/
theorem stToIJR_bounds {s : ℝ} (h0 : 0 ≤ s) (h1 : s ≤ 1) :
    ((stToIJR s : ℤ) : ℝ) / 2^30 ≤ s ∧ s ≤ (((stToIJR s : ℤ) : ℝ) + 1) / 2^30 := by
  rcases lt_or_eq_of_le h1 with hlt | heq
  · rw [stToIJR_eq_floor h0 hlt]
    constructor
    · rw [div_le_iff₀ two30_pos]
      have := Int.floor_le ((2^30 : ℝ) * s); linarith
    · rw [le_div_iff₀ two30_pos]
      have := Int.lt_floor_add_one ((2^30 : ℝ) * s); linarith
  · rw [stToIJR_of_one_le (le_of_eq heq.symm), heq]
    push_cast
    constructor
    · rw [div_le_iff₀ two30_pos]; linarith
    · rw [le_div_iff₀ two30_pos]; linarith

/-- Half-open refinement: for `s < 1` the upper bound is strict. -/
theorem stToIJR_lt_upper {s : ℝ} (h0 : 0 ≤ s) (h1 : s < 1) :
    s < (((stToIJR s : ℤ) : ℝ) + 1) / 2^30 := by
  rw [stToIJR_eq_floor h0 h1, lt_div_iff₀ two30_pos]
  have := Int.lt_floor_add_one ((2^30 : ℝ) * s); linarith

/-- A grid value `m/2^30` (`0 ≤ m < 2^30`) is assigned to leaf coordinate `m` (the upper cell). -/
theorem stToIJR_grid {m : ℤ} (h0 : 0 ≤ m) (h1 : m < 2^30) : stToIJR ((m : ℝ) / 2^30) = m := by
  have hs0 : (0:ℝ) ≤ (m : ℝ) / 2^30 := div_nonneg (by exact_mod_cast h0) two30_pos.le
  have hs1 : (m : ℝ) / 2^30 < 1 := by
    rw [div_lt_one two30_pos]; exact_mod_cast h1
  rw [stToIJR_eq_floor hs0 hs1]
  have : (2^30 : ℝ) * ((m : ℝ) / 2^30) = (m : ℝ) := by field_simp
  rw [this, Int.floor_intCast]

/-! ## Aligned ancestors (integer side of `ijLevelToBoundUV`) -/

/-- `lo = (i / size) * size` (Go: `i & -size`) satisfies `lo ≤ i < lo + size`. -/
theorem aligned_bounds (i : ℤ) {size : ℤ} (hs : 0 < size) :
    i / size * size ≤ i ∧ i + 1 ≤ i / size * size + size := by
  constructor
  · exact Int.ediv_mul_le i (ne_of_gt hs)
  · have := Int.lt_ediv_add_one_mul_self i hs
    linarith

/-- Monotone transport: an st-interval bound gives a uv-interval bound. -/
theorem stToUVR_interval {a b : ℤ} {s : ℝ} (ha : (a : ℝ) / 2^30 ≤ s) (hb : s ≤ (b : ℝ) / 2^30) :
    stToUVR ((a : ℝ) / 2^30) ≤ stToUVR s ∧ stToUVR s ≤ stToUVR ((b : ℝ) / 2^30) :=
  ⟨stToUVR_strictMono.monotone ha, stToUVR_strictMono.monotone hb⟩

/-! ## Face selection -/

/-- Case analysis of `faceR` for a non-zero point: the chosen axis carries a component of
maximal absolute value, non-zero, and with the sign encoded by `f < 3` / `f ≥ 3`. -/
theorem faceR_cases {x y z : ℝ} (h : ¬ (x = 0 ∧ y = 0 ∧ z = 0)) :
    (faceR x y z = 0 ∧ 0 < x ∧ |y| ≤ |x| ∧ |z| ≤ |x|) ∨
    (faceR x y z = 1 ∧ 0 < y ∧ |x| ≤ |y| ∧ |z| ≤ |y|) ∨
    (faceR x y z = 2 ∧ 0 < z ∧ |x| ≤ |z| ∧ |y| ≤ |z|) ∨
    (faceR x y z = 3 ∧ x < 0 ∧ |y| ≤ |x| ∧ |z| ≤ |x|) ∨
    (faceR x y z = 4 ∧ y < 0 ∧ |x| ≤ |y| ∧ |z| ≤ |y|) ∨
    (faceR x y z = 5 ∧ z < 0 ∧ |x| ≤ |z| ∧ |y| ≤ |z|) := by
  have hx0 := abs_nonneg x
  have hy0 := abs_nonneg y
  have hz0 := abs_nonneg z
  by_cases hxy : |x| > |y|
  · by_cases hxz : |x| > |z|
    · have hxne : x ≠ 0 := by
        intro h0; rw [h0, abs_zero] at hxy; linarith
      rcases lt_or_gt_of_ne hxne with hneg | hpos
      · have hf : faceR x y z = 3 := by simp [faceR, largestComponentR, hxy, hxz, hneg]
        exact Or.inr (Or.inr (Or.inr (Or.inl ⟨hf, hneg, hxy.le, hxz.le⟩)))
      · have hf : faceR x y z = 0 := by
          simp [faceR, largestComponentR, hxy, hxz, not_lt.mpr hpos.le]
        exact Or.inl ⟨hf, hpos, hxy.le, hxz.le⟩
    · have hzx : |x| ≤ |z| := not_lt.mp hxz
      have hzne : z ≠ 0 := by
        intro h0; rw [h0, abs_zero] at hzx; linarith
      rcases lt_or_gt_of_ne hzne with hneg | hpos
      · have hf : faceR x y z = 5 := by simp [faceR, largestComponentR, hxy, hxz, hneg]
        exact Or.inr (Or.inr (Or.inr (Or.inr (Or.inr ⟨hf, hneg, hzx, by linarith⟩))))
      · have hf : faceR x y z = 2 := by
          simp [faceR, largestComponentR, hxy, hxz, not_lt.mpr hpos.le]
        exact Or.inr (Or.inr (Or.inl ⟨hf, hpos, hzx, by linarith⟩))
  · have hyx : |x| ≤ |y| := not_lt.mp hxy
    by_cases hyz : |y| > |z|
    · have hyne : y ≠ 0 := by
        intro h0; rw [h0, abs_zero] at hyz; linarith
      rcases lt_or_gt_of_ne hyne with hneg | hpos
      · have hf : faceR x y z = 4 := by simp [faceR, largestComponentR, hxy, hyz, hneg]
        exact Or.inr (Or.inr (Or.inr (Or.inr (Or.inl ⟨hf, hneg, hyx, hyz.le⟩))))
      · have hf : faceR x y z = 1 := by
          simp [faceR, largestComponentR, hxy, hyz, not_lt.mpr hpos.le]
        exact Or.inr (Or.inl ⟨hf, hpos, hyx, hyz.le⟩)
    · have hzy : |y| ≤ |z| := not_lt.mp hyz
      have hzne : z ≠ 0 := by
        intro h0
        rw [h0, abs_zero] at hzy
        have hy : y = 0 := abs_eq_zero.mp (le_antisymm hzy hy0)
        rw [hy, abs_zero] at hyx
        have hx : x = 0 := abs_eq_zero.mp (le_antisymm hyx hx0)
        exact h ⟨hx, hy, h0⟩
      rcases lt_or_gt_of_ne hzne with hneg | hpos
      · have hf : faceR x y z = 5 := by simp [faceR, largestComponentR, hxy, hyz, hneg]
        exact Or.inr (Or.inr (Or.inr (Or.inr (Or.inr ⟨hf, hneg, by linarith, hzy⟩))))
      · have hf : faceR x y z = 2 := by
          simp [faceR, largestComponentR, hxy, hyz, not_lt.mpr hpos.le]
        exact Or.inr (Or.inr (Or.inl ⟨hf, hpos, by linarith, hzy⟩))

/-- `|a| ≤ |m|`, `m ≠ 0` ⇒ `a/m ∈ [-1,1]`. -/
theorem div_mem_of_abs_le {a m : ℝ} (h : |a| ≤ |m|) (hm : m ≠ 0) : -1 ≤ a / m ∧ a / m ≤ 1 := by
  have : |a / m| ≤ 1 := by
    rw [abs_div, div_le_one (abs_pos.mpr hm)]; exact h
  exact abs_le.mp this

theorem neg_div_mem_of_abs_le {a m : ℝ} (h : |a| ≤ |m|) (hm : m ≠ 0) :
    -1 ≤ -a / m ∧ -a / m ≤ 1 :=
  div_mem_of_abs_le (by rwa [abs_neg]) hm

/-- Mirror of the float part of `cellIDFromPoint`: `(face, i, j)` of the leaf cell, exact. -/
noncomputable def pointToFaceIJR (p : ℝ × ℝ × ℝ) : ℕ × ℤ × ℤ :=
  let fuv := xyzToFaceUVR p
  (fuv.1, stToIJR (uvToSTR fuv.2.1), stToIJR (uvToSTR fuv.2.2))

theorem ne_zero_iff3 {x y z : ℝ} : ((x, y, z) : ℝ × ℝ × ℝ) ≠ 0 ↔ ¬ (x = 0 ∧ y = 0 ∧ z = 0) := by
  rw [Ne, Prod.mk_eq_zero, Prod.mk_eq_zero]

/-- Uniqueness of the leaf coordinate: the half-open st-interval determines `stToIJR`. -/
theorem stToIJR_unique {m : ℤ} {s : ℝ} (h0 : 0 ≤ m) (h1 : m < 2^30)
    (hlo : (m : ℝ) / 2^30 ≤ s) (hhi : s < ((m : ℝ) + 1) / 2^30) : stToIJR s = m := by
  rw [div_le_iff₀ two30_pos] at hlo
  rw [lt_div_iff₀ two30_pos] at hhi
  have hm0 : (0:ℝ) ≤ (m:ℝ) := by exact_mod_cast h0
  have hm1 : (m:ℝ) + 1 ≤ 2^30 := by exact_mod_cast h1
  have hs0 : 0 ≤ s := by nlinarith [two30_pos]
  have hs1 : s < 1 := by nlinarith [two30_pos]
  rw [stToIJR_eq_floor hs0 hs1, Int.floor_eq_iff]
  constructor <;> linarith

/-- `lo + size ≤ 2^30` for the aligned block of a valid leaf coordinate. -/
theorem aligned_upper {i : ℤ} {k : ℕ} (hk : k ≤ 30) (hi : i < 2^30) :
    i / 2^(30-k) * 2^(30-k) + 2^(30-k) ≤ (2:ℤ)^30 := by
  have hs : (0:ℤ) < 2^(30-k) := by positivity
  have e : (2:ℤ)^30 = 2^k * 2^(30-k) := by
    rw [← pow_add]; congr 1; omega
  have h1 : i / 2^(30-k) < 2^k := by
    apply Int.ediv_lt_of_lt_mul hs; rw [← e]; exact hi
  rw [e]
  nlinarith

end S2Proofs
