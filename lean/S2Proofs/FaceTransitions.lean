/-
  S2Proofs.FaceTransitions — the six face-to-face transitions of the Hilbert curve, in exact integer
  cube coordinates: at every level the last cell of face f and the first cell of face (f+1) mod 6
  are cells whose cube boxes share an edge.
-/
import S2Proofs.CubeAdj
import S2Proofs.CellIDAlgebraSteps
open S2 S2.CellID S2.Hilbert S2.STUV
namespace S2Proofs.C01W

/-- position arithmetic: a level-k cell whose successor is on another face is the LAST one of its face -/
theorem last_pos_arith (x k : Nat) (hk : k ≤ 30) (hlow : x % 2^(61 - 2*k) = 2^(60 - 2*k))
    (hface : (x + 2^(61 - 2*k)) / 2^61 ≠ x / 2^61) :
    (x / 2 % 2^60) / 2^(60 - 2*k) = 2^(2*k) - 1 := by
  interval_cases k <;> cell_omega

/-- the cell after the last one of face f (with wrap): first cell of face (f+1) mod 6 -/
theorem first_pos_arith (x k : Nat) (hk : k ≤ 30) (hlt : x < 6 * 2^61) (hlow : x % 2^(61 - 2*k) = 2^(60 - 2*k))
    (hface : (x + 2^(61 - 2*k)) / 2^61 ≠ x / 2^61) :
    let y := (x + 2^(61 - 2*k)) % (6 * 2^61)
    y < 6 * 2^61 ∧ y % 2^(61 - 2*k) = 2^(60 - 2*k) ∧ y / 2^61 = (x / 2^61 + 1) % 6 ∧
      (y / 2 % 2^60) / 2^(60 - 2*k) = 0 := by
  interval_cases k <;> cell_omega

theorem exit_vals : exitI 0 = 1 ∧ exitJ 0 = 0 ∧ exitI 1 = 0 ∧ exitJ 1 = 1 := by decide

theorem and_one_cases (f : Nat) : f &&& 1 = f % 2 := Nat.and_one_is_mod f

section
variable {L : Nat} (hL : L = 30)
include hL

/-- last cell of a face and its successor: square coordinates -/
theorem last_cell_facts (ci : CellID) (k : Nat) (h : IsCell ci k) (hf : face (next ci) ≠ face ci) :
    sqI ci k = exitI (face ci % 2) * (2^k - 1) ∧ sqJ ci k = exitJ (face ci % 2) * (2^k - 1) ∧
    IsCell (nextWrap ci) k ∧ face (nextWrap ci) = (face ci + 1) % 6 ∧
    sqI (nextWrap ci) k = 0 ∧ sqJ (nextWrap ci) k = 0 := by
  have hk := h.k_le
  obtain ⟨a1, a2⟩ := square_eq hL ci k hk
  obtain ⟨b1, b2⟩ := square_eq hL (nextWrap ci) k hk
  obtain ⟨hn, _⟩ := h.next_low
  rw [face_toNat, face_toNat, hn] at hf
  have hlast := last_pos_arith ci.toNat k hk h.low hf
  obtain ⟨c1, c2, c3, c4⟩ := first_pos_arith ci.toNat k hk h.face_lt h.low hf
  rw [← h.nextWrap_toNat] at c1 c2 c3 c4
  have e4 : (4:Nat)^(30-k) = 2^(60 - 2*k) := by rw [four_pow_eq]; congr 1; omega
  have e4' : (4:Nat)^k = 2^(2*k) := four_pow_eq k
  have ho : face ci % 2 < 4 := by omega
  unfold sqI sqJ
  rw [a1, a2, b1, b2, and_one_cases, and_one_cases]
  unfold posBits60
  rw [e4, hlast, c4, ← e4']
  obtain ⟨l1, l2⟩ := hIJ_last k (face ci % 2) ho
  obtain ⟨f1, f2⟩ := hIJ_first k (face (nextWrap ci) % 2) (by omega)
  have hent : entryBit (face (nextWrap ci) % 2) = 0 := by
    unfold entryBit
    have : face (nextWrap ci) % 2 < 2 := Nat.mod_lt _ (by omega)
    omega
  refine ⟨l1, l2, ⟨hk, c1, c2⟩, ?_, ?_, ?_⟩
  · rw [face_toNat, face_toNat]; exact c3
  · rw [f1, hent, Nat.zero_mul]
  · rw [f2, hent, Nat.zero_mul]

/-- THE SIX TRANSITIONS: the last cell of a face (at any level) and the next cell along the curve
    (first cell of the next face, wrapping 5 → 0) have cube boxes that share an edge -/
theorem transition_sharesEdge (ci : CellID) (k : Nat) (h : IsCell ci k) (hf : face (next ci) ≠ face ci) :
    boxMeet (cubeBox ci) (cubeBox (nextWrap ci)) = some 1 := by
  obtain ⟨s1, s2, hc, hface, s3, s4⟩ := last_cell_facts hL ci k h hf
  rw [cubeBox_cell hL ci k h, cubeBox_cell hL (nextWrap ci) k hc, hface, s1, s2, s3, s4]
  have hk := h.k_le
  have hpow : (2:Nat)^k * 2^(30-k) = 1073741824 := by
    rw [← Nat.pow_add]; have : k + (30 - k) = 30 := by omega
    rw [this]
  have hS := Nat.two_pow_pos (30-k)
  have hK := Nat.two_pow_pos k
  generalize (2:Nat)^(30-k) = S at *
  generalize (2:Nat)^k = K at *
  have hm : (K - 1) * S = 1073741824 - S := by
    rw [Nat.sub_mul, Nat.one_mul, hpow]
  have hSle : S ≤ 1073741824 := by
    rw [← hpow]; exact Nat.le_mul_of_pos_left S hK
  have hf6 := h.face_lt6
  unfold cubeLo
  -- the six faces
  have hcases : face ci = 0 ∨ face ci = 1 ∨ face ci = 2 ∨ face ci = 3 ∨ face ci = 4 ∨ face ci = 5 := by omega
  rcases hcases with e | e | e | e | e | e <;> rw [e] <;>
    simp only [Nat.reduceMod, Nat.reduceAdd, exit_vals.1, exit_vals.2.1, exit_vals.2.2.1, exit_vals.2.2.2,
      faceBox, boxMeet, Nat.zero_mul, Nat.one_mul, hm, Nat.cast_zero, Int.mul_zero, Int.zero_sub] <;>
    (first
      | rw [axMeet_point_left _ _ _ (by omega) (by omega), axMeet_point_right _ _ _ (by omega) (by omega),
            axMeet_overlap _ _ _ _ (by omega)]
      | rw [axMeet_overlap _ _ _ _ (by omega), axMeet_point_right _ _ _ (by omega) (by omega),
            axMeet_point_left _ _ _ (by omega) (by omega)]
      | rw [axMeet_point_right _ _ _ (by omega) (by omega), axMeet_overlap _ _ _ _ (by omega),
            axMeet_point_left _ _ _ (by omega) (by omega)]
      | rw [axMeet_point_left _ _ _ (by omega) (by omega), axMeet_overlap _ _ _ _ (by omega),
            axMeet_point_right _ _ _ (by omega) (by omega)]
      | rw [axMeet_overlap _ _ _ _ (by omega), axMeet_point_left _ _ _ (by omega) (by omega),
            axMeet_point_right _ _ _ (by omega) (by omega)]
      | rw [axMeet_point_right _ _ _ (by omega) (by omega), axMeet_point_left _ _ _ (by omega) (by omega),
            axMeet_overlap _ _ _ _ (by omega)])

end

end S2Proofs.C01W
