/-
  FloatErr2.Normal — the normal of the repaired `NewEdgeCrosser` (finding D48):
      x = fl( fl(a+b) × fl(b−a) ),   used only if fl(|x|²) ≥ 2^-80,   n = Normalize(x).
  For finite float vectors a, b of squared norm ≤ 1 + 2^-16 (`NormLe`):
    * `rawX_spec`      x is finite, each component within 200u + 3e of the exact N = (a+b)×(b−a) = 2(a×b), |x_i| ≤ 5;
    * `normal_spec`    if the guard holds then n is finite, |n|² ≤ 1 + 2^-16 (`NormLe n`), and n·N > 0
                       (the computed unit normal lies on the correct side).
-/
import S2Proofs.FloatErr2.CrossCore
import S2Proofs.FloatErr.Stable
import S2Proofs.FloatErr.Sqrt
import S2Proofs.F64Round
import S2.Crossing

namespace S2Proofs.FE2
open S2 S2.Exact S2.Pred S2.Crossing S2Proofs.F64Order S2Proofs.PredLemmas S2Proofs.FloatErr

/-! ### bridge between the rational `F64Round.val` and the real `FloatErr.val` -/

theorem val_cast (x : F64) : val x = ((F64Round.val x : ℚ) : ℝ) := by
  unfold val F64Round.val F64Round.U
  push_cast
  rfl

theorem val_one' : val F64.one = 1 := by
  rw [val_cast, F64Round.val_one]; norm_num

theorem isZero_false_of_val_ne {x : F64} (h : val x ≠ 0) : x.isZero = false := by
  cases hz : x.isZero
  · rfl
  · exact absurd (val_of_isZero hz) h

/-- `1 / r` for a float `r` in a harmless range: finite, relative error `u` -/
theorem div_one_step {r : F64} (hr : Fin r) (hlo : 1 / 2 ^ 100 ≤ val r) (hhi : val r ≤ 2 ^ 515) :
    Fin (F64.one / r) ∧ |val (F64.one / r) - 1 / val r| ≤ uR * (1 / val r) := by
  have hpos : 0 < val r := lt_of_lt_of_le (by positivity) hlo
  have h1 : Fin F64.one := by decide
  have hz : r.isZero = false := isZero_false_of_val_ne hpos.ne'
  -- rational versions of the bounds
  have hloQ : (1 : ℚ) / 2 ^ 100 ≤ F64Round.val r := by
    have : ((1 / 2 ^ 100 : ℚ) : ℝ) ≤ ((F64Round.val r : ℚ) : ℝ) := by
      rw [← val_cast]; push_cast; exact hlo
    exact_mod_cast this
  have hhiQ : F64Round.val r ≤ (2 : ℚ) ^ 515 := by
    have : ((F64Round.val r : ℚ) : ℝ) ≤ (((2 : ℚ) ^ 515 : ℚ) : ℝ) := by
      rw [← val_cast]; push_cast; exact hhi
    exact_mod_cast this
  have hposQ : 0 < F64Round.val r := lt_of_lt_of_le (by positivity) hloQ
  have hq : F64Round.val F64.one / F64Round.val r = 1 / F64Round.val r := by rw [F64Round.val_one]
  have habs : |F64Round.val F64.one / F64Round.val r| = 1 / F64Round.val r := by
    rw [hq, abs_of_pos (by positivity)]
  have hup : 1 / F64Round.val r ≤ (2 : ℚ) ^ 100 := by
    rw [div_le_iff₀ hposQ]
    have : (2 : ℚ) ^ 100 * (1 / 2 ^ 100) ≤ 2 ^ 100 * F64Round.val r :=
      mul_le_mul_of_nonneg_left hloQ (by positivity)
    have e : (2 : ℚ) ^ 100 * (1 / 2 ^ 100) = 1 := by field_simp
    linarith
  have hdn : (1 : ℚ) / 2 ^ 515 ≤ 1 / F64Round.val r :=
    one_div_le_one_div_of_le hposQ hhiQ
  have hbig : (2 : ℚ) ^ 100 < 2 ^ 1024 - 2 ^ 970 := by
    have e1 : (2 : ℚ) ^ 1024 = 2 ^ 970 * 2 ^ 54 := by rw [← pow_add]
    have e2 : (2 : ℚ) ^ 970 = 2 ^ 100 * 2 ^ 870 := by rw [← pow_add]
    have p1 : (1 : ℚ) ≤ 2 ^ 870 := one_le_pow₀ (by norm_num)
    have p2 : (0 : ℚ) < 2 ^ 100 := by positivity
    have p3 : (2 : ℚ) ≤ 2 ^ 54 - 1 := by norm_num
    have e3 : (2 : ℚ) ^ 1024 - 2 ^ 970 = 2 ^ 100 * 2 ^ 870 * (2 ^ 54 - 1) := by rw [e1, e2]; ring
    rw [e3]
    generalize (2 : ℚ) ^ 100 = P at p2 ⊢
    generalize (2 : ℚ) ^ 870 = Q at p1 ⊢
    generalize (2 : ℚ) ^ 54 - 1 = R at p3 ⊢
    have h1 : P * 1 * 2 ≤ P * Q * R :=
      mul_le_mul (mul_le_mul_of_nonneg_left p1 p2.le) p3 (by norm_num) (by positivity)
    linarith
  have hsmall : (1 : ℚ) / 2 ^ 1022 ≤ 1 / 2 ^ 515 :=
    one_div_le_one_div_of_le (by positivity) (pow_le_pow_right₀ (by norm_num) (by norm_num))
  have hfin : Fin (F64.div F64.one r) :=
    F64Round.div_fin_of_lt h1 hr hz (by rw [habs]; exact lt_of_le_of_lt hup hbig)
  have herr := F64Round.div_rel_err h1 hr hz hfin (by rw [habs]; exact le_trans hsmall hdn)
  rw [habs, hq] at herr
  refine ⟨hfin, ?_⟩
  have hR : ((|F64Round.val (F64.div F64.one r) - 1 / F64Round.val r| : ℚ) : ℝ)
      ≤ ((1 / F64Round.val r / 2 ^ 53 : ℚ) : ℝ) := Rat.cast_le.mpr herr
  rw [Rat.cast_abs] at hR
  push_cast at hR
  rw [← val_cast, ← val_cast] at hR
  show |val (F64.div F64.one r) - 1 / val r| ≤ uR * (1 / val r)
  unfold uR
  have e : 1 / val r / 2 ^ 53 = 1 / 2 ^ 53 * (1 / val r) := by ring
  linarith

/-! ### the raw cross product -/

/-- `(a+b) × (b−a)` in float arithmetic -/
def rawX (a b : V3) : V3 := (a.add b).cross (b.sub a)

theorem add_step5 {x y : F64} (hx : Fin x) (hy : Fin y) (mx : |val x| ≤ 2) (my : |val y| ≤ 2) :
    Fin (x + y) ∧ Rnd uR 0 (val x + val y) (val (x + y)) ∧ |val (x + y)| ≤ 5 := by
  have m : |val x + val y| ≤ 4 := by have := abs_add_le (val x) (val y); linarith
  obtain ⟨f, r, _⟩ := add_step stdModel hx hy m (by norm_num)
  refine ⟨f, r, ?_⟩
  have h1 := r.abs_le
  have h2 : uR * |val x + val y| ≤ 1 / 4 * 4 :=
    mul_le_mul uR_le_quarter m (abs_nonneg _) (by norm_num)
  linarith

/-- the exact components of `N = (a+b) × (b−a)` -/
noncomputable def nX (a b : V3) : ℝ :=
  (val a.y + val b.y) * (val b.z - val a.z) - (val a.z + val b.z) * (val b.y - val a.y)
noncomputable def nY (a b : V3) : ℝ :=
  (val a.z + val b.z) * (val b.x - val a.x) - (val a.x + val b.x) * (val b.z - val a.z)
noncomputable def nZ (a b : V3) : ℝ :=
  (val a.x + val b.x) * (val b.y - val a.y) - (val a.y + val b.y) * (val b.x - val a.x)

theorem nX_eq (a b : V3) : nX a b = 2 * (val a.y * val b.z - val a.z * val b.y) := by unfold nX; ring
theorem nY_eq (a b : V3) : nY a b = 2 * (val a.z * val b.x - val a.x * val b.z) := by unfold nY; ring
theorem nZ_eq (a b : V3) : nZ a b = 2 * (val a.x * val b.y - val a.y * val b.x) := by unfold nZ; ring

/-- the per-component error bound of the raw cross product, `200u + 3e ≤ 2^-44` -/
noncomputable def eps0 : ℝ := 200 * uR + 3 * eR

theorem eR_le : eR ≤ 1 / 2 ^ 250 := by
  unfold eR
  exact one_div_le_one_div_of_le (by positivity) (pow_le_pow_right₀ (by norm_num) (by norm_num))

theorem eps0_le : eps0 ≤ 1 / 2 ^ 45 := by
  have := eR_le
  have h2 : (1 : ℝ) / 2 ^ 250 ≤ 1 / 2 ^ 60 :=
    one_div_le_one_div_of_le (by positivity) (pow_le_pow_right₀ (by norm_num) (by norm_num))
  unfold eps0 uR
  have : (200 : ℝ) * (1 / 2 ^ 53) + 3 * (1 / 2 ^ 60) ≤ 1 / 2 ^ 45 := by norm_num
  linarith

theorem eps0_nonneg : 0 ≤ eps0 := by
  unfold eps0; have := uR_nonneg; have := eR_nonneg; linarith

theorem two_comp_le {p q r t : ℝ} (h1 : p ^ 2 + r ^ 2 ≤ 2) (h2 : q ^ 2 + t ^ 2 ≤ 2) : |2 * (p * q - r * t)| ≤ 4 := by
  have h := cross2_sq_le p q r t
  have n1 : 0 ≤ p ^ 2 + r ^ 2 := by positivity
  have n2 : 0 ≤ q ^ 2 + t ^ 2 := by positivity
  have h3 : (p ^ 2 + r ^ 2) * (q ^ 2 + t ^ 2) ≤ 2 * 2 := mul_le_mul h1 h2 n2 (by norm_num)
  have := abs_le_two_of_sq_le (z := p * q - r * t) (by linarith)
  rw [abs_mul, abs_of_pos (by norm_num : (0 : ℝ) < 2)]
  linarith

theorem rawX_spec (a b : V3) (ha : NormLe a) (hb : NormLe b) :
    Fin3 (rawX a b) ∧
    |val (rawX a b).x - nX a b| ≤ eps0 ∧ |val (rawX a b).y - nY a b| ≤ eps0 ∧
    |val (rawX a b).z - nZ a b| ≤ eps0 ∧
    |val (rawX a b).x| ≤ 5 ∧ |val (rawX a b).y| ≤ 5 ∧ |val (rawX a b).z| ≤ 5 := by
  obtain ⟨fa1, fa2, fa3⟩ := ha.1
  obtain ⟨fb1, fb2, fb3⟩ := hb.1
  obtain ⟨ma1, ma2, ma3⟩ := ha.coord_le
  obtain ⟨mb1, mb2, mb3⟩ := hb.coord_le
  obtain ⟨fX1, rX1, bX1⟩ := add_step5 fa1 fb1 ma1 mb1
  obtain ⟨fX2, rX2, bX2⟩ := add_step5 fa2 fb2 ma2 mb2
  obtain ⟨fX3, rX3, bX3⟩ := add_step5 fa3 fb3 ma3 mb3
  obtain ⟨fY1, rY1, bY1⟩ := sub_step5 stdModel fb1 fa1 mb1 ma1
  obtain ⟨fY2, rY2, bY2⟩ := sub_step5 stdModel fb2 fa2 mb2 ma2
  obtain ⟨fY3, rY3, bY3⟩ := sub_step5 stdModel fb3 fa3 mb3 ma3
  obtain ⟨fx1, _, r23, r32, rx1⟩ := cross_step5 stdModel fX2 fY3 fX3 fY2 bX2 bY3 bX3 bY2
  obtain ⟨fx2, _, r31, r13, rx2⟩ := cross_step5 stdModel fX3 fY1 fX1 fY3 bX3 bY1 bX1 bY3
  obtain ⟨fx3, _, r12, r21, rx3⟩ := cross_step5 stdModel fX1 fY2 fX2 fY1 bX1 bY2 bX2 bY1
  have A1 : |val a.x + val b.x| ≤ 4 := by have := abs_add_le (val a.x) (val b.x); linarith
  have A2 : |val a.y + val b.y| ≤ 4 := by have := abs_add_le (val a.y) (val b.y); linarith
  have A3 : |val a.z + val b.z| ≤ 4 := by have := abs_add_le (val a.z) (val b.z); linarith
  have D1 : |val b.x - val a.x| ≤ 4 := by have := abs_sub (val b.x) (val a.x); linarith
  have D2 : |val b.y - val a.y| ≤ 4 := by have := abs_sub (val b.y) (val a.y); linarith
  have D3 : |val b.z - val a.z| ≤ 4 := by have := abs_sub (val b.z) (val a.z); linarith
  have hu := uR_nonneg
  have he := eR_nonneg
  have c1 := comp_pert hu uR_le_quarter he A2 A3 D2 D3 rX2 rX3 rY2 rY3 r23 r32 rx1
  have c2 := comp_pert hu uR_le_quarter he A3 A1 D3 D1 rX3 rX1 rY3 rY1 r31 r13 rx2
  have c3 := comp_pert hu uR_le_quarter he A1 A2 D1 D2 rX1 rX2 rY1 rY2 r12 r21 rx3
  -- sizes of the exact components
  have sa := ha.sq_le
  have sb := hb.sq_le
  have ht : 1 + tauR ≤ 2 := by unfold tauR; norm_num
  have q1a := sq_nonneg (val a.x); have q2a := sq_nonneg (val a.y); have q3a := sq_nonneg (val a.z)
  have q1b := sq_nonneg (val b.x); have q2b := sq_nonneg (val b.y); have q3b := sq_nonneg (val b.z)
  have N1 : |nX a b| ≤ 4 := by
    rw [nX_eq]; exact two_comp_le (by linarith) (by linarith)
  have N2 : |nY a b| ≤ 4 := by
    rw [nY_eq]; exact two_comp_le (by linarith) (by linarith)
  have N3 : |nZ a b| ≤ 4 := by
    rw [nZ_eq]; exact two_comp_le (by linarith) (by linarith)
  have hε := eps0_le
  have hsm : (1 : ℝ) / 2 ^ 45 ≤ 1 := by norm_num
  have tri : ∀ {x n : ℝ}, |x - n| ≤ eps0 → |n| ≤ 4 → |x| ≤ 5 := by
    intro x n h1 h2
    have := abs_sub_abs_le_abs_sub x n
    linarith
  refine ⟨⟨fx1, fx2, fx3⟩, c1, c2, c3, tri c1 N1, tri c2 N2, tri c3 N3⟩

/-! ### the guard and `Normalize` -/

theorem minTangent_facts : Fin minTangentNorm2 ∧ val minTangentNorm2 = 1 / 2 ^ 80 := by
  have h : Fin minTangentNorm2 ∧ toInt minTangentNorm2 = 2 ^ 994 := by decide +kernel
  refine ⟨h.1, ?_⟩
  unfold val
  rw [h.2]
  push_cast
  have e : (2 : ℝ) ^ 1074 = 2 ^ 994 * 2 ^ 80 := by rw [← pow_add]
  rw [e]
  field_simp

theorem rho_le : rhoU uR ≤ 1 / 2 ^ 50 := by
  unfold rhoU fU gU uR; norm_num

/-- the squared norm of the raw cross product when the guard `fl(|x|²) ≥ 2^-80` holds -/
theorem guard_norm (a b : V3) (ha : NormLe a) (hb : NormLe b)
    (hg : F64.ge (rawX a b).norm2 minTangentNorm2 = true) :
    Fin (rawX a b).norm2 ∧ 1 / 2 ^ 80 ≤ val (rawX a b).norm2 ∧
    1 / 2 ^ 81 ≤ val (rawX a b).x ^ 2 + val (rawX a b).y ^ 2 + val (rawX a b).z ^ 2 ∧
    val (rawX a b).x ^ 2 + val (rawX a b).y ^ 2 + val (rawX a b).z ^ 2
      ≤ val (rawX a b).norm2 * (1 + 1 / 2 ^ 48) := by
  obtain ⟨hf, _, _, _, b1, b2, b3⟩ := rawX_spec a b ha hb
  obtain ⟨fn, herr, hS0, _⟩ := norm2_step stdModel (rawX a b) hf ⟨b1, b2, b3⟩
  obtain ⟨fm, vm⟩ := minTangent_facts
  have hle : toInt minTangentNorm2 ≤ toInt (rawX a b).norm2 := (le_iff fm fn).mp hg
  have hv : 1 / 2 ^ 80 ≤ val (rawX a b).norm2 := by
    rw [← vm]
    unfold val
    rw [div_le_div_iff_of_pos_right (by positivity)]
    exact_mod_cast hle
  set S := val (rawX a b).x * val (rawX a b).x + val (rawX a b).y * val (rawX a b).y
    + val (rawX a b).z * val (rawX a b).z with hS
  have eS : val (rawX a b).x ^ 2 + val (rawX a b).y ^ 2 + val (rawX a b).z ^ 2 = S := by rw [hS]; ring
  rw [eS]
  have hb' := abs_le.mp herr
  have hρ := rho_le
  have hρ0 : 0 ≤ rhoU uR := rhoU_nn
  have he := eR_le
  have he0 := eR_nonneg
  have h250 : (1 : ℝ) / 2 ^ 250 ≤ 1 / 2 ^ 140 :=
    one_div_le_one_div_of_le (by positivity) (pow_le_pow_right₀ (by norm_num) (by norm_num))
  have hρS : rhoU uR * S ≤ 1 / 2 ^ 50 * S := mul_le_mul_of_nonneg_right hρ hS0
  -- S ≥ 2^-81
  have hS81 : 1 / 2 ^ 81 ≤ S := by
    have : (1 : ℝ) / 2 ^ 80 ≤ S + 1 / 2 ^ 50 * S + 4 * (1 / 2 ^ 140) := by linarith
    by_contra hc
    have hc := not_le.mp hc
    have : S + 1 / 2 ^ 50 * S + 4 * (1 / 2 ^ 140) < 1 / 2 ^ 81 * (1 + 1 / 2 ^ 50) + 4 * (1 / 2 ^ 140) := by
      nlinarith
    have : (1 : ℝ) / 2 ^ 81 * (1 + 1 / 2 ^ 50) + 4 * (1 / 2 ^ 140) < 1 / 2 ^ 80 := by norm_num
    linarith
  -- 4e ≤ 2^-50·S
  have h4e : 4 * eR ≤ 1 / 2 ^ 50 * S := by
    have : (4 : ℝ) * (1 / 2 ^ 140) ≤ 1 / 2 ^ 50 * (1 / 2 ^ 81) := by norm_num
    have : 1 / 2 ^ 50 * (1 / 2 ^ 81) ≤ 1 / 2 ^ 50 * S := mul_le_mul_of_nonneg_left hS81 (by positivity)
    linarith
  have hn0 : 0 ≤ val (rawX a b).norm2 := by linarith
  refine ⟨fn, hv, hS81, ?_⟩
  have e49 : (1 : ℝ) / 2 ^ 50 + 1 / 2 ^ 50 = 1 / 2 ^ 49 := by norm_num
  have h1 : S * (1 - 1 / 2 ^ 49) ≤ val (rawX a b).norm2 := by
    have e : S * (1 - 1 / 2 ^ 49) = S - (1 / 2 ^ 50 * S + 1 / 2 ^ 50 * S) := by rw [← e49]; ring
    linarith
  have h2 : (1 : ℝ) ≤ (1 - 1 / 2 ^ 49) * (1 + 1 / 2 ^ 48) := by norm_num
  have h3 : S * (1 - 1 / 2 ^ 49) * (1 + 1 / 2 ^ 48) ≤ val (rawX a b).norm2 * (1 + 1 / 2 ^ 48) :=
    mul_le_mul_of_nonneg_right h1 (by norm_num)
  have h4 : S * 1 ≤ S * ((1 - 1 / 2 ^ 49) * (1 + 1 / 2 ^ 48)) := mul_le_mul_of_nonneg_left h2 hS0
  have e5 : S * ((1 - 1 / 2 ^ 49) * (1 + 1 / 2 ^ 48)) = S * (1 - 1 / 2 ^ 49) * (1 + 1 / 2 ^ 48) := by ring
  linarith


/-! ### `Normalize` of the guarded raw cross product -/

theorem normLe_of_sq_le {p : V3} (hf : Fin3 p) (h : val p.x ^ 2 + val p.y ^ 2 + val p.z ^ 2 ≤ 1 + tauR) :
    NormLe p := by
  refine ⟨hf, ?_⟩
  rw [norm2_val] at h
  unfold tauR at h
  have hS : (0 : ℝ) < (2 ^ 1074) ^ 2 := by positivity
  have e1 : (norm2I p : ℝ) * (1 / 2 ^ 1074) ^ 2 = (norm2I p : ℝ) / (2 ^ 1074) ^ 2 := by
    rw [one_div, inv_pow]; rfl
  rw [e1, div_le_iff₀ hS] at h
  have h2 : ((norm2I p : ℝ) - (2 ^ 1074) ^ 2) * 2 ^ 16 ≤ (2 ^ 1074) ^ 2 := by
    generalize ((2 : ℝ) ^ 1074) ^ 2 = X at h hS ⊢
    have e : (1 + 1 / (2 : ℝ) ^ 16) * X * 2 ^ 16 = X * 2 ^ 16 + X := by field_simp
    have := mul_le_mul_of_nonneg_right h (by positivity : (0 : ℝ) ≤ 2 ^ 16)
    linarith
  have h3 : (((norm2I p - (scale : ℤ) ^ 2) * 2 ^ 16 : ℤ) : ℝ) ≤ (((scale : ℤ) ^ 2 : ℤ) : ℝ) := by
    push_cast
    rw [scale_cast]
    have e16 : (2 : ℝ) ^ 16 = 65536 := by norm_num
    rw [e16] at h2
    exact h2
  exact_mod_cast h3

/-- `n · N` as an exact integer -/
theorem dotN_int (n a b : V3) :
    val n.x * nX a b + val n.y * nY a b + val n.z * nZ a b
      = 2 * ((ofV3 n).dot ((ofV3 a).cross (ofV3 b)) : ℝ) * (1 / 2 ^ 1074) ^ 3 := by
  rw [nX_eq, nY_eq, nZ_eq]
  unfold IV3.dot IV3.cross ofV3
  simp only [val_eq]
  push_cast
  ring

theorem twenty_eR_lt : 20 * eR < 1 / 2 ^ 700 := by
  unfold eR
  have e : (2 : ℝ) ^ 1075 = 2 ^ 700 * 2 ^ 375 := by rw [← pow_add]
  have h1 : (20 : ℝ) < 2 ^ 375 :=
    lt_of_lt_of_le (by norm_num : (20 : ℝ) < 2 ^ 5) (pow_le_pow_right₀ (by norm_num) (by norm_num))
  rw [e]
  have p7 : (0 : ℝ) < 2 ^ 700 := by positivity
  generalize (2 : ℝ) ^ 700 = A at p7 ⊢
  generalize (2 : ℝ) ^ 375 = B at h1 ⊢
  have hB : 0 < B := by linarith
  have e2 : 20 * (1 / (A * B)) = (20 / B) / A := by field_simp
  rw [e2, div_lt_div_iff_of_pos_right p7, div_lt_one hB]
  exact h1

theorem normal_spec (a b : V3) (ha : NormLe a) (hb : NormLe b)
    (hg : F64.ge (rawX a b).norm2 minTangentNorm2 = true) :
    NormLe (rawX a b).normalize ∧
    0 < (ofV3 (rawX a b).normalize).dot ((ofV3 a).cross (ofV3 b)) := by
  obtain ⟨hf, d1, d2, d3, b1, b2, b3⟩ := rawX_spec a b ha hb
  obtain ⟨fn, hv, hS81, hSn⟩ := guard_norm a b ha hb hg
  obtain ⟨fx1, fx2, fx3⟩ := hf
  set x := rawX a b with hx
  set S := val x.x ^ 2 + val x.y ^ 2 + val x.z ^ 2 with hS
  have hu := uR_nonneg
  have he := eR_nonneg
  have hpos : 0 < val x.norm2 := lt_of_lt_of_le (by positivity) hv
  -- the square root
  obtain ⟨fr, hr0, hr515, hrsq⟩ := sqrt_lower x.norm2 fn hpos
  set R := val (F64.sqrt x.norm2) with hR
  have hc : (1 : ℝ) - 1 / 2 ^ 50 ≤ (1 - 1 / 2 ^ 58) * (1 - uR) ^ 2 := by unfold uR; norm_num
  have hc0 : (0 : ℝ) ≤ (1 - 1 / 2 ^ 58) * (1 - uR) ^ 2 := by unfold uR; norm_num
  have hR2 : val x.norm2 * (1 - 1 / 2 ^ 50) ≤ R ^ 2 :=
    le_trans (mul_le_mul_of_nonneg_left hc hpos.le) hrsq
  have hR41 : 1 / 2 ^ 41 ≤ R := by
    apply le_of_sq_le (by positivity) hr0
    have : (1 : ℝ) / 2 ^ 80 * (1 - 1 / 2 ^ 50) ≤ val x.norm2 * (1 - 1 / 2 ^ 50) :=
      mul_le_mul_of_nonneg_right hv (by norm_num)
    have : ((1 : ℝ) / 2 ^ 41) ^ 2 ≤ 1 / 2 ^ 80 * (1 - 1 / 2 ^ 50) := by norm_num
    linarith
  have hRpos : 0 < R := lt_of_lt_of_le (by positivity) hR41
  have hR100 : (1 : ℝ) / 2 ^ 100 ≤ R := le_trans (by norm_num) hR41
  -- the scale factor
  obtain ⟨fs, hs⟩ := div_one_step fr hR100 hr515
  set sv := val (F64.one / F64.sqrt x.norm2) with hsv
  have hsb := abs_le.mp hs
  have hinv : 1 / R ≤ 2 ^ 41 := by
    rw [div_le_iff₀ hRpos]
    have := mul_le_mul_of_nonneg_left hR41 (by positivity : (0 : ℝ) ≤ 2 ^ 41)
    have e : (2 : ℝ) ^ 41 * (1 / 2 ^ 41) = 1 := by field_simp
    linarith
  have hinv0 : 0 < 1 / R := by positivity
  have hinvlo : (1 : ℝ) / 2 ^ 515 ≤ 1 / R := one_div_le_one_div_of_le hRpos hr515
  have hu1 : uR ≤ 1 / 2 := by unfold uR; norm_num
  have huinv : uR * (1 / R) ≤ 1 / 2 * (1 / R) := mul_le_mul_of_nonneg_right hu1 hinv0.le
  have hslo : 1 / 2 ^ 516 ≤ sv := by
    have e516 : (2 : ℝ) ^ 516 = 2 ^ 515 * 2 := by rw [pow_succ]
    have : (1 : ℝ) / 2 ^ 516 = 1 / 2 * (1 / 2 ^ 515) := by rw [e516]; field_simp
    linarith
  have hspos : 0 < sv := lt_of_lt_of_le (by positivity) hslo
  have hshi : sv ≤ 2 ^ 42 := by
    have : (2 : ℝ) ^ 42 = 2 * 2 ^ 41 := by norm_num
    linarith
  have hsR : sv * R ≤ 1 + uR := by
    have h1 : sv ≤ (1 + uR) * (1 / R) := by linarith
    have h2 := mul_le_mul_of_nonneg_right h1 hRpos.le
    have e : (1 + uR) * (1 / R) * R = 1 + uR := by field_simp
    linarith
  -- the scaled components
  have prod_lt : ∀ {t : ℝ}, |t| ≤ 5 → |sv * t| < 2 ^ 1000 := by
    intro t ht
    rw [abs_mul, abs_of_pos hspos]
    have h1 : sv * |t| ≤ 2 ^ 42 * 5 := mul_le_mul hshi ht (abs_nonneg _) (by positivity)
    have h2 : (2 : ℝ) ^ 42 * 5 < 2 ^ 45 := by norm_num
    have h3 : (2 : ℝ) ^ 45 ≤ 2 ^ 1000 := pow_le_pow_right₀ (by norm_num) (by norm_num)
    exact lt_of_le_of_lt h1 (lt_of_lt_of_le h2 h3)
  obtain ⟨fn1, rn1⟩ := mul_step_raw stdModel fs fx1 (prod_lt b1)
  obtain ⟨fn2, rn2⟩ := mul_step_raw stdModel fs fx2 (prod_lt b2)
  obtain ⟨fn3, rn3⟩ := mul_step_raw stdModel fs fx3 (prod_lt b3)
  have conv : ∀ {t n : ℝ}, Rnd uR eR (sv * t) n → |n - sv * t| ≤ uR * (sv * |t|) + eR := by
    intro t n h
    unfold Rnd at h
    rw [abs_mul, abs_of_pos hspos] at h
    exact h
  have r1 := conv rn1
  have r2 := conv rn2
  have r3 := conv rn3
  -- normalize unfolds to the scaled vector
  have hz : F64.feq x.norm2 (F64.zero false) = false := by
    have hzf : Fin (F64.zero false) ∧ toInt (F64.zero false) = 0 := by decide
    cases hq : F64.feq x.norm2 (F64.zero false)
    · rfl
    · have := (feq_iff fn hzf.1).mp hq
      rw [hzf.2] at this
      unfold val at hpos
      rw [this] at hpos
      simp at hpos
  have hnorm : x.normalize = ⟨(F64.one / F64.sqrt x.norm2) * x.x, (F64.one / F64.sqrt x.norm2) * x.y,
      (F64.one / F64.sqrt x.norm2) * x.z⟩ := by
    unfold V3.normalize V3.mul
    simp only [hz, Bool.false_eq_true, if_false]
  rw [hnorm]
  -- the squared norm
  have hsS : sv ^ 2 * S ≤ 1 + 1 / 2 ^ 30 := by
    have k1 : sv ^ 2 * S ≤ sv ^ 2 * (val x.norm2 * (1 + 1 / 2 ^ 48)) :=
      mul_le_mul_of_nonneg_left hSn (by positivity)
    have k2 : sv ^ 2 * (1 + 1 / 2 ^ 48) * (val x.norm2 * (1 - 1 / 2 ^ 50))
        ≤ sv ^ 2 * (1 + 1 / 2 ^ 48) * R ^ 2 := mul_le_mul_of_nonneg_left hR2 (by positivity)
    have k3 : (sv * R) ^ 2 ≤ (1 + uR) ^ 2 := pow_le_pow_left₀ (by positivity) hsR 2
    have k4 : (1 + uR) ^ 2 * (1 + 1 / 2 ^ 48) ≤ 1 + 1 / 2 ^ 40 := by unfold uR; norm_num
    have k5 : sv ^ 2 * (1 + 1 / 2 ^ 48) * R ^ 2 = (sv * R) ^ 2 * (1 + 1 / 2 ^ 48) := by ring
    have k6 : (sv * R) ^ 2 * (1 + 1 / 2 ^ 48) ≤ (1 + uR) ^ 2 * (1 + 1 / 2 ^ 48) :=
      mul_le_mul_of_nonneg_right k3 (by norm_num)
    have k7 : sv ^ 2 * S * (1 - 1 / 2 ^ 50) ≤ 1 + 1 / 2 ^ 40 := by
      have := mul_le_mul_of_nonneg_right k1 (by norm_num : (0 : ℝ) ≤ 1 - 1 / 2 ^ 50)
      have e : sv ^ 2 * (val x.norm2 * (1 + 1 / 2 ^ 48)) * (1 - 1 / 2 ^ 50)
          = sv ^ 2 * (1 + 1 / 2 ^ 48) * (val x.norm2 * (1 - 1 / 2 ^ 50)) := by ring
      linarith
    by_contra hcon
    have hcon := not_le.mp hcon
    have := mul_lt_mul_of_pos_right hcon (by norm_num : (0 : ℝ) < 1 - 1 / 2 ^ 50)
    have : (1 : ℝ) + 1 / 2 ^ 40 < (1 + 1 / 2 ^ 30) * (1 - 1 / 2 ^ 50) := by norm_num
    linarith
  have hN := scaled_norm_le hu (by unfold uR; norm_num) he eR_le_one hspos b1 b2 b3 r1 r2 r3
  have hnorm2 : val ((F64.one / F64.sqrt x.norm2) * x.x) ^ 2 + val ((F64.one / F64.sqrt x.norm2) * x.y) ^ 2
      + val ((F64.one / F64.sqrt x.norm2) * x.z) ^ 2 ≤ 1 + tauR := by
    have h1 : (1 + uR) ^ 2 * (sv ^ 2 * S) ≤ (1 + uR) ^ 2 * (1 + 1 / 2 ^ 30) :=
      mul_le_mul_of_nonneg_left hsS (sq_nonneg _)
    have h2 : (60 * sv + 3) * eR ≤ (60 * 2 ^ 42 + 3) * (1 / 2 ^ 250) :=
      mul_le_mul (by linarith) eR_le he (by norm_num)
    have h3 : (1 + uR) ^ 2 * (1 + 1 / 2 ^ 30) + (60 * 2 ^ 42 + 3) * (1 / 2 ^ 250) ≤ 1 + tauR := by
      unfold uR tauR; norm_num
    linarith
  refine ⟨normLe_of_sq_le ⟨fn1, fn2, fn3⟩ hnorm2, ?_⟩
  -- the sign
  have hθS : ((1 : ℝ) / 2 ^ 41) ^ 2 ≤ S := le_trans (by norm_num) hS81
  have hε := eps0_le
  have hdot := scaled_dot_pos (θ := 1 / 2 ^ 41) hu (by unfold uR; norm_num) he hspos eps0_nonneg (by positivity)
    hθS (le_trans hε (by norm_num)) (le_trans hε (by norm_num)) b1 b2 b3 d1 d2 d3 r1 r2 r3
  have hlow : 1 / 2 ^ 700 ≤ sv * (1 / 2 ^ 41) ^ 2 / 16 := by
    have h1 : (1 : ℝ) / 2 ^ 516 * ((1 / 2 ^ 41) ^ 2 / 16) ≤ sv * ((1 / 2 ^ 41) ^ 2 / 16) :=
      mul_le_mul_of_nonneg_right hslo (by positivity)
    have h2 : (1 : ℝ) / 2 ^ 516 * ((1 / 2 ^ 41) ^ 2 / 16) = 1 / 2 ^ 602 := by
      have : (2 : ℝ) ^ 602 = 2 ^ 516 * ((2 ^ 41) ^ 2 * 16) := by
        rw [show (16 : ℝ) = 2 ^ 4 by norm_num, ← pow_mul, ← pow_add, ← pow_add]
      rw [this]; field_simp
    have h3 : (1 : ℝ) / 2 ^ 700 ≤ 1 / 2 ^ 602 :=
      one_div_le_one_div_of_le (by positivity) (pow_le_pow_right₀ (by norm_num) (by norm_num))
    have e : sv * (1 / 2 ^ 41) ^ 2 / 16 = sv * ((1 / 2 ^ 41) ^ 2 / 16) := by ring
    linarith
  have hpos' : 0 < val ((F64.one / F64.sqrt x.norm2) * x.x) * nX a b
      + val ((F64.one / F64.sqrt x.norm2) * x.y) * nY a b
      + val ((F64.one / F64.sqrt x.norm2) * x.z) * nZ a b := by
    have := twenty_eR_lt
    linarith
  have hint := dotN_int ⟨(F64.one / F64.sqrt x.norm2) * x.x, (F64.one / F64.sqrt x.norm2) * x.y,
      (F64.one / F64.sqrt x.norm2) * x.z⟩ a b
  rw [hint] at hpos'
  have hp3 : (0 : ℝ) < (1 / 2 ^ 1074) ^ 3 := by positivity
  have : (0 : ℝ) < ((ofV3 ⟨(F64.one / F64.sqrt x.norm2) * x.x, (F64.one / F64.sqrt x.norm2) * x.y,
      (F64.one / F64.sqrt x.norm2) * x.z⟩).dot ((ofV3 a).cross (ofV3 b)) : ℝ) := by
    by_contra hn
    have hn := not_lt.mp hn
    have := mul_nonneg (by linarith : (0 : ℝ) ≤ -(2 * ((ofV3 ⟨(F64.one / F64.sqrt x.norm2) * x.x,
      (F64.one / F64.sqrt x.norm2) * x.y, (F64.one / F64.sqrt x.norm2) * x.z⟩).dot
      ((ofV3 a).cross (ofV3 b)) : ℝ))) hp3.le
    linarith
  exact_mod_cast this

end S2Proofs.FE2
