/-
  FloatErr2.CrossCore — real-analysis cores (pure ℝ) for the normal of the EdgeCrosser:
    * `comp_pert`       one component of `fl(fl(a+b) × fl(b−a))` is within `200u + 3e` of `2(a×b)_i`;
    * `scaled_dot_pos`  after scaling by a positive float factor (Normalize) the vector still has a positive
                        dot product with the exact `2(a×b)` as soon as it is not tiny;
    * `scaled_norm_le`  squared norm of the scaled vector.
-/
import S2Proofs.FloatErr.RealCore

namespace S2Proofs.FE2
open S2Proofs.FloatErr

theorem abs_mul_le' {x y X Y : ℝ} (hx : |x| ≤ X) (hy : |y| ≤ Y) : |x * y| ≤ X * Y := by
  rw [abs_mul]
  exact mul_le_mul hx hy (abs_nonneg _) (le_trans (abs_nonneg _) hx)

theorem rnd0_facts {u A X : ℝ} (hu : 0 ≤ u) (hu4 : u ≤ 1 / 4) (hA : |A| ≤ 4) (r : Rnd u 0 A X) :
    |X| ≤ 5 ∧ |X - A| ≤ 4 * u := by
  have h1 := r.abs_le
  unfold Rnd at r
  have h2 : u * |A| ≤ u * 4 := mul_le_mul_of_nonneg_left hA hu
  have h3 : u * |A| ≤ 1 / 4 * 4 := mul_le_mul hu4 hA (abs_nonneg _) (by norm_num)
  constructor
  · nlinarith [abs_nonneg A]
  · linarith

/-- one component of the float cross product of the float sum and the float difference -/
theorem comp_pert {u e A1 A2 D1 D2 X1 X2 Y1 Y2 p p' x : ℝ} (hu : 0 ≤ u) (hu4 : u ≤ 1 / 4) (he : 0 ≤ e)
    (hA1 : |A1| ≤ 4) (hA2 : |A2| ≤ 4) (hD1 : |D1| ≤ 4) (hD2 : |D2| ≤ 4)
    (rX1 : Rnd u 0 A1 X1) (rX2 : Rnd u 0 A2 X2) (rY1 : Rnd u 0 D1 Y1) (rY2 : Rnd u 0 D2 Y2)
    (rp : Rnd u e (X1 * Y2) p) (rp' : Rnd u e (X2 * Y1) p') (rx : Rnd u 0 (p - p') x) :
    |x - (A1 * D2 - A2 * D1)| ≤ 200 * u + 3 * e := by
  obtain ⟨bX1, dX1⟩ := rnd0_facts hu hu4 hA1 rX1
  obtain ⟨bX2, dX2⟩ := rnd0_facts hu hu4 hA2 rX2
  obtain ⟨bY1, dY1⟩ := rnd0_facts hu hu4 hD1 rY1
  obtain ⟨bY2, dY2⟩ := rnd0_facts hu hu4 hD2 rY2
  have t1 : |X1 * Y2 - A1 * D2| ≤ 36 * u := by
    have e1 : X1 * Y2 - A1 * D2 = (X1 - A1) * Y2 + A1 * (Y2 - D2) := by ring
    rw [e1]
    have a1 := abs_mul_le' dX1 bY2
    have a2 := abs_mul_le' hA1 dY2
    have := abs_add_le ((X1 - A1) * Y2) (A1 * (Y2 - D2))
    linarith
  have t2 : |X2 * Y1 - A2 * D1| ≤ 36 * u := by
    have e1 : X2 * Y1 - A2 * D1 = (X2 - A2) * Y1 + A2 * (Y1 - D1) := by ring
    rw [e1]
    have a1 := abs_mul_le' dX2 bY1
    have a2 := abs_mul_le' hA2 dY1
    have := abs_add_le ((X2 - A2) * Y1) (A2 * (Y1 - D1))
    linarith
  have c := cross_comp hu rp rp' rx
  have m1 : |X1 * Y2| ≤ 25 := by have := abs_mul_le' bX1 bY2; linarith
  have m2 : |X2 * Y1| ≤ 25 := by have := abs_mul_le' bX2 bY1; linarith
  have m3 : |X1 * Y2 - X2 * Y1| ≤ 50 := by have := abs_sub (X1 * Y2) (X2 * Y1); linarith
  have k1 : u * |X1 * Y2 - X2 * Y1| ≤ u * 50 := mul_le_mul_of_nonneg_left m3 hu
  have huu : u * (1 + u) ≤ u * (5 / 4) := mul_le_mul_of_nonneg_left (by linarith) hu
  have k2 : u * (1 + u) * (|X1 * Y2| + |X2 * Y1|) ≤ u * (5 / 4) * 50 :=
    mul_le_mul huu (by linarith) (by positivity) (by positivity)
  have k3 : 2 * (1 + u) * e ≤ 3 * e := by nlinarith
  have e2 : x - (A1 * D2 - A2 * D1)
      = (x - (X1 * Y2 - X2 * Y1)) + ((X1 * Y2 - A1 * D2) - (X2 * Y1 - A2 * D1)) := by ring
  rw [e2]
  have := abs_add_le (x - (X1 * Y2 - X2 * Y1)) ((X1 * Y2 - A1 * D2) - (X2 * Y1 - A2 * D1))
  have := abs_sub (X1 * Y2 - A1 * D2) (X2 * Y1 - A2 * D1)
  linarith

/-- `(pq − rt)² ≤ (p² + r²)(q² + t²)` -/
theorem cross2_sq_le (p q r t : ℝ) : (p * q - r * t) ^ 2 ≤ (p ^ 2 + r ^ 2) * (q ^ 2 + t ^ 2) := by
  have e : (p ^ 2 + r ^ 2) * (q ^ 2 + t ^ 2) - (p * q - r * t) ^ 2 = (p * t + r * q) ^ 2 := by ring
  have := sq_nonneg (p * t + r * q)
  linarith

theorem abs_le_two_of_sq_le {z : ℝ} (h : z ^ 2 ≤ 4) : |z| ≤ 2 := by
  apply le_of_sq_le (abs_nonneg z) (by norm_num)
  rw [sq_abs]; linarith

/-! ### scaling by a positive factor (Normalize) -/

section scaled
variable {u e s ε0 x1 x2 x3 N1 N2 N3 n1 n2 n3 : ℝ}

theorem scaled_term (hu : 0 ≤ u) (he : 0 ≤ e) (hs : 0 < s) (hε : 0 ≤ ε0)
    (hd : |x1 - N1| ≤ ε0) (hn : |n1 - s * x1| ≤ u * (s * |x1|) + e) :
    s * (1 - u) * x1 ^ 2 - e * |x1| - ε0 * (s * (1 + u) * |x1| + e) ≤ n1 * N1 := by
  have e1 : n1 * N1 = s * x1 ^ 2 + (n1 - s * x1) * x1 - n1 * (x1 - N1) := by ring
  have a1 : |(n1 - s * x1) * x1| ≤ (u * (s * |x1|) + e) * |x1| := by
    rw [abs_mul]; exact mul_le_mul_of_nonneg_right hn (abs_nonneg _)
  have hn1 : |n1| ≤ s * |x1| + (u * (s * |x1|) + e) := by
    have := abs_sub_abs_le_abs_sub n1 (s * x1)
    rw [abs_mul, abs_of_pos hs] at this
    linarith
  have a2 : |n1 * (x1 - N1)| ≤ (s * |x1| + (u * (s * |x1|) + e)) * ε0 := by
    rw [abs_mul]
    exact mul_le_mul hn1 hd (abs_nonneg _) (by positivity)
  have b1 := neg_abs_le ((n1 - s * x1) * x1)
  have b2 := le_abs_self (n1 * (x1 - N1))
  have sq : |x1| * |x1| = x1 ^ 2 := by rw [← abs_mul, ← sq, abs_of_nonneg (sq_nonneg _)]
  have c1 : (u * (s * |x1|) + e) * |x1| = u * s * x1 ^ 2 + e * |x1| := by
    rw [← sq]; ring
  have c2 : (s * |x1| + (u * (s * |x1|) + e)) * ε0 = ε0 * (s * (1 + u) * |x1| + e) := by ring
  have c3 : s * (1 - u) * x1 ^ 2 = s * x1 ^ 2 - u * s * x1 ^ 2 := by ring
  rw [e1]
  linarith

/-- the scaled float vector keeps a positive dot product with the exact vector `N` -/
theorem scaled_dot_pos {θ : ℝ} (hu : 0 ≤ u) (hu100 : u ≤ 1 / 100) (he : 0 ≤ e) (hs : 0 < s) (hε : 0 ≤ ε0)
    (hθ : 0 < θ) (hθS : θ ^ 2 ≤ x1 ^ 2 + x2 ^ 2 + x3 ^ 2) (hεθ : ε0 ≤ θ / 4) (hε1 : ε0 ≤ 1)
    (b1 : |x1| ≤ 5) (b2 : |x2| ≤ 5) (b3 : |x3| ≤ 5)
    (d1 : |x1 - N1| ≤ ε0) (d2 : |x2 - N2| ≤ ε0) (d3 : |x3 - N3| ≤ ε0)
    (r1 : |n1 - s * x1| ≤ u * (s * |x1|) + e) (r2 : |n2 - s * x2| ≤ u * (s * |x2|) + e)
    (r3 : |n3 - s * x3| ≤ u * (s * |x3|) + e) :
    s * θ ^ 2 / 16 - 20 * e ≤ n1 * N1 + n2 * N2 + n3 * N3 := by
  have t1 := scaled_term hu he hs hε d1 r1
  have t2 := scaled_term hu he hs hε d2 r2
  have t3 := scaled_term hu he hs hε d3 r3
  set σ := |x1| + |x2| + |x3| with hσ
  set S := x1 ^ 2 + x2 ^ 2 + x3 ^ 2 with hS
  have a1 := abs_nonneg x1
  have a2 := abs_nonneg x2
  have a3 := abs_nonneg x3
  have hσ0 : 0 ≤ σ := by rw [hσ]; positivity
  have hσ15 : σ ≤ 15 := by rw [hσ]; linarith
  -- σ² ≥ S ≥ θ², 3S ≥ σ²
  have q1 : x1 ^ 2 = |x1| ^ 2 := (sq_abs x1).symm
  have q2 : x2 ^ 2 = |x2| ^ 2 := (sq_abs x2).symm
  have q3 : x3 ^ 2 = |x3| ^ 2 := (sq_abs x3).symm
  have hσS : S ≤ σ ^ 2 := by
    have e : σ ^ 2 = S + 2 * (|x1| * |x2|) + 2 * (|x1| * |x3|) + 2 * (|x2| * |x3|) := by
      rw [hS, hσ, q1, q2, q3]; ring
    have := mul_nonneg a1 a2
    have := mul_nonneg a1 a3
    have := mul_nonneg a2 a3
    linarith
  have h3S : σ ^ 2 ≤ 3 * S := by
    have e : 3 * S - σ ^ 2 = (|x1| - |x2|) ^ 2 + (|x1| - |x3|) ^ 2 + (|x2| - |x3|) ^ 2 := by
      rw [hS, hσ, q1, q2, q3]; ring
    have := sq_nonneg (|x1| - |x2|)
    have := sq_nonneg (|x1| - |x3|)
    have := sq_nonneg (|x2| - |x3|)
    linarith
  have hσθ : θ ≤ σ := le_of_sq_le hθ.le hσ0 (le_trans hθS hσS)
  -- total
  have tot : s * (1 - u) * S - e * σ - ε0 * (s * (1 + u) * σ) - 3 * (ε0 * e) ≤ n1 * N1 + n2 * N2 + n3 * N3 := by
    have e1 : s * (1 - u) * S - e * σ - ε0 * (s * (1 + u) * σ) - 3 * (ε0 * e)
        = (s * (1 - u) * x1 ^ 2 - e * |x1| - ε0 * (s * (1 + u) * |x1| + e))
        + (s * (1 - u) * x2 ^ 2 - e * |x2| - ε0 * (s * (1 + u) * |x2| + e))
        + (s * (1 - u) * x3 ^ 2 - e * |x3| - ε0 * (s * (1 + u) * |x3| + e)) := by
      rw [hS, hσ]; ring
    linarith
  have he1 : e * σ ≤ 15 * e := by
    have := mul_le_mul_of_nonneg_left hσ15 he; linarith
  have he2 : 3 * (ε0 * e) ≤ 3 * e := by
    have := mul_le_mul_of_nonneg_right hε1 he; linarith
  -- main term: s·[(1−u)S − (1+u)ε0σ] ≥ s·σ·θ·(1/12 − 7u/12) ≥ s·θ²/16
  have hS3 : σ * θ ≤ 3 * S := by
    have h1 : σ * θ ≤ σ * σ := mul_le_mul_of_nonneg_left hσθ hσ0
    have h2 : σ * σ = σ ^ 2 := by ring
    linarith
  have hu1 : 0 ≤ 1 - u := by linarith
  have m1 : (1 - u) * (σ * θ) ≤ (1 - u) * (3 * S) := mul_le_mul_of_nonneg_left hS3 hu1
  have m2 : (1 + u) * (ε0 * σ) ≤ (1 + u) * (θ / 4 * σ) :=
    mul_le_mul_of_nonneg_left (mul_le_mul_of_nonneg_right hεθ hσ0) (by linarith)
  have hσθ2 : θ * θ ≤ σ * θ := mul_le_mul_of_nonneg_right hσθ hθ.le
  have key : θ ^ 2 / 16 ≤ (1 - u) * S - (1 + u) * (ε0 * σ) := by
    have hst : 0 ≤ σ * θ := mul_nonneg hσ0 hθ.le
    have hust : u * (σ * θ) ≤ 1 / 100 * (σ * θ) := mul_le_mul_of_nonneg_right hu100 hst
    have e1 : (1 - u) * (σ * θ) = σ * θ - u * (σ * θ) := by ring
    have e2 : (1 - u) * (3 * S) = 3 * ((1 - u) * S) := by ring
    have e3 : (1 + u) * (θ / 4 * σ) = σ * θ / 4 + u * (σ * θ) / 4 := by ring
    have e4 : θ * θ = θ ^ 2 := by ring
    linarith [sq_nonneg θ]
  have h5 := mul_le_mul_of_nonneg_left key hs.le
  have e5 : s * ((1 - u) * S - (1 + u) * (ε0 * σ)) = s * (1 - u) * S - ε0 * (s * (1 + u) * σ) := by ring
  have e6 : s * (θ ^ 2 / 16) = s * θ ^ 2 / 16 := by ring
  linarith

/-- squared norm of the scaled vector -/
theorem scaled_norm_le (hu : 0 ≤ u) (hu1 : u ≤ 1) (he : 0 ≤ e) (he1 : e ≤ 1) (hs : 0 < s)
    (b1 : |x1| ≤ 5) (b2 : |x2| ≤ 5) (b3 : |x3| ≤ 5)
    (r1 : |n1 - s * x1| ≤ u * (s * |x1|) + e) (r2 : |n2 - s * x2| ≤ u * (s * |x2|) + e)
    (r3 : |n3 - s * x3| ≤ u * (s * |x3|) + e) :
    n1 ^ 2 + n2 ^ 2 + n3 ^ 2 ≤ (1 + u) ^ 2 * (s ^ 2 * (x1 ^ 2 + x2 ^ 2 + x3 ^ 2)) + (60 * s + 3) * e := by
  have term : ∀ {x n : ℝ}, |x| ≤ 5 → |n - s * x| ≤ u * (s * |x|) + e →
      n ^ 2 ≤ (1 + u) ^ 2 * (s ^ 2 * x ^ 2) + (20 * s + 1) * e := by
    intro x n b r
    have hn : |n| ≤ (1 + u) * (s * |x|) + e := by
      have := abs_sub_abs_le_abs_sub n (s * x)
      rw [abs_mul, abs_of_pos hs] at this
      linarith
    have h0 : 0 ≤ (1 + u) * (s * |x|) := by positivity
    have hsq : n ^ 2 ≤ ((1 + u) * (s * |x|) + e) ^ 2 := by
      rw [← sq_abs n]
      exact pow_le_pow_left₀ (abs_nonneg n) hn 2
    have hx2 : |x| ^ 2 = x ^ 2 := sq_abs x
    have e1 : ((1 + u) * (s * |x|) + e) ^ 2
        = (1 + u) ^ 2 * (s ^ 2 * x ^ 2) + 2 * ((1 + u) * (s * |x|)) * e + e * e := by
      rw [← hx2]; ring
    have h1 : (1 + u) * (s * |x|) ≤ 2 * (s * 5) :=
      mul_le_mul (by linarith) (mul_le_mul_of_nonneg_left b hs.le) (by positivity) (by norm_num)
    have h2 : 2 * ((1 + u) * (s * |x|)) * e ≤ 2 * (2 * (s * 5)) * e :=
      mul_le_mul_of_nonneg_right (by linarith) he
    have h3 : e * e ≤ 1 * e := mul_le_mul_of_nonneg_right he1 he
    linarith
  have := term b1 r1
  have := term b2 r2
  have := term b3 r3
  have e2 : (1 + u) ^ 2 * (s ^ 2 * (x1 ^ 2 + x2 ^ 2 + x3 ^ 2))
      = (1 + u) ^ 2 * (s ^ 2 * x1 ^ 2) + (1 + u) ^ 2 * (s ^ 2 * x2 ^ 2) + (1 + u) ^ 2 * (s ^ 2 * x3 ^ 2) := by ring
  linarith

end scaled

end S2Proofs.FE2
