/-
  FloatErr2.Tangent — soundness of the outward-tangent early rejection of the (repaired) EdgeCrosser:

      tangentReject (tangents a b).1 (tangents a b).2 c d = true  →  exactCrossing a b c d = -1

  for ALL finite float points a b c d of squared norm ≤ 1 + 2^-16 (`NormLe`; every unit-ish point qualifies).
  Ingredients: `Normal.normal_spec` (the computed unit normal n is `NormLe` and n·(a×b) > 0),
  `FloatErr.float_det_error` (the float value of `c·(a×n)` is the determinant det(a,n,c) up to
  f·|det| + 3.654785·u — the SAME chain as `triageSign`), the constant `4.15·u ≤ maxError`, and
  `Geom.sos_no_cross`.
-/
import S2Proofs.FloatErr2.Geom
import S2Proofs.FloatErr2.Normal
import S2Proofs.FloatErr.DotProd
import S2Proofs.F64Sym

namespace S2Proofs.FE2
open S2 S2.Exact S2.Pred S2.Crossing S2Proofs.F64Order S2Proofs.PredLemmas S2Proofs.FloatErr

/-! ### from a separating plane to the specification -/

theorem exactCrossing_of_separation (a b c d : V3) (fa : Fin3 a) (fb : Fin3 b) (fc : Fin3 c) (fd : Fin3 d)
    (T W : IV3)
    (hTa : T.dot (ofV3 a) ≤ 0) (hTb : T.dot (ofV3 b) ≤ 0) (hTc : 0 < T.dot (ofV3 c)) (hTd : 0 < T.dot (ofV3 d))
    (hWa : 0 < W.dot (ofV3 a)) (hWb : 0 < W.dot (ofV3 b)) :
    exactCrossing a b c d = -1 := by
  have hno := sos_no_cross (ofV3 a) (ofV3 b) (ofV3 c) (ofV3 d) T W hTa hTb hTc hTd hWa hWb
  have ne : ∀ {p q : V3}, Fin3 p → Fin3 q → T.dot (ofV3 p) ≤ 0 → 0 < T.dot (ofV3 q) → V3.feq p q = false := by
    intro p q fp fq h1 h2
    cases h : V3.feq p q
    · rfl
    · have := (v3feq_iff fp fq).mp h
      rw [this] at h1
      omega
  have hsh : sharesEndpoint a b c d = false := by
    unfold sharesEndpoint
    rw [ne fa fc hTa hTc, ne fa fd hTa hTd, ne fb fc hTb hTc, ne fb fd hTb hTd]
    rfl
  have h4 : ¬ (fourSameWith exactDecision a b c d = true) := by
    intro h
    apply hno
    unfold fourSameWith at h
    simp only [Bool.and_eq_true, bne_iff_ne, beq_iff_eq, ne_eq] at h
    rw [C02.exactDecision_eq_exactDecisionI a c b fa fc fb, C02.exactDecision_eq_exactDecisionI c b d fc fb fd,
      C02.exactDecision_eq_exactDecisionI b d a fb fd fa, C02.exactDecision_eq_exactDecisionI d a c fd fa fc] at h
    exact ⟨h.1.1.1, h.1.1.2, h.1.2, h.2⟩
  simp [exactCrossing, exactCrossingWith, hsh, h4]

/-! ### the constant -/

/-- `4.15·2^-53 ≤ maxError = (1.5 + 1/√3)·dblEpsilon` (float value, computed by the soft-float) -/
theorem maxError_facts : Fin Crossing.maxError ∧ 415 / 100 * uR ≤ val Crossing.maxError := by
  have h : Fin Crossing.maxError ∧ (415 : ℤ) * 2 ^ 1074 ≤ toInt Crossing.maxError * (100 * 2 ^ 53) := by
    decide +kernel
  refine ⟨h.1, ?_⟩
  have h' : (415 : ℝ) * 2 ^ 1074 ≤ (toInt Crossing.maxError : ℝ) * (100 * 2 ^ 53) := by exact_mod_cast h.2
  unfold val uR
  rw [div_mul_div_comm, div_le_div_iff₀ (by positivity) (by positivity)]
  linarith

/-- `maxError ≤ 4.16·2^-53`: the slack above the rigorous constant `3.654785·u` is about `0.5·u` -/
theorem maxError_le : val Crossing.maxError ≤ 416 / 100 * uR := by
  have h : toInt Crossing.maxError * (100 * 2 ^ 53) ≤ (416 : ℤ) * 2 ^ 1074 := by decide +kernel
  have h' : (toInt Crossing.maxError : ℝ) * (100 * 2 ^ 53) ≤ (416 : ℝ) * 2 ^ 1074 := by exact_mod_cast h
  unfold val uR
  rw [div_mul_div_comm, div_le_div_iff₀ (by positivity) (by positivity)]
  linarith

/-! ### one side test -/

theorem dot_comm' (c t : V3) : c.dot t = t.dot c := by
  unfold V3.dot
  show F64.add (F64.add (F64.mul c.x t.x) (F64.mul c.y t.y)) (F64.mul c.z t.z)
    = F64.add (F64.add (F64.mul t.x c.x) (F64.mul t.y c.y)) (F64.mul t.z c.z)
  rw [F64Sym.mul_comm c.x, F64Sym.mul_comm c.y, F64Sym.mul_comm c.z]

/-- if the float `c · (p × q)` exceeds `maxError` then the exact determinant det(p,q,c) is positive -/
theorem side_pos (p q c : V3) (hp : NormLe p) (hq : NormLe q) (hc : NormLe c)
    (h : F64.gt (c.dot (p.cross q)) Crossing.maxError = true) :
    0 < det3 (ofV3 p) (ofV3 q) (ofV3 c) := by
  obtain ⟨hfin, hE⟩ := float_det_error stdModel p q c hp hq hc
  obtain ⟨fm, hm⟩ := maxError_facts
  have hK : kR ≤ val Crossing.maxError :=
    le_trans kR_le (le_trans (by have := uR_nonneg; nlinarith) hm)
  obtain ⟨hpos, _⟩ := sign_of_error_bound fU_lt_one hE hK
  rw [dot_comm'] at h
  have h' := (gt_iff hfin fm).mp h
  exact (det_pos_iff p q c).mp (hpos ((val_lt_iff _ _).mpr h'))

/-- with a zero tangent the test never succeeds -/
theorem side_zero (c : V3) (hc : NormLe c) : F64.gt (c.dot zero3) Crossing.maxError = false := by
  have hz : Fin3 zero3 ∧ toInt zero3.x = 0 ∧ toInt zero3.y = 0 ∧ toInt zero3.z = 0 := by decide
  have vz : val zero3.x = 0 ∧ val zero3.y = 0 ∧ val zero3.z = 0 := by
    unfold val; rw [hz.2.1, hz.2.2.1, hz.2.2.2]; simp
  have mz : |val zero3.x| ≤ 2 ∧ |val zero3.y| ≤ 2 ∧ |val zero3.z| ≤ 2 := by
    rw [vz.1, vz.2.1, vz.2.2]; simp
  obtain ⟨hfin, hE⟩ := dotChain_of_stdModel stdModel c zero3 hc.1 hz.1 hc.coord_le mz
  rw [vz.1, vz.2.1, vz.2.2] at hE
  simp only [mul_zero, add_zero, abs_zero, sub_zero] at hE
  obtain ⟨fm, hm⟩ := maxError_facts
  cases hg : F64.gt (c.dot zero3) Crossing.maxError
  · rfl
  · have h' := (gt_iff hfin fm).mp hg
    have hv : val Crossing.maxError < val (c.dot zero3) := (val_lt_iff _ _).mpr h'
    have h1 := le_abs_self (val (c.dot zero3))
    have hh : hU uR * eR ≤ 4 * eR := by
      apply mul_le_mul_of_nonneg_right _ eR_nonneg
      unfold hU uR; norm_num
    have he : 4 * eR < 415 / 100 * uR := by
      have := eR_le
      have h2 : (4 : ℝ) * (1 / 2 ^ 250) < 415 / 100 * (1 / 2 ^ 53) := by norm_num
      unfold uR; linarith
    linarith

/-! ### the theorem -/

theorem tangents_eq (a b : V3) : tangents a b =
    if F64.ge (rawX a b).norm2 minTangentNorm2 then
      (a.cross (rawX a b).normalize, (rawX a b).normalize.cross b) else (zero3, zero3) := rfl

theorem cross_norm2_pos {X N : IV3} (h : 0 < N.dot X) : 0 < X.norm2 := by
  unfold IV3.norm2 IV3.dot at *
  by_contra hn
  have hn := not_lt.mp hn
  have h1 := mul_self_nonneg X.x
  have h2 := mul_self_nonneg X.y
  have h3 := mul_self_nonneg X.z
  have e1 : X.x * X.x = 0 := by omega
  have e2 : X.y * X.y = 0 := by omega
  have e3 : X.z * X.z = 0 := by omega
  have z1 : X.x = 0 := mul_self_eq_zero.mp e1
  have z2 : X.y = 0 := mul_self_eq_zero.mp e2
  have z3 : X.z = 0 := mul_self_eq_zero.mp e3
  rw [z1, z2, z3] at h
  simp at h

/-- the vector `W = (B·B − A·B)·A + (A·A − A·B)·B` has `W·A = W·B = |A×B|²` -/
def wVec (A B : IV3) : IV3 := (A.smul (B.dot B - A.dot B)).add (B.smul (A.dot A - A.dot B))

theorem wVec_dot (A B : IV3) : (wVec A B).dot A = (A.cross B).norm2 ∧ (wVec A B).dot B = (A.cross B).norm2 := by
  constructor <;> (simp only [wVec, IV3.norm2, IV3.dot, IV3.add, IV3.smul, IV3.cross]; ring)

/-- separation by the tangent plane at A (normal `A × N`) -/
theorem sep_at_A {A B N C D : IV3} (hP : 0 < N.dot (A.cross B)) (hc : 0 < det3 A N C) (hd : 0 < det3 A N D) :
    (A.cross N).dot A ≤ 0 ∧ (A.cross N).dot B ≤ 0 ∧ 0 < (A.cross N).dot C ∧ 0 < (A.cross N).dot D ∧
    0 < (wVec A B).dot A ∧ 0 < (wVec A B).dot B := by
  have hX : 0 < (A.cross B).norm2 := cross_norm2_pos hP
  have e1 : (A.cross N).dot A = 0 := by simp only [IV3.dot, IV3.cross]; ring
  have e2 : (A.cross N).dot B = -(N.dot (A.cross B)) := by simp only [IV3.dot, IV3.cross]; ring
  have e3 : (A.cross N).dot C = det3 A N C := by simp only [det3, IV3.dot, IV3.cross]; ring
  have e4 : (A.cross N).dot D = det3 A N D := by simp only [det3, IV3.dot, IV3.cross]; ring
  rw [e1, e2, e3, e4, (wVec_dot A B).1, (wVec_dot A B).2]
  exact ⟨le_refl _, by omega, hc, hd, hX, hX⟩

/-- separation by the tangent plane at B (normal `N × B`) -/
theorem sep_at_B {A B N C D : IV3} (hP : 0 < N.dot (A.cross B)) (hc : 0 < det3 N B C) (hd : 0 < det3 N B D) :
    (N.cross B).dot A ≤ 0 ∧ (N.cross B).dot B ≤ 0 ∧ 0 < (N.cross B).dot C ∧ 0 < (N.cross B).dot D ∧
    0 < (wVec A B).dot A ∧ 0 < (wVec A B).dot B := by
  have hX : 0 < (A.cross B).norm2 := cross_norm2_pos hP
  have e1 : (N.cross B).dot A = -(N.dot (A.cross B)) := by simp only [IV3.dot, IV3.cross]; ring
  have e2 : (N.cross B).dot B = 0 := by simp only [IV3.dot, IV3.cross]; ring
  have e3 : (N.cross B).dot C = det3 N B C := by simp only [det3, IV3.dot, IV3.cross]; ring
  have e4 : (N.cross B).dot D = det3 N B D := by simp only [det3, IV3.dot, IV3.cross]; ring
  rw [e1, e2, e3, e4, (wVec_dot A B).1, (wVec_dot A B).2]
  exact ⟨by omega, le_refl _, hc, hd, hX, hX⟩

/-- **The outward-tangent rejection of the repaired EdgeCrosser is sound**: it rejects only quadruples
    whose exact answer is DoNotCross.  All finite float points of squared norm ≤ 1 + 2^-16. -/
theorem tangentReject_sound (a b c d : V3) (ha : NormLe a) (hb : NormLe b) (hc : NormLe c) (hd : NormLe d)
    (h : tangentReject (tangents a b).1 (tangents a b).2 c d = true) : exactCrossing a b c d = -1 := by
  rw [tangents_eq] at h
  by_cases hg : F64.ge (rawX a b).norm2 minTangentNorm2 = true
  · rw [if_pos hg] at h
    obtain ⟨hn, hP⟩ := normal_spec a b ha hb hg
    unfold tangentReject at h
    simp only [Bool.or_eq_true, Bool.and_eq_true] at h
    rcases h with ⟨h1, h2⟩ | ⟨h1, h2⟩
    · have dc := side_pos a _ c ha hn hc h1
      have dd := side_pos a _ d ha hn hd h2
      obtain ⟨t1, t2, t3, t4, w1, w2⟩ := sep_at_A hP dc dd
      exact exactCrossing_of_separation a b c d ha.1 hb.1 hc.1 hd.1 _ _ t1 t2 t3 t4 w1 w2
    · have dc := side_pos _ b c hn hb hc h1
      have dd := side_pos _ b d hn hb hd h2
      obtain ⟨t1, t2, t3, t4, w1, w2⟩ := sep_at_B hP dc dd
      exact exactCrossing_of_separation a b c d ha.1 hb.1 hc.1 hd.1 _ _ t1 t2 t3 t4 w1 w2
  · rw [if_neg hg] at h
    unfold tangentReject at h
    rw [side_zero c hc] at h
    simp at h

end S2Proofs.FE2
