/-
  FloatErr2.Geom — the geometric core of the outward-tangent rejection of the EdgeCrosser, in EXACT
  arithmetic and including all degenerate configurations (decided by the library's symbolic perturbation).

  `sos_no_cross`: let `a b c d` be integer vectors, `T` a vector with  T·a ≤ 0, T·b ≤ 0, T·c > 0, T·d > 0
  (a plane separating the edge AB from the edge CD, AB possibly touching it) and `W` a vector with
  W·a > 0, W·b > 0 (A and B are not antipodal).  Then the four-orientation criterion of the exact decision
  `exactDecisionI` (exact determinant sign + symbolic perturbation) does NOT say "cross".

  Proof: by `C02.sos_global_list` the four decisions are the orientation signs of the four points moved by
  ONE perturbation of size ≤ ε each; if they were equal and non-zero, the Grassmann–Plücker identity gives
  positive x₁..x₄ with  x₃·C + x₁·D = x₂·A + x₄·B ; applying T and W gives  (x₃+x₁)·m ≤ (x₂+x₄)·η  and
  (x₂+x₄)·n ≤ (x₃+x₁)·K  with m, n ≥ 1/2 and η → 0 with ε: contradiction.
-/
import Mathlib.Tactic.FieldSimp
import S2Proofs.Properties.C02_Global

namespace S2Proofs.FE2
open S2 S2.Exact S2.Pred S2Proofs.PredLemmas S2Proofs.C02

/-- dot product of real triples -/
def dotR (t p : ℝ × ℝ × ℝ) : ℝ := t.1 * p.1 + t.2.1 * p.2.1 + t.2.2 * p.2.2

/-- integer vector as a real triple -/
def tR (t : IV3) : ℝ × ℝ × ℝ := ((t.x : ℝ), (t.y : ℝ), (t.z : ℝ))

/-- Grassmann–Plücker: `[BDA]·C + [ACB]·D = [CBD]·A + [DAC]·B`, applied to a linear functional -/
theorem grassmann (A B C D T : ℝ × ℝ × ℝ) :
    detR B D A * dotR T C + detR A C B * dotR T D = detR C B D * dotR T A + detR D A C * dotR T B := by
  unfold detR dotR; ring

theorem four_pos_contra {x1 x2 x3 x4 LA LB LC LD NA NB NC ND m n K η : ℝ}
    (h1 : 0 < x1) (h2 : 0 < x2) (h3 : 0 < x3) (h4 : 0 < x4)
    (hL : x3 * LC + x1 * LD = x2 * LA + x4 * LB) (hN : x3 * NC + x1 * ND = x2 * NA + x4 * NB)
    (hm : 0 < m) (hn : 0 < n) (hη : 0 ≤ η) (hlt : K * η < m * n)
    (hC : m ≤ LC) (hD : m ≤ LD) (hA : LA ≤ η) (hB : LB ≤ η)
    (hA' : n ≤ NA) (hB' : n ≤ NB) (hC' : NC ≤ K) (hD' : ND ≤ K) : False := by
  have e1 : (x3 + x1) * m ≤ (x2 + x4) * η := by
    have a1 : x3 * m ≤ x3 * LC := mul_le_mul_of_nonneg_left hC h3.le
    have a2 : x1 * m ≤ x1 * LD := mul_le_mul_of_nonneg_left hD h1.le
    have a3 : x2 * LA ≤ x2 * η := mul_le_mul_of_nonneg_left hA h2.le
    have a4 : x4 * LB ≤ x4 * η := mul_le_mul_of_nonneg_left hB h4.le
    nlinarith
  have e2 : (x2 + x4) * n ≤ (x3 + x1) * K := by
    have a1 : x3 * NC ≤ x3 * K := mul_le_mul_of_nonneg_left hC' h3.le
    have a2 : x1 * ND ≤ x1 * K := mul_le_mul_of_nonneg_left hD' h1.le
    have a3 : x2 * n ≤ x2 * NA := mul_le_mul_of_nonneg_left hA' h2.le
    have a4 : x4 * n ≤ x4 * NB := mul_le_mul_of_nonneg_left hB' h4.le
    nlinarith
  have hP : 0 < x3 + x1 := by linarith
  have e3 : (x3 + x1) * m * n ≤ (x2 + x4) * η * n := mul_le_mul_of_nonneg_right e1 hn.le
  have e4 : η * ((x2 + x4) * n) ≤ η * ((x3 + x1) * K) := mul_le_mul_of_nonneg_left e2 hη
  have e5 : (x3 + x1) * (m * n - K * η) ≤ 0 := by nlinarith
  have e6 : 0 < (x3 + x1) * (m * n - K * η) := mul_pos hP (by linarith)
  linarith

/-- the separation argument for four real points whose four orientations have the same strict sign -/
theorem four_same_contra {A B C D T W : ℝ × ℝ × ℝ} {m n K η : ℝ}
    (hs : (0 < detR A C B ∧ 0 < detR C B D ∧ 0 < detR B D A ∧ 0 < detR D A C) ∨
          (detR A C B < 0 ∧ detR C B D < 0 ∧ detR B D A < 0 ∧ detR D A C < 0))
    (hm : 0 < m) (hn : 0 < n) (hη : 0 ≤ η) (hlt : K * η < m * n)
    (hC : m ≤ dotR T C) (hD : m ≤ dotR T D) (hA : dotR T A ≤ η) (hB : dotR T B ≤ η)
    (hA' : n ≤ dotR W A) (hB' : n ≤ dotR W B) (hC' : dotR W C ≤ K) (hD' : dotR W D ≤ K) : False := by
  have gL := grassmann A B C D T
  have gN := grassmann A B C D W
  rcases hs with ⟨h1, h2, h3, h4⟩ | ⟨h1, h2, h3, h4⟩
  · exact four_pos_contra h1 h2 h3 h4 gL gN hm hn hη hlt hC hD hA hB hA' hB' hC' hD'
  · refine four_pos_contra (x1 := -detR A C B) (x2 := -detR C B D) (x3 := -detR B D A) (x4 := -detR D A C)
      (by linarith) (by linarith) (by linarith) (by linarith) ?_ ?_ hm hn hη hlt hC hD hA hB hA' hB' hC' hD'
    · linarith
    · linarith

/-! ### the perturbed points are close to the original ones -/

theorem pow_le_self_of_le_one {ε : ℝ} (h0 : 0 ≤ ε) (h1 : ε ≤ 1) {k : ℕ} (hk : 1 ≤ k) : ε ^ k ≤ ε := by
  obtain ⟨j, rfl⟩ : ∃ j, k = j + 1 := ⟨k - 1, by omega⟩
  rw [pow_succ]
  have : ε ^ j ≤ 1 := pow_le_one₀ h0 h1
  nlinarith

theorem pow8_pos (r : ℕ) : 1 ≤ 8 ^ r := Nat.one_le_two_pow.trans (Nat.pow_le_pow_left (by decide) r)

/-- `T·(p + perturbation) = T·p + δ`, `|δ| ≤ (|T.x|+|T.y|+|T.z|)·ε` -/
theorem dot_perturb (T p : IV3) (r : ℕ) {ε : ℝ} (h0 : 0 ≤ ε) (h1 : ε ≤ 1) :
    |dotR (tR T) (perturbRank p r ε) - (T.dot p : ℝ)| ≤ (|(T.x : ℝ)| + |(T.y : ℝ)| + |(T.z : ℝ)|) * ε := by
  have k1 : 1 ≤ 4 * 8 ^ r := by have := pow8_pos r; omega
  have k2 : 1 ≤ 2 * 8 ^ r := by have := pow8_pos r; omega
  have k3 : 1 ≤ 8 ^ r := pow8_pos r
  have p1 := pow_le_self_of_le_one h0 h1 k1
  have p2 := pow_le_self_of_le_one h0 h1 k2
  have p3 := pow_le_self_of_le_one h0 h1 k3
  have q1 : 0 ≤ ε ^ (4 * 8 ^ r) := pow_nonneg h0 _
  have q2 : 0 ≤ ε ^ (2 * 8 ^ r) := pow_nonneg h0 _
  have q3 : 0 ≤ ε ^ (8 ^ r) := pow_nonneg h0 _
  have e : dotR (tR T) (perturbRank p r ε) - (T.dot p : ℝ)
      = (T.x : ℝ) * ε ^ (4 * 8 ^ r) + (T.y : ℝ) * ε ^ (2 * 8 ^ r) + (T.z : ℝ) * ε ^ (8 ^ r) := by
    unfold dotR tR perturbRank perturb IV3.dot
    push_cast
    ring
  rw [e]
  have t1 : |(T.x : ℝ) * ε ^ (4 * 8 ^ r)| ≤ |(T.x : ℝ)| * ε := by
    rw [abs_mul, abs_of_nonneg q1]; exact mul_le_mul_of_nonneg_left p1 (abs_nonneg _)
  have t2 : |(T.y : ℝ) * ε ^ (2 * 8 ^ r)| ≤ |(T.y : ℝ)| * ε := by
    rw [abs_mul, abs_of_nonneg q2]; exact mul_le_mul_of_nonneg_left p2 (abs_nonneg _)
  have t3 : |(T.z : ℝ) * ε ^ (8 ^ r)| ≤ |(T.z : ℝ)| * ε := by
    rw [abs_mul, abs_of_nonneg q3]; exact mul_le_mul_of_nonneg_left p3 (abs_nonneg _)
  have := abs_add_three ((T.x : ℝ) * ε ^ (4 * 8 ^ r)) ((T.y : ℝ) * ε ^ (2 * 8 ^ r)) ((T.z : ℝ) * ε ^ (8 ^ r))
  nlinarith

theorem rsgn_eq_one {x : ℝ} (h : rsgn x = 1) : 0 < x := by
  unfold rsgn at h
  by_contra hn
  rw [if_neg hn] at h
  split at h <;> omega

theorem rsgn_eq_neg_one {x : ℝ} (h : rsgn x = -1) : x < 0 := by
  unfold rsgn at h
  by_cases hp : 0 < x
  · rw [if_pos hp] at h; omega
  · rw [if_neg hp] at h
    by_contra hn
    rw [if_neg hn] at h; omega

theorem rsgn_cases (x : ℝ) : rsgn x = 1 ∨ rsgn x = -1 ∨ rsgn x = 0 := by
  unfold rsgn; split
  · left; rfl
  · split
    · right; left; rfl
    · right; right; rfl

/-- **No crossing across a separating plane, in exact arithmetic with the symbolic perturbation.** -/
theorem sos_no_cross (a b c d T W : IV3)
    (hTa : T.dot a ≤ 0) (hTb : T.dot b ≤ 0) (hTc : 0 < T.dot c) (hTd : 0 < T.dot d)
    (hWa : 0 < W.dot a) (hWb : 0 < W.dot b) :
    ¬ (exactDecisionI a c b ≠ 0 ∧ exactDecisionI c b d = exactDecisionI a c b ∧
       exactDecisionI b d a = exactDecisionI a c b ∧ exactDecisionI d a c = exactDecisionI a c b) := by
  rintro ⟨h0, h2, h3, h4⟩
  set pts : List IV3 := [a, b, c, d] with hpts
  obtain ⟨ε₀, hε₀, H⟩ := sos_global_list pts
  have ma : a ∈ pts := by simp [hpts]
  have mb : b ∈ pts := by simp [hpts]
  have mc : c ∈ pts := by simp [hpts]
  have md : d ∈ pts := by simp [hpts]
  set ℓ : ℝ := |(T.x : ℝ)| + |(T.y : ℝ)| + |(T.z : ℝ)| with hℓ
  set ω : ℝ := |(W.x : ℝ)| + |(W.y : ℝ)| + |(W.z : ℝ)| with hω
  set M : ℝ := 1 + ℓ + ω + |(W.dot c : ℝ)| + |(W.dot d : ℝ)| with hM
  have hℓ0 : 0 ≤ ℓ := by rw [hℓ]; positivity
  have hω0 : 0 ≤ ω := by rw [hω]; positivity
  have hM1 : 1 ≤ M := by
    rw [hM]; have := abs_nonneg (W.dot c : ℝ); have := abs_nonneg (W.dot d : ℝ); linarith
  have hMpos : 0 < M := by linarith
  have hMM : 0 < 8 * M * M := by positivity
  set ε : ℝ := min (ε₀ / 2) (1 / (8 * M * M)) with hε
  have hεpos : 0 < ε := lt_min (by linarith) (by positivity)
  have hεlt : ε < ε₀ := lt_of_le_of_lt (min_le_left _ _) (by linarith)
  have hεM : ε ≤ 1 / (8 * M * M) := min_le_right _ _
  have hεM' : ε * M ≤ 1 / (8 * M) := by
    have := mul_le_mul_of_nonneg_right hεM hMpos.le
    have e : 1 / (8 * M * M) * M = 1 / (8 * M) := by field_simp
    linarith
  have h8M : 1 / (8 * M) ≤ 1 / 8 := by
    rw [div_le_div_iff₀ (by positivity) (by norm_num)]; linarith
  have hε1 : ε ≤ 1 := by
    have : ε * 1 ≤ ε * M := mul_le_mul_of_nonneg_left hM1 hεpos.le
    linarith
  have hℓM : ℓ ≤ M := by
    rw [hM]; have := abs_nonneg (W.dot c : ℝ); have := abs_nonneg (W.dot d : ℝ); linarith
  have hωM : ω ≤ M := by
    rw [hM]; have := abs_nonneg (W.dot c : ℝ); have := abs_nonneg (W.dot d : ℝ); linarith
  have hℓε : ℓ * ε ≤ 1 / (8 * M) := by
    have : ℓ * ε ≤ M * ε := mul_le_mul_of_nonneg_right hℓM hεpos.le
    linarith
  have hωε : ω * ε ≤ 1 / (8 * M) := by
    have : ω * ε ≤ M * ε := mul_le_mul_of_nonneg_right hωM hεpos.le
    linarith
  obtain R := H ε hεpos hεlt
  have r1 : Realised pts ε a c b := R a ma c mc b mb
  have r2 : Realised pts ε c b d := R c mc b mb d md
  have r3 : Realised pts ε b d a := R b mb d md a ma
  have r4 : Realised pts ε d a c := R d md a ma c mc
  unfold Realised at r1 r2 r3 r4
  -- the perturbed points
  set A := pertPt pts ε a with hA
  set B := pertPt pts ε b with hB
  set C := pertPt pts ε c with hC
  set D := pertPt pts ε d with hD
  rw [r1] at h0 h2 h3 h4
  rw [r2] at h2
  rw [r3] at h3
  rw [r4] at h4
  have hs : (0 < detR A C B ∧ 0 < detR C B D ∧ 0 < detR B D A ∧ 0 < detR D A C) ∨
      (detR A C B < 0 ∧ detR C B D < 0 ∧ detR B D A < 0 ∧ detR D A C < 0) := by
    rcases rsgn_cases (detR A C B) with h | h | h
    · left
      exact ⟨rsgn_eq_one h, rsgn_eq_one (h2.trans h), rsgn_eq_one (h3.trans h), rsgn_eq_one (h4.trans h)⟩
    · right
      exact ⟨rsgn_eq_neg_one h, rsgn_eq_neg_one (h2.trans h), rsgn_eq_neg_one (h3.trans h),
        rsgn_eq_neg_one (h4.trans h)⟩
    · exact absurd h h0
  -- bounds on the functionals
  have dTa := abs_le.mp (dot_perturb T a (rankIn pts a) hεpos.le hε1)
  have dTb := abs_le.mp (dot_perturb T b (rankIn pts b) hεpos.le hε1)
  have dTc := abs_le.mp (dot_perturb T c (rankIn pts c) hεpos.le hε1)
  have dTd := abs_le.mp (dot_perturb T d (rankIn pts d) hεpos.le hε1)
  have dWa := abs_le.mp (dot_perturb W a (rankIn pts a) hεpos.le hε1)
  have dWb := abs_le.mp (dot_perturb W b (rankIn pts b) hεpos.le hε1)
  have dWc := abs_le.mp (dot_perturb W c (rankIn pts c) hεpos.le hε1)
  have dWd := abs_le.mp (dot_perturb W d (rankIn pts d) hεpos.le hε1)
  have iTa : (T.dot a : ℝ) ≤ 0 := by exact_mod_cast hTa
  have iTb : (T.dot b : ℝ) ≤ 0 := by exact_mod_cast hTb
  have iTc : (1 : ℝ) ≤ (T.dot c : ℝ) := by exact_mod_cast (Int.add_one_le_iff.mpr hTc)
  have iTd : (1 : ℝ) ≤ (T.dot d : ℝ) := by exact_mod_cast (Int.add_one_le_iff.mpr hTd)
  have iWa : (1 : ℝ) ≤ (W.dot a : ℝ) := by exact_mod_cast (Int.add_one_le_iff.mpr hWa)
  have iWb : (1 : ℝ) ≤ (W.dot b : ℝ) := by exact_mod_cast (Int.add_one_le_iff.mpr hWb)
  have hcK : (W.dot c : ℝ) ≤ |(W.dot c : ℝ)| := le_abs_self _
  have hdK : (W.dot d : ℝ) ≤ |(W.dot d : ℝ)| := le_abs_self _
  have hη0 : (0 : ℝ) ≤ 1 / (8 * M) := by positivity
  refine four_same_contra (T := tR T) (W := tR W) (m := 1 / 2) (n := 1 / 2) (K := M) (η := 1 / (8 * M)) hs
    (by norm_num) (by norm_num) hη0 ?_ ?_ ?_ ?_ ?_ ?_ ?_ ?_ ?_
  · have : M * (1 / (8 * M)) = 1 / 8 := by field_simp
    rw [this]; norm_num
  · show 1 / 2 ≤ dotR (tR T) (perturbRank c (rankIn pts c) ε); linarith [dTc.1]
  · show 1 / 2 ≤ dotR (tR T) (perturbRank d (rankIn pts d) ε); linarith [dTd.1]
  · show dotR (tR T) (perturbRank a (rankIn pts a) ε) ≤ 1 / (8 * M); linarith [dTa.2]
  · show dotR (tR T) (perturbRank b (rankIn pts b) ε) ≤ 1 / (8 * M); linarith [dTb.2]
  · show 1 / 2 ≤ dotR (tR W) (perturbRank a (rankIn pts a) ε); linarith [dWa.1]
  · show 1 / 2 ≤ dotR (tR W) (perturbRank b (rankIn pts b) ε); linarith [dWb.1]
  · show dotR (tR W) (perturbRank c (rankIn pts c) ε) ≤ M
    have := dWc.2; rw [hM]; have := abs_nonneg (W.dot d : ℝ); linarith
  · show dotR (tR W) (perturbRank d (rankIn pts d) ε) ≤ M
    have := dWd.2; rw [hM]; have := abs_nonneg (W.dot c : ℝ); linarith

/-- non-vacuity: AB along the equator from (1,0,0) to (0,1,0), CD beyond A; `T = a × (a × b)·(−1)`-like -/
example : ∃ a b c d T W : IV3, T.dot a ≤ 0 ∧ T.dot b ≤ 0 ∧ 0 < T.dot c ∧ 0 < T.dot d ∧ 0 < W.dot a ∧ 0 < W.dot b :=
  ⟨⟨2, 0, 0⟩, ⟨0, 2, 0⟩, ⟨2, -1, 1⟩, ⟨2, -1, -1⟩, ⟨0, -1, 0⟩, ⟨1, 1, 0⟩, by decide⟩

end S2Proofs.FE2
