/-
  Helper lemmas for the index-query theorems (C06_Index): `List.any` congruence, `uniqueInts`.
-/
import S2.Contain
import Mathlib.Data.List.Basic
namespace S2Proofs.Contain
open S2 S2.Contain

theorem any_congr' {α : Type} (l : List α) (f g : α → Bool) (h : ∀ x ∈ l, f x = g x) :
    l.any f = l.any g := by
  induction l with
  | nil => rfl
  | cons x xs ih => simp [List.any_cons, h x (by simp), ih (fun y hy => h y (by simp [hy]))]

theorem mem_insertSorted (x y : Nat) (l : List Nat) :
    y ∈ insertSorted x l ↔ y = x ∨ y ∈ l := by
  induction l with
  | nil => simp [insertSorted]
  | cons z zs ih =>
    unfold insertSorted
    split
    · simp
    · split
      · rename_i _ h
        have : x = z := by simpa using h
        subst this; simp
      · simp only [List.mem_cons, ih]
        constructor
        · rintro (h | h | h) <;> simp [h]
        · rintro (h | h | h) <;> simp [h]

theorem pairwise_insertSorted (x : Nat) (l : List Nat) (h : l.Pairwise (· < ·)) :
    (insertSorted x l).Pairwise (· < ·) := by
  induction l with
  | nil => simp [insertSorted]
  | cons z zs ih =>
    unfold insertSorted
    have hz := List.pairwise_cons.1 h
    split
    · rename_i hxz
      refine List.pairwise_cons.2 ⟨?_, h⟩
      intro a ha
      rcases List.mem_cons.1 ha with rfl | ha
      · exact hxz
      · exact Nat.lt_trans hxz (hz.1 a ha)
    · split
      · exact h
      · rename_i hxz hne
        refine List.pairwise_cons.2 ⟨?_, ih hz.2⟩
        intro a ha
        rcases (mem_insertSorted x a zs).1 ha with rfl | ha
        · have : a ≠ z := by simpa using hne
          omega
        · exact hz.1 a ha

theorem uniqueInts_spec (l : List Nat) :
    (uniqueInts l).Pairwise (· < ·) ∧ ∀ y, y ∈ uniqueInts l ↔ y ∈ l := by
  unfold uniqueInts
  have gen : ∀ (acc : List Nat), acc.Pairwise (· < ·) →
      ((l.foldl (fun acc x => insertSorted x acc) acc).Pairwise (· < ·) ∧
        ∀ y, y ∈ l.foldl (fun acc x => insertSorted x acc) acc ↔ y ∈ acc ∨ y ∈ l) := by
    induction l with
    | nil => intro acc h; simp [h]
    | cons x xs ih =>
      intro acc h
      simp only [List.foldl_cons]
      obtain ⟨h1, h2⟩ := ih (insertSorted x acc) (pairwise_insertSorted x acc h)
      refine ⟨h1, fun y => ?_⟩
      rw [h2, mem_insertSorted]
      simp only [List.mem_cons]
      constructor
      · rintro ((h | h) | h) <;> simp [h]
      · rintro (h | h | h) <;> simp [h]
  obtain ⟨h1, h2⟩ := gen [] List.Pairwise.nil
  exact ⟨h1, fun y => by simp [h2]⟩

end S2Proofs.Contain
