/-
  S2Proofs.Contain.Cocycle — the crossing-parity cocycle of `S2.Contain` from the chirotope laws of the
  orientation sign, for an abstract geometry `Geo P` relative to a set `S` of points.

    * `five_enum`      the five-point lemma as pure sign combinatorics: for ten signs ±1 that satisfy four of the
                       five three-term Grassmann–Plücker relations on five points v w A B C,
                           X(AB,vw) + X(BC,vw) + X(AC,vw) ≡ In(v) + In(w)   (mod 2)
                       (`X` = the four-orientation criterion of `crossingSign`, `In(x)` = x is on the inner side of
                       the three sides of the triangle ABC).  All 2^10 patterns, kernel-checked.
    * `ChiroOn G S`    the laws a geometry needs: `==` an equivalence, the sign alternating, ±1 on points that are
                       pairwise not `==`, compatible with `==`, three-term Grassmann–Plücker.
    * `edge_parity`    the five-point lemma for `edgeOrVertexCrossing G` (degenerate edges `v == w` included).
    * `parityCocycle_of_balanced`, `parityCocycle_chains`   closed chains: the cocycle
                       `crossParity A B es + crossParity B C es = crossParity A C es` for every concatenation of
                       closed vertex chains none of whose vertices is `==` to A, B or C.
-/
import S2.Contain
import S2Proofs.Contain.Basic
import S2Proofs.Contain.Cross
import S2Proofs.Contain.CrossOn
namespace S2Proofs.Contain
open S2 S2.Contain

/-! ### the five-point lemma, sign combinatorics -/

/-- the sign carried by a bit -/
def sB (b : Bool) : Int := if b then 1 else -1

/-- "three numbers that sum to 0": all zero, or a `+1` and a `-1` among them (sign products) -/
def gpB (t1 t2 t3 : Int) : Bool :=
  (t1 == 0 && t2 == 0 && t3 == 0) || ((t1 == 1 || t2 == 1 || t3 == 1) && (t1 == -1 || t2 == -1 || t3 == -1))

/-- the four-orientation criterion of `crossingSign a b c d` from `[abc] [abd] [cdb] [cda]` -/
def crossB (abc abd cdb cda : Int) : Bool := (abd == -abc) && (-cdb == -abc) && (cda == -abc)

/-- `x` on the inner side of AB, BC and CA, given `s = [ABC]`, `[ABx]`, `[BCx]`, `[ACx]` -/
def inB (s abx bcx acx : Int) : Bool := (abx == s) && (bcx == s) && (acx == -s)

/-- **Five-point lemma** (v w A B C; the ten signs are named by their triples).  Four Grassmann–Plücker
    relations (pivot A, B, C, v) are enough. -/
theorem five_enum : ∀ (bABv bABw bBCv bBCw bACv bACw bvwA bvwB bvwC bABC : Bool),
    gpB (sB bABC * sB bvwA) (-(sB bABv * sB bACw)) (sB bABw * sB bACv) = true →
    gpB (-sB bABC * sB bvwB) (-(-sB bABv * sB bBCw)) (-sB bABw * sB bBCv) = true →
    gpB (sB bABC * sB bvwC) (-(-sB bACv * -sB bBCw)) (-sB bACw * -sB bBCv) = true →
    gpB (sB bvwA * sB bBCv) (-(sB bvwB * sB bACv)) (sB bvwC * sB bABv) = true →
    ((crossB (sB bABv) (sB bABw) (sB bvwB) (sB bvwA) != crossB (sB bBCv) (sB bBCw) (sB bvwC) (sB bvwB))
        != crossB (sB bACv) (sB bACw) (sB bvwC) (sB bvwA)) =
      (inB (sB bABC) (sB bABv) (sB bBCv) (sB bACv) != inB (sB bABC) (sB bABw) (sB bBCw) (sB bACw)) := by
  decide +kernel

/-! ### the laws of the geometry -/

variable {P : Type}

/-- the three-term Grassmann–Plücker sign relation with pivot `x` -/
def GPrel (G : Geo P) (x a b c d : P) : Prop :=
  gpB (G.rs x a b * G.rs x c d) (-(G.rs x a c * G.rs x b d)) (G.rs x a d * G.rs x b c) = true

/-- the chirotope laws of the orientation sign, on the points of `S` -/
structure ChiroOn (G : Geo P) (S : P → Prop) : Prop where
  eqv : EqLawsOn G S
  rot : ∀ a b c, S a → S b → S c → G.rs b c a = G.rs a b c
  swap : ∀ a b c, S a → S b → S c → G.rs b a c = -(G.rs a b c)
  range : ∀ a b c, S a → S b → S c → G.rs a b c = -1 ∨ G.rs a b c = 0 ∨ G.rs a b c = 1
  unit : ∀ a b c, S a → S b → S c → G.eq a b = false → G.eq b c = false → G.eq a c = false →
    G.rs a b c = 1 ∨ G.rs a b c = -1
  congr : ∀ a b c c', S a → S b → S c → S c' → G.eq c c' = true → G.rs a b c = G.rs a b c'
  gp : ∀ x a b c d, S x → S a → S b → S c → S d → GPrel G x a b c d

/-- `x` is on the inner side of the three sides of the triangle `A B C` -/
def inTri (G : Geo P) (A B C x : P) : Bool :=
  inB (G.rs A B C) (G.rs A B x) (G.rs B C x) (G.rs A C x)

section
variable {G : Geo P} {S : P → Prop}

theorem eovc_of_ne {a b c d : P} (hac : G.eq a c = false) (had : G.eq a d = false)
    (hbc : G.eq b c = false) (hbd : G.eq b d = false) (hab : G.eq a b = false) (hcd : G.eq c d = false) :
    edgeOrVertexCrossing G a b c d = crossB (G.rs a b c) (G.rs a b d) (G.rs c d b) (G.rs c d a) := by
  unfold edgeOrVertexCrossing crossingSign crossB
  simp only [hac, had, hbc, hbd, hab, hcd, Bool.or_self, Bool.false_eq_true, ↓reduceIte]
  generalize G.rs a b c = x
  generalize G.rs a b d = y
  generalize G.rs c d b = u
  generalize G.rs c d a = w
  by_cases h1 : y = -x <;> by_cases h2 : -u = -x <;> by_cases h3 : w = -x <;> simp [h1, h2, h3]

theorem exists_sB {x : Int} (h : x = 1 ∨ x = -1) : ∃ b, x = sB b := by
  rcases h with h | h
  · exact ⟨true, h⟩
  · exact ⟨false, h⟩

/-- **Five-point lemma for the crossing function**: for an edge `v w` none of whose endpoints is `==` to a corner
    of the triangle `A B C`, the number of sides of the triangle it crosses has the parity of
    `inTri v + inTri w`. -/
theorem edge_parity (h : ChiroOn G S) {A B C v w : P} (hA : S A) (hB : S B) (hC : S C) (hv : S v) (hw : S w)
    (hAB : G.eq A B = false) (hBC : G.eq B C = false) (hAC : G.eq A C = false)
    (hAv : G.eq A v = false) (hBv : G.eq B v = false) (hCv : G.eq C v = false)
    (hAw : G.eq A w = false) (hBw : G.eq B w = false) (hCw : G.eq C w = false) :
    ((edgeOrVertexCrossing G A B v w != edgeOrVertexCrossing G B C v w) != edgeOrVertexCrossing G A C v w) =
      (inTri G A B C v != inTri G A B C w) := by
  by_cases hvw : G.eq v w = true
  · -- a degenerate edge crosses nothing, and its two endpoints are on the same sides
    rw [eovc_degenerate_edge G A B v w hvw, eovc_degenerate_edge G B C v w hvw,
      eovc_degenerate_edge G A C v w hvw]
    unfold inTri
    rw [h.congr A B v w hA hB hv hw hvw, h.congr B C v w hB hC hv hw hvw, h.congr A C v w hA hC hv hw hvw]
    simp
  · simp only [Bool.not_eq_true] at hvw
    have c : ∀ {a b : P}, S a → S b → G.eq a b = G.eq b a := fun ha hb => eq_comm_on h.eqv ha hb
    have hvA : G.eq v A = false := by rw [c hv hA]; exact hAv
    have hvB : G.eq v B = false := by rw [c hv hB]; exact hBv
    have hvC : G.eq v C = false := by rw [c hv hC]; exact hCv
    have hwA : G.eq w A = false := by rw [c hw hA]; exact hAw
    have hwB : G.eq w B = false := by rw [c hw hB]; exact hBw
    have hwC : G.eq w C = false := by rw [c hw hC]; exact hCw
    rw [eovc_of_ne hAv hAw hBv hBw hAB hvw, eovc_of_ne hBv hBw hCv hCw hBC hvw,
      eovc_of_ne hAv hAw hCv hCw hAC hvw]
    unfold inTri
    -- the four Grassmann–Plücker relations, brought to the ten named signs
    have gA := h.gp A B C v w hA hB hC hv hw
    have gB := h.gp B A C v w hB hA hC hv hw
    have gC := h.gp C A B v w hC hA hB hv hw
    have gv := h.gp v w A B C hv hw hA hB hC
    unfold GPrel at gA gB gC gv
    have r1 : G.rs A v w = G.rs v w A := (h.rot A v w hA hv hw).symm
    have r2 : G.rs B v w = G.rs v w B := (h.rot B v w hB hv hw).symm
    have r3 : G.rs C v w = G.rs v w C := (h.rot C v w hC hv hw).symm
    have r4 : G.rs B A C = -(G.rs A B C) := h.swap A B C hA hB hC
    have r5 : G.rs B A v = -(G.rs A B v) := h.swap A B v hA hB hv
    have r6 : G.rs B A w = -(G.rs A B w) := h.swap A B w hA hB hw
    have r7 : G.rs C A B = G.rs A B C := by rw [← h.rot C A B hC hA hB]
    have r8 : G.rs C A v = -(G.rs A C v) := h.swap A C v hA hC hv
    have r9 : G.rs C A w = -(G.rs A C w) := h.swap A C w hA hC hw
    have r10 : G.rs C B v = -(G.rs B C v) := h.swap B C v hB hC hv
    have r11 : G.rs C B w = -(G.rs B C w) := h.swap B C w hB hC hw
    have r12 : G.rs v B C = G.rs B C v := by rw [← h.rot v B C hv hB hC]
    have r13 : G.rs v A C = G.rs A C v := by rw [← h.rot v A C hv hA hC]
    have r14 : G.rs v A B = G.rs A B v := by rw [← h.rot v A B hv hA hB]
    rw [r1] at gA
    rw [r4, r2, r5, r6] at gB
    rw [r7, r3, r8, r9, r10, r11] at gC
    rw [r12, r13, r14] at gv
    obtain ⟨bABv, e1⟩ := exists_sB (h.unit A B v hA hB hv hAB hBv hAv)
    obtain ⟨bABw, e2⟩ := exists_sB (h.unit A B w hA hB hw hAB hBw hAw)
    obtain ⟨bBCv, e3⟩ := exists_sB (h.unit B C v hB hC hv hBC hCv hBv)
    obtain ⟨bBCw, e4⟩ := exists_sB (h.unit B C w hB hC hw hBC hCw hBw)
    obtain ⟨bACv, e5⟩ := exists_sB (h.unit A C v hA hC hv hAC hCv hAv)
    obtain ⟨bACw, e6⟩ := exists_sB (h.unit A C w hA hC hw hAC hCw hAw)
    obtain ⟨bvwA, e7⟩ := exists_sB (h.unit v w A hv hw hA hvw hwA hvA)
    obtain ⟨bvwB, e8⟩ := exists_sB (h.unit v w B hv hw hB hvw hwB hvB)
    obtain ⟨bvwC, e9⟩ := exists_sB (h.unit v w C hv hw hC hvw hwC hvC)
    obtain ⟨bABC, e10⟩ := exists_sB (h.unit A B C hA hB hC hAB hBC hAC)
    simp only [e1, e2, e3, e4, e5, e6, e7, e8, e9, e10] at gA gB gC gv ⊢
    exact five_enum bABv bABw bBCv bBCw bACv bACw bvwA bvwB bvwC bABC gA gB gC gv

/-! ### closed chains -/

/-- along an open chain the end-point differences telescope -/
theorem xorAll_pathEdges (t : P → Bool) (a z : P) (l : List P) :
    xorAll ((pathEdges (a :: l ++ [z])).map fun e => t e.1 != t e.2) = (t a != t z) := by
  induction l generalizing a with
  | nil => simp [pathEdges]
  | cons b l ih =>
    have := ih b
    simp only [List.cons_append, pathEdges, List.map_cons, xorAll_cons] at this ⊢
    rw [this]
    cases t a <;> cases t b <;> cases t z <;> rfl

/-- in a closed chain every vertex is the head of one edge and the tail of the next -/
theorem xorAll_loopEdges (t : P → Bool) (vs : List P) :
    xorAll ((loopEdges vs).map fun e => t e.1 != t e.2) = false := by
  cases vs with
  | nil => simp [loopEdges]
  | cons v rest => rw [loopEdges_cons, xorAll_pathEdges]; simp

/-- … and so for a concatenation of closed chains -/
theorem xorAll_chains (t : P → Bool) (chains : List (List P)) :
    xorAll ((chains.flatMap loopEdges).map fun e => t e.1 != t e.2) = false := by
  rw [xorAll_flatMap]
  exact xorAll_map_false _ _ (fun vs _ => xorAll_loopEdges t vs)

/-- no endpoint of an edge of `es` is `==` to `x` -/
def OffEdges (G : Geo P) (x : P) (es : List (P × P)) : Prop :=
  ∀ e ∈ es, G.eq x e.1 = false ∧ G.eq x e.2 = false

/-- **The cocycle for a balanced edge set**: if the `inTri` differences of the edges cancel (true for closed
    chains) and no edge endpoint is `==` to a corner, the crossing parities of the three sides of the triangle
    `A B C` with the edge set add up to 0. -/
theorem parityCocycle_of_balanced (h : ChiroOn G S) {A B C : P} (hA : S A) (hB : S B) (hC : S C)
    (hAB : G.eq A B = false) (hBC : G.eq B C = false) (hAC : G.eq A C = false)
    {es : List (P × P)} (hes : EdgesIn S es)
    (oA : OffEdges G A es) (oB : OffEdges G B es) (oC : OffEdges G C es)
    (hbal : xorAll (es.map fun e => inTri G A B C e.1 != inTri G A B C e.2) = false) :
    (crossParity G A B es != crossParity G B C es) = crossParity G A C es := by
  have key : xorAll (es.map fun e => (edgeOrVertexCrossing G A B e.1 e.2 != edgeOrVertexCrossing G B C e.1 e.2)
      != edgeOrVertexCrossing G A C e.1 e.2) = false := by
    rw [← hbal]
    congr 1
    apply List.map_congr_left
    intro e he
    exact edge_parity h hA hB hC (hes e he).1 (hes e he).2 hAB hBC hAC (oA e he).1 (oB e he).1 (oC e he).1
      (oA e he).2 (oB e he).2 (oC e he).2
  have k1 := xorAll_map_bne (fun e : P × P => (edgeOrVertexCrossing G A B e.1 e.2 != edgeOrVertexCrossing G B C e.1 e.2))
    (fun e => edgeOrVertexCrossing G A C e.1 e.2) es
  have k2 := xorAll_map_bne (fun e : P × P => edgeOrVertexCrossing G A B e.1 e.2)
    (fun e => edgeOrVertexCrossing G B C e.1 e.2) es
  replace key := k1.symm.trans key
  rw [k2] at key
  clear k1 k2
  unfold crossParity
  revert key
  generalize xorAll (es.map fun e => edgeOrVertexCrossing G A B e.1 e.2) = x
  generalize xorAll (es.map fun e => edgeOrVertexCrossing G B C e.1 e.2) = y
  generalize xorAll (es.map fun e => edgeOrVertexCrossing G A C e.1 e.2) = z
  cases x <;> cases y <;> cases z <;> simp

/-- the vertices of the chains are in `S` and none is `==` to `x` -/
def OffChains (G : Geo P) (S : P → Prop) (x : P) (chains : List (List P)) : Prop :=
  ∀ vs ∈ chains, ∀ v ∈ vs, S v ∧ G.eq x v = false

theorem mem_flatMap_loopEdges {chains : List (List P)} {e : P × P} (he : e ∈ chains.flatMap loopEdges) :
    ∃ vs ∈ chains, e.1 ∈ vs ∧ e.2 ∈ vs := by
  obtain ⟨vs, hvs, hm⟩ := List.mem_flatMap.1 he
  exact ⟨vs, hvs, loopEdges_mem hm⟩

/-- **The cocycle for closed chains** (loops, polygons = several loops): for every concatenation of closed
    vertex chains none of whose vertices is `==` to `A`, `B` or `C`. -/
theorem parityCocycle_chains (h : ChiroOn G S) {A B C : P} (hA : S A) (hB : S B) (hC : S C)
    (hAB : G.eq A B = false) (hBC : G.eq B C = false) (hAC : G.eq A C = false)
    {chains : List (List P)} (oA : OffChains G S A chains) (oB : OffChains G S B chains)
    (oC : OffChains G S C chains) :
    (crossParity G A B (chains.flatMap loopEdges) != crossParity G B C (chains.flatMap loopEdges)) =
      crossParity G A C (chains.flatMap loopEdges) := by
  refine parityCocycle_of_balanced h hA hB hC hAB hBC hAC ?_ ?_ ?_ ?_ (xorAll_chains _ chains)
  · intro e he
    obtain ⟨vs, hvs, h1, h2⟩ := mem_flatMap_loopEdges he
    exact ⟨(oA vs hvs _ h1).1, (oA vs hvs _ h2).1⟩
  · intro e he
    obtain ⟨vs, hvs, h1, h2⟩ := mem_flatMap_loopEdges he
    exact ⟨(oA vs hvs _ h1).2, (oA vs hvs _ h2).2⟩
  · intro e he
    obtain ⟨vs, hvs, h1, h2⟩ := mem_flatMap_loopEdges he
    exact ⟨(oB vs hvs _ h1).2, (oB vs hvs _ h2).2⟩
  · intro e he
    obtain ⟨vs, hvs, h1, h2⟩ := mem_flatMap_loopEdges he
    exact ⟨(oC vs hvs _ h1).2, (oC vs hvs _ h2).2⟩

/-- one closed chain -/
theorem parityCocycle_loop (h : ChiroOn G S) {A B C : P} (hA : S A) (hB : S B) (hC : S C)
    (hAB : G.eq A B = false) (hBC : G.eq B C = false) (hAC : G.eq A C = false)
    {vs : List P} (hvs : ∀ v ∈ vs, S v)
    (oA : ∀ v ∈ vs, G.eq A v = false) (oB : ∀ v ∈ vs, G.eq B v = false) (oC : ∀ v ∈ vs, G.eq C v = false) :
    (crossParity G A B (loopEdges vs) != crossParity G B C (loopEdges vs)) = crossParity G A C (loopEdges vs) := by
  have := parityCocycle_chains h hA hB hC hAB hBC hAC (chains := [vs])
    (fun l hl v hv => by simp at hl; subst hl; exact ⟨hvs v hv, oA v hv⟩)
    (fun l hl v hv => by simp at hl; subst hl; exact ⟨hvs v hv, oB v hv⟩)
    (fun l hl v hv => by simp at hl; subst hl; exact ⟨hvs v hv, oC v hv⟩)
  simpa using this

end

end S2Proofs.Contain
